#!/bin/bash
# usage: selftest/sweep_seeds.sh "<seeds>" [ids…]   — runs the quick checks on /repo at several VERIF_SEED values, 4 at a time
seeds=${1:-"1 2 3"}; shift
ids=${@:-$(seq -f "C%02g" 1 20)}
out=/verif/.work/sweep; mkdir -p $out
for s in $seeds; do
  for id in $ids; do
    echo "$s $id"
  done
done | xargs -P 4 -L 1 bash -c 'VERIF_SEED=$0 /verif/check $1 quick > /verif/.work/sweep/$1.s$0.log 2>&1; echo "seed=$0 $1 rc=$? $(grep -c VIOLATION /verif/.work/sweep/$1.s$0.log) violations; $(tail -1 /verif/.work/sweep/$1.s$0.log | cut -c1-160)"'
