#!/bin/bash
# selftest/recheck_seeded.sh [name-glob]
# Regression over the stored seeded changes: applies every seeded/<name>/patch.diff
# to a scratch worktree of /repo HEAD (never /repo itself), runs the property's
# quick check against it and expects exit 1. Prints one line per change and a
# summary; the scratch copies are removed. Results: selftest/RECHECK_RESULTS.txt
set -u
export GOFLAGS=-mod=mod GOPROXY=off GOSUMDB=off GOTOOLCHAIN=local
root=$(cd "$(dirname "$0")/.." && pwd)
glob=${1:-*}
out=$root/selftest/RECHECK_RESULTS.txt
: > "$out.tmp"
one() {
  d=$1; name=$(basename "$d"); id=${name%%-*}
  scratch=/tmp/recheck/$name
  rm -rf "$scratch"; mkdir -p /tmp/recheck
  git -C /repo worktree add -q --detach "$scratch" HEAD || { echo "$name worktree-failed"; return; }
  if ! git -C "$scratch" apply "$d/patch.diff" 2>/dev/null; then
    echo "$name PATCH-DOES-NOT-APPLY"
  else
    o=$(cd "$root" && VERIF_REPO=$scratch ./check "$id" quick 2>&1); rc=$?
    keys=$(echo "$o" | grep -oE "key=[^ ]+" | sort -u | head -2 | tr '\n' ' ')
    echo "$name exit=$rc $keys"
  fi
  git -C /repo worktree remove --force "$scratch" >/dev/null 2>&1; rm -rf "$scratch"
}
export -f one; export root
ls -d "$root"/seeded/$glob/ 2>/dev/null | grep -v RESULTS | xargs -P ${RECHECK_PAR:-3} -I{} bash -c 'one {}' | tee -a "$out.tmp"
sort "$out.tmp" > "$out"; rm -f "$out.tmp"
echo "== not caught:"; grep -v "exit=1 " "$out" || echo "(none)"
