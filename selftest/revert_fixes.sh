#!/bin/bash
# For every "fixed:" line of KNOWN_FINDINGS.txt: revert that commit on a scratch
# worktree of /repo and expect the property's quick check to report a VIOLATION.
# Output: selftest/REVERT_RESULTS.txt
set -u
export GOFLAGS=-mod=mod GOPROXY=off GOSUMDB=off GOTOOLCHAIN=local
root=$(cd "$(dirname "$0")/.." && pwd)
out=$root/selftest/REVERT_RESULTS.txt
: > "$out"
grep '^fixed:' "$root/KNOWN_FINDINGS.txt" | while read -r _ prop commit rest; do
  id=${prop#property=}
  scratch=/tmp/mutcheck/revert-$id-$commit
  rm -rf "$scratch"; mkdir -p /tmp/mutcheck
  git -C /repo worktree add -q --detach "$scratch" HEAD || continue
  if ! git -C "$scratch" revert --no-commit "$commit" >/dev/null 2>&1; then
    echo "$id $commit REVERT-CONFLICT (later commits touch the same lines)" >> "$out"
    git -C /repo worktree remove --force "$scratch"; continue
  fi
  if ! (cd "$scratch" && go build ./... >/dev/null 2>&1); then
    echo "$id $commit REVERT-DOES-NOT-BUILD" >> "$out"
    git -C /repo worktree remove --force "$scratch"; continue
  fi
  res=$(cd "$root" && VERIF_REPO=$scratch ./check "$id" quick 2>&1); rc=$?
  keys=$(echo "$res" | grep -oE '^VIOLATION[^ ]* property=[A-Z0-9]+ replay=[^ ]+ key=[^ ]+' | sed -E 's/.*key=//' | head -4 | tr '\n' ' ')
  echo "$id $commit exit=$rc ${keys:-$(echo "$res" | tail -1 | cut -c1-120)}" >> "$out"
  git -C /repo worktree remove --force "$scratch"
done
cat "$out"
