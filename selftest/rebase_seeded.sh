#!/bin/bash
# selftest/rebase_seeded.sh <old-base-commit>
# After a fix: commit in /repo some stored patches no longer apply. Each such
# patch is applied on a scratch worktree of the commit it was made against,
# committed there, cherry-picked onto the current HEAD (3-way merge) and, when
# that succeeds, written back as seeded/<id>/patch.diff (the old one is kept as
# patch.<old-base>.diff). Conflicts are listed for manual work.
set -u
old=$1
root=$(cd "$(dirname "$0")/.." && pwd)
w1=/tmp/mutcheck/rebase-old; w2=/tmp/mutcheck/rebase-new
mkdir -p /tmp/mutcheck
git -C /repo worktree remove --force $w1 2>/dev/null; git -C /repo worktree remove --force $w2 2>/dev/null
git -C /repo worktree add -q --detach $w1 $old || exit 3
git -C /repo worktree add -q --detach $w2 HEAD || exit 3
new=$(git -C /repo rev-parse --short HEAD)
for d in $root/seeded/*/; do
  p=$d/patch.diff; [ -f $p ] || continue
  git -C $w2 apply --check $p 2>/dev/null && continue
  id=$(basename $d)
  git -C $w1 checkout -q --detach $old && git -C $w1 reset -q --hard $old
  if ! git -C $w1 apply $p 2>/dev/null; then echo "$id: does not apply to $old either"; continue; fi
  git -C $w1 add -A && git -C $w1 -c user.name=x -c user.email=x@x commit -q -m "seeded $id"
  c=$(git -C $w1 rev-parse HEAD)
  git -C $w2 reset -q --hard $new
  if git -C $w2 -c user.name=x -c user.email=x@x cherry-pick $c >/dev/null 2>&1; then
    cp $p $d/patch.$old.diff
    git -C $w2 diff $new HEAD > $p
    echo "$id: rebased onto $new"
  else
    git -C $w2 cherry-pick --abort 2>/dev/null
    echo "$id: CONFLICT"
  fi
done
git -C /repo worktree remove --force $w1; git -C /repo worktree remove --force $w2; git -C /repo worktree prune
