#!/bin/bash
# selftest/ingest_wave.sh <round> <property-id> <agent-out-dir>
# Confirms the changes a seeding agent left in <agent-out-dir>/m1, m2 (patch.diff,
# demo_test.go, meta.json) with eval_mutant.sh and stores every confirmed one as
# seeded/<id>-r<round>m<k>/ (patch, demonstration, meta.json with what was run
# and what the quick check answered, the agent's notes).
set -u
round=$1; id=$2; out=$3
root=$(cd "$(dirname "$0")/.." && pwd)
for k in 1 2; do
  d=$out/m$k
  [ -f "$d/patch.diff" ] && [ -f "$d/demo_test.go" ] || { echo "$id m$k: missing files"; continue; }
  log=$(mktemp)
  "$root/selftest/eval_mutant.sh" "$id" "$d/patch.diff" "$d/demo_test.go" > "$log" 2>&1
  cat "$log"
  if grep -q "PATCH-DOES-NOT-APPLY\|DOES-NOT-BUILD" "$log"; then echo "$id m$k: NOT CONFIRMED"; rm -f "$log"; continue; fi
  line=$(grep "^demo without change" "$log")
  if ! echo "$line" | grep -q "rc=0 (want 0)" || echo "$line" | grep -q "demo with change: rc=0 " || ! echo "$line" | grep -q "suite with change: rc=0"; then
    echo "$id m$k: NOT CONFIRMED ($line)"; rm -f "$log"; continue
  fi
  dest=$root/seeded/$id-r${round}m$k
  mkdir -p "$dest"
  cp "$d/patch.diff" "$d/demo_test.go" "$dest/"
  [ -f "$out/NOTES.md" ] && cp "$out/NOTES.md" "$dest/agent_NOTES.md"
  python3 - "$d/meta.json" "$log" "$id" "$round" "$dest/meta.json" <<'PY'
import json,sys,re
src,log,pid,rnd,dst=sys.argv[1:]
try: m=json.load(open(src))
except Exception: m={}
txt=open(log).read()
ex=re.search(r'check %s: exit=(\d+)'%pid,txt)
keys=sorted(set(re.findall(r'key=(\S+)',txt)))
props={json.loads(l)['id']:json.loads(l)['title'] for l in open('/verif/properties.jsonl')}
json.dump({"property":pid,"breaks":props.get(pid,""),"what":m.get("what",""),
 "needs_to_manifest":m.get("needs_to_manifest",""),
 "origin":"independent sub-agent (round %s) given only the property text, the list of triggers already tried, and a scratch worktree of /repo"%rnd,
 "demo":{"file":"demo_test.go","command":m.get("demo_command",""),"placement":"see the header comment of the file"},
 "confirmed_by":"selftest/eval_mutant.sh on a scratch worktree of /repo HEAD: patch applies, builds, repository suite passes with it, demo fails with it and passes without it",
 "check_result":{"command":"VERIF_REPO=<scratch> ./check %s quick"%pid,"exit":int(ex.group(1)) if ex else None,"violation_keys":keys[:6]}},
 open(dst,'w'),indent=1)
PY
  echo "$id m$k: stored as $dest ($(grep "^check $id" "$log"))"
  rm -f "$log"
done
