#!/bin/bash
# selftest/retest.sh <seeded-name> [check-id]  - one stored change against the current checks
# (scratch worktree of /repo HEAD, removed afterwards); prints exit code and violation keys.
set -u
export GOFLAGS=-mod=mod GOPROXY=off GOSUMDB=off GOTOOLCHAIN=local
root=$(cd "$(dirname "$0")/.." && pwd)
name=$1; id=${2:-${name%%-*}}
scratch=/tmp/retest/$name-$$
mkdir -p /tmp/retest
git -C /repo worktree add -q --detach "$scratch" HEAD || exit 3
trap 'git -C /repo worktree remove --force "$scratch" >/dev/null 2>&1; rm -rf "$scratch"' EXIT
git -C "$scratch" apply "$root/seeded/$name/patch.diff" || { echo "$name PATCH-DOES-NOT-APPLY"; exit 3; }
o=$(cd "$root" && VERIF_REPO=$scratch ./check "$id" quick 2>&1); rc=$?
echo "$name check=$id exit=$rc $(echo "$o" | grep -oE "key=[^ ]+" | sort -u | head -12 | tr '\n' ' ')"
[ $rc -eq 2 ] && echo "$o" | grep INCONCLUSIVE | head -3
exit 0
