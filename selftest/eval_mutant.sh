#!/bin/bash
# selftest/eval_mutant.sh <property-id> <patch.diff> <demo_test.go> [check ids...]
# Confirms a seeded change on a scratch copy of /repo (never in /repo itself):
#   1. the patch applies, the tree builds, the repository suite passes with it;
#   2. the demonstration fails with the patch and passes without it;
#   3. runs the property's quick check (and any further check ids given) with
#      VERIF_REPO=<scratch>; prints the verdict lines.
# The scratch copy and its build output are removed afterwards.
set -u
export GOFLAGS=-mod=mod GOPROXY=off GOSUMDB=off GOTOOLCHAIN=local
id=$1; patch=$(readlink -f "$2"); demo=$(readlink -f "$3"); shift 3
checks=${*:-$id}
root=$(cd "$(dirname "$0")/.." && pwd)
scratch=/tmp/mutcheck/$id-$$
rm -rf "$scratch"; mkdir -p /tmp/mutcheck
git -C /repo worktree add -q --detach "$scratch" HEAD || exit 3
trap 'git -C /repo worktree remove --force "$scratch" >/dev/null 2>&1; rm -rf "$scratch"' EXIT
# where does the demo go, and how is it run?
dir=$(grep -m1 -oE '(directory|dir)[^:]*: *[`"]?[./A-Za-z0-9_-]+' "$demo" | sed -E 's/.*: *[`"]?//' )
run=$(grep -m1 -oE 'go test [^`"]*' "$demo")
[ -z "${dir:-}" ] && dir=$(echo "$run" | grep -oE '\./[A-Za-z0-9_/.-]*' | tail -1)
dir=${dir:-.}; dir=${dir%/}
echo "== $id: demo dir=$dir run='$run'"
cp "$demo" "$scratch/$dir/zz_seeded_demo_test.go" || exit 3
( cd "$scratch" && eval "$run" ) >"$scratch/demo_clean.log" 2>&1; clean_rc=$?
git -C "$scratch" apply "$patch" || { echo "PATCH-DOES-NOT-APPLY"; exit 3; }
( cd "$scratch" && go build ./... ) || { echo "DOES-NOT-BUILD"; exit 3; }
( cd "$scratch" && eval "$run" ) >"$scratch/demo_mut.log" 2>&1; mut_rc=$?
rm -f "$scratch/$dir/zz_seeded_demo_test.go"
( cd "$scratch" && go test -vet=off -count=1 ./... ) >"$scratch/suite.log" 2>&1; suite_rc=$?
echo "demo without change: rc=$clean_rc (want 0)   demo with change: rc=$mut_rc (want !=0)   suite with change: rc=$suite_rc (want 0)"
[ $clean_rc -ne 0 ] && tail -5 "$scratch/demo_clean.log"
[ $mut_rc -eq 0 ] && tail -5 "$scratch/demo_mut.log"
[ $suite_rc -ne 0 ] && grep -E "^(--- FAIL|FAIL)" "$scratch/suite.log" | head
for c in $checks; do
  out=$(cd "$root" && VERIF_REPO=$scratch ./check "$c" quick 2>&1); rc=$?
  echo "check $c: exit=$rc"
  echo "$out" | grep -E "^(VIOLATION|INCONCLUSIVE|OK)" | cut -c1-300 | head -6
done
