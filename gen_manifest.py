#!/usr/bin/env python3
# Generates MANIFEST.json from the table below (one row per property).
import json
props = [json.loads(l) for l in open('/verif/properties.jsonl')]
# id -> (technique, level text, level note, design ref)
built = {
 "C06": ("lock-step reference-model monitor with signatures evaluated by provenance (registered key + digest vs the digest the node rules demand, independent sighash model); two-pass signature generation",
         "P2PK / P2PKH / CHECKSIGVERIFY / two-check / m-of-n CHECKMULTISIG(VERIFY) spends of generated transactions: OP_CODESEPARATOR at every element position (plain, in an unexecuted IF, in an executed IF), each signature slot correct / other key / other digest / empty / high-S / undefined hash type / non-DER, keys compressed / uncompressed / hybrid / truncated / bad prefix / off curve, every (key, class) assignment for n <= 3, m-of-n up to 4 (7 thorough) plus 20-of-20 and 21 keys, all 2^7 subsets of the signature flags and era on a core set, half of the programs ending in OP_NOT to tell 'false' from 'error'. Verdict and per-step stacks must equal the model. Quick ~30k spends, thorough ~600k. Held on the executions observed.",
         "Trusts refscript + refsighash (both re-validated against node vectors each run); ECDSA itself is only executed by the library. Not generated (no vector settles them): empty signature with a malformed key under STRICTENC, FORKID-bit signatures without the FORKID flag and without STRICTENC, non-DER signatures without a DER flag, key counts wider than 4 bytes, the signature embedded in the locking script.", "DESIGN.md §3 C06"),
 "C19": ("callback-stream monitor: three debugger variants (recording, scribbling, debug.NewDebugger) vs no debugger; trace-grammar automaton; snapshot-hash continuity; lock-step reference model",
         "Each program runs four times (no debugger / recording / scribbling over every snapshot / default debugger with three attached functions per hook). Verdict and error text must be identical, the recording and scribbling callback streams (kind + snapshot hash) identical, the stream accepted by the lifecycle automaton with exactly one terminal callback matching the result, BeforeStep(k+1) = AfterStep(k), stacks per step equal to the node-rule model, attached functions FIFO. Quick ~40k programs / 3M callbacks. Held on the executions observed.",
         "The live []byte argument of stack callbacks and State.Scripts are outside 'stack data inside a snapshot' and are not scribbled. Grammar derived from the documented lifecycle.", "DESIGN.md §3 C19"),
 "C08": ("caller-buffer canary + frame-rule monitor on the library's own Before/AfterStep snapshots + lock-step reference model, over a provenance x transformer matrix",
         "16 ways of producing a twin of a stack item (script push, DUP, 2DUP, 3DUP, OVER, 2OVER, PICK, TUCK, IFDUP, SPLIT halves, alt-stack, ROT/SWAP/ROLL) x 32 value-changing opcodes x 12 operand encodings x both eras x context variants are executed; after every step everything outside the opcode's footprint must be byte-identical, the stacks must equal the node-rule model, and after Execute the caller's script buffers, tx serialisation and previous output must be unchanged (except the documented recording of the spent output). Plus the C05 random/vector/mutant programs. Held on the executions observed.",
         "Footprint table written from the opcode definitions (PICK/ROLL/CHECKMULTISIG judged by lock-step only); relies on State snapshots being deep copies (checked by C19).", "DESIGN.md §3 C08"),
 "C10": ("reference-model monitor (math/big fee/size model) on before/after snapshots of Change, ChangeToAddress, ChangeToExistingOutput",
         "Complete enumeration of output-count class {0,1,2,251-254 (+65,535 thorough)} x 8 destinations x 8 amount relations placed exactly on the model's thresholds x 24 standard quotes x {data = std, data != std}, every existing output index, and seeded random cases; conservation, untouched outputs, two-sided fee bound and the dust clause are judged. Held on the executions observed.",
         "Trusts /verif/internal/refmoney and bt.DustLimit; quotes bounded (bytes >= 1, <= 10^6 sat/byte) so that uint64 arithmetic cannot overflow.", "DESIGN.md §3 C10"),
 "C11": ("reference-model + identity monitor over Size/Estimate*/fee predicates, with signing through the library",
         "Random standard/data output partitions, the complete relation x basis x 24 x 24 independent-rate grid and 200 / 20,000 signing keys (70/71/72-byte signatures all observed): total = len(Bytes) = std + data, fee = floor formula, predicates <=> inputs - outputs >= fee, EstimateSize before signing >= Size after, missing / unsupported spent scripts give an error. Held on the executions observed.",
         "Equality of EstimateSize with the 107-byte placeholder is recorded, not judged (the statement asks for an upper bound).", "DESIGN.md §3 C11"),
 "C12": ("history monitor: instrumented UTXO supplier records every call (deficit, batch, error); the history is replayed against the refmoney deficit model",
         "All supplier scripts of <= 4 (thorough <= 5) steps over 8 step kinds x 4 starting transactions x quotes enumerated completely, plus 100k / 5M random histories: the k-th call happens only while the model's deficit is non-zero and receives exactly it; inputs = old inputs ++ returned UTXOs in order with final sequence; exhaustion -> insufficient funds; outputs untouched. Held on the histories observed.",
         "UTXOs are P2PKH with 32-byte txids; the state of inputs after a failed Fund is not judged; a runaway supplier loop is cut by a sentinel after 1000 calls.", "DESIGN.md §3 C12"),
 "C02": ("reference-model monitor (independent FORKID sighash, validated on the node's sighash vectors) + before/after canary; exhaustive 128 hash types x every index x fixed shapes, then random shapes",
         "All 128 eight-bit FORKID hash types x every in-range and out-of-range input index x 50 fixed shapes (1-6 inputs, 0-6 outputs, script lengths 0/1/252/253/65535/65536) are executed and the preimage compared byte for byte, the digest with sha256d of the reference preimage; then 5k/300k random shapes; error classes must return an error and never panic; the transaction snapshot is unchanged. Held on the executions observed.",
         "Trusts /verif/internal/refsighash (re-validated each run: 500/500 sighash_bip143.json vectors) and crypto/sha256; other inputs always have 32-byte txids; hash types are 8-bit.", "DESIGN.md §3 C02"),
 "C03": ("reference-model monitor (independent Satoshi legacy sighash incl. the SINGLE=1 rule, validated on the node's vectors) + before/after canary + result-aliasing probe",
         "As C02 with the 128 hash types without the FORKID bit; additionally SINGLE with index >= #outputs must yield exactly 01 00..00 unhashed, also after a caller modified a previously returned result. Held on the executions observed.",
         "Script code is passed verbatim (code-separator stripping is the caller's job); out-of-range / malformed inputs are only checked for no panic and no modification; trusts refsighash (500/500 sighash_legacy.json vectors).", "DESIGN.md §3 C03"),
 "C04": ("sign-through-library / verify-through-interpreter monitor with single-field mutation; expected verdict from reference-digest equality; static commitment-table cross-check",
         "Every shape 1-5 x 0-5 x signed position x 6 FORKID + 6 legacy hash types (plus random shapes, FillAllInputs) is signed by the library, must be accepted by Engine.Execute, and every single-field mutant (version, locktime, each outpoint/sequence, each output value/script, output/input insertion/removal, spent value, spent script) is executed: accepted <=> reference digest unchanged. Quick ~1.5k signed inputs / 62k verifications, thorough ~40k / 1.7M. Held on the executions observed.",
         "P2PKH and P2PKH-inscription outputs only; ECDSA is go-bk (shared with the library); legacy types are verified without WithForkID; interpreter error codes are recorded, not judged.", "DESIGN.md §3 C04"),
 "C07": ("recover/child-death totality monitor over hostile scripts, flag words, transaction-context modes and debuggers; progress-marker attribution with single-case confirmation",
         "~570k (quick) / ~17M (thorough) Execute calls on random bytes, truncations and mutations of the node vectors, structured programs and opcode x operand enumerations, with flag words from all 2^16, twelve transaction-context modes (incl. nil tx, missing previous output, bad indices) and three debugger settings. A panic, a child death (fatal error, os.Exit) or a confirmed non-return is a violation. Held on the executions observed.",
         "Termination is bounded progress (600 s alone). Programs whose node-rule execution builds an element above 4 MiB are filtered out by the reference model (they only measure allocation speed). Children run under a 24 GiB address-space limit.", "DESIGN.md §3 C07"),
 "C05": ("lock-step reference-model monitor: recording Debugger (public API) vs an independent transcription of the node's EvalScript/VerifyScript",
         "Every program (node vectors, exhaustive opcode x edge-operand tuples in both eras, shift-count sweeps, all 2^9 non-signature flag subsets on a core set, structured random programs, vector mutants) is executed by the real interpreter and by the model; the verdict and the data/alt stacks after every instruction must agree. Held on the programs executed; the evidence lists per-opcode x era coverage and the number of steps compared.",
         "Trusts /verif/internal/refscript (re-validated on every run against the node's script_tests.json: >1200 non-signature vectors reproduced). Error codes are not compared. Out of domain: CLEANSTACK without P2SH, P2SH-shaped outputs spent by non-push-only scripts after Genesis, elements > 4 MiB, signature opcodes (C06).", "DESIGN.md §3 C05, §7"),
 "C17": ("reference-model monitor (independent BIP276 codec) over exhaustive version x network enumeration and single-character corruptions",
         "Every one of the 65,025 version/network pairs x 2 prefixes x payload classes is encoded and decoded by the real code and compared with an independent codec; every single-character corruption of sampled encodings is fed to the decoder. Held on the executions observed; the version/network domain is enumerated completely, payloads and corrupted texts are sampled.",
         "Trusts the independent BIP276/SHA-256 reference in /verif/internal/refaddr; hex-case-only corruptions are not judged.", "DESIGN.md §3 C17"),
}
checks, na = [], []
for p in props:
    i = p['id']
    if i in built:
        t, text, note, ref = built[i]
        checks.append({
            "property_id": i,
            "quick_cmd": f"./check {i} quick",
            "thorough_cmd": f"./check {i} thorough",
            "evidence_file": f"/verif/evidence/{i}.json",
            "replay_cmd_template": f"./check {i} --replay {{path}}",
            "engine": "mon",
            "level_claimed": {"category": "exploration", "text": text, "design_ref": ref},
            "level_note": note,
            "technique": t,
        })
    else:
        na.append({"property_id": i, "reason": "monitor not built yet (work in progress; runtime monitoring applies, see DESIGN.md §3)"})
m = {
 "version": 1,
 "setup_cmd": "cd /verif && export GOFLAGS=-mod=mod GOPROXY=off GOSUMDB=off GOTOOLCHAIN=local && go build -tags verif -o bin/mon ./cmd/mon && go build -race -tags verif -o bin/mon-race ./cmd/mon",
 "hooks": {"guard": "verif", "enable": "go build -tags verif (no source hooks exist in /repo: every monitor observes through the public API)",
           "baseline_off_cmd": "cd /repo && GOFLAGS=-mod=mod GOPROXY=off GOSUMDB=off GOTOOLCHAIN=local go test -vet=off -count=1 ./...",
           "source_commits": [], "add_only": True},
 "engines": [{"name": "mon", "path": "/verif/cmd/mon", "serves_properties": [c["property_id"] for c in checks],
              "kind_free_text": "runtime monitors: reference-model oracles, invariant/canary monitors, trace-grammar automaton, race detector + porcupine linearizability; one child process per shard"}],
 "checks": checks,
 "notes": "Technique family: runtime monitoring and sanitizers. ./check <id> <tier> rebuilds cmd/mon against /repo's working tree, runs the workload in child processes, exit 0 held / 1 VIOLATION / 2 inconclusive. Known findings: /verif/KNOWN_FINDINGS.txt.",
 "not_applicable": na,
}
json.dump(m, open('/verif/MANIFEST.json', 'w'), indent=1)
print("checks:", len(checks), "not_applicable:", len(na))
