#!/usr/bin/env python3
# Generates MANIFEST.json from the table below (one row per property).
import json
props = [json.loads(l) for l in open('/verif/properties.jsonl')]
# id -> (technique, level text, level note, design ref)
built = {
 "C05": ("lock-step reference-model monitor: recording Debugger (public API) vs an independent transcription of the node's EvalScript/VerifyScript",
         "Every program (node vectors, exhaustive opcode x edge-operand tuples in both eras, shift-count sweeps, all 2^9 non-signature flag subsets on a core set, structured random programs, vector mutants) is executed by the real interpreter and by the model; the verdict and the data/alt stacks after every instruction must agree. Held on the programs executed; the evidence lists per-opcode x era coverage and the number of steps compared.",
         "Trusts /verif/internal/refscript (re-validated on every run against the node's script_tests.json: >1200 non-signature vectors reproduced). Error codes are not compared. Out of domain: CLEANSTACK without P2SH, P2SH-shaped outputs spent by non-push-only scripts after Genesis, elements > 4 MiB, signature opcodes (C06).", "DESIGN.md §3 C05, §7"),
 "C17": ("reference-model monitor (independent BIP276 codec) over exhaustive version x network enumeration and single-character corruptions",
         "Every one of the 65,025 version/network pairs x 2 prefixes x payload classes is encoded and decoded by the real code and compared with an independent codec; every single-character corruption of sampled encodings is fed to the decoder. Held on the executions observed; the version/network domain is enumerated completely, payloads and corrupted texts are sampled.",
         "Trusts the independent BIP276/SHA-256 reference in /verif/internal/refaddr; hex-case-only corruptions are not judged.", "DESIGN.md §3 C17"),
}
checks, na = [], []
for p in props:
    i = p['id']
    if i in built:
        t, text, note, ref = built[i]
        checks.append({
            "property_id": i,
            "quick_cmd": f"./check {i} quick",
            "thorough_cmd": f"./check {i} thorough",
            "evidence_file": f"/verif/evidence/{i}.json",
            "replay_cmd_template": f"./check {i} --replay {{path}}",
            "engine": "mon",
            "level_claimed": {"category": "exploration", "text": text, "design_ref": ref},
            "level_note": note,
            "technique": t,
        })
    else:
        na.append({"property_id": i, "reason": "monitor not built yet (work in progress; runtime monitoring applies, see DESIGN.md §3)"})
m = {
 "version": 1,
 "setup_cmd": "cd /verif && export GOFLAGS=-mod=mod GOPROXY=off GOSUMDB=off GOTOOLCHAIN=local && go build -tags verif -o bin/mon ./cmd/mon && go build -race -tags verif -o bin/mon-race ./cmd/mon",
 "hooks": {"guard": "verif", "enable": "go build -tags verif (no source hooks exist in /repo: every monitor observes through the public API)",
           "baseline_off_cmd": "cd /repo && GOFLAGS=-mod=mod GOPROXY=off GOSUMDB=off GOTOOLCHAIN=local go test -vet=off -count=1 ./...",
           "source_commits": [], "add_only": True},
 "engines": [{"name": "mon", "path": "/verif/cmd/mon", "serves_properties": [c["property_id"] for c in checks],
              "kind_free_text": "runtime monitors: reference-model oracles, invariant/canary monitors, trace-grammar automaton, race detector + porcupine linearizability; one child process per shard"}],
 "checks": checks,
 "notes": "Technique family: runtime monitoring and sanitizers. ./check <id> <tier> rebuilds cmd/mon against /repo's working tree, runs the workload in child processes, exit 0 held / 1 VIOLATION / 2 inconclusive. Known findings: /verif/KNOWN_FINDINGS.txt.",
 "not_applicable": na,
}
json.dump(m, open('/verif/MANIFEST.json', 'w'), indent=1)
print("checks:", len(checks), "not_applicable:", len(na))
