// Package vectors reads the node-generated script_tests.json (copied into
// /verif/testdata) with its own short-form script parser and opcode-name
// table, so that model validation does not depend on the tree under test.
package vectors

import (
	"encoding/hex"
	"encoding/json"
	"fmt"
	"math/big"
	"os"
	"strconv"
	"strings"

	"verif/internal/refscript"
)

var names = map[string]byte{}
var byVal [256]string

// OpName returns a display name for an opcode byte.
func OpName(b byte) string {
	if byVal[b] != "" {
		return byVal[b]
	}
	if b >= 1 && b <= 75 {
		return fmt.Sprintf("OP_DATA_%d", b)
	}
	return fmt.Sprintf("OP_UNKNOWN%d", b)
}

func init() {
	list := map[byte]string{
		0x00: "0", 0x4c: "PUSHDATA1", 0x4d: "PUSHDATA2", 0x4e: "PUSHDATA4", 0x4f: "1NEGATE", 0x50: "RESERVED",
		0x61: "NOP", 0x62: "VER", 0x63: "IF", 0x64: "NOTIF", 0x65: "VERIF", 0x66: "VERNOTIF", 0x67: "ELSE", 0x68: "ENDIF",
		0x69: "VERIFY", 0x6a: "RETURN", 0x6b: "TOALTSTACK", 0x6c: "FROMALTSTACK", 0x6d: "2DROP", 0x6e: "2DUP", 0x6f: "3DUP",
		0x70: "2OVER", 0x71: "2ROT", 0x72: "2SWAP", 0x73: "IFDUP", 0x74: "DEPTH", 0x75: "DROP", 0x76: "DUP", 0x77: "NIP",
		0x78: "OVER", 0x79: "PICK", 0x7a: "ROLL", 0x7b: "ROT", 0x7c: "SWAP", 0x7d: "TUCK", 0x7e: "CAT", 0x7f: "SPLIT",
		0x80: "NUM2BIN", 0x81: "BIN2NUM", 0x82: "SIZE", 0x83: "INVERT", 0x84: "AND", 0x85: "OR", 0x86: "XOR", 0x87: "EQUAL",
		0x88: "EQUALVERIFY", 0x89: "RESERVED1", 0x8a: "RESERVED2", 0x8b: "1ADD", 0x8c: "1SUB", 0x8d: "2MUL", 0x8e: "2DIV",
		0x8f: "NEGATE", 0x90: "ABS", 0x91: "NOT", 0x92: "0NOTEQUAL", 0x93: "ADD", 0x94: "SUB", 0x95: "MUL", 0x96: "DIV",
		0x97: "MOD", 0x98: "LSHIFT", 0x99: "RSHIFT", 0x9a: "BOOLAND", 0x9b: "BOOLOR", 0x9c: "NUMEQUAL", 0x9d: "NUMEQUALVERIFY",
		0x9e: "NUMNOTEQUAL", 0x9f: "LESSTHAN", 0xa0: "GREATERTHAN", 0xa1: "LESSTHANOREQUAL", 0xa2: "GREATERTHANOREQUAL",
		0xa3: "MIN", 0xa4: "MAX", 0xa5: "WITHIN", 0xa6: "RIPEMD160", 0xa7: "SHA1", 0xa8: "SHA256", 0xa9: "HASH160",
		0xaa: "HASH256", 0xab: "CODESEPARATOR", 0xac: "CHECKSIG", 0xad: "CHECKSIGVERIFY", 0xae: "CHECKMULTISIG",
		0xaf: "CHECKMULTISIGVERIFY", 0xb0: "NOP1", 0xb1: "CHECKLOCKTIMEVERIFY", 0xb2: "CHECKSEQUENCEVERIFY", 0xb3: "NOP4",
		0xb4: "NOP5", 0xb5: "NOP6", 0xb6: "NOP7", 0xb7: "NOP8", 0xb8: "NOP9", 0xb9: "NOP10",
		0xfa: "SMALLINTEGER", 0xfb: "PUBKEYS", 0xfd: "PUBKEYHASH", 0xfe: "PUBKEY", 0xff: "INVALIDOPCODE",
	}
	for v, n := range list {
		byVal[v] = "OP_" + n
		if n != "0" {
			names[n] = v
		}
		names["OP_"+n] = v
	}
	for i := 1; i <= 16; i++ {
		names[fmt.Sprintf("OP_%d", i)] = byte(0x50 + i)
		byVal[0x50+i] = fmt.Sprintf("OP_%d", i)
	}
	names["OP_FALSE"], names["FALSE"] = 0x00, 0x00
	names["OP_TRUE"], names["TRUE"] = 0x51, 0x51
	names["NOP2"], names["OP_NOP2"] = 0xb1, 0xb1
	names["NOP3"], names["OP_NOP3"] = 0xb2, 0xb2
	for i := 0xba; i <= 0xf9; i++ {
		names[fmt.Sprintf("OP_UNKNOWN%d", i)] = byte(i)
		names[fmt.Sprintf("UNKNOWN%d", i)] = byte(i)
	}
	names["OP_UNKNOWN252"], names["UNKNOWN252"] = 0xfc, 0xfc
}

func push(d []byte) []byte {
	n := len(d)
	var h []byte
	switch {
	case n <= 75:
		h = []byte{byte(n)}
	case n <= 255:
		h = []byte{0x4c, byte(n)}
	case n <= 65535:
		h = []byte{0x4d, byte(n), byte(n >> 8)}
	default:
		h = []byte{0x4e, byte(n), byte(n >> 8), byte(n >> 16), byte(n >> 24)}
	}
	return append(h, d...)
}

// ParseShort parses the short-form script notation of the node's test vectors.
func ParseShort(s string) ([]byte, error) {
	s = strings.NewReplacer("\n", " ", "\t", " ").Replace(s)
	var out []byte
	for _, tok := range strings.Split(s, " ") {
		if tok == "" {
			continue
		}
		if n, err := strconv.ParseInt(tok, 10, 64); err == nil {
			switch {
			case n == 0:
				out = append(out, 0x00)
			case n == -1 || (n >= 1 && n <= 16):
				out = append(out, byte(0x50+n))
			default:
				out = append(out, push(refscript.EncodeNum(big.NewInt(n)))...)
			}
			continue
		}
		if strings.HasPrefix(tok, "0x") {
			b, err := hex.DecodeString(tok[2:])
			if err != nil {
				return nil, fmt.Errorf("bad hex token %q", tok)
			}
			out = append(out, b...)
			continue
		}
		if len(tok) >= 2 && tok[0] == '\'' && tok[len(tok)-1] == '\'' {
			out = append(out, push([]byte(tok[1:len(tok)-1]))...)
			continue
		}
		if v, ok := names[tok]; ok {
			out = append(out, v)
			continue
		}
		return nil, fmt.Errorf("bad token %q", tok)
	}
	return out, nil
}

type ScriptTest struct {
	Line     int
	Unlock   []byte
	Lock     []byte
	FlagStr  string
	Flags    refscript.Flags
	Expected string // "OK" or the node's error name
	Amount   uint64
	Comment  string
}

func ParseFlags(s string) (refscript.Flags, error) {
	var f refscript.Flags
	for _, x := range strings.Split(s, ",") {
		switch x {
		case "", "NONE":
		case "P2SH":
			f |= refscript.FP2SH
		case "STRICTENC":
			f |= refscript.FStrictEnc
		case "DERSIG":
			f |= refscript.FDERSig
		case "LOW_S":
			f |= refscript.FLowS
		case "NULLDUMMY":
			f |= refscript.FNullDummy
		case "SIGPUSHONLY":
			f |= refscript.FSigPushOnly
		case "MINIMALDATA":
			f |= refscript.FMinimalData
		case "DISCOURAGE_UPGRADABLE_NOPS":
			f |= refscript.FDiscourageNops
		case "CLEANSTACK":
			f |= refscript.FCleanStack
		case "MINIMALIF":
			f |= refscript.FMinimalIf
		case "NULLFAIL":
			f |= refscript.FNullFail
		case "CHECKLOCKTIMEVERIFY":
			f |= refscript.FCLTV
		case "CHECKSEQUENCEVERIFY":
			f |= refscript.FCSV
		case "SIGHASH_FORKID":
			f |= refscript.FForkID
		case "UTXO_AFTER_GENESIS":
			f |= refscript.FGenesis
		default:
			return 0, fmt.Errorf("unknown flag %q", x)
		}
	}
	return f, nil
}

// LoadScriptTests reads script_tests.json.
func LoadScriptTests(path string) ([]ScriptTest, error) {
	raw, err := os.ReadFile(path)
	if err != nil {
		return nil, err
	}
	var all [][]json.RawMessage
	if err := json.Unmarshal(raw, &all); err != nil {
		return nil, err
	}
	var out []ScriptTest
	for i, t := range all {
		if len(t) < 4 {
			continue
		}
		st := ScriptTest{Line: i}
		off := 0
		var amt []float64
		if json.Unmarshal(t[0], &amt) == nil {
			off = 1
			if len(amt) > 0 {
				st.Amount = uint64(amt[len(amt)-1]*1e8 + 0.5)
			}
		}
		var f [4]string
		bad := false
		for k := 0; k < 4; k++ {
			if off+k >= len(t) || json.Unmarshal(t[off+k], &f[k]) != nil {
				bad = true
			}
		}
		if bad {
			continue
		}
		if off+4 < len(t) {
			json.Unmarshal(t[off+4], &st.Comment)
		}
		if st.Unlock, err = ParseShort(f[0]); err != nil {
			return nil, fmt.Errorf("vector %d: %v", i, err)
		}
		if st.Lock, err = ParseShort(f[1]); err != nil {
			return nil, fmt.Errorf("vector %d: %v", i, err)
		}
		st.FlagStr = f[2]
		if st.Flags, err = ParseFlags(f[2]); err != nil {
			return nil, fmt.Errorf("vector %d: %v", i, err)
		}
		st.Expected = f[3]
		out = append(out, st)
	}
	return out, nil
}
