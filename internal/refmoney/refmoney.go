// Package refmoney is the independent reference arithmetic for sizes, fees,
// change and funding deficits of Bitcoin SV transactions. It imports nothing
// from go-bt. Amounts and products are computed in math/big, so the model
// cannot wrap whatever the inputs are.
//
// The rules it writes down (from the wire format and the property statements,
// not from go-bt's code):
//
//	serialised size   = 4 + varint(#in) + Σin(32 + 4 + varint(len unlock) + len unlock + 4)
//	                      + varint(#out) + Σout(8 + varint(len script) + len script) + 4
//	data bytes        = Σ len(script) over outputs whose script starts 6a or 00 6a
//	standard bytes    = serialised size − data bytes
//	estimated final   = the same with a 107-byte unlocking script in place of every
//	                    empty unlocking script (P2PKH: push(71-byte DER sig + hash type) + push(33-byte key))
//	fee(quote)        = ⌊std · s/b⌋ + ⌊data · s'/b'⌋
//	deficit           = max(0, Σout + fee(estimated final) − Σin)
package refmoney

import (
	"errors"

	"fmt"
	"math/big"
	"verif/internal/refcodec"
)

// P2PKHUnlockLen is the length of the placeholder unlocking script assumed for
// an unsigned P2PKH input: 1 + 72 (DER signature of at most 71 bytes + hash
// type) + 1 + 33 (compressed public key).
const P2PKHUnlockLen = 1 + 72 + 1 + 33

// In is one input, as far as money and size are concerned.
type In struct {
	UnlockLen  int    // length of the unlocking script (0 = unsigned)
	PrevScript []byte // spent locking script
	PrevNil    bool   // spent locking script not supplied
	Sats       uint64 // spent value
}

// Out is one output.
type Out struct {
	Sats   uint64
	Script []byte
}

// Tx is a transaction shape (version and locktime are fixed-width and do not matter).
type Tx struct {
	Ins  []In
	Outs []Out
}

// Rate is "Sat satoshis per Bytes bytes"; Bytes must be >= 1.
type Rate struct{ Sat, Bytes uint64 }

// Quote carries the two mining rates.
type Quote struct{ Std, Data Rate }

// Size is the byte breakdown of a transaction.
type Size struct{ Total, Std, Data uint64 }

var (
	ErrPrevMissing     = errors.New("refmoney: spent script missing")
	ErrPrevUnsupported = errors.New("refmoney: spent script is not P2PKH")
)

// VarIntLen is the length of the Bitcoin variable-length integer encoding of n.
func VarIntLen(n uint64) uint64 {
	switch {
	case n < 0xfd:
		return 1
	case n <= 0xffff:
		return 3
	case n <= 0xffffffff:
		return 5
	}
	return 9
}

// IsData says whether a locking script is a data carrier: OP_RETURN … or OP_FALSE OP_RETURN ….
func IsData(s []byte) bool {
	return (len(s) >= 1 && s[0] == 0x6a) || (len(s) >= 2 && s[0] == 0x00 && s[1] == 0x6a)
}

// IsP2PKH says whether s is exactly OP_DUP OP_HASH160 <20 bytes> OP_EQUALVERIFY OP_CHECKSIG.
func IsP2PKH(s []byte) bool {
	return len(s) == 25 && s[0] == 0x76 && s[1] == 0xa9 && s[2] == 0x14 && s[23] == 0x88 && s[24] == 0xac
}

// OutLen is the serialised length of an output with a script of n bytes.
func OutLen(n int) uint64 { return 8 + VarIntLen(uint64(n)) + uint64(n) }

// InLen is the serialised length of an input with an unlocking script of n bytes.
func InLen(n int) uint64 { return 32 + 4 + VarIntLen(uint64(n)) + uint64(n) + 4 }

func (t *Tx) size(estimate bool) Size {
	var z Size
	z.Total = 4 + VarIntLen(uint64(len(t.Ins))) + VarIntLen(uint64(len(t.Outs))) + 4
	for i := range t.Ins {
		n := t.Ins[i].UnlockLen
		if estimate && n == 0 {
			n = P2PKHUnlockLen
		}
		z.Total += InLen(n)
	}
	for i := range t.Outs {
		s := t.Outs[i].Script
		z.Total += OutLen(len(s))
		if IsData(s) {
			z.Data += uint64(len(s))
		}
	}
	z.Std = z.Total - z.Data
	return z
}

// Size is the breakdown of the transaction as it stands.
func (t *Tx) Size() Size { return t.size(false) }

// CheckSpent reports why the final size cannot be estimated (nil when it can):
// every input must carry a P2PKH or P2PKH-inscription spent script (both are
// unlocked by <signature> <public key>, the 107-byte placeholder).
func (t *Tx) CheckSpent() error {
	for i := range t.Ins {
		if t.Ins[i].PrevNil {
			return fmt.Errorf("%w (input %d)", ErrPrevMissing, i)
		}
		if !IsP2PKH(t.Ins[i].PrevScript) && !refcodec.IsP2PKHInscription(t.Ins[i].PrevScript) {
			return fmt.Errorf("%w (input %d)", ErrPrevUnsupported, i)
		}
	}
	return nil
}

// EstSize is the breakdown of the estimated final (fully signed) transaction.
func (t *Tx) EstSize() (Size, error) {
	if err := t.CheckSpent(); err != nil {
		return Size{}, err
	}
	return t.size(true), nil
}

// EstSizeNoCheck is EstSize without looking at the spent scripts.
func (t *Tx) EstSizeNoCheck() Size { return t.size(true) }

// TotalIn is Σ spent values.
func (t *Tx) TotalIn() *big.Int {
	s := new(big.Int)
	for i := range t.Ins {
		s.Add(s, new(big.Int).SetUint64(t.Ins[i].Sats))
	}
	return s
}

// TotalOut is Σ output values.
func (t *Tx) TotalOut() *big.Int {
	s := new(big.Int)
	for i := range t.Outs {
		s.Add(s, new(big.Int).SetUint64(t.Outs[i].Sats))
	}
	return s
}

func mulDivFloor(n uint64, r Rate) *big.Int {
	if r.Bytes == 0 {
		panic("refmoney: rate with zero byte denominator")
	}
	x := new(big.Int).SetUint64(n)
	x.Mul(x, new(big.Int).SetUint64(r.Sat))
	return x.Quo(x, new(big.Int).SetUint64(r.Bytes)) // operands are non-negative: Quo == floor
}

// Fees is the fee triple.
type Fees struct{ Std, Data, Total *big.Int }

// Fee is ⌊std·s/b⌋ + ⌊data·s'/b'⌋.
func Fee(z Size, q Quote) Fees {
	f := Fees{Std: mulDivFloor(z.Std, q.Std), Data: mulDivFloor(z.Data, q.Data)}
	f.Total = new(big.Int).Add(f.Std, f.Data)
	return f
}

// FeeBytesStd is ⌊n·s/b⌋ for the standard rate (the price of n standard bytes on their own).
func FeeBytesStd(n uint64, q Quote) *big.Int { return mulDivFloor(n, q.Std) }

// Paid is Σin − Σout (may be negative).
func (t *Tx) Paid() *big.Int { return new(big.Int).Sub(t.TotalIn(), t.TotalOut()) }

// Enough is the fee-sufficiency predicate: Σin ≥ Σout and Σin − Σout ≥ fee.
func (t *Tx) Enough(fee *big.Int) bool {
	p := t.Paid()
	return p.Sign() >= 0 && p.Cmp(fee) >= 0
}

// Deficit is max(0, Σout + fee(estimated final size) − Σin).
func (t *Tx) Deficit(q Quote) (*big.Int, error) {
	z, err := t.EstSize()
	if err != nil {
		return nil, err
	}
	d := new(big.Int).Add(t.TotalOut(), Fee(z, q).Total)
	d.Sub(d, t.TotalIn())
	if d.Sign() < 0 {
		d.SetInt64(0)
	}
	return d, nil
}

// WithOutput returns a copy of the shape with one more output (the outputs
// slice is copied, scripts are shared).
func (t *Tx) WithOutput(o Out) *Tx {
	n := &Tx{Ins: t.Ins, Outs: make([]Out, len(t.Outs), len(t.Outs)+1)}
	copy(n.Outs, t.Outs)
	n.Outs = append(n.Outs, o)
	return n
}

// FeeWithChangeOutput is the fee the quote asks for the estimated final size of
// the transaction once an output with a script of scriptLen bytes has been
// appended (the growth of the output-count varint included). The script must
// not be a data script. Spent scripts are not examined.
func (t *Tx) FeeWithChangeOutput(scriptLen int, q Quote) *big.Int {
	z := t.size(true)
	z.Total += OutLen(scriptLen) + VarIntLen(uint64(len(t.Outs))+1) - VarIntLen(uint64(len(t.Outs)))
	z.Std = z.Total - z.Data
	return Fee(z, q).Total
}

// Slack is the bounded excess the change property tolerates: the price of nine
// standard bytes plus nine satoshis.
func Slack(q Quote) *big.Int {
	s := mulDivFloor(9, q.Std)
	return s.Add(s, big.NewInt(9))
}

// U64 converts a non-negative value that fits; ok is false otherwise.
func U64(x *big.Int) (uint64, bool) {
	if x.Sign() < 0 || !x.IsUint64() {
		return 0, false
	}
	return x.Uint64(), true
}

// SelfTest checks the model against figures that are public knowledge about the
// wire format (sizes of the standard P2PKH transaction layouts, varint class
// boundaries) and against hand-computed floor arithmetic.
func SelfTest() error {
	p2pkh := make([]byte, 25)
	copy(p2pkh, []byte{0x76, 0xa9, 0x14})
	p2pkh[23], p2pkh[24] = 0x88, 0xac
	mk := func(nin, nout, unlock int) *Tx {
		t := &Tx{}
		for i := 0; i < nin; i++ {
			t.Ins = append(t.Ins, In{UnlockLen: unlock, PrevScript: p2pkh, Sats: 1000})
		}
		for i := 0; i < nout; i++ {
			t.Outs = append(t.Outs, Out{Sats: 1, Script: p2pkh})
		}
		return t
	}
	type sz struct {
		nin, nout, unlock int
		est               bool
		want              uint64
	}
	for _, c := range []sz{
		{0, 0, 0, false, 10},        // version, two zero counts, locktime
		{1, 1, 107, false, 192},     // the classic 1-in 1-out P2PKH transaction
		{1, 2, 107, false, 226},     // 1-in 2-out
		{2, 2, 107, false, 374},     // 2-in 2-out
		{1, 2, 0, false, 226 - 107}, // unsigned
		{1, 2, 0, true, 226},
		{1, 2, 106, true, 225}, // a signed input keeps its own length
		{1, 252, 107, false, 4 + 1 + 148 + 1 + 252*34 + 4},
		{1, 253, 107, false, 4 + 1 + 148 + 3 + 253*34 + 4},
		{253, 1, 0, true, 4 + 3 + 253*148 + 1 + 34 + 4},
	} {
		t := mk(c.nin, c.nout, c.unlock)
		z := t.Size()
		if c.est {
			var err error
			if z, err = t.EstSize(); err != nil {
				return err
			}
		}
		if z.Total != c.want || z.Data != 0 || z.Std != c.want {
			return fmt.Errorf("refmoney self-test: size(%d in, %d out, unlock %d, est=%v) = %+v, want %d", c.nin, c.nout, c.unlock, c.est, z, c.want)
		}
	}
	for _, c := range [][2]uint64{{0, 1}, {252, 1}, {253, 3}, {65535, 3}, {65536, 5}, {1<<32 - 1, 5}, {1 << 32, 9}} {
		if VarIntLen(c[0]) != c[1] {
			return fmt.Errorf("refmoney self-test: varint length of %d = %d, want %d", c[0], VarIntLen(c[0]), c[1])
		}
	}
	// data partition
	t := mk(1, 1, 107)
	t.Outs = append(t.Outs, Out{Script: []byte{0x6a, 0x02, 0xab, 0xcd}}, Out{Script: []byte{0x00, 0x6a}}, Out{Script: []byte{0x00}}, Out{Script: []byte{}}, Out{Script: []byte{0x00, 0x00, 0x6a}})
	z := t.Size()
	if z.Data != 6 || z.Total != 192+(8+1+4)+(8+1+2)+(8+1+1)+(8+1)+(8+1+3) || z.Std+z.Data != z.Total {
		return fmt.Errorf("refmoney self-test: data partition %+v", z)
	}
	// floor arithmetic: 226 bytes at 5 sat / 100 bytes = 11 (11.3); 1000 data bytes at 1/3 = 333
	f := Fee(Size{Total: 1226, Std: 226, Data: 1000}, Quote{Std: Rate{5, 100}, Data: Rate{1, 3}})
	if f.Std.Int64() != 11 || f.Data.Int64() != 333 || f.Total.Int64() != 344 {
		return fmt.Errorf("refmoney self-test: fee %v %v %v", f.Std, f.Data, f.Total)
	}
	// no wrap: 2^40 bytes at 2^40 sat/byte
	f = Fee(Size{Std: 1 << 40}, Quote{Std: Rate{1 << 40, 1}, Data: Rate{0, 1}})
	if f.Total.Cmp(new(big.Int).Lsh(big.NewInt(1), 80)) != 0 {
		return fmt.Errorf("refmoney self-test: big product wrapped")
	}
	// deficit: 1-in(unsigned, 1000 sat) 2-out(1 sat each) at 1 sat/byte: 2 + 226 - 1000 < 0 => 0
	d, err := mk(1, 2, 0).Deficit(Quote{Std: Rate{1, 1}, Data: Rate{1, 1}})
	if err != nil || d.Sign() != 0 {
		return fmt.Errorf("refmoney self-test: deficit %v %v", d, err)
	}
	d, _ = mk(1, 2, 0).Deficit(Quote{Std: Rate{10, 1}, Data: Rate{1, 1}})
	if d.Int64() != 2+2260-1000 {
		return fmt.Errorf("refmoney self-test: deficit %v", d)
	}
	// change fee: appending a 25-byte script to 252 outputs grows the count varint by 2
	a := mk(1, 252, 107)
	if got := a.FeeWithChangeOutput(25, Quote{Std: Rate{1, 1}, Data: Rate{1, 1}}); got.Int64() != int64(a.Size().Total)+34+2 {
		return fmt.Errorf("refmoney self-test: change fee at 252 outputs %v", got)
	}
	if _, err := (&Tx{Ins: []In{{PrevNil: true}}}).EstSize(); !errors.Is(err, ErrPrevMissing) {
		return fmt.Errorf("refmoney self-test: missing spent script not reported")
	}
	if _, err := (&Tx{Ins: []In{{PrevScript: []byte{0x51}}}}).EstSize(); !errors.Is(err, ErrPrevUnsupported) {
		return fmt.Errorf("refmoney self-test: unsupported spent script not reported")
	}
	return nil
}
