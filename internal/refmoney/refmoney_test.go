package refmoney

import "testing"

func TestSelf(t *testing.T) {
	if err := SelfTest(); err != nil {
		t.Fatal(err)
	}
}
