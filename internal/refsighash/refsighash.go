// Package refsighash is an independent rendition of the two Bitcoin SV
// signature-hash algorithms, written from the specifications and sharing no
// code with go-bt (imports: crypto/sha256, encoding/binary and friends only):
//
//   - ForkID*: the replay-protected digest ("BIP143 style", used when the hash
//     type carries SIGHASH_FORKID), bitcoin-sv doc/abc/replay-protected-sighash.md;
//   - Legacy*: the original Satoshi algorithm (CTransactionSignatureSerializer),
//     including the SIGHASH_SINGLE "hash = 1" rule.
//
// Both accept a full 32-bit hash type, so that the model can be validated against
// the node-generated vectors in testdata/sighash_bip143.json and
// testdata/sighash_legacy.json (see vectors.go).
//
// Conventions: Input.PrevHash is the previous transaction hash in INTERNAL
// (wire) byte order, i.e. exactly the 32 bytes that appear in a serialised
// transaction. (go-bt keeps the display order, which is the reverse.)
// The "base type" of a hash type is hashType & 0x1f; base types other than
// NONE (2) and SINGLE (3) behave like ALL. ANYONECANPAY is bit 0x80.
package refsighash

import (
	"crypto/sha256"
	"encoding/binary"
	"errors"
)

const (
	BaseAll      = 1
	BaseNone     = 2
	BaseSingle   = 3
	AnyoneCanPay = 0x80
	ForkIDBit    = 0x40
	baseMask     = 0x1f
)

type Input struct {
	PrevHash [32]byte // internal (wire) byte order
	Vout     uint32
	Script   []byte // the unlocking script; never enters either digest
	Sequence uint32
}

type Output struct {
	Value  uint64
	Script []byte
}

type Tx struct {
	Version  uint32
	Inputs   []Input
	Outputs  []Output
	LockTime uint32
}

var ErrIndex = errors.New("refsighash: input index out of range")

// One is the constant the legacy algorithm yields for SIGHASH_SINGLE without a
// matching output: the number 1 as a little-endian 256-bit integer.
var One = [32]byte{1}

func Sha256d(b []byte) [32]byte {
	h := sha256.Sum256(b)
	return sha256.Sum256(h[:])
}

func le32(b []byte, v uint32) []byte {
	var t [4]byte
	binary.LittleEndian.PutUint32(t[:], v)
	return append(b, t[:]...)
}

func le64(b []byte, v uint64) []byte {
	var t [8]byte
	binary.LittleEndian.PutUint64(t[:], v)
	return append(b, t[:]...)
}

// CompactSize appends the Bitcoin variable-length integer.
func CompactSize(b []byte, n uint64) []byte {
	switch {
	case n < 0xfd:
		return append(b, byte(n))
	case n <= 0xffff:
		return append(b, 0xfd, byte(n), byte(n>>8))
	case n <= 0xffffffff:
		return le32(append(b, 0xfe), uint32(n))
	}
	return le64(append(b, 0xff), n)
}

func outBytes(b []byte, o *Output) []byte {
	b = le64(b, o.Value)
	b = CompactSize(b, uint64(len(o.Script)))
	return append(b, o.Script...)
}

// ForkIDPreimage returns the 10-field replay-protected preimage for input idx:
//
//  1. nVersion (4, LE)
//  2. hashPrevouts  (sha256d of all outpoints; 32 zero bytes if ANYONECANPAY)
//  3. hashSequence  (sha256d of all nSequence; zero if ANYONECANPAY or base type SINGLE/NONE)
//  4. outpoint of the signed input (32 + 4)
//  5. script code, compact-size prefixed
//  6. value of the spent output (8, LE)
//  7. nSequence of the signed input
//  8. hashOutputs   (base type not SINGLE/NONE: sha256d of all outputs;
//     SINGLE with idx < #outputs: sha256d of that output; otherwise zero)
//  9. nLockTime
//  10. hash type (4, LE)
func ForkIDPreimage(tx *Tx, idx int, scriptCode []byte, value uint64, hashType uint32) ([]byte, error) {
	if idx < 0 || idx >= len(tx.Inputs) {
		return nil, ErrIndex
	}
	base := hashType & baseMask
	acp := hashType&AnyoneCanPay != 0
	var hashPrevouts, hashSequence, hashOutputs [32]byte
	if !acp {
		var b []byte
		for i := range tx.Inputs {
			b = append(b, tx.Inputs[i].PrevHash[:]...)
			b = le32(b, tx.Inputs[i].Vout)
		}
		hashPrevouts = Sha256d(b)
	}
	if !acp && base != BaseSingle && base != BaseNone {
		var b []byte
		for i := range tx.Inputs {
			b = le32(b, tx.Inputs[i].Sequence)
		}
		hashSequence = Sha256d(b)
	}
	if base != BaseSingle && base != BaseNone {
		var b []byte
		for i := range tx.Outputs {
			b = outBytes(b, &tx.Outputs[i])
		}
		hashOutputs = Sha256d(b)
	} else if base == BaseSingle && idx < len(tx.Outputs) {
		hashOutputs = Sha256d(outBytes(nil, &tx.Outputs[idx]))
	}
	in := &tx.Inputs[idx]
	p := make([]byte, 0, 160+len(scriptCode))
	p = le32(p, tx.Version)
	p = append(p, hashPrevouts[:]...)
	p = append(p, hashSequence[:]...)
	p = append(p, in.PrevHash[:]...)
	p = le32(p, in.Vout)
	p = CompactSize(p, uint64(len(scriptCode)))
	p = append(p, scriptCode...)
	p = le64(p, value)
	p = le32(p, in.Sequence)
	p = append(p, hashOutputs[:]...)
	p = le32(p, tx.LockTime)
	p = le32(p, hashType)
	return p, nil
}

// ForkIDDigest is the double SHA-256 of ForkIDPreimage.
func ForkIDDigest(tx *Tx, idx int, scriptCode []byte, value uint64, hashType uint32) ([32]byte, error) {
	p, err := ForkIDPreimage(tx, idx, scriptCode, value, hashType)
	if err != nil {
		return [32]byte{}, err
	}
	return Sha256d(p), nil
}

// LegacyPreimage returns the original serialisation that is double hashed:
// every other input's script blanked, the signed input carrying scriptCode
// VERBATIM (removing OP_CODESEPARATOR is the caller's business, see
// StripCodeSeparators); NONE: no outputs, other inputs' sequence 0; SINGLE:
// outputs truncated to idx+1, the earlier ones replaced by (value -1, empty
// script), other inputs' sequence 0; ANYONECANPAY: only the signed input;
// then the 4-byte hash type.
//
// one == true means SIGHASH_SINGLE was requested for idx >= #outputs: there is
// no preimage, the signature hash is the constant One and is not hashed.
func LegacyPreimage(tx *Tx, idx int, scriptCode []byte, hashType uint32) (pre []byte, one bool, err error) {
	if idx < 0 || idx >= len(tx.Inputs) {
		return nil, false, ErrIndex
	}
	base := hashType & baseMask
	acp := hashType&AnyoneCanPay != 0
	if base == BaseSingle && idx >= len(tx.Outputs) {
		return nil, true, nil
	}
	p := le32(nil, tx.Version)
	writeIn := func(i int) {
		in := &tx.Inputs[i]
		p = append(p, in.PrevHash[:]...)
		p = le32(p, in.Vout)
		if i == idx {
			p = CompactSize(p, uint64(len(scriptCode)))
			p = append(p, scriptCode...)
			p = le32(p, in.Sequence)
			return
		}
		p = CompactSize(p, 0)
		if base == BaseSingle || base == BaseNone {
			p = le32(p, 0)
		} else {
			p = le32(p, in.Sequence)
		}
	}
	if acp {
		p = CompactSize(p, 1)
		writeIn(idx)
	} else {
		p = CompactSize(p, uint64(len(tx.Inputs)))
		for i := range tx.Inputs {
			writeIn(i)
		}
	}
	switch base {
	case BaseNone:
		p = CompactSize(p, 0)
	case BaseSingle:
		p = CompactSize(p, uint64(idx+1))
		for i := 0; i < idx; i++ {
			p = le64(p, ^uint64(0))
			p = CompactSize(p, 0)
		}
		p = outBytes(p, &tx.Outputs[idx])
	default:
		p = CompactSize(p, uint64(len(tx.Outputs)))
		for i := range tx.Outputs {
			p = outBytes(p, &tx.Outputs[i])
		}
	}
	p = le32(p, tx.LockTime)
	p = le32(p, hashType)
	return p, false, nil
}

// LegacyDigest is the legacy signature hash: One in the SINGLE-without-output
// case, the double SHA-256 of the preimage otherwise.
func LegacyDigest(tx *Tx, idx int, scriptCode []byte, hashType uint32) ([32]byte, error) {
	p, one, err := LegacyPreimage(tx, idx, scriptCode, hashType)
	if err != nil {
		return [32]byte{}, err
	}
	if one {
		return One, nil
	}
	return Sha256d(p), nil
}

// Digest selects the algorithm the way consensus does for an 8-bit hash type
// on a FORKID-enabled chain: FORKID bit set => replay-protected digest
// (commits to value), otherwise the legacy digest (value ignored).
func Digest(tx *Tx, idx int, scriptCode []byte, value uint64, hashType uint32) ([32]byte, error) {
	if hashType&ForkIDBit != 0 {
		return ForkIDDigest(tx, idx, scriptCode, value, hashType)
	}
	return LegacyDigest(tx, idx, scriptCode, hashType)
}

// StripCodeSeparators removes every OP_CODESEPARATOR (0xab) that is an opcode
// (not a byte inside pushed data) from script, the way the node's legacy
// serialiser does. The tokenizer is push aware (direct pushes 0x01..0x4b,
// PUSHDATA1/2/4). When a push runs past the end of the script the tokenizer
// stops and the rest is kept verbatim.
func StripCodeSeparators(script []byte) []byte {
	out := make([]byte, 0, len(script))
	i := 0
	for i < len(script) {
		op := script[i]
		n, hdr := 0, 1
		switch {
		case op >= 0x01 && op <= 0x4b:
			n = int(op)
		case op == 0x4c:
			if len(script)-i < 2 {
				return append(out, script[i:]...)
			}
			n, hdr = int(script[i+1]), 2
		case op == 0x4d:
			if len(script)-i < 3 {
				return append(out, script[i:]...)
			}
			n, hdr = int(binary.LittleEndian.Uint16(script[i+1:])), 3
		case op == 0x4e:
			if len(script)-i < 5 {
				return append(out, script[i:]...)
			}
			v := binary.LittleEndian.Uint32(script[i+1:])
			if uint64(v) > uint64(len(script)) {
				return append(out, script[i:]...)
			}
			n, hdr = int(v), 5
		}
		if len(script)-i-hdr < n {
			return append(out, script[i:]...)
		}
		if op != 0xab {
			out = append(out, script[i:i+hdr+n]...)
		}
		i += hdr + n
	}
	return out
}

// ParseTx decodes a standard (non-extended) serialised transaction; the whole
// slice must be consumed.
func ParseTx(raw []byte) (*Tx, error) {
	r := &rd{b: raw}
	tx := &Tx{Version: r.u32()}
	nin := r.cs()
	if r.err == nil && nin > uint64(len(raw)) {
		return nil, errors.New("refsighash: input count exceeds data")
	}
	for i := uint64(0); i < nin && r.err == nil; i++ {
		var in Input
		copy(in.PrevHash[:], r.take(32))
		in.Vout = r.u32()
		in.Script = r.bytesN()
		in.Sequence = r.u32()
		tx.Inputs = append(tx.Inputs, in)
	}
	nout := r.cs()
	if r.err == nil && nout > uint64(len(raw)) {
		return nil, errors.New("refsighash: output count exceeds data")
	}
	for i := uint64(0); i < nout && r.err == nil; i++ {
		var o Output
		o.Value = r.u64()
		o.Script = r.bytesN()
		tx.Outputs = append(tx.Outputs, o)
	}
	tx.LockTime = r.u32()
	if r.err != nil {
		return nil, r.err
	}
	if r.p != len(raw) {
		return nil, errors.New("refsighash: trailing bytes after transaction")
	}
	return tx, nil
}

type rd struct {
	b   []byte
	p   int
	err error
}

var errShort = errors.New("refsighash: truncated transaction")

func (r *rd) take(n int) []byte {
	if r.err != nil || n < 0 || len(r.b)-r.p < n {
		if r.err == nil {
			r.err = errShort
		}
		if n < 0 || n > 64 {
			return nil
		}
		return make([]byte, n)
	}
	v := r.b[r.p : r.p+n]
	r.p += n
	return v
}

func (r *rd) u32() uint32 {
	v := r.take(4)
	if r.err != nil {
		return 0
	}
	return binary.LittleEndian.Uint32(v)
}

func (r *rd) u64() uint64 {
	v := r.take(8)
	if r.err != nil {
		return 0
	}
	return binary.LittleEndian.Uint64(v)
}

func (r *rd) cs() uint64 {
	v := r.take(1)
	if r.err != nil {
		return 0
	}
	switch v[0] {
	case 0xfd:
		w := r.take(2)
		if r.err != nil {
			return 0
		}
		return uint64(binary.LittleEndian.Uint16(w))
	case 0xfe:
		return uint64(r.u32())
	case 0xff:
		return r.u64()
	}
	return uint64(v[0])
}

func (r *rd) bytesN() []byte {
	n := r.cs()
	if r.err != nil {
		return nil
	}
	if n > uint64(len(r.b)-r.p) {
		r.err = errShort
		return nil
	}
	return append([]byte{}, r.take(int(n))...)
}
