package refsighash

import (
	"encoding/hex"
	"encoding/json"
	"fmt"
	"os"
	"path/filepath"
)

// Vector is one row of the node-generated sighash vector files:
// [raw_tx_hex, script_hex, input_index, hashType (int32), expected hash hex].
// The expected hash is printed byte-reversed (uint256 display order).
type Vector struct {
	Tx       *Tx
	Script   []byte
	Index    int
	HashType uint32
	Want     [32]byte // already un-reversed: compares directly with a digest
}

func LoadVectors(path string) ([]Vector, error) {
	raw, err := os.ReadFile(path)
	if err != nil {
		return nil, err
	}
	var rows [][]json.RawMessage
	if err := json.Unmarshal(raw, &rows); err != nil {
		return nil, err
	}
	var vs []Vector
	for n, row := range rows {
		if len(row) != 5 {
			continue // header / comment rows
		}
		var txHex, scHex, want string
		var idx int
		var ht int64
		if json.Unmarshal(row[0], &txHex) != nil || json.Unmarshal(row[1], &scHex) != nil ||
			json.Unmarshal(row[2], &idx) != nil || json.Unmarshal(row[3], &ht) != nil || json.Unmarshal(row[4], &want) != nil {
			return nil, fmt.Errorf("%s: row %d is malformed", path, n)
		}
		txb, err1 := hex.DecodeString(txHex)
		sc, err2 := hex.DecodeString(scHex)
		wb, err3 := hex.DecodeString(want)
		if err1 != nil || err2 != nil || err3 != nil || len(wb) != 32 {
			return nil, fmt.Errorf("%s: row %d has bad hex", path, n)
		}
		tx, err := ParseTx(txb)
		if err != nil {
			return nil, fmt.Errorf("%s: row %d: %v", path, n, err)
		}
		v := Vector{Tx: tx, Script: sc, Index: idx, HashType: uint32(int32(ht))}
		for i := 0; i < 32; i++ {
			v.Want[i] = wb[31-i]
		}
		vs = append(vs, v)
	}
	return vs, nil
}

// Validation says how many of the node vectors the model reproduces.
type Validation struct {
	ForkIDTotal, ForkIDOK   int
	LegacyTotal, LegacyOK   int
	LegacyVerbatimOK        int // legacy vectors that match without code-separator stripping
	LegacyWithCodeSeparator int // legacy vectors whose script code contains an OP_CODESEPARATOR opcode
	FirstBad                string
}

func (v *Validation) OK() bool {
	return v.ForkIDTotal >= 500 && v.LegacyTotal >= 500 && v.ForkIDOK == v.ForkIDTotal && v.LegacyOK == v.LegacyTotal
}

func (v *Validation) Reproduced() int { return v.ForkIDOK + v.LegacyOK }

// Validate runs the model over testdata/sighash_bip143.json (replay-protected
// digest with spent value 0 and the 32-bit hash type) and
// testdata/sighash_legacy.json (Satoshi digest over the script code with
// OP_CODESEPARATOR opcodes removed, as the node's serialiser does).
func Validate(testdata string) (*Validation, error) {
	res := &Validation{}
	fv, err := LoadVectors(filepath.Join(testdata, "sighash_bip143.json"))
	if err != nil {
		return nil, err
	}
	for i, v := range fv {
		res.ForkIDTotal++
		d, err := ForkIDDigest(v.Tx, v.Index, v.Script, 0, v.HashType)
		if err == nil && d == v.Want {
			res.ForkIDOK++
		} else if res.FirstBad == "" {
			res.FirstBad = fmt.Sprintf("bip143 vector %d (hashType %#x, input %d)", i, v.HashType, v.Index)
		}
	}
	lv, err := LoadVectors(filepath.Join(testdata, "sighash_legacy.json"))
	if err != nil {
		return nil, err
	}
	for i, v := range lv {
		res.LegacyTotal++
		stripped := StripCodeSeparators(v.Script)
		if len(stripped) != len(v.Script) {
			res.LegacyWithCodeSeparator++
		}
		if d, err := LegacyDigest(v.Tx, v.Index, v.Script, v.HashType); err == nil && d == v.Want {
			res.LegacyVerbatimOK++
		}
		d, err := LegacyDigest(v.Tx, v.Index, stripped, v.HashType)
		if err == nil && d == v.Want {
			res.LegacyOK++
		} else if res.FirstBad == "" {
			res.FirstBad = fmt.Sprintf("legacy vector %d (hashType %#x, input %d)", i, v.HashType, v.Index)
		}
	}
	return res, nil
}
