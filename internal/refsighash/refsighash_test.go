package refsighash

import "testing"

func TestVectors(t *testing.T) {
	v, err := Validate("../../testdata")
	if err != nil {
		t.Fatal(err)
	}
	t.Logf("%+v", *v)
	if !v.OK() {
		t.Fatalf("model does not reproduce the node vectors: %+v", *v)
	}
}
