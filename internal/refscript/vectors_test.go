package refscript_test

import (
	"testing"

	"verif/internal/refscript"
	"verif/internal/vectors"
)

func TestNodeVectorsNonSig(t *testing.T) {
	vs, err := vectors.LoadScriptTests("../../testdata/script_tests.json")
	if err != nil {
		t.Fatal(err)
	}
	ok, skipped, bad, classDiff := 0, 0, 0, 0
	for _, v := range vs {
		r := refscript.Verify(v.Unlock, v.Lock, refscript.Opts{Flags: v.Flags, Tx: &refscript.TxCtx{Version: 1, LockTime: 0, Sequence: 0xffffffff}})
		if r.Unsupported != "" {
			skipped++
			continue
		}
		if r.OK != (v.Expected == "OK") {
			bad++
			t.Errorf("vector %d (%s) flags=%s: model ok=%v err=%s, expected %s  unlock=%x lock=%x", v.Line, v.Comment, v.FlagStr, r.OK, r.Err, v.Expected, v.Unlock, v.Lock)
			continue
		}
		if !r.OK && r.Err != v.Expected {
			classDiff++
			t.Logf("class differs: vector %d expected %s model %s", v.Line, v.Expected, r.Err)
		}
		ok++
	}
	t.Logf("vectors=%d reproduced=%d skipped(sig)=%d wrong=%d classdiff=%d", len(vs), ok, skipped, bad, classDiff)
}
