// Package refscript is an independent executable model of the Bitcoin SV script
// rules (EvalScript / VerifyScript of the node), for both eras. It shares no
// code with go-bt. Limits are the node's constants, written down here and not
// read from go-bt. It reports, per processed instruction, the data and alt
// stacks, and a final accept/reject. Signature checks are delegated to a
// SigChecker supplied by the monitor (C06: evaluation by provenance).
package refscript

import (
	"bytes"
	"crypto/sha1"
	"crypto/sha256"
	"math/big"

	"golang.org/x/crypto/ripemd160"
)

type Flags uint32

const (
	FP2SH Flags = 1 << iota
	FStrictEnc
	FDERSig
	FLowS
	FNullDummy
	FSigPushOnly
	FMinimalData
	FDiscourageNops
	FCleanStack
	FMinimalIf
	FNullFail
	FCLTV
	FCSV
	FForkID
	FGenesis
)

func (f Flags) Has(x Flags) bool { return f&x != 0 }

// node constants (pre-Genesis consensus limits)
const (
	maxScriptSizePre  = 10000
	maxElementSizePre = 520
	maxOpsPre         = 500
	maxStackPre       = 1000
	maxNumLenPre      = 4
	maxNumLenPost     = 750000
	maxKeysPre        = 20
	lockTimeThreshold = 500000000
	seqDisableFlag    = 1 << 31
	seqTypeFlag       = 1 << 22
	seqMask           = 0x0000ffff
)

type TxCtx struct {
	Version  uint32
	LockTime uint32
	Sequence uint32 // of the input being checked
}

// SigChecker decides one (signature, key) pair. fullSig includes the hash-type
// byte; scriptCode is the script from after the last executed OP_CODESEPARATOR
// to the end, *before* any legacy clean-up (the checker applies FindAndDelete
// and separator removal itself when the legacy algorithm is in force).
type SigChecker interface {
	CheckSig(fullSig, pubKey, scriptCode []byte, forkIDEnabled bool) bool
}

type Step struct {
	Script int // 0 unlocking, 1 locking, 2 redeem (P2SH)
	Op     int // instruction index inside the script
	Opcode byte
	Exec   bool
	Stack  [][]byte
	Alt    [][]byte
}

type Result struct {
	OK          bool
	Err         string // error class (diagnostic only)
	Steps       []Step
	Unsupported string // non-empty: the model declines to judge this program
	Final       [][]byte
	// position of the instruction at which the model stopped with an error
	FailScript, FailIdx int
	FailOp              byte
	HasFail             bool
}

type Opts struct {
	Flags   Flags
	Tx      *TxCtx
	Sig     SigChecker
	Trace   bool
	MaxElem int // safety cap for element sizes (0 = 4 MiB); beyond it the model declines
}

type scriptErr struct{ class string }

func (e *scriptErr) Error() string { return e.class }

type unsupported struct{ why string }

func (e *unsupported) Error() string { return "unsupported: " + e.why }

func fail(class string) error { return &scriptErr{class} }

// ---------------------------------------------------------------- numbers

func CastToBool(v []byte) bool {
	for i := range v {
		if v[i] != 0 {
			if i == len(v)-1 && v[i] == 0x80 {
				return false
			}
			return true
		}
	}
	return false
}

func isMinimal(v []byte) bool {
	if len(v) == 0 {
		return true
	}
	if v[len(v)-1]&0x7f == 0 {
		if len(v) <= 1 || v[len(v)-2]&0x80 == 0 {
			return false
		}
	}
	return true
}

// DecodeNum reads a little-endian sign-magnitude integer.
func DecodeNum(v []byte) *big.Int {
	if len(v) == 0 {
		return new(big.Int)
	}
	be := make([]byte, len(v))
	for i := range v {
		be[len(v)-1-i] = v[i]
	}
	neg := be[0]&0x80 != 0
	be[0] &= 0x7f
	n := new(big.Int).SetBytes(be)
	if neg {
		n.Neg(n)
	}
	return n
}

// EncodeNum is the minimal little-endian sign-magnitude serialisation.
func EncodeNum(n *big.Int) []byte {
	if n.Sign() == 0 {
		return []byte{}
	}
	mag := new(big.Int).Abs(n).Bytes() // big endian
	out := make([]byte, len(mag), len(mag)+1)
	for i := range mag {
		out[len(mag)-1-i] = mag[i]
	}
	if out[len(out)-1]&0x80 != 0 {
		if n.Sign() < 0 {
			out = append(out, 0x80)
		} else {
			out = append(out, 0x00)
		}
	} else if n.Sign() < 0 {
		out[len(out)-1] |= 0x80
	}
	return out
}

// MinimallyEncode returns the minimal form of a number given as raw bytes.
func MinimallyEncode(v []byte) []byte {
	return EncodeNum(DecodeNum(v))
}

func num(v []byte, minimal bool, maxLen int) (*big.Int, error) {
	if len(v) > maxLen {
		return nil, fail("SCRIPTNUM_OVERFLOW")
	}
	if minimal && !isMinimal(v) {
		return nil, fail("SCRIPTNUM_MINENCODE")
	}
	return DecodeNum(v), nil
}

// ---------------------------------------------------------------- tokenizer

type Instr struct {
	Op   byte
	Data []byte
	Pos  int // offset of the opcode byte
	End  int // offset after the instruction
	Bad  bool
}

// NextOp decodes the instruction at pos (the node's GetOp).
func NextOp(s []byte, pos int) Instr {
	in := Instr{Op: s[pos], Pos: pos}
	p := pos + 1
	var n int
	switch {
	case in.Op >= 1 && in.Op <= 75:
		n = int(in.Op)
	case in.Op == 0x4c:
		if len(s)-p < 1 {
			in.Bad = true
			return in
		}
		n = int(s[p])
		p++
	case in.Op == 0x4d:
		if len(s)-p < 2 {
			in.Bad = true
			return in
		}
		n = int(s[p]) | int(s[p+1])<<8
		p += 2
	case in.Op == 0x4e:
		if len(s)-p < 4 {
			in.Bad = true
			return in
		}
		n = int(uint32(s[p]) | uint32(s[p+1])<<8 | uint32(s[p+2])<<16 | uint32(s[p+3])<<24)
		p += 4
	default:
		in.End = p
		return in
	}
	if n < 0 || len(s)-p < n {
		in.Bad = true
		return in
	}
	in.Data = s[p : p+n : p+n]
	in.End = p + n
	return in
}

// IsPushOnly is the node's CScript::IsPushOnly.
func IsPushOnly(s []byte) bool {
	for pos := 0; pos < len(s); {
		in := NextOp(s, pos)
		if in.Bad || in.Op > 0x60 {
			return false
		}
		pos = in.End
	}
	return true
}

func IsP2SH(s []byte) bool {
	return len(s) == 23 && s[0] == 0xa9 && s[1] == 0x14 && s[22] == 0x87
}

func checkMinimalPush(data []byte, op byte) bool {
	switch {
	case len(data) == 0:
		return op == 0x00
	case len(data) == 1 && data[0] >= 1 && data[0] <= 16:
		return op == 0x50+data[0]
	case len(data) == 1 && data[0] == 0x81:
		return op == 0x4f
	case len(data) <= 75:
		return int(op) == len(data)
	case len(data) <= 255:
		return op == 0x4c
	case len(data) <= 65535:
		return op == 0x4d
	}
	return true
}

// ---------------------------------------------------------------- machine

type machine struct {
	o                 *Opts
	genesis           bool
	minimal           bool
	numLen            int
	stack             [][]byte
	alt               [][]byte
	steps             []Step
	maxElem           int
	curScript, curIdx int
	curOp             byte
	inInstr           bool
}

func (m *machine) push(v []byte) error {
	if len(v) > m.maxElem {
		return &unsupported{"element larger than the model's cap"}
	}
	m.stack = append(m.stack, v)
	return nil
}
func (m *machine) top(i int) []byte { return m.stack[len(m.stack)-i] } // top(1) is the top
func (m *machine) pop() []byte {
	v := m.stack[len(m.stack)-1]
	m.stack = m.stack[:len(m.stack)-1]
	return v
}
func (m *machine) need(n int) error {
	if len(m.stack) < n {
		return fail("INVALID_STACK_OPERATION")
	}
	return nil
}
func (m *machine) popNum() (*big.Int, error) {
	if err := m.need(1); err != nil {
		return nil, err
	}
	n, err := num(m.top(1), m.minimal, m.numLen)
	if err != nil {
		return nil, err
	}
	m.pop()
	return n, nil
}
func (m *machine) pushNum(n *big.Int) error { return m.push(EncodeNum(n)) }
func (m *machine) pushBool(b bool) error {
	if b {
		return m.push([]byte{1})
	}
	return m.push([]byte{})
}

func (m *machine) record(script, op int, opcode byte, exec bool) {
	if !m.o.Trace {
		return
	}
	st := make([][]byte, len(m.stack))
	copy(st, m.stack)
	al := make([][]byte, len(m.alt))
	copy(al, m.alt)
	m.steps = append(m.steps, Step{Script: script, Op: op, Opcode: opcode, Exec: exec, Stack: st, Alt: al})
}

func lshift(x []byte, n int) []byte {
	out := make([]byte, len(x))
	byteShift, bitShift := n/8, uint(n%8)
	for i := 0; i < len(x); i++ {
		src := i + byteShift
		if src >= len(x) {
			break
		}
		v := x[src] << bitShift
		if bitShift > 0 && src+1 < len(x) {
			v |= x[src+1] >> (8 - bitShift)
		}
		out[i] = v
	}
	return out
}

func rshift(x []byte, n int) []byte {
	out := make([]byte, len(x))
	byteShift, bitShift := n/8, uint(n%8)
	for i := len(x) - 1; i >= 0; i-- {
		src := i - byteShift
		if src < 0 {
			break
		}
		v := x[src] >> bitShift
		if bitShift > 0 && src-1 >= 0 {
			v |= x[src-1] << (8 - bitShift)
		}
		out[i] = v
	}
	return out
}

// eval runs one script (the node's EvalScript). lastOfScriptHook is invoked
// right after the last instruction, before its step is recorded, so that the
// end-of-script transitions appear in that step's snapshot as they do in go-bt.
func (m *machine) eval(script []byte, scriptIdx int, endHook func() error) (err error) {
	if !m.genesis && len(script) > maxScriptSizePre {
		return fail("SCRIPT_SIZE")
	}
	var vfExec []bool
	var vfElse []bool
	nonTopReturn := false
	opCount := 0
	codeHash := 0
	opIdx := -1
	m.alt = nil
	for pos := 0; pos < len(script); {
		in := NextOp(script, pos)
		opIdx++
		m.curScript, m.curIdx, m.curOp, m.inInstr = scriptIdx, opIdx, in.Op, true
		if in.Bad {
			return fail("BAD_OPCODE")
		}
		pos = in.End
		op := in.Op
		fExec := true
		for _, b := range vfExec {
			if !b {
				fExec = false
				break
			}
		}
		fExec = fExec && (!nonTopReturn || op == 0x6a)

		if !m.genesis && len(in.Data) > maxElementSizePre {
			return fail("PUSH_SIZE")
		}
		if op > 0x60 {
			opCount++
			if !m.genesis && opCount > maxOpsPre {
				return fail("OP_COUNT")
			}
		}
		if (op == 0x8d || op == 0x8e) && (!m.genesis || fExec) {
			return fail("DISABLED_OPCODE")
		}
		done := false
		if fExec && op <= 0x4e {
			if m.minimal && !checkMinimalPush(in.Data, op) {
				return fail("MINIMALDATA")
			}
			if err := m.push(in.Data); err != nil {
				return err
			}
		} else if fExec || (op >= 0x63 && op <= 0x68) {
			done, err = m.exec(op, fExec, script, in, &vfExec, &vfElse, &nonTopReturn, &opCount, &codeHash)
			if err != nil {
				return err
			}
		}
		if !m.genesis && len(m.stack)+len(m.alt) > maxStackPre {
			return fail("STACK_SIZE")
		}
		last := pos >= len(script) || done
		if last {
			if !done && len(vfExec) != 0 {
				return fail("UNBALANCED_CONDITIONAL")
			}
			// the alt stack does not outlive the script (also when a top-level
			// OP_RETURN ended it); the last snapshot of a script shows it empty
			m.alt = nil
			if endHook != nil {
				m.inInstr = false
				if err := endHook(); err != nil {
					return err
				}
			}
		}
		m.record(scriptIdx, opIdx, op, fExec)
		if done {
			m.inInstr = false
			return nil
		}
	}
	m.inInstr = false
	if len(script) == 0 && endHook != nil {
		return endHook()
	}
	return nil
}

func (m *machine) exec(op byte, fExec bool, script []byte, in Instr, vfExec, vfElse *[]bool, nonTopReturn *bool, opCount *int, codeHash *int) (done bool, err error) {
	st := &m.stack
	switch op {
	case 0x4f: // 1NEGATE
		return false, m.pushNum(big.NewInt(-1))
	case 0x51, 0x52, 0x53, 0x54, 0x55, 0x56, 0x57, 0x58, 0x59, 0x5a, 0x5b, 0x5c, 0x5d, 0x5e, 0x5f, 0x60:
		return false, m.pushNum(big.NewInt(int64(op - 0x50)))
	case 0x61: // NOP
		return false, nil
	case 0xb1: // CLTV
		if !m.o.Flags.Has(FCLTV) || m.genesis {
			if m.o.Flags.Has(FDiscourageNops) {
				return false, fail("DISCOURAGE_UPGRADABLE_NOPS")
			}
			return false, nil
		}
		if err := m.need(1); err != nil {
			return false, err
		}
		n, err := num(m.top(1), m.minimal, 5)
		if err != nil {
			return false, err
		}
		if n.Sign() < 0 {
			return false, fail("NEGATIVE_LOCKTIME")
		}
		if m.o.Tx == nil {
			return false, &unsupported{"CLTV without tx context"}
		}
		lt := n.Int64()
		txlt := int64(m.o.Tx.LockTime)
		if !((txlt < lockTimeThreshold && lt < lockTimeThreshold) || (txlt >= lockTimeThreshold && lt >= lockTimeThreshold)) {
			return false, fail("UNSATISFIED_LOCKTIME")
		}
		if lt > txlt {
			return false, fail("UNSATISFIED_LOCKTIME")
		}
		if m.o.Tx.Sequence == 0xffffffff {
			return false, fail("UNSATISFIED_LOCKTIME")
		}
		return false, nil
	case 0xb2: // CSV
		if !m.o.Flags.Has(FCSV) || m.genesis {
			if m.o.Flags.Has(FDiscourageNops) {
				return false, fail("DISCOURAGE_UPGRADABLE_NOPS")
			}
			return false, nil
		}
		if err := m.need(1); err != nil {
			return false, err
		}
		n, err := num(m.top(1), m.minimal, 5)
		if err != nil {
			return false, err
		}
		if n.Sign() < 0 {
			return false, fail("NEGATIVE_LOCKTIME")
		}
		seq := n.Int64()
		if seq&seqDisableFlag != 0 {
			return false, nil
		}
		if m.o.Tx == nil {
			return false, &unsupported{"CSV without tx context"}
		}
		if m.o.Tx.Version < 2 {
			return false, fail("UNSATISFIED_LOCKTIME")
		}
		txs := int64(m.o.Tx.Sequence)
		if txs&seqDisableFlag != 0 {
			return false, fail("UNSATISFIED_LOCKTIME")
		}
		mask := int64(seqTypeFlag | seqMask)
		a, b := txs&mask, seq&mask
		if !((a < seqTypeFlag && b < seqTypeFlag) || (a >= seqTypeFlag && b >= seqTypeFlag)) {
			return false, fail("UNSATISFIED_LOCKTIME")
		}
		if b > a {
			return false, fail("UNSATISFIED_LOCKTIME")
		}
		return false, nil
	case 0xb0, 0xb3, 0xb4, 0xb5, 0xb6, 0xb7, 0xb8, 0xb9: // NOP1, NOP4..NOP10
		if m.o.Flags.Has(FDiscourageNops) {
			return false, fail("DISCOURAGE_UPGRADABLE_NOPS")
		}
		return false, nil
	case 0x63, 0x64: // IF NOTIF
		v := false
		if fExec {
			if len(*st) < 1 {
				return false, fail("UNBALANCED_CONDITIONAL")
			}
			vch := m.top(1)
			if m.o.Flags.Has(FMinimalIf) {
				if len(vch) > 1 || (len(vch) == 1 && vch[0] != 1) {
					return false, fail("MINIMALIF")
				}
			}
			v = CastToBool(vch)
			if op == 0x64 {
				v = !v
			}
			m.pop()
		}
		*vfExec = append(*vfExec, v)
		*vfElse = append(*vfElse, false)
		return false, nil
	case 0x65, 0x66: // VERIF VERNOTIF
		if !m.genesis || fExec {
			return false, fail("BAD_OPCODE")
		}
		return false, nil
	case 0x67: // ELSE
		if len(*vfExec) == 0 {
			return false, fail("UNBALANCED_CONDITIONAL")
		}
		if (*vfElse)[len(*vfElse)-1] && m.genesis {
			return false, fail("UNBALANCED_CONDITIONAL")
		}
		(*vfExec)[len(*vfExec)-1] = !(*vfExec)[len(*vfExec)-1]
		(*vfElse)[len(*vfElse)-1] = true
		return false, nil
	case 0x68: // ENDIF
		if len(*vfExec) == 0 {
			return false, fail("UNBALANCED_CONDITIONAL")
		}
		*vfExec = (*vfExec)[:len(*vfExec)-1]
		*vfElse = (*vfElse)[:len(*vfElse)-1]
		return false, nil
	case 0x69: // VERIFY
		if err := m.need(1); err != nil {
			return false, err
		}
		if !CastToBool(m.top(1)) {
			return false, fail("VERIFY")
		}
		m.pop()
		return false, nil
	case 0x6a: // RETURN
		if !m.genesis {
			return false, fail("OP_RETURN")
		}
		if len(*vfExec) == 0 {
			return true, nil
		}
		*nonTopReturn = true
		return false, nil
	case 0x6b: // TOALTSTACK
		if err := m.need(1); err != nil {
			return false, err
		}
		m.alt = append(m.alt, m.pop())
		return false, nil
	case 0x6c: // FROMALTSTACK
		if len(m.alt) < 1 {
			return false, fail("INVALID_ALTSTACK_OPERATION")
		}
		v := m.alt[len(m.alt)-1]
		m.alt = m.alt[:len(m.alt)-1]
		return false, m.push(v)
	case 0x6d: // 2DROP
		if err := m.need(2); err != nil {
			return false, err
		}
		m.pop()
		m.pop()
		return false, nil
	case 0x6e: // 2DUP
		if err := m.need(2); err != nil {
			return false, err
		}
		a, b := m.top(2), m.top(1)
		*st = append(*st, a, b)
		return false, nil
	case 0x6f: // 3DUP
		if err := m.need(3); err != nil {
			return false, err
		}
		a, b, c := m.top(3), m.top(2), m.top(1)
		*st = append(*st, a, b, c)
		return false, nil
	case 0x70: // 2OVER
		if err := m.need(4); err != nil {
			return false, err
		}
		a, b := m.top(4), m.top(3)
		*st = append(*st, a, b)
		return false, nil
	case 0x71: // 2ROT
		if err := m.need(6); err != nil {
			return false, err
		}
		n := len(*st)
		a, b := (*st)[n-6], (*st)[n-5]
		copy((*st)[n-6:], (*st)[n-4:])
		(*st)[n-2], (*st)[n-1] = a, b
		return false, nil
	case 0x72: // 2SWAP
		if err := m.need(4); err != nil {
			return false, err
		}
		n := len(*st)
		(*st)[n-4], (*st)[n-2] = (*st)[n-2], (*st)[n-4]
		(*st)[n-3], (*st)[n-1] = (*st)[n-1], (*st)[n-3]
		return false, nil
	case 0x73: // IFDUP
		if err := m.need(1); err != nil {
			return false, err
		}
		if CastToBool(m.top(1)) {
			*st = append(*st, m.top(1))
		}
		return false, nil
	case 0x74: // DEPTH
		return false, m.pushNum(big.NewInt(int64(len(*st))))
	case 0x75: // DROP
		if err := m.need(1); err != nil {
			return false, err
		}
		m.pop()
		return false, nil
	case 0x76: // DUP
		if err := m.need(1); err != nil {
			return false, err
		}
		*st = append(*st, m.top(1))
		return false, nil
	case 0x77: // NIP
		if err := m.need(2); err != nil {
			return false, err
		}
		v := m.pop()
		(*st)[len(*st)-1] = v
		return false, nil
	case 0x78: // OVER
		if err := m.need(2); err != nil {
			return false, err
		}
		*st = append(*st, m.top(2))
		return false, nil
	case 0x79, 0x7a: // PICK ROLL
		if err := m.need(2); err != nil {
			return false, err
		}
		n, err := num(m.top(1), m.minimal, m.numLen)
		if err != nil {
			return false, err
		}
		m.pop()
		if n.Sign() < 0 || n.Cmp(big.NewInt(int64(len(*st)))) >= 0 {
			return false, fail("INVALID_STACK_OPERATION")
		}
		k := int(n.Int64())
		idx := len(*st) - 1 - k
		v := (*st)[idx]
		if op == 0x7a {
			*st = append((*st)[:idx], (*st)[idx+1:]...)
		}
		*st = append(*st, v)
		return false, nil
	case 0x7b: // ROT
		if err := m.need(3); err != nil {
			return false, err
		}
		n := len(*st)
		(*st)[n-3], (*st)[n-2], (*st)[n-1] = (*st)[n-2], (*st)[n-1], (*st)[n-3]
		return false, nil
	case 0x7c: // SWAP
		if err := m.need(2); err != nil {
			return false, err
		}
		n := len(*st)
		(*st)[n-2], (*st)[n-1] = (*st)[n-1], (*st)[n-2]
		return false, nil
	case 0x7d: // TUCK
		if err := m.need(2); err != nil {
			return false, err
		}
		n := len(*st)
		a, b := (*st)[n-2], (*st)[n-1]
		*st = append((*st)[:n-2], b, a, b)
		return false, nil
	case 0x7e: // CAT
		if err := m.need(2); err != nil {
			return false, err
		}
		a, b := m.top(2), m.top(1)
		if !m.genesis && len(a)+len(b) > maxElementSizePre {
			return false, fail("PUSH_SIZE")
		}
		c := make([]byte, 0, len(a)+len(b))
		c = append(append(c, a...), b...)
		m.pop()
		m.pop()
		return false, m.push(c)
	case 0x7f: // SPLIT
		if err := m.need(2); err != nil {
			return false, err
		}
		data := m.top(2)
		n, err := num(m.top(1), m.minimal, m.numLen)
		if err != nil {
			return false, err
		}
		if n.Sign() < 0 || n.Cmp(big.NewInt(int64(len(data)))) > 0 {
			return false, fail("SPLIT_RANGE")
		}
		k := int(n.Int64())
		m.pop()
		m.pop()
		a := append([]byte{}, data[:k]...)
		b := append([]byte{}, data[k:]...)
		*st = append(*st, a, b)
		return false, nil
	case 0x80: // NUM2BIN
		if err := m.need(2); err != nil {
			return false, err
		}
		n, err := num(m.top(1), m.minimal, m.numLen)
		if err != nil {
			return false, err
		}
		if n.Sign() < 0 || n.Cmp(big.NewInt(0x7fffffff)) > 0 {
			return false, fail("PUSH_SIZE")
		}
		size := int(n.Int64())
		if !m.genesis && size > maxElementSizePre {
			return false, fail("PUSH_SIZE")
		}
		raw := MinimallyEncode(m.top(2))
		if len(raw) > size {
			return false, fail("IMPOSSIBLE_ENCODING")
		}
		if size > m.maxElem {
			return false, &unsupported{"NUM2BIN size above the model's cap"}
		}
		m.pop()
		m.pop()
		if len(raw) == size {
			return false, m.push(raw)
		}
		out := make([]byte, size)
		copy(out, raw)
		if len(raw) > 0 {
			sign := raw[len(raw)-1] & 0x80
			out[len(raw)-1] &= 0x7f
			out[size-1] = sign
		}
		return false, m.push(out)
	case 0x81: // BIN2NUM
		if err := m.need(1); err != nil {
			return false, err
		}
		v := MinimallyEncode(m.top(1))
		if len(v) > m.numLen {
			return false, fail("INVALID_NUMBER_RANGE")
		}
		m.pop()
		return false, m.push(v)
	case 0x82: // SIZE
		if err := m.need(1); err != nil {
			return false, err
		}
		return false, m.pushNum(big.NewInt(int64(len(m.top(1)))))
	case 0x83: // INVERT
		if err := m.need(1); err != nil {
			return false, err
		}
		v := m.pop()
		out := make([]byte, len(v))
		for i := range v {
			out[i] = ^v[i]
		}
		return false, m.push(out)
	case 0x84, 0x85, 0x86: // AND OR XOR
		if err := m.need(2); err != nil {
			return false, err
		}
		a, b := m.top(2), m.top(1)
		if len(a) != len(b) {
			return false, fail("OPERAND_SIZE")
		}
		out := make([]byte, len(a))
		for i := range a {
			switch op {
			case 0x84:
				out[i] = a[i] & b[i]
			case 0x85:
				out[i] = a[i] | b[i]
			default:
				out[i] = a[i] ^ b[i]
			}
		}
		m.pop()
		m.pop()
		return false, m.push(out)
	case 0x87, 0x88: // EQUAL EQUALVERIFY
		if err := m.need(2); err != nil {
			return false, err
		}
		eq := bytes.Equal(m.top(2), m.top(1))
		m.pop()
		m.pop()
		if op == 0x88 {
			if !eq {
				return false, fail("EQUALVERIFY")
			}
			return false, nil
		}
		return false, m.pushBool(eq)
	case 0x8b, 0x8c, 0x8f, 0x90, 0x91, 0x92: // 1ADD 1SUB NEGATE ABS NOT 0NOTEQUAL
		n, err := m.popNum()
		if err != nil {
			return false, err
		}
		r := new(big.Int)
		switch op {
		case 0x8b:
			r.Add(n, big.NewInt(1))
		case 0x8c:
			r.Sub(n, big.NewInt(1))
		case 0x8f:
			r.Neg(n)
		case 0x90:
			r.Abs(n)
		case 0x91:
			if n.Sign() == 0 {
				r.SetInt64(1)
			}
		case 0x92:
			if n.Sign() != 0 {
				r.SetInt64(1)
			}
		}
		return false, m.pushNum(r)
	case 0x93, 0x94, 0x95, 0x96, 0x97, 0x9a, 0x9b, 0x9c, 0x9d, 0x9e, 0x9f, 0xa0, 0xa1, 0xa2, 0xa3, 0xa4:
		if err := m.need(2); err != nil {
			return false, err
		}
		a, err := num(m.top(2), m.minimal, m.numLen)
		if err != nil {
			return false, err
		}
		b, err := num(m.top(1), m.minimal, m.numLen)
		if err != nil {
			return false, err
		}
		r := new(big.Int)
		bl := func(x bool) {
			if x {
				r.SetInt64(1)
			}
		}
		switch op {
		case 0x93:
			r.Add(a, b)
		case 0x94:
			r.Sub(a, b)
		case 0x95:
			r.Mul(a, b)
		case 0x96:
			if b.Sign() == 0 {
				return false, fail("DIV_BY_ZERO")
			}
			r.Quo(a, b)
		case 0x97:
			if b.Sign() == 0 {
				return false, fail("MOD_BY_ZERO")
			}
			r.Rem(a, b)
		case 0x9a:
			bl(a.Sign() != 0 && b.Sign() != 0)
		case 0x9b:
			bl(a.Sign() != 0 || b.Sign() != 0)
		case 0x9c, 0x9d:
			bl(a.Cmp(b) == 0)
		case 0x9e:
			bl(a.Cmp(b) != 0)
		case 0x9f:
			bl(a.Cmp(b) < 0)
		case 0xa0:
			bl(a.Cmp(b) > 0)
		case 0xa1:
			bl(a.Cmp(b) <= 0)
		case 0xa2:
			bl(a.Cmp(b) >= 0)
		case 0xa3:
			if a.Cmp(b) < 0 {
				r.Set(a)
			} else {
				r.Set(b)
			}
		case 0xa4:
			if a.Cmp(b) > 0 {
				r.Set(a)
			} else {
				r.Set(b)
			}
		}
		m.pop()
		m.pop()
		if op == 0x9d {
			if r.Sign() == 0 {
				return false, fail("NUMEQUALVERIFY")
			}
			return false, nil
		}
		return false, m.pushNum(r)
	case 0x98, 0x99: // LSHIFT RSHIFT
		if err := m.need(2); err != nil {
			return false, err
		}
		x := m.top(2)
		n, err := num(m.top(1), m.minimal, m.numLen)
		if err != nil {
			return false, err
		}
		if n.Sign() < 0 {
			return false, fail("INVALID_NUMBER_RANGE")
		}
		m.pop()
		m.pop()
		var out []byte
		if n.Cmp(big.NewInt(int64(8*len(x)))) >= 0 {
			out = make([]byte, len(x))
		} else if op == 0x98 {
			out = lshift(x, int(n.Int64()))
		} else {
			out = rshift(x, int(n.Int64()))
		}
		return false, m.push(out)
	case 0xa5: // WITHIN
		if err := m.need(3); err != nil {
			return false, err
		}
		x, err := num(m.top(3), m.minimal, m.numLen)
		if err != nil {
			return false, err
		}
		lo, err := num(m.top(2), m.minimal, m.numLen)
		if err != nil {
			return false, err
		}
		hi, err := num(m.top(1), m.minimal, m.numLen)
		if err != nil {
			return false, err
		}
		m.pop()
		m.pop()
		m.pop()
		return false, m.pushBool(lo.Cmp(x) <= 0 && x.Cmp(hi) < 0)
	case 0xa6, 0xa7, 0xa8, 0xa9, 0xaa: // hashes
		if err := m.need(1); err != nil {
			return false, err
		}
		v := m.pop()
		var h []byte
		switch op {
		case 0xa6:
			r := ripemd160.New()
			r.Write(v)
			h = r.Sum(nil)
		case 0xa7:
			s := sha1.Sum(v)
			h = s[:]
		case 0xa8:
			s := sha256.Sum256(v)
			h = s[:]
		case 0xa9:
			s := sha256.Sum256(v)
			r := ripemd160.New()
			r.Write(s[:])
			h = r.Sum(nil)
		case 0xaa:
			s := sha256.Sum256(v)
			s2 := sha256.Sum256(s[:])
			h = s2[:]
		}
		return false, m.push(h)
	case 0xab: // CODESEPARATOR
		*codeHash = in.End
		return false, nil
	case 0xac, 0xad: // CHECKSIG CHECKSIGVERIFY
		if m.o.Sig == nil {
			return false, &unsupported{"signature opcode without a checker"}
		}
		return false, m.checkSig(op, script[*codeHash:])
	case 0xae, 0xaf: // CHECKMULTISIG CHECKMULTISIGVERIFY
		if m.o.Sig == nil {
			return false, &unsupported{"signature opcode without a checker"}
		}
		return false, m.checkMultiSig(op, script[*codeHash:], opCount)
	}
	// OP_RESERVED, OP_VER, OP_RESERVED1/2, 0xba..0xff and anything unknown
	return false, fail("BAD_OPCODE")
}

// Verify is the node's VerifyScript.
func Verify(unlock, lock []byte, o Opts) (res Result) {
	m := &machine{o: &o, genesis: o.Flags.Has(FGenesis), minimal: o.Flags.Has(FMinimalData), maxElem: o.MaxElem}
	if m.maxElem == 0 {
		m.maxElem = 4 << 20
	}
	m.numLen = maxNumLenPre
	if m.genesis {
		m.numLen = maxNumLenPost
	}
	finish := func(err error) Result {
		res.Steps = m.steps
		res.Final = m.stack
		if err != nil {
			if u, ok := err.(*unsupported); ok {
				res.Unsupported = u.why
				return res
			}
			res.Err = err.Error()
			if m.inInstr {
				res.HasFail, res.FailScript, res.FailIdx, res.FailOp = true, m.curScript, m.curIdx, m.curOp
			}
			return res
		}
		res.OK = true
		return res
	}
	if o.Flags.Has(FSigPushOnly) && !IsPushOnly(unlock) {
		return finish(fail("SIG_PUSHONLY"))
	}
	p2sh := o.Flags.Has(FP2SH) && !m.genesis && IsP2SH(lock)
	var saved [][]byte
	if err := m.eval(unlock, 0, nil); err != nil {
		return finish(err)
	}
	if o.Flags.Has(FP2SH) {
		saved = make([][]byte, len(m.stack))
		copy(saved, m.stack)
	}
	var redeem []byte
	lockEnd := func() error {
		if len(m.stack) == 0 || !CastToBool(m.stack[len(m.stack)-1]) {
			return fail("EVAL_FALSE")
		}
		if !p2sh {
			return nil
		}
		if !IsPushOnly(unlock) {
			return fail("SIG_PUSHONLY")
		}
		if len(saved) == 0 {
			return fail("EVAL_FALSE") // unreachable per the node's assert
		}
		m.stack = saved
		redeem = m.stack[len(m.stack)-1]
		m.stack = m.stack[:len(m.stack)-1]
		return nil
	}
	if len(lock) == 0 {
		// nothing to record; the end-of-script conditions still apply
		m.alt = nil
		if err := lockEnd(); err != nil {
			return finish(err)
		}
	} else if err := m.eval(lock, 1, lockEnd); err != nil {
		return finish(err)
	}
	if p2sh {
		if err := m.eval(redeem, 2, nil); err != nil {
			return finish(err)
		}
		if len(m.stack) == 0 || !CastToBool(m.stack[len(m.stack)-1]) {
			return finish(fail("EVAL_FALSE"))
		}
	}
	if o.Flags.Has(FCleanStack) {
		if !o.Flags.Has(FP2SH) {
			res.Unsupported = "CLEANSTACK without P2SH"
			return res
		}
		if len(m.stack) != 1 {
			return finish(fail("CLEANSTACK"))
		}
	}
	return finish(nil)
}
