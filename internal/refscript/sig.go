package refscript

import "math/big"

// secp256k1 group order / 2, for the LOW_S rule.
var halfOrder, _ = new(big.Int).SetString("7FFFFFFFFFFFFFFFFFFFFFFFFFFFFFFF5D576E7357A4501DDFE92F46681B20A0", 16)

// validDER is BIP66's IsValidSignatureEncoding over the signature WITHOUT the hash-type byte.
func validDER(sig []byte) bool {
	n := len(sig)
	if n < 8 || n > 72 {
		return false
	}
	if sig[0] != 0x30 || int(sig[1]) != n-2 {
		return false
	}
	lenR := int(sig[3])
	if 5+lenR >= n {
		return false
	}
	lenS := int(sig[5+lenR])
	if lenR+lenS+6 != n {
		return false
	}
	if sig[2] != 0x02 || lenR == 0 || sig[4]&0x80 != 0 {
		return false
	}
	if lenR > 1 && sig[4] == 0 && sig[5]&0x80 == 0 {
		return false
	}
	if sig[lenR+4] != 0x02 || lenS == 0 || sig[lenR+6]&0x80 != 0 {
		return false
	}
	if lenS > 1 && sig[lenR+6] == 0 && sig[lenR+7]&0x80 == 0 {
		return false
	}
	return true
}

func lowS(sig []byte) bool {
	lenR := int(sig[3])
	lenS := int(sig[5+lenR])
	s := new(big.Int).SetBytes(sig[6+lenR : 6+lenR+lenS])
	return s.Cmp(halfOrder) <= 0
}

// checkSigEncoding is the node's CheckTransactionSignatureEncoding (full signature incl. hash type).
func (m *machine) checkSigEncoding(full []byte) error {
	if len(full) == 0 {
		return nil
	}
	f := m.o.Flags
	body := full[:len(full)-1]
	if f&(FDERSig|FLowS|FStrictEnc) != 0 && !validDER(body) {
		return fail("SIG_DER")
	}
	if f.Has(FLowS) && !lowS(body) {
		return fail("SIG_HIGH_S")
	}
	if f.Has(FStrictEnc) {
		ht := full[len(full)-1]
		base := ht &^ (0x80 | 0x40)
		if base < 1 || base > 3 {
			return fail("SIG_HASHTYPE")
		}
		uses := ht&0x40 != 0
		if !f.Has(FForkID) && uses {
			return fail("ILLEGAL_FORKID")
		}
		if f.Has(FForkID) && !uses {
			return fail("MUST_USE_FORKID")
		}
	}
	return nil
}

func (m *machine) checkPubKeyEncoding(pk []byte) error {
	if !m.o.Flags.Has(FStrictEnc) {
		return nil
	}
	if len(pk) == 33 && (pk[0] == 2 || pk[0] == 3) {
		return nil
	}
	if len(pk) == 65 && pk[0] == 4 {
		return nil
	}
	return fail("PUBKEYTYPE")
}

func pushOf(d []byte) []byte {
	n := len(d)
	var h []byte
	switch {
	case n < 0x4c:
		h = []byte{byte(n)}
	case n <= 0xff:
		h = []byte{0x4c, byte(n)}
	case n <= 0xffff:
		h = []byte{0x4d, byte(n), byte(n >> 8)}
	default:
		h = []byte{0x4e, byte(n), byte(n >> 8), byte(n >> 16), byte(n >> 24)}
	}
	return append(h, d...)
}

// FindAndDelete removes every occurrence of pat that starts at an instruction boundary.
func FindAndDelete(script, pat []byte) []byte {
	if len(pat) == 0 {
		return script
	}
	var out []byte
	found := false
	pc, pc2 := 0, 0
	for {
		out = append(out, script[pc2:pc]...)
		for len(script)-pc >= len(pat) && string(script[pc:pc+len(pat)]) == string(pat) {
			pc += len(pat)
			found = true
		}
		pc2 = pc
		if pc >= len(script) {
			break
		}
		in := NextOp(script, pc)
		if in.Bad {
			break
		}
		pc = in.End
	}
	if !found {
		return script
	}
	return append(out, script[pc2:]...)
}

// cleanup is the node's CleanupScriptCode: legacy signatures are deleted from the script code.
func (m *machine) cleanup(code, sig []byte) []byte {
	if len(sig) == 0 {
		return code
	}
	ht := sig[len(sig)-1]
	if !m.o.Flags.Has(FForkID) || ht&0x40 == 0 {
		return FindAndDelete(code, pushOf(sig))
	}
	return code
}

func (m *machine) checkSig(op byte, code []byte) error {
	if err := m.need(2); err != nil {
		return err
	}
	sig, pk := m.top(2), m.top(1)
	if err := m.checkSigEncoding(sig); err != nil {
		return err
	}
	if err := m.checkPubKeyEncoding(pk); err != nil {
		return err
	}
	if m.o.Sig == nil {
		return &unsupported{"signature opcode without a checker"}
	}
	ok := false
	if len(sig) > 0 {
		ok = m.o.Sig.CheckSig(sig, pk, m.cleanup(code, sig), m.o.Flags.Has(FForkID))
	}
	if !ok && m.o.Flags.Has(FNullFail) && len(sig) > 0 {
		return fail("SIG_NULLFAIL")
	}
	m.pop()
	m.pop()
	if op == 0xad {
		if !ok {
			return fail("CHECKSIGVERIFY")
		}
		return nil
	}
	return m.pushBool(ok)
}

func (m *machine) checkMultiSig(op byte, code []byte, opCount *int) error {
	i := 1
	if len(m.stack) < i {
		return fail("INVALID_STACK_OPERATION")
	}
	kn, err := num(m.top(i), m.minimal, 4)
	if err != nil {
		return err
	}
	if kn.Sign() < 0 {
		return fail("PUBKEY_COUNT")
	}
	if !m.genesis && kn.Cmp(big.NewInt(maxKeysPre)) > 0 {
		return fail("PUBKEY_COUNT")
	}
	nKeys := int(kn.Int64())
	*opCount += nKeys
	if !m.genesis && *opCount > maxOpsPre {
		return fail("OP_COUNT")
	}
	i++
	ikey := i
	ikey2 := nKeys + 2
	i += nKeys
	if len(m.stack) < i {
		return fail("INVALID_STACK_OPERATION")
	}
	sn, err := num(m.top(i), m.minimal, 4)
	if err != nil {
		return err
	}
	if sn.Sign() < 0 || sn.Cmp(kn) > 0 {
		return fail("SIG_COUNT")
	}
	nSigs := int(sn.Int64())
	i++
	isig := i
	i += nSigs
	if len(m.stack) < i {
		return fail("INVALID_STACK_OPERATION")
	}
	for k := 0; k < nSigs; k++ {
		code = m.cleanup(code, m.top(isig+k))
	}
	success := true
	for success && nSigs > 0 {
		sig, pk := m.top(isig), m.top(ikey)
		if err := m.checkSigEncoding(sig); err != nil {
			return err
		}
		if err := m.checkPubKeyEncoding(pk); err != nil {
			return err
		}
		if m.o.Sig == nil {
			return &unsupported{"signature opcode without a checker"}
		}
		ok := false
		if len(sig) > 0 {
			ok = m.o.Sig.CheckSig(sig, pk, code, m.o.Flags.Has(FForkID))
		}
		if ok {
			isig++
			nSigs--
		}
		ikey++
		nKeys--
		if nSigs > nKeys {
			success = false
		}
	}
	for ; i > 1; i-- {
		if !success && m.o.Flags.Has(FNullFail) && ikey2 == 0 && len(m.top(1)) > 0 {
			return fail("SIG_NULLFAIL")
		}
		if ikey2 > 0 {
			ikey2--
		}
		m.pop()
	}
	if len(m.stack) < 1 {
		return fail("INVALID_STACK_OPERATION")
	}
	if m.o.Flags.Has(FNullDummy) && len(m.top(1)) > 0 {
		return fail("SIG_NULLDUMMY")
	}
	m.pop()
	if op == 0xaf {
		if !success {
			return fail("CHECKMULTISIGVERIFY")
		}
		return nil
	}
	return m.pushBool(success)
}
