// Package refcodec holds the independent codecs of the monitors. This file is
// the script part: a push-data tokenizer with offsets, the minimal-push encoder
// and a recogniser for the standard output templates. Nothing from go-bt is
// imported; the rules are written down from the Bitcoin script wire format:
//
//	0x01..0x4b  push of that many following bytes
//	0x4c        PUSHDATA1: one length byte, then the data
//	0x4d        PUSHDATA2: two length bytes (little endian), then the data
//	0x4e        PUSHDATA4: four length bytes (little endian), then the data
//	any other   a one-byte opcode (0x00 = OP_0 included)
package refcodec

// Token is one instruction of a script.
type Token struct {
	Op        byte
	Push      bool   // Op is one of 0x01..0x4e
	Start     int    // offset of the opcode byte
	DataStart int    // offset of the first data byte (== End for non-push opcodes)
	End       int    // offset after the instruction
	Data      []byte // the pushed bytes (nil for non-push opcodes; empty, non-nil for zero-length pushes)
}

// HeaderLen is the number of bytes before the data (opcode + length bytes).
func (t Token) HeaderLen() int { return t.DataStart - t.Start }

// Minimal reports whether a push uses the shortest opcode form for its length
// (non-push opcodes are minimal by definition). A zero-length push is never
// minimal: the shortest form of "nothing" is the opcode OP_0.
func (t Token) Minimal() bool {
	if !t.Push {
		return true
	}
	n := len(t.Data)
	switch {
	case n == 0:
		return false
	case n <= 75:
		return int(t.Op) == n
	case n <= 255:
		return t.Op == 0x4c
	case n <= 65535:
		return t.Op == 0x4d
	}
	return t.Op == 0x4e
}

// Tokenize splits a script. When a push announces more bytes than the script
// has (or its length bytes are cut) it returns the complete tokens before it
// and truncAt = offset of the opcode byte of the cut push; otherwise truncAt = -1.
func Tokenize(s []byte) (toks []Token, truncAt int) {
	i := 0
	for i < len(s) {
		op := s[i]
		if op < 0x01 || op > 0x4e {
			toks = append(toks, Token{Op: op, Start: i, DataStart: i + 1, End: i + 1})
			i++
			continue
		}
		hdr, n := 1, int(op)
		switch op {
		case 0x4c:
			hdr = 2
		case 0x4d:
			hdr = 3
		case 0x4e:
			hdr = 5
		}
		if hdr > 1 {
			if len(s)-i < hdr {
				return toks, i
			}
			n = 0
			for k := hdr - 1; k >= 1; k-- {
				n = n<<8 | int(s[i+k])
			}
		}
		if len(s)-i-hdr < n {
			return toks, i
		}
		toks = append(toks, Token{Op: op, Push: true, Start: i, DataStart: i + hdr, End: i + hdr + n, Data: s[i+hdr : i+hdr+n : i+hdr+n]})
		i += hdr + n
	}
	return toks, -1
}

// WellFormed reports whether the whole script tokenizes.
func WellFormed(s []byte) bool {
	_, t := Tokenize(s)
	return t < 0
}

// MinimalPush is the shortest push instruction carrying d (len(d) >= 1;
// for an empty d it returns OP_0, which is what "push nothing" is in script).
func MinimalPush(d []byte) []byte {
	n := len(d)
	var h []byte
	switch {
	case n == 0:
		return []byte{0x00}
	case n <= 75:
		h = []byte{byte(n)}
	case n <= 255:
		h = []byte{0x4c, byte(n)}
	case n <= 65535:
		h = []byte{0x4d, byte(n), byte(n >> 8)}
	default:
		h = []byte{0x4e, byte(n), byte(n >> 8), byte(n >> 16), byte(n >> 24)}
	}
	out := make([]byte, 0, len(h)+n)
	out = append(out, h...)
	return append(out, d...)
}

// PushWith encodes d with the given push opcode (0x01..0x4b must equal len(d);
// 0x4c/0x4d/0x4e take the length from d). ok = false if d does not fit.
func PushWith(op byte, d []byte) (out []byte, ok bool) {
	n := len(d)
	switch {
	case op >= 1 && op <= 75:
		if n != int(op) {
			return nil, false
		}
		out = []byte{op}
	case op == 0x4c:
		if n > 255 {
			return nil, false
		}
		out = []byte{op, byte(n)}
	case op == 0x4d:
		if n > 65535 {
			return nil, false
		}
		out = []byte{op, byte(n), byte(n >> 8)}
	case op == 0x4e:
		out = []byte{op, byte(n), byte(n >> 8), byte(n >> 16), byte(n >> 24)}
	default:
		return nil, false
	}
	return append(out, d...), true
}

// EncodeItems concatenates the minimal pushes of the items.
func EncodeItems(items [][]byte) []byte {
	var out []byte
	for _, it := range items {
		out = append(out, MinimalPush(it)...)
	}
	return out
}

// ---------------------------------------------------------------- templates

// Template is the standard output template a script instantiates.
type Template int

const (
	TplNone Template = iota
	TplP2PKH
	TplP2PK
	TplP2SH
	TplMultisig
	TplData
	TplP2PKHInscription
)

func (t Template) String() string {
	return [...]string{"none", "p2pkh", "p2pk", "p2sh", "multisig", "data", "p2pkh-inscription"}[t]
}

// IsP2PKH: 76 a9 14 <20 bytes> 88 ac, exactly 25 bytes.
func IsP2PKH(s []byte) bool {
	return len(s) == 25 && s[0] == 0x76 && s[1] == 0xa9 && s[2] == 0x14 && s[23] == 0x88 && s[24] == 0xac
}

// IsP2SH: a9 14 <20 bytes> 87, exactly 23 bytes.
func IsP2SH(s []byte) bool {
	return len(s) == 23 && s[0] == 0xa9 && s[1] == 0x14 && s[22] == 0x87
}

// HasDataPrefix: the script starts with OP_RETURN or OP_FALSE OP_RETURN.
func HasDataPrefix(s []byte) bool {
	return (len(s) >= 1 && s[0] == 0x6a) || (len(s) >= 2 && s[0] == 0x00 && s[1] == 0x6a)
}

// validKeyPush: a direct push of a public key whose length matches its header
// byte (33 bytes for 02/03, 65 bytes for 04/06/07) - the node's
// CPubKey::ValidSize.
func validKeyPush(t Token) bool {
	if !t.Push {
		return false
	}
	switch len(t.Data) {
	case 33:
		return t.Op == 33 && (t.Data[0] == 2 || t.Data[0] == 3)
	case 65:
		return t.Op == 65 && (t.Data[0] == 4 || t.Data[0] == 6 || t.Data[0] == 7)
	}
	return false
}

// IsP2PK: <33- or 65-byte key push> ac and nothing else.
func IsP2PK(s []byte) bool {
	toks, tr := Tokenize(s)
	return tr < 0 && len(toks) == 2 && validKeyPush(toks[0]) && !toks[1].Push && toks[1].Op == 0xac
}

// IsMultisig: OP_m <n key pushes> OP_n OP_CHECKMULTISIG with 1 <= m <= n <= 16.
func IsMultisig(s []byte) (m, n int, ok bool) {
	toks, tr := Tokenize(s)
	if tr >= 0 || len(toks) < 4 {
		return 0, 0, false
	}
	small := func(t Token) int {
		if !t.Push && t.Op >= 0x51 && t.Op <= 0x60 {
			return int(t.Op) - 0x50
		}
		return -1
	}
	m = small(toks[0])
	n = small(toks[len(toks)-2])
	last := toks[len(toks)-1]
	if m < 1 || n < 1 || m > n || n != len(toks)-3 || last.Push || last.Op != 0xae {
		return 0, 0, false
	}
	for _, t := range toks[1 : len(toks)-2] {
		if !validKeyPush(t) {
			return 0, 0, false
		}
	}
	return m, n, true
}

func isPushOrOp0(t Token) bool {
	return (t.Push && t.Minimal()) || (!t.Push && t.Op == 0x00)
}

// IsP2PKHInscription recognises what go-bt's Tx.Inscribe builds on a P2PKH
// prefix:
//
//	76 a9 14 <20> 88 ac  00 63  03 "ord"  51  <content type>  00  <content>  68  [6a <item>...]
//
// where <content type>, <content> and each <item> are minimal pushes (or OP_0
// for an empty value, which is how an empty byte string is pushed).
func IsP2PKHInscription(s []byte) bool {
	if len(s) < 25 || !IsP2PKH(s[:25]) {
		return false
	}
	toks, tr := Tokenize(s)
	if tr >= 0 || len(toks) < 13 || len(toks) == 14 {
		return false
	}
	op := func(i int, b byte) bool { return !toks[i].Push && toks[i].Op == b }
	ord := toks[7]
	if !(op(5, 0x00) && op(6, 0x63) && ord.Push && ord.Op == 3 && string(ord.Data) == "ord" &&
		op(8, 0x51) && isPushOrOp0(toks[9]) && op(10, 0x00) && isPushOrOp0(toks[11]) && op(12, 0x68)) {
		return false
	}
	if len(toks) == 13 {
		return true
	}
	if !op(13, 0x6a) {
		return false
	}
	for _, t := range toks[14:] {
		if !isPushOrOp0(t) {
			return false
		}
	}
	return true
}

// Classify returns the template a script instantiates. The templates are
// mutually exclusive by their first byte (76 / key push / a9 / OP_1..16 /
// 6a or 00 6a), except that P2PKH and the P2PKH inscription share a prefix and
// differ in length.
func Classify(s []byte) Template {
	switch {
	case HasDataPrefix(s):
		return TplData
	case IsP2PKH(s):
		return TplP2PKH
	case IsP2SH(s):
		return TplP2SH
	case IsP2PK(s):
		return TplP2PK
	case IsP2PKHInscription(s):
		return TplP2PKHInscription
	}
	if _, _, ok := IsMultisig(s); ok {
		return TplMultisig
	}
	return TplNone
}

// SelfTestScript checks the tokenizer, the encoder and the recogniser against
// hand-written vectors (wire format facts, not library output). A failure makes
// a run inconclusive.
func SelfTestScript() string {
	h := func(s string) []byte {
		b := make([]byte, len(s)/2)
		for i := range b {
			v := 0
			for _, c := range []byte(s[2*i : 2*i+2]) {
				v <<= 4
				switch {
				case c >= '0' && c <= '9':
					v |= int(c - '0')
				default:
					v |= int(c-'a') + 10
				}
			}
			b[i] = byte(v)
		}
		return b
	}
	type tv struct {
		hex   string
		n     int // tokens
		trunc int
	}
	for _, v := range []tv{
		{"", 0, -1}, {"00", 1, -1}, {"51", 1, -1}, {"01", 0, 0}, {"0151", 1, -1}, {"4c", 0, 0}, {"4c00", 1, -1}, {"4c01", 0, 0}, {"4c0151", 1, -1},
		{"4d00", 0, 0}, {"4d0000", 1, -1}, {"4d0100", 0, 0}, {"4d0100ff", 1, -1}, {"4e000000", 0, 0}, {"4e00000000", 1, -1}, {"4e01000000", 0, 0}, {"4e01000000aa", 1, -1},
		{"76a914000102030405060708090a0b0c0d0e0f1011121388ac", 5, -1}, {"76a914000102030405060708090a0b0c0d0e0f10111288ac", 4, -1}, {"76a9140001020388ac", 2, 2}, {"6a4f50ff", 4, -1}, {"5102aabb", 2, -1}, {"5103aabb", 1, 1},
	} {
		toks, tr := Tokenize(h(v.hex))
		if len(toks) != v.n || tr != v.trunc {
			return "tokenizer vector " + v.hex
		}
		end := 0
		for _, t := range toks {
			if t.Start != end || t.End < t.DataStart || len(t.Data) != t.End-t.DataStart {
				return "tokenizer offsets " + v.hex
			}
			end = t.End
		}
	}
	for _, n := range []int{1, 75, 76, 255, 256, 65535, 65536} {
		p := MinimalPush(make([]byte, n))
		want := map[int]int{1: 2, 75: 76, 76: 78, 255: 257, 256: 259, 65535: 65538, 65536: 65541}[n]
		toks, tr := Tokenize(p)
		if len(p) != want || tr >= 0 || len(toks) != 1 || len(toks[0].Data) != n || !toks[0].Minimal() {
			return "minimal push length class"
		}
	}
	if (Token{Op: 0x4c, Push: true, Data: make([]byte, 75)}).Minimal() || (Token{Op: 0x4d, Push: true, Data: make([]byte, 255)}).Minimal() || (Token{Op: 0x4e, Push: true, Data: make([]byte, 65535)}).Minimal() {
		return "non-minimal push accepted as minimal"
	}
	key33 := "02" + "11223344556677889900aabbccddeeff11223344556677889900aabbccddeeff"
	key65 := "04" + "11223344556677889900aabbccddeeff11223344556677889900aabbccddeeff" + "11223344556677889900aabbccddeeff11223344556677889900aabbccddeeff"
	p2pkh := "76a914000102030405060708090a0b0c0d0e0f1011121388ac"
	for _, v := range []struct {
		hex string
		t   Template
	}{
		{p2pkh, TplP2PKH}, {p2pkh + "00", TplNone}, {"a914000102030405060708090a0b0c0d0e0f1011121387", TplP2SH},
		{"21" + key33 + "ac", TplP2PK}, {"41" + key65 + "ac", TplP2PK}, {"4c21" + key33 + "ac", TplNone}, {"21" + "05" + key33[2:] + "ac", TplNone},
		{"51" + "21" + key33 + "51ae", TplMultisig}, {"52" + "21" + key33 + "41" + key65 + "52ae", TplMultisig}, {"52" + "21" + key33 + "51ae", TplNone}, {"51" + "21" + key33 + "52ae", TplNone},
		{"6a", TplData}, {"006a", TplData}, {"006a51ae", TplData}, {"6a0568656c6c6f", TplData}, {"00", TplNone}, {"", TplNone},
		{p2pkh + "0063036f7264510a746578742f706c61696e000548656c6c6f68", TplP2PKHInscription},
		{p2pkh + "0063036f72645100000068", TplP2PKHInscription},
		{p2pkh + "0063036f7264510a746578742f706c61696e000548656c6c6f686a0361626300", TplP2PKHInscription},
		{p2pkh + "0063036f7264510a746578742f706c61696e000548656c6c6f686a", TplNone},
		{p2pkh + "0063036f7264510a746578742f706c61696e000548656c6c6f", TplNone},
		{p2pkh + "0063026f72510a746578742f706c61696e000548656c6c6f68", TplNone},
	} {
		if got := Classify(h(v.hex)); got != v.t {
			return "template vector " + v.hex + " classified " + got.String()
		}
	}
	return ""
}
