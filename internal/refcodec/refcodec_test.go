package refcodec

import (
	"bytes"
	"encoding/hex"
	"testing"
)

func TestVarint(t *testing.T) {
	cases := []struct {
		v   uint64
		hex string
	}{
		{0, "00"}, {1, "01"}, {252, "fc"}, {253, "fdfd00"}, {254, "fdfe00"}, {65535, "fdffff"},
		{65536, "fe00000100"}, {0xffffffff, "feffffffff"}, {0x100000000, "ff0000000001000000"},
		{^uint64(0), "ffffffffffffffffff"},
	}
	for _, c := range cases {
		got := hex.EncodeToString(AppendVarint(nil, c.v, 0))
		if got != c.hex {
			t.Errorf("AppendVarint(%d) = %s, want %s", c.v, got, c.hex)
		}
		b, _ := hex.DecodeString(c.hex)
		v, w, min, err := ReadVarint(append(b, 0xaa))
		if err != nil || v != c.v || w != len(b) || !min {
			t.Errorf("ReadVarint(%s) = %d,%d,%v,%v", c.hex, v, w, min, err)
		}
		if VarintLen(c.v) != len(b) {
			t.Errorf("VarintLen(%d) = %d", c.v, VarintLen(c.v))
		}
		// every wider form decodes to the same value and is flagged non-minimal
		for _, width := range []int{3, 5, 9} {
			if width <= len(b) {
				continue
			}
			nb := AppendVarint(nil, c.v, width)
			v, w, min, err := ReadVarint(nb)
			if err != nil || v != c.v || w != width || min || len(nb) != width {
				t.Errorf("non-minimal %d in %d bytes: %x -> %d,%d,%v,%v", c.v, width, nb, v, w, min, err)
			}
		}
		// a width that cannot hold the value falls back to the minimal one
		if !bytes.Equal(AppendVarint(nil, c.v, 1), AppendVarint(nil, c.v, 0)) && c.v > 252 {
			t.Errorf("width fallback for %d", c.v)
		}
		// short input
		for k := 0; k < len(b); k++ {
			if _, _, _, err := ReadVarint(b[:k]); err != ErrShort {
				t.Errorf("ReadVarint(%x) short: err=%v", b[:k], err)
			}
		}
	}
}

func sample() *Tx {
	h := make([]byte, 32)
	for i := range h {
		h[i] = byte(i)
	}
	return &Tx{Version: 2, LockTime: 0xef000000,
		Ins: []In{
			{PrevHash: h, Vout: 7, Script: []byte{1, 2, 3}, Seq: 0xfffffffe, PrevSats: 1<<63 + 5, PrevScript: bytes.Repeat([]byte{0xab}, 253)},
			{PrevHash: h, Vout: 0xffffffff, Script: nil, Seq: 0, PrevSats: 0, PrevScript: nil},
		},
		Outs: []Out{{Sats: 21e14, Script: bytes.Repeat([]byte{0x6a}, 65536)}, {Sats: 0, Script: []byte{}}},
	}
}

func TestHandWrittenLayout(t *testing.T) {
	h := make([]byte, 32)
	h[0] = 0x11
	tx := &Tx{Version: 1, LockTime: 5, Ins: []In{{PrevHash: h, Vout: 2, Script: []byte{0x51}, Seq: 0xffffffff, PrevSats: 258, PrevScript: []byte{0xac, 0xad}}}, Outs: []Out{{Sats: 3, Script: []byte{0x6a}}}}
	std := "01000000" + "01" + "11" + "00000000000000000000000000000000000000000000000000000000000000" + "02000000" + "01" + "51" + "ffffffff" + "01" + "0300000000000000" + "01" + "6a" + "05000000"
	ext := "01000000" + "0000000000ef" + "01" + "11" + "00000000000000000000000000000000000000000000000000000000000000" + "02000000" + "01" + "51" + "ffffffff" + "0201000000000000" + "02" + "acad" + "01" + "0300000000000000" + "01" + "6a" + "05000000"
	if got := hex.EncodeToString(Encode(tx, false, nil)); got != std {
		t.Fatalf("standard layout\n got %s\nwant %s", got, std)
	}
	if got := hex.EncodeToString(Encode(tx, true, nil)); got != ext {
		t.Fatalf("extended layout\n got %s\nwant %s", got, ext)
	}
}

func TestRoundTripAndConsumed(t *testing.T) {
	tx := sample()
	for _, extended := range []bool{false, true} {
		b, fs := EncodeTrace(tx, extended, nil)
		d, err := Decode(append(append([]byte{}, b...), 0xde, 0xad))
		if err != nil {
			t.Fatal(err)
		}
		if d.Consumed != len(b) || d.Extended != extended || d.NonMinimal != 0 {
			t.Fatalf("consumed %d of %d extended=%v nonminimal=%d", d.Consumed, len(b), d.Extended, d.NonMinimal)
		}
		if f := Equal(&d.Tx, tx, extended); f != "" {
			t.Fatalf("field %s differs", f)
		}
		if len(fs) != len(d.Varints) {
			t.Fatalf("varint trace %d vs %d", len(fs), len(d.Varints))
		}
		for i := range fs {
			if fs[i] != d.Varints[i] {
				t.Fatalf("varint %d: %+v vs %+v", i, fs[i], d.Varints[i])
			}
		}
		// every proper prefix is short
		for k := 0; k < len(b); k += 1 + k/50 {
			if _, err := Decode(b[:k]); err != ErrShort {
				t.Fatalf("prefix %d/%d: err=%v", k, len(b), err)
			}
		}
		// non-minimal everywhere
		nb := Encode(tx, extended, func(k int, kind string, v uint64) int { return 9 })
		nd, err := Decode(nb)
		if err != nil || nd.Consumed != len(nb) || nd.NonMinimal != len(fs) || Equal(&nd.Tx, tx, extended) != "" {
			t.Fatalf("non-minimal decode: %v %+v", err, nd)
		}
		if !bytes.Equal(Encode(&nd.Tx, extended, nil), b) {
			t.Fatal("canonical re-encoding differs")
		}
	}
}

func TestHugeClaimsDoNotAllocate(t *testing.T) {
	h := make([]byte, 32)
	b := append([]byte{1, 0, 0, 0, 1}, h...)
	b = append(b, 0, 0, 0, 0)
	b = append(b, 0xff, 0xff, 0xff, 0xff, 0xff, 0xff, 0xff, 0xff, 0xff, 1, 2, 3)
	if _, err := Decode(b); err != ErrShort {
		t.Fatalf("err = %v", err)
	}
	l := append([]byte{0xff, 0xff, 0xff, 0xff, 0xff, 0xff, 0xff, 0xff, 0x7f}, b...)
	if _, err := DecodeList(l); err != ErrShort {
		t.Fatalf("list err = %v", err)
	}
}

func TestList(t *testing.T) {
	a, c := sample(), &Tx{Version: 1}
	b, fs := EncodeList([]*Tx{a, c, a}, []bool{true, false, false}, nil)
	if fs[0].Kind != "list-count" || fs[0].Value != 3 {
		t.Fatalf("%+v", fs[0])
	}
	l, err := DecodeList(append(append([]byte{}, b...), 9, 9, 9))
	if err != nil || l.Consumed != len(b) || len(l.Txs) != 3 || !l.Txs[0].Extended || l.Txs[1].Extended || l.NonMinimal != 0 {
		t.Fatalf("%v %+v", err, l)
	}
	if Equal(&l.Txs[2].Tx, a, false) != "" || Equal(&l.Txs[0].Tx, a, true) != "" || Equal(&l.Txs[1].Tx, c, true) != "" {
		t.Fatal("list element differs")
	}
	if _, err := DecodeList(b[:len(b)-1]); err != ErrShort {
		t.Fatalf("err=%v", err)
	}
}

func TestInOut(t *testing.T) {
	tx := sample()
	for _, e := range []bool{false, true} {
		b, _ := EncodeIn(&tx.Ins[0], e, nil)
		in, n, err := DecodeIn(append(b, 1), e)
		if err != nil || n != len(b)-0 || Equal(&Tx{Ins: []In{in}}, &Tx{Ins: tx.Ins[:1]}, e) != "" {
			t.Fatalf("input ext=%v: %v n=%d len=%d", e, err, n, len(b))
		}
	}
	b, _ := EncodeOut(&tx.Outs[0], nil)
	o, n, err := DecodeOut(b)
	if err != nil || n != len(b) || o.Sats != tx.Outs[0].Sats || !bytes.Equal(o.Script, tx.Outs[0].Script) {
		t.Fatal("output")
	}
}

func TestAmbiguousAndMarker(t *testing.T) {
	a := &Tx{Version: 1, LockTime: 0xef000000}
	if !a.Ambiguous() {
		t.Fatal("ambiguous shape not recognised")
	}
	// the standard encoding of the ambiguous shape IS the start of an extended tx
	if _, err := Decode(Encode(a, false, nil)); err != ErrShort {
		t.Fatalf("err=%v", err)
	}
	b := &Tx{Version: 1, LockTime: 0xef000000, Outs: []Out{{Sats: 1, Script: []byte{}}}}
	d, err := Decode(Encode(b, false, nil))
	if err != nil || d.Extended || Equal(&d.Tx, b, false) != "" {
		t.Fatal("0-input tx with EF locktime must decode as standard")
	}
}

func TestSelfCheckVectors(t *testing.T) {
	n, err := SelfCheck("../../testdata")
	if err != nil {
		t.Fatal(err)
	}
	t.Logf("%d vectors reproduced", n)
}

func TestScan(t *testing.T) {
	tx := sample()
	for _, ext := range []bool{false, true} {
		b, fs := EncodeTrace(tx, ext, nil)
		got := Scan("tx", b)
		if len(got) != len(fs) {
			t.Fatalf("ext=%v: %d fields, want %d", ext, len(got), len(fs))
		}
		for i := range fs {
			if got[i] != fs[i] {
				t.Fatalf("field %d: %+v vs %+v", i, got[i], fs[i])
			}
		}
		// a hostile length is reported although its payload is missing
		f := fs[1]
		h := append(append(append([]byte{}, b[:f.Off]...), AppendVarint(nil, 1<<40, 0)...), b[f.Off+f.Width:]...)
		got = Scan("tx", h)
		if last := got[len(got)-1]; last.Value != 1<<40 || last.Kind != f.Kind {
			t.Fatalf("claim not reported: %+v", last)
		}
	}
	l := Scan("list", []byte{0xfe, 1, 2, 3, 4, 9})
	if len(l) != 1 || l[0].Value != 0x04030201 || l[0].Kind != "list-count" {
		t.Fatalf("%+v", l)
	}
	o := Scan("out", []byte{1, 2, 3, 4, 5, 6, 7, 8, 0xff, 1, 0, 0, 0, 0, 0, 0, 0x80})
	if len(o) != 1 || o[0].Value != 1|0x80<<56 {
		t.Fatalf("%+v", o)
	}
}
