// Package refcodec is the independent reference codec of the monitors: the
// Bitcoin "compact size" varint (able to emit and to detect non-minimal
// forms), the standard transaction serialisation, the extended format
// (BIP-239 style: after the 4-byte version the marker 00 00 00 00 00 EF, every
// input followed by the 8-byte value and the varint-prefixed locking script of
// the output it spends) and counted transaction lists (varint count, then the
// transactions). Every decoder reports how many bytes it consumed and never
// sizes a buffer from an untrusted length. It imports nothing from go-bt.
package refcodec

import (
	"crypto/sha256"
	"encoding/binary"
	"encoding/hex"
	"errors"
	"fmt"
)

// ErrShort is returned when the input ends inside a transaction.
var ErrShort = errors.New("refcodec: input ends inside the structure")

// Marker is what follows the version in the extended format.
var Marker = []byte{0x00, 0x00, 0x00, 0x00, 0x00, 0xEF}

// ---------------------------------------------------------------- varint

// VarintLen is the width of the minimal encoding of v.
func VarintLen(v uint64) int {
	switch {
	case v <= 0xfc:
		return 1
	case v <= 0xffff:
		return 3
	case v <= 0xffffffff:
		return 5
	}
	return 9
}

// AppendVarint appends v in the given width (1, 3, 5 or 9; 0 = minimal). A
// width that cannot hold v is replaced by the minimal one.
func AppendVarint(dst []byte, v uint64, width int) []byte {
	min := VarintLen(v)
	if width != 1 && width != 3 && width != 5 && width != 9 || width < min {
		width = min
	}
	switch width {
	case 1:
		return append(dst, byte(v))
	case 3:
		return append(dst, 0xfd, byte(v), byte(v>>8))
	case 5:
		return append(dst, 0xfe, byte(v), byte(v>>8), byte(v>>16), byte(v>>24))
	}
	var b [8]byte
	binary.LittleEndian.PutUint64(b[:], v)
	return append(append(dst, 0xff), b[:]...)
}

// ReadVarint decodes the varint at the start of b.
func ReadVarint(b []byte) (v uint64, width int, minimal bool, err error) {
	if len(b) == 0 {
		return 0, 0, false, ErrShort
	}
	switch b[0] {
	case 0xfd:
		width = 3
	case 0xfe:
		width = 5
	case 0xff:
		width = 9
	default:
		return uint64(b[0]), 1, true, nil
	}
	if len(b) < width {
		return 0, width, false, ErrShort
	}
	for i := width - 1; i >= 1; i-- {
		v = v<<8 | uint64(b[i])
	}
	return v, width, VarintLen(v) == width, nil
}

// ---------------------------------------------------------------- structures

// In is a transaction input. PrevHash is in wire order (the byte-reversed
// display txid). PrevSats / PrevScript are only serialised in extended form.
type In struct {
	PrevHash   []byte
	Vout       uint32
	Script     []byte
	Seq        uint32
	PrevSats   uint64
	PrevScript []byte
}

// Out is a transaction output.
type Out struct {
	Sats   uint64
	Script []byte
}

// Tx is a transaction.
type Tx struct {
	Version  uint32
	Ins      []In
	Outs     []Out
	LockTime uint32
}

// Field describes one varint of an encoding.
type Field struct {
	Kind    string // in-count, unlock-len, prev-len, out-count, lock-len, list-count
	Off     int    // offset of the varint's first byte
	Width   int
	Value   uint64
	Minimal bool
}

// Widths chooses the width of the k-th varint (0 = minimal). nil = all minimal.
type Widths func(k int, kind string, v uint64) int

type enc struct {
	b  []byte
	w  Widths
	k  int
	fs []Field
}

func (e *enc) varint(kind string, v uint64) {
	width := 0
	if e.w != nil {
		width = e.w(e.k, kind, v)
	}
	off := len(e.b)
	e.b = AppendVarint(e.b, v, width)
	got := len(e.b) - off
	e.fs = append(e.fs, Field{Kind: kind, Off: off, Width: got, Value: v, Minimal: got == VarintLen(v)})
	e.k++
}

func (e *enc) u32(v uint32) { e.b = binary.LittleEndian.AppendUint32(e.b, v) }
func (e *enc) u64(v uint64) { e.b = binary.LittleEndian.AppendUint64(e.b, v) }

func (e *enc) in(in *In, extended bool) {
	e.b = append(e.b, in.PrevHash...)
	e.u32(in.Vout)
	e.varint("unlock-len", uint64(len(in.Script)))
	e.b = append(e.b, in.Script...)
	e.u32(in.Seq)
	if extended {
		e.u64(in.PrevSats)
		e.varint("prev-len", uint64(len(in.PrevScript)))
		e.b = append(e.b, in.PrevScript...)
	}
}

func (e *enc) out(o *Out) {
	e.u64(o.Sats)
	e.varint("lock-len", uint64(len(o.Script)))
	e.b = append(e.b, o.Script...)
}

func (e *enc) tx(t *Tx, extended bool) {
	e.u32(t.Version)
	if extended {
		e.b = append(e.b, Marker...)
	}
	e.varint("in-count", uint64(len(t.Ins)))
	for i := range t.Ins {
		e.in(&t.Ins[i], extended)
	}
	e.varint("out-count", uint64(len(t.Outs)))
	for i := range t.Outs {
		e.out(&t.Outs[i])
	}
	e.u32(t.LockTime)
}

// Encode serialises t (minimal varints when w is nil).
func Encode(t *Tx, extended bool, w Widths) []byte {
	b, _ := EncodeTrace(t, extended, w)
	return b
}

// EncodeTrace serialises t and reports where every varint sits.
func EncodeTrace(t *Tx, extended bool, w Widths) ([]byte, []Field) {
	e := &enc{w: w}
	e.tx(t, extended)
	return e.b, e.fs
}

// EncodeIn serialises one input.
func EncodeIn(in *In, extended bool, w Widths) ([]byte, []Field) {
	e := &enc{w: w}
	e.in(in, extended)
	return e.b, e.fs
}

// EncodeOut serialises one output.
func EncodeOut(o *Out, w Widths) ([]byte, []Field) {
	e := &enc{w: w}
	e.out(o)
	return e.b, e.fs
}

// EncodeList serialises a counted list; extended[i] selects the format of txs[i]
// (nil = all standard).
func EncodeList(txs []*Tx, extended []bool, w Widths) ([]byte, []Field) {
	e := &enc{w: w}
	e.varint("list-count", uint64(len(txs)))
	for i, t := range txs {
		e.tx(t, extended != nil && extended[i])
	}
	return e.b, e.fs
}

// ---------------------------------------------------------------- decoding

type dec struct {
	b   []byte
	off int
	fs  []Field
	nm  int
}

func (d *dec) take(n int) ([]byte, error) {
	if n < 0 || len(d.b)-d.off < n {
		return nil, ErrShort
	}
	s := d.b[d.off : d.off+n]
	d.off += n
	return s, nil
}

func (d *dec) u32() (uint32, error) {
	s, err := d.take(4)
	if err != nil {
		return 0, err
	}
	return binary.LittleEndian.Uint32(s), nil
}

func (d *dec) u64() (uint64, error) {
	s, err := d.take(8)
	if err != nil {
		return 0, err
	}
	return binary.LittleEndian.Uint64(s), nil
}

func (d *dec) varint(kind string) (uint64, error) {
	v, w, min, err := ReadVarint(d.b[d.off:])
	if err != nil {
		return 0, err
	}
	d.fs = append(d.fs, Field{Kind: kind, Off: d.off, Width: w, Value: v, Minimal: min})
	if !min {
		d.nm++
	}
	d.off += w
	return v, nil
}

// bytesN reads a varint-prefixed byte string without trusting the length.
func (d *dec) bytesN(kind string) ([]byte, error) {
	l, err := d.varint(kind)
	if err != nil {
		return nil, err
	}
	if l > uint64(len(d.b)-d.off) {
		return nil, ErrShort
	}
	s, _ := d.take(int(l))
	return append([]byte{}, s...), nil
}

func (d *dec) in(extended bool) (In, error) {
	var in In
	h, err := d.take(32)
	if err != nil {
		return in, err
	}
	in.PrevHash = append([]byte{}, h...)
	if in.Vout, err = d.u32(); err != nil {
		return in, err
	}
	if in.Script, err = d.bytesN("unlock-len"); err != nil {
		return in, err
	}
	if in.Seq, err = d.u32(); err != nil {
		return in, err
	}
	if extended {
		if in.PrevSats, err = d.u64(); err != nil {
			return in, err
		}
		if in.PrevScript, err = d.bytesN("prev-len"); err != nil {
			return in, err
		}
	}
	return in, nil
}

func (d *dec) out() (Out, error) {
	var o Out
	var err error
	if o.Sats, err = d.u64(); err != nil {
		return o, err
	}
	if o.Script, err = d.bytesN("lock-len"); err != nil {
		return o, err
	}
	return o, nil
}

// Decoded is the result of decoding one transaction.
type Decoded struct {
	Tx         Tx
	Extended   bool
	Consumed   int
	Varints    []Field // offsets relative to the start of this transaction
	NonMinimal int     // how many of its varints were not minimally encoded
}

func (d *dec) tx() (*Decoded, error) {
	start, f0, nm0 := d.off, len(d.fs), d.nm
	r := &Decoded{}
	var err error
	if r.Tx.Version, err = d.u32(); err != nil {
		return nil, err
	}
	// the extended format is recognised by the literal six marker bytes
	if len(d.b)-d.off >= 6 && string(d.b[d.off:d.off+6]) == string(Marker) {
		r.Extended = true
		d.off += 6
	}
	nin, err := d.varint("in-count")
	if err != nil {
		return nil, err
	}
	for i := uint64(0); i < nin; i++ {
		in, err := d.in(r.Extended)
		if err != nil {
			return nil, err
		}
		r.Tx.Ins = append(r.Tx.Ins, in)
	}
	nout, err := d.varint("out-count")
	if err != nil {
		return nil, err
	}
	for i := uint64(0); i < nout; i++ {
		o, err := d.out()
		if err != nil {
			return nil, err
		}
		r.Tx.Outs = append(r.Tx.Outs, o)
	}
	if r.Tx.LockTime, err = d.u32(); err != nil {
		return nil, err
	}
	r.Consumed = d.off - start
	for _, f := range d.fs[f0:] {
		f.Off -= start
		r.Varints = append(r.Varints, f)
	}
	r.NonMinimal = d.nm - nm0
	return r, nil
}

// Decode decodes the transaction at the start of b (either format).
func Decode(b []byte) (*Decoded, error) {
	d := &dec{b: b}
	return d.tx()
}

// DecodeIn decodes one input at the start of b.
func DecodeIn(b []byte, extended bool) (In, int, error) {
	d := &dec{b: b}
	in, err := d.in(extended)
	return in, d.off, err
}

// DecodeOut decodes one output at the start of b.
func DecodeOut(b []byte) (Out, int, error) {
	d := &dec{b: b}
	o, err := d.out()
	return o, d.off, err
}

// List is a decoded counted list.
type List struct {
	Count      Field
	Txs        []*Decoded
	Consumed   int
	NonMinimal int // over the count and every transaction
}

// DecodeList decodes varint(count) followed by count transactions.
func DecodeList(b []byte) (*List, error) {
	d := &dec{b: b}
	n, err := d.varint("list-count")
	if err != nil {
		return nil, err
	}
	l := &List{Count: d.fs[0]}
	for i := uint64(0); i < n; i++ {
		t, err := d.tx()
		if err != nil {
			return nil, err
		}
		l.Txs = append(l.Txs, t)
	}
	l.Consumed = d.off
	l.NonMinimal = d.nm
	return l, nil
}

// ---------------------------------------------------------------- helpers

// Ambiguous reports the one shape the extended marker makes ambiguous: no
// inputs, no outputs and locktime bytes 00 00 00 EF.
func (t *Tx) Ambiguous() bool {
	return len(t.Ins) == 0 && len(t.Outs) == 0 && t.LockTime == 0xef000000
}

// Reverse returns a reversed copy.
func Reverse(b []byte) []byte {
	r := make([]byte, len(b))
	for i := range b {
		r[len(b)-1-i] = b[i]
	}
	return r
}

// Sha256d is SHA-256 applied twice.
func Sha256d(b []byte) []byte {
	a := sha256.Sum256(b)
	c := sha256.Sum256(a[:])
	return c[:]
}

// TxIDBytes is the byte-reversed double SHA-256 of the standard serialisation.
func TxIDBytes(std []byte) []byte { return Reverse(Sha256d(std)) }

// TxID is TxIDBytes in hex.
func TxID(std []byte) string { return hex.EncodeToString(TxIDBytes(std)) }

// Equal compares two transactions; nil and empty scripts are equal. When
// extended is false the previous-output fields are ignored. It returns the name
// of the first differing field ("" when equal).
func Equal(a, b *Tx, extended bool) string {
	if a.Version != b.Version {
		return "version"
	}
	if a.LockTime != b.LockTime {
		return "locktime"
	}
	if len(a.Ins) != len(b.Ins) {
		return "input-count"
	}
	if len(a.Outs) != len(b.Outs) {
		return "output-count"
	}
	for i := range a.Ins {
		x, y := &a.Ins[i], &b.Ins[i]
		switch {
		case string(x.PrevHash) != string(y.PrevHash):
			return "input.txid"
		case x.Vout != y.Vout:
			return "input.vout"
		case string(x.Script) != string(y.Script):
			return "input.script"
		case x.Seq != y.Seq:
			return "input.sequence"
		}
		if extended {
			if x.PrevSats != y.PrevSats {
				return "input.prev-satoshis"
			}
			if string(x.PrevScript) != string(y.PrevScript) {
				return "input.prev-script"
			}
		}
	}
	for i := range a.Outs {
		if a.Outs[i].Sats != b.Outs[i].Sats {
			return "output.satoshis"
		}
		if string(a.Outs[i].Script) != string(b.Outs[i].Script) {
			return "output.script"
		}
	}
	return ""
}

func (t *Tx) String() string {
	return fmt.Sprintf("tx{v=%d ins=%d outs=%d lt=%d}", t.Version, len(t.Ins), len(t.Outs), t.LockTime)
}

// ---------------------------------------------------------------- scanning

// Scan walks b the way a sequential decoder of the given kind ("tx", "list",
// "in", "in-ext", "out") would and returns every varint it reads before the
// data runs out, including a final length whose payload is missing. It is used
// by generators to know which lengths and counts a byte string *claims*; it
// never allocates from them. For transactions the extended format is detected
// loosely (input count 0 and output count 0 in any width followed by
// 00 00 00 EF), which coincides with the literal marker for minimal varints.
func Scan(kind string, b []byte) []Field {
	d := &dec{b: b}
	switch kind {
	case "tx":
		d.scanTx()
	case "list":
		if n, err := d.varint("list-count"); err == nil {
			for i := uint64(0); i < n; i++ {
				if !d.scanTx() {
					break
				}
			}
		}
	case "in":
		d.in(false)
	case "in-ext":
		d.in(true)
	case "out":
		d.out()
	}
	return d.fs
}

func (d *dec) scanTx() bool {
	if _, err := d.u32(); err != nil {
		return false
	}
	f0 := len(d.fs)
	nin, err := d.varint("in-count")
	if err != nil {
		return false
	}
	extended := false
	var nout uint64
	haveOut := false
	if nin == 0 {
		if nout, err = d.varint("out-count"); err != nil {
			return false
		}
		haveOut = true
		if nout == 0 {
			lt, err := d.take(4)
			if err != nil {
				return false
			}
			if !(lt[0] == 0 && lt[1] == 0 && lt[2] == 0 && lt[3] == 0xef) {
				return true
			}
			extended, haveOut = true, false
			d.fs = d.fs[:f0] // the two zero counts were the marker
			if nin, err = d.varint("in-count"); err != nil {
				return false
			}
		}
	}
	for i := uint64(0); i < nin; i++ {
		if _, err := d.in(extended); err != nil {
			return false
		}
	}
	if !haveOut {
		if nout, err = d.varint("out-count"); err != nil {
			return false
		}
	}
	for i := uint64(0); i < nout; i++ {
		if _, err := d.out(); err != nil {
			return false
		}
	}
	_, err = d.take(4)
	return err == nil
}
