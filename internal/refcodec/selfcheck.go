package refcodec

import (
	"bytes"
	"encoding/hex"
	"encoding/json"
	"fmt"
	"os"
	"path/filepath"
	"regexp"
)

// genesis coinbase transaction and its id (block 0 of the Bitcoin chain).
const genesisTx = "01000000010000000000000000000000000000000000000000000000000000000000000000ffffffff4d04ffff001d0104455468652054696d65732030332f4a616e2f32303039204368616e63656c6c6f72206f6e206272696e6b206f66207365636f6e64206261696c6f757420666f722062616e6b73ffffffff0100f2052a01000000434104678afdb0fe5548271967f1a67130b7105cd6a828e03909a67962e0ea1f61deb649f6bc3f4cef38c4f35504e51ec112de5c384df7ba0b8d578a4c702b6bf11d5fac00000000"
const genesisID = "4a5e1e4baab89f3a32518a88c31bc87f618f76673e2cc77ab2127b7afdeda33b"

var followingIs = regexp.MustCompile(`^The following is ([0-9a-f]{64})$`)

// SelfCheck validates the codec against the node vectors in dir
// (tx_valid.json, tx_invalid.json): every serialised transaction must decode
// to exactly its end and re-encode to the identical bytes, the extended
// re-encoding must decode back to the same structure, and the ids quoted in
// the vector comments (and the genesis coinbase id) must be reproduced. It
// returns the number of vectors reproduced.
func SelfCheck(dir string) (int, error) {
	n := 0
	one := func(raw []byte, wantID string) error {
		d, err := Decode(raw)
		if err != nil {
			return fmt.Errorf("decode: %v", err)
		}
		if d.Extended || d.Consumed != len(raw) || d.NonMinimal != 0 {
			return fmt.Errorf("decode consumed %d of %d (extended=%v nonminimal=%d)", d.Consumed, len(raw), d.Extended, d.NonMinimal)
		}
		if !bytes.Equal(Encode(&d.Tx, false, nil), raw) {
			return fmt.Errorf("re-encoding differs")
		}
		ext := Encode(&d.Tx, true, nil)
		e, err := Decode(ext)
		if err != nil || !e.Extended || e.Consumed != len(ext) || Equal(&e.Tx, &d.Tx, true) != "" {
			return fmt.Errorf("extended round trip failed: %v", err)
		}
		if wantID != "" && TxID(raw) != wantID {
			return fmt.Errorf("txid %s, vector says %s", TxID(raw), wantID)
		}
		n++
		return nil
	}
	g, _ := hex.DecodeString(genesisTx)
	if err := one(g, genesisID); err != nil {
		return n, fmt.Errorf("genesis coinbase: %v", err)
	}
	ids := 0
	for _, f := range []string{"tx_valid.json", "tx_invalid.json"} {
		b, err := os.ReadFile(filepath.Join(dir, f))
		if err != nil {
			return n, err
		}
		var rows [][]json.RawMessage
		if err := json.Unmarshal(b, &rows); err != nil {
			return n, fmt.Errorf("%s: %v", f, err)
		}
		want := ""
		for i, r := range rows {
			if len(r) == 1 {
				var s string
				if json.Unmarshal(r[0], &s) == nil {
					if m := followingIs.FindStringSubmatch(s); m != nil {
						want = m[1]
					}
				}
				continue
			}
			if len(r) != 3 {
				continue
			}
			var hx string
			if err := json.Unmarshal(r[1], &hx); err != nil {
				continue
			}
			raw, err := hex.DecodeString(hx)
			if err != nil {
				continue
			}
			if f == "tx_invalid.json" {
				// invalid for consensus reasons; only those that are well-formed
				// serialisations are usable as codec vectors
				if d, err := Decode(raw); err != nil || d.Consumed != len(raw) || d.Extended {
					want = ""
					continue
				}
				want = ""
			}
			if want != "" {
				ids++
			}
			if err := one(raw, want); err != nil {
				return n, fmt.Errorf("%s row %d: %v", f, i, err)
			}
			want = ""
		}
	}
	if ids < 3 {
		return n, fmt.Errorf("only %d quoted transaction ids found in the vectors", ids)
	}
	if n < 100 {
		return n, fmt.Errorf("only %d vectors usable", n)
	}
	return n, nil
}
