package refcodec

import "testing"

func TestSelf(t *testing.T) {
	if s := SelfTestScript(); s != "" {
		t.Fatal(s)
	}
}
