// Package prng is the only source of randomness of the monitors: a
// xoshiro256** generator seeded through splitmix64 from (seed, property,
// case number). No time, no math/rand globals, no map iteration order.
package prng

import "math/bits"

type R struct{ s [4]uint64 }

func splitmix(x *uint64) uint64 {
	*x += 0x9e3779b97f4a7c15
	z := *x
	z = (z ^ (z >> 30)) * 0xbf58476d1ce4e5b9
	z = (z ^ (z >> 27)) * 0x94d049bb133111eb
	return z ^ (z >> 31)
}

// Hash64 is FNV-1a over a string, used to fold a property id into the seed.
func Hash64(s string) uint64 {
	h := uint64(0xcbf29ce484222325)
	for i := 0; i < len(s); i++ {
		h ^= uint64(s[i])
		h *= 0x100000001b3
	}
	return h
}

// HashBytes is FNV-1a over bytes, mixed once more; used for distinct-case sets.
func HashBytes(parts ...[]byte) uint64 {
	h := uint64(0xcbf29ce484222325)
	for _, p := range parts {
		for _, b := range p {
			h ^= uint64(b)
			h *= 0x100000001b3
		}
		h ^= 0xff
		h *= 0x100000001b3
	}
	x := h
	return splitmix(&x)
}

func New(seed uint64, prop string, n uint64) *R {
	x := seed ^ Hash64(prop)*0x9e3779b97f4a7c15 ^ bits.RotateLeft64(n, 32) ^ n*0xd1342543de82ef95
	r := &R{}
	for i := range r.s {
		r.s[i] = splitmix(&x)
	}
	return r
}

func (r *R) Uint64() uint64 {
	s := &r.s
	res := bits.RotateLeft64(s[1]*5, 7) * 9
	t := s[1] << 17
	s[2] ^= s[0]
	s[3] ^= s[1]
	s[1] ^= s[2]
	s[0] ^= s[3]
	s[2] ^= t
	s[3] = bits.RotateLeft64(s[3], 45)
	return res
}

// Intn returns a value in [0,n). n must be > 0.
func (r *R) Intn(n int) int {
	if n <= 0 {
		return 0
	}
	return int(r.Uint64() % uint64(n))
}

func (r *R) Uint32() uint32 { return uint32(r.Uint64() >> 32) }
func (r *R) Bool() bool     { return r.Uint64()&1 == 1 }

// Chance is true with probability num/den.
func (r *R) Chance(num, den int) bool { return r.Intn(den) < num }

func (r *R) Bytes(n int) []byte {
	b := make([]byte, n)
	for i := 0; i < n; i += 8 {
		v := r.Uint64()
		for j := 0; j < 8 && i+j < n; j++ {
			b[i+j] = byte(v >> (8 * j))
		}
	}
	return b
}

// Pick returns one element of xs.
func Pick[T any](r *R, xs []T) T { return xs[r.Intn(len(xs))] }

// Range returns a value in [lo,hi].
func (r *R) Range(lo, hi int) int { return lo + r.Intn(hi-lo+1) }
