// Package gen holds the shared, PRNG-driven generators: boundary value sets,
// transaction shapes (JSON-serialisable so they can be written to replay files)
// and helpers to turn a shape into a go-bt transaction through the public API.
package gen

import (
	"encoding/hex"
	"encoding/json"

	"github.com/libsv/go-bt/v2"
	"github.com/libsv/go-bt/v2/bscript"

	"verif/internal/mon"
	"verif/internal/prng"
)

// Boundary sets -------------------------------------------------------------

var VarintClasses = []int{0, 1, 252, 253, 254, 65535, 65536}
var PushClasses = []int{0, 1, 75, 76, 255, 256, 65535, 65536}
var U32Edges = []uint32{0, 1, 2, 0x7fffffff, 0x80000000, 0xfffffffe, 0xffffffff, 0xef000000, 0x000000ef}
var U64Edges = []uint64{0, 1, 545, 546, 547, 1 << 32, 1<<53 - 1, 1 << 53, 1<<53 + 1, 21e14, 1 << 63, 1<<64 - 1}

func U32(r *prng.R) uint32 {
	if r.Chance(1, 3) {
		return prng.Pick(r, U32Edges)
	}
	return r.Uint32()
}

func U64(r *prng.R) uint64 {
	switch r.Intn(4) {
	case 0:
		return prng.Pick(r, U64Edges)
	case 1:
		return uint64(r.Intn(100000))
	case 2:
		return r.Uint64() >> uint(r.Intn(64))
	}
	return r.Uint64()
}

// Sats returns an amount in 0..21e14.
func Sats(r *prng.R) uint64 {
	switch r.Intn(4) {
	case 0:
		return uint64(r.Intn(2000))
	case 1:
		return uint64(r.Intn(100_000_000))
	case 2:
		return r.Uint64() % 2_100_000_000_000_001
	}
	p := uint64(1)
	for i := r.Intn(16); i > 0; i-- {
		p *= 10
	}
	v := p * uint64(1+r.Intn(21))
	switch r.Intn(3) {
	case 0:
		v--
	case 1:
		v++
	}
	return v % 2_100_000_000_000_001
}

// Shapes --------------------------------------------------------------------

type In struct {
	TxID          mon.Hex `json:"txid"` // 32 bytes, display order (as go-bt stores it)
	Vout          uint32  `json:"vout"`
	Unlock        mon.Hex `json:"unlock"`
	UnlockNil     bool    `json:"unlock_nil,omitempty"`
	Seq           uint32  `json:"seq"`
	PrevSats      uint64  `json:"prev_sats"`
	PrevScript    mon.Hex `json:"prev_script"`
	PrevScriptNil bool    `json:"prev_script_nil,omitempty"`
	// ViaJSON: the input is produced by bt.Input's own JSON decoder (so an
	// absent txid is the empty, non-nil slice that decoder leaves behind).
	ViaJSON bool `json:"via_json,omitempty"`
}

type Out struct {
	Sats   uint64  `json:"sats"`
	Script mon.Hex `json:"script"`
}

type Shape struct {
	Version  uint32 `json:"version"`
	LockTime uint32 `json:"locktime"`
	Ins      []In   `json:"ins"`
	Outs     []Out  `json:"outs"`
	// Shared: Build carves every script (and txid) out of ONE byte arena, each
	// slice keeping the capacity up to the arena's end - the layout of data
	// sliced out of a received buffer. A library write into the spare capacity
	// of any of them lands in its neighbours and shows in the serialisation.
	Shared bool `json:"shared,omitempty"`
	// OneObject: equal values are ONE object - inputs spending the same script
	// point to one *bscript.Script (a wallet keeping one script object per
	// address), equal output scripts likewise, equal previous tx ids are one
	// byte slice (several outputs of one transaction).
	OneObject bool `json:"one_object_per_value,omitempty"`
	// SameInputTwice: the last input (which must equal the first) is not a new
	// object: the first *bt.Input is listed a second time.
	SameInputTwice bool `json:"same_input_object_twice,omitempty"`
}

// Ambiguous reports the one shape excluded by the properties: no inputs, no
// outputs and locktime bytes 00 00 00 EF.
func (s *Shape) Ambiguous() bool {
	return len(s.Ins) == 0 && len(s.Outs) == 0 && s.LockTime == 0xef000000
}

// BuildShared is Build with the Shared layout (see Shape.Shared).
func (s *Shape) BuildShared() *bt.Tx {
	c := *s
	c.Shared = true
	return c.Build()
}

// Build constructs the go-bt transaction through exported fields and methods.
func (s *Shape) Build() *bt.Tx {
	tx := &bt.Tx{Version: s.Version, LockTime: s.LockTime}
	carve := func(b []byte) []byte { return append([]byte{}, b...) }
	if s.Shared {
		n := 16
		for i := range s.Ins {
			n += len(s.Ins[i].Unlock) + len(s.Ins[i].PrevScript)
		}
		for i := range s.Outs {
			n += len(s.Outs[i].Script)
		}
		arena := make([]byte, 0, n)
		carve = func(b []byte) []byte {
			off := len(arena)
			arena = append(arena, b...) // never reallocates: n bytes were reserved
			return arena[off:len(arena):cap(arena)]
		}
		defer func() { arena = append(arena, "ARENA-TAIL-GUARD"...) }()
	}
	scripts := map[string]*bscript.Script{}
	emptyN := 0
	script := func(b []byte) *bscript.Script {
		if len(b) == 0 && !s.OneObject && !s.Shared {
			// the three spellings of an empty script take turns: a non-nil empty slice, a
			// nil slice behind the pointer (new(bscript.Script)), bscript.NewFromBytes(nil)
			emptyN++
			switch (emptyN + len(s.Ins) + len(s.Outs)) % 3 {
			case 1:
				return new(bscript.Script)
			case 2:
				return bscript.NewFromBytes(nil)
			}
		}
		if !s.OneObject {
			return bscript.NewFromBytes(carve(b))
		}
		if o, ok := scripts[string(b)]; ok {
			return o
		}
		o := bscript.NewFromBytes(carve(b))
		scripts[string(b)] = o
		return o
	}
	ids := map[string][]byte{}
	for i := range s.Ins {
		in := &s.Ins[i]
		if s.SameInputTwice && i > 0 && i == len(s.Ins)-1 {
			tx.Inputs = append(tx.Inputs, tx.Inputs[0])
			continue
		}
		bi := &bt.Input{PreviousTxOutIndex: in.Vout, SequenceNumber: in.Seq, PreviousTxSatoshis: in.PrevSats}
		id := make([]byte, len(in.TxID))
		copy(id, in.TxID)
		if s.OneObject {
			if o, ok := ids[string(id)]; ok {
				id = o
			} else {
				ids[string(id)] = id
			}
		}
		_ = bi.PreviousTxIDAdd(id)
		if in.ViaJSON {
			js, _ := json.Marshal(map[string]any{"txid": hex.EncodeToString(in.TxID), "vout": in.Vout, "sequence": in.Seq, "unlockingScript": hex.EncodeToString(in.Unlock)})
			// the decoder's destination is an input that was in use before (another outpoint
			// set through the setter, another script): afterwards it is what the document says
			bi = &bt.Input{PreviousTxOutIndex: in.Vout + 7, SequenceNumber: ^in.Seq, UnlockingScript: bscript.NewFromBytes([]byte{0x51, 0x52})}
			if len(in.TxID) == 32 {
				other := make([]byte, 32)
				for k := range other {
					other[k] = ^in.TxID[k]
				}
				_ = bi.PreviousTxIDAdd(other)
			}
			if err := json.Unmarshal(js, bi); err != nil {
				panic("gen: bt.Input JSON decode of " + string(js) + ": " + err.Error())
			}
			bi.PreviousTxSatoshis = in.PrevSats
			if in.UnlockNil {
				bi.UnlockingScript = nil
			}
		} else if !in.UnlockNil {
			bi.UnlockingScript = bscript.NewFromBytes(carve(in.Unlock))
		}
		if !in.PrevScriptNil {
			bi.PreviousTxScript = script(in.PrevScript)
		}
		tx.Inputs = append(tx.Inputs, bi)
	}
	for i := range s.Outs {
		o := &s.Outs[i]
		tx.Outputs = append(tx.Outputs, &bt.Output{Satoshis: o.Sats, LockingScript: script(o.Script)})
	}
	return tx
}

// P2PKH returns the canonical 25-byte script for a 20-byte hash.
func P2PKH(h []byte) []byte {
	s := []byte{0x76, 0xa9, 0x14}
	s = append(s, h...)
	return append(s, 0x88, 0xac)
}

// Push returns the minimal push of data (direct / PUSHDATA1/2/4).
func Push(d []byte) []byte {
	n := len(d)
	var h []byte
	switch {
	case n <= 75:
		h = []byte{byte(n)}
	case n <= 255:
		h = []byte{0x4c, byte(n)}
	case n <= 65535:
		h = []byte{0x4d, byte(n), byte(n >> 8)}
	default:
		h = []byte{0x4e, byte(n), byte(n >> 8), byte(n >> 16), byte(n >> 24)}
	}
	return append(h, d...)
}

type ShapeOpts struct {
	MaxIns, MaxOuts int
	MinIns          int
	ScriptLens      []int // nil: small random lengths
	P2PKHOnly       bool  // previous scripts are P2PKH (for fee/estimate logic)
	AllowNil        bool  // nil unlocking / previous scripts may appear
}

func randScript(r *prng.R, o *ShapeOpts) []byte {
	if o.ScriptLens != nil && r.Chance(1, 3) {
		return r.Bytes(prng.Pick(r, o.ScriptLens))
	}
	switch r.Intn(8) {
	case 0:
		return []byte{}
	case 1:
		return P2PKH(r.Bytes(20))
	case 2:
		return append([]byte{0x6a}, Push(r.Bytes(r.Intn(60)))...)
	case 3:
		return append([]byte{0x00, 0x6a}, Push(r.Bytes(r.Intn(60)))...)
	case 4:
		return StandardScript(r)
	}
	return r.Bytes(r.Intn(80))
}

// StandardScript draws an instance of one of the script templates the library
// itself recognises (and may therefore treat specially anywhere a script
// passes through): P2PKH inscription with and without OP_RETURN tail, P2PK,
// P2SH, bare multisig, and a script that only begins like an inscription.
func StandardScript(r *prng.R) []byte {
	key := func() []byte {
		if r.Chance(1, 3) {
			return append([]byte{0x04}, r.Bytes(64)...)
		}
		return append([]byte{byte(2 + r.Intn(2))}, r.Bytes(32)...)
	}
	envelope := func() []byte {
		ct := [][]byte{[]byte("text/plain"), []byte("image/png"), {}, []byte("application/json; charset=utf-8")}[r.Intn(4)]
		s := append(P2PKH(r.Bytes(20)), 0x00, 0x63, 0x03, 'o', 'r', 'd', 0x51)
		s = append(s, MinPush(ct)...)
		s = append(s, 0x00)
		s = append(s, MinPush(r.Bytes(r.Intn(90)))...)
		return append(s, 0x68)
	}
	switch r.Intn(7) {
	case 0:
		return envelope()
	case 1:
		return append(append(envelope(), 0x6a), MinPush(r.Bytes(1+r.Intn(20)))...)
	case 2:
		return append(MinPush(key()), 0xac)
	case 3:
		return append(append([]byte{0xa9, 0x14}, r.Bytes(20)...), 0x87)
	case 4:
		n := 1 + r.Intn(3)
		s := []byte{byte(0x50 + 1 + r.Intn(n))}
		for i := 0; i < n; i++ {
			s = append(s, MinPush(key())...)
		}
		return append(s, byte(0x50+n), 0xae)
	case 5: // begins like an inscription, ends differently
		e := envelope()
		return e[:len(e)-1-r.Intn(4)]
	}
	return append(P2PKH(r.Bytes(20)), 0x00, 0x63, 0x03, 'o', 'r', 'd')
}

// RandShape draws a transaction shape.
func RandShape(r *prng.R, o ShapeOpts) *Shape {
	s := &Shape{Version: U32(r), LockTime: U32(r)}
	ni := o.MinIns + r.Intn(o.MaxIns-o.MinIns+1)
	no := r.Intn(o.MaxOuts + 1)
	for i := 0; i < ni; i++ {
		in := In{TxID: r.Bytes(32), Vout: U32(r), Seq: U32(r), PrevSats: U64(r)}
		if o.P2PKHOnly {
			in.PrevScript = P2PKH(r.Bytes(20))
			in.PrevSats = Sats(r)
		} else {
			in.PrevScript = randScript(r, &o)
		}
		switch r.Intn(4) {
		case 0:
			in.Unlock = []byte{}
		default:
			in.Unlock = randScript(r, &o)
		}
		if o.AllowNil {
			if r.Chance(1, 8) {
				in.UnlockNil, in.Unlock = true, nil
			}
			if r.Chance(1, 8) {
				in.PrevScriptNil, in.PrevScript = true, nil
			}
		}
		s.Ins = append(s.Ins, in)
	}
	for i := 0; i < no; i++ {
		out := Out{Sats: U64(r), Script: randScript(r, &o)}
		if o.P2PKHOnly {
			out.Sats = Sats(r)
		}
		s.Outs = append(s.Outs, out)
	}
	if s.Ambiguous() {
		s.LockTime = 0
	}
	return s
}
