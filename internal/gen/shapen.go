package gen

import "verif/internal/prng"

// ShapeN draws a transaction shape with exactly ni inputs and no outputs
// (RandShape draws the counts itself); everything else as RandShape.
func ShapeN(r *prng.R, ni, no int, o ShapeOpts) *Shape {
	s := &Shape{Version: U32(r), LockTime: U32(r)}
	for i := 0; i < ni; i++ {
		s.Ins = append(s.Ins, RandIn(r, &o))
	}
	for i := 0; i < no; i++ {
		s.Outs = append(s.Outs, RandOut(r, &o))
	}
	if s.Ambiguous() {
		s.LockTime = 0
	}
	return s
}

// RandIn draws one input the way RandShape does.
func RandIn(r *prng.R, o *ShapeOpts) In {
	in := In{TxID: r.Bytes(32), Vout: U32(r), Seq: U32(r), PrevSats: U64(r)}
	if o.P2PKHOnly {
		in.PrevScript = P2PKH(r.Bytes(20))
		in.PrevSats = Sats(r)
	} else {
		in.PrevScript = randScript(r, o)
	}
	switch r.Intn(4) {
	case 0:
		in.Unlock = []byte{}
	default:
		in.Unlock = randScript(r, o)
	}
	if o.AllowNil {
		if r.Chance(1, 8) {
			in.UnlockNil, in.Unlock = true, nil
		}
		if r.Chance(1, 8) {
			in.PrevScriptNil, in.PrevScript = true, nil
		}
	}
	return in
}

// RandOut draws one output the way RandShape does.
func RandOut(r *prng.R, o *ShapeOpts) Out {
	out := Out{Sats: U64(r), Script: randScript(r, o)}
	if o.P2PKHOnly {
		out.Sats = Sats(r)
	}
	return out
}

// Clone returns a deep copy (the byte slices are copied too).
func (s *Shape) Clone() *Shape {
	c := &Shape{Version: s.Version, LockTime: s.LockTime}
	for _, in := range s.Ins {
		in.TxID = append([]byte(nil), in.TxID...)
		if in.Unlock != nil {
			in.Unlock = append([]byte{}, in.Unlock...)
		}
		if in.PrevScript != nil {
			in.PrevScript = append([]byte{}, in.PrevScript...)
		}
		c.Ins = append(c.Ins, in)
	}
	for _, o := range s.Outs {
		o.Script = append([]byte{}, o.Script...)
		c.Outs = append(c.Outs, o)
	}
	return c
}
