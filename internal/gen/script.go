package gen

import (
	"crypto/sha256"

	"golang.org/x/crypto/ripemd160"

	"verif/internal/prng"
)

// Script-program generators shared by C05, C07, C08, C19.

// Edge operands: the fixed set the enumerative source draws tuples from.
var EdgeOperands = [][]byte{
	{},                             // empty (zero / false)
	{0x00},                         // non-minimal zero
	{0x80},                         // negative zero
	{0x01},                         // 1
	{0x81},                         // -1
	{0x02},                         //
	{0x08},                         // shift by a byte
	{0x09},                         //
	{0x10},                         // 16
	{0x11},                         // 17
	{0x7f},                         //
	{0xff},                         // -127
	{0x00, 0x80},                   // negative zero, 2 bytes
	{0x01, 0x00},                   // non-minimal 1
	{0xff, 0xff, 0xff, 0x7f},       // max 4-byte
	{0xff, 0xff, 0xff, 0xff},       // min 4-byte
	{0x00, 0x00, 0x00, 0x80, 0x00}, // 5-byte 2^31
	{0x01, 0x02, 0x03, 0x04, 0x05, 0x06, 0x07, 0x08, 0x09}, // 9-byte number
	{0xde, 0xad, 0xbe},                                     // 3-byte string
	{0xff, 0xff, 0xff, 0xff, 0x00},                         // 2^32-1
	{0x00, 0x00, 0x00, 0x00, 0x01},                         // 2^32
	{0xff, 0xff, 0xff, 0xff, 0xff, 0xff, 0xff, 0x7f},       // 2^63-1
	{0x00, 0x00, 0x00, 0x00, 0x00, 0x00, 0x00, 0x80, 0x00}, // 2^63
	{0xff, 0xff, 0xff, 0xff, 0xff, 0xff, 0xff, 0xff, 0x00}, // 2^64-1
	{0x02, 0x00, 0x00, 0x00, 0x00, 0x00, 0x00, 0x80, 0x01}, // 2^64+2^63+2
	{0x00, 0x00, 0x00, 0x00, 0x00, 0x00, 0x00, 0x80, 0x80}, // -2^63
}

// LongOperands are used sparingly (unary enumeration and random programs).
func LongOperands() [][]byte {
	mk := func(n int, b byte) []byte {
		v := make([]byte, n)
		for i := range v {
			v[i] = b + byte(i*7)
		}
		v[n-1] &= 0x7f
		if v[n-1] == 0 {
			v[n-1] = 1
		}
		return v
	}
	return [][]byte{mk(8, 1), mk(20, 3), mk(32, 5), mk(520, 9), mk(521, 11), mk(3000, 13)}
}

// Arity of opcodes for the enumerative source (how many operands are popped).
var Arity = map[byte]int{
	0x69: 1, 0x6b: 1, 0x73: 1, 0x75: 1, 0x76: 1, 0x82: 1, 0x83: 1, 0x81: 1,
	0x8b: 1, 0x8c: 1, 0x8d: 1, 0x8e: 1, 0x8f: 1, 0x90: 1, 0x91: 1, 0x92: 1,
	0xa6: 1, 0xa7: 1, 0xa8: 1, 0xa9: 1, 0xaa: 1, 0x63: 1, 0x64: 1, 0xb1: 1, 0xb2: 1,
	0x6d: 2, 0x6e: 2, 0x77: 2, 0x78: 2, 0x79: 2, 0x7a: 2, 0x7c: 2, 0x7d: 2, 0x7e: 2, 0x7f: 2, 0x80: 2,
	0x84: 2, 0x85: 2, 0x86: 2, 0x87: 2, 0x88: 2,
	0x93: 2, 0x94: 2, 0x95: 2, 0x96: 2, 0x97: 2, 0x98: 2, 0x99: 2, 0x9a: 2, 0x9b: 2, 0x9c: 2, 0x9d: 2, 0x9e: 2,
	0x9f: 2, 0xa0: 2, 0xa1: 2, 0xa2: 2, 0xa3: 2, 0xa4: 2,
	0x6f: 3, 0x7b: 3, 0xa5: 3,
}

// IsSigOp reports the opcodes whose evaluation needs signature checking.
func IsSigOp(b byte) bool { return b >= 0xac && b <= 0xaf }

func Hash160(b []byte) []byte {
	s := sha256.Sum256(b)
	r := ripemd160.New()
	r.Write(s[:])
	return r.Sum(nil)
}

// PushNum returns the minimal push of a small integer.
func PushNum(n int64) []byte {
	switch {
	case n == 0:
		return []byte{0x00}
	case n == -1:
		return []byte{0x4f}
	case n >= 1 && n <= 16:
		return []byte{byte(0x50 + n)}
	}
	neg := n < 0
	if neg {
		n = -n
	}
	var v []byte
	for n > 0 {
		v = append(v, byte(n))
		n >>= 8
	}
	if v[len(v)-1]&0x80 != 0 {
		if neg {
			v = append(v, 0x80)
		} else {
			v = append(v, 0)
		}
	} else if neg {
		v[len(v)-1] |= 0x80
	}
	return Push(v)
}

// MinPush pushes data the way MINIMALDATA wants it.
func MinPush(d []byte) []byte {
	if len(d) == 0 {
		return []byte{0x00}
	}
	if len(d) == 1 && d[0] >= 1 && d[0] <= 16 {
		return []byte{0x50 + d[0]}
	}
	if len(d) == 1 && d[0] == 0x81 {
		return []byte{0x4f}
	}
	return Push(d)
}

// ---------------------------------------------------------------- structured random programs

type kind struct {
	num bool // known to be a (small) number
	ln  int  // known length, -1 unknown
}

type builder struct {
	r       *prng.R
	genesis bool
	chunks  [][]byte // top-level chunks (an IF…ENDIF block is one chunk)
	st      []kind
	alt     int
}

func (b *builder) emit(c []byte) { b.chunks = append(b.chunks, c) }
func (b *builder) pushK(k kind)  { b.st = append(b.st, k) }
func (b *builder) popK() {
	if len(b.st) > 0 {
		b.st = b.st[:len(b.st)-1]
	}
}

func (b *builder) numLit() ([]byte, kind) {
	r := b.r
	switch r.Intn(10) {
	case 0, 1, 2, 3:
		return PushNum(int64(r.Intn(19) - 2)), kind{true, -1}
	case 4:
		return PushNum(int64(r.Intn(2000) - 1000)), kind{true, -1}
	case 5:
		return PushNum(int64(r.Uint32()) - (1 << 31)), kind{true, -1}
	case 6:
		v := prng.Pick(r, EdgeOperands)
		return Push(v), kind{len(v) <= 4, len(v)}
	case 7:
		if b.genesis {
			n := prng.Pick(r, []int{5, 8, 9, 16, 33, 100, 1000})
			v := r.Bytes(n)
			if v[n-1]&0x7f == 0 {
				v[n-1] |= 1
			}
			return Push(v), kind{true, n}
		}
		return PushNum(int64(r.Intn(1 << 20))), kind{true, -1}
	}
	return PushNum(int64(r.Intn(256))), kind{true, -1}
}

func (b *builder) bytesLit(n int) ([]byte, kind) {
	v := b.r.Bytes(n)
	if b.r.Chance(1, 2) {
		return MinPush(v), kind{false, n}
	}
	return Push(v), kind{false, n}
}

func (b *builder) ensure(n int, numeric bool) []byte {
	var out []byte
	for len(b.st) < n {
		var p []byte
		var k kind
		if numeric || b.r.Chance(1, 2) {
			p, k = b.numLit()
		} else {
			p, k = b.bytesLit(b.r.Intn(12))
		}
		out = append(out, p...)
		b.pushK(k)
	}
	if numeric {
		// make the top n numeric by pushing fresh numbers when they are not known to be
		for i := 0; i < n; i++ {
			if !b.st[len(b.st)-1-i].num {
				for j := 0; j < n; j++ {
					p, k := b.numLit()
					out = append(out, p...)
					b.pushK(k)
				}
				break
			}
		}
	}
	return out
}

var neutralNops = []byte{0x61, 0xb0, 0xb3, 0xb4, 0xb5, 0xb6, 0xb7, 0xb8, 0xb9}

// body produces a (mostly) depth-neutral instruction sequence for IF branches.
func (b *builder) body(depth int) []byte {
	r := b.r
	var out []byte
	for k := r.Intn(4); k >= 0; k-- {
		switch r.Intn(12) {
		case 0:
			out = append(out, prng.Pick(r, neutralNops))
		case 1, 2:
			p, _ := b.numLit()
			out = append(out, p...)
			out = append(out, 0x75)
		case 3:
			if len(b.st) > 0 {
				out = append(out, 0x76, 0x75)
			}
		case 4:
			if len(b.st) > 0 {
				out = append(out, 0x6b, 0x6c)
			}
		case 5:
			if b.genesis && r.Chance(1, 3) {
				out = append(out, 0x6a)
			}
		case 6:
			if r.Chance(1, 4) {
				out = append(out, prng.Pick(r, []byte{0x65, 0x66, 0x62, 0x50, 0x89, 0x8a, 0x8d, 0x8e, 0xba, 0xff}))
			}
		case 7:
			if depth < 3 {
				out = append(out, b.ifBlock(depth+1)...)
			}
		case 8:
			if len(b.st) > 0 && b.st[len(b.st)-1].num {
				out = append(out, prng.Pick(r, []byte{0x8b, 0x8c, 0x8f, 0x90}))
			}
		case 9:
			if r.Chance(1, 6) {
				out = append(out, 0x67) // a second ELSE
			}
		case 10:
			p, _ := b.bytesLit(r.Intn(6))
			out = append(out, p...)
			out = append(out, 0x75)
		default:
			out = append(out, 0x61)
		}
	}
	return out
}

func (b *builder) ifBlock(depth int) []byte {
	r := b.r
	var out []byte
	cond := prng.Pick(r, [][]byte{{0x00}, {0x51}, {0x51}, {0x52}, {0x01, 0x00}, {0x01, 0x80}, {0x02, 0x00, 0x00}, {0x4f}, {0x01, 0x01}})
	out = append(out, cond...)
	out = append(out, prng.Pick(r, []byte{0x63, 0x63, 0x64}))
	out = append(out, b.body(depth)...)
	if r.Chance(2, 3) {
		out = append(out, 0x67)
		out = append(out, b.body(depth)...)
	}
	if !r.Chance(1, 25) {
		out = append(out, 0x68)
	}
	return out
}

func (b *builder) step() {
	r := b.r
	d := len(b.st)
	switch r.Intn(40) {
	case 0, 1, 2:
		p, k := b.numLit()
		b.emit(p)
		b.pushK(k)
	case 3:
		p, k := b.bytesLit(prng.Pick(r, []int{0, 1, 2, 3, 4, 5, 8, 20, 32, 33, 75, 76, 80}))
		b.emit(p)
		b.pushK(k)
	case 4: // unary numeric
		pre := b.ensure(1, true)
		b.emit(append(pre, prng.Pick(r, []byte{0x8b, 0x8c, 0x8f, 0x90, 0x91, 0x92})))
		b.st[len(b.st)-1] = kind{true, -1}
	case 5, 6, 7: // binary numeric
		pre := b.ensure(2, true)
		op := prng.Pick(r, []byte{0x93, 0x94, 0x95, 0x96, 0x97, 0x9a, 0x9b, 0x9c, 0x9e, 0x9f, 0xa0, 0xa1, 0xa2, 0xa3, 0xa4})
		b.emit(append(pre, op))
		b.popK()
		b.st[len(b.st)-1] = kind{op != 0x95, -1}
	case 8: // WITHIN
		pre := b.ensure(3, true)
		b.emit(append(pre, 0xa5))
		b.popK()
		b.popK()
		b.st[len(b.st)-1] = kind{true, -1}
	case 9: // bitwise binary on equal lengths
		n := r.Intn(9)
		p1, _ := b.bytesLit(n)
		p2, _ := b.bytesLit(n)
		if r.Chance(1, 10) {
			p2, _ = b.bytesLit(n + 1)
		}
		b.emit(append(append(p1, p2...), prng.Pick(r, []byte{0x84, 0x85, 0x86})))
		b.pushK(kind{false, n})
	case 10: // INVERT
		pre := b.ensure(1, false)
		b.emit(append(pre, 0x83))
		b.st[len(b.st)-1].num = false
	case 11, 12: // shifts
		pre := b.ensure(1, false)
		n := r.Intn(20)
		if r.Chance(1, 4) {
			n = r.Intn(80)
		}
		b.emit(append(append(pre, PushNum(int64(n))...), prng.Pick(r, []byte{0x98, 0x99})))
		b.st[len(b.st)-1].num = false
	case 13: // CAT
		pre := b.ensure(2, false)
		b.emit(append(pre, 0x7e))
		b.popK()
		b.st[len(b.st)-1] = kind{false, -1}
	case 14: // SPLIT
		n := 1 + r.Intn(10)
		p, _ := b.bytesLit(n)
		pos := r.Intn(n + 1)
		if r.Chance(1, 12) {
			pos = n + 1
		}
		b.emit(append(append(p, PushNum(int64(pos))...), 0x7f))
		b.pushK(kind{false, pos})
		b.pushK(kind{false, n - pos})
	case 15: // NUM2BIN
		pre := b.ensure(1, true)
		b.emit(append(append(pre, PushNum(int64(r.Intn(12)))...), 0x80))
		b.st[len(b.st)-1] = kind{false, -1}
	case 16: // BIN2NUM
		pre := b.ensure(1, false)
		b.emit(append(pre, 0x81))
		b.st[len(b.st)-1] = kind{true, -1}
	case 17: // SIZE
		pre := b.ensure(1, false)
		b.emit(append(pre, 0x82))
		b.pushK(kind{true, -1})
	case 18, 19, 20, 21: // stack ops
		type so struct {
			op        byte
			need, net int
		}
		ops := []so{{0x76, 1, 1}, {0x75, 1, -1}, {0x7c, 2, 0}, {0x78, 2, 1}, {0x7b, 3, 0}, {0x77, 2, -1}, {0x7d, 2, 1},
			{0x6e, 2, 2}, {0x6f, 3, 3}, {0x70, 4, 2}, {0x71, 6, 0}, {0x72, 4, 0}, {0x6d, 2, -2}, {0x73, 1, 0}, {0x74, 0, 1}}
		o := prng.Pick(r, ops)
		pre := b.ensure(o.need, false)
		b.emit(append(pre, o.op))
		// abstract effect: keep kinds conservative
		for i := 0; i < -o.net; i++ {
			b.popK()
		}
		for i := 0; i < o.net; i++ {
			b.pushK(kind{false, -1})
		}
		for i := range b.st {
			if o.op != 0x76 && o.op != 0x75 && o.op != 0x74 {
				b.st[i] = kind{false, -1}
			}
		}
		if o.op == 0x74 {
			b.st[len(b.st)-1] = kind{true, -1}
		}
	case 22: // PICK / ROLL
		pre := b.ensure(1, false)
		n := r.Intn(len(b.st))
		if r.Chance(1, 10) {
			n = len(b.st)
		}
		op := prng.Pick(r, []byte{0x79, 0x7a})
		b.emit(append(append(pre, PushNum(int64(n))...), op))
		if op == 0x79 {
			b.pushK(kind{false, -1})
		}
		for i := range b.st {
			b.st[i] = kind{false, -1}
		}
	case 23: // alt stack
		if b.alt > 0 && r.Chance(1, 2) {
			b.emit([]byte{0x6c})
			b.alt--
			b.pushK(kind{false, -1})
		} else {
			pre := b.ensure(1, false)
			b.emit(append(pre, 0x6b))
			b.popK()
			b.alt++
		}
	case 24: // hashes
		pre := b.ensure(1, false)
		b.emit(append(pre, prng.Pick(r, []byte{0xa6, 0xa7, 0xa8, 0xa9, 0xaa})))
		b.st[len(b.st)-1] = kind{false, 20}
	case 25: // EQUAL family
		pre := b.ensure(1, false)
		if r.Chance(1, 2) {
			b.emit(append(pre, 0x76, prng.Pick(r, []byte{0x87, 0x88})))
		} else {
			p, _ := b.numLit()
			b.emit(append(append(pre, p...), prng.Pick(r, []byte{0x87, 0x87, 0x88})))
		}
		b.st[len(b.st)-1] = kind{true, -1}
	case 26: // VERIFY
		b.emit([]byte{prng.Pick(r, []byte{0x51, 0x51, 0x52, 0x00}), 0x69})
	case 27, 28, 29: // conditionals
		b.emit(b.ifBlock(0))
	case 30: // NOPs
		b.emit([]byte{prng.Pick(r, neutralNops)})
	case 31: // CLTV / CSV with an operand
		op := prng.Pick(r, []byte{0xb1, 0xb2})
		v := prng.Pick(r, []int64{0, 1, 100, 499999999, 500000000, 500000001, 65535, 65536, 1 << 22, 1<<22 + 5, 1 << 31, -1, 1<<32 - 1})
		b.emit(append(PushNum(v), op))
		b.pushK(kind{true, -1})
	case 32: // NUMEQUALVERIFY on equal numbers
		p, _ := b.numLit()
		b.emit(append(append(append([]byte{}, p...), p...), 0x9d))
	case 33: // rare: wild opcode
		if r.Chance(1, 3) {
			op := byte(0x4f + r.Intn(0x100-0x4f))
			if !IsSigOp(op) {
				b.emit([]byte{op})
			}
		}
	case 34: // rare: top-level OP_RETURN (post-genesis: early success)
		if r.Chance(1, 5) {
			b.emit([]byte{0x6a})
			if r.Chance(1, 2) {
				b.emit(r.Bytes(r.Intn(8))) // junk after it
			}
		}
	case 35: // non-minimal push forms
		v := r.Bytes(r.Intn(4))
		form := prng.Pick(r, []byte{0x4c, 0x4d, 0x4e})
		var p []byte
		switch form {
		case 0x4c:
			p = append([]byte{0x4c, byte(len(v))}, v...)
		case 0x4d:
			p = append([]byte{0x4d, byte(len(v)), 0}, v...)
		default:
			p = append([]byte{0x4e, byte(len(v)), 0, 0, 0}, v...)
		}
		b.emit(p)
		b.pushK(kind{false, len(v)})
	case 36: // CODESEPARATOR
		b.emit([]byte{0xab})
	default:
		_ = d
		p, k := b.numLit()
		b.emit(p)
		b.pushK(k)
	}
}

// RandProgram draws a structured random program and splits it into an
// unlocking and a locking script at a chunk boundary.
func RandProgram(r *prng.R, genesis bool, maxOps int) (unlock, lock []byte) {
	b := &builder{r: r, genesis: genesis}
	n := 1 + r.Intn(maxOps)
	for i := 0; i < n; i++ {
		b.step()
	}
	if len(b.st) == 0 || r.Chance(1, 2) {
		b.emit([]byte{prng.Pick(r, []byte{0x51, 0x51, 0x51, 0x52, 0x00, 0x4f})})
	}
	split := r.Intn(len(b.chunks) + 1)
	switch r.Intn(5) {
	case 0:
		split = 0
	}
	for i, c := range b.chunks {
		if i < split {
			unlock = append(unlock, c...)
		} else {
			lock = append(lock, c...)
		}
	}
	return unlock, lock
}

// PushOnlyPrefix: number of leading chunks... helper for callers that need a
// push-only unlocking script: strips everything from the first non-push opcode.
func PushOnlyPrefix(s []byte) []byte {
	pos := 0
	for pos < len(s) {
		op := s[pos]
		var n, hdr int
		switch {
		case op <= 75:
			n, hdr = int(op), 1
		case op == 0x4c && pos+1 < len(s):
			n, hdr = int(s[pos+1]), 2
		case op == 0x4d && pos+2 < len(s):
			n, hdr = int(s[pos+1])|int(s[pos+2])<<8, 3
		case op == 0x4e:
			return s[:pos]
		case op <= 0x60 && op != 0x50:
			n, hdr = 0, 1
		default:
			return s[:pos]
		}
		if pos+hdr+n > len(s) {
			return s[:pos]
		}
		pos += hdr + n
	}
	return s[:pos]
}

// Mutate applies one of several byte-level mutations to a script.
func Mutate(r *prng.R, s []byte) []byte {
	out := append([]byte{}, s...)
	if len(out) == 0 {
		return []byte{byte(r.Intn(256))}
	}
	switch r.Intn(7) {
	case 0: // flip a bit
		i := r.Intn(len(out))
		out[i] ^= 1 << uint(r.Intn(8))
	case 1: // substitute an opcode byte
		out[r.Intn(len(out))] = byte(r.Intn(256))
	case 2: // truncate
		out = out[:r.Intn(len(out))]
	case 3: // delete a byte
		i := r.Intn(len(out))
		out = append(out[:i], out[i+1:]...)
	case 4: // insert a byte
		i := r.Intn(len(out) + 1)
		out = append(out[:i], append([]byte{byte(r.Intn(256))}, out[i:]...)...)
	case 5: // duplicate a slice
		i := r.Intn(len(out))
		j := i + r.Intn(len(out)-i)
		out = append(out[:j], append(append([]byte{}, out[i:j]...), out[j:]...)...)
	case 6: // splice two halves in reverse order
		i := r.Intn(len(out))
		out = append(append([]byte{}, out[i:]...), out[:i]...)
	}
	return out
}
