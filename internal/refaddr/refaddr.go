// Package refaddr is an independent Base58Check and BIP276 implementation
// (math/big and crypto/sha256 only; nothing from go-bt or go-bk).
package refaddr

import (
	"crypto/sha256"
	"encoding/hex"
	"errors"
	"math/big"
	"strings"
)

const Alphabet = "123456789ABCDEFGHJKLMNPQRSTUVWXYZabcdefghijkmnopqrstuvwxyz"

func Sha256d(b []byte) []byte {
	a := sha256.Sum256(b)
	c := sha256.Sum256(a[:])
	return c[:]
}

// B58Encode encodes bytes (leading zero bytes become leading '1's).
func B58Encode(b []byte) string {
	z := 0
	for z < len(b) && b[z] == 0 {
		z++
	}
	n := new(big.Int).SetBytes(b)
	var out []byte
	base := big.NewInt(58)
	m := new(big.Int)
	for n.Sign() > 0 {
		n.DivMod(n, base, m)
		out = append(out, Alphabet[m.Int64()])
	}
	for i := 0; i < z; i++ {
		out = append(out, '1')
	}
	for i, j := 0, len(out)-1; i < j; i, j = i+1, j-1 {
		out[i], out[j] = out[j], out[i]
	}
	return string(out)
}

// B58Decode is the strict inverse of B58Encode.
func B58Decode(s string) ([]byte, error) {
	z := 0
	for z < len(s) && s[z] == '1' {
		z++
	}
	n := new(big.Int)
	base := big.NewInt(58)
	for i := 0; i < len(s); i++ {
		k := strings.IndexByte(Alphabet, s[i])
		if k < 0 {
			return nil, errors.New("bad character")
		}
		n.Mul(n, base)
		n.Add(n, big.NewInt(int64(k)))
	}
	body := n.Bytes()
	out := make([]byte, z+len(body))
	copy(out[z:], body)
	return out, nil
}

// CheckEncode is version || payload || sha256d[:4], Base58.
func CheckEncode(version byte, payload []byte) string {
	b := append([]byte{version}, payload...)
	b = append(b, Sha256d(b)[:4]...)
	return B58Encode(b)
}

// CheckDecode returns version and payload when s is well-formed Base58Check.
func CheckDecode(s string) (byte, []byte, error) {
	b, err := B58Decode(s)
	if err != nil {
		return 0, nil, err
	}
	if len(b) < 5 {
		return 0, nil, errors.New("too short")
	}
	body, ck := b[:len(b)-4], b[len(b)-4:]
	if string(Sha256d(body)[:4]) != string(ck) {
		return 0, nil, errors.New("checksum")
	}
	return body[0], body[1:], nil
}

// AddressOK says whether s is a P2PKH address go-bt may accept: Base58Check,
// 25 bytes, version 0x00 or 0x6f, correct checksum. Returns the 20-byte hash.
func AddressOK(s string) ([]byte, byte, bool) {
	v, p, err := CheckDecode(s)
	if err != nil || len(p) != 20 || (v != 0x00 && v != 0x6f) {
		return nil, 0, false
	}
	return p, v, true
}

// BIP276 --------------------------------------------------------------------

type BIP276 struct {
	Prefix  string
	Version int
	Network int
	Data    []byte
}

// EncodeBIP276: prefix ':' VV NN hex(data) hex(sha256d(all of that)[:4]).
func EncodeBIP276(b BIP276) string {
	const hx = "0123456789abcdef"
	p := b.Prefix + ":" + string([]byte{hx[b.Version>>4], hx[b.Version&15], hx[b.Network>>4], hx[b.Network&15]}) + hex.EncodeToString(b.Data)
	return p + hex.EncodeToString(Sha256d([]byte(p))[:4])
}

func isHex(s string) bool {
	for i := 0; i < len(s); i++ {
		c := s[i]
		if !(c >= '0' && c <= '9' || c >= 'a' && c <= 'f' || c >= 'A' && c <= 'F') {
			return false
		}
	}
	return true
}

// DecodeBIP276 accepts exactly: non-empty prefix, ':', 4 hex digits, an even
// number (possibly zero: the empty payload) of data hex digits, 8 checksum
// digits matching the text.
func DecodeBIP276(s string) (*BIP276, error) {
	// everything behind the separating colon is hex digits, so the separator is
	// the LAST colon of the text; a prefix may itself contain colons
	i := strings.LastIndexByte(s, ':')
	if i <= 0 {
		return nil, errors.New("no prefix")
	}
	rest := s[i+1:]
	if len(rest) < 4+8 || !isHex(rest) || len(rest)%2 != 0 {
		return nil, errors.New("layout")
	}
	body, ck := s[:len(s)-8], s[len(s)-8:]
	if hex.EncodeToString(Sha256d([]byte(body))[:4]) != ck { // the checksum is written in lower-case hex
		return nil, errors.New("checksum")
	}
	vn, _ := hex.DecodeString(rest[:4])
	data, _ := hex.DecodeString(rest[4 : len(rest)-8])
	return &BIP276{Prefix: s[:i], Version: int(vn[0]), Network: int(vn[1]), Data: data}, nil
}
