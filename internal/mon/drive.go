package mon

import (
	"bufio"
	"encoding/binary"
	"encoding/json"
	"flag"
	"fmt"
	"os"
	"os/exec"
	"path/filepath"
	"sort"
	"strconv"
	"strings"
	"sync"
	"syscall"
	"time"
)

// verifRoot is where evidence/, replays/ and KNOWN_FINDINGS.txt live (the
// check script exports its own directory; /verif by default).
var verifRoot = func() string {
	if v := os.Getenv("VERIF_ROOT"); v != "" {
		return v
	}
	return "/verif"
}()

// racePass: the binary was built with -race and runs only the phases whose
// name starts with "concurrent" (a second pass of ./check for the properties
// that have such phases). It is judged like a Race property (zero detector
// reports, no fatal error), skips the observation floor, and leaves a summary
// in <work>/race-pass.json which the main pass copies into the evidence.
var racePass = os.Getenv("VERIF_RACE_PASS") != ""

// outRoot is where evidence/ and replays/ are written. A self-test run against
// a scratch copy of the repository (VERIF_REPO set: seeded changes, reverted
// fixes) must never overwrite the evidence of the real tree; its files go
// under .work/selftest-out instead.
var outRoot = func() string {
	if os.Getenv("VERIF_REPO") != "" {
		return filepath.Join(verifRoot, ".work", "selftest-out")
	}
	return verifRoot
}()

// Agg is the aggregate over all shards, given to Floor and written as evidence.
type Agg struct {
	Evals    int64
	Cov      map[string]int64
	Maxes    map[string]float64
	Samples  []any
	Faults   []string
	Info     map[string]any
	Viol     map[string]*Violation
	VOrder   []string
	Distinct map[uint64]struct{}
	Incon    []string
}

func (a *Agg) addViol(v *Violation) {
	if o, ok := a.Viol[v.Key]; ok {
		o.Count += v.Count
		return
	}
	a.Viol[v.Key] = v
	a.VOrder = append(a.VOrder, v.Key)
}

// Main is the entry point of cmd/mon.
func Main() {
	if len(os.Args) < 2 {
		fmt.Fprintln(os.Stderr, "usage: mon drive|child|replay|list ...")
		os.Exit(2)
	}
	switch os.Args[1] {
	case "list":
		for _, id := range IDs() {
			fmt.Println(id)
		}
	case "child":
		childMain(os.Args[2:])
	case "drive":
		os.Exit(driveMain(os.Args[2:]))
	case "replay":
		os.Exit(replayMain(os.Args[2:]))
	case "fuzzsum":
		os.Exit(fuzzSumMain(os.Args[2:]))
	default:
		fmt.Fprintln(os.Stderr, "unknown sub-command", os.Args[1])
		os.Exit(2)
	}
}

// ---------------------------------------------------------------- child side

func childMain(args []string) {
	fs := flag.NewFlagSet("child", flag.ExitOnError)
	prop := fs.String("prop", "", "")
	tier := fs.String("tier", "quick", "")
	seed := fs.Uint64("seed", 1, "")
	shard := fs.Int("shard", 0, "")
	n := fs.Int("n", 1, "")
	only := fs.Int64("only", -1, "")
	from := fs.Uint64("from", 0, "")
	work := fs.String("work", "", "")
	replay := fs.String("replay", "", "")
	fs.Parse(args)
	p := Lookup(*prop)
	if p == nil {
		fmt.Fprintln(os.Stderr, "unknown property", *prop)
		os.Exit(2)
	}
	if racePass {
		p.Race = true
	}
	if !p.Race && os.Getenv("VERIF_NO_RLIMIT") == "" {
		// contain a runaway allocation inside this child (not under -race: the
		// detector's shadow memory needs the address space)
		lim := uint64(24 << 30)
		syscall.Setrlimit(syscall.RLIMIT_AS, &syscall.Rlimit{Cur: lim, Max: lim})
	}
	c := &Ctx{Prop: p, Tier: *tier, Seed: *seed, Shard: *shard, NShards: *n, Only: *only, From: *from, WorkDir: *work}
	c.init()
	os.MkdirAll(*work, 0o755)
	c.openMarker(filepath.Join(*work, "marker"))
	c.violF, _ = os.OpenFile(filepath.Join(*work, "viol.jsonl"), os.O_CREATE|os.O_WRONLY|os.O_TRUNC, 0o644)
	c.selfWatch()
	if *replay != "" {
		c.Replay = true
		raw, err := os.ReadFile(*replay)
		if err != nil {
			fmt.Fprintln(os.Stderr, err)
			os.Exit(2)
		}
		var rec struct {
			Property string          `json:"property"`
			Kind     string          `json:"kind"`
			Input    json.RawMessage `json:"input"`
		}
		if err := json.Unmarshal(raw, &rec); err != nil {
			fmt.Fprintln(os.Stderr, "bad replay file:", err)
			os.Exit(2)
		}
		k := p.kinds[rec.Kind]
		if k == nil {
			fmt.Fprintln(os.Stderr, "unknown kind", rec.Kind)
			os.Exit(2)
		}
		if err := k(c, rec.Input); err != nil {
			fmt.Fprintln(os.Stderr, "bad replay input:", err)
			os.Exit(2)
		}
	} else {
		p.Run(c)
	}
	c.finish()
}

// Flush writes what the child has observed so far (used before a deliberate exit).
func (c *Ctx) Flush() { c.finish() }

func (c *Ctx) finish() {
	c.closePhase()
	out := shardOut{Evals: c.evals, Cov: c.cov, Maxes: c.maxes, Samples: c.samples, Faults: c.faults, Info: c.info, Distinct: len(c.distinct)}
	for _, k := range c.vorder {
		out.Viol = append(out.Viol, c.viol[k])
	}
	// distinct hashes, binary
	f, err := os.Create(filepath.Join(c.WorkDir, "distinct.bin"))
	if err == nil {
		w := bufio.NewWriterSize(f, 1<<20)
		var b [8]byte
		for h := range c.distinct {
			binary.LittleEndian.PutUint64(b[:], h)
			w.Write(b[:])
		}
		w.Flush()
		f.Close()
	}
	b, _ := json.Marshal(out)
	tmp := filepath.Join(c.WorkDir, "out.json.tmp")
	os.WriteFile(tmp, b, 0o644)
	os.Rename(tmp, filepath.Join(c.WorkDir, "out.json"))
	if c.marker != nil {
		c.marker[8] = 2
	}
}

// --------------------------------------------------------------- parent side

type known struct{ prop, key, text string }

func loadKnown() []known {
	var ks []known
	b, err := os.ReadFile(filepath.Join(verifRoot, "KNOWN_FINDINGS.txt"))
	if err != nil {
		return nil
	}
	for _, l := range strings.Split(string(b), "\n") {
		l = strings.TrimSpace(l)
		if !strings.HasPrefix(l, "known:") {
			continue
		}
		rest := strings.TrimSpace(strings.TrimPrefix(l, "known:"))
		head, text, _ := strings.Cut(rest, "::")
		var k known
		for _, f := range strings.Fields(head) {
			if v, ok := strings.CutPrefix(f, "property="); ok {
				k.prop = v
			}
			if v, ok := strings.CutPrefix(f, "key="); ok {
				k.key = v
			}
		}
		k.text = strings.TrimSpace(text)
		if k.prop != "" && k.key != "" {
			ks = append(ks, k)
		}
	}
	return ks
}

type driver struct {
	p     *Property
	tier  string
	seed  uint64
	self  string
	work  string
	agg   *Agg
	mu    sync.Mutex
	start time.Time
}

func shardTimeout(tier string) time.Duration {
	if v := os.Getenv("VERIF_SHARD_TIMEOUT_S"); v != "" {
		if n, err := strconv.Atoi(v); err == nil {
			return time.Duration(n) * time.Second
		}
	}
	if tier == "thorough" {
		return 5 * time.Hour
	}
	return 25 * time.Minute
}

func (d *driver) childCmd(dir string, extra ...string) *exec.Cmd {
	args := []string{"child", "--prop", d.p.ID, "--tier", d.tier, "--seed", strconv.FormatUint(d.seed, 10), "--work", dir}
	args = append(args, extra...)
	cmd := exec.Command(d.self, args...)
	os.MkdirAll(dir, 0o755)
	so, _ := os.Create(filepath.Join(dir, "stdout"))
	se, _ := os.Create(filepath.Join(dir, "stderr"))
	cmd.Stdout, cmd.Stderr = so, se
	cmd.Env = os.Environ()
	if d.p.Race {
		cmd.Env = append(cmd.Env, "GORACE=halt_on_error=0 log_path="+filepath.Join(dir, "race"))
	}
	return cmd
}

// runWait runs cmd under a watchdog. timedOut is true when the watchdog fired.
func runWait(cmd *exec.Cmd, to time.Duration) (err error, timedOut bool) {
	if err := cmd.Start(); err != nil {
		return err, false
	}
	done := make(chan error, 1)
	go func() { done <- cmd.Wait() }()
	select {
	case err = <-done:
		return err, false
	case <-time.After(to):
		cmd.Process.Signal(syscall.SIGQUIT)
		select {
		case err = <-done:
		case <-time.After(10 * time.Second):
			cmd.Process.Kill()
			err = <-done
		}
		return err, true
	}
}

func readMarker(dir string) (uint64, byte, bool) {
	b, err := os.ReadFile(filepath.Join(dir, "marker"))
	if err != nil || len(b) < 9 {
		return 0, 0, false
	}
	return binary.LittleEndian.Uint64(b[:8]), b[8], true
}

func tailFile(path string, n int) string {
	b, err := os.ReadFile(path)
	if err != nil {
		return ""
	}
	if len(b) > n {
		b = b[:n]
	}
	return string(b)
}

// crashSignature reduces a Go crash dump to a stable key part.
func crashSignature(stderr string) string {
	sig := "unknown"
	for _, l := range strings.Split(stderr, "\n") {
		l = strings.TrimSpace(l)
		if strings.HasPrefix(l, "fatal error:") || strings.HasPrefix(l, "panic:") || strings.HasPrefix(l, "runtime:") {
			sig = digits.ReplaceAllString(l, "N")
			break
		}
	}
	fn := ""
	for _, l := range strings.Split(stderr, "\n") {
		l = strings.TrimSpace(l)
		if strings.HasPrefix(l, libPrefix) {
			fn = strings.TrimPrefix(strings.TrimPrefix(l, libPrefix), "/")
			if i := strings.Index(fn, "("); i > 0 && !strings.HasPrefix(fn, "(") {
				fn = fn[:i]
			} else if i := strings.LastIndex(fn, "("); i > 0 {
				fn = fn[:i]
			}
			break
		}
	}
	if len(sig) > 60 {
		sig = sig[:60]
	}
	return fn + ":" + sig
}

func (d *driver) merge(dir string) bool {
	b, err := os.ReadFile(filepath.Join(dir, "out.json"))
	if err != nil {
		return false
	}
	var o shardOut
	if err := json.Unmarshal(b, &o); err != nil {
		return false
	}
	d.mu.Lock()
	defer d.mu.Unlock()
	a := d.agg
	a.Evals += o.Evals
	for k, v := range o.Cov {
		a.Cov[k] += v
	}
	for k, v := range o.Maxes {
		if v > a.Maxes[k] {
			a.Maxes[k] = v
		}
	}
	for _, s := range o.Samples {
		if len(a.Samples) < 12 {
			a.Samples = append(a.Samples, s)
		}
	}
	a.Faults = append(a.Faults, o.Faults...)
	for k, v := range o.Info {
		if _, ok := a.Info[k]; !ok {
			a.Info[k] = v
		}
	}
	for _, v := range o.Viol {
		a.addViol(v)
	}
	if db, err := os.ReadFile(filepath.Join(dir, "distinct.bin")); err == nil {
		for i := 0; i+8 <= len(db); i += 8 {
			a.Distinct[binary.LittleEndian.Uint64(db[i:])] = struct{}{}
		}
	}
	return true
}

func (d *driver) mergeViolFile(dir string) {
	f, err := os.Open(filepath.Join(dir, "viol.jsonl"))
	if err != nil {
		return
	}
	defer f.Close()
	sc := bufio.NewScanner(f)
	sc.Buffer(make([]byte, 1<<20), 1<<28)
	d.mu.Lock()
	defer d.mu.Unlock()
	for sc.Scan() {
		var v Violation
		if json.Unmarshal(sc.Bytes(), &v) == nil && v.Key != "" {
			d.agg.addViol(&v)
		}
	}
}

// selfExamined: the child in dir ended itself after finding a call into the library blocked for ever.
func selfExamined(dir string) bool {
	b, _ := os.ReadFile(filepath.Join(dir, "viol.jsonl"))
	return strings.Contains(string(b), `"key":"nonreturn:blocked-forever`)
}

// confirmCase re-runs one case alone in a fresh child and classifies the outcome.
func (d *driver) confirmCase(shardDir string, g uint64, wasTimeout bool) {
	dir := filepath.Join(shardDir, fmt.Sprintf("only-%d", g))
	cmd := d.childCmd(dir, "--only", strconv.FormatUint(g, 10), "--n", "1", "--shard", "0")
	err, to := runWait(cmd, 600*time.Second)
	pending, _ := os.ReadFile(filepath.Join(dir, "pending.json"))
	stderr := tailFile(filepath.Join(dir, "stderr"), 6000)
	d.mergeViolFile(dir)
	if err == nil && !to {
		// did not reproduce alone
		d.merge(dir)
		if selfExamined(shardDir) {
			// the child examined itself and ended on purpose: the call that never returns needs
			// what was executed before it on the same objects, and is already recorded
			return
		}
		d.mu.Lock()
		d.agg.Incon = append(d.agg.Incon, fmt.Sprintf("child died/timed out at case %d but the case alone completed", g))
		d.mu.Unlock()
		return
	}
	var rp json.RawMessage
	if len(pending) > 0 {
		rp = pending
	} else {
		rp, _ = json.Marshal(map[string]any{"property": d.p.ID, "kind": "_case", "input": map[string]any{"case": g, "tier": d.tier, "seed": d.seed}})
	}
	key := "crash:" + crashSignature(stderr)
	detail := "child process died on this case (confirmed alone in a fresh child)\n" + stderr
	if to {
		key = "nonreturn:case"
		detail = "case did not return within 600 s when run alone\n" + stderr
	}
	d.mu.Lock()
	d.agg.addViol(&Violation{Key: sanitizeKey(key), Detail: detail, Replay: rp, Case: g, Count: 1})
	d.mu.Unlock()
}

func (d *driver) runShard(i, n int) {
	from := uint64(0)
	for attempt := 0; attempt < 6; attempt++ {
		dir := filepath.Join(d.work, fmt.Sprintf("shard-%d-%d", i, attempt))
		cmd := d.childCmd(dir, "--shard", strconv.Itoa(i), "--n", strconv.Itoa(n), "--from", strconv.FormatUint(from, 10))
		err, to := runWait(cmd, shardTimeout(d.tier))
		if d.merge(dir) && err == nil {
			return
		}
		d.mergeViolFile(dir)
		g, st, ok := readMarker(dir)
		if !ok || st != 1 {
			d.mu.Lock()
			d.agg.Incon = append(d.agg.Incon, fmt.Sprintf("shard %d ended abnormally outside a case (err=%v timeout=%v): %s", i, err, to, tailFile(filepath.Join(dir, "stderr"), 600)))
			d.mu.Unlock()
			return
		}
		if d.p.Race && !to {
			// a schedule-dependent death (e.g. "fatal error: concurrent map writes") need
			// not reproduce when the case is re-run alone: the observed crash is the evidence
			stderr := tailFile(filepath.Join(dir, "stderr"), 6000)
			rp, _ := json.Marshal(map[string]any{"property": d.p.ID, "kind": "_case", "input": map[string]any{"case": g, "tier": d.tier, "seed": d.seed}})
			d.mu.Lock()
			d.agg.addViol(&Violation{Key: sanitizeKey("crash:" + crashSignature(stderr)), Detail: "child process died during a concurrent workload\n" + stderr, Replay: rp, Case: g, Count: 1})
			d.mu.Unlock()
			from = g + 1
			continue
		}
		d.confirmCase(dir, g, to)
		if selfExamined(dir) {
			return // the objects of this shard's workload are wedged: every further attempt would end the same way
		}
		if to {
			d.mu.Lock()
			d.agg.Incon = append(d.agg.Incon, fmt.Sprintf("shard %d hit the watchdog at case %d", i, g))
			d.mu.Unlock()
			return
		}
		from = g + 1
	}
}

func driveMain(args []string) int {
	fs := flag.NewFlagSet("drive", flag.ExitOnError)
	prop := fs.String("prop", "", "")
	tier := fs.String("tier", "quick", "")
	work := fs.String("work", "", "")
	fs.Parse(args)
	p := Lookup(*prop)
	if p == nil {
		fmt.Printf("INCONCLUSIVE property=%s reason=unknown-property\n", *prop)
		return 2
	}
	seed := uint64(1)
	if v := os.Getenv("VERIF_SEED"); v != "" {
		if n, err := strconv.ParseInt(v, 10, 64); err == nil {
			seed = uint64(n)
		}
	}
	if racePass {
		p.Race = true
	}
	self, _ := os.Executable()
	d := &driver{p: p, tier: *tier, seed: seed, self: self, work: *work, start: time.Now()}
	d.agg = &Agg{Cov: map[string]int64{}, Maxes: map[string]float64{}, Info: map[string]any{}, Viol: map[string]*Violation{}, Distinct: map[uint64]struct{}{}}
	n := 8
	if *tier == "thorough" {
		n = 16
	}
	if p.Shards != nil {
		if k := p.Shards(*tier); k > 0 {
			n = k
		}
	}
	var wg sync.WaitGroup
	for i := 0; i < n; i++ {
		wg.Add(1)
		go func(i int) { defer wg.Done(); d.runShard(i, n) }(i)
	}
	wg.Wait()
	if p.Race {
		d.judgeRaceLogs()
	}
	return d.conclude(n)
}

func (d *driver) conclude(nshards int) int {
	a := d.agg
	p := d.p
	kn := loadKnown()
	isKnown := func(key string) (string, bool) {
		for _, k := range kn {
			if k.prop == p.ID && k.key == key {
				return k.text, true
			}
		}
		return "", false
	}
	rdir := filepath.Join(outRoot, "replays", p.ID)
	os.MkdirAll(rdir, 0o755)
	var newV, knownV []string
	for _, k := range a.VOrder {
		if _, ok := isKnown(k); ok {
			knownV = append(knownV, k)
		} else {
			newV = append(newV, k)
		}
	}
	sort.Strings(newV)
	sort.Strings(knownV)
	for _, k := range knownV {
		t, _ := isKnown(k)
		fmt.Printf("KNOWN-FINDING: property=%s key=%s %s\n", p.ID, k, t)
	}
	fileFor := func(k string) string {
		name := strings.Map(func(r rune) rune {
			if r >= 'a' && r <= 'z' || r >= 'A' && r <= 'Z' || r >= '0' && r <= '9' || r == '-' || r == '_' || r == '.' {
				return r
			}
			return '_'
		}, k)
		if len(name) > 100 {
			name = name[:100]
		}
		return filepath.Join(rdir, name+".json")
	}
	for i, k := range newV {
		if i >= 20 {
			break
		}
		v := a.Viol[k]
		path := fileFor(k)
		rp := v.Replay
		if len(rp) == 0 {
			rp, _ = json.Marshal(map[string]any{"property": p.ID, "kind": "_none", "key": k, "detail": v.Detail})
		}
		os.WriteFile(path, rp, 0o644)
		first, _, _ := strings.Cut(v.Detail, "\n")
		if len(first) > 300 {
			first = first[:300]
		}
		fmt.Printf("VIOLATION property=%s replay=%s key=%s count=%d :: %s\n", p.ID, path, k, v.Count, first)
	}
	for _, f := range a.Faults {
		a.Incon = append(a.Incon, "monitor fault: "+strings.SplitN(f, "\n", 2)[0])
	}
	if a.Evals == 0 {
		a.Incon = append(a.Incon, "no evaluations observed")
	}
	{ // de-duplicate reasons reported by several shards
		seen := map[string]bool{}
		var u []string
		for _, r := range a.Incon {
			if !seen[r] {
				seen[r] = true
				u = append(u, r)
			}
		}
		a.Incon = u
	}
	if racePass {
		sum := map[string]any{"built_with": "-race", "phases": "concurrent*", "evaluations": a.Evals, "race_reports_and_violations": len(newV), "inconclusive": a.Incon, "wall_s": time.Since(d.start).Seconds()}
		cnt := map[string]int64{}
		for k, v := range a.Cov {
			if strings.HasPrefix(k, "concurrent") {
				cnt[k] = v
			}
		}
		sum["counters"] = cnt
		b, _ := json.MarshalIndent(sum, "", " ")
		os.WriteFile(filepath.Join(d.work, "race-pass.json"), b, 0o644)
		if len(newV) > 0 {
			return 1
		}
		if len(a.Incon) > 0 {
			for _, r := range a.Incon {
				fmt.Printf("INCONCLUSIVE property=%s reason=race pass: %s\n", p.ID, strings.ReplaceAll(r, "\n", " | "))
			}
			return 2
		}
		return 0
	}
	if p.Floor != nil && len(a.Incon) == 0 {
		if r := p.Floor(a); r != "" {
			a.Incon = append(a.Incon, "observation floor: "+r)
		}
	}
	if b, err := os.ReadFile(filepath.Join(d.work, "race", "race-pass.json")); err == nil {
		var rp any
		if json.Unmarshal(b, &rp) == nil {
			a.Info["race_detector_pass_over_concurrent_phases"] = rp
		}
	}
	if b, err := os.ReadFile(filepath.Join(d.work, "fuzz", "summary.json")); err == nil {
		var fs any
		if json.Unmarshal(b, &fs) == nil {
			a.Info["coverage_guided_stage"] = fs
		}
	}
	d.writeEvidence(nshards, len(newV), knownV)
	if len(newV) > 0 {
		return 1
	}
	if len(a.Incon) > 0 {
		for _, r := range a.Incon {
			fmt.Printf("INCONCLUSIVE property=%s reason=%s\n", p.ID, strings.ReplaceAll(r, "\n", " | "))
		}
		for _, f := range a.Faults {
			fmt.Fprintln(os.Stderr, f)
		}
		return 2
	}
	fmt.Printf("OK property=%s tier=%s seed=%d evaluations=%d distinct_nontrivial=%d known_findings=%d wall_s=%.1f\n",
		p.ID, d.tier, d.seed, a.Evals, len(a.Distinct), len(knownV), time.Since(d.start).Seconds())
	return 0
}

func (d *driver) writeEvidence(nshards, nviol int, knownV []string) {
	a := d.agg
	p := d.p
	cov := map[string]any{
		"evaluations":         a.Evals,
		"distinct_nontrivial": len(a.Distinct),
		"rule":                p.Rule,
		"samples":             a.Samples,
		"counters":            a.Cov,
		"shards":              nshards,
	}
	if len(a.Samples) == 0 {
		cov["samples"] = []any{}
	}
	if len(a.Maxes) > 0 {
		cov["maxima"] = a.Maxes
	}
	for k, v := range a.Info {
		cov[k] = v
	}
	if len(knownV) > 0 {
		cov["known_findings_matched"] = knownV
	}
	if len(a.Incon) > 0 {
		cov["inconclusive"] = a.Incon
	}
	if p.Exhaustive != nil && p.Exhaustive(d.tier) {
		cov["exhaustive"] = true
	}
	ev := map[string]any{
		"property_id": p.ID,
		"tier":        d.tier,
		"seed":        int64(d.seed),
		"level":       "exploration",
		"coverage":    cov,
		"assumptions": p.Assum,
		"wall_s":      time.Since(d.start).Seconds(),
		"violations":  nviol,
	}
	if p.Assum == nil {
		ev["assumptions"] = []string{}
	}
	b, _ := json.MarshalIndent(ev, "", " ")
	os.MkdirAll(filepath.Join(outRoot, "evidence"), 0o755)
	os.WriteFile(filepath.Join(outRoot, "evidence", p.ID+".json"), b, 0o644)
}

// replayMain: mon replay --prop Cnn --work dir file
func replayMain(args []string) int {
	fs := flag.NewFlagSet("replay", flag.ExitOnError)
	prop := fs.String("prop", "", "")
	work := fs.String("work", "", "")
	fs.Parse(args)
	if fs.NArg() != 1 {
		fmt.Fprintln(os.Stderr, "usage: mon replay --prop Cnn --work dir <file>")
		return 2
	}
	file := fs.Arg(0)
	p := Lookup(*prop)
	if p == nil {
		return 2
	}
	raw, err := os.ReadFile(file)
	if err != nil {
		fmt.Fprintln(os.Stderr, err)
		return 2
	}
	var rec struct {
		Kind  string `json:"kind"`
		Input struct {
			Case uint64 `json:"case"`
			Tier string `json:"tier"`
			Seed uint64 `json:"seed"`
		} `json:"input"`
	}
	json.Unmarshal(raw, &rec)
	self, _ := os.Executable()
	d := &driver{p: p, tier: "quick", seed: 1, self: self, work: *work, start: time.Now()}
	d.agg = &Agg{Cov: map[string]int64{}, Maxes: map[string]float64{}, Info: map[string]any{}, Viol: map[string]*Violation{}, Distinct: map[uint64]struct{}{}}
	dir := filepath.Join(*work, "replay")
	var cmd *exec.Cmd
	switch rec.Kind {
	case "_none":
		fmt.Println("replay file carries no input (history-level violation); re-run the check itself")
		return 2
	case "_case":
		d.tier, d.seed = rec.Input.Tier, rec.Input.Seed
		cmd = d.childCmd(dir, "--only", strconv.FormatUint(rec.Input.Case, 10), "--n", "1", "--shard", "0")
	default:
		cmd = d.childCmd(dir, "--replay", file, "--n", "1", "--shard", "0")
	}
	err, to := runWait(cmd, 900*time.Second)
	d.merge(dir)
	d.mergeViolFile(dir)
	if p.Race {
		d.judgeRaceLogsIn(dir)
	}
	if err != nil || to {
		fmt.Printf("VIOLATION property=%s replay=%s key=crash-or-nonreturn :: %s\n", p.ID, file, strings.ReplaceAll(tailFile(filepath.Join(dir, "stderr"), 400), "\n", " | "))
		return 1
	}
	if len(d.agg.VOrder) > 0 {
		for _, k := range d.agg.VOrder {
			first, _, _ := strings.Cut(d.agg.Viol[k].Detail, "\n")
			fmt.Printf("VIOLATION property=%s replay=%s key=%s :: %s\n", p.ID, file, k, first)
		}
		return 1
	}
	for _, f := range d.agg.Faults {
		fmt.Println("MONITOR-FAULT", f)
	}
	fmt.Printf("OK property=%s replay=%s did not reproduce a violation\n", p.ID, file)
	return 0
}
