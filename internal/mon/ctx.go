// Package mon is the monitor runtime: case selection and sharding, the
// recover wrapper, violation sink with stable keys, coverage counters, the
// distinct-case set, the progress marker used for child-death attribution and
// the parent side that spawns children, aggregates and writes evidence.
package mon

import (
	"encoding/hex"
	"encoding/json"
	"fmt"
	"os"
	"regexp"
	"runtime"
	"sort"
	"strings"
	"sync"
	"syscall"
	"time"

	"verif/internal/prng"
)

// Hex is a byte slice that marshals as a hex string (replay files stay readable).
type Hex []byte

func (h Hex) MarshalJSON() ([]byte, error) { return json.Marshal(hex.EncodeToString(h)) }
func (h *Hex) UnmarshalJSON(b []byte) error {
	var s string
	if err := json.Unmarshal(b, &s); err != nil {
		return err
	}
	d, err := hex.DecodeString(s)
	if err != nil {
		return err
	}
	*h = d
	return nil
}

// Violation is one distinct way a property was seen to fail.
type Violation struct {
	Key    string          `json:"key"`
	Detail string          `json:"detail"`
	Replay json.RawMessage `json:"replay,omitempty"`
	Case   uint64          `json:"case"`
	Count  int64           `json:"count"`
}

// Property is what a monitor registers.
type Property struct {
	ID    string
	Rule  string   // generator recipe + non-triviality rule, in words (goes to evidence)
	Assum []string // assumptions / trusted base (goes to evidence)
	// Run drives the shard's part of the workload.
	Run func(c *Ctx)
	// Floor returns a non-empty reason when the aggregated run observed too
	// little to say "held" (=> inconclusive).
	Floor func(a *Agg) string
	// Shards overrides the number of children (0 = default by tier).
	Shards func(tier string) int
	// Race: children are run from the -race build and race logs are judged.
	Race bool
	// Exhaustive reports whether the tier enumerates a finite sub-space completely.
	Exhaustive func(tier string) bool
	kinds      map[string]func(c *Ctx, raw []byte) error
}

var registry = map[string]*Property{}

func Register(p *Property) *Property {
	if p.kinds == nil {
		p.kinds = map[string]func(c *Ctx, raw []byte) error{}
	}
	registry[p.ID] = p
	return p
}

func Lookup(id string) *Property { return registry[id] }

func IDs() []string {
	var ids []string
	for k := range registry {
		ids = append(ids, k)
	}
	sort.Strings(ids)
	return ids
}

// Kind registers a judge for one kind of case. The returned runner is what the
// generator calls; the registered decoder is what --replay calls. The judge
// runs under the recover wrapper.
func Kind[T any](p *Property, name string, judge func(c *Ctx, in *T)) func(c *Ctx, in *T) {
	run := func(c *Ctx, in *T) {
		pk, pi := c.curKind, c.curInput
		c.curKind, c.curInput = name, in
		defer func() { c.curKind, c.curInput = pk, pi }()
		c.writePending()
		defer c.recoverTop("judge:" + name)
		if pk == "" { // top-level case (not a judge called from a judge)
			c.checkRetained()
		}
		judge(c, in)
	}
	if p.kinds == nil {
		p.kinds = map[string]func(c *Ctx, raw []byte) error{}
	}
	p.kinds[name] = func(c *Ctx, raw []byte) error {
		var t T
		if err := json.Unmarshal(raw, &t); err != nil {
			return err
		}
		run(c, &t)
		return nil
	}
	return run
}

// Ctx is the per-child monitor context. Not safe for concurrent use except
// through the *Sync methods (C18 uses its own collection and reports at the end).
type Ctx struct {
	Prop     *Property
	Tier     string
	Seed     uint64
	Shard    int
	NShards  int
	Only     int64 // -1: all cases of the shard; otherwise run exactly this case (all shards' selection ignored)
	From     uint64
	WorkDir  string
	Replay   bool
	Thorough bool

	base     uint64
	phaseN   uint64
	caseNo   uint64
	evals    int64
	cov      map[string]int64
	maxes    map[string]float64
	distinct map[uint64]struct{}
	dCap     int
	viol     map[string]*Violation
	vorder   []string
	samples  []any
	sampleK  map[string]int
	faults   []string
	info     map[string]any
	marker   []byte
	violF    *os.File
	curKind  string
	curInput any

	phaseName  string
	phaseStart time.Time

	retained []retainedResult
	caseSeq  uint64
}

// retainedResult is something the library handed to the caller during an
// earlier case; whatever the library does later must not change it.
type retainedResult struct {
	what string
	live func() []byte
	snap []byte
	born uint64
}

// Retain registers a result returned by the library (a slice, or an object
// rendered to bytes by live). It is re-checked at the start of the following
// cases: a change means the result shares memory with library state (pooled
// buffer, cached slice, package-level table).
func (c *Ctx) Retain(what string, live func() []byte) {
	if c.Replay || len(c.retained) >= 24 {
		return
	}
	var snap []byte
	if pv, _ := TryQuiet(func() { snap = append([]byte{}, live()...) }); pv != nil {
		return
	}
	c.retained = append(c.retained, retainedResult{what: what, live: live, snap: snap, born: c.caseSeq})
}

// Scribble overwrites a byte slice the caller owns, up to its capacity (what
// an append by the owner may legitimately do).
func Scribble(b []byte) {
	full := b[:cap(b)]
	for i := range full {
		full[i] ^= 0xA5
	}
}

func (c *Ctx) checkRetained() {
	c.caseSeq++
	if len(c.retained) == 0 {
		return
	}
	keep := c.retained[:0]
	for _, r := range c.retained {
		var now []byte
		if pv, _ := TryQuiet(func() { now = r.live() }); pv != nil {
			continue
		}
		c.cov["retained-results-rechecked"]++
		if string(now) != string(r.snap) {
			i := 0
			for i < len(now) && i < len(r.snap) && now[i] == r.snap[i] {
				i++
			}
			c.Violation(c.Prop.ID+":result-changed-by-a-later-call:"+r.what,
				fmt.Sprintf("a %s handed out by the library %d case(s) ago no longer has the content it had then (first difference at byte %d of %d): the result shares memory with library state. The replay record is the case that ran when the change was noticed; the change was made by it or by the cases just before it.", r.what, c.caseSeq-r.born, i, len(r.snap)))
			continue
		}
		if c.caseSeq-r.born < 3 {
			keep = append(keep, r)
		} else {
			// the owner now re-uses its buffer: overwrite it, spare capacity
			// included. If the library still refers to this memory, the
			// regular oracles of the following cases see wrong output.
			TryQuiet(func() { Scribble(now) })
			c.cov["retained-results-overwritten-by-their-owner"]++
		}
	}
	c.retained = keep
}

func (c *Ctx) init() {
	c.cov = map[string]int64{}
	c.maxes = map[string]float64{}
	c.distinct = map[uint64]struct{}{}
	c.viol = map[string]*Violation{}
	c.sampleK = map[string]int{}
	c.info = map[string]any{}
	c.dCap = 6_000_000
	c.Thorough = c.Tier == "thorough"
}

// Phase starts a new numbered block of cases; case numbers of different phases
// never collide (phase index << 40).
func (c *Ctx) Phase(name string) {
	c.closePhase()
	c.phaseName, c.phaseStart = name, time.Now()
	c.phaseN++
	c.base = c.phaseN << 40
	c.cov["phase:"+name] += 0
}

func (c *Ctx) closePhase() {
	if c.phaseName != "" {
		c.cov["phase_ms:"+c.phaseName] += time.Since(c.phaseStart).Milliseconds()
		c.phaseName = ""
	}
}

// Case says whether case n of the current phase belongs to this child, and if
// so records it in the progress marker.
func (c *Ctx) Case(n uint64) bool {
	if racePass && !strings.HasPrefix(c.phaseName, "concurrent") {
		return false
	}
	g := c.base + n
	if c.Only >= 0 {
		if uint64(c.Only) != g {
			return false
		}
	} else {
		if g < c.From || int(n%uint64(c.NShards)) != c.Shard {
			return false
		}
	}
	c.caseNo = g
	if c.marker != nil {
		for i := 0; i < 8; i++ {
			c.marker[i] = byte(g >> (8 * i))
		}
		c.marker[8] = 1
	}
	return true
}

// Rand is the PRNG of case n of the current phase.
func (c *Ctx) Rand(n uint64) *prng.R { return prng.New(c.Seed, c.Prop.ID, c.base+n) }

func (c *Ctx) Eval(n int64)               { c.evals += n }
func (c *Ctx) Count(key string)           { c.cov[key]++ }
func (c *Ctx) CountN(key string, n int64) { c.cov[key] += n }
func (c *Ctx) Max(key string, v float64) {
	if v > c.maxes[key] {
		c.maxes[key] = v
	}
}
func (c *Ctx) Info(key string, v any) { c.info[key] = v }

// Distinct records the hash of a non-trivial case.
func (c *Ctx) Distinct(h uint64) {
	if len(c.distinct) < c.dCap {
		c.distinct[h] = struct{}{}
	}
}

// Sample keeps up to k samples per class.
func (c *Ctx) Sample(class string, k int, v func() any) {
	if c.sampleK[class] < k {
		c.sampleK[class]++
		c.samples = append(c.samples, map[string]any{"class": class, "case": v()})
	}
}

// Fault records a failure of the monitor itself (=> inconclusive, never a violation).
func (c *Ctx) Fault(s string) {
	if len(c.faults) < 20 {
		c.faults = append(c.faults, s)
	}
}

func sanitizeKey(k string) string {
	k = strings.Map(func(r rune) rune {
		if r == ' ' || r == '\n' || r == '\t' {
			return '_'
		}
		return r
	}, k)
	if len(k) > 160 {
		k = k[:160]
	}
	return k
}

// Violation records a violation under a stable key (first occurrence keeps its
// replay record; later ones only count).
func (c *Ctx) Violation(key, detail string) {
	key = sanitizeKey(key)
	if v, ok := c.viol[key]; ok {
		v.Count++
		return
	}
	v := &Violation{Key: key, Detail: detail, Case: c.caseNo, Count: 1}
	if c.curInput != nil {
		in, err := json.Marshal(c.curInput)
		if err == nil {
			v.Replay, _ = json.Marshal(map[string]any{"property": c.Prop.ID, "kind": c.curKind, "input": json.RawMessage(in), "key": key, "detail": detail})
		}
	}
	c.viol[key] = v
	c.vorder = append(c.vorder, key)
	if c.violF != nil {
		b, _ := json.Marshal(v)
		c.violF.Write(append(b, '\n'))
	}
}

func (c *Ctx) Violationf(key, format string, a ...any) { c.Violation(key, fmt.Sprintf(format, a...)) }

// writePending stores the current case input on disk before it runs, but only
// in single-case mode (used to attribute a child death).
func (c *Ctx) writePending() {
	if (c.Only < 0 && !c.Replay) || c.WorkDir == "" || c.curInput == nil {
		return
	}
	in, err := json.Marshal(c.curInput)
	if err != nil {
		return
	}
	b, _ := json.Marshal(map[string]any{"property": c.Prop.ID, "kind": c.curKind, "input": json.RawMessage(in)})
	os.WriteFile(c.WorkDir+"/pending.json", b, 0o644)
}

const libPrefix = "github.com/libsv/go-bt/v2"

var digits = regexp.MustCompile(`[0-9]+`)

func panicClass(v any) string {
	s := fmt.Sprint(v)
	if e, ok := v.(error); ok {
		s = e.Error()
	}
	s = strings.TrimPrefix(s, "runtime error: ")
	switch {
	case strings.Contains(s, "index out of range"):
		return "index-out-of-range"
	case strings.Contains(s, "slice bounds out of range"):
		return "slice-bounds"
	case strings.Contains(s, "nil pointer dereference"):
		return "nil-deref"
	case strings.Contains(s, "negative shift"):
		return "negative-shift"
	case strings.Contains(s, "makeslice"):
		return "makeslice"
	case strings.Contains(s, "divide by zero"):
		return "div-by-zero"
	}
	s = digits.ReplaceAllString(s, "N")
	if len(s) > 48 {
		s = s[:48]
	}
	return s
}

// Sentinel is panicked by harness callbacks to abort a case on purpose.
type Sentinel struct{ Why string }

// libFrame finds the innermost go-bt frame of the current (panicking) stack.
func libFrame() (fn string, trace string) {
	pcs := make([]uintptr, 64)
	n := runtime.Callers(3, pcs)
	fr := runtime.CallersFrames(pcs[:n])
	var sb strings.Builder
	for {
		f, more := fr.Next()
		if f.Function != "" {
			fmt.Fprintf(&sb, "%s (%s:%d)\n", f.Function, shortFile(f.File), f.Line)
			if fn == "" && strings.HasPrefix(f.Function, libPrefix) {
				fn = strings.TrimPrefix(f.Function, libPrefix)
				fn = strings.TrimPrefix(fn, "/")
			}
		}
		if !more {
			break
		}
	}
	return fn, sb.String()
}

func shortFile(f string) string {
	if i := strings.LastIndex(f, "/"); i >= 0 {
		if j := strings.LastIndex(f[:i], "/"); j >= 0 {
			return f[j+1:]
		}
	}
	return f
}

func (c *Ctx) handlePanic(where string, r any) {
	if s, ok := r.(Sentinel); ok {
		c.Violation("sentinel:"+where+":"+s.Why, "harness callback aborted the case: "+s.Why)
		return
	}
	fn, trace := libFrame()
	if fn == "" {
		c.Fault(fmt.Sprintf("monitor panic in %s (case %d): %v\n%s", where, c.caseNo, r, trace))
		return
	}
	c.Violation("panic:"+fn+":"+panicClass(r), fmt.Sprintf("panic in %s: %v\n%s", where, r, trace))
}

func (c *Ctx) recoverTop(where string) {
	if r := recover(); r != nil {
		c.handlePanic(where, r)
	}
}

// Try runs one API call under the recover wrapper. It returns false when the
// call panicked (a violation has been recorded).
func (c *Ctx) Try(entry string, f func()) (ok bool) {
	defer func() {
		if r := recover(); r != nil {
			ok = false
			c.handlePanic(entry, r)
		}
	}()
	f()
	return true
}

// TryQuiet runs f and reports a panic to the caller instead of recording it.
func TryQuiet(f func()) (pv any, fn string) {
	defer func() {
		if r := recover(); r != nil {
			pv = r
			fn, _ = libFrame()
		}
	}()
	f()
	return nil, ""
}

func (c *Ctx) openMarker(path string) {
	f, err := os.OpenFile(path, os.O_RDWR|os.O_CREATE|os.O_TRUNC, 0o644)
	if err != nil {
		return
	}
	defer f.Close()
	f.Truncate(16)
	m, err := syscall.Mmap(int(f.Fd()), 0, 16, syscall.PROT_READ|syscall.PROT_WRITE, syscall.MAP_SHARED)
	if err == nil {
		c.marker = m
	}
}

// shardOut is what a child leaves behind for its parent.
type shardOut struct {
	Evals    int64              `json:"evals"`
	Cov      map[string]int64   `json:"cov"`
	Maxes    map[string]float64 `json:"maxes"`
	Samples  []any              `json:"samples"`
	Faults   []string           `json:"faults"`
	Info     map[string]any     `json:"info"`
	Viol     []*Violation       `json:"viol"`
	Distinct int                `json:"distinct"`
}

// Concurrently runs f(g, k) from n goroutines, rounds times each, and returns
// the first non-empty description any call returned (a wrong result or a
// panic). It is for read-only operations on shared values and for pure
// functions, which every goroutine may use at once; no verdict depends on
// timing - a wrong result is wrong whenever it shows - and the run is bounded
// by n*rounds calls.
func Concurrently(n, rounds int, f func(g, k int) string) string {
	var wg sync.WaitGroup
	var mu sync.Mutex
	first := ""
	note := func(s string) {
		mu.Lock()
		if first == "" {
			first = s
		}
		mu.Unlock()
	}
	for g := 0; g < n; g++ {
		wg.Add(1)
		go func(g int) {
			defer wg.Done()
			defer func() {
				if r := recover(); r != nil {
					note(fmt.Sprintf("panic in goroutine %d: %v", g, r))
				}
			}()
			for k := 0; k < rounds; k++ {
				if s := f(g, k); s != "" {
					note(s)
					return
				}
			}
		}(g)
	}
	wg.Wait()
	return first
}

// Exact returns a copy of b whose capacity equals its length (as bytes read
// off the wire have): a read one past the end panics instead of silently
// returning whatever follows in memory.
func Exact(b []byte) []byte {
	o := make([]byte, len(b))
	copy(o, b)
	return o[:len(b):len(b)]
}
