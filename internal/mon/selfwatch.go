package mon

import (
	"encoding/json"
	"os"
	"runtime"
	"strings"
	"sync/atomic"
	"time"
)

// SelfExams counts the examinations started by the child's own examiner. An
// examination allocates (the goroutine dump); a monitor that meters the
// allocations of a library call reads the counter before and after the call and
// discards a measurement during which an examination ran.
var SelfExams atomic.Int64

var selfExamBuf []byte

// selfWatch is the child's own examiner for calls into the library that never
// return because they wait for a lock nobody will release (sequential
// workloads; the concurrent histories of C18 have their own examiner).
//
// Wall-clock time only decides WHEN to look: after the progress marker has
// stood still on one case for 30 s. The verdict is structural: every goroutine
// that has library frames on its stack sits in a sync-primitive wait (mutex,
// rwmutex, cond, waitgroup, semaphore), none of them is runnable, and a second
// goroutine dump 10 s later shows the same goroutines with identical stacks.
// A lock wait only lasts while somebody holds the lock; when no goroutine is
// executing library code, nobody is left to release it - the call cannot
// return. Anything else (a goroutine running, stacks that moved) is left to
// the parent's watchdog, whose firing is inconclusive.
func (c *Ctx) selfWatch() {
	if c.marker == nil || c.Prop.Race {
		return
	}
	selfExamBuf = make([]byte, 8<<20) // once, before anything is metered
	go func() {
		last, still := ^uint64(0), 0
		read := func() (uint64, byte) {
			var g uint64
			for i := 0; i < 8; i++ {
				g |= uint64(c.marker[i]) << (8 * i)
			}
			return g, c.marker[8]
		}
		for {
			time.Sleep(5 * time.Second)
			g, st := read()
			if st != 1 || g != last {
				last, still = g, 0
				continue
			}
			if still++; still < 6 {
				continue
			}
			s1, frame, ok := libBlocked()
			if !ok {
				continue
			}
			time.Sleep(10 * time.Second)
			if g2, st2 := read(); g2 != g || st2 != 1 {
				last, still = g2, 0
				continue
			}
			s2, _, ok2 := libBlocked()
			if !ok2 || s1 != s2 {
				continue
			}
			// the judging goroutine is blocked for good: its state is quiescent
			detail := "a call into the library never returns: every goroutine with library frames waits in a sync primitive, none is runnable, and two goroutine dumps 10 s apart are identical\n" + s2
			if len(detail) > 8000 {
				detail = detail[:8000]
			}
			v := &Violation{Key: sanitizeKey("nonreturn:blocked-forever:" + frame), Detail: detail, Case: g, Count: 1}
			if c.curInput != nil {
				if in, err := json.Marshal(c.curInput); err == nil {
					v.Replay, _ = json.Marshal(map[string]any{"property": c.Prop.ID, "kind": c.curKind, "input": json.RawMessage(in), "key": v.Key, "detail": "blocked for ever (needs the executions that came before it on the same objects)"})
				}
			}
			if c.violF != nil {
				b, _ := json.Marshal(v)
				c.violF.Write(append(b, '\n'))
				c.violF.Sync()
			}
			os.Exit(3)
		}
	}()
}

// libBlocked reports whether every goroutine with library frames is waiting in a
// sync primitive; it returns those goroutines' states and stacks (without the
// wait durations) and the innermost library function of the first one.
func libBlocked() (stacks, frame string, ok bool) {
	SelfExams.Add(1)
	buf := selfExamBuf
	if buf == nil {
		buf = make([]byte, 8<<20)
	}
	dump := string(buf[:runtime.Stack(buf, true)])
	var sb strings.Builder
	n := 0
	for _, g := range strings.Split(dump, "\n\n") {
		if !strings.Contains(g, libPrefix+"/") && !strings.Contains(g, libPrefix+".") {
			continue
		}
		head, body, _ := strings.Cut(g, "\n")
		id, state, _ := strings.Cut(strings.TrimPrefix(head, "goroutine "), " ")
		state, _, _ = strings.Cut(strings.Trim(state, "[]:"), ",")
		if !strings.HasPrefix(state, "sync.") && state != "semacquire" {
			return "", "", false
		}
		if n == 0 {
			for _, l := range strings.Split(body, "\n") {
				if strings.HasPrefix(l, libPrefix) {
					frame = strings.TrimPrefix(l, libPrefix)
					if i := strings.LastIndexByte(frame, '('); i > 0 {
						frame = frame[:i]
					}
					frame = strings.TrimPrefix(frame, "/")
					break
				}
			}
		}
		n++
		sb.WriteString("goroutine " + id + " [" + state + "]\n" + body + "\n\n")
	}
	return sb.String(), frame, n > 0
}
