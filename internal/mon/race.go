package mon

import (
	"os"
	"path/filepath"
	"sort"
	"strings"
)

// judgeRaceLogs counts the race detector's report blocks in every child's
// race.* log, de-duplicated by the pair of outermost go-bt entry points of the
// two conflicting accesses. Exit codes of the children are not trusted.
func (d *driver) judgeRaceLogs() {
	dirs, _ := filepath.Glob(filepath.Join(d.work, "shard-*"))
	for _, dir := range dirs {
		d.judgeRaceLogsIn(dir)
		subs, _ := filepath.Glob(filepath.Join(dir, "only-*"))
		for _, s := range subs {
			d.judgeRaceLogsIn(s)
		}
	}
}

func (d *driver) judgeRaceLogsIn(dir string) {
	files, _ := filepath.Glob(filepath.Join(dir, "race.*"))
	for _, f := range files {
		b, err := os.ReadFile(f)
		if err != nil {
			continue
		}
		blocks := strings.Split(string(b), "WARNING: DATA RACE")
		for _, blk := range blocks[1:] {
			if i := strings.Index(blk, "=================="); i >= 0 {
				blk = blk[:i]
			}
			key := raceKey(blk)
			d.mu.Lock()
			d.agg.Cov["race_report_blocks"]++
			if len(blk) > 5000 {
				blk = blk[:5000]
			}
			d.agg.addViol(&Violation{Key: sanitizeKey(key), Detail: "race detector report (entry-point pair " + key + ")\nWARNING: DATA RACE" + blk, Count: 1})
			d.mu.Unlock()
		}
	}
}

// raceKey extracts, for the two access stacks of a report, the outermost
// function that belongs to go-bt.
func raceKey(blk string) string {
	var stacks [][]string
	var cur []string
	inAccess := false
	for _, l := range strings.Split(blk, "\n") {
		t := strings.TrimSpace(l)
		switch {
		case strings.HasPrefix(t, "Write at"), strings.HasPrefix(t, "Read at"), strings.HasPrefix(t, "Previous write at"), strings.HasPrefix(t, "Previous read at"),
			strings.HasPrefix(t, "Atomic write at"), strings.HasPrefix(t, "Previous atomic"), strings.HasPrefix(t, "Atomic read at"):
			if inAccess {
				stacks = append(stacks, cur)
			}
			cur, inAccess = nil, true
		case strings.HasPrefix(t, "Goroutine "):
			if inAccess {
				stacks = append(stacks, cur)
			}
			cur, inAccess = nil, false
		case inAccess && t != "" && !strings.HasPrefix(l, "      ") && strings.Contains(t, "("):
			cur = append(cur, t)
		}
	}
	if inAccess {
		stacks = append(stacks, cur)
	}
	var eps []string
	for _, st := range stacks {
		ep := ""
		for _, fr := range st {
			if strings.HasPrefix(fr, libPrefix) {
				fn := strings.TrimPrefix(strings.TrimPrefix(fr, libPrefix), "/")
				if i := strings.LastIndex(fn, "("); i > 0 {
					fn = fn[:i]
				}
				ep = fn // keep the last (outermost) one
			}
		}
		if ep == "" && len(st) > 0 {
			ep = "non-lib:" + st[0]
			if i := strings.LastIndex(ep, "("); i > 0 {
				ep = ep[:i]
			}
		}
		eps = append(eps, ep)
	}
	sort.Strings(eps)
	return "race:" + strings.Join(eps, "|")
}
