package mon

import (
	"encoding/json"
	"fmt"
	"os"
	"path/filepath"
	"regexp"
	"sort"
	"strconv"
	"strings"
	"time"
)

// Coverage-guided generation (thorough tier only). Go's native fuzzing engine
// (`go test -fuzz`) is used as a *generator*: it mutates inputs towards new
// coverage of the library, every input it tries is handed to the very judge
// the deterministic phases use (through the registered kind decoder, i.e. as
// the same JSON record a replay file holds), and the judge - not the engine -
// decides. A violation that is not a known finding is written as an ordinary
// replay record into VERIF_FUZZ_OUT before the worker reports failure.

// FuzzSession is the per-process state of one fuzz worker for one property.
type FuzzSession struct {
	c     *Ctx
	known []known
	out   string
	done  int // violations already looked at (index into c.vorder)
	execs int64
	last  time.Time
}

var fuzzSessions = map[string]*FuzzSession{}

// Fuzz returns the worker's session for a property (nil: unknown property).
func Fuzz(id string) *FuzzSession {
	if s, ok := fuzzSessions[id]; ok {
		return s
	}
	p := Lookup(id)
	if p == nil {
		return nil
	}
	c := &Ctx{Prop: p, Tier: "thorough", Seed: 1, NShards: 1, Only: -1}
	c.init()
	c.Phase("coverage-guided")
	s := &FuzzSession{c: c, known: loadKnown(), out: os.Getenv("VERIF_FUZZ_OUT"), last: time.Now()}
	fuzzSessions[id] = s
	return s
}

// Judge runs one case of the given kind and returns the keys of the violations
// it produced that are not listed as known findings ("" = none). The replay
// record of each is in VERIF_FUZZ_OUT/viol-<key>.json by then.
func (s *FuzzSession) Judge(kind string, in any) string {
	raw, err := json.Marshal(in)
	if err != nil {
		return ""
	}
	k := s.c.Prop.kinds[kind]
	if k == nil {
		return "monitor-fault:unknown-kind:" + kind
	}
	s.execs++
	s.c.caseNo = uint64(s.execs)
	if err := k(s.c, raw); err != nil {
		return ""
	}
	var fresh []string
	for ; s.done < len(s.c.vorder); s.done++ {
		key := s.c.vorder[s.done]
		isKnown := false
		for _, kn := range s.known {
			if kn.prop == s.c.Prop.ID && kn.key == key {
				isKnown = true
			}
		}
		if isKnown {
			s.c.cov["known-finding-met"]++
			continue
		}
		fresh = append(fresh, key)
		if s.out != "" {
			v := s.c.viol[key]
			rp := v.Replay
			if len(rp) == 0 {
				rp, _ = json.Marshal(map[string]any{"property": s.c.Prop.ID, "kind": "_none", "key": key, "detail": v.Detail})
			}
			os.WriteFile(filepath.Join(s.out, "viol-"+fileName(key)+".json"), rp, 0o644)
		}
	}
	if s.out != "" && (s.execs%2000 == 0 || time.Since(s.last) > 2*time.Second) {
		s.flush()
	}
	return strings.Join(fresh, " ")
}

// Faults returns monitor faults recorded by the judges (=> inconclusive).
func (s *FuzzSession) Faults() []string { return s.c.faults }

func (s *FuzzSession) flush() {
	s.last = time.Now()
	b, _ := json.Marshal(map[string]any{"execs": s.execs, "evals": s.c.evals, "cov": s.c.cov, "maxes": s.c.maxes, "distinct": len(s.c.distinct), "faults": s.c.faults})
	tmp := filepath.Join(s.out, fmt.Sprintf("stats-%d.tmp", os.Getpid()))
	os.WriteFile(tmp, b, 0o644)
	os.Rename(tmp, filepath.Join(s.out, fmt.Sprintf("stats-%d.json", os.Getpid())))
}

func fileName(k string) string {
	name := strings.Map(func(r rune) rune {
		if r >= 'a' && r <= 'z' || r >= 'A' && r <= 'Z' || r >= '0' && r <= '9' || r == '-' || r == '_' || r == '.' {
			return r
		}
		return '_'
	}, k)
	if len(name) > 100 {
		name = name[:100]
	}
	return name
}

var (
	reFuzzLine = regexp.MustCompile(`fuzz: elapsed: \S+, execs: (\d+) \((\d+)/sec\), new interesting: (\d+) \(total: (\d+)\)`)
	reBaseline = regexp.MustCompile(`gathering baseline coverage: (\d+)/(\d+) completed`)
)

// fuzzSumMain: mon fuzzsum --prop Cnn --work <dir>
// <dir> holds, per target T, T.log (output of go test -fuzz) and T.out/ (what
// the workers wrote). Prints VIOLATION lines, stores the violations' replay
// records under replays/, writes <dir>/summary.json (picked up by `mon drive`
// for the evidence file). Exit 0 / 1 violation / 2 inconclusive.
func fuzzSumMain(args []string) int {
	var prop, work string
	for i := 0; i+1 < len(args); i += 2 {
		switch args[i] {
		case "--prop":
			prop = args[i+1]
		case "--work":
			work = args[i+1]
		}
	}
	logs, _ := filepath.Glob(filepath.Join(work, "*.log"))
	sort.Strings(logs)
	rdir := filepath.Join(outRoot, "replays", prop)
	sum := map[string]any{}
	rc := 0
	var targets []any
	for _, lg := range logs {
		name := strings.TrimSuffix(filepath.Base(lg), ".log")
		b, _ := os.ReadFile(lg)
		txt := string(b)
		t := map[string]any{"target": name}
		var execs, interesting, total int64
		for _, m := range reFuzzLine.FindAllStringSubmatch(txt, -1) {
			execs, _ = strconv.ParseInt(m[1], 10, 64)
			interesting, _ = strconv.ParseInt(m[3], 10, 64)
			total, _ = strconv.ParseInt(m[4], 10, 64)
		}
		if m := reBaseline.FindAllStringSubmatch(txt, -1); len(m) > 0 {
			t["seed_corpus_entries"], _ = strconv.ParseInt(m[len(m)-1][2], 10, 64)
		}
		t["engine_execs"] = execs
		t["new_coverage_inputs"] = interesting
		t["corpus_total"] = total
		// what the judges in the workers counted
		var judged, distinct int64
		cov := map[string]int64{}
		stats, _ := filepath.Glob(filepath.Join(work, name+".out", "stats-*.json"))
		var faults []string
		for _, sf := range stats {
			var st struct {
				Execs    int64            `json:"execs"`
				Cov      map[string]int64 `json:"cov"`
				Distinct int64            `json:"distinct"`
				Faults   []string         `json:"faults"`
			}
			sb, _ := os.ReadFile(sf)
			if json.Unmarshal(sb, &st) == nil {
				judged += st.Execs
				distinct += st.Distinct
				for k, v := range st.Cov {
					if !strings.HasPrefix(k, "phase") {
						cov[k] += v
					}
				}
				faults = append(faults, st.Faults...)
			}
		}
		t["judged_by_the_monitor"] = judged
		t["workers"] = len(stats)
		t["monitor_counters"] = cov
		viols, _ := filepath.Glob(filepath.Join(work, name+".out", "viol-*.json"))
		sort.Strings(viols)
		var vkeys []string
		for _, vf := range viols {
			vb, _ := os.ReadFile(vf)
			var rec struct{ Key, Detail string }
			json.Unmarshal(vb, &rec)
			os.MkdirAll(rdir, 0o755)
			dst := filepath.Join(rdir, "fuzz-"+fileName(rec.Key)+".json")
			os.WriteFile(dst, vb, 0o644)
			first, _, _ := strings.Cut(rec.Detail, "\n")
			if len(first) > 300 {
				first = first[:300]
			}
			fmt.Printf("VIOLATION property=%s replay=%s key=%s found-by=coverage-guided:%s :: %s\n", prop, dst, rec.Key, name, first)
			vkeys = append(vkeys, rec.Key)
			rc = 1
		}
		t["violations"] = vkeys
		failed := strings.Contains(txt, "\nFAIL") || strings.HasPrefix(txt, "FAIL")
		switch {
		case len(vkeys) > 0:
		case failed:
			// the engine stopped without a judged violation: a worker died (a
			// process-fatal error inside the library, or the engine's own 10 s
			// per-input limit on a loaded machine) or the harness broke. check
			// has run the input once more, alone: only that run counts.
			alone, aerr := os.ReadFile(filepath.Join(work, name+".alone.log"))
			switch {
			case aerr == nil && strings.Contains(string(alone), "alone-exit=0"):
				t["worker_death_not_reproduced_alone"] = true
				t["note"] = "a worker died during the stage; its last input passes when run alone (the engine allows a worker 10 s per input), the stage ended early and what it had judged until then stands"
			case aerr == nil:
				dst := filepath.Join(rdir, "fuzz-worker-death-"+name+".json")
				os.MkdirAll(rdir, 0o755)
				rp, _ := json.Marshal(map[string]any{"property": prop, "kind": "_none", "key": "fuzz-worker-death:" + name, "detail": tail(string(alone), 4000)})
				os.WriteFile(dst, rp, 0o644)
				fmt.Printf("VIOLATION property=%s replay=%s key=fuzz-worker-death:%s :: the process died (or did not return) while the library handled an input, also when the input was run alone; the go test output is in the replay record, the input under .work/.../fuzz/crashers\n", prop, dst, name)
				rc = 1
			default:
				fmt.Printf("INCONCLUSIVE property=%s reason=coverage-guided stage %s failed without a judged violation: %s\n", prop, name, strings.ReplaceAll(tail(txt, 300), "\n", " | "))
				if rc == 0 {
					rc = 2
				}
			}
		case execs == 0 || judged == 0:
			fmt.Printf("INCONCLUSIVE property=%s reason=coverage-guided stage %s observed nothing\n", prop, name)
			if rc == 0 {
				rc = 2
			}
		}
		if len(faults) > 0 {
			fmt.Printf("INCONCLUSIVE property=%s reason=coverage-guided stage %s: monitor fault: %s\n", prop, name, faults[0])
			if rc == 0 {
				rc = 2
			}
		}
		targets = append(targets, t)
	}
	sum["targets"] = targets
	sum["note"] = "go test -fuzz used as a generator only: every input the engine tried was judged by the property's own judge (same oracle as the deterministic phases); engine_execs is the engine's count, judged_by_the_monitor the judges' own count as last flushed by the workers"
	b, _ := json.MarshalIndent(sum, "", " ")
	os.WriteFile(filepath.Join(work, "summary.json"), b, 0o644)
	return rc
}

func tail(s string, n int) string {
	if len(s) > n {
		return s[len(s)-n:]
	}
	return s
}
