module verif

go 1.21

require (
	github.com/anishathalye/porcupine v1.3.0
	github.com/libsv/go-bk v0.1.6
	github.com/libsv/go-bt/v2 v2.0.0-00010101000000-000000000000
	golang.org/x/crypto v0.14.0
)

require github.com/pkg/errors v0.9.1 // indirect

replace github.com/libsv/go-bt/v2 => /repo
