// Command mon is the single monitor binary: `mon drive` is the parent that
// shards a property's workload over child processes (`mon child`), aggregates
// what they observed, writes the evidence file and prints the verdict.
package main

import "verif/internal/mon"

func main() { mon.Main() }
