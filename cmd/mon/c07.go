package main

import (
	"bytes"
	"fmt"

	"github.com/libsv/go-bt/v2"
	"github.com/libsv/go-bt/v2/bscript"
	"github.com/libsv/go-bt/v2/bscript/interpreter"
	"github.com/libsv/go-bt/v2/bscript/interpreter/debug"
	"github.com/libsv/go-bt/v2/bscript/interpreter/errs"
	"github.com/libsv/go-bt/v2/bscript/interpreter/scriptflag"

	"verif/internal/gen"
	"verif/internal/mon"
	"verif/internal/prng"
	"verif/internal/refcodec"
)

// C07 — script execution is total: every Execute call returns success or an
// error value; it never panics, kills the process or fails to return.

type c07Input struct {
	Unlock mon.Hex `json:"unlock"`
	Lock   mon.Hex `json:"lock"`
	Flags  uint32  `json:"flags"`
	Mode   string  `json:"mode"` // transaction-context mode
	Dbg    string  `json:"dbg"`  // none | recording | default
	Ctx    progCtx `json:"ctx"`
	Src    string  `json:"src"`
	// BigScript: the transaction of the context additionally carries an output
	// (and, with several inputs, another input's unlocking script) of this many
	// non-repeating bytes
	BigScript int `json:"big_script,omitempty"`
}

var c07Modes = []string{"scripts-only", "tx", "tx+scripts", "tx-nil-prevout", "nil-tx-neg-idx", "nil-tx-idx0", "idx-out-of-range", "idx-minus-one",
	"tx-nil-unlocking", "tx-no-inputs", "prevout-nil-script", "nil-scripts",
	// transaction objects a caller can build that have no serialisation
	"idx-beyond-32-bits", "tx-nil-checked-input", "tx-input-without-txid", "tx-other-input-without-txid", "tx-nil-other-input", "tx-nil-output", "tx-output-nil-script"}

func c07Options(in *c07Input) []interpreter.ExecutionOptionFunc {
	unlock := bscript.NewFromBytes(mon.Exact(in.Unlock))
	lock := bscript.NewFromBytes(mon.Exact(in.Lock))
	// transaction shape derived from the context: 1-3 inputs, 0-2 outputs, the
	// checked input at any position (so that "index == number of outputs" occurs)
	nOuts := int(in.Ctx.Sats % 3)
	nIns := 1 + int(in.Ctx.Sats/3%3)
	idx := int(in.Ctx.Sats / 9 % uint64(nIns))
	mkTx := func() *bt.Tx {
		tx := &bt.Tx{Version: in.Ctx.Version, LockTime: in.Ctx.LockTime}
		for i := 0; i < nIns; i++ {
			inp := &bt.Input{PreviousTxOutIndex: uint32(i), SequenceNumber: in.Ctx.Sequence, UnlockingScript: bscript.NewFromBytes([]byte{0x51})}
			if i == idx {
				inp.UnlockingScript = unlock
			}
			_ = inp.PreviousTxIDAdd(append([]byte{}, fixedTxID...))
			tx.Inputs = append(tx.Inputs, inp)
		}
		for i := 0; i < nOuts; i++ {
			tx.Outputs = append(tx.Outputs, &bt.Output{Satoshis: uint64(i + 1), LockingScript: bscript.NewFromBytes([]byte{0x51})})
		}
		if in.BigScript > 0 {
			br := prng.New(uint64(in.BigScript), "C07-big", 0)
			tx.Outputs = append(tx.Outputs, &bt.Output{Satoshis: 7, LockingScript: bscript.NewFromBytes(append([]byte{0x00, 0x6a}, br.Bytes(in.BigScript-2)...))})
			for i := range tx.Inputs {
				if i != idx {
					tx.Inputs[i].UnlockingScript = bscript.NewFromBytes(br.Bytes(in.BigScript + 1))
				}
			}
		}
		return tx
	}
	prev := &bt.Output{Satoshis: in.Ctx.Sats, LockingScript: lock}
	var o []interpreter.ExecutionOptionFunc
	switch in.Mode {
	case "scripts-only":
		o = append(o, interpreter.WithScripts(lock, unlock))
	case "tx":
		o = append(o, interpreter.WithTx(mkTx(), idx, prev))
	case "tx+scripts":
		o = append(o, interpreter.WithTx(mkTx(), idx, prev), interpreter.WithScripts(lock, unlock))
	case "tx-nil-prevout":
		o = append(o, interpreter.WithTx(mkTx(), idx, nil), interpreter.WithScripts(lock, unlock))
	case "nil-tx-neg-idx":
		o = append(o, interpreter.WithTx(nil, -1, prev), interpreter.WithScripts(lock, unlock))
	case "nil-tx-idx0":
		o = append(o, interpreter.WithTx(nil, 0, prev), interpreter.WithScripts(lock, unlock))
	case "idx-out-of-range":
		o = append(o, interpreter.WithTx(mkTx(), nIns+int(in.Ctx.Sats%5), prev), interpreter.WithScripts(lock, unlock))
	case "idx-minus-one":
		o = append(o, interpreter.WithTx(mkTx(), -1, prev), interpreter.WithScripts(lock, unlock))
	case "tx-nil-unlocking":
		tx := mkTx()
		tx.Inputs[idx].UnlockingScript = nil
		o = append(o, interpreter.WithTx(tx, idx, prev), interpreter.WithScripts(lock, unlock))
	case "tx-no-inputs":
		tx := mkTx()
		tx.Inputs = nil
		o = append(o, interpreter.WithTx(tx, 0, prev), interpreter.WithScripts(lock, unlock))
	case "prevout-nil-script":
		o = append(o, interpreter.WithTx(mkTx(), idx, &bt.Output{Satoshis: in.Ctx.Sats}), interpreter.WithScripts(lock, unlock))
	case "nil-scripts":
		o = append(o, interpreter.WithScripts(nil, nil))
	case "idx-beyond-32-bits": // a valid index plus a multiple of 2^32, and other values whose low 32 bits look valid
		big := []int{1 << 32, 1<<32 + idx, 3<<32 + idx, -(1 << 32) + idx, 1<<31 + idx, 1 << 62, -1 << 63}[int(in.Ctx.Sats/7)%7]
		o = append(o, interpreter.WithTx(mkTx(), big, prev), interpreter.WithScripts(lock, unlock))
	case "tx-nil-checked-input":
		tx := mkTx()
		tx.Inputs[idx] = nil
		o = append(o, interpreter.WithTx(tx, idx, prev), interpreter.WithScripts(lock, unlock))
	case "tx-input-without-txid":
		tx := mkTx()
		tx.Inputs[idx] = &bt.Input{PreviousTxOutIndex: uint32(idx), SequenceNumber: in.Ctx.Sequence, UnlockingScript: unlock}
		o = append(o, interpreter.WithTx(tx, idx, prev))
	case "tx-other-input-without-txid":
		tx := mkTx()
		tx.Inputs = append(tx.Inputs, &bt.Input{SequenceNumber: 1, UnlockingScript: bscript.NewFromBytes([]byte{0x51})})
		o = append(o, interpreter.WithTx(tx, idx, prev))
	case "tx-nil-other-input":
		tx := mkTx()
		tx.Inputs = append(tx.Inputs, nil)
		o = append(o, interpreter.WithTx(tx, idx, prev))
	case "tx-nil-output":
		tx := mkTx()
		tx.Outputs = append(tx.Outputs, nil)
		o = append(o, interpreter.WithTx(tx, idx, prev))
	case "tx-output-nil-script":
		tx := mkTx()
		tx.Outputs = append(tx.Outputs, &bt.Output{Satoshis: 3})
		o = append(o, interpreter.WithTx(tx, idx, prev))
	}
	o = append(o, flagOptions(in.Flags, len(in.Unlock)+3*len(in.Lock)+int(in.Flags%7))...)
	return o
}

// c07Seq: one transaction object that its owner keeps editing (inputs and
// outputs added and removed, scripts replaced) between executions on ONE
// engine, every execution reaching a signature check.
type c07Seq struct {
	Seed  uint64 `json:"seed"`
	Steps int    `json:"steps"`
	Flags uint32 `json:"flags"`
}

func c07JudgeSeq(c *mon.Ctx, in *c07Seq) {
	r := prng.New(in.Seed, "C07-seq", 0)
	e := theEngine(c)
	sig := func() *bscript.Script {
		ht := prng.Pick(r, []byte{0x01, 0x41, 0x03, 0xc2})
		return bscript.NewFromBytes(gen.Push([]byte{0x30, 0x06, 0x02, 0x01, 0x01, 0x02, 0x01, byte(1 + r.Intn(100)), ht}))
	}
	lock := bscript.NewFromBytes(append(gen.Push(c07KeyG), 0xac))
	multi := bscript.NewFromBytes(append(append(append([]byte{0x51}, gen.Push(c07KeyG)...), gen.Push(c07Key2G)...), 0x52, 0xae))
	newIn := func() *bt.Input {
		inp := &bt.Input{PreviousTxOutIndex: uint32(r.Intn(4)), SequenceNumber: gen.U32(r), UnlockingScript: sig()}
		_ = inp.PreviousTxIDAdd(r.Bytes(32))
		return inp
	}
	tx := &bt.Tx{Version: 1}
	tx.Inputs = append(tx.Inputs, newIn())
	tx.Outputs = append(tx.Outputs, &bt.Output{Satoshis: 1, LockingScript: bscript.NewFromBytes([]byte{0x51})})
	for k := 0; k < in.Steps; k++ {
		c.Eval(1)
		step := "execute"
		if k > 0 {
			switch r.Intn(7) {
			case 0, 1:
				step = "input-appended"
				tx.Inputs = append(tx.Inputs, newIn())
			case 2:
				step = "input-removed"
				if len(tx.Inputs) > 1 {
					tx.Inputs = tx.Inputs[1:]
				}
			case 3:
				step = "output-appended"
				tx.Outputs = append(tx.Outputs, &bt.Output{Satoshis: uint64(r.Intn(1000)), LockingScript: bscript.NewFromBytes(r.Bytes(1 + r.Intn(30)))})
			case 4:
				step = "outputs-removed"
				tx.Outputs = nil
			case 5:
				step = "unlocking-script-replaced"
				tx.Inputs[r.Intn(len(tx.Inputs))].UnlockingScript = sig()
			default:
				step = "locktime-changed"
				tx.LockTime = gen.U32(r)
			}
		}
		idx := len(tx.Inputs) - 1 // the newest input
		if r.Chance(1, 3) {
			idx = r.Intn(len(tx.Inputs))
		}
		l := lock
		if r.Chance(1, 3) {
			l = multi
			u := append([]byte{0x00}, *tx.Inputs[idx].UnlockingScript...)
			tx.Inputs[idx].UnlockingScript = bscript.NewFromBytes(u)
		}
		var err error
		if !c.Try("interpreter.Engine.Execute[same-tx-edited:"+step+"]", func() {
			err = e.Execute(interpreter.WithTx(tx, idx, &bt.Output{Satoshis: uint64(1 + r.Intn(5000)), LockingScript: l}), interpreter.WithFlags(scriptflag.Flag(in.Flags)))
		}) {
			c.Count("C07:panicked:same-tx-edited")
			return
		}
		c.Count("seq:step:" + step)
		if err == nil {
			c.Count("result:success")
		}
		c.Distinct(prng.HashBytes([]byte("seq"), []byte{byte(k), byte(in.Seed), byte(in.Seed >> 8), byte(in.Seed >> 16), byte(in.Seed >> 24)}))
	}
}

func c07Judge(c *mon.Ctx, in *c07Input) {
	if resourceHog(in.Unlock, in.Lock, in.Flags, in.Ctx) {
		c.Count("C07:skipped:element-above-4MiB-by-node-rules")
		return
	}
	c.Eval(1)
	opts := c07Options(in)
	var rec *recDebugger
	switch in.Dbg {
	case "recording":
		rec = &recDebugger{}
		opts = append(opts, interpreter.WithDebugger(rec))
	case "default":
		d := debug.NewDebugger()
		n := 0
		d.AttachBeforeExecute(func(*interpreter.State) { n++ })
		d.AttachAfterStep(func(s *interpreter.State) { n += len(s.DataStack) })
		d.AttachBeforeExecuteOpcode(func(s *interpreter.State) { _ = s.Opcode() })
		d.AttachAfterStackPush(func(_ *interpreter.State, b []byte) { n += len(b) })
		d.AttachAfterError(func(*interpreter.State, error) { n++ })
		d.AttachAfterSuccess(func(*interpreter.State) { n++ })
		opts = append(opts, interpreter.WithDebugger(d))
	case "accessors":
		// a debugger that looks at every snapshot through the library's own
		// accessors, in every hook (what the repository's debugger tests do in
		// some): a panic inside State.Opcode / State.RemainingScript leaves
		// Execute like any other panic
		d := debug.NewDebugger()
		n := 0
		look := func(s *interpreter.State) {
			op := s.Opcode()
			n += len(op.Data) + len(op.Name()) + len(s.RemainingScript())
		}
		d.AttachBeforeExecute(look)
		d.AttachAfterExecute(look)
		d.AttachBeforeStep(look)
		d.AttachAfterStep(look)
		d.AttachBeforeExecuteOpcode(look)
		d.AttachAfterExecuteOpcode(look)
		d.AttachBeforeScriptChange(look)
		d.AttachAfterScriptChange(look)
		d.AttachBeforeStackPush(func(s *interpreter.State, _ []byte) { look(s) })
		d.AttachAfterStackPush(func(s *interpreter.State, _ []byte) { look(s) })
		d.AttachBeforeStackPop(look)
		d.AttachAfterStackPop(func(s *interpreter.State, _ []byte) { look(s) })
		d.AttachAfterError(func(s *interpreter.State, _ error) { look(s) })
		d.AttachAfterSuccess(look)
		opts = append(opts, interpreter.WithDebugger(d))
	}
	var err error
	if !c.Try("interpreter.Engine.Execute["+in.Mode+"]", func() { err = theEngine(c).Execute(opts...) }) {
		c.Count("C07:panicked:" + in.Mode)
		return
	}
	c.Count("mode:" + in.Mode + ":dbg:" + in.Dbg)
	c.Count("src:" + in.Src)
	if err == nil {
		c.Count("result:success")
	} else {
		code := "non-script-error"
		if e, ok := err.(errs.Error); ok {
			code = e.ErrorCode.String()
		}
		c.Count("result:" + code)
	}
	// non-trivial: the execution got past set-up (executed at least one instruction) or ended in success
	if err == nil || (rec != nil && len(rec.steps) > 0) || len(in.Unlock)+len(in.Lock) > 2 {
		c.Distinct(prng.HashBytes(in.Unlock, in.Lock, []byte(in.Mode), []byte(in.Dbg), []byte{byte(in.Flags), byte(in.Flags >> 8)}))
	}
	c.Sample("exec:"+in.Mode, 1, func() any {
		return map[string]any{"input": in, "error": fmt.Sprint(err)}
	})
}

func c07Flags(r *prng.R, i uint64) uint32 {
	switch i % 8 {
	case 0:
		return 1 << uint(r.Intn(16))
	case 1:
		return 0xffff
	case 2:
		return 0
	case 3:
		return uint32(scriptflag.UTXOAfterGenesis) | uint32(r.Intn(1<<16))
	}
	return uint32(r.Intn(1 << 16))
}

func init() {
	p := &mon.Property{
		ID: "C07",
		Rule: "Every Engine.Execute call runs under the recover monitor in a child process (a child death or a case that does not return is attributed through the progress marker and confirmed alone). Sources: all 256 hash-type bytes on a well-formed signature x 27 (inputs 1..3, outputs 0..2, checked index) transaction shapes x 6 flag sets x CHECKSIG / CHECKMULTISIG; random byte pairs (lengths 0..80 and the 10000/10001-byte boundary), every truncation and 8 mutations of each node vector, structured random programs, the enumerated opcode x edge-operand programs; flag words sampled from all 2^16 (always including each single bit, 0 and all ones); short programs over a small alphabet around signature opcodes / code separators / OP_RETURN / conditionals; structurally malformed DER signatures; transactions of 1-3 inputs and 0-2 outputs with the checked input at any position; twelve transaction-context modes (scripts only, tx, tx without previous output, nil tx with negative index, index out of range, -1, nil unlocking script, tx without inputs, previous output without script, nil scripts); no debugger / recording debugger / debug.NewDebugger with attached functions / debug.NewDebugger whose functions, attached to every hook, read each snapshot through State.Opcode and State.RemainingScript. " +
			"distinct_nontrivial = distinct (unlock, lock, flags, mode, debugger) whose scripts are longer than 2 bytes together or that ran at least one instruction or succeeded.",
		Assum: []string{"termination is restated as bounded progress: a case counts as non-returning only when it exceeds 600 s when re-run alone",
			"children run with a 24 GiB address-space limit; a Go fatal error (out of memory, stack overflow) kills only the child and is reported as a violation after confirmation"},
	}
	judge := mon.Kind(p, "exec", c07Judge)
	seqk := mon.Kind(p, "tx-sequence", c07JudgeSeq)
	p.Run = func(c *mon.Ctx) {
		vs := loadVectors(c)
		if vs == nil {
			return
		}
		modeOf := func(r *prng.R) string {
			if r.Chance(1, 2) {
				return prng.Pick(r, []string{"tx", "scripts-only"})
			}
			return prng.Pick(r, c07Modes)
		}
		dbgOf := func(r *prng.R, scriptLen int) string {
			if scriptLen > 200 {
				return "none"
			}
			switch r.Intn(6) {
			case 0:
				return "recording"
			case 1:
				return "default"
			case 2:
				return "accessors"
			}
			return "none"
		}
		c.Phase("contexts") // every mode x debugger on a few fixed programs incl. CLTV/CSV/CHECKSIG
		progs := [][2]string{{"1", "1"}, {"", "1"}, {"1", ""}, {"", ""}, {"0", "CHECKLOCKTIMEVERIFY 1"}, {"0", "CHECKSEQUENCEVERIFY 1"}, {"0 0", "CHECKSIG 1"},
			{"0 0 0", "1 CHECKMULTISIG 1"}, {"1 2", "ADD 3 EQUAL"}, {"1", "IF 1 ELSE 0 ENDIF"}, {"1", "RETURN"}, {"0x4c", "1"}, {"1", "0x4d 0xff"},
			{"0 0x21 0x02865c40293a680cb9c020e7b1e106d8c1916d3cef99aa431a56d253e69256dac0", "CHECKSIG NOT"}, {"1 1", "CHECKSIGVERIFY"}, {"0 0 1", "1 CHECKMULTISIGVERIFY 1"}}
		n := uint64(0)
		for _, pg := range progs {
			u, _ := vectorsParse(pg[0])
			l, _ := vectorsParse(pg[1])
			for _, m := range c07Modes {
				for _, d := range []string{"none", "recording", "default", "accessors"} {
					for _, fl := range []uint32{0, 0xffff, uint32(scriptflag.UTXOAfterGenesis), uint32(scriptflag.VerifyCheckLockTimeVerify | scriptflag.VerifyCheckSequenceVerify),
						uint32(scriptflag.EnableSighashForkID | scriptflag.UTXOAfterGenesis), uint32(scriptflag.Bip16 | scriptflag.VerifyCleanStack)} {
						n++
						if c.Case(n) {
							judge(c, &c07Input{Unlock: u, Lock: l, Flags: fl, Mode: m, Dbg: d, Ctx: defaultCtx(), Src: "contexts"})
						}
					}
				}
			}
		}
		c.Phase("limits-with-debuggers") // scripts, pushes, operation counts and stack depths on both sides of the limits of the two eras, under every debugger and context mode (refusals while the execution is being set up included)
		{
			n := uint64(0)
			rep := func(b byte, k int) []byte { return bytes.Repeat([]byte{b}, k) }
			push := func(k int) []byte { // one push of k bytes
				switch {
				case k <= 75:
					return append([]byte{byte(k)}, rep(0x11, k)...)
				case k <= 255:
					return append([]byte{0x4c, byte(k)}, rep(0x11, k)...)
				default:
					return append([]byte{0x4d, byte(k), byte(k >> 8)}, rep(0x11, k)...)
				}
			}
			var pairs [][2][]byte
			for _, k := range []int{9999, 10000, 10001, 20000} {
				pairs = append(pairs, [2][]byte{{0x51}, rep(0x61, k)}, [2][]byte{rep(0x00, k), {0x51}}, [2][]byte{rep(0x51, k), rep(0x61, k)})
			}
			for _, k := range []int{520, 521} {
				pairs = append(pairs, [2][]byte{push(k), {0x75, 0x51}}, [2][]byte{{0x51}, append(push(k), 0x75)})
			}
			for _, k := range []int{200, 201, 500, 501} {
				pairs = append(pairs, [2][]byte{{0x51}, rep(0x61, k)}, [2][]byte{{}, append(rep(0x51, 2*k), 0x51)})
			}
			for _, pr := range pairs {
				for _, m := range c07Modes {
					for _, d := range []string{"none", "recording", "default", "accessors"} {
						for _, fl := range []uint32{0, uint32(scriptflag.UTXOAfterGenesis), uint32(scriptflag.Bip16 | scriptflag.VerifyCleanStack), uint32(scriptflag.VerifyCleanStack), uint32(scriptflag.VerifySigPushOnly)} {
							n++
							if refusedAtSetup := fl&uint32(scriptflag.UTXOAfterGenesis) == 0 && (len(pr[0]) > 10000 || len(pr[1]) > 10000); d != "none" && len(pr[0])+len(pr[1]) > 3000 && !refusedAtSetup {
								continue // a snapshot (and a rendering of the remaining script) per step of a program of thousands of steps is the harness's cost, not the library's
							}
							if c.Case(n) {
								judge(c, &c07Input{Unlock: pr[0], Lock: pr[1], Flags: fl, Mode: m, Dbg: d, Ctx: defaultCtx(), Src: "limits-with-debuggers"})
							}
						}
					}
				}
			}
		}
		c.Phase("random-bytes")
		N := uint64(400000)
		if c.Thorough {
			N = 12000000
		}
		for i := uint64(0); i < N; i++ {
			if !c.Case(i) {
				continue
			}
			r := c.Rand(i)
			u, l := r.Bytes(r.Intn(81)), r.Bytes(r.Intn(81))
			if i%20000 == 7 {
				l = r.Bytes(prng.Pick(r, []int{9999, 10000, 10001}))
				for k := range l {
					l[k] = prng.Pick(r, []byte{0x61, 0x51, 0x75, 0x00, 0x76})
				}
			}
			judge(c, &c07Input{Unlock: u, Lock: l, Flags: c07Flags(r, i), Mode: modeOf(r), Dbg: dbgOf(r, len(u)+len(l)), Ctx: randCtx(r), Src: "random-bytes"})
		}
		c.Phase("vector-truncations")
		n = 0
		for _, v := range vs {
			full := append(append([]byte{}, v.Unlock...), v.Lock...)
			if len(full) > 300 && !c.Thorough {
				continue
			}
			for cut := 0; cut <= len(full); cut++ {
				n++
				if !c.Case(n) {
					continue
				}
				r := c.Rand(n)
				var u, l []byte
				if cut <= len(v.Unlock) {
					u, l = v.Unlock[:cut], v.Lock
					if r.Chance(1, 2) {
						u, l = v.Unlock, v.Lock[:min(cut, len(v.Lock))]
					}
				} else {
					u, l = v.Unlock, v.Lock[:cut-len(v.Unlock)]
				}
				fl := libFlagsOfVector(v.Flags)
				if r.Chance(1, 4) {
					fl = c07Flags(r, n)
				}
				judge(c, &c07Input{Unlock: u, Lock: l, Flags: fl, Mode: modeOf(r), Dbg: dbgOf(r, len(full)), Src: "vector-truncation",
					Ctx: progCtx{HasTx: true, Version: 1, Sequence: 0xffffffff, Sats: v.Amount}})
			}
		}
		c.Phase("vector-mutants")
		per := 8
		if c.Thorough {
			per = 200
		}
		n = 0
		for _, v := range vs {
			for k := 0; k < per; k++ {
				n++
				if !c.Case(n) {
					continue
				}
				r := c.Rand(n)
				u, l := append([]byte{}, v.Unlock...), append([]byte{}, v.Lock...)
				for j := 1 + r.Intn(3); j > 0; j-- {
					if r.Chance(1, 3) {
						u = gen.Mutate(r, u)
					} else {
						l = gen.Mutate(r, l)
					}
				}
				fl := libFlagsOfVector(v.Flags)
				if r.Chance(1, 3) {
					fl = c07Flags(r, n)
				}
				judge(c, &c07Input{Unlock: u, Lock: l, Flags: fl, Mode: modeOf(r), Dbg: dbgOf(r, len(u)+len(l)), Src: "vector-mutant", Ctx: randCtx(r)})
			}
		}
		c.Phase("structured")
		N = 60000
		if c.Thorough {
			N = 3000000
		}
		for i := uint64(0); i < N; i++ {
			if !c.Case(i) {
				continue
			}
			r := c.Rand(i)
			fl := c07Flags(r, i)
			u, l := gen.RandProgram(r, fl&uint32(scriptflag.UTXOAfterGenesis) != 0, 4+r.Intn(50))
			if r.Chance(1, 10) { // sprinkle signature opcodes, which the structured generator never emits
				pos := r.Intn(len(l) + 1)
				l = append(l[:pos:pos], append([]byte{byte(0xac + r.Intn(4))}, l[pos:]...)...)
			}
			judge(c, &c07Input{Unlock: u, Lock: l, Flags: fl, Mode: modeOf(r), Dbg: dbgOf(r, len(u)+len(l)), Src: "structured", Ctx: randCtx(r)})
		}
		c.Phase("sigop-combos") // short programs over a small alphabet around signature opcodes, code separators, OP_RETURN and conditionals
		{
			pubk := gen.Push(append([]byte{0x02}, bytesOf(0x11, 32)...))
			derLike := append([]byte{0x30, 0x06, 0x02, 0x01, 0x01, 0x02, 0x01, 0x01}, 0x41)
			ua := [][]byte{{0x00}, {0x51}, gen.Push(derLike), gen.Push([]byte{0x43}), gen.Push([]byte{0xc3}), gen.Push([]byte{0x01}), pubk, {0xab}, {0x6a}, {0x63}, {0x67}, {0x68}, {0x61}, {0x76}, gen.Push([]byte{0x01, 0x02, 0x01}), gen.Push(c07KeyG)}
			la := [][]byte{pubk, {0xac}, {0xad}, {0xae}, {0xaf}, {0x51}, {0x52}, {0x00}, {0xab}, {0x91}, {0x6a}, {0x63}, {0x68}, {0x76}, {0x75}, gen.Push(c07KeyG), gen.Push(c07Key2G)}
			N3 := uint64(60000)
			if c.Thorough {
				N3 = 2000000
			}
			for i := uint64(0); i < N3; i++ {
				if !c.Case(i) {
					continue
				}
				r := c.Rand(i)
				var u, l []byte
				if i%2 == 0 {
					for k := r.Intn(6); k > 0; k-- {
						u = append(u, prng.Pick(r, ua)...)
					}
					for k := 1 + r.Intn(5); k > 0; k-- {
						l = append(l, prng.Pick(r, la)...)
					}
				} else { // pushes, an executed separator somewhere, a top-level OP_RETURN at the end; a very short locking script
					pushes := ua[:7]
					for k := r.Intn(4); k > 0; k-- {
						u = append(u, prng.Pick(r, pushes)...)
					}
					if r.Chance(2, 3) {
						u = append(u, 0xab)
					}
					for k := r.Intn(3); k > 0; k-- {
						u = append(u, prng.Pick(r, pushes)...)
					}
					if r.Chance(2, 3) {
						u = append(u, 0x6a)
					}
					for k := 1 + r.Intn(3); k > 0; k-- {
						l = append(l, prng.Pick(r, la[:10])...)
					}
				}
				fl := prng.Pick(r, []uint32{0, uint32(scriptflag.UTXOAfterGenesis), uint32(scriptflag.UTXOAfterGenesis | scriptflag.EnableSighashForkID),
					uint32(scriptflag.VerifyStrictEncoding), uint32(scriptflag.VerifyDERSignatures | scriptflag.UTXOAfterGenesis), uint32(scriptflag.VerifyNullFail | scriptflag.StrictMultiSig)})
				if r.Chance(1, 8) {
					fl = c07Flags(r, i)
				}
				judge(c, &c07Input{Unlock: u, Lock: l, Flags: fl, Mode: "tx", Dbg: dbgOf(r, 10), Ctx: randCtx(r), Src: "sigop-combos"})
			}
		}
		c.Phase("extreme-length-claims") // push headers whose claim sits on the edge of the integer types, in either script, executed or skipped
		n = 0
		for _, h := range [][]byte{{0x4c, 0xff}, {0x4d, 0xff, 0xff}, {0x4e, 0xff, 0xff, 0xff, 0xff}, {0x4e, 0xfe, 0xff, 0xff, 0xff}, {0x4e, 0xfd, 0xff, 0xff, 0xff}, {0x4e, 0xfc, 0xff, 0xff, 0xff},
			{0x4e, 0xfb, 0xff, 0xff, 0xff}, {0x4e, 0xfa, 0xff, 0xff, 0xff}, {0x4e, 0xff, 0xff, 0xff, 0x7f}, {0x4e, 0x00, 0x00, 0x00, 0x80}, {0x4e, 0xfb, 0xff, 0xff, 0x7f}} {
			for _, pre := range [][]byte{{}, {0x51}, {0x00, 0x63}, {0x51, 0x6a}} {
				for tail := 0; tail <= 6; tail += 3 {
					for _, fl := range []uint32{0, uint32(scriptflag.UTXOAfterGenesis), uint32(scriptflag.VerifyMinimalData | scriptflag.VerifySigPushOnly)} {
						for pos := 0; pos < 2; pos++ {
							n++
							if !c.Case(n) {
								continue
							}
							s := append(append(append([]byte{}, pre...), h...), bytesOf(0x51, tail)...)
							in := &c07Input{Unlock: []byte{0x51}, Lock: s, Flags: fl, Mode: []string{"tx", "scripts-only"}[int(n)%2], Dbg: []string{"none", "recording"}[int(n/2)%2], Ctx: defaultCtx(), Src: "extreme-length-claim"}
							if pos == 1 {
								in.Unlock, in.Lock = s, []byte{0x51}
							}
							judge(c, in)
						}
					}
				}
			}
		}
		c.Phase("hash-type-sweep") // all 256 hash type bytes on a well-formed signature x every (inputs, outputs, checked index) shape x flag sets x CHECKSIG / 1-of-1 CHECKMULTISIG
		{
			pk := c07KeyG
			der := []byte{0x30, 0x06, 0x02, 0x01, 0x01, 0x02, 0x01, 0x01}
			flagSets := []uint32{0, uint32(scriptflag.UTXOAfterGenesis), uint32(scriptflag.VerifyDERSignatures), uint32(scriptflag.VerifyStrictEncoding),
				uint32(scriptflag.UTXOAfterGenesis | scriptflag.EnableSighashForkID), uint32(scriptflag.VerifyNullFail)}
			n = 0
			for ht := 0; ht < 256; ht++ {
				for shape := uint64(0); shape < 27; shape++ { // Sats%3 outputs, 1+Sats/3%3 inputs, index Sats/9 % inputs
					for fi, fl := range flagSets {
						for form := 0; form < 2; form++ {
							n++
							if !c.Case(n) {
								continue
							}
							sig := gen.Push(append(append([]byte{}, der...), byte(ht)))
							var u, l []byte
							if form == 0 {
								u = sig
								l = append(gen.Push(pk), 0xac, 0x91)
							} else {
								u = append([]byte{0x00}, sig...)
								l = append(append([]byte{0x51}, gen.Push(pk)...), 0x51, 0xae, 0x91)
								if ht%2 == 1 { // 1-of-2
									l = append(append(append([]byte{0x51}, gen.Push(pk)...), gen.Push(pk)...), 0x52, 0xae, 0x91)
								}
							}
							// the locking script may go on behind the check: a top-level OP_RETURN and a few raw bytes (part of the script code)
							l = append(l, [][]byte{nil, {0x6a, 0x01}, {0x6a, 0x4b}, {0x6a, 0x05, 0x01}, {0x6a}, {0x6a, 0x42, 0x43}}[(ht+int(shape)+fi)%6]...)
							judge(c, &c07Input{Unlock: u, Lock: l, Flags: fl, Mode: "tx", Dbg: []string{"none", "recording"}[(ht+fi)%2],
								Ctx: progCtx{HasTx: true, Version: 1, Sequence: 0xffffffff, Sats: shape}, Src: "hash-type-sweep"})
						}
					}
				}
			}
		}
		c.Phase("multisig-shapes") // CHECKMULTISIG without a signature to remove, behind code separators in taken / untaken branches, followed by other opcodes or a top-level OP_RETURN with raw bytes
		{
			n = 0
			pk := gen.Push(c07KeyG)
			forkSig := gen.Push(append([]byte{0x30, 0x06, 0x02, 0x01, 0x01, 0x02, 0x01, 0x01}, 0x41))
			prefixes := [][]byte{nil, {0x00, 0x63, 0xab, 0x68}, {0x51, 0x63, 0xab, 0x68}, {0xab}, {0x00, 0x63, 0xab, 0x67, 0x68}, {0x61, 0xab, 0x61}}
			type ms struct{ u, l []byte }
			multis := []ms{
				{[]byte{0x51}, []byte{0x00, 0x00, 0x00, 0xae}},                                      // 0-of-0 (unlock leaves a spare item)
				{[]byte{0x00}, append(append([]byte{0x00}, pk...), 0x51, 0xae)},                     // 0-of-1
				{[]byte{0x00, 0x00}, append(append([]byte{0x51}, pk...), 0x51, 0xae)},               // 1-of-1, empty signature
				{append([]byte{0x00}, forkSig...), append(append([]byte{0x51}, pk...), 0x51, 0xae)}, // 1-of-1, FORKID-typed signature
				{[]byte{0x00, 0x00}, append(append(append([]byte{0x51}, pk...), pk...), 0x52, 0xae)},
				{[]byte{0x00}, append(append([]byte{0x00}, pk...), 0x51, 0xaf, 0x51)}, // CHECKMULTISIGVERIFY
				{append([]byte{0x00}, forkSig...), append(append([]byte{0x51}, pk...), 0x51, 0xaf, 0x51)},
				{append([]byte{0x00}, gen.Push(append([]byte{0x30, 0x06, 0x02, 0x01, 0x01, 0x02, 0x01, 0x01}, 0x01))...), append(append(append([]byte{0x51}, pk...), gen.Push(c07Key2G)...), 0x52, 0xaf, 0x51)},
				{gen.Push(append([]byte{0x30, 0x06, 0x02, 0x01, 0x01, 0x02, 0x01, 0x01}, 0x01)), append(append([]byte{}, pk...), 0xad, 0x51)}, // CHECKSIGVERIFY
			}
			tails := [][]byte{nil, {0x6a}, {0x6a, 0xff}, {0x6a, 0x01, 0x02}, {0x51}, {0x91}, {0xab, 0x51}, {0x75, 0x51, 0x6a, 0x42},
				{0x6a, 0xab}, {0x6a, 0xab, 0xab, 0xab}, {0x6a, 0x00, 0xab}, {0x6a, 0xab, 0x00}} // behind a top-level OP_RETURN: nothing but bytes with the value of OP_CODESEPARATOR
			flagSets := []uint32{0, uint32(scriptflag.UTXOAfterGenesis), uint32(scriptflag.UTXOAfterGenesis | scriptflag.EnableSighashForkID), uint32(scriptflag.VerifyNullFail | scriptflag.StrictMultiSig)}
			for _, pre := range prefixes {
				for _, m := range multis {
					for _, tl := range tails {
						for _, fl := range flagSets {
							n++
							if !c.Case(n) {
								continue
							}
							l := append(append(append([]byte{}, pre...), m.l...), tl...)
							judge(c, &c07Input{Unlock: m.u, Lock: l, Flags: fl, Mode: c07Modes[int(n/2)%len(c07Modes)], Dbg: []string{"none", "recording"}[n%2], Ctx: defaultCtx(), Src: "multisig-shapes"})
						}
					}
				}
			}
		}
		c.Phase("multisig-counts") // m-of-n with m and n on both sides of every limit a handler might have in mind (16, 20, 21, 32, 64; thorough: 255, 256, 1000), keys real / empty / junk, signatures empty / DER-shaped, both eras
		{
			n = 0
			sigDER := gen.Push([]byte{0x30, 0x06, 0x02, 0x01, 0x01, 0x02, 0x01, 0x01, 0x41})
			counts := []int{0, 1, 15, 16, 17, 19, 20, 21, 22, 31, 32, 33, 64}
			if c.Thorough {
				counts = append(counts, 255, 256, 1000)
			}
			for _, nk := range counts {
				for _, nsSel := range []int{0, 1, 2, 3} { // 0 signatures, 1, all but one, as many as keys
					ns := []int{0, 1, nk - 1, nk}[nsSel]
					if ns < 0 || ns > nk {
						continue
					}
					for variant := 0; variant < 6; variant++ {
						n++
						if !c.Case(n) {
							continue
						}
						if variant%2 == 1 && ns*nk > 2000 && !c.Thorough {
							continue // every DER-shaped signature is tried against every key: quadratic
						}
						u := []byte{0x00} // the dummy
						for i := 0; i < ns; i++ {
							if variant%2 == 0 {
								u = append(u, 0x00)
							} else {
								u = append(u, sigDER...)
							}
						}
						l := gen.PushNum(int64(ns))
						for i := 0; i < nk; i++ {
							switch variant % 3 {
							case 0:
								l = append(l, gen.Push(c07KeyG)...)
							case 1:
								l = append(l, 0x00)
							default:
								l = append(l, 0x02, byte(i), byte(i>>8))
							}
						}
						l = append(append(l, gen.PushNum(int64(nk))...), 0xae)
						for _, fl := range []uint32{0, uint32(scriptflag.UTXOAfterGenesis), uint32(scriptflag.UTXOAfterGenesis | scriptflag.EnableSighashForkID), uint32(scriptflag.VerifyNullFail | scriptflag.StrictMultiSig | scriptflag.VerifyStrictEncoding)} {
							for _, mode := range []string{"tx", "tx+scripts", "scripts-only"} {
								judge(c, &c07Input{Unlock: u, Lock: l, Flags: fl, Mode: mode, Dbg: []string{"none", "recording"}[n%2], Ctx: defaultCtx(), Src: "multisig-counts"})
							}
						}
					}
				}
			}
		}
		c.Phase("wide-pushes-in-script-code") // keys and data pushed with OP_PUSHDATA1/2/4 in front of an executed signature check (the script code is rebuilt from the parsed form)
		n = 0
		{
			sig := func(ht byte) []byte { return gen.Push([]byte{0x30, 0x06, 0x02, 0x01, 0x01, 0x02, 0x01, 0x01, ht}) }
			wide := func(form byte, d []byte) []byte { e, _ := refcodec.PushWith(form, d); return e }
			blob := bytesOf(0x37, 300)
			for _, form := range []byte{0x4c, 0x4d, 0x4e} {
				for _, ht := range []byte{0x01, 0x41} {
					progs := [][2][]byte{
						{sig(ht), append(wide(form, c07KeyG), 0xac)},
						{sig(ht), append(append(append(append(wide(form, blob[:200]), 0x75), wide(form, blob[:250])...), 0x75), append(gen.Push(c07KeyG), 0xac)...)},
						{append([]byte{0x00}, sig(ht)...), append(append(append([]byte{0x51}, wide(form, c07KeyG)...), wide(form, c07Key2G)...), 0x52, 0xae)},
						{append(sig(ht), wide(form, c07KeyG)...), []byte{0xac}},
						{sig(ht), append(append(wide(form, c07KeyG), 0xad), append(wide(form, []byte{1}), 0x69, 0x51)...)},
					}
					for _, pg := range progs {
						for _, m := range []string{"tx", "tx+scripts"} {
							for _, fl := range []uint32{0, uint32(scriptflag.EnableSighashForkID | scriptflag.UTXOAfterGenesis), uint32(scriptflag.VerifyMinimalData)} {
								n++
								if c.Case(n) {
									judge(c, &c07Input{Unlock: pg[0], Lock: pg[1], Flags: fl, Mode: m, Dbg: "none", Ctx: defaultCtx(), Src: "wide-pushes-in-script-code"})
								}
							}
						}
					}
				}
			}
		}
		c.Phase("same-tx-edited-between-executions") // one transaction object, edited by its owner between executions on one engine
		{
			ns := uint64(400)
			if c.Thorough {
				ns = 20000
			}
			for i := uint64(0); i < ns; i++ {
				if c.Case(i) {
					fl := []uint32{0, uint32(scriptflag.EnableSighashForkID | scriptflag.UTXOAfterGenesis), uint32(scriptflag.VerifyStrictEncoding)}[i%3]
					seqk(c, &c07Seq{Seed: c.Rand(i).Uint64(), Steps: 6, Flags: fl})
				}
			}
		}
		c.Phase("large-scripts-in-context") // signature opcodes reached while the transaction of the context holds scripts beyond the readers' 16 KiB chunk
		n = 0
		{
			sig := func(ht byte) []byte { return gen.Push([]byte{0x30, 0x06, 0x02, 0x01, 0x01, 0x02, 0x01, 0x01, ht}) }
			for _, size := range []int{252, 253, 254, 16384, 16385, 20000, 32768, 40000, 65535, 65536, 65537, 70000} { // (incl. the values on both sides of each length-prefix step: the context is cloned through the wire format)
				for _, ht := range []byte{0x01, 0x41, 0x03, 0xc2} {
					progs := [][2][]byte{
						{sig(ht), append(gen.Push(c07KeyG), 0xac)},
						{append([]byte{0x00}, sig(ht)...), append(append(append([]byte{0x51}, gen.Push(c07KeyG)...), gen.Push(c07Key2G)...), 0x52, 0xae)},
						{append(sig(ht), gen.Push(c07Key2G)...), []byte{0x76, 0xa9, 0x14, 1, 2, 3, 4, 5, 6, 7, 8, 9, 10, 11, 12, 13, 14, 15, 16, 17, 18, 19, 20, 0x88, 0xad, 0x51}},
					}
					for pi, pg := range progs {
						for _, m := range []string{"tx", "tx+scripts", "prevout-nil-script"} {
							for _, fl := range []uint32{0, uint32(scriptflag.EnableSighashForkID | scriptflag.UTXOAfterGenesis)} {
								n++
								if !c.Case(n) {
									continue
								}
								cx := defaultCtx()
								cx.Sats = uint64(3*pi + int(n%27)) // 1-3 inputs, 0-2 further outputs, any checked position
								judge(c, &c07Input{Unlock: pg[0], Lock: pg[1], Flags: fl, Mode: m, Dbg: "none", Ctx: cx, Src: "large-scripts-in-context", BigScript: size})
							}
						}
					}
				}
			}
		}
		c.Phase("der-variants") // structurally malformed signatures: every component missing, shortened or mis-sized, with the outer length kept consistent so that the deeper checks are reached
		n = 0
		pub := append([]byte{0x02}, bytesOf(0x11, 32)...)
		for _, lenR := range []int{0, 1, 2, 31, 32, 33} {
			for _, lenS := range []int{0, 1, 2, 32, 33} {
				full := append([]byte{0x30, 0, 0x02, byte(lenR)}, bytesOf(0x21, lenR)...)
				full = append(full, 0x02, byte(lenS))
				full = append(full, bytesOf(0x31, lenS)...)
				for cut := 2; cut <= len(full); cut++ {
					for fix := 0; fix < 3; fix++ {
						for _, fl := range []uint32{uint32(scriptflag.VerifyDERSignatures), uint32(scriptflag.VerifyStrictEncoding), uint32(scriptflag.VerifyLowS | scriptflag.UTXOAfterGenesis), uint32(scriptflag.EnableSighashForkID | scriptflag.UTXOAfterGenesis), 0} {
							n++
							if !c.Case(n) {
								continue
							}
							body := append([]byte{}, full[:cut]...)
							switch fix {
							case 0:
								body[1] = byte(len(body) - 2) // consistent outer length
							case 1:
								body[1] = byte(len(full) - 2) // the length the complete signature would have
							case 2:
								body[1] = byte(len(body) - 1)
							}
							sig := append(body, 0x41)
							u := gen.Push(sig)
							l := append(gen.Push([][]byte{pub, c07KeyG}[n%2]), 0xac)
							if n%3 == 0 { // multisig: 1-of-1, 1-of-2, 1-of-3, 2-of-3 (the malformed signature is then tried against several keys)
								nk, m := []int{1, 2, 3, 3}[(n/3)%4], []int{1, 1, 1, 2}[(n/3)%4]
								if m == 2 {
									u = append(u, gen.Push(append([]byte{0x30, 0x06, 0x02, 0x01, 0x01, 0x02, 0x01, 0x01}, 0x41))...)
								}
								u = append([]byte{0x00}, u...)
								l = []byte{byte(0x50 + m)}
								for k := 0; k < nk; k++ {
									pk := [][]byte{c07KeyG, c07Key2G, pub}[(int(n/12)+k)%3]
									l = append(l, gen.Push(pk)...)
								}
								l = append(l, byte(0x50+nk), 0xae)
							}
							judge(c, &c07Input{Unlock: u, Lock: l, Flags: fl, Mode: "tx", Dbg: "none", Ctx: defaultCtx(), Src: "der-variants"})
						}
					}
				}
			}
		}
		c.Phase("enumerate")
		n = 0
		ops := gen.EdgeOperands
		for opc := 0x4f; opc < 256; opc++ {
			for ai := -1; ai < len(ops); ai++ {
				for bi := -1; bi < len(ops); bi++ {
					if ai < 0 && bi >= 0 {
						continue
					}
					n++
					if !c.Case(n) {
						continue
					}
					r := c.Rand(n)
					var u []byte
					if ai >= 0 {
						u = append(u, gen.Push(ops[ai])...)
					}
					if bi >= 0 {
						u = append(u, gen.Push(ops[bi])...)
					}
					if gen.IsSigOp(byte(opc)) || opc == 0xa5 {
						u = append(gen.Push(ops[r.Intn(len(ops))]), u...)
					}
					fl := uint32(0)
					if r.Chance(1, 2) {
						fl = uint32(scriptflag.UTXOAfterGenesis)
					}
					if r.Chance(1, 4) {
						fl |= uint32(r.Intn(1 << 16))
					}
					judge(c, &c07Input{Unlock: u, Lock: []byte{byte(opc)}, Flags: fl, Mode: prng.Pick(r, []string{"tx", "tx", "scripts-only"}), Dbg: dbgOf(r, 10), Src: "enumerate", Ctx: randCtx(r)})
				}
			}
		}
	}
	p.Floor = func(a *mon.Agg) string {
		for _, m := range c07Modes {
			for _, d := range []string{"none", "recording", "default", "accessors"} {
				if a.Cov["mode:"+m+":dbg:"+d]+a.Cov["C07:panicked:"+m] == 0 {
					return "context mode " + m + " with debugger " + d + " never exercised"
				}
			}
		}
		if a.Cov["result:success"] == 0 {
			return "no successful execution observed"
		}
		kinds := 0
		for k := range a.Cov {
			if len(k) > 7 && k[:7] == "result:" {
				kinds++
			}
		}
		if kinds < 20 {
			return fmt.Sprintf("only %d distinct result codes reached", kinds)
		}
		return ""
	}
	mon.Register(p)
}

// two public keys that are points of the curve (G and 2G): a key that does not
// parse ends a signature check before the signature is looked at
var c07KeyG = []byte{0x02, 0x79, 0xbe, 0x66, 0x7e, 0xf9, 0xdc, 0xbb, 0xac, 0x55, 0xa0, 0x62, 0x95, 0xce, 0x87, 0x0b, 0x07, 0x02, 0x9b, 0xfc, 0xdb, 0x2d, 0xce, 0x28, 0xd9, 0x59, 0xf2, 0x81, 0x5b, 0x16, 0xf8, 0x17, 0x98}
var c07Key2G = []byte{0x02, 0xc6, 0x04, 0x7f, 0x94, 0x41, 0xed, 0x7d, 0x6d, 0x30, 0x45, 0x40, 0x6e, 0x95, 0xc0, 0x7c, 0xd8, 0x5c, 0x77, 0x8e, 0x4b, 0x8c, 0xef, 0x3c, 0xa7, 0xab, 0xac, 0x09, 0xb9, 0x5c, 0x70, 0x9e, 0xe5}

func bytesOf(b byte, n int) []byte {
	o := make([]byte, n)
	for i := range o {
		o[i] = b
	}
	return o
}

func min(a, b int) int {
	if a < b {
		return a
	}
	return b
}
