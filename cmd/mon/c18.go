package main

import (
	"bytes"

	"github.com/libsv/go-bk/bec"
	"verif/internal/refsighash"

	"crypto/sha1"
	"encoding/json"
	"fmt"
	"github.com/libsv/go-bk/crypto"
	"os"
	"runtime"
	"sort"
	"strconv"
	"strings"
	"sync"
	"sync/atomic"
	"time"
	"verif/internal/gen"
	"verif/internal/vectors"

	"github.com/anishathalye/porcupine"
	"github.com/libsv/go-bt/v2"
	"github.com/libsv/go-bt/v2/bscript"
	"github.com/libsv/go-bt/v2/bscript/interpreter"
	"github.com/libsv/go-bt/v2/bscript/interpreter/scriptflag"

	"verif/internal/mon"
	"verif/internal/prng"
)

// C18 — thread-safe types are race-free and concurrent validation equals sequential.
//
// This monitor is built with -race (see ./check). The race detector's reports
// are collected from its log files by the parent; here we record histories at
// the client boundary and judge them: every value read was written by someone
// (unique ids, redundant fields), and every per-key history is linearizable
// against a register (porcupine).

type c18Hist struct {
	N          uint64 `json:"history"`
	Goroutines int    `json:"goroutines"`
	OpsEach    int    `json:"ops_each"`
	Procs      int    `json:"gomaxprocs"`
	Mode       string `json:"mode"` // feequote | feequote-raw | engine
}

type c18Op struct {
	proc      int
	kind      string // operation type (for coverage)
	key       string
	write     bool
	val       int64 // value written, or value read
	call, ret int64
}

const (
	valAbsent  = int64(-1)
	valDefault = int64(0)
)

// untypedBit marks ids whose fee is stored WITHOUT its FeeType field (the map
// key carries the type; the field is optional in the API).
const untypedBit = 0x80000

// otherTypeBit marks ids whose fee carries the OTHER fee type in its FeeType
// field (a copy of the standard fee filed under data, say): the argument of
// AddQuote / UpdateMinerFees names the fee, not the label inside it.
const otherTypeBit = 0x40000

// typeFieldAsWritten: a fee read through Fee() carries the FeeType field its
// writer stored (empty for untyped ids), not something put there by a reader.
func typeFieldAsWritten(f *bt.Fee, id int64) bool {
	if f == nil || id == valAbsent || id == valDefault {
		return true
	}
	return (id&untypedBit != 0) == (f.FeeType == "")
}

func mkFee(ft bt.FeeType, id int64) *bt.Fee {
	if id&untypedBit != 0 {
		ft = ""
	} else if id&otherTypeBit != 0 {
		ft = map[bt.FeeType]bt.FeeType{bt.FeeTypeStandard: bt.FeeTypeData, bt.FeeTypeData: bt.FeeTypeStandard}[ft]
	}
	return &bt.Fee{FeeType: ft, MiningFee: bt.FeeUnit{Satoshis: int(id & 0xfffff), Bytes: int(id>>20) + 1},
		RelayFee: bt.FeeUnit{Satoshis: int(id&0xfffff) ^ 0x5a5a5, Bytes: int(id>>20) + 7}}
}

// feeID recovers the id of a fee value; ok=false means the fields are not
// mutually consistent (a torn or never-written value).
func feeID(f *bt.Fee) (int64, bool) {
	if f == nil {
		return valAbsent, true
	}
	if f.MiningFee == (bt.FeeUnit{Satoshis: 5, Bytes: 100}) && f.RelayFee == (bt.FeeUnit{Satoshis: 5, Bytes: 100}) {
		return valDefault, true
	}
	id := int64(f.MiningFee.Satoshis) | int64(f.MiningFee.Bytes-1)<<20
	if f.RelayFee.Satoshis != f.MiningFee.Satoshis^0x5a5a5 || f.RelayFee.Bytes != f.MiningFee.Bytes+6 || f.MiningFee.Bytes < 1 {
		return id, false
	}
	return id, true
}

// waitOrDeadlock waits for the workers of a history. Goroutines cannot be
// killed, so when they do not finish within a generous bound two goroutine
// dumps are taken 60 s apart: if the same worker goroutines sit in the same
// sync-primitive wait with identical stacks in both (no worker runnable, none
// gone, none new), no operation can have made progress for a minute although
// every history is milliseconds of work - a deadlock (operations that never
// return), reported with the dump. Anything else is inconclusive. Either way
// the child ends (the violation is already on disk for the parent).
func waitOrDeadlock(c *mon.Ctx, wg *sync.WaitGroup, what string) {
	done := make(chan struct{})
	go func() { wg.Wait(); close(done) }()
	select {
	case <-done:
		return
	case <-time.After(40 * time.Second):
	}
	// workers: goroutine id -> wait state + stack, without the wait duration
	snapshot := func() (map[string]string, bool, string) {
		buf := make([]byte, 4<<20)
		dump := string(buf[:runtime.Stack(buf, true)])
		m, allBlocked := map[string]string{}, true
		for _, g := range strings.Split(dump, "\n\n") {
			if !strings.Contains(g, "main.c18") || strings.Contains(g, "waitOrDeadlock") {
				continue
			}
			head, body, _ := strings.Cut(g, "\n")
			id, state, _ := strings.Cut(strings.TrimPrefix(head, "goroutine "), " ")
			state, _, _ = strings.Cut(strings.Trim(state, "[]:"), ",")
			if !strings.HasPrefix(state, "sync.") && state != "semacquire" {
				allBlocked = false
			}
			m[id] = state + "\n" + body
		}
		return m, allBlocked, dump
	}
	s1, b1, _ := snapshot()
	select {
	case <-done:
		return
	case <-time.After(60 * time.Second):
	}
	s2, b2, dump := snapshot()
	same := len(s1) == len(s2) && len(s1) > 0
	for id, g := range s1 {
		if s2[id] != g {
			same = false
		}
	}
	if same && b1 && b2 {
		if len(dump) > 6000 {
			dump = dump[:6000]
		}
		c.Violationf("C18:operations-never-return:"+what, "%d worker goroutines of a %s history sit in the same lock wait, with identical stacks, in two goroutine dumps taken 60 s apart, and no worker is runnable: deadlock\n%s", len(s1), what, dump)
	} else {
		c.Fault("a " + what + " history did not finish within 100 s, but its goroutines are not all blocked in locks (load?)")
	}
	c.Flush()
	os.Exit(3)
}

type c18Recorder struct {
	raw   bool
	clock atomic.Int64
	mu    sync.Mutex
	ops   []c18Op
	torn  []string
	// partialChecks: one-type documents stored and the other type asked for
	partialChecks int
}

// tick stamps a call or return from the one logical clock. In raw mode (see
// c18Hist.Mode) nothing is stamped or recorded: the monitor's own atomics and
// mutex would order the goroutines' operations (happens-before edges) and hide
// from the race detector every race between operations that do not overlap in
// real time.
func (r *c18Recorder) tick() int64 {
	if r.raw {
		return 0
	}
	return r.clock.Add(1)
}

func (r *c18Recorder) add(ops ...c18Op) {
	if r.raw {
		return
	}
	r.mu.Lock()
	r.ops = append(r.ops, ops...)
	r.mu.Unlock()
}

func yield(r *prng.R) {
	switch r.Intn(6) {
	case 0:
		runtime.Gosched()
	case 1:
		for i := r.Intn(200); i > 0; i-- {
			_ = i * i
		}
	case 2:
		runtime.Gosched()
		runtime.Gosched()
	}
}

var registerModel = porcupine.Model{
	Partition: func(history []porcupine.Operation) [][]porcupine.Operation {
		m := map[string][]porcupine.Operation{}
		var keys []string
		for _, o := range history {
			k := o.Input.(c18Op).key
			if _, ok := m[k]; !ok {
				keys = append(keys, k)
			}
			m[k] = append(m[k], o)
		}
		sort.Strings(keys)
		out := make([][]porcupine.Operation, 0, len(keys))
		for _, k := range keys {
			out = append(out, m[k])
		}
		return out
	},
	Init: func() interface{} { return int64(-2) }, // replaced per key by an initial write at time 0
	Step: func(state, input, output interface{}) (bool, interface{}) {
		in := input.(c18Op)
		if in.write {
			return true, in.val
		}
		return output.(int64) == state.(int64), state
	},
	DescribeOperation: func(input, output interface{}) string {
		in := input.(c18Op)
		if in.write {
			return fmt.Sprintf("%s write(%s, %d)", in.kind, in.key, in.val)
		}
		return fmt.Sprintf("%s read(%s) -> %d", in.kind, in.key, output.(int64))
	},
}

// zoneCheck decides linearizability of per-key register histories whose written
// values are unique per key (Gibbons & Korach): group each write with the reads
// that returned its value (a cluster); its zone is [min return, max call]. The
// history is linearizable iff no read returns before its write is called, no
// two forward zones (min return < max call) overlap, and no backward zone lies
// inside a forward zone.
func zoneCheck(ops []c18Op) string {
	type cl struct {
		wcall, minRet, maxCall int64
		hasW                   bool
		val                    int64
	}
	byKey := map[string]map[int64]*cl{}
	for _, o := range ops {
		call, ret := o.call, o.ret
		if o.proc < 0 {
			call, ret = -1, 0
		}
		m := byKey[o.key]
		if m == nil {
			m = map[int64]*cl{}
			byKey[o.key] = m
		}
		c := m[o.val]
		if c == nil {
			c = &cl{minRet: 1 << 62, maxCall: -2, val: o.val}
			m[o.val] = c
		}
		if o.write {
			if c.hasW {
				return fmt.Sprintf("value %d written twice on %s (harness error)", o.val, o.key)
			}
			c.hasW, c.wcall = true, call
		}
		if ret < c.minRet {
			c.minRet = ret
		}
		if call > c.maxCall {
			c.maxCall = call
		}
	}
	for key, m := range byKey {
		var fw, bw []*cl
		for _, c := range m {
			if !c.hasW {
				return fmt.Sprintf("%s: value %d was read but never written", key, c.val)
			}
			if c.minRet < c.wcall {
				return fmt.Sprintf("%s: a read of value %d returned before the write of it was called", key, c.val)
			}
			if c.minRet < c.maxCall {
				fw = append(fw, c)
			} else {
				bw = append(bw, c)
			}
		}
		sort.Slice(fw, func(i, j int) bool { return fw[i].minRet < fw[j].minRet })
		for i := 1; i < len(fw); i++ {
			if fw[i].minRet < fw[i-1].maxCall {
				return fmt.Sprintf("%s: the forward zones of values %d and %d overlap (a read saw an overwritten value after a newer one was visible)", key, fw[i-1].val, fw[i].val)
			}
		}
		for _, b := range bw {
			for _, f := range fw {
				if f.minRet < b.maxCall && b.minRet < f.maxCall {
					return fmt.Sprintf("%s: the zone of value %d lies inside the forward zone of value %d", key, b.val, f.val)
				}
			}
		}
	}
	return ""
}

func c18FeeQuoteHistory(c *mon.Ctx, h *c18Hist) {
	prev := runtime.GOMAXPROCS(h.Procs)
	defer runtime.GOMAXPROCS(prev)
	c18ExpiryRange(c, h)
	rec := &c18Recorder{raw: h.Mode == "feequote-raw"}
	types := []bt.FeeType{bt.FeeTypeStandard, bt.FeeTypeData}
	// shared state: a FeeQuotes with two known miners, two miners added later, and two free-standing quotes
	fqs := bt.NewFeeQuotes("m0")
	fqs.AddMinerWithDefault("m1")
	free := []*bt.FeeQuote{bt.NewFeeQuote(), bt.NewFeeQuote()}
	// a quote that only ever receives documents naming the standard fee alone: once such a document
	// has been stored, no data fee is there to be read (nobody stores one)
	partial := bt.NewFeeQuote()
	expBase := int64(1_000_000_000)
	var init []c18Op
	initExp := map[string]int64{}
	for _, m := range []string{"m0", "m1"} {
		for _, t := range types {
			init = append(init, c18Op{proc: -1, kind: "init", key: "fee:" + m + ":" + string(t), write: true, val: valDefault})
		}
	}
	for _, m := range []string{"m2", "m3", "m4"} {
		for _, t := range types {
			init = append(init, c18Op{proc: -1, kind: "init", key: "fee:" + m + ":" + string(t), write: true, val: valAbsent})
		}
	}
	for i, q := range free {
		for _, t := range types {
			init = append(init, c18Op{proc: -1, kind: "init", key: fmt.Sprintf("fee:free%d:%s", i, t), write: true, val: valDefault})
		}
		q.UpdateExpiry(time.Unix(expBase, 0).UTC())
		initExp[fmt.Sprintf("exp:free%d", i)] = 0
		init = append(init, c18Op{proc: -1, kind: "init", key: fmt.Sprintf("exp:free%d", i), write: true, val: 0})
	}
	rec.add(init...)
	var wg sync.WaitGroup
	start := make(chan struct{})
	var notExpired atomic.Int64
	for g := 0; g < h.Goroutines; g++ {
		wg.Add(1)
		go func(g int) {
			defer wg.Done()
			r := prng.New(c.Seed^0xc18, "C18-g", h.N<<8|uint64(g))
			<-start
			ctr := int64(0)
			newID := func() int64 { ctr++; return int64(g+1)<<24 | ctr }
			held := map[string]*bt.FeeQuote{}
			var owned *bt.FeeQuote
			for k := 0; k < h.OpsEach; k++ {
				yield(r)
				op := r.Intn(17)
				t := prng.Pick(r, types)
				switch op {
				case 0, 1: // FeeQuote.Fee on a free quote
					i := r.Intn(2)
					call := rec.tick()
					f, err := free[i].Fee(t)
					ret := rec.tick()
					id, ok := feeID(f)
					if err != nil {
						id = valAbsent
					}
					if !ok || (err == nil && !typeFieldAsWritten(f, id)) {
						rec.mu.Lock()
						rec.torn = append(rec.torn, fmt.Sprintf("FeeQuote.Fee returned a value no writer stored (inconsistent fields, or a FeeType field the writer did not set): %+v", *f))
						rec.mu.Unlock()
					}
					rec.add(c18Op{proc: g, kind: "FeeQuote.Fee", key: fmt.Sprintf("fee:free%d:%s", i, t), val: id, call: call, ret: ret})
				case 2, 3: // FeeQuote.AddQuote (only on the first free quote: the second one is written by whole documents only, see MarshalJSON below)
					i := 0
					id := newID()
					switch r.Intn(4) {
					case 0, 1:
						id |= untypedBit
					case 2:
						id |= otherTypeBit
					}
					fee := mkFee(t, id)
					call := rec.tick()
					free[i].AddQuote(t, fee)
					ret := rec.tick()
					rec.add(c18Op{proc: g, kind: "FeeQuote.AddQuote", key: fmt.Sprintf("fee:free%d:%s", i, t), write: true, val: id, call: call, ret: ret})
				case 4: // Expiry
					i := r.Intn(2)
					call := rec.tick()
					e := free[i].Expiry()
					ret := rec.tick()
					rec.add(c18Op{proc: g, kind: "FeeQuote.Expiry", key: fmt.Sprintf("exp:free%d", i), val: e.Unix() - expBase, call: call, ret: ret})
				case 5: // UpdateExpiry
					i := r.Intn(2)
					id := newID()
					call := rec.tick()
					free[i].UpdateExpiry(time.Unix(expBase+id, 0).UTC())
					ret := rec.tick()
					rec.add(c18Op{proc: g, kind: "FeeQuote.UpdateExpiry", key: fmt.Sprintf("exp:free%d", i), write: true, val: id, call: call, ret: ret})
				case 6: // Expired (every instant written lies in the past)
					if !free[r.Intn(2)].Expired() {
						notExpired.Add(1)
					}
				case 7, 8: // json.Marshal of a free quote: a read of both fee types
					i := r.Intn(2)
					call := rec.tick()
					b, err := json.Marshal(free[i])
					ret := rec.tick()
					if err != nil {
						continue
					}
					var got map[bt.FeeType]*bt.Fee
					if json.Unmarshal(b, &got) != nil {
						rec.mu.Lock()
						rec.torn = append(rec.torn, "json.Marshal(FeeQuote) produced undecodable JSON: "+string(b))
						rec.mu.Unlock()
						continue
					}
					for _, tt := range types {
						id, ok := feeID(got[tt])
						if !ok {
							rec.mu.Lock()
							rec.torn = append(rec.torn, "json.Marshal(FeeQuote) shows inconsistent fee fields: "+string(b))
							rec.mu.Unlock()
						}
						rec.add(c18Op{proc: g, kind: "FeeQuote.MarshalJSON", key: fmt.Sprintf("fee:free%d:%s", i, tt), val: id, call: call, ret: ret})
					}
					if i == 1 { // written by whole documents only (data id = standard id + 1): a marshalled document is ONE of them
						sid, _ := feeID(got[bt.FeeTypeStandard])
						did, _ := feeID(got[bt.FeeTypeData])
						if !(sid == valDefault && did == valDefault) && did != sid+1 {
							rec.mu.Lock()
							rec.torn = append(rec.torn, fmt.Sprintf("json.Marshal(FeeQuote) shows the standard fee of one stored document (id %d) and the data fee of another (id %d): %s", sid, did, b))
							rec.mu.Unlock()
						}
					}
				case 9: // json.Unmarshal into a free quote: a write of both fee types
					i := r.Intn(2)
					if r.Chance(1, 4) { // a document the decoder must refuse (unknown fee type): nothing of it may ever be read
						x, y, z := newID(), newID(), newID()
						doc, _ := json.Marshal(map[string]*bt.Fee{"standard": mkFee(bt.FeeTypeStandard, x), "data": mkFee(bt.FeeTypeData, y), "bogus": mkFee("", z)})
						if err := json.Unmarshal(doc, free[i]); err == nil {
							rec.mu.Lock()
							rec.torn = append(rec.torn, "json.Unmarshal(FeeQuote) accepted a document with the unknown fee type \"bogus\"")
							rec.mu.Unlock()
						}
						continue
					}
					a, b2 := newID(), newID()
					doc, _ := json.Marshal(map[bt.FeeType]*bt.Fee{bt.FeeTypeStandard: mkFee(bt.FeeTypeStandard, a), bt.FeeTypeData: mkFee(bt.FeeTypeData, b2)})
					call := rec.tick()
					err := json.Unmarshal(doc, free[i])
					ret := rec.tick()
					if err == nil {
						rec.add(c18Op{proc: g, kind: "FeeQuote.UnmarshalJSON", key: fmt.Sprintf("fee:free%d:%s", i, bt.FeeTypeStandard), write: true, val: a, call: call, ret: ret},
							c18Op{proc: g, kind: "FeeQuote.UnmarshalJSON", key: fmt.Sprintf("fee:free%d:%s", i, bt.FeeTypeData), write: true, val: b2, call: call, ret: ret})
					}
				case 16: // a document with one fee type only, then the other type is asked for
					x := newID()
					doc, _ := json.Marshal(map[bt.FeeType]*bt.Fee{bt.FeeTypeStandard: mkFee(bt.FeeTypeStandard, x)})
					if err := json.Unmarshal(doc, partial); err == nil {
						f, ferr := partial.Fee(bt.FeeTypeData)
						b, _ := json.Marshal(partial)
						rec.mu.Lock()
						rec.partialChecks++
						if ferr == nil {
							rec.torn = append(rec.torn, fmt.Sprintf("FeeQuote.Fee(data) returned %+v from a quote into which only documents without a data fee were ever unmarshalled: a value no writer stored", *f))
						}
						if bytes.Contains(b, []byte(`"data"`)) {
							rec.torn = append(rec.torn, fmt.Sprintf("json.Marshal(FeeQuote) shows a data fee on a quote into which only documents without one were ever unmarshalled: %s", b))
						}
						rec.mu.Unlock()
					}
				case 10, 11: // FeeQuotes.Fee
					m := prng.Pick(r, []string{"m0", "m1", "m2", "m3", "m4", "m4"})
					call := rec.tick()
					f, err := fqs.Fee(m, t)
					ret := rec.tick()
					id, ok := feeID(f)
					if err != nil {
						id = valAbsent
					}
					if !ok || (err == nil && !typeFieldAsWritten(f, id)) {
						rec.mu.Lock()
						rec.torn = append(rec.torn, fmt.Sprintf("FeeQuotes.Fee returned a value no writer stored (inconsistent fields, or a FeeType field the writer did not set): %+v", *f))
						rec.mu.Unlock()
					}
					rec.add(c18Op{proc: g, kind: "FeeQuotes.Fee", key: "fee:" + m + ":" + string(t), val: id, call: call, ret: ret})
				case 12, 13: // FeeQuotes.UpdateMinerFees (known miners only, so that it is a plain write; "m4" once it has been added)
					m := prng.Pick(r, []string{"m0", "m1", "m4", "m4"})
					id := newID()
					switch r.Intn(4) {
					case 0, 1:
						id |= untypedBit
					case 2:
						id |= otherTypeBit
					}
					call := rec.tick()
					_, err := fqs.UpdateMinerFees(m, t, mkFee(t, id))
					ret := rec.tick()
					if err == nil {
						rec.add(c18Op{proc: g, kind: "FeeQuotes.UpdateMinerFees", key: "fee:" + m + ":" + string(t), write: true, val: id, call: call, ret: ret})
					}
				case 14: // FeeQuotes.Quote then Fee through the returned quote (known miners: the quote object is never replaced)
					if rec.raw && owned != nil && r.Chance(1, 2) {
						switch r.Intn(3) {
						case 0:
							owned.AddQuote(t, mkFee(t, newID()))
						case 1:
							owned.UpdateExpiry(time.Unix(expBase+int64(r.Intn(1000)), 0).UTC())
						default:
							_, _ = owned.Fee(t)
						}
						continue
					}
					if r.Chance(1, 6) { // look-ups that fail (a miner nobody ever added): an error path of a reader
						switch r.Intn(3) {
						case 0:
							_, _ = fqs.Quote("nobody")
						case 1:
							_, _ = fqs.Fee("nobody", t)
						default:
							_, _ = fqs.UpdateMinerFees("nobody", t, mkFee(t, valDefault))
						}
						continue
					}
					m := prng.Pick(r, []string{"m0", "m1"})
					var q *bt.FeeQuote
					var err error
					if rec.raw && held[m] != nil && r.Chance(2, 3) {
						// raw histories: a handle obtained earlier stays in use (while miners are re-added, see case 15)
						q = held[m]
						switch r.Intn(4) {
						case 0:
							_ = q.Expiry()
						case 1:
							_ = q.Expired()
						case 2:
							_, _ = json.Marshal(q)
						}
					} else {
						q, err = fqs.Quote(m)
						held[m] = q
					}
					if err != nil || q == nil {
						continue
					}
					call := rec.tick()
					f, err := q.Fee(t)
					ret := rec.tick()
					id, _ := feeID(f)
					if err != nil {
						id = valAbsent
					}
					rec.add(c18Op{proc: g, kind: "FeeQuotes.Quote+Fee", key: "fee:" + m + ":" + string(t), val: id, call: call, ret: ret})
				case 15: // the first goroutines add the two late miners exactly once
					if !rec.raw && r.Chance(1, 2) {
						// the miner "m4" is only ever reached through the collection (no handles): it is
						// REPLACED, again and again, by quotes whose two fees carry fresh unique values -
						// one write of both registers - while others update single fees and read
						a, b2 := newID(), newID()
						q := bt.NewFeeQuote().AddQuote(bt.FeeTypeStandard, mkFee(bt.FeeTypeStandard, a)).AddQuote(bt.FeeTypeData, mkFee(bt.FeeTypeData, b2))
						call := rec.tick()
						fqs.AddMiner("m4", q)
						ret := rec.tick()
						rec.add(c18Op{proc: g, kind: "FeeQuotes.AddMiner(replace)", key: "fee:m4:" + string(bt.FeeTypeStandard), write: true, val: a, call: call, ret: ret},
							c18Op{proc: g, kind: "FeeQuotes.AddMiner(replace)", key: "fee:m4:" + string(bt.FeeTypeData), write: true, val: b2, call: call, ret: ret})
						continue
					}
					if rec.raw && r.Chance(1, 2) {
						// raw histories only (no register semantics judged): a known miner is added again
						// while handles to its earlier quote are still being read
						m := prng.Pick(r, []string{"m0", "m1"})
						switch r.Intn(3) {
						case 0:
							fqs.AddMinerWithDefault(m)
						case 1:
							fqs.AddMiner(m, bt.NewFeeQuote())
						default:
							// the caller keeps its own handle to the quote it files and goes on updating
							// it through that handle, while others read through the collection
							q := bt.NewFeeQuote()
							fqs.AddMiner(m, q)
							owned = q
						}
						continue
					}
					if g < 2 && k == h.OpsEach/3 {
						m := []string{"m2", "m3"}[g]
						call := rec.tick()
						if g == 0 {
							fqs.AddMinerWithDefault(m)
						} else {
							fqs.AddMiner(m, bt.NewFeeQuote())
						}
						ret := rec.tick()
						for _, tt := range types {
							rec.add(c18Op{proc: g, kind: "FeeQuotes.AddMiner", key: "fee:" + m + ":" + string(tt), write: true, val: valDefault, call: call, ret: ret})
						}
					}
				}
			}
		}(g)
	}
	close(start)
	waitOrDeadlock(c, &wg, "feequote")
	if rec.raw { // judged by the race detector (and the torn-value checks) alone
		c.Eval(int64(h.Goroutines * h.OpsEach))
		c.CountN("raw:feequote-operations", int64(h.Goroutines*h.OpsEach))
		for _, t := range rec.torn {
			c.Violation("C18:torn-value", t)
		}
		return
	}
	c.Eval(int64(len(rec.ops)))
	// (c) every value read was written by someone
	written := map[string]map[int64]bool{}
	for _, o := range rec.ops {
		if o.write {
			if written[o.key] == nil {
				written[o.key] = map[int64]bool{}
			}
			written[o.key][o.val] = true
		}
	}
	for _, o := range rec.ops {
		c.Count("op:" + o.kind)
		if !o.write && !written[o.key][o.val] {
			c.Violationf("C18:read-of-unwritten-value:"+o.kind, "%s returned value id %d for %s, which no operation ever stored (history %d)", o.kind, o.val, o.key, h.N)
		}
	}
	for _, t := range rec.torn {
		c.Violation("C18:torn-value", t)
	}
	if n := notExpired.Load(); n > 0 {
		c.Violationf("C18:expired-false", "Expired() returned false %d times although every stored expiry lies in 2001", n)
	}
	// overlap coverage
	ops := rec.ops
	sort.Slice(ops, func(i, j int) bool { return ops[i].call < ops[j].call })
	overl := 0
	for i := range ops {
		if ops[i].proc < 0 {
			continue
		}
		for j := i + 1; j < len(ops) && ops[j].call < ops[i].ret; j++ {
			if ops[j].key == ops[i].key && ops[j].proc != ops[i].proc && ops[j].kind != ops[i].kind {
				a, b := ops[i].kind, ops[j].kind
				if a > b {
					a, b = b, a
				}
				c.Count("overlap:" + a + "|" + b)
				overl++
			}
		}
	}
	// (d) linearizability per key
	var hist []porcupine.Operation
	for _, o := range ops {
		call, ret := o.call, o.ret
		if o.proc < 0 {
			call, ret = -1, 0
		}
		hist = append(hist, porcupine.Operation{ClientId: o.proc + 1, Input: o, Call: call, Output: o.val, Return: ret})
	}
	// (d1) exact decision for registers with unique written values (Gibbons/Korach zones), never times out
	if bad := zoneCheck(ops); bad != "" {
		c.Violationf("C18:not-linearizable", "history %d (%d goroutines x %d ops, GOMAXPROCS %d): %s", h.N, h.Goroutines, h.OpsEach, h.Procs, bad)
	} else {
		c.Count("C18:histories-linearizable")
	}
	// (d2) porcupine on the same history (general checker; a timeout is recorded, the zone verdict stands)
	res, info := porcupine.CheckOperationsVerbose(registerModel, hist, 20*time.Second)
	switch res {
	case porcupine.Illegal:
		c.Violationf("C18:not-linearizable:porcupine", "history %d (%d goroutines x %d ops, GOMAXPROCS %d): some per-key history of FeeQuote/FeeQuotes operations has no linearisation; partial linearisations: %d partitions", h.N, h.Goroutines, h.OpsEach, h.Procs, len(info.PartialLinearizations()))
	case porcupine.Unknown:
		c.Count("C18:porcupine-timeouts")
	default:
		c.Count("C18:histories-linearizable-porcupine")
	}
	c.Count(fmt.Sprintf("gomaxprocs:%d", h.Procs))
	if overl >= 2 {
		c.Distinct(prng.HashBytes([]byte(fmt.Sprint(h.N, h.Goroutines, h.OpsEach, h.Procs, overl, len(ops)))))
	}
	c.Sample("history", 2, func() any {
		var s []string
		for i, o := range ops {
			if i > 30 {
				break
			}
			if o.proc >= 0 {
				s = append(s, fmt.Sprintf("g%d %s %s val=%d [%d,%d]", o.proc, o.kind, o.key, o.val, o.call, o.ret))
			}
		}
		return map[string]any{"history": h, "operations": len(ops), "overlapping_pairs_of_different_type_on_one_key": overl, "first_operations": s}
	})
}

// ---- one engine, many goroutines

type c18Job struct {
	raw   []byte // extended serialisation of the spending tx
	idx   int
	prev  []byte
	sats  uint64
	flags scriptflag.Flag
	// flagOpts is built once, when the jobs are made (one goroutine), from the process-wide option values
	flagOpts []interpreter.ExecutionOptionFunc
	// chains: the outputs of a parent transaction are OBJECTS shared between the parent (every
	// goroutine validating it has its own *bt.Tx, all of them list these outputs) and the children
	// spending them (which hand the very object to WithTx as the previous output)
	sharedOuts []*bt.Output
	sharedPrev *bt.Output
}

func (j *c18Job) run(e interpreter.Engine) string {
	tx, err := bt.NewTxFromBytes(j.raw)
	if err != nil {
		return "decode: " + err.Error()
	}
	if j.sharedOuts != nil {
		tx.Outputs = append([]*bt.Output{}, j.sharedOuts...)
	}
	if j.sharedPrev != nil {
		opts := append([]interpreter.ExecutionOptionFunc{interpreter.WithTx(tx, j.idx, j.sharedPrev)}, j.flagOpts...)
		if err = e.Execute(opts...); err == nil {
			return "ok"
		}
		return err.Error()
	}
	// the flag options are VALUES shared by every execution of every goroutine (one WithFlags value
	// per flag set, one of each convenience option, the convenience options in front)
	opts := append([]interpreter.ExecutionOptionFunc{interpreter.WithTx(tx, j.idx, &bt.Output{Satoshis: j.sats, LockingScript: bscript.NewFromBytes(append([]byte{}, j.prev...))})}, j.flagOpts...)
	err = e.Execute(opts...)
	if err == nil {
		return "ok"
	}
	return err.Error()
}

func c18Jobs(seed uint64) []c18Job {
	var jobs []c18Job
	classes := []string{"correct", "correct", "wrong-key", "empty", "high-s", "wrong-digest"}
	for i := 0; i < 40; i++ {
		r := prng.New(seed, "C18-jobs", uint64(i))
		fl := uint32(scriptflag.EnableSighashForkID | scriptflag.UTXOAfterGenesis)
		if i%5 == 4 {
			fl = sigFlagSubset(r.Intn(1 << len(sigFlagBits)))
		}
		fork := scriptflag.Flag(fl)&scriptflag.EnableSighashForkID != 0
		sp := &c06Spec{SepPos: -1, SepKind: "plain", Flags: fl}
		switch i % 4 {
		case 0:
			sp.Kind, sp.N = "p2pkh", 1
			sp.Slots = []c06Slot{{Key: 0, Class: classes[i%len(classes)], HashType: c06HashType(r, fork)}}
		case 1:
			sp.Kind, sp.M, sp.N = "multisig", 2, 3
			sp.Slots = []c06Slot{{Key: 0, Class: "correct", HashType: c06HashType(r, fork)}, {Key: 2, Class: classes[(i/4)%len(classes)], HashType: c06HashType(r, fork)}}
		case 2:
			sp.Kind, sp.N = "p2pk", 1
			sp.SepPos = r.Intn(3)
			sp.Slots = []c06Slot{{Key: 0, Class: "correct", HashType: c06HashType(r, fork)}}
		default:
			sp.Kind, sp.N = "two-checks", 2
			sp.Slots = []c06Slot{{Key: 1, Class: "correct", HashType: c06HashType(r, fork)}, {Key: 0, Class: classes[(i/4)%len(classes)], HashType: c06HashType(r, fork)}}
		}
		if !c06Legal(sp) {
			continue
		}
		cs := c06Make(r, sp)
		jobs = append(jobs, c18Job{raw: cs.Tx.Build().Bytes(), idx: cs.Idx, prev: cs.Lock, sats: cs.Sats, flags: scriptflag.Flag(fl)})
	}
	// chains: a parent whose second input carries a valid original-type SINGLE signature (its hash
	// blanks the outputs in front of the matching one - on a copy), and children spending the
	// parent's first output, with that output OBJECT as their previous output
	for i := 0; i < 6; i++ {
		r := prng.New(seed, "C18-chain-jobs", uint64(i))
		mk := func() (*bec.PrivateKey, []byte) {
			kb := r.Bytes(32)
			kb[0] &= 0x7f
			kb[31] |= 1
			p, q := keyOf(kb)
			return p, append(gen.Push(q.SerialiseCompressed()), 0xac)
		}
		kA, lockA := mk()
		kB, lockB := mk()
		_, lockC := mk()
		parent := &gen.Shape{Version: 1, LockTime: uint32(i)}
		parent.Ins = []gen.In{{TxID: r.Bytes(32), Vout: 0, Seq: 0xffffffff, Unlock: []byte{0x51}, PrevScript: []byte{}}, {TxID: r.Bytes(32), Vout: 1, Seq: 0xfffffffe, Unlock: []byte{}, PrevScript: []byte{}}}
		parent.Outs = []gen.Out{{Sats: uint64(5000 + i), Script: lockB}, {Sats: uint64(700 + i), Script: lockC}}
		ht := byte(0x03)
		if i%2 == 1 {
			ht = 0x83
		}
		dg, err := refsighash.LegacyDigest(shModelTx(parent), 1, lockA, uint32(ht))
		if err != nil {
			continue
		}
		parent.Ins[1].Unlock = gen.Push(append(signDER(kA, dg[:]), ht))
		ptx := parent.Build()
		shared := ptx.Outputs
		pfl := scriptflag.Flag(0)
		if i%3 == 2 {
			pfl = scriptflag.UTXOAfterGenesis
		}
		jobs = append(jobs, c18Job{raw: ptx.Bytes(), idx: 1, prev: lockA, sats: uint64(900 + i), flags: pfl, sharedOuts: shared})
		// children of output 0: one correctly signed, one signed with the wrong key
		for variant := 0; variant < 2; variant++ {
			child := &gen.Shape{Version: 1}
			pid := ptx.TxIDBytes()
			child.Ins = []gen.In{{TxID: pid, Vout: 0, Seq: 0xffffffff, Unlock: []byte{}, PrevScript: []byte{}}}
			child.Outs = []gen.Out{{Sats: 1, Script: []byte{0x51}}}
			cfl := scriptflag.EnableSighashForkID | scriptflag.UTXOAfterGenesis
			cd, err := refsighash.ForkIDDigest(shModelTx(child), 0, lockB, uint64(5000+i), 0x41)
			if err != nil {
				continue
			}
			signer := kB
			if variant == 1 {
				signer = kA
			}
			child.Ins[0].Unlock = gen.Push(append(signDER(signer, cd[:]), 0x41))
			jobs = append(jobs, c18Job{raw: child.Build().Bytes(), idx: 0, flags: cfl, sharedPrev: shared[0]})
		}
	}
	// pure scripts
	for i, v := range vectorCache {
		if i%25 != 0 || len(v.Unlock)+len(v.Lock) > 200 {
			continue
		}
		tx := &bt.Tx{Version: 1}
		in := &bt.Input{SequenceNumber: 0xffffffff, UnlockingScript: bscript.NewFromBytes(append([]byte{}, v.Unlock...))}
		_ = in.PreviousTxIDAdd(append([]byte{}, fixedTxID...))
		tx.Inputs = []*bt.Input{in}
		tx.Outputs = []*bt.Output{{Satoshis: 1, LockingScript: bscript.NewFromBytes([]byte{0x51})}}
		jobs = append(jobs, c18Job{raw: tx.Bytes(), idx: 0, prev: v.Lock, sats: v.Amount, flags: scriptflag.Flag(libFlagsOfVector(v.Flags))})
	}
	// every hash opcode on small and large operands (the expected digest is
	// computed independently, so a wrong digest flips the verdict), and small
	// arithmetic / byte-string programs whose result is checked by the script
	pure := func(unlock, lock []byte) {
		tx := &bt.Tx{Version: 1}
		in := &bt.Input{SequenceNumber: 0xffffffff, UnlockingScript: bscript.NewFromBytes(unlock)}
		_ = in.PreviousTxIDAdd(append([]byte{}, fixedTxID...))
		tx.Inputs = []*bt.Input{in}
		tx.Outputs = []*bt.Output{{Satoshis: 1, LockingScript: bscript.NewFromBytes([]byte{0x51})}}
		jobs = append(jobs, c18Job{raw: tx.Bytes(), idx: 0, prev: lock, sats: 1, flags: scriptflag.UTXOAfterGenesis})
	}
	hr := prng.New(seed, "C18-hash-jobs", 0)
	for _, n := range []int{20, 3000, 48000} {
		data := hr.Bytes(n)
		s1 := sha1.Sum(data)
		for _, h := range []struct {
			op  byte
			sum []byte
		}{{0xa6, crypto.Ripemd160(data)}, {0xa7, s1[:]}, {0xa8, crypto.Sha256(data)}, {0xa9, crypto.Hash160(data)}, {0xaa, crypto.Sha256d(data)}} {
			pure(gen.Push(data), append(append([]byte{h.op}, gen.Push(h.sum)...), 0x87))
		}
	}
	sh := func(x string) []byte { b, _ := vectors.ParseShort(x); return b }
	for _, prog := range [][2]string{
		{"1NEGATE 1NEGATE", "ADD -2 EQUAL"}, {"1NEGATE", "ABS 1 EQUAL"}, {"1NEGATE 5", "ADD 4 EQUAL"}, {"-5 4", "NUM2BIN 0x04 0x05000080 EQUAL"},
		{"0x04 0x05000080", "BIN2NUM -5 EQUAL"}, {"0x02 0x0102 0x01 0x03", "CAT 0x03 0x010203 EQUAL"}, {"0x03 0x010203 1", "SPLIT 0x02 0x0203 EQUALVERIFY 0x01 0x01 EQUAL"},
		{"0x02 0x0100 8", "LSHIFT 0x02 0x0000 EQUAL"}, {"0x02 0x0001 8", "LSHIFT 0x02 0x0100 EQUAL"}, {"0x02 0x0f0f", "INVERT 0x02 0xf0f0 EQUAL"},
		{"1 0", "IF 0 ELSE 1 ELSE 0 ENDIF"}, {"2 3", "MUL 6 EQUAL"}, {"7 2", "DIV 3 EQUAL"}, {"-7 2", "MOD -1 EQUAL"}, {"1", "TOALTSTACK 2 FROMALTSTACK ADD 3 EQUAL"},
		{"1NEGATE", "0x01 0x81 EQUAL"}, {"16", "1ADD 17 EQUAL"},
		// small-integer constants widened in place by one execution must still be what they are for every other one
		{"5 4", "NUM2BIN 0x04 0x05000000 EQUAL"}, {"6", "0x01 0x06 EQUAL"}, {"7", "0x01 0x07 EQUAL"}, {"8", "0x01 0x08 EQUAL"}, {"1 2", "NUM2BIN 0x02 0x0100 EQUAL"},
		{"2", "0x01 0x02 EQUAL"}, {"3", "0x01 0x03 EQUAL"}, {"15 3", "NUM2BIN 0x03 0x0f0000 EQUAL"}, {"16", "0x01 0x10 EQUAL"}, {"1NEGATE 2", "NUM2BIN 0x02 0x0180 EQUAL"}, {"0", "NOT"}, {"5", "SIZE 1 EQUALVERIFY 5 EQUAL"}, {"0x02 0x8000", "BIN2NUM 0 EQUAL"},
	} {
		pure(sh(prog[0]), sh(prog[1]))
	}
	for k := range jobs {
		jobs[k].flagOpts = flagOptions(uint32(jobs[k].flags), 1+4*k) // style 1: convenience options, then WithFlags(rest)
	}
	return jobs
}

func c18EngineHistory(c *mon.Ctx, h *c18Hist) {
	prev := runtime.GOMAXPROCS(h.Procs)
	defer runtime.GOMAXPROCS(prev)
	// Every history has its own jobs (fresh keys, fresh data), and in every other
	// history the concurrent executions come FIRST and the sequential reference
	// verdicts are computed afterwards: whatever the engine or the package keeps
	// between executions is then met by concurrent first uses.
	jobs := c18Jobs(c.Seed ^ (h.N+1)*0x9e3779b97f4a7c15)
	seq := make([]string, len(jobs))
	e := interpreter.NewEngine()
	okN := 0
	sequential := func() {
		for i := range jobs {
			seq[i] = jobs[i].run(interpreter.NewEngine())
			if seq[i] == "ok" {
				okN++
			}
			switch {
			case jobs[i].sharedOuts != nil && seq[i] == "ok":
				c.Count("engine:chain-parent-accepted-sequentially")
			case jobs[i].sharedOuts != nil:
				c.Count("engine:chain-parent-rejected-sequentially")
			case jobs[i].sharedPrev != nil && seq[i] == "ok":
				c.Count("engine:chain-child-accepted-sequentially")
			case jobs[i].sharedPrev != nil:
				c.Count("engine:chain-child-rejected-sequentially")
			}
		}
		c.CountN("engine:jobs", int64(len(jobs)))
		c.CountN("engine:jobs-accepted-sequentially", int64(okN))
	}
	concurrentFirst := h.N%2 == 1
	if !concurrentFirst {
		sequential()
	}
	got := make([][]string, h.Goroutines) // concurrent-first: verdicts are compared once the reference exists
	// The workers share nothing with the monitor while they run (no atomics, no
	// mutex: those would order their executions for the race detector); each
	// keeps its findings in its own slot, read after all have finished.
	var wg sync.WaitGroup
	diffs := map[string]string{}
	perG := make([]map[string]string, h.Goroutines)
	start := make(chan struct{})
	for g := 0; g < h.Goroutines; g++ {
		wg.Add(1)
		perG[g] = map[string]string{}
		go func(g int) {
			defer wg.Done()
			r := prng.New(c.Seed, "C18-eng", h.N<<8|uint64(g))
			mine := perG[g]
			var verdicts []string
			<-start
			for k := 0; k < h.OpsEach; k++ {
				i := r.Intn(len(jobs))
				v := jobs[i].run(e)
				if concurrentFirst {
					verdicts = append(verdicts, fmt.Sprintf("%d|%s", i, v))
				} else if v != seq[i] {
					mine[fmt.Sprintf("job %d", i)] = fmt.Sprintf("sequential %q, concurrent %q", seq[i], v)
				}
				if k%4 == 3 {
					runtime.Gosched()
				}
			}
			got[g] = verdicts
		}(g)
	}
	close(start)
	waitOrDeadlock(c, &wg, "engine")
	if concurrentFirst {
		sequential()
		for g := range got {
			for _, iv := range got[g] {
				is, v, _ := strings.Cut(iv, "|")
				i, _ := strconv.Atoi(is)
				if v != seq[i] {
					perG[g][fmt.Sprintf("job %d", i)] = fmt.Sprintf("sequential (afterwards) %q, concurrent %q", seq[i], v)
				}
			}
		}
		c.Count("engine:concurrent-before-sequential")
	}
	for _, m := range perG {
		for k, v := range m {
			diffs[k] = v
		}
	}
	executed := int64(h.Goroutines * h.OpsEach)
	c.Eval(executed)
	c.CountN("engine:concurrent-executions", executed)
	c.Count(fmt.Sprintf("gomaxprocs:%d", h.Procs))
	for k, v := range diffs {
		c.Violationf("C18:engine-verdict-differs", "one shared Engine, %d goroutines: %s: %s", h.Goroutines, k, v)
	}
	if len(diffs) == 0 && okN > 0 && okN < len(jobs) {
		c.Distinct(prng.HashBytes([]byte(fmt.Sprint("engine", h.N, h.Goroutines, h.Procs))))
	}
}

func init() {
	p := &mon.Property{
		ID:   "C18",
		Race: true,
		Rule: "Built with the race detector. (1) FeeQuote/FeeQuotes histories: 4-32 goroutines, GOMAXPROCS in {2,4,16}, few keys (2 fee types x 4 miners + 2 free-standing quotes), mixed Fee / AddQuote / Expiry / UpdateExpiry / Expired / json.Marshal / json.Unmarshal / FeeQuotes.Fee / UpdateMinerFees / Quote / AddMiner(WithDefault) with randomised yields between operations; every written fee or expiry carries a unique id spread redundantly over its fields; call/return stamped from one atomic counter at the client boundary. Judged: zero race-detector reports (log files parsed by the parent), no fatal error, every value read was stored by some write with consistent fields, every per-key history linearizable against a register (decided exactly by the unique-value zone criterion of Gibbons & Korach, and cross-checked with porcupine under a 20 s timeout whose expiry is only recorded). " +
			"(2) one shared Engine executing a fixed job set (P2PKH, P2PK with separators, 2-of-3 multisig, two-check scripts, pure-script node vectors; every hash opcode on 20 / 3000 / 48000-byte operands against independently computed digests; 20 arithmetic and byte-string programs; accepted and rejected) from many goroutines, each on its own deserialised transaction: every concurrent verdict/error text equals the sequential one. " +
			"distinct_nontrivial = histories in which at least two operations of different type overlapped on one key (resp. engine runs with both accepted and rejected jobs) and all oracles held.",
		Assum:  []string{"only the schedules the Go scheduler produced under these settings were observed", "in the judged (non-raw) histories existing miners are never replaced (AddMiner only introduces new names), so that Quote()+operation is a single-register operation; the raw histories, judged by the race detector and the torn-value checks alone, re-add known miners while earlier Quote() handles stay in use"},
		Shards: func(tier string) int { return 4 },
	}
	hist := mon.Kind(p, "history", func(c *mon.Ctx, h *c18Hist) {
		if h.Mode == "engine" {
			if loadVectors(c) == nil {
				return
			}
			c18EngineHistory(c, h)
		} else {
			c18FeeQuoteHistory(c, h)
		}
	})
	p.Run = func(c *mon.Ctx) {
		if loadVectors(c) == nil {
			return
		}
		procs := []int{2, 4, 16}
		// Before anything else has used the interpreter in this process: concurrent
		// executions as the very first ones (one such history per child process), so
		// that whatever the package sets up lazily on first use is set up under
		// contention.
		c.Phase("engine-cold-start")
		for i := uint64(0); i < uint64(max(c.NShards, 1)); i++ {
			if c.Case(i) {
				hist(c, &c18Hist{N: 1000 + 2*i + 1, Goroutines: 16, OpsEach: 12, Procs: 16, Mode: "engine"})
			}
		}
		c.Phase("feequote-histories")
		N := uint64(240)
		if c.Thorough {
			N = 6000
		}
		for i := uint64(0); i < N; i++ {
			if !c.Case(i) {
				continue
			}
			r := c.Rand(i)
			hist(c, &c18Hist{N: i, Goroutines: prng.Pick(r, []int{3, 4, 8, 16}), OpsEach: 15 + r.Intn(25), Procs: procs[i%3], Mode: "feequote"})
		}
		c.Phase("feequote-raw") // the same operation mix without any monitor synchronisation between operations: race detector only
		N = 60
		if c.Thorough {
			N = 1500
		}
		for i := uint64(0); i < N; i++ {
			if !c.Case(i) {
				continue
			}
			r := c.Rand(i)
			hist(c, &c18Hist{N: i, Goroutines: prng.Pick(r, []int{3, 4, 8, 16}), OpsEach: 15 + r.Intn(25), Procs: procs[i%3], Mode: "feequote-raw"})
		}
		c.Phase("engine")
		N = 12
		if c.Thorough {
			N = 120
		}
		for i := uint64(0); i < N; i++ {
			if !c.Case(i) {
				continue
			}
			r := c.Rand(i)
			hist(c, &c18Hist{N: i, Goroutines: prng.Pick(r, []int{4, 8, 16}), OpsEach: 25, Procs: procs[i%3], Mode: "engine"})
		}
	}
	p.Floor = func(a *mon.Agg) string {
		for _, k := range []string{"expiry-range:every-stored-instant-centuries-in-the-past", "expiry-range:every-stored-instant-centuries-in-the-future", "op:FeeQuote.Fee", "op:FeeQuote.AddQuote", "op:FeeQuote.Expiry", "op:FeeQuote.UpdateExpiry", "op:FeeQuote.MarshalJSON", "op:FeeQuote.UnmarshalJSON",
			"op:FeeQuotes.Fee", "op:FeeQuotes.UpdateMinerFees", "op:FeeQuotes.AddMiner", "C18:histories-linearizable", "engine:concurrent-executions", "gomaxprocs:2", "gomaxprocs:4", "gomaxprocs:16"} {
			if a.Cov[k] == 0 {
				return "counter " + k + " is zero"
			}
		}
		n := 0
		for k := range a.Cov {
			if len(k) > 8 && k[:8] == "overlap:" {
				n++
			}
		}
		if n < 8 {
			return fmt.Sprintf("only %d distinct overlapping operation-type pairs observed", n)
		}
		return ""
	}
	mon.Register(p)
}

// c18ExpiryRange: expiry instants over the whole range a time.Time can hold (a quote "valid for
// ever", a zero time, a historic date). Writers store instants of ONE side of the present only -
// all centuries in the past, or all centuries in the future - so every answer of Expired() is
// known whatever the interleaving and whatever the clock says, and Expiry() returns one of them.
func c18ExpiryRange(c *mon.Ctx, h *c18Hist) {
	past := []time.Time{{}, time.Date(1, 1, 1, 0, 0, 0, 1, time.UTC), time.Date(1000, 6, 1, 0, 0, 0, 0, time.UTC), time.Date(1677, 9, 21, 0, 12, 43, 0, time.UTC),
		time.Date(1677, 9, 21, 0, 12, 44, 0, time.UTC), time.Date(1901, 12, 13, 20, 45, 52, 0, time.UTC), time.Date(1969, 12, 31, 23, 59, 59, 0, time.UTC), time.Unix(0, 0).UTC(), time.Date(2001, 9, 9, 1, 46, 40, 0, time.UTC)}
	future := []time.Time{time.Date(2262, 4, 11, 23, 47, 16, 0, time.UTC), time.Date(2262, 4, 11, 23, 47, 17, 0, time.UTC), time.Date(2300, 1, 1, 0, 0, 0, 0, time.UTC), time.Date(2554, 7, 21, 23, 34, 33, 0, time.UTC),
		time.Date(9999, 12, 31, 23, 59, 59, 0, time.UTC), time.Date(100000, 1, 1, 0, 0, 0, 0, time.UTC), time.Unix(1<<40, 0).UTC(), time.Unix(1<<62, 0).UTC()}
	for side, set := range [][]time.Time{past, future} {
		q := bt.NewFeeQuote()
		q.UpdateExpiry(set[int(h.N)%len(set)])
		var wg sync.WaitGroup
		var wrong, foreign atomic.Int64
		var firstWrong atomic.Value
		wantExpired := side == 0
		for g := 0; g < 4; g++ {
			wg.Add(1)
			go func(g int) {
				defer wg.Done()
				defer func() { _ = recover() }()
				r := prng.New(h.N, "C18/expiry-range", uint64(side*8+g))
				for k := 0; k < 60; k++ {
					switch r.Intn(4) {
					case 0:
						q.UpdateExpiry(set[r.Intn(len(set))])
					case 1:
						e := q.Expiry()
						ok := false
						for _, s := range set {
							if s.Equal(e) {
								ok = true
							}
						}
						if !ok {
							foreign.Add(1)
							firstWrong.CompareAndSwap(nil, "Expiry() = "+e.String())
						}
					default:
						if q.Expired() != wantExpired {
							wrong.Add(1)
							firstWrong.CompareAndSwap(nil, fmt.Sprintf("Expired() = %v, stored expiry read back as %s", !wantExpired, q.Expiry()))
						}
					}
					if r.Chance(1, 4) {
						runtime.Gosched()
					}
				}
			}(g)
		}
		wg.Wait()
		name := []string{"every-stored-instant-centuries-in-the-past", "every-stored-instant-centuries-in-the-future"}[side]
		c.Count("expiry-range:" + name)
		if n := wrong.Load(); n > 0 {
			c.Violationf("C18:expired-contradicts-every-stored-expiry:"+name, "%d answers of Expired() contradict every instant ever stored (history %d); first: %v", n, h.N, firstWrong.Load())
		}
		if n := foreign.Load(); n > 0 {
			c.Violationf("C18:expiry-never-stored:"+name, "%d answers of Expiry() equal no instant ever stored (history %d); first: %v", n, h.N, firstWrong.Load())
		}
	}
}
