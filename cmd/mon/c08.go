package main

import (
	"bytes"
	"fmt"
	"strings"

	"github.com/libsv/go-bt/v2"
	"github.com/libsv/go-bt/v2/bscript"
	"github.com/libsv/go-bt/v2/bscript/interpreter"
	"github.com/libsv/go-bt/v2/bscript/interpreter/scriptflag"

	"verif/internal/gen"
	"verif/internal/mon"
	"verif/internal/prng"
	"verif/internal/refscript"
	"verif/internal/vectors"
)

// C08 — execution has no side effects on caller data and stack items never alias.
//
// Three monitors run on every program:
//   canary      – the caller's script buffers and the transaction serialisation
//                 before vs after Execute (only the checked input may now record
//                 the spent output's value and script);
//   frame rule  – from the library's own BeforeStep/AfterStep snapshots: an
//                 opcode with footprint k may only touch the top k data-stack
//                 items; everything below and the whole alt stack (except for
//                 TOALTSTACK/FROMALTSTACK and the end of a script) is unchanged;
//   lock-step   – stacks after each step equal the reference model's, which
//                 shows a corrupted twin even when it sits inside the footprint.

// footprint[op] = how many top data-stack items the opcode may read or replace;
// -1 = depends on operands (not judged by the frame rule).
var footprint [256]int

func init() {
	for i := range footprint {
		footprint[i] = 0
	}
	set := func(k int, ops ...byte) {
		for _, o := range ops {
			footprint[o] = k
		}
	}
	set(1, 0x63, 0x64, 0x69, 0x6b, 0x73, 0x75, 0x76, 0x81, 0x82, 0x83, 0x8b, 0x8c, 0x8f, 0x90, 0x91, 0x92, 0xa6, 0xa7, 0xa8, 0xa9, 0xaa, 0xb1, 0xb2)
	set(2, 0x6d, 0x6e, 0x77, 0x78, 0x7c, 0x7d, 0x7e, 0x7f, 0x80, 0x84, 0x85, 0x86, 0x87, 0x88, 0x93, 0x94, 0x95, 0x96, 0x97, 0x98, 0x99,
		0x9a, 0x9b, 0x9c, 0x9d, 0x9e, 0x9f, 0xa0, 0xa1, 0xa2, 0xa3, 0xa4, 0xac, 0xad)
	set(3, 0x6f, 0x7b, 0xa5)
	set(4, 0x70, 0x72)
	set(6, 0x71)
	set(-1, 0x79, 0x7a, 0xae, 0xaf)
}

type frameDebugger struct {
	recDebugger
	c       *mon.Ctx
	before  *interpreter.State
	checks  int64
	flagged bool
	in      *progInput
}

func (d *frameDebugger) BeforeStep(s *interpreter.State) { d.before = s }
func (d *frameDebugger) AfterStep(s *interpreter.State) {
	d.recDebugger.AfterStep(s)
	b := d.before
	d.before = nil
	if b == nil || d.flagged {
		return
	}
	if b.ScriptIdx >= len(b.Scripts) || b.OpcodeIdx >= len(b.Scripts[b.ScriptIdx]) {
		return
	}
	op := b.Opcode().Value()
	lastOfScript := s.ScriptIdx != b.ScriptIdx || s.IsFinished
	k := footprint[op]
	if lastOfScript && len(s.SavedFirstStack) > 0 {
		k = -1 // P2SH stack restore
	}
	if k >= 0 {
		keep := len(b.DataStack) - k
		if keep > 0 {
			d.checks++
			if len(s.DataStack) < keep {
				d.report(op, "data", b, s, fmt.Sprintf("stack shrank below the opcode's footprint (%d items must stay)", keep))
				return
			}
			for i := 0; i < keep; i++ {
				if !bytes.Equal(b.DataStack[i], s.DataStack[i]) {
					d.report(op, "data", b, s, fmt.Sprintf("item %d from the bottom, outside the %d-item footprint, changed from %x to %x", i, k, b.DataStack[i], s.DataStack[i]))
					return
				}
			}
		}
	}
	if op != 0x6b && op != 0x6c && !lastOfScript {
		d.checks++
		if !stacksEqual(b.AltStack, s.AltStack) {
			d.report(op, "alt", b, s, "alt stack changed")
		}
	}
}

func (d *frameDebugger) report(op byte, which string, b, s *interpreter.State, what string) {
	d.flagged = true
	d.c.Violationf(fmt.Sprintf("C08:frame-rule:%s:%s:%s", vectors.OpName(op), which, era(d.in.Flags)),
		"%s executing %s: %s; before data=%s alt=%s, after data=%s alt=%s; unlock=%x lock=%x flags=%#x",
		which, vectors.OpName(op), what, fmtStack(b.DataStack), fmtStack(b.AltStack), fmtStack(s.DataStack), fmtStack(s.AltStack), []byte(d.in.Unlock), []byte(d.in.Lock), d.in.Flags)
}

func c08Judge(c *mon.Ctx, in *progInput) {
	if ok, _ := c05Domain(in); !ok {
		return
	}
	if resourceHog(in.Unlock, in.Lock, in.Flags, in.Ctx) {
		c.Count("C08:skipped:element-above-4MiB-by-node-rules")
		return
	}
	c.Eval(1)
	// caller-owned buffers
	ubuf := append([]byte{}, in.Unlock...)
	lbuf := append([]byte{}, in.Lock...)
	unlock, lock := bscript.NewFromBytes(ubuf), bscript.NewFromBytes(lbuf)
	var tx *bt.Tx
	var prev *bt.Output
	var opts []interpreter.ExecutionOptionFunc
	var txBefore, extExpect []byte
	amountOnly := in.Ctx.HasTx && !in.Ctx.NilUnlock && (len(in.Unlock)+len(in.Lock))%4 == 2
	if in.Ctx.HasTx {
		tx = &bt.Tx{Version: in.Ctx.Version, LockTime: in.Ctx.LockTime}
		inp := &bt.Input{PreviousTxOutIndex: 3, SequenceNumber: in.Ctx.Sequence, UnlockingScript: unlock}
		_ = inp.PreviousTxIDAdd(append([]byte{}, fixedTxID...))
		other := &bt.Input{PreviousTxOutIndex: 1, SequenceNumber: 7, UnlockingScript: bscript.NewFromBytes([]byte{0x51}), PreviousTxSatoshis: 77,
			PreviousTxScript: bscript.NewFromBytes([]byte{0x52})}
		_ = other.PreviousTxIDAdd(bytes.Repeat([]byte{0x22}, 32))
		tx.Inputs = append(tx.Inputs, inp, other)
		tx.Outputs = append(tx.Outputs, &bt.Output{Satoshis: 5, LockingScript: bscript.NewFromBytes([]byte{0x51, 0x52})})
		prev = &bt.Output{Satoshis: in.Ctx.Sats, LockingScript: lock}
		txBefore = tx.Bytes()
		// documented effect: the checked input records the spent output
		exp := &bt.Tx{Version: tx.Version, LockTime: tx.LockTime, Outputs: tx.Outputs}
		i0 := *inp
		i0.PreviousTxSatoshis = in.Ctx.Sats
		i0.PreviousTxScript = bscript.NewFromBytes(append([]byte{}, in.Lock...))
		exp.Inputs = []*bt.Input{&i0, other}
		extExpect = exp.ExtendedBytes()
		if in.Ctx.NilUnlock {
			inp.UnlockingScript = nil
			txBefore = tx.Bytes()
			i0.UnlockingScript = nil
			extExpect = exp.ExtendedBytes()
			opts = append(opts, interpreter.WithTx(tx, 0, prev), interpreter.WithScripts(lock, unlock))
		} else if amountOnly {
			// the checked input already carries the spent output (tx.From / FromUTXOs, or an earlier
			// Execute recorded it); WithTx is given the spent VALUE only, the scripts come through
			// WithScripts. Afterwards the input still records the spent output's value and script.
			inp.PreviousTxSatoshis = in.Ctx.Sats
			inp.PreviousTxScript = bscript.NewFromBytes(append([]byte{}, in.Lock...))
			prev = &bt.Output{Satoshis: in.Ctx.Sats}
			opts = append(opts, interpreter.WithTx(tx, 0, prev), interpreter.WithScripts(lock, unlock))
			c.Count("C08:context:value-with-WithTx,scripts-with-WithScripts,input-already-records-the-spent-output")
		} else {
			opts = append(opts, interpreter.WithTx(tx, 0, prev))
		}
	} else {
		opts = append(opts, interpreter.WithScripts(lock, unlock))
	}
	opts = append(opts, flagOptions(in.Flags, len(in.Unlock)+3*len(in.Lock)+int(in.Flags%7))...)
	dbg := &frameDebugger{c: c, in: in}
	opts = append(opts, interpreter.WithDebugger(dbg))
	var libErr error
	if !c.Try("interpreter.Engine.Execute", func() { libErr = theEngine(c).Execute(opts...) }) {
		return
	}
	c.CountN("C08:frame-checks", dbg.checks)
	c.Count("C08:src:" + in.Src)
	e := era(in.Flags)
	// canary
	c.Count("C08:canary-checks")
	if !bytes.Equal(ubuf, in.Unlock) || !bytes.Equal(*unlock, in.Unlock) {
		c.Violationf("C08:caller-data:unlocking-script-modified:"+e, "unlocking script bytes changed by Execute: before %x after %x (lock %x, flags %#x)", []byte(in.Unlock), ubuf, []byte(in.Lock), in.Flags)
	}
	if !bytes.Equal(lbuf, in.Lock) || !bytes.Equal(*lock, in.Lock) {
		c.Violationf("C08:caller-data:locking-script-modified:"+e, "locking script bytes changed by Execute: before %x after %x (unlock %x, flags %#x)", []byte(in.Lock), lbuf, []byte(in.Unlock), in.Flags)
	}
	if tx != nil {
		if in.Ctx.NilUnlock && tx.Inputs[0].UnlockingScript != nil {
			c.Violationf("C08:caller-data:unlocking-script-written-to-input:"+e, "the checked input had no unlocking script before Execute(WithTx, WithScripts) and carries %x afterwards", []byte(*tx.Inputs[0].UnlockingScript))
		}
		if after := tx.Bytes(); !bytes.Equal(after, txBefore) {
			c.Violationf("C08:caller-data:tx-serialisation-modified:"+e, "tx.Bytes() changed by Execute: before %x after %x", txBefore, after)
		}
		if amountOnly {
			if prev.Satoshis != in.Ctx.Sats || prev.LockingScript != nil {
				c.Violationf("C08:caller-data:previous-output-modified:"+e, "the previous output given with its value only was changed by Execute (unlock %x lock %x)", []byte(in.Unlock), []byte(in.Lock))
			}
		} else if prev.Satoshis != in.Ctx.Sats || prev.LockingScript == nil || !bytes.Equal(*prev.LockingScript, in.Lock) {
			c.Violationf("C08:caller-data:previous-output-modified:"+e, "previous output changed by Execute (unlock %x lock %x)", []byte(in.Unlock), []byte(in.Lock))
		}
		ext := tx.ExtendedBytes()
		if !bytes.Equal(ext, extExpect) {
			// allowed alternative: nothing recorded at all (execution refused before set-up finished)
			plain := &bt.Tx{Version: tx.Version, LockTime: tx.LockTime, Outputs: tx.Outputs}
			i0 := &bt.Input{PreviousTxOutIndex: 3, SequenceNumber: in.Ctx.Sequence, UnlockingScript: bscript.NewFromBytes(append([]byte{}, in.Unlock...))}
			if in.Ctx.NilUnlock {
				i0.UnlockingScript = nil
			}
			_ = i0.PreviousTxIDAdd(append([]byte{}, fixedTxID...))
			plain.Inputs = []*bt.Input{i0, tx.Inputs[1]}
			if amountOnly || !bytes.Equal(ext, plain.ExtendedBytes()) {
				c.Violationf("C08:caller-data:tx-extended-serialisation:"+e, "tx.ExtendedBytes() after Execute is neither unchanged nor 'checked input records the spent output': got %x want %x", ext, extExpect)
			}
		}
	}
	// lock-step with the model (twin corruption inside a footprint shows here)
	model := refscript.Verify(in.Unlock, in.Lock, modelOpts(in, nil, true))
	agree := true
	if model.Unsupported == "" && in.Ctx.HasTx { // without a tx the library refuses scripts containing CSV / signature opcodes up front
		agree = compareLockstep(c, "C08", in, &model, libErr, &dbg.recDebugger)
	}
	if agree && len(dbg.steps) >= 3 && dbg.checks > 0 {
		c.Distinct(prng.HashBytes(in.Unlock, in.Lock, []byte{byte(in.Flags), byte(in.Flags >> 8), byte(in.Flags >> 16)}))
		c.Sample("aliasing:"+in.Src, 2, func() any {
			return map[string]any{"unlock": in.Unlock, "lock": in.Lock, "flags": in.Flags, "steps": len(dbg.steps), "frame_checks": dbg.checks, "lib_error": fmt.Sprint(libErr)}
		})
	}
}

// c08JudgeSig runs the caller-data canary and the frame rule over signature
// programs (the C06 generator): CHECKSIG / CHECKMULTISIG work on copies of the
// transaction, and nothing of that may leak into the caller's objects.
func c08JudgeSig(c *mon.Ctx, cs *c06Case) {
	if cs.Idx < 0 || cs.Idx >= len(cs.Tx.Ins) {
		return
	}
	c.Eval(1)
	tx := cs.Tx.BuildShared()
	// a transaction still being assembled: behind the inputs sits a placeholder whose outpoint is
	// not set yet (whatever Execute makes of it - an error is fine - the object stays as it is)
	placeholder := func(t *bt.Tx) {
		if strings.HasSuffix(cs.Class, "+placeholder-input") {
			t.Inputs = append(t.Inputs, &bt.Input{PreviousTxOutIndex: 7, SequenceNumber: 0xffffffff, UnlockingScript: bscript.NewFromBytes([]byte{0x51})})
		}
	}
	placeholder(tx)
	unlock0 := append([]byte{}, cs.Tx.Ins[cs.Idx].Unlock...)
	lockBuf := append([]byte{}, cs.Lock...)
	prev := &bt.Output{Satoshis: cs.Sats, LockingScript: bscript.NewFromBytes(lockBuf)}
	before := tx.Bytes()
	extUntouched := tx.ExtendedBytes()
	exp := cs.Tx.Build()
	placeholder(exp)
	exp.Inputs[cs.Idx].PreviousTxSatoshis = cs.Sats
	exp.Inputs[cs.Idx].PreviousTxScript = bscript.NewFromBytes(append([]byte{}, cs.Lock...))
	extRecorded := exp.ExtendedBytes()
	in := &progInput{Unlock: unlock0, Lock: cs.Lock, Flags: cs.Flags, Src: "sigcase"}
	dbg := &frameDebugger{c: c, in: in}
	var libErr error
	if !c.Try("interpreter.Engine.Execute", func() {
		libErr = theEngine(c).Execute(interpreter.WithTx(tx, cs.Idx, prev), interpreter.WithFlags(scriptflag.Flag(cs.Flags)), interpreter.WithDebugger(dbg))
	}) {
		return
	}
	_ = libErr
	e := era(cs.Flags)
	c.Count("C08:canary-checks")
	c.Count("C08:src:sigcase")
	c.CountN("C08:frame-checks", dbg.checks)
	if !bytes.Equal(tx.Bytes(), before) {
		c.Violationf("C08:caller-data:tx-serialisation-modified:"+e, "tx.Bytes() changed by Execute of a signature program (%s)", cs.Desc)
	}
	if !bytes.Equal(lockBuf, cs.Lock) || prev.Satoshis != cs.Sats {
		c.Violationf("C08:caller-data:previous-output-modified:"+e, "previous output changed by Execute of a signature program (%s)", cs.Desc)
	}
	if !bytes.Equal(*tx.Inputs[cs.Idx].UnlockingScript, unlock0) {
		c.Violationf("C08:caller-data:unlocking-script-modified:"+e, "the checked input's unlocking script changed (%s)", cs.Desc)
	}
	if ext := tx.ExtendedBytes(); !bytes.Equal(ext, extRecorded) && !bytes.Equal(ext, extUntouched) {
		c.Violationf("C08:caller-data:tx-extended-serialisation:"+e, "after Execute of a signature program tx.ExtendedBytes() is neither unchanged nor 'checked input records the spent output' (%s): got %x want %x", cs.Desc, ext, extRecorded)
	}
	if len(dbg.steps) >= 3 {
		c.Distinct(prng.HashBytes(unlock0, cs.Lock, []byte{byte(cs.Flags), byte(cs.Flags >> 8), byte(cs.Idx)}))
	}
}

type c08Prov struct {
	name string
	// build returns the instructions that leave one copy of x on top of the
	// data stack and another copy (or a slice sharing its memory) elsewhere.
	build func(x []byte) []byte
}

type c08Xform struct {
	name string
	ops  func(x []byte) []byte // operand pushes + opcode applied to the top item
}

func c08Matrix() ([]c08Prov, []c08Xform) {
	p := gen.Push
	filler := []byte{0x01, 0x07} // push 07
	provs := []c08Prov{
		{"script-push", func(x []byte) []byte { return p(x) }},
		{"DUP", func(x []byte) []byte { return append(p(x), 0x76) }},
		{"2DUP", func(x []byte) []byte { return append(append(p(x), p(x)...), 0x6e) }},
		{"3DUP", func(x []byte) []byte { return append(append(append(filler, p(x)...), p(x)...), 0x6f) }},
		{"OVER", func(x []byte) []byte { return append(append(p(x), filler...), 0x78) }},
		{"2OVER", func(x []byte) []byte {
			return append(append(append(append(filler, p(x)...), filler...), filler...), 0x70, 0x75)
		}},
		{"PICK", func(x []byte) []byte { return append(append(append(p(x), filler...), filler...), 0x52, 0x79) }},
		{"TUCK", func(x []byte) []byte { return append(append(filler, p(x)...), 0x7d) }},
		{"IFDUP", func(x []byte) []byte { return append(p(x), 0x73) }},
		{"SPLIT-left", func(x []byte) []byte { // x||x split in the middle, left half on top
			return append(append(p(append(append([]byte{}, x...), x...)), gen.PushNum(int64(len(x)))...), 0x7f, 0x7c)
		}},
		{"SPLIT-right", func(x []byte) []byte {
			return append(append(p(append(append([]byte{}, x...), x...)), gen.PushNum(int64(len(x)))...), 0x7f)
		}},
		{"DUP-TOALT", func(x []byte) []byte { return append(p(x), 0x76, 0x6b) }},
		{"TOALT-FROMALT-DUP", func(x []byte) []byte { return append(p(x), 0x6b, 0x6c, 0x76) }},
		{"DUP-ROT", func(x []byte) []byte { return append(append(p(x), 0x76), append(filler, 0x7b)...) }},
		{"DUP-SWAP", func(x []byte) []byte { return append(p(x), 0x76, 0x7c) }},
		{"ROLL", func(x []byte) []byte { return append(append(append(p(x), 0x76), filler...), 0x51, 0x7a) }},
	}
	un := func(name string, op byte) c08Xform { return c08Xform{name, func([]byte) []byte { return []byte{op} }} }
	bin := func(name string, op byte, arg func(x []byte) []byte) c08Xform {
		return c08Xform{name, func(x []byte) []byte { return append(p(arg(x)), op) }}
	}
	same := func(x []byte) []byte {
		o := make([]byte, len(x))
		for i := range o {
			o[i] = 0x5a
		}
		return o
	}
	k := func(v ...byte) func([]byte) []byte { return func([]byte) []byte { return v } }
	xf := []c08Xform{
		un("INVERT", 0x83), un("BIN2NUM", 0x81), un("1ADD", 0x8b), un("1SUB", 0x8c), un("NEGATE", 0x8f), un("ABS", 0x90), un("NOT", 0x91), un("0NOTEQUAL", 0x92),
		un("SHA256", 0xa8), un("HASH160", 0xa9), un("RIPEMD160", 0xa6), un("SHA1", 0xa7), un("HASH256", 0xaa), un("SIZE", 0x82),
		bin("AND", 0x84, same), bin("OR", 0x85, same), bin("XOR", 0x86, same),
		bin("LSHIFT1", 0x98, k(1)), bin("LSHIFT9", 0x98, k(9)), bin("RSHIFT1", 0x99, k(1)), bin("RSHIFT9", 0x99, k(9)),
		bin("NUM2BIN", 0x80, func(x []byte) []byte { return []byte{byte(len(x) + 2)} }),
		bin("ADD", 0x93, k(3)), bin("SUB", 0x94, k(3)), bin("MUL", 0x95, k(3)), bin("DIV", 0x96, k(3)), bin("MOD", 0x97, k(3)),
		bin("CAT", 0x7e, k(0xaa, 0xbb)), bin("SPLIT", 0x7f, k(1)), bin("MIN", 0xa3, k(3)), bin("MAX", 0xa4, k(3)),
		{"TOALT-BIN2NUM", func([]byte) []byte { return []byte{0x6b, 0x6c, 0x81} }},
		// both operands are the very same item (x DUP <op>), with further holders of x around
		{"DUP-XOR", func([]byte) []byte { return []byte{0x76, 0x86} }}, {"DUP-AND", func([]byte) []byte { return []byte{0x76, 0x84} }}, {"DUP-OR", func([]byte) []byte { return []byte{0x76, 0x85} }},
		{"DUP-CAT", func([]byte) []byte { return []byte{0x76, 0x7e} }}, {"DUP-ADD", func([]byte) []byte { return []byte{0x76, 0x93} }}, {"DUP-SUB", func([]byte) []byte { return []byte{0x76, 0x94} }},
		{"DUP-MUL", func([]byte) []byte { return []byte{0x76, 0x95} }}, {"DUP-MIN", func([]byte) []byte { return []byte{0x76, 0xa3} }},
	}
	return provs, xf
}

var c08Operands = [][]byte{
	{0x05}, {0x85}, {0x05, 0x00}, {0x05, 0x80}, {0x00}, {0x80}, {0x34, 0x12}, {0xff, 0xff, 0xff, 0x7f}, {0x01, 0x00, 0x00, 0x00},
	{0x01, 0x02, 0x03, 0x04, 0x05, 0x06, 0x07, 0x08}, {0x01, 0x00, 0x00, 0x00, 0x00, 0x00, 0x00, 0x00, 0x00}, {0xde, 0xad, 0xbe, 0xef, 0x00},
	// beyond the pre-Genesis element size (implementations switch strategy on size classes), positive and negative
	append(bytes.Repeat([]byte{0x37}, 520), 0x11), append(bytes.Repeat([]byte{0x42}, 599), 0x85), append(bytes.Repeat([]byte{0x00}, 8), 0x89),
}

func init() {
	p := &mon.Property{
		ID: "C08",
		Rule: "Matrix: 16 provenance patterns (push straight from the script, DUP, 2DUP, 3DUP, OVER, 2OVER, PICK, TUCK, IFDUP, both SPLIT halves, alt-stack round trips, ROT/SWAP/ROLL of a duplicate) x 40 value-changing transformers (INVERT, AND/OR/XOR, the binary ones also with both operands being one item (x DUP op), LSHIFT/RSHIFT by 1 and 9, BIN2NUM, NUM2BIN, 1ADD..0NOTEQUAL, ADD..MOD, CAT, SPLIT, MIN/MAX, hashes) x 12 operand encodings (minimal, non-minimal, negative zero, 4/8/9-byte) x both eras x {tx, scripts-only} x split point; plus the structured random programs, node vectors and their mutants of C05, and signature programs (P2PK, P2PKH, two-check, m-of-n multisig with valid / invalid / malformed signatures and keys, code separators, all signature flag subsets) on generated multi-input transactions carrying previous-output information on every input. " +
			"Per execution: caller-buffer canary (scripts, tx serialisation, previous output), frame rule on the library's own Before/AfterStep snapshots, lock-step with the reference model. " +
			"distinct_nontrivial = distinct programs with >= 3 executed steps on which at least one frame-rule comparison was performed and all oracles agreed.",
		Assum: []string{"footprint table (how many top items an opcode may touch) written from the opcode definitions; PICK/ROLL/CHECKMULTISIG are not judged by the frame rule (operand dependent) but by the lock-step comparison",
			"the State snapshots handed to the debugger are deep copies (checked independently by C19)"},
	}
	judge := mon.Kind(p, "program", c08Judge)
	sigJudge := mon.Kind(p, "sigcase", c08JudgeSig)
	p.Run = func(c *mon.Ctx) {
		if !validateModel(c) {
			c.Fault("reference model failed validation against the node vectors")
			return
		}
		vs := loadVectors(c)
		provs, xf := c08Matrix()
		c.Phase("matrix")
		n := uint64(0)
		for pi, pv := range provs {
			for xi, x := range xf {
				for _, operand := range c08Operands {
					for _, fl := range []uint32{0, uint32(scriptflag.UTXOAfterGenesis)} {
						for variant := 0; variant < 4; variant++ {
							n++
							if !c.Case(n) {
								continue
							}
							prog := append(append([]byte{}, pv.build(operand)...), x.ops(operand)...)
							in := progInput{Flags: fl, Ctx: defaultCtx(), Src: "matrix"}
							switch variant {
							case 0: // all in the locking script, tx context
								in.Lock = prog
							case 1: // provenance in the unlocking script, transformer in the locking script
								in.Unlock, in.Lock = pv.build(operand), x.ops(operand)
							case 2: // scripts only
								in.Lock = prog
								in.Ctx.HasTx = false
							case 3: // unsigned transaction (no unlocking script on the input) + scripts handed over separately
								in.Unlock, in.Lock = pv.build(operand), x.ops(operand)
								in.Ctx.NilUnlock = true
							}
							judge(c, &in)
							c.Count(fmt.Sprintf("matrix:%s:%s", provs[pi].name, xf[xi].name))
						}
					}
				}
			}
		}
		c.Phase("computed-origins") // an item that is the RESULT of an operation gets two holders; each holder is transformed in turn; both results stay on the stack for the lock-step comparison
		{
			pp := gen.Push
			origins := []struct {
				name string
				f    func(x []byte) []byte
			}{
				{"CAT", func(x []byte) []byte {
					if len(x) < 2 {
						return append(append(pp(x), 0x00), 0x7e)
					}
					return append(append(pp(x[:1]), pp(x[1:])...), 0x7e)
				}},
				{"CAT-grown", func(x []byte) []byte {
					return append(append(append(pp(x), pp([]byte{0x01})...), 0x7e), append(pp([]byte{0x02, 0x03}), 0x7e)...)
				}},
				{"ADD", func(x []byte) []byte { return append(append(pp(x), 0x52), 0x93) }},
				{"NUM2BIN", func(x []byte) []byte { return append(append(pp(x), gen.PushNum(int64(len(x)+1))...), 0x80) }},
				{"INVERT-INVERT", func(x []byte) []byte { return append(pp(x), 0x83, 0x83) }},
				{"SHA256", func(x []byte) []byte { return append(pp(x), 0xa8) }},
				{"AND-self", func(x []byte) []byte { return append(pp(x), 0x76, 0x84) }},
				{"SPLIT-left-of-CAT", func(x []byte) []byte {
					return append(append(append(append(pp(x), pp(x)...), 0x7e), gen.PushNum(int64(len(x)))...), 0x7f, 0x75)
				}},
				{"BIN2NUM", func(x []byte) []byte { return append(pp(x), 0x81) }},
				// the small-integer opcodes push constants: what is done to the pushed item must stay with that item
				{"OP_1", func(x []byte) []byte { return []byte{0x51} }},
				{"OP_5", func(x []byte) []byte { return []byte{0x55} }},
				{"OP_16", func(x []byte) []byte { return []byte{0x60} }},
				{"OP_1NEGATE", func(x []byte) []byte { return []byte{0x4f} }},
			}
			type sharing struct {
				name       string
				dup, other []byte // make the second holder; bring the other holder to the top
			}
			sharings := []sharing{
				{"DUP/SWAP", []byte{0x76}, []byte{0x7c}},
				{"DUP-TOALT/FROMALT", []byte{0x76, 0x6b}, []byte{0x6c}},
				{"filler-OVER/ROT", []byte{0x01, 0x07, 0x78}, []byte{0x7b}},
				{"TUCK-of-filler/2-ROLL", []byte{0x76, 0x01, 0x07, 0x7c}, []byte{0x52, 0x7a}},
			}
			xfs := []struct {
				name string
				f    func(x []byte, k byte) []byte
			}{
				{"CAT", func(x []byte, k byte) []byte { return append(pp([]byte{0xa0 + k, 0xb0 + k}), 0x7e) }},
				{"CAT1", func(x []byte, k byte) []byte { return append(pp([]byte{0xc0 + k}), 0x7e) }},
				{"NUM2BIN", func(x []byte, k byte) []byte { return append(gen.PushNum(int64(40+k)), 0x80) }},
				{"INVERT", func(x []byte, k byte) []byte { return []byte{0x83} }},
				{"1ADD", func(x []byte, k byte) []byte { return []byte{0x8b} }},
				{"NEGATE", func(x []byte, k byte) []byte { return []byte{0x8f} }},
				{"LSHIFT", func(x []byte, k byte) []byte { return append(gen.PushNum(int64(1+k)), 0x98) }},
				{"BIN2NUM", func(x []byte, k byte) []byte { return []byte{0x81} }},
				{"SPLIT1", func(x []byte, k byte) []byte { return append(gen.PushNum(1), 0x7f, 0x75) }},
				{"SIZE-ADD", func(x []byte, k byte) []byte { return []byte{0x82, 0x75, 0x8b} }},
			}
			n = 0
			for _, og := range origins {
				for _, sh := range sharings {
					for t1, x1 := range xfs {
						for t2, x2 := range xfs {
							for oi, operand := range c08Operands {
								n++
								if !c.Case(n) {
									continue
								}
								fl := []uint32{0, uint32(scriptflag.UTXOAfterGenesis)}[(oi+t1+t2)%2]
								var prog []byte
								prog = append(prog, og.f(operand)...)
								prog = append(prog, sh.dup...)
								prog = append(prog, x1.f(operand, 1)...)
								prog = append(prog, sh.other...)
								prog = append(prog, x2.f(operand, 2)...)
								in := progInput{Flags: fl, Ctx: defaultCtx(), Src: "computed-origins", Lock: prog}
								if n%3 == 0 {
									in.Ctx.HasTx = false
								}
								judge(c, &in)
								c.Count("computed-origins:" + og.name + ":" + sh.name)
							}
						}
					}
				}
			}
		}
		c.Phase("views-across-the-script-change") // the unlocking script (not push-only) ends with an item and a part of it that shares its storage (a DUP / OVER / TUCK / PICK twin split in two); the locking script inspects them
		{
			pp := gen.Push
			n = 0
			twins := [][]byte{{0x76}, {0x01, 0x07, 0x78, 0x7c, 0x75}, {0x76, 0x7d, 0x75}, {0x00, 0x79}} // DUP | <7> OVER SWAP DROP | DUP TUCK DROP | 0 PICK
			for _, L := range []int{2, 3, 8, 20, 33, 76, 300} {
				for _, at := range []int{1, L / 2, L - 1} {
					for ti, tw := range twins {
						for arr := 0; arr < 4; arr++ {
							for _, fl := range []uint32{0, uint32(scriptflag.UTXOAfterGenesis)} {
								n++
								if !c.Case(n) {
									continue
								}
								r := c.Rand(n)
								x := r.Bytes(L)
								u := append(append(append(pp(x), tw...), gen.PushNum(int64(at))...), 0x7f) // x left right
								var l []byte
								switch arr {
								case 0: // left || right is x again
									l = []byte{0x7e, 0x87}
								case 1: // the left part below the whole: x left right -> left x ; sizes and content
									u = append(u, 0x75, 0x7c)
									l = append(append(append([]byte{0x82}, gen.PushNum(int64(L))...), 0x88, 0x7c, 0x82), append(gen.PushNum(int64(at)), 0x88, 0x7e, 0xa8, 0x75, 0x51)...)
								case 2: // only the halves are compared with pushes of their own
									l = append(append(append(pp(x[at:]), 0x88), pp(x[:at])...), 0x88, 0x82, 0x75, 0x75, 0x51)
								default: // the whole is changed by the locking script, the left part must stay
									l = append(append([]byte{0x75, 0x7c, 0x83, 0x75}, pp(x[:at])...), 0x87)
								}
								in := progInput{Flags: fl, Ctx: defaultCtx(), Src: "views-across-the-script-change", Unlock: u, Lock: l}
								if n%3 == 0 {
									in.Ctx.HasTx = false
								}
								judge(c, &in)
								c.Count(fmt.Sprintf("views-across-the-script-change:twin-%d:arrangement-%d", ti, arr))
							}
						}
					}
				}
			}
		}
		c.Phase("signature-encodings") // the signature item (a window of the caller's unlocking script) in every encoding a lenient parser may try to tidy up: long-form lengths, padding, trailing bytes, components missing - the caller's scripts and transaction stay as they are whatever the verdict
		{
			n := uint64(0)
			R, S := bytesOf(0x21, 32), bytesOf(0x31, 32)
			der := func(seqLen []byte, rHdr, sHdr []byte) []byte {
				body := append(append(append([]byte{}, rHdr...), R...), append(append([]byte{}, sHdr...), S...)...)
				_ = seqLen
				return body
			}
			plainBody := der(nil, []byte{0x02, 0x20}, []byte{0x02, 0x20})
			longIntBody := der(nil, []byte{0x02, 0x81, 0x20}, []byte{0x02, 0x81, 0x20})
			padBody := append(append([]byte{0x02, 0x23, 0, 0, 0}, R...), append([]byte{0x02, 0x21, 0}, S...)...)
			variants := [][]byte{
				append([]byte{0x30, byte(len(plainBody))}, plainBody...),
				append([]byte{0x30, 0x81, byte(len(plainBody))}, plainBody...),
				append([]byte{0x30, 0x82, 0x00, byte(len(plainBody))}, plainBody...),
				append([]byte{0x30, 0x83, 0x00, 0x00, byte(len(plainBody))}, plainBody...),
				append([]byte{0x30, byte(len(longIntBody))}, longIntBody...),
				append([]byte{0x30, 0x81, byte(len(longIntBody))}, longIntBody...),
				append([]byte{0x30, byte(len(padBody))}, padBody...),
				append(append([]byte{0x30, byte(len(plainBody))}, plainBody...), 0x00, 0x00),
				append([]byte{0x30, 0x81, byte(len(plainBody) + 2)}, plainBody...),
				append([]byte{0x30, 0x80}, plainBody...),
				{0x30, 0x81, 0x00}, {0x30, 0x81}, {0x30, 0x82, 0x00}, {0x30, 0x81, 0x03, 0x02, 0x01, 0x01},
			}
			for vi, v := range variants {
				for _, ht := range []byte{0x01, 0x41, 0x03, 0xc1} {
					for _, fl := range []uint32{0, uint32(scriptflag.UTXOAfterGenesis), uint32(scriptflag.VerifyDERSignatures), uint32(scriptflag.VerifyNullFail), uint32(scriptflag.EnableSighashForkID | scriptflag.UTXOAfterGenesis)} {
						for shape := 0; shape < 4; shape++ {
							n++
							if !c.Case(n) {
								continue
							}
							if shape == 3 && vi > 1 {
								continue
							}
							r := c.Rand(n)
							sig := append(append([]byte{}, v...), ht)
							cs := &c06Case{Flags: fl, Sats: uint64(1 + r.Intn(100000)), Tx: *gen.RandShape(r, gen.ShapeOpts{MinIns: 1, MaxIns: 3, MaxOuts: 3}), Class: "signature-encodings",
								Desc: fmt.Sprintf("signature encoding variant %d, hash type %#x", vi, ht)}
							cs.Idx = r.Intn(len(cs.Tx.Ins))
							u := gen.Push(sig)
							switch shape {
							case 0, 3:
								cs.Lock = append(gen.Push(c07KeyG), 0xac, 0x91)
								if shape == 3 {
									cs.Class += "+placeholder-input"
								}
							case 1: // the signature is DUPed first: the twin must keep its bytes
								cs.Lock = append(append([]byte{0x76}, gen.Push(c07KeyG)...), 0xac, 0x75, 0x75, 0x51)
							default: // 1-of-2 multisig
								u = append([]byte{0x00}, u...)
								cs.Lock = append(append(append([]byte{0x51}, gen.Push(c07KeyG)...), gen.Push(c07Key2G)...), 0x52, 0xae, 0x91)
							}
							cs.Tx.Ins[cs.Idx].Unlock, cs.Tx.Ins[cs.Idx].UnlockNil = u, false
							sigJudge(c, cs)
						}
					}
				}
			}
		}
		c.Phase("signature-programs")
		NS := uint64(3000)
		if c.Thorough {
			NS = 100000
		}
		sigClasses := []string{"correct", "correct", "wrong-key", "wrong-digest", "empty", "high-s", "non-der", "weird-hashtype", "forkid-bit-mismatch"}
		for i := uint64(0); i < NS; i++ {
			if !c.Case(i) {
				continue
			}
			r := c.Rand(i)
			fl := sigFlagSubset(r.Intn(1 << len(sigFlagBits)))
			if r.Chance(1, 2) {
				fl = uint32(scriptflag.EnableSighashForkID | scriptflag.UTXOAfterGenesis)
			}
			fork := scriptflag.Flag(fl)&scriptflag.EnableSighashForkID != 0
			sp := &c06Spec{SepPos: -1, SepKind: "plain", Flags: fl, Not: r.Chance(1, 3)}
			if r.Chance(2, 3) {
				sp.SepPos, sp.SepKind = r.Intn(6), prng.Pick(r, []string{"plain", "unexecuted-if", "executed-if"})
			}
			mkSlot := func(k int) c06Slot {
				s := c06Slot{Key: k, Class: prng.Pick(r, sigClasses), HashType: c06HashType(r, fork)}
				if s.Class == "forkid-bit-mismatch" {
					s.HashType ^= 0x40
				}
				if s.Class == "weird-hashtype" {
					s.HashType = (s.HashType & 0xc0) | 0x04
				}
				return s
			}
			if r.Chance(1, 2) {
				sp.Kind, sp.N = "multisig", 1+r.Intn(4)
				sp.M = 1 + r.Intn(sp.N)
				for k := 0; k < sp.N; k++ {
					sp.KeyEnc = append(sp.KeyEnc, prng.Pick(r, []string{"c", "c", "u", "h", "badprefix", "short"}))
				}
				for k := 0; k < sp.M; k++ {
					sp.Slots = append(sp.Slots, mkSlot(k+r.Intn(sp.N-sp.M+1)))
				}
			} else {
				sp.Kind, sp.N = prng.Pick(r, []string{"p2pk", "p2pkh", "two-checks"}), 2
				sp.KeyEnc = []string{prng.Pick(r, []string{"c", "u", "h", "badprefix"}), "c"}
				sp.Slots = []c06Slot{mkSlot(0)}
				if sp.Kind == "two-checks" {
					sp.Slots = []c06Slot{mkSlot(1), mkSlot(0)}
				}
			}
			// bytes behind a top-level OP_RETURN (after Genesis part of the script code, rewritten for the
			// original hashing algorithm) and operand pushes consumed in front of the check
			if scriptflag.Flag(fl)&scriptflag.UTXOAfterGenesis != 0 && r.Chance(1, 3) {
				sp.LockTail = prng.Pick(r, [][]byte{{0x6a, 0x51, 0xab, 0x52, 0xab, 0x53}, {0x6a, 0xab, 0x01, 0x02}, {0x6a, 0x01, 0xab, 0xab}, {0x6a, 0x61, 0x61, 0xab}, {0x6a, 0x42}, {0x6a, 0x51, 0xab}})
			}
			if r.Chance(1, 4) {
				sp.LockHead = prng.Pick(r, c06Heads)
			}
			sp.ZeroSats = r.Chance(1, 6) // a spent output worth 0 on an input that records another amount
			cs := c06Make(r, sp)
			cs.Desc = fmt.Sprintf("%s m=%d n=%d sep=%d/%s slots=%+v keyenc=%v flags=%#x locktail=%x lockhead=%x", sp.Kind, sp.M, sp.N, sp.SepPos, sp.SepKind, sp.Slots, sp.KeyEnc, sp.Flags, sp.LockTail, sp.LockHead)
			sigJudge(c, cs)
		}
		c.Phase("vectors")
		for i, v := range vs {
			if c.Case(uint64(i)) {
				judge(c, &progInput{Unlock: v.Unlock, Lock: v.Lock, Flags: libFlagsOfVector(v.Flags), Src: "vector",
					Ctx: progCtx{HasTx: true, Version: 1, Sequence: 0xffffffff, Sats: v.Amount}})
			}
		}
		c.Phase("random")
		N := uint64(40000)
		if c.Thorough {
			N = 1500000
		}
		for i := uint64(0); i < N; i++ {
			if !c.Case(i) {
				continue
			}
			r := c.Rand(i)
			fl := randNonSigFlags(r)
			u, l := gen.RandProgram(r, fl&uint32(scriptflag.UTXOAfterGenesis) != 0, 4+r.Intn(50))
			ctx := randCtx(r)
			ctx.HasTx = !r.Chance(1, 4)
			if !ctx.HasTx { // CSV needs a tx for the parser to accept the script
				fl &^= uint32(scriptflag.VerifyCheckLockTimeVerify | scriptflag.VerifyCheckSequenceVerify)
			}
			if ctx.HasTx && r.Chance(1, 6) {
				ctx.NilUnlock = true
			}
			judge(c, &progInput{Unlock: u, Lock: l, Flags: fl, Ctx: ctx, Src: "random"})
		}
		c.Phase("vector-mutants")
		N = 10000
		if c.Thorough {
			N = 300000
		}
		for i := uint64(0); i < N; i++ {
			if !c.Case(i) {
				continue
			}
			r := c.Rand(i)
			v := vs[r.Intn(len(vs))]
			u, l := gen.Mutate(r, v.Unlock), gen.Mutate(r, v.Lock)
			judge(c, &progInput{Unlock: u, Lock: l, Flags: libFlagsOfVector(v.Flags), Src: "vector-mutant",
				Ctx: progCtx{HasTx: true, Version: 1, Sequence: 0xffffffff, Sats: v.Amount}})
		}
	}
	p.Floor = func(a *mon.Agg) string {
		provs, xf := c08Matrix()
		for _, pv := range provs {
			for _, x := range xf {
				if a.Cov["matrix:"+pv.name+":"+x.name] == 0 {
					return "matrix cell " + pv.name + " x " + x.name + " not exercised"
				}
			}
		}
		if a.Cov["C08:frame-checks"] < 10000 || a.Cov["C08:canary-checks"] < 1000 {
			return "too few frame-rule or canary comparisons"
		}
		return ""
	}
	mon.Register(p)
}
