package main

// Concurrent callers of pure functions and concurrent readers of one value.
//
// Encoders, decoders, classifiers, hash computations and size/fee queries do
// not document any restriction on concurrent use and operate on their
// arguments only; goroutines that call them at the same time - on different
// arguments, or only reading one shared value - must each get what a single
// caller gets. These judges run a fixed number of calls from several
// goroutines and compare every result with the reference model (or with the
// result obtained alone beforehand). Nothing depends on timing.

import (
	"bytes"
	"encoding/json"
	"fmt"

	"github.com/libsv/go-bt/v2"
	"github.com/libsv/go-bt/v2/bscript"
	"github.com/libsv/go-bt/v2/bscript/interpreter"
	"github.com/libsv/go-bt/v2/sighash"

	"verif/internal/gen"
	"verif/internal/mon"
	"verif/internal/prng"
	"verif/internal/refaddr"
	"verif/internal/refcodec"
	"verif/internal/refsighash"
)

type concIn struct {
	Seed uint64 `json:"seed"`
}

const concG, concRounds = 6, 30

// concPhase registers the kind and returns the phase runner.
func concPhase(p *mon.Property, judge func(c *mon.Ctx, in *concIn)) func(c *mon.Ctx) {
	k := mon.Kind(p, "concurrent", judge)
	return func(c *mon.Ctx) {
		c.Phase("concurrent-callers")
		n := uint64(40)
		if c.Thorough {
			n = 1500
		}
		for i := uint64(0); i < n; i++ {
			if c.Case(i) {
				k(c, &concIn{Seed: c.Rand(i).Uint64()})
			}
		}
	}
}

func concReport(c *mon.Ctx, what, bad string) {
	c.Eval(1)
	if bad != "" {
		c.Violationf(c.Prop.ID+":concurrent-callers-differ:"+what, "%d goroutines x %d calls of %s: %s", concG, concRounds, what, bad)
		return
	}
	c.Count("concurrent-callers:agree:" + what)
}

// ---- C02 / C03: signature hashes of one transaction computed in parallel (as when inputs are signed in parallel)
func concSighash(legacy bool) func(c *mon.Ctx, in *concIn) {
	return func(c *mon.Ctx, in *concIn) {
		r := prng.New(in.Seed, "conc-sighash", 0)
		types := shHashTypes(!legacy)
		type job struct {
			tx   *bt.Tx
			idx  int
			ht   byte
			want [32]byte
		}
		var jobs []job
		var txs []*bt.Tx
		var befores [][]byte
		// one small transaction shared by all goroutines and two larger ones
		// (16..20 inputs): readers of one value, and independent values in parallel
		for t := 0; t < 3; t++ {
			o := gen.ShapeOpts{MinIns: 2, MaxIns: 5, MaxOuts: 4, ScriptLens: []int{0, 1, 25, 80}}
			if t > 0 {
				o.MinIns, o.MaxIns = 16, 20
			}
			s := gen.RandShape(r, o)
			for i := range s.Ins {
				s.Ins[i].PrevScriptNil = false
				if len(s.Ins[i].TxID) != 32 {
					return
				}
			}
			tx := s.BuildShared()
			m := shModelTx(s)
			for k := 0; k < 6; k++ {
				j := job{tx: tx, idx: r.Intn(len(s.Ins)), ht: prng.Pick(r, types)}
				var err error
				if legacy {
					j.want, err = refsighash.LegacyDigest(m, j.idx, s.Ins[j.idx].PrevScript, uint32(j.ht))
				} else {
					j.want, err = refsighash.ForkIDDigest(m, j.idx, s.Ins[j.idx].PrevScript, s.Ins[j.idx].PrevSats, uint32(j.ht))
				}
				if err != nil {
					return
				}
				jobs = append(jobs, j)
			}
			txs, befores = append(txs, tx), append(befores, tx.ExtendedBytes())
		}
		bad := mon.Concurrently(concG, concRounds, func(g, k int) string {
			j := jobs[(g*7+k)%len(jobs)]
			got, err := j.tx.CalcInputSignatureHash(uint32(j.idx), sighash.Flag(j.ht))
			if err != nil || !bytes.Equal(got, j.want[:]) {
				return fmt.Sprintf("CalcInputSignatureHash(input %d of %d, type %#x) = %x, %v; reference %x", j.idx, len(j.tx.Inputs), j.ht, got, err, j.want)
			}
			return ""
		})
		for t := range txs {
			if bad == "" && !bytes.Equal(txs[t].ExtendedBytes(), befores[t]) {
				bad = "a transaction changed: " + hexShort(txs[t].ExtendedBytes()) + " was " + hexShort(befores[t])
			}
		}
		concReport(c, "CalcInputSignatureHash", bad)
	}
}

// ---- C11: size and fee queries on one transaction
func concSizes(c *mon.Ctx, in *concIn) {
	r := prng.New(in.Seed, "conc-size", 0)
	s := gen.RandShape(r, gen.ShapeOpts{MinIns: 1, MaxIns: 4, MaxOuts: 5, ScriptLens: []int{0, 1, 25, 80}})
	for i := range s.Outs {
		if r.Chance(1, 3) {
			s.Outs[i].Script = append([]byte{0x00, 0x6a}, gen.Push(r.Bytes(r.Intn(60)))...)
		}
	}
	tx := s.BuildShared()
	fq := randQuote(r).lib()
	size0, types0 := tx.Size(), *tx.SizeWithTypes()
	paid0, err0 := tx.IsFeePaidEnough(fq)
	bad := mon.Concurrently(concG, concRounds, func(g, k int) string {
		switch (g + k) % 3 {
		case 0:
			if z := tx.Size(); z != size0 {
				return fmt.Sprintf("Size() = %d, alone %d", z, size0)
			}
		case 1:
			if t := *tx.SizeWithTypes(); t != types0 {
				return fmt.Sprintf("SizeWithTypes() = %+v, alone %+v", t, types0)
			}
		default:
			if p, err := tx.IsFeePaidEnough(fq); p != paid0 || (err == nil) != (err0 == nil) {
				return fmt.Sprintf("IsFeePaidEnough = %v, %v; alone %v, %v", p, err, paid0, err0)
			}
		}
		return ""
	})
	concReport(c, "Size/SizeWithTypes/IsFeePaidEnough", bad)
}

// ---- C13: script codecs
func concScripts(c *mon.Ctx, in *concIn) {
	r := prng.New(in.Seed, "conc-script", 0)
	type job struct {
		items  [][]byte
		script []byte
		asm    string
	}
	var jobs []job
	for k := 0; k < 8; k++ {
		var items [][]byte
		for n := 1 + r.Intn(4); n > 0; n-- {
			items = append(items, r.Bytes(prng.Pick(r, []int{1, 2, 20, 75, 76, 255, 256, 300})))
		}
		j := job{items: items, script: refcodec.EncodeItems(items)}
		j.asm, _ = bscript.NewFromBytes(append([]byte{}, j.script...)).ToASM()
		jobs = append(jobs, j)
	}
	bad := mon.Concurrently(concG, concRounds, func(g, k int) string {
		j := jobs[(g*5+k)%len(jobs)]
		switch k % 4 {
		case 0:
			if enc, err := bscript.EncodeParts(j.items); err != nil || !bytes.Equal(enc, j.script) {
				return fmt.Sprintf("EncodeParts differs from the minimal encoding (%v)", err)
			}
		case 1:
			parts, err := bscript.DecodeParts(append([]byte{}, j.script...))
			if err != nil || len(parts) != len(j.items) {
				return fmt.Sprintf("DecodeParts returned %d parts, %v", len(parts), err)
			}
			for i := range parts {
				if !bytes.Equal(parts[i], j.items[i]) {
					return "DecodeParts returned a different item"
				}
			}
		case 2:
			var p interpreter.DefaultOpcodeParser
			ps, err := p.Parse(bscript.NewFromBytes(append([]byte{}, j.script...)))
			if err != nil {
				return "Parse: " + err.Error()
			}
			if un, err := p.Unparse(ps); err != nil || !bytes.Equal(*un, j.script) {
				return "Unparse(Parse(s)) differs"
			}
		default:
			scr := bscript.NewFromBytes(append([]byte{}, j.script...))
			asm, err := scr.ToASM()
			if err != nil || asm != j.asm {
				return fmt.Sprintf("ToASM = %.60q, alone %.60q (%v)", asm, j.asm, err)
			}
			js, err := json.Marshal(scr)
			var back bscript.Script
			if err != nil || json.Unmarshal(js, &back) != nil || !bytes.Equal(back, j.script) {
				return "JSON round trip differs"
			}
		}
		return ""
	})
	concReport(c, "EncodeParts/DecodeParts/Parse/ToASM/JSON", bad)
}

// ---- C14: inspection of one shared script value
func concInspect(c *mon.Ctx, in *concIn) {
	r := prng.New(in.Seed, "conc-inspect", 0)
	var scripts []*bscript.Script
	var want []string
	h := r.Bytes(20)
	key := append([]byte{0x02}, r.Bytes(32)...)
	for _, s := range [][]byte{gen.P2PKH(h), append(gen.Push(key), 0xac), append(append([]byte{0xa9, 0x14}, h...), 0x87),
		append(append(append([]byte{0x51}, gen.Push(key)...), gen.Push(key)...), 0x52, 0xae), append([]byte{0x00, 0x6a}, gen.Push(r.Bytes(30))...), r.Bytes(12)} {
		sc := bscript.NewFromBytes(s)
		scripts = append(scripts, sc)
		asm, _ := sc.ToASM()
		pkh, _ := sc.PublicKeyHash()
		want = append(want, fmt.Sprintf("%s|%v%v%v%v%v|%x|%s", sc.ScriptType(), sc.IsP2PKH(), sc.IsP2PK(), sc.IsP2SH(), sc.IsData(), sc.IsMultiSigOut(), pkh, asm))
	}
	bad := mon.Concurrently(concG, concRounds, func(g, k int) string {
		i := (g + k) % len(scripts)
		sc := scripts[i]
		asm, _ := sc.ToASM()
		pkh, _ := sc.PublicKeyHash()
		got := fmt.Sprintf("%s|%v%v%v%v%v|%x|%s", sc.ScriptType(), sc.IsP2PKH(), sc.IsP2PK(), sc.IsP2SH(), sc.IsData(), sc.IsMultiSigOut(), pkh, asm)
		if got != want[i] {
			return fmt.Sprintf("inspection of %x gives %.120s, alone %.120s", []byte(*sc), got, want[i])
		}
		return ""
	})
	concReport(c, "ScriptType/Is*/PublicKeyHash/ToASM", bad)
}

// ---- C15: addresses
func concAddresses(c *mon.Ctx, in *concIn) {
	r := prng.New(in.Seed, "conc-addr", 0)
	var hs [][]byte
	for k := 0; k < 8; k++ {
		hs = append(hs, r.Bytes(20))
	}
	bad := mon.Concurrently(concG, concRounds, func(g, k int) string {
		h := hs[(g*3+k)%len(hs)]
		mainnet := (g+k)%2 == 0
		ver := byte(0x6f)
		if mainnet {
			ver = 0
		}
		want := refaddr.CheckEncode(ver, h)
		switch k % 3 {
		case 0:
			a, err := bscript.NewAddressFromPublicKeyHash(h, mainnet)
			if err != nil || a == nil || a.AddressString != want {
				return fmt.Sprintf("NewAddressFromPublicKeyHash(%x) = %+v, %v; want %s", h, a, err, want)
			}
		case 1:
			if ok, err := bscript.ValidateAddress(want); !ok || err != nil {
				return fmt.Sprintf("ValidateAddress(%s) = %v, %v", want, ok, err)
			}
			a, err := bscript.NewAddressFromString(want)
			if err != nil || a == nil || a.PublicKeyHash != fmt.Sprintf("%x", h) {
				return fmt.Sprintf("NewAddressFromString(%s) = %+v, %v", want, a, err)
			}
		default:
			s, err := bscript.NewP2PKHFromAddress(want)
			if err != nil || s == nil || !bytes.Equal(*s, gen.P2PKH(h)) {
				return fmt.Sprintf("NewP2PKHFromAddress(%s) is not the canonical script (%v)", want, err)
			}
		}
		return ""
	})
	concReport(c, "address constructors / ValidateAddress", bad)
}

// ---- C16: marshalling one transaction from several goroutines
func concJSON(c *mon.Ctx, in *concIn) {
	r := prng.New(in.Seed, "conc-json", 0)
	s := gen.RandShape(r, gen.ShapeOpts{MinIns: 1, MaxIns: 3, MaxOuts: 3, ScriptLens: []int{0, 1, 25, 80}})
	for i := range s.Outs {
		s.Outs[i].Sats %= 21e14
	}
	for i := range s.Ins {
		if len(s.Ins[i].TxID) != 32 {
			return
		}
	}
	tx := s.Build()
	lib0, err1 := json.Marshal(tx)
	node0, err2 := json.Marshal(tx.NodeJSON())
	if err1 != nil || err2 != nil {
		return
	}
	raw := tx.Bytes()
	bad := mon.Concurrently(concG, concRounds, func(g, k int) string {
		var js []byte
		var err error
		back := bt.NewTx()
		if (g+k)%2 == 0 {
			if js, err = json.Marshal(tx); err == nil && !bytes.Equal(js, lib0) {
				return "json.Marshal(tx) differs from the document obtained alone"
			}
			if err == nil {
				err = json.Unmarshal(js, back)
			}
		} else {
			if js, err = json.Marshal(tx.NodeJSON()); err == nil && !bytes.Equal(js, node0) {
				return "json.Marshal(tx.NodeJSON()) differs from the document obtained alone"
			}
			if err == nil {
				err = json.Unmarshal(js, back.NodeJSON())
			}
		}
		if err != nil || !bytes.Equal(back.Bytes(), raw) {
			return fmt.Sprintf("round trip gives %x, %v; the transaction is %x", back.Bytes(), err, raw)
		}
		return ""
	})
	concReport(c, "json.Marshal/Unmarshal of one transaction", bad)
}

// ---- C17: BIP276 (version == network: the known encoder layout finding is not involved)
func concBIP276(c *mon.Ctx, in *concIn) {
	r := prng.New(in.Seed, "conc-bip276", 0)
	type job struct {
		t    refaddr.BIP276
		text string
	}
	var jobs []job
	for k := 0; k < 8; k++ {
		v := 1 + r.Intn(200)
		t := refaddr.BIP276{Prefix: prng.Pick(r, []string{"bitcoin-script", "bitcoin-template", "x"}), Version: v, Network: v, Data: r.Bytes(1 + r.Intn(60))}
		jobs = append(jobs, job{t, refaddr.EncodeBIP276(t)})
	}
	bad := mon.Concurrently(concG, concRounds, func(g, k int) string {
		j := jobs[(g*3+k)%len(jobs)]
		if k%2 == 0 {
			if got := bscript.EncodeBIP276(bscript.BIP276{Prefix: j.t.Prefix, Version: j.t.Version, Network: j.t.Network, Data: append([]byte{}, j.t.Data...)}); got != j.text {
				return fmt.Sprintf("EncodeBIP276 = %q, specification %q", got, j.text)
			}
			return ""
		}
		d, err := bscript.DecodeBIP276(j.text)
		if err != nil || d == nil || d.Prefix != j.t.Prefix || d.Version != j.t.Version || d.Network != j.t.Network || !bytes.Equal(d.Data, j.t.Data) {
			return fmt.Sprintf("DecodeBIP276(%q) = %+v, %v", j.text, d, err)
		}
		return ""
	})
	concReport(c, "EncodeBIP276/DecodeBIP276", bad)
}
