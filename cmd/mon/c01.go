package main

import (
	"bytes"
	"encoding/hex"
	"fmt"
	"io"
	"os"
	"path/filepath"
	"sync"

	"github.com/libsv/go-bt/v2"
	"github.com/libsv/go-bt/v2/bscript"

	"verif/internal/gen"
	"verif/internal/mon"
	"verif/internal/prng"
	"verif/internal/refcodec"
)

// C01 — transaction wire codec is lossless and canonical (standard, extended,
// stream, counted list). DESIGN §3 C01.

// c01Matrix is the compact recipe of a boundary structure: NIn inputs, NOut
// outputs, one designated script (Pos) of exactly Len bytes, everything else
// drawn from prng.New(Seed, "C01/matrix", N).
type c01Matrix struct {
	NIn  int    `json:"n_in"`
	NOut int    `json:"n_out"`
	Len  int    `json:"len"`
	Pos  string `json:"pos"` // unlock | prev | lock | none
	Seed uint64 `json:"seed"`
	N    uint64 `json:"n"`
}

type c01Struct struct {
	Shape *gen.Shape `json:"shape"`
	Tag   string     `json:"tag"`
}

// c01Bytes is a byte string for the bytes -> structure clause. Txs is how many
// transactions the generator laid end to end (stream mode); List selects
// counted-list parsing.
type c01Bytes struct {
	Bytes mon.Hex `json:"bytes"`
	Class string  `json:"class"`
	List  bool    `json:"list,omitempty"`
	Txs   int     `json:"txs"`
}

func verifTestdata() string {
	root := os.Getenv("VERIF_ROOT")
	if root == "" {
		root = "/verif"
	}
	return filepath.Join(root, "testdata")
}

var c01QuickCounts = []int{0, 1, 252, 253, 254}
var c01ThoroughCounts = []int{0, 1, 252, 253, 254, 65535, 65536}

func init() {
	p := &mon.Property{
		ID: "C01",
		Rule: "matrix: full cross product of varint classes for input count x output count (quick {0,1,252,253,254}; thorough adds 65535, 65536) x length class {0,1,252,253,254,65535,65536} of one designated script x its position (unlocking / previous / locking script), other fields from the PRNG incl. nil unlocking and previous scripts; " +
			"int-edges: every uint32 edge in version/locktime/vout/sequence and every uint64 edge in output value / previous value; prev-nil: every nil/empty/filled combination of unlocking x previous script on 1- and 2-input transactions; near-ambiguous: the neighbours of the excluded shape; " +
			"random: PRNG structures (quick 20k, thorough 1M, 0..6 inputs/outputs, script lengths around 0/75/76/252..256). Each structure is serialised by go-bt (Bytes, ExtendedBytes) and by an independent codec (byte-for-byte equal), both encodings are parsed by NewTxFromBytes, NewTxFromStream, Tx.ReadFrom over a plain / one-byte-at-a-time / counting reader (the latter into a dirty receiver) and Txs.ReadFrom, every parsed field is compared (nil script == empty), the parsed value is re-serialised, TxID/TxIDBytes are recomputed with crypto/sha256, Clone is compared on all fields. " +
			"bytes: reference encodings with non-minimal varints (every single position x every wider width, and random mixes), streams of 1..5 concatenated transactions of mixed format with and without trailing junk, counted lists (count classes 0,1,2,5,252,253,254 (+65535,65536 thorough)), every prefix of valid encodings; if go-bt accepts then the reference accepts, consumed == reference consumed == reader position, fields equal, and the re-serialisation in the arrival format equals the canonical encoding (== the consumed bytes when every varint was minimal); a canonical encoding must be accepted; NewTxFromBytes accepts only with no bytes left. " +
			"Never generated: no inputs, no outputs, locktime bytes 00 00 00 EF. " +
			"distinct_nontrivial = distinct structures with at least one input or output whose two encodings were accepted by all six parser entry points and compared, plus distinct byte strings (non-minimal / stream / list / junk) of which go-bt accepted at least one transaction that was then compared with the reference decode.",
		Assum: []string{
			"reference codec /verif/internal/refcodec (no go-bt imports), validated at the start of every child against tx_valid.json / tx_invalid.json (decode to the end, identical re-encoding, quoted txids) and the genesis coinbase id",
			"the extended format is recognised by the literal bytes 00 00 00 00 00 EF after the version; the one shape this makes ambiguous is excluded as the property does",
			"crypto/sha256 of the Go standard library",
			"outputs always carry a non-nil locking script (nil == empty is only claimed for unlocking and previous scripts)",
		},
	}
	jm := mon.Kind(p, "matrix", func(c *mon.Ctx, in *c01Matrix) {
		s := in.shape()
		if c01JudgeShape(c, s, "matrix") {
			l := "none"
			if in.Pos != "none" {
				l = fmt.Sprint(in.Len)
			}
			c.Count(fmt.Sprintf("cell:in=%d:out=%d:len=%s", in.NIn, in.NOut, l))
			c.Count("pos:" + in.Pos + ":len=" + l)
		}
	})
	js := mon.Kind(p, "struct", func(c *mon.Ctx, in *c01Struct) {
		if in.Shape != nil && c01JudgeShape(c, in.Shape, in.Tag) {
			c.Count("struct-ok:" + in.Tag)
		}
	})
	jb := mon.Kind(p, "bytes", c01JudgeBytes)
	jc := mon.Kind(p, "readers", c01JudgeReaders)

	p.Run = func(c *mon.Ctx) {
		nvec, err := refcodec.SelfCheck(verifTestdata())
		if err != nil {
			c.Fault("refcodec failed its vectors: " + err.Error())
			return
		}
		c.Info("model_vectors_reproduced", nvec)
		c.Count("tier:" + c.Tier)

		// ------------------------------------------------------------ matrix
		c.Phase("matrix")
		counts := c01QuickCounts
		if c.Thorough {
			counts = c01ThoroughCounts
		}
		n := uint64(0)
		for _, ni := range counts {
			for _, no := range counts {
				if ni == 0 && no == 0 {
					n++
					if c.Case(n) {
						jm(c, &c01Matrix{NIn: 0, NOut: 0, Pos: "none", Seed: c.Seed, N: n})
					}
					continue
				}
				for _, l := range gen.VarintClasses {
					for _, pos := range []string{"unlock", "prev", "lock"} {
						if (pos == "lock" && no == 0) || (pos != "lock" && ni == 0) {
							continue
						}
						n++
						if c.Case(n) {
							jm(c, &c01Matrix{NIn: ni, NOut: no, Len: l, Pos: pos, Seed: c.Seed, N: n})
						}
					}
				}
			}
		}

		// ------------------------------------------------------------ element-count sweep
		// every input count and every output count from 0 to 1300 (thorough: 5000): whatever block
		// size a parser or serialiser works in, some count is a multiple of it and some is one more
		c.Phase("element-count-sweep")
		{
			top := 1300
			if c.Thorough {
				top = 5000
			}
			n := uint64(0)
			for k := 0; k <= top; k++ {
				for side := 0; side < 2; side++ {
					n++
					if !c.Case(n) {
						continue
					}
					m := &c01Matrix{NIn: k, NOut: 1 + k%2, Pos: "none", Seed: c.Seed, N: n}
					if side == 1 {
						m = &c01Matrix{NIn: 1 + k%2, NOut: k, Pos: "none", Seed: c.Seed, N: n}
					}
					if k >= 2 {
						m.Pos, m.Len = []string{"unlock", "lock"}[side], k%7
					}
					jm(c, m)
				}
			}
		}

		// ------------------------------------------------------------ integer edges
		c.Phase("int-edges")
		n = 0
		base := func(r *prng.R) *gen.Shape {
			s := gen.RandShape(r, gen.ShapeOpts{MinIns: 1, MaxIns: 2, MaxOuts: 2, AllowNil: true})
			if len(s.Outs) == 0 {
				s.Outs = append(s.Outs, gen.Out{Sats: 1, Script: []byte{0x51}})
			}
			return s
		}
		for _, f := range []string{"version", "locktime", "vout", "sequence"} {
			for _, v := range gen.U32Edges {
				n++
				if !c.Case(n) {
					continue
				}
				s := base(c.Rand(n))
				switch f {
				case "version":
					s.Version = v
				case "locktime":
					s.LockTime = v
				case "vout":
					s.Ins[len(s.Ins)-1].Vout = v
				case "sequence":
					s.Ins[0].Seq = v
				}
				js(c, &c01Struct{Shape: s, Tag: fmt.Sprintf("edge:%s:%#x", f, v)})
			}
		}
		for _, f := range []string{"satoshis", "prev-satoshis"} {
			for _, v := range gen.U64Edges {
				n++
				if !c.Case(n) {
					continue
				}
				s := base(c.Rand(n))
				if f == "satoshis" {
					s.Outs[len(s.Outs)-1].Sats = v
				} else {
					s.Ins[0].PrevSats = v
				}
				js(c, &c01Struct{Shape: s, Tag: fmt.Sprintf("edge:%s:%#x", f, v)})
			}
		}
		// all fields at an edge at once
		for i := 0; i < 64; i++ {
			n++
			if !c.Case(n) {
				continue
			}
			r := c.Rand(n)
			s := base(r)
			s.Version, s.LockTime = prng.Pick(r, gen.U32Edges), prng.Pick(r, gen.U32Edges)
			for k := range s.Ins {
				s.Ins[k].Vout, s.Ins[k].Seq, s.Ins[k].PrevSats = prng.Pick(r, gen.U32Edges), prng.Pick(r, gen.U32Edges), prng.Pick(r, gen.U64Edges)
			}
			for k := range s.Outs {
				s.Outs[k].Sats = prng.Pick(r, gen.U64Edges)
			}
			js(c, &c01Struct{Shape: s, Tag: "edge:all-fields"})
		}

		// ------------------------------------------------------------ outpoints with a meaning of their own
		// previous txids that are all zero / all ones / one bit, with index and sequence at their edges,
		// on 1 .. 3 inputs (one input spending 00..00:ffffffff is what a coinbase looks like): the recorded
		// previous value and script are data like any other
		c.Phase("special-outpoints")
		n = 0
		for _, id := range [][]byte{make([]byte, 32), bytes.Repeat([]byte{0xff}, 32), append(make([]byte, 31), 1), append([]byte{1}, make([]byte, 31)...)} {
			for _, vout := range []uint32{0, 1, 0xfffffffe, 0xffffffff} {
				for _, seq := range []uint32{0, 0xfffffffe, 0xffffffff} {
					for nin := 1; nin <= 3; nin++ {
						n++
						if !c.Case(n) {
							continue
						}
						r := c.Rand(n)
						s := &gen.Shape{Version: 1 + uint32(n%2), LockTime: uint32(n % 3)}
						for k := 0; k < nin; k++ {
							in := gen.In{TxID: r.Bytes(32), Vout: gen.U32(r), Seq: gen.U32(r), Unlock: r.Bytes(r.Intn(5)), PrevSats: 1 + gen.Sats(r), PrevScript: gen.P2PKH(r.Bytes(20))}
							if k == int(n)%nin {
								in.TxID, in.Vout, in.Seq = append([]byte{}, id...), vout, seq
							}
							s.Ins = append(s.Ins, in)
						}
						for k := 0; k < int(n%3); k++ {
							s.Outs = append(s.Outs, gen.Out{Sats: gen.Sats(r), Script: gen.P2PKH(r.Bytes(20))})
						}
						js(c, &c01Struct{Shape: s, Tag: "special-outpoint"})
					}
				}
			}
		}

		// ------------------------------------------------------------ nil / empty scripts
		c.Phase("prev-nil")
		n = 0
		forms := []string{"nil", "empty", "filled"}
		mk := func(r *prng.R, u, pv string) gen.In {
			in := gen.In{TxID: r.Bytes(32), Vout: gen.U32(r), Seq: gen.U32(r), PrevSats: gen.U64(r)}
			switch u {
			case "nil":
				in.UnlockNil = true
			case "empty":
				in.Unlock = []byte{}
			default:
				in.Unlock = r.Bytes(1 + r.Intn(40))
			}
			switch pv {
			case "nil":
				in.PrevScriptNil = true
			case "empty":
				in.PrevScript = []byte{}
			default:
				in.PrevScript = gen.P2PKH(r.Bytes(20))
			}
			return in
		}
		for _, u := range forms {
			for _, pv := range forms {
				for nout := 0; nout <= 1; nout++ {
					n++
					if !c.Case(n) {
						continue
					}
					r := c.Rand(n)
					s := &gen.Shape{Version: 1, LockTime: gen.U32(r), Ins: []gen.In{mk(r, u, pv)}}
					if nout == 1 {
						s.Outs = []gen.Out{{Sats: gen.U64(r), Script: []byte{}}}
					}
					js(c, &c01Struct{Shape: s, Tag: "prevnil:" + u + "/" + pv})
				}
			}
		}
		for _, u := range forms {
			for _, pv := range forms {
				for _, u2 := range forms {
					for _, pv2 := range forms {
						n++
						if !c.Case(n) {
							continue
						}
						r := c.Rand(n)
						s := &gen.Shape{Version: 2, LockTime: 0, Ins: []gen.In{mk(r, u, pv), mk(r, u2, pv2)}, Outs: []gen.Out{{Sats: gen.U64(r), Script: gen.P2PKH(r.Bytes(20))}}}
						js(c, &c01Struct{Shape: s, Tag: "prevnil2"})
					}
				}
			}
		}

		// ------------------------------------------------------------ neighbours of the excluded shape
		c.Phase("near-ambiguous")
		h32 := bytes.Repeat([]byte{0}, 32)
		oneIn := []gen.In{{TxID: h32, Unlock: []byte{}, PrevScript: []byte{}}}
		oneOut := []gen.Out{{Sats: 0, Script: []byte{}}}
		near := []*gen.Shape{
			{Version: 1, LockTime: 0},
			{Version: 0, LockTime: 0},
			{Version: 1, LockTime: 0x000000ef},
			{Version: 1, LockTime: 0xef000001},
			{Version: 1, LockTime: 0xee000000},
			{Version: 1, LockTime: 0xef0000ff},
			{Version: 1, LockTime: 0xffffffff},
			{Version: 0xef000000, LockTime: 0},
			{Version: 0, LockTime: 0xef000000, Outs: oneOut},
			{Version: 1, LockTime: 0xef000000, Ins: oneIn},
			{Version: 1, LockTime: 0xef000000, Ins: oneIn, Outs: oneOut},
			{Version: 1, LockTime: 0xef000000, Outs: []gen.Out{{Sats: 0xef00000000000000, Script: []byte{0, 0, 0, 0, 0, 0xef}}}},
			{Version: 1, LockTime: 0, Ins: []gen.In{{TxID: append(bytes.Repeat([]byte{0}, 26), 0xef, 0, 0, 0, 0, 0), Unlock: []byte{0, 0, 0, 0, 0, 0xef}, PrevScript: []byte{0xef}}}},
			{Version: 1, LockTime: 0, Ins: []gen.In{{TxID: h32, UnlockNil: true, PrevScriptNil: true}}},
		}
		for i, s := range near {
			if c.Case(uint64(i)) {
				js(c, &c01Struct{Shape: s, Tag: "near-ambiguous"})
			}
		}

		// ------------------------------------------------------------ non-minimal varints
		c.Phase("nonminimal-each")
		nbase := 40
		if c.Thorough {
			nbase = 120
		}
		smallOpts := gen.ShapeOpts{MaxIns: 3, MaxOuts: 3, AllowNil: true, ScriptLens: []int{0, 1, 252, 253, 300}}
		for i := 0; i < nbase; i++ {
			if !c.Case(uint64(i)) {
				continue
			}
			r := c.Rand(uint64(i))
			t := c01Ref(gen.RandShape(r, smallOpts))
			for _, ext := range []bool{false, true} {
				_, fs := refcodec.EncodeTrace(t, ext, nil)
				for k, f := range fs {
					for _, w := range []int{3, 5, 9} {
						if w <= f.Width {
							continue
						}
						kk, ww := k, w
						b := refcodec.Encode(t, ext, func(j int, _ string, _ uint64) int {
							if j == kk {
								return ww
							}
							return 0
						})
						jb(c, &c01Bytes{Bytes: b, Class: fmt.Sprintf("nonminimal:%s:w%d", f.Kind, w), Txs: 1})
					}
				}
			}
		}
		c.Phase("huge-claims") // every count / length field replaced by a value the data cannot back: the parsers must refuse
		for i := 0; i < nbase; i++ {
			if !c.Case(uint64(i)) {
				continue
			}
			r := c.Rand(uint64(i))
			t := c01Ref(gen.RandShape(r, gen.ShapeOpts{MaxIns: 2, MaxOuts: 2, AllowNil: true, ScriptLens: []int{0, 1, 30}}))
			for _, ext := range []bool{false, true} {
				enc, fs := refcodec.EncodeTrace(t, ext, nil)
				for _, f := range fs {
					for _, v := range []uint64{f.Value + 1, f.Value + 0xfd, 1 << 16, 1 << 31, 1<<32 - 1, 1 << 32, 1<<63 - 1, 1 << 63, 1<<63 + f.Value, 1<<64 - 1, 1<<64 - 1 - f.Value} {
						if v == f.Value {
							continue
						}
						b := append([]byte{}, enc[:f.Off]...)
						b = refcodec.AppendVarint(b, v, 0)
						b = append(b, enc[f.Off+f.Width:]...)
						jb(c, &c01Bytes{Bytes: b, Class: "huge-claim:" + f.Kind, Txs: 1})
					}
				}
			}
		}
		c.Phase("nonminimal-random")
		nn := 10000
		if c.Thorough {
			nn = 100000
		}
		widths := []int{0, 0, 3, 5, 9}
		for i := 0; i < nn; i++ {
			if !c.Case(uint64(i)) {
				continue
			}
			r := c.Rand(uint64(i))
			t := c01Ref(gen.RandShape(r, smallOpts))
			b := refcodec.Encode(t, r.Bool(), func(int, string, uint64) int { return prng.Pick(r, widths) })
			jb(c, &c01Bytes{Bytes: b, Class: "nonminimal:random", Txs: 1})
		}

		// ------------------------------------------------------------ streams, junk, lists
		c.Phase("streams")
		ns := 8000
		if c.Thorough {
			ns = 60000
		}
		junks := [][]byte{nil, nil, {0x00}, {0x00, 0x00, 0x00, 0x00, 0x00, 0xef}, {0xef}, {0xff, 0xff}, {0x01, 0x00, 0x00, 0x00}}
		for i := 0; i < ns; i++ {
			if !c.Case(uint64(i)) {
				continue
			}
			r := c.Rand(uint64(i))
			k := 1 + i%5
			var b []byte
			nonmin := r.Chance(1, 4)
			for j := 0; j < k; j++ {
				t := c01Ref(gen.RandShape(r, smallOpts))
				var w refcodec.Widths
				if nonmin {
					w = func(int, string, uint64) int { return prng.Pick(r, widths) }
				}
				b = append(b, refcodec.Encode(t, r.Bool(), w)...)
			}
			junk := prng.Pick(r, junks)
			if r.Chance(1, 5) {
				junk = r.Bytes(1 + r.Intn(20))
			}
			b = append(b, junk...)
			class := fmt.Sprintf("stream:k=%d", k)
			if len(junk) > 0 {
				class += "+junk"
			}
			jb(c, &c01Bytes{Bytes: b, Class: class, Txs: k})
		}
		c.Phase("lists")
		lcounts := []int{0, 1, 2, 5, 252, 253, 254, 1023, 1024, 1025, 2049, 4100} // incl. counts around powers of two (internal batch / slab sizes)
		if c.Thorough {
			lcounts = append(lcounts, 65535, 65536)
		}
		nl := 1200
		if c.Thorough {
			nl = 4000
		}
		for i := 0; i < nl; i++ {
			if !c.Case(uint64(i)) {
				continue
			}
			r := c.Rand(uint64(i))
			cnt := lcounts[i%len(lcounts)]
			if i >= 2*len(lcounts) && cnt > 254 {
				cnt = r.Intn(6)
			}
			opts := smallOpts
			if cnt > 5 {
				opts = gen.ShapeOpts{MaxIns: 1, MaxOuts: 1, AllowNil: true}
			}
			txs := make([]*refcodec.Tx, cnt)
			exts := make([]bool, cnt)
			for j := range txs {
				txs[j] = c01Ref(gen.RandShape(r, opts))
				exts[j] = r.Bool()
			}
			var w refcodec.Widths
			if r.Chance(1, 4) {
				w = func(int, string, uint64) int { return prng.Pick(r, widths) }
			}
			b, _ := refcodec.EncodeList(txs, exts, w)
			b = append(b, prng.Pick(r, junks)...)
			jb(c, &c01Bytes{Bytes: b, Class: fmt.Sprintf("list:count=%d", cnt), List: true, Txs: cnt})
		}

		c.Phase("duplicate-outpoints") // several inputs spend the same outpoint, with equal or different recorded previous value / script (the extended format carries them per input)
		for i := uint64(0); i < 60; i++ {
			if !c.Case(i) {
				continue
			}
			r := c.Rand(i)
			s := gen.ShapeN(r, 2+int(i%3), int(i%4), smallOpts)
			for k := 1; k < len(s.Ins); k++ {
				s.Ins[k].TxID, s.Ins[k].Vout = s.Ins[0].TxID, s.Ins[0].Vout
				switch (int(i) + k) % 4 {
				case 0:
					s.Ins[k].PrevSats, s.Ins[k].PrevScript, s.Ins[k].PrevScriptNil = s.Ins[0].PrevSats, s.Ins[0].PrevScript, s.Ins[0].PrevScriptNil
				case 1:
					s.Ins[k].PrevSats = s.Ins[0].PrevSats + 1
				case 2:
					s.Ins[k].PrevScript, s.Ins[k].PrevScriptNil = []byte{}, false
				}
			}
			c01JudgeShape(c, s, "duplicate-outpoints")
		}
		c.Phase("lists-announcing-more-than-they-hold") // the data ends exactly on a transaction boundary (or right behind the count) although more transactions are announced
		{
			n := uint64(0)
			for present := 0; present <= 3; present++ {
				for _, more := range []int{1, 2, 250, 70000} {
					for _, ext := range []bool{false, true} {
						n++
						if !c.Case(n) {
							continue
						}
						r := c.Rand(n)
						b := refcodec.AppendVarint(nil, uint64(present+more), 0)
						for j := 0; j < present; j++ {
							b = append(b, refcodec.Encode(c01Ref(gen.RandShape(r, smallOpts)), ext && j%2 == 0, nil)...)
						}
						jb(c, &c01Bytes{Bytes: b, Class: fmt.Sprintf("list:holds=%d:announces=%d", present, present+more), List: true, Txs: present + more})
					}
				}
			}
		}

		// ------------------------------------------------------------ truncations
		c.Phase("truncated")
		nt := 40
		if c.Thorough {
			nt = 200
		}
		for i := 0; i < nt; i++ {
			if !c.Case(uint64(i)) {
				continue
			}
			r := c.Rand(uint64(i))
			t := c01Ref(gen.RandShape(r, gen.ShapeOpts{MinIns: i % 2, MaxIns: 2, MaxOuts: 2, AllowNil: true}))
			for _, ext := range []bool{false, true} {
				b := refcodec.Encode(t, ext, nil)
				for k := 0; k < len(b); k++ {
					jb(c, &c01Bytes{Bytes: b[:k], Class: "truncated", Txs: 1})
				}
			}
		}

		// ------------------------------------------------------------ random structures
		c.Phase("random")
		nr := uint64(20000)
		if c.Thorough {
			nr = 1000000
		}
		ropts := gen.ShapeOpts{MaxIns: 6, MaxOuts: 6, AllowNil: true, ScriptLens: []int{0, 1, 75, 76, 252, 253, 254, 255, 256}}
		for i := uint64(0); i < nr; i++ {
			if !c.Case(i) {
				continue
			}
			js(c, &c01Struct{Shape: gen.RandShape(c.Rand(i), ropts), Tag: "random"})
		}

		// ------------------------------------------------------------ several readers of one value
		// Serialising, hashing and cloning are read-only: goroutines that only
		// read one transaction must all see what a single reader sees.
		c.Phase("concurrent-readers")
		nc := uint64(60)
		if c.Thorough {
			nc = 2000
		}
		for i := uint64(0); i < nc; i++ {
			if !c.Case(i) {
				continue
			}
			jc(c, &c01Struct{Shape: gen.RandShape(c.Rand(i), gen.ShapeOpts{MinIns: 1, MaxIns: 4, MaxOuts: 4, AllowNil: true}), Tag: "concurrent-readers"})
		}
	}

	p.Floor = func(a *mon.Agg) string {
		need := func(k string) string {
			if a.Cov[k] == 0 {
				return "counter " + k + " is zero"
			}
			return ""
		}
		counts := c01QuickCounts
		nrandom := int64(20000)
		if a.Cov["tier:thorough"] > 0 {
			counts, nrandom = c01ThoroughCounts, 1000000
		}
		for _, ni := range counts {
			for _, no := range counts {
				if ni == 0 && no == 0 {
					if r := need("cell:in=0:out=0:len=none"); r != "" {
						return r
					}
					continue
				}
				for _, l := range gen.VarintClasses {
					if r := need(fmt.Sprintf("cell:in=%d:out=%d:len=%d", ni, no, l)); r != "" {
						return r
					}
				}
			}
		}
		for _, pos := range []string{"unlock", "prev", "lock"} {
			for _, l := range gen.VarintClasses {
				if r := need(fmt.Sprintf("pos:%s:len=%d", pos, l)); r != "" {
					return r
				}
			}
		}
		for _, f := range []string{"version", "locktime", "vout", "sequence"} {
			for _, v := range gen.U32Edges {
				if r := need(fmt.Sprintf("struct-ok:edge:%s:%#x", f, v)); r != "" {
					return r
				}
			}
		}
		for _, f := range []string{"satoshis", "prev-satoshis"} {
			for _, v := range gen.U64Edges {
				if r := need(fmt.Sprintf("struct-ok:edge:%s:%#x", f, v)); r != "" {
					return r
				}
			}
		}
		for _, u := range []string{"nil", "empty", "filled"} {
			for _, pv := range []string{"nil", "empty", "filled"} {
				if r := need("struct-ok:prevnil:" + u + "/" + pv); r != "" {
					return r
				}
			}
		}
		for _, k := range []string{"struct-ok:near-ambiguous", "struct-ok:prevnil2", "struct-ok:edge:all-fields", "format:std:parsed-by-all-entries", "format:ext:parsed-by-all-entries",
			"txid:compared", "clone:compared", "bytes:nonminimal-accepted", "bytes:nonminimal-canonical-reserialisation", "bytes:junk-left-untouched", "bytes:truncated-rejected",
			"bytes:stream:k=1", "bytes:stream:k=2", "bytes:stream:k=3", "bytes:stream:k=4", "bytes:stream:k=5", "bytes:list-parsed", "bytes:list-parsed:count>=253",
			"entry:NewTxFromBytes", "entry:NewTxFromStream", "entry:Tx.ReadFrom/plain", "entry:Tx.ReadFrom/one-byte", "entry:Tx.ReadFrom/counting", "entry:Txs.ReadFrom"} {
			if r := need(k); r != "" {
				return r
			}
		}
		if a.Cov["struct-ok:random"] < nrandom {
			return fmt.Sprintf("only %d of %d random structures were judged completely", a.Cov["struct-ok:random"], nrandom)
		}
		return ""
	}
	mon.Register(p)
}

// ---------------------------------------------------------------- generators

func (m *c01Matrix) shape() *gen.Shape {
	r := prng.New(m.Seed, "C01/matrix", m.N)
	tiny := m.NIn > 300 || m.NOut > 300
	fill := func() []byte {
		if tiny {
			return r.Bytes(r.Intn(3))
		}
		return r.Bytes(r.Intn(50))
	}
	s := &gen.Shape{Version: gen.U32(r), LockTime: gen.U32(r)}
	di, do := -1, -1
	if m.Pos == "unlock" || m.Pos == "prev" {
		di = int(m.N % uint64(m.NIn))
	}
	if m.Pos == "lock" {
		do = int(m.N % uint64(m.NOut))
	}
	s.Ins = make([]gen.In, m.NIn)
	for i := range s.Ins {
		in := gen.In{TxID: r.Bytes(32), Vout: gen.U32(r), Seq: gen.U32(r), PrevSats: gen.U64(r), Unlock: fill(), PrevScript: fill()}
		if r.Chance(1, 8) {
			in.UnlockNil, in.Unlock = true, nil
		}
		if r.Chance(1, 8) {
			in.PrevScriptNil, in.PrevScript = true, nil
		}
		if i == di {
			if m.Pos == "unlock" {
				in.UnlockNil, in.Unlock = false, r.Bytes(m.Len)
			} else {
				in.PrevScriptNil, in.PrevScript = false, r.Bytes(m.Len)
			}
		}
		s.Ins[i] = in
	}
	s.Outs = make([]gen.Out, m.NOut)
	for i := range s.Outs {
		s.Outs[i] = gen.Out{Sats: gen.U64(r), Script: fill()}
		if i == do {
			s.Outs[i].Script = r.Bytes(m.Len)
		}
	}
	if s.Ambiguous() {
		s.LockTime = 0
	}
	return s
}

func c01Ref(s *gen.Shape) *refcodec.Tx {
	t := &refcodec.Tx{Version: s.Version, LockTime: s.LockTime}
	t.Ins = make([]refcodec.In, len(s.Ins))
	for i := range s.Ins {
		in := &s.Ins[i]
		t.Ins[i] = refcodec.In{PrevHash: refcodec.Reverse(in.TxID), Vout: in.Vout, Script: in.Unlock, Seq: in.Seq, PrevSats: in.PrevSats, PrevScript: in.PrevScript}
	}
	t.Outs = make([]refcodec.Out, len(s.Outs))
	for i := range s.Outs {
		t.Outs[i] = refcodec.Out{Sats: s.Outs[i].Sats, Script: s.Outs[i].Script}
	}
	return t
}

// c01FromLib reads a go-bt transaction through its exported surface.
func c01FromLib(tx *bt.Tx) (*refcodec.Tx, string) {
	if tx == nil {
		return nil, "nil transaction"
	}
	t := &refcodec.Tx{Version: tx.Version, LockTime: tx.LockTime}
	t.Ins = make([]refcodec.In, len(tx.Inputs))
	for i, in := range tx.Inputs {
		if in == nil {
			return nil, "nil input"
		}
		r := refcodec.In{PrevHash: refcodec.Reverse(in.PreviousTxID()), Vout: in.PreviousTxOutIndex, Seq: in.SequenceNumber, PrevSats: in.PreviousTxSatoshis}
		if in.UnlockingScript != nil {
			r.Script = *in.UnlockingScript
		}
		if in.PreviousTxScript != nil {
			r.PrevScript = *in.PreviousTxScript
		}
		t.Ins[i] = r
	}
	t.Outs = make([]refcodec.Out, len(tx.Outputs))
	for i, o := range tx.Outputs {
		if o == nil {
			return nil, "nil output"
		}
		t.Outs[i].Sats = o.Satoshis
		if o.LockingScript != nil {
			t.Outs[i].Script = *o.LockingScript
		}
	}
	return t, ""
}

// c01JudgeReaders: 6 goroutines x 40 rounds of Bytes / ExtendedBytes / TxID /
// Clone().Bytes() on ONE transaction; every result is compared with the
// reference encoding. (No verdict depends on timing: a difference is a wrong
// result whenever it shows; the run is bounded by its iteration count.)
func c01JudgeReaders(c *mon.Ctx, in *c01Struct) {
	s := in.Shape
	if s.Ambiguous() {
		return
	}
	for i := range s.Ins {
		if len(s.Ins[i].TxID) != 32 {
			return
		}
	}
	c.Eval(1)
	ref := c01Ref(s)
	std, ext := refcodec.Encode(ref, false, nil), refcodec.Encode(ref, true, nil)
	id := refcodec.TxID(std)
	tx := s.Build()
	var wg sync.WaitGroup
	var mu sync.Mutex
	bad := ""
	note := func(what string) {
		mu.Lock()
		if bad == "" {
			bad = what
		}
		mu.Unlock()
	}
	for g := 0; g < 6; g++ {
		wg.Add(1)
		go func(g int) {
			defer wg.Done()
			defer func() {
				if r := recover(); r != nil {
					note(fmt.Sprintf("panic in a reader: %v", r))
				}
			}()
			for k := 0; k < 40; k++ {
				switch (g + k) % 4 {
				case 0:
					if b := tx.Bytes(); !bytes.Equal(b, std) {
						note("Bytes() = " + clip(b))
					}
				case 1:
					if b := tx.ExtendedBytes(); !bytes.Equal(b, ext) {
						note("ExtendedBytes() = " + clip(b))
					}
				case 2:
					if got := tx.TxID(); got != id {
						note("TxID() = " + got)
					}
				case 3:
					if b := tx.Clone().Bytes(); !bytes.Equal(b, std) {
						note("Clone().Bytes() = " + clip(b))
					}
				}
			}
		}(g)
	}
	wg.Wait()
	if bad != "" {
		c.Violationf("C01:concurrent-readers-differ", "six goroutines only reading one transaction: %s; reference %s / id %s", bad, clip(std), id)
		return
	}
	if b := tx.ExtendedBytes(); !bytes.Equal(b, ext) {
		c.Violationf("C01:concurrent-readers-differ", "after concurrent reading the transaction serialises to %s, reference %s", clip(b), clip(ext))
		return
	}
	c.Count("concurrent-readers:agree")
}

// c01Elements: every input and output on its own, through Input.ReadFrom,
// Input.ReadFromExtended, Output.ReadFrom (counting reader, junk behind the
// element, used receivers) and back through Input.Bytes / Output.Bytes.
func c01Elements(c *mon.Ctx, ref *refcodec.Tx, tx *bt.Tx) bool {
	ok := true
	junk := []byte{0xfd, 0xff, 0xff, 0x01}
	for i := range ref.Ins {
		for _, ext := range []bool{false, true} {
			name := "Input.ReadFrom"
			if ext {
				name = "Input.ReadFromExtended"
			}
			enc, _ := refcodec.EncodeIn(&ref.Ins[i], ext, nil)
			r := &c01CountReader{r: bytes.NewReader(append(append([]byte{}, enc...), junk...)), chunk: 5}
			in := &bt.Input{}
			if i%2 == 1 { // a receiver that was used before
				in = &bt.Input{PreviousTxOutIndex: 9, SequenceNumber: 9, PreviousTxSatoshis: 9, UnlockingScript: bscript.NewFromBytes([]byte{0x51, 0x52}), PreviousTxScript: bscript.NewFromBytes([]byte{0x53})}
				_ = in.PreviousTxIDAdd(bytes.Repeat([]byte{0xaa}, 32))
			}
			var n int64
			var err error
			if !c.Try(name, func() {
				if ext {
					n, err = in.ReadFromExtended(r)
				} else {
					n, err = in.ReadFrom(r)
				}
			}) {
				ok = false
				continue
			}
			if err != nil {
				c.Violationf("C01:rejects-valid:"+name, "%s rejects the canonical encoding of input %d: %v; input %s", name, i, err, clip(enc))
				ok = false
				continue
			}
			if n != int64(len(enc)) || r.n != int64(len(enc)) {
				c.Violationf("C01:consumed-mismatch:"+name, "%s returned %d and took %d bytes from the reader; the element is %d bytes: %s", name, n, r.n, len(enc), clip(enc))
				ok = false
			}
			got := refcodec.In{PrevHash: refcodec.Reverse(in.PreviousTxID()), Vout: in.PreviousTxOutIndex, Seq: in.SequenceNumber}
			if in.UnlockingScript != nil {
				got.Script = *in.UnlockingScript
			}
			want := ref.Ins[i]
			bad := ""
			switch {
			case !bytes.Equal(got.PrevHash, want.PrevHash) || got.Vout != want.Vout:
				bad = "outpoint"
			case !bytes.Equal(got.Script, want.Script):
				bad = "script"
			case got.Seq != want.Seq:
				bad = "sequence"
			case ext && in.PreviousTxSatoshis != want.PrevSats:
				bad = "prev-sats"
			case ext && !bytes.Equal(c01Script(in.PreviousTxScript), want.PrevScript):
				bad = "prev-script"
			}
			if bad != "" {
				c.Violationf("C01:field-mismatch:"+name+":"+bad, "%s of input %d: field %s differs; input %s", name, i, bad, clip(enc))
				ok = false
				continue
			}
			var back []byte
			std, _ := refcodec.EncodeIn(&ref.Ins[i], false, nil)
			if c.Try("Input.Bytes", func() { back = in.Bytes(false) }) && !bytes.Equal(back, std) {
				c.Violationf("C01:encode-mismatch:Input.Bytes", "Input.Bytes(false) after %s = %s, reference %s", name, clip(back), clip(std))
				ok = false
			}
			c.Count("entry:" + name)
		}
		// the builder's own input serialises like the reference element; cleared = empty script
		if i < len(tx.Inputs) && tx.Inputs[i] != nil {
			std, _ := refcodec.EncodeIn(&ref.Ins[i], false, nil)
			cleared := ref.Ins[i]
			cleared.Script = nil
			clr, _ := refcodec.EncodeIn(&cleared, false, nil)
			var b1, b2 []byte
			if c.Try("Input.Bytes", func() { b1, b2 = tx.Inputs[i].Bytes(false), tx.Inputs[i].Bytes(true) }) {
				if !bytes.Equal(b1, std) || !bytes.Equal(b2, clr) {
					c.Violationf("C01:encode-mismatch:Input.Bytes", "Input.Bytes(false/true) = %s / %s, reference %s / %s", clip(b1), clip(b2), clip(std), clip(clr))
					ok = false
				}
			}
		}
	}
	for i := range ref.Outs {
		enc, _ := refcodec.EncodeOut(&ref.Outs[i], nil)
		r := &c01CountReader{r: bytes.NewReader(append(append([]byte{}, enc...), junk...)), chunk: 3}
		o := &bt.Output{}
		if i%2 == 1 {
			o = &bt.Output{Satoshis: 9, LockingScript: bscript.NewFromBytes([]byte{0x51, 0x52})}
		}
		var n int64
		var err error
		if !c.Try("Output.ReadFrom", func() { n, err = o.ReadFrom(r) }) {
			ok = false
			continue
		}
		if err != nil {
			c.Violationf("C01:rejects-valid:Output.ReadFrom", "Output.ReadFrom rejects the canonical encoding of output %d: %v; input %s", i, err, clip(enc))
			ok = false
			continue
		}
		if n != int64(len(enc)) || r.n != int64(len(enc)) {
			c.Violationf("C01:consumed-mismatch:Output.ReadFrom", "Output.ReadFrom returned %d and took %d bytes from the reader; the element is %d bytes: %s", n, r.n, len(enc), clip(enc))
			ok = false
		}
		if o.Satoshis != ref.Outs[i].Sats || !bytes.Equal(c01Script(o.LockingScript), ref.Outs[i].Script) {
			c.Violationf("C01:field-mismatch:Output.ReadFrom", "Output.ReadFrom of output %d: value or script differs; input %s", i, clip(enc))
			ok = false
			continue
		}
		var b1, b2, b3 []byte
		if c.Try("Output.Bytes", func() { b1, b2 = o.Bytes(), o.BytesForSigHash() }) && (!bytes.Equal(b1, enc) || !bytes.Equal(b2, enc)) {
			c.Violationf("C01:encode-mismatch:Output.Bytes", "Output.Bytes() / BytesForSigHash() after ReadFrom = %s / %s, reference %s", clip(b1), clip(b2), clip(enc))
			ok = false
		}
		if i < len(tx.Outputs) && tx.Outputs[i] != nil && c.Try("Output.Bytes", func() { b3 = tx.Outputs[i].Bytes() }) && !bytes.Equal(b3, enc) {
			c.Violationf("C01:encode-mismatch:Output.Bytes", "Output.Bytes() = %s, reference %s", clip(b3), clip(enc))
			ok = false
		}
		c.Count("entry:Output.ReadFrom")
	}
	return ok
}

func c01Script(s *bscript.Script) []byte {
	if s == nil {
		return nil
	}
	return *s
}

// ---------------------------------------------------------------- readers

type c01CountReader struct {
	r     io.Reader
	n     int64
	chunk int
	calls int
}

func (c *c01CountReader) Read(p []byte) (int, error) {
	// chunk 7 (the "counting" reader of the entry-point table) also answers every third call with
	// (0, nil): nothing to hand over yet, as the io.Reader contract allows
	if c.calls++; c.chunk == 7 && c.calls%3 == 2 && len(p) > 0 {
		return 0, nil
	}
	if c.chunk > 0 && len(p) > c.chunk {
		p = p[:c.chunk]
	}
	n, err := c.r.Read(p)
	c.n += int64(n)
	return n, err
}

var c01ListVar bt.Txs

// c01SegReader is a caller's reader over a source that arrives in segments (a
// socket buffer, a ring buffer): Read never crosses a segment boundary, and -
// like many such types - it has a Len method, which reports what is buffered
// right now (the rest of the current segment), not what is still to come.
type c01SegReader struct {
	b   []byte
	off int
	seg int
	n   int64
}

func (s *c01SegReader) Len() int {
	left := s.seg - s.off%s.seg
	if rem := len(s.b) - s.off; rem < left {
		left = rem
	}
	return left
}

func (s *c01SegReader) Read(p []byte) (int, error) {
	if s.off >= len(s.b) {
		return 0, io.EOF
	}
	if l := s.Len(); len(p) > l {
		p = p[:l]
	}
	n := copy(p, s.b[s.off:])
	s.off += n
	s.n += int64(n)
	if s.off >= len(s.b) && n > 0 {
		// the last bytes come together with io.EOF, as the io.Reader contract allows
		// (a body of known length is read that way)
		return n, io.EOF
	}
	return n, nil
}

func c01Dirty() *bt.Tx {
	tx := &bt.Tx{Version: 77, LockTime: 78}
	in := &bt.Input{PreviousTxOutIndex: 9, SequenceNumber: 10, PreviousTxSatoshis: 11, UnlockingScript: bscript.NewFromBytes([]byte{1}), PreviousTxScript: bscript.NewFromBytes([]byte{2})}
	_ = in.PreviousTxIDAdd(bytes.Repeat([]byte{0xdd}, 32))
	tx.Inputs = []*bt.Input{in}
	tx.Outputs = []*bt.Output{{Satoshis: 12, LockingScript: bscript.NewFromBytes([]byte{3})}}
	return tx
}

// c01Parse is what one parser entry point returned.
type c01Parse struct {
	tx        *bt.Tx
	used      int64
	delivered int64 // bytes the reader handed out; -1 when there is no reader to observe
	err       error
}

// single-transaction entry points; each is given a byte string that starts
// with the transaction. exact: the entry only accepts when nothing follows.
// Every entry parses from a private copy of the bytes and, once the parser has
// returned, overwrites that copy (the caller re-uses its buffer; a buffer that
// was drained is refilled): what was parsed must not refer to it.
var c01Entries = []struct {
	name  string
	exact bool
	f     func(b []byte) c01Parse
}{
	{"NewTxFromBytes", true, func(b []byte) c01Parse {
		bb := append([]byte{}, b...)
		tx, err := bt.NewTxFromBytes(bb)
		mon.Scribble(bb)
		return c01Parse{tx, int64(len(b)), -1, err}
	}},
	{"NewTxFromStream", false, func(b []byte) c01Parse {
		bb := append([]byte{}, b...)
		tx, used, err := bt.NewTxFromStream(bb)
		mon.Scribble(bb)
		return c01Parse{tx, int64(used), -1, err}
	}},
	{"Tx.ReadFrom/plain", false, func(b []byte) c01Parse {
		bb := append([]byte{}, b...)
		r := bytes.NewReader(bb)
		tx := &bt.Tx{}
		n, err := tx.ReadFrom(r)
		mon.Scribble(bb)
		return c01Parse{tx, n, int64(len(b) - r.Len()), err}
	}},
	{"Tx.ReadFrom/bytes.Buffer", false, func(b []byte) c01Parse {
		buf := bytes.NewBuffer(append([]byte{}, b...))
		tx := &bt.Tx{}
		n, err := tx.ReadFrom(buf)
		left := buf.Len()
		buf.Reset()
		buf.Write(bytes.Repeat([]byte{0xa7}, len(b))) // the drained buffer is filled with the next message
		return c01Parse{tx, n, int64(len(b) - left), err}
	}},
	{"Tx.ReadFrom/one-byte", false, func(b []byte) c01Parse {
		r := &c01CountReader{r: bytes.NewReader(b), chunk: 1}
		tx := &bt.Tx{}
		n, err := tx.ReadFrom(r)
		return c01Parse{tx, n, r.n, err}
	}},
	{"Tx.ReadFrom/counting", false, func(b []byte) c01Parse {
		r := &c01CountReader{r: bytes.NewReader(b), chunk: 7}
		tx := c01Dirty() // ReadFrom must not keep anything of the receiver's previous content
		n, err := tx.ReadFrom(r)
		return c01Parse{tx, n, r.n, err}
	}},
	{"Tx.ReadFrom/segmented", false, func(b []byte) c01Parse {
		r := &c01SegReader{b: b, seg: []int{4096, 1500, 16384, 65536}[len(b)%4]}
		tx := &bt.Tx{}
		n, err := tx.ReadFrom(r)
		return c01Parse{tx, n, r.n, err}
	}},
	{"Txs.ReadFrom", false, func(b []byte) c01Parse {
		buf := bytes.NewBuffer(append([]byte{1}, b...))
		r := &c01CountReader{r: buf}
		if len(b)%2 == 1 { // the concrete buffer itself / wrapped
			r = nil
		}
		var txs bt.Txs
		var n, taken int64
		var err error
		if r != nil {
			n, err = txs.ReadFrom(r)
			taken = r.n
		} else {
			n, err = txs.ReadFrom(buf)
			taken = int64(len(b) + 1 - buf.Len())
		}
		buf.Reset()
		buf.Write(bytes.Repeat([]byte{0xa7}, len(b)+1))
		p := c01Parse{nil, n - 1, taken - 1, err}
		if err == nil {
			if len(txs) != 1 {
				p.err = fmt.Errorf("monitor: Txs.ReadFrom of a 1-element list returned %d elements", len(txs))
			} else {
				p.tx = txs[0]
			}
		}
		return p
	}},
}

// ---------------------------------------------------------------- oracle

// c01Canon caches the canonical encodings of a reference decode.
type c01Canon struct {
	want     *refcodec.Decoded
	std, ext []byte
}

func c01NewCanon(want *refcodec.Decoded) *c01Canon {
	return &c01Canon{want: want, std: refcodec.Encode(&want.Tx, false, nil), ext: refcodec.Encode(&want.Tx, true, nil)}
}

// arrival is the canonical encoding in the format the bytes arrived in.
func (cn *c01Canon) arrival() []byte {
	if cn.want.Extended {
		return cn.ext
	}
	return cn.std
}

func c01Fmt(ext bool) string {
	if ext {
		return "ext"
	}
	return "std"
}

func clip(b []byte) string {
	if len(b) > 160 {
		return fmt.Sprintf("%x…(%d bytes)", b[:160], len(b))
	}
	return hex.EncodeToString(b)
}

// c01CheckAccepted judges a parse that go-bt accepted against the reference
// decode of the same bytes. It returns true when everything agreed.
func c01CheckAccepted(c *mon.Ctx, entry string, p c01Parse, cn *c01Canon, raw []byte) bool {
	want := cn.want
	f := c01Fmt(want.Extended)
	ok := true
	if p.used != int64(want.Consumed) {
		c.Violationf("C01:consumed-mismatch:"+entry+":"+f, "%s reports %d bytes consumed, the transaction is %d bytes long; input %s", entry, p.used, want.Consumed, clip(raw))
		ok = false
	}
	if p.delivered >= 0 && p.delivered != int64(want.Consumed) {
		c.Violationf("C01:reader-position-mismatch:"+entry+":"+f, "%s took %d bytes from the reader, the transaction is %d bytes long; input %s", entry, p.delivered, want.Consumed, clip(raw))
		ok = false
	}
	got, bad := c01FromLib(p.tx)
	if bad != "" {
		c.Violationf("C01:field-mismatch:"+entry+":"+f+":"+bad, "%s returned a transaction with a %s; input %s", entry, bad, clip(raw))
		return false
	}
	if d := refcodec.Equal(got, &want.Tx, want.Extended); d != "" {
		c.Violationf("C01:field-mismatch:"+entry+":"+f+":"+d, "%s: field %s differs from the reference decode; input %s", entry, d, clip(raw))
		return false
	}
	for _, o := range p.tx.Outputs {
		if o.LockingScript == nil {
			c.Violationf("C01:field-mismatch:"+entry+":"+f+":output.script-nil", "%s returned an output without a locking script; input %s", entry, clip(raw))
			return false
		}
	}
	var lb, le []byte
	if !c.Try("Tx.Bytes", func() { lb = p.tx.Bytes() }) {
		return false
	}
	if ptx := p.tx; len(lb) < 4096 {
		c.Retain("transaction parsed by "+entry, func() []byte { return ptx.ExtendedBytes() })
		c.Retain("Bytes() result", func() []byte { return lb })
	}
	if !bytes.Equal(lb, cn.std) {
		c.Violationf("C01:reserialise-mismatch:"+entry+":"+f+":Bytes", "Bytes() of the value parsed by %s = %s, canonical %s", entry, clip(lb), clip(cn.std))
		ok = false
	}
	if want.Extended {
		if !c.Try("Tx.ExtendedBytes", func() { le = p.tx.ExtendedBytes() }) {
			return false
		}
		if !bytes.Equal(le, cn.ext) {
			c.Violationf("C01:reserialise-mismatch:"+entry+":"+f+":ExtendedBytes", "ExtendedBytes() of the value parsed by %s = %s, canonical %s", entry, clip(le), clip(cn.ext))
			ok = false
		}
	}
	return ok
}

// c01JudgeShape is the structure -> bytes -> structure clause plus TxID and
// Clone. It returns true when the structure went through every comparison.
func c01JudgeShape(c *mon.Ctx, s *gen.Shape, tag string) bool {
	ownerEditsDecodedEmpties(c)
	// some inputs come out of bt.Input's JSON decoder, decoded into an input object that held
	// another outpoint before (small structures only)
	if len(s.Ins) <= 8 {
		for i := range s.Ins {
			if len(s.Ins[i].TxID) == 32 && (len(s.Ins)+i+len(s.Outs))%3 == 0 && len(s.Ins[i].Unlock) < 4096 {
				s.Ins[i].ViaJSON = true
				c.Count("structure:input-decoded-from-JSON-into-a-used-input")
			}
		}
	}
	if s.Ambiguous() {
		c.Count("skipped:ambiguous-shape")
		return false
	}
	for i := range s.Ins {
		if len(s.Ins[i].TxID) != 32 {
			c.Count("skipped:txid-not-32-bytes")
			return false
		}
	}
	c.Eval(1)
	ref := c01Ref(s)
	encs := [2][]byte{refcodec.Encode(ref, false, nil), refcodec.Encode(ref, true, nil)}
	var canon [2]*c01Canon
	for i, b := range encs {
		d, err := refcodec.Decode(b)
		if err != nil || d.Consumed != len(b) || d.Extended != (i == 1) || d.NonMinimal != 0 || refcodec.Equal(&d.Tx, ref, i == 1) != "" {
			c.Fault(fmt.Sprintf("refcodec does not round-trip its own %s encoding %s: %v", c01Fmt(i == 1), clip(b), err))
			return false
		}
		canon[i] = &c01Canon{want: d, std: encs[0], ext: encs[1]}
	}
	// the std decode knows nothing about previous outputs; its extended
	// canonical form is only used for extended arrivals, so this is safe.
	all := true

	// 1a. serialisers
	tx := s.BuildShared()
	var lb, le []byte
	if c.Try("Tx.Bytes", func() { lb = tx.Bytes() }) {
		if !bytes.Equal(lb, encs[0]) {
			c.Violationf("C01:encode-mismatch:Bytes", "Bytes() = %s, reference %s", clip(lb), clip(encs[0]))
			all = false
		}
	} else {
		all = false
	}
	if c.Try("Tx.ExtendedBytes", func() { le = tx.ExtendedBytes() }) {
		if !bytes.Equal(le, encs[1]) {
			c.Violationf("C01:encode-mismatch:ExtendedBytes", "ExtendedBytes() = %s, reference %s", clip(le), clip(encs[1]))
			all = false
		}
	} else {
		all = false
	}

	// 1a'. the length-prefix codec on its own, for this structure's counts and lengths
	vals := []uint64{uint64(len(s.Ins)), uint64(len(s.Outs)), uint64(tx.Version), uint64(tx.LockTime)<<32 | 0xfd, ^uint64(tx.LockTime)}
	for i := range s.Ins {
		vals = append(vals, uint64(len(s.Ins[i].Unlock)), s.Ins[i].PrevSats)
	}
	for i := range s.Outs {
		vals = append(vals, uint64(len(s.Outs[i].Script)), s.Outs[i].Sats)
	}
	for k, v := range vals {
		want := refcodec.AppendVarint(nil, v, 0)
		var vb []byte
		var vl, used int
		var back bt.VarInt
		var rd bt.VarInt
		var rn int64
		var rerr error
		cr := &c01CountReader{r: bytes.NewReader(append(append([]byte{}, want...), 0xff, 0xff)), chunk: 2}
		if !c.Try("VarInt.Bytes", func() {
			vb, vl = bt.VarInt(v).Bytes(), bt.VarInt(v).Length()
			back, used = bt.NewVarIntFromBytes(append(append([]byte{}, want...), 0xff, 0xff))
			rn, rerr = rd.ReadFrom(cr)
		}) {
			all = false
			continue
		}
		if !bytes.Equal(vb, want) || vl != len(want) || uint64(back) != v || used != len(want) || rerr != nil || uint64(rd) != v || rn != int64(len(want)) || cr.n != int64(len(want)) {
			c.Violationf("C01:varint-mismatch", "VarInt(%d): Bytes() = %x, Length() = %d, NewVarIntFromBytes = (%d, %d), ReadFrom = (%d, n=%d, taken=%d, %v); the encoding is %x", v, vb, vl, uint64(back), used, uint64(rd), rn, cr.n, rerr, want)
			all = false
		} else {
			c.Count("varint:compared")
		}
		if k < 2 {
			own := vb
			c.Retain("VarInt.Bytes() result", func() []byte { return own })
		}
	}

	// 3. transaction id
	var id string
	var idb []byte
	if lb != nil && c.Try("Tx.TxID", func() { id, idb = tx.TxID(), tx.TxIDBytes() }) {
		wantB := refcodec.Reverse(refcodec.Sha256d(lb))
		if id != hex.EncodeToString(wantB) || !bytes.Equal(idb, wantB) {
			c.Violationf("C01:txid-mismatch", "TxID() = %s, TxIDBytes() = %x, reversed double SHA-256 of Bytes() = %x", id, idb, wantB)
			all = false
		} else if id != refcodec.TxID(encs[0]) {
			all = false // Bytes() already differed (reported above)
		} else {
			c.Count("txid:compared")
			c.Retain("TxIDBytes() result", func() []byte { return idb })
		}
	}

	// 1b. every parser entry point, both formats
	for i, b := range encs {
		okFmt := true
		for _, e := range c01Entries {
			var p c01Parse
			if !c.Try(e.name, func() { p = e.f(b) }) {
				okFmt = false
				continue
			}
			c.Count("entry:" + e.name)
			if p.err != nil {
				c.Violationf("C01:rejects-valid:"+e.name+":"+c01Fmt(i == 1), "%s rejects a canonical %s encoding: %v; input %s", e.name, c01Fmt(i == 1), p.err, clip(b))
				okFmt = false
				continue
			}
			if !c01CheckAccepted(c, e.name, p, canon[i], b) {
				okFmt = false
			}
		}
		if okFmt {
			c.Count("format:" + c01Fmt(i == 1) + ":parsed-by-all-entries")
		} else {
			all = false
		}
	}

	// 1b'. the hexadecimal entry points and the element-level readers / writers
	if lb != nil {
		var str string
		var fromStr *bt.Tx
		var err error
		if c.Try("Tx.String", func() { str = tx.String() }) && str != hex.EncodeToString(encs[0]) {
			c.Violationf("C01:encode-mismatch:String", "String() = %s, reference %s", clip([]byte(str)), clip(encs[0]))
			all = false
		}
		for i, b := range encs {
			if c.Try("NewTxFromString", func() { fromStr, err = bt.NewTxFromString(hex.EncodeToString(b)) }) {
				if err != nil {
					c.Violationf("C01:rejects-valid:NewTxFromString:"+c01Fmt(i == 1), "NewTxFromString rejects a canonical %s encoding: %v; input %s", c01Fmt(i == 1), err, clip(b))
					all = false
				} else if !c01CheckAccepted(c, "NewTxFromString", c01Parse{fromStr, int64(len(b)), -1, nil}, canon[i], b) {
					all = false
				} else {
					c.Count("entry:NewTxFromString")
				}
			}
		}
	}
	if !c01Elements(c, ref, tx) {
		all = false
	}

	// 1c. Clone
	var cl *bt.Tx
	if c.Try("Tx.Clone", func() { cl = tx.Clone() }) {
		got, bad := c01FromLib(cl)
		switch {
		case bad != "":
			c.Violationf("C01:clone-mismatch:"+bad, "Clone() returned a transaction with a %s; original %s", bad, clip(encs[1]))
			all = false
		case refcodec.Equal(got, ref, true) != "":
			c.Violationf("C01:clone-mismatch:"+refcodec.Equal(got, ref, true), "Clone(): field %s differs; original %s", refcodec.Equal(got, ref, true), clip(encs[1]))
			all = false
		default:
			var cb, ce []byte
			if c.Try("Tx.Bytes", func() { cb, ce = cl.Bytes(), cl.ExtendedBytes() }) {
				if !bytes.Equal(cb, encs[0]) || !bytes.Equal(ce, encs[1]) {
					c.Violationf("C01:clone-mismatch:serialisation", "Clone() serialises to %s / %s, original %s / %s", clip(cb), clip(ce), clip(encs[0]), clip(encs[1]))
					all = false
				} else {
					c.Count("clone:compared")
				}
			} else {
				all = false
			}
		}
	} else {
		all = false
	}

	c.Max("max:inputs", float64(len(s.Ins)))
	c.Max("max:outputs", float64(len(s.Outs)))
	c.Max("max:tx-bytes", float64(len(encs[1])))
	for i := range s.Ins {
		c.Max("max:script-len", float64(len(s.Ins[i].Unlock)))
		c.Max("max:script-len", float64(len(s.Ins[i].PrevScript)))
	}
	for i := range s.Outs {
		c.Max("max:script-len", float64(len(s.Outs[i].Script)))
	}
	if all && len(s.Ins)+len(s.Outs) > 0 {
		c.Distinct(prng.HashBytes(encs[1]))
	}
	if all && len(encs[1]) <= 400 && len(s.Ins) > 0 && len(s.Outs) > 0 {
		c.Sample("structure:"+tagClass(tag), 2, func() any {
			return map[string]any{"shape": s, "standard": hex.EncodeToString(encs[0]), "extended": hex.EncodeToString(encs[1]), "txid": id}
		})
	}
	return all
}

func tagClass(tag string) string {
	for i := 0; i < len(tag); i++ {
		if tag[i] == ':' {
			return tag[:i]
		}
	}
	return tag
}

// c01JudgeBytes is the bytes -> structure clause.
func c01JudgeBytes(c *mon.Ctx, in *c01Bytes) {
	c.Eval(1)
	b := []byte(in.Bytes)
	if in.List {
		c01JudgeList(c, in, b)
		return
	}
	// every reader-based entry keeps its own reader over the whole string and
	// reads transaction after transaction from it
	plain := bytes.NewReader(b)
	oneB := &c01CountReader{r: bytes.NewReader(b), chunk: 1}
	cnt := &c01CountReader{r: bytes.NewReader(b), chunk: 5}
	seg := &c01SegReader{b: b, seg: 4096}
	type seq struct {
		name string
		pos  func() int64
		r    io.Reader
		live bool
	}
	seqs := []*seq{
		{"Tx.ReadFrom/plain", func() int64 { return int64(len(b) - plain.Len()) }, plain, true},
		{"Tx.ReadFrom/one-byte", func() int64 { return oneB.n }, oneB, true},
		{"Tx.ReadFrom/counting", func() int64 { return cnt.n }, cnt, true},
		{"Tx.ReadFrom/segmented", func() int64 { return seg.n }, seg, true},
	}
	off := 0
	accepted, compared, nonminimal := 0, 0, false
	for k := 0; k < in.Txs; k++ {
		rest := b[off:]
		want, rerr := refcodec.Decode(rest)
		if rerr == nil && !want.Extended && want.Tx.Ambiguous() {
			c.Count("skipped:ambiguous-shape")
			return
		}
		var cn *c01Canon
		minimal := false
		if rerr == nil {
			cn = c01NewCanon(want)
			minimal = want.NonMinimal == 0
			if !minimal {
				nonminimal = true
			} else if arr := cn.arrival(); !bytes.Equal(arr, rest[:want.Consumed]) {
				c.Fault("refcodec: canonical encoding differs from the minimally encoded bytes it decoded: " + clip(rest[:want.Consumed]))
				return
			}
		}
		judge := func(entry string, p c01Parse) bool {
			c.Count("entry:" + entry)
			if p.err != nil {
				if rerr == nil && minimal {
					c.Violationf("C01:rejects-valid:"+entry+":"+c01Fmt(want.Extended), "%s rejects a canonical encoding (class %s): %v; input %s", entry, in.Class, p.err, clip(rest))
				} else if rerr == nil {
					c.Count("bytes:nonminimal-rejected:" + entry)
				}
				return false
			}
			accepted++
			if rerr != nil {
				c.Violationf("C01:accepted-but-reference-rejects:"+entry, "%s accepts (%d bytes used) a byte string that ends inside the transaction (class %s): %s", entry, p.used, in.Class, clip(rest))
				return false
			}
			if c01CheckAccepted(c, entry, p, cn, rest) {
				compared++
				if !minimal {
					c.Count("bytes:nonminimal-canonical-reserialisation")
				}
				return true
			}
			return false
		}
		var p c01Parse
		if c.Try("NewTxFromStream", func() { p = c01Entries[1].f(rest) }) {
			judge("NewTxFromStream", p)
		}
		// NewTxFromBytes: accepts only when nothing follows
		if c.Try("NewTxFromBytes", func() { p = c01Entries[0].f(rest) }) {
			c.Count("entry:NewTxFromBytes")
			switch {
			case p.err == nil && rerr == nil && want.Consumed != len(rest):
				c.Violationf("C01:NewTxFromBytes-accepts-trailing-bytes", "NewTxFromBytes accepts %d bytes although the transaction ends after %d: %s", len(rest), want.Consumed, clip(rest))
			case p.err == nil:
				judge("NewTxFromBytes", p)
			case rerr == nil && want.Consumed == len(rest):
				judge("NewTxFromBytes", p) // canonical and exact: the rejection is judged there
			default:
				c.Count("bytes:NewTxFromBytes-rejected-inexact")
			}
		}
		// NewTxFromString: the same rule for the hexadecimal entry point; and whatever
		// follows a complete transaction in the string must at least be hex
		{
			var stx *bt.Tx
			var serr error
			if c.Try("NewTxFromString", func() { stx, serr = bt.NewTxFromString(hex.EncodeToString(rest)) }) {
				c.Count("entry:NewTxFromString")
				switch {
				case serr == nil && rerr == nil && want.Consumed != len(rest):
					c.Violationf("C01:NewTxFromString-accepts-trailing-bytes", "NewTxFromString accepts %d bytes of hex although the transaction ends after %d: %s", len(rest), want.Consumed, clip(rest))
				case serr == nil:
					judge("NewTxFromString", c01Parse{stx, int64(len(rest)), -1, nil})
				case rerr == nil && want.Consumed == len(rest):
					judge("NewTxFromString", c01Parse{stx, int64(len(rest)), -1, serr})
				}
			}
			if rerr == nil {
				if c.Try("NewTxFromString", func() { stx, serr = bt.NewTxFromString(hex.EncodeToString(rest[:want.Consumed]) + "zz") }) && serr == nil {
					c.Violationf("C01:NewTxFromString-accepts-trailing-bytes", "NewTxFromString accepts a complete transaction followed by the non-hex characters \"zz\": %s", clip(rest[:want.Consumed]))
				}
			}
		}
		for _, s := range seqs {
			if !s.live {
				continue
			}
			before := s.pos()
			if before != int64(off) {
				s.live = false
				continue
			}
			tx := &bt.Tx{}
			if s.name == "Tx.ReadFrom/counting" {
				tx = c01Dirty()
			}
			var n int64
			var err error
			if !c.Try(s.name, func() { n, err = tx.ReadFrom(s.r) }) {
				s.live = false
				continue
			}
			if !judge(s.name, c01Parse{tx, n, s.pos() - before, err}) {
				s.live = false
			}
		}
		if rerr != nil {
			break
		}
		off += want.Consumed
		c.Count(fmt.Sprintf("bytes:stream:k=%d", k+1))
	}
	if in.Class == "truncated" && accepted == 0 {
		c.Count("bytes:truncated-rejected")
	}
	if nonminimal && compared > 0 {
		c.Count("bytes:nonminimal-accepted")
	}
	if off < len(b) && off > 0 {
		live := 0
		for _, s := range seqs {
			if s.live && s.pos() == int64(off) {
				live++
			}
		}
		if live == len(seqs) {
			c.Count("bytes:junk-left-untouched")
		}
	}
	if compared > 0 && in.Class != "truncated" {
		c.Distinct(prng.HashBytes(b))
		if len(b) <= 300 {
			c.Sample("bytes:"+tagClass(in.Class), 2, func() any { return in })
		}
	}
}

func c01JudgeList(c *mon.Ctx, in *c01Bytes, b []byte) {
	want, rerr := refcodec.DecodeList(b)
	if rerr == nil {
		for _, t := range want.Txs {
			if !t.Extended && t.Tx.Ambiguous() {
				c.Count("skipped:ambiguous-shape")
				return
			}
		}
	}
	var canon []*c01Canon
	if rerr == nil {
		for _, t := range want.Txs {
			canon = append(canon, c01NewCanon(t))
		}
	}
	okAll := true
	for _, chunk := range []int{0, 1, 11} {
		entry := "Txs.ReadFrom"
		r := &c01CountReader{r: bytes.NewReader(b), chunk: chunk}
		var txs bt.Txs
		var n int64
		var err error
		if chunk == 11 {
			// one list variable that lives as long as the process receives list after list; the
			// caller keeps the previous result (the slice it read before), which must stay what it was
			kept := c01ListVar
			keptBytes := make([][]byte, len(kept))
			for i, t := range kept {
				if t != nil {
					mon.TryQuiet(func() { keptBytes[i] = t.ExtendedBytes() })
				}
			}
			ok := c.Try(entry, func() { n, err = c01ListVar.ReadFrom(r) })
			for i, t := range kept {
				var now []byte
				if t != nil {
					mon.TryQuiet(func() { now = t.ExtendedBytes() })
				}
				if !bytes.Equal(now, keptBytes[i]) {
					c.Violationf("C01:earlier-list-changed-by-a-later-read", "transaction %d of the list read before into the same bt.Txs variable changed when the next list was read: was %s, now %s", i, clip(keptBytes[i]), clip(now))
					break
				}
			}
			c.Count("list:read-into-a-reused-variable")
			if !ok {
				okAll = false
				continue
			}
			txs = c01ListVar
		} else if !c.Try(entry, func() { n, err = txs.ReadFrom(r) }) {
			okAll = false
			continue
		}
		c.Count("entry:" + entry)
		if err != nil {
			okAll = false
			if rerr == nil && want.NonMinimal == 0 {
				c.Violationf("C01:rejects-valid:"+entry+":list", "Txs.ReadFrom rejects a canonical counted list (class %s): %v; input %s", in.Class, err, clip(b))
			} else if rerr == nil {
				c.Count("bytes:nonminimal-rejected:" + entry)
			}
			continue
		}
		if rerr != nil {
			okAll = false
			c.Violationf("C01:accepted-but-reference-rejects:"+entry, "Txs.ReadFrom accepts a list that ends early (class %s): %s", in.Class, clip(b))
			continue
		}
		if n != int64(want.Consumed) {
			okAll = false
			c.Violationf("C01:consumed-mismatch:"+entry+":list", "Txs.ReadFrom reports %d bytes, the list is %d bytes long; input %s", n, want.Consumed, clip(b))
		}
		if r.n != int64(want.Consumed) {
			okAll = false
			c.Violationf("C01:reader-position-mismatch:"+entry+":list", "Txs.ReadFrom took %d bytes from the reader, the list is %d bytes long; input %s", r.n, want.Consumed, clip(b))
		}
		if len(txs) != len(want.Txs) {
			okAll = false
			c.Violationf("C01:field-mismatch:"+entry+":list:length", "Txs.ReadFrom returned %d transactions, the list has %d; input %s", len(txs), len(want.Txs), clip(b))
			continue
		}
		off := want.Count.Width
		for i, t := range want.Txs {
			raw := b[off : off+t.Consumed]
			// used / delivered are judged for the whole list above
			if !c01CheckAccepted(c, entry, c01Parse{txs[i], int64(t.Consumed), -1, nil}, canon[i], raw) {
				okAll = false
			}
			off += t.Consumed
		}
	}
	if okAll && rerr == nil {
		c.Count("bytes:list-parsed")
		if want.Count.Value >= 253 {
			c.Count("bytes:list-parsed:count>=253")
		}
		if want.NonMinimal > 0 {
			c.Count("bytes:nonminimal-accepted")
		}
		if want.Consumed < len(b) {
			c.Count("bytes:junk-left-untouched")
		}
		if len(want.Txs) > 0 {
			c.Distinct(prng.HashBytes(b))
		}
		if len(b) <= 300 && len(want.Txs) > 1 {
			c.Sample("bytes:list", 2, func() any { return in })
		}
	}
}
