package main

import (
	"bytes"
	"encoding/hex"
	"encoding/json"
	"fmt"
	"strings"

	"github.com/libsv/go-bt/v2/bscript"
	"github.com/libsv/go-bt/v2/bscript/interpreter"

	"verif/internal/mon"
	"verif/internal/prng"
	"verif/internal/refcodec"
)

// C13 — script codecs round-trip: push data, opcode parse/unparse, hex, JSON, ASM.

// c13Items is a list of data items; the bytes are a pure function of
// (DataSeed, index, length) so that replay files stay small.
type c13Items struct {
	Lens     []int  `json:"lens"`
	DataSeed uint64 `json:"data_seed"`
}

func (in *c13Items) items() [][]byte {
	out := make([][]byte, len(in.Lens))
	for i, l := range in.Lens {
		out[i] = prng.New(in.DataSeed, "C13-item", uint64(i)).Bytes(l)
	}
	return out
}

type c13Script struct {
	Script mon.Hex `json:"script"`
	Class  string  `json:"class"`
}

var c13PushClasses = []int{1, 75, 76, 255, 256, 65535, 65536}

// c13ClassKey names the coverage counter of a data length: the seven push
// boundary classes individually, everything else by the push form it needs.
func c13ClassKey(l int, what string) string {
	for _, k := range c13PushClasses {
		if l == k {
			return fmt.Sprintf("class:%d:%s", l, what)
		}
	}
	switch {
	case l == 0:
		return "class:0:" + what
	case l <= 75:
		return "class:2..74:" + what
	case l <= 255:
		return "class:77..254:" + what
	case l <= 65535:
		return "class:257..65534:" + what
	}
	return "class:>65536:" + what
}

func c13NonPushOpcode(b byte) bool { return b == 0x50 || b >= 0x61 }

func c13FormName(op byte) string {
	switch op {
	case 0x4c:
		return "pushdata1"
	case 0x4d:
		return "pushdata2"
	case 0x4e:
		return "pushdata4"
	}
	return "direct"
}

func init() {
	p := &mon.Property{
		ID: "C13",
		Rule: "items: every single and ordered pair of the push-length classes {1,75,76,255,256,65535,65536}, triples and random lists of 1..8 non-empty items (bytes from the PRNG); EncodeParts output compared byte for byte with an independent minimal-push encoder, DecodeParts must return the items. " +
			"scripts: (a) EXHAUSTIVE: every byte value 0x00..0xff as a one-instruction script alone and in three fixed contexts (covers all 160 non-push opcodes 0x50,0x61..0xff), every push-length class x every push form that can carry it (direct/PUSHDATA1/2/4, minimal and non-minimal, zero-length forms) with sampled truncations; " +
			"(b) random token sequences (non-push opcodes, small-integer opcodes, minimal and non-minimal pushes, boundary lengths), half of them restricted to the ASM-claim alphabet (opcodes 0x50,0x61..0xff and minimal pushes of >= 2 bytes), each judged whole and at EVERY truncation position (sampled positions only for scripts > 600 bytes); " +
			"(c) data after OP_RETURN at top level, inside IF..ENDIF and after an unbalanced ENDIF (well-formed pushes, junk, 0/1/2 trailing bytes); (d) random bytes. " +
			"Oracle: independent tokenizer (refcodec). well-formed => DecodeParts = reference tokens, Parse succeeds and Unparse(Parse(s)) = s, Parse = reference tokens incl. instruction sizes when the script has no OP_RETURN; cut inside a push => DecodeParts errors, ToASM ends in [error], Parse errors (Parse clause only when no OP_RETURN precedes the cut, after which that tokeniser deliberately stops); hex and JSON round trip for every byte string; ASM round trip for non-empty non-data scripts over the ASM-claim alphabet. " +
			"distinct_nontrivial = distinct scripts that either have >= 2 instructions including a push, or are cut inside a push; plus distinct item lists.",
		Assum: []string{
			"reference tokenizer/encoder in /verif/internal/refcodec/script.go written from the wire format (self-checked against hand-written vectors at the start of every run)",
			"tokeniser agreement is judged only for scripts without opcode 0x6a; the Parse truncation clause only when no 0x6a instruction precedes the cut (as the property states)",
			"ASM round trip is claimed only for non-empty, non-data scripts of opcodes 0x50, 0x61-0xff and minimal pushes of >= 2 bytes",
			"scripts with bytes after OP_RETURN that do not tokenize are outside 'well-formed'; their Parse/Unparse round trip is counted, not judged",
		},
		Exhaustive: func(string) bool { return true },
	}
	items := mon.Kind(p, "items", c13JudgeItems)
	owned := mon.Kind(p, "caller-owned", c13JudgeOwned)
	script := mon.Kind(p, "script", c13JudgeScript)

	// sweep judges s and its truncations (every position, or sampled for long scripts)
	sweep := func(c *mon.Ctx, r *prng.R, s []byte, class string) {
		script(c, &c13Script{Script: s, Class: class})
		if len(s) <= 600 {
			for k := 1; k < len(s); k++ {
				script(c, &c13Script{Script: s[:k:k], Class: class + "/cut"})
			}
			c.Count("scripts:full-truncation-sweep")
			return
		}
		toks, _ := refcodec.Tokenize(s)
		seen := map[int]bool{}
		try := func(k int) {
			if k >= 1 && k < len(s) && !seen[k] {
				seen[k] = true
				script(c, &c13Script{Script: s[:k:k], Class: class + "/cut"})
			}
		}
		for _, t := range toks {
			for d := 0; d <= 7; d++ {
				try(t.Start + d)
			}
			try(t.End - 1)
			try(t.End - 2)
			if t.End-t.Start > 10 {
				for j := 0; j < 4; j++ {
					try(t.Start + r.Intn(t.End-t.Start))
				}
			}
		}
		c.Count("scripts:sampled-truncation-sweep")
	}

	p.Run = func(c *mon.Ctx) {
		if msg := refcodec.SelfTestScript(); msg != "" {
			c.Fault("reference script codec failed its vectors: " + msg)
			return
		}
		c.Info("model_vectors_reproduced", "refcodec.SelfTestScript: tokenizer, minimal-push and template vectors all reproduced")

		// ---- items ------------------------------------------------------
		c.Phase("items-classes")
		n := uint64(0)
		next := func() bool { n++; return c.Case(n) }
		for _, a := range c13PushClasses {
			if next() {
				items(c, &c13Items{Lens: []int{a}, DataSeed: c.Rand(n).Uint64()})
			}
			for _, b := range c13PushClasses {
				if next() {
					items(c, &c13Items{Lens: []int{a, b}, DataSeed: c.Rand(n).Uint64()})
				}
			}
		}
		if c.Thorough {
			for _, a := range c13PushClasses {
				for _, b := range c13PushClasses {
					for _, d := range c13PushClasses {
						if next() {
							items(c, &c13Items{Lens: []int{a, b, d}, DataSeed: c.Rand(n).Uint64()})
						}
					}
				}
			}
		}
		c.Phase("huge-items") // items around 2^24 bytes (the length needs the fourth byte of OP_PUSHDATA4's prefix)
		for i, l := range []int{1<<24 - 1, 1 << 24, 1<<24 + 1} {
			if c.Case(uint64(i)) {
				items(c, &c13Items{Lens: []int{l}, DataSeed: c.Rand(uint64(i)).Uint64()})
			}
		}
		c.Phase("caller-owned-results") // a caller extends / overwrites what an encoder returned; later encodings must not change
		for n := uint64(0); n < 400; n++ {
			if !c.Case(n) {
				continue
			}
			r := c.Rand(n)
			in := &c13Owned{}
			for k := 1 + r.Intn(3); k > 0; k-- {
				in.First = append(in.First, mon.Hex(r.Bytes(prng.Pick(r, []int{1, 2, 20, 32, 33, 37, 40, 75, 76, 255, 256}))))
			}
			for l := 1; l <= 80; l++ {
				in.Then = append(in.Then, mon.Hex(r.Bytes(l)))
			}
			owned(c, in)
		}
		c.Phase("items-random")
		nr := 400
		if c.Thorough {
			nr = 8000
		}
		near := []int{1, 2, 3, 74, 75, 76, 77, 254, 255, 256, 257, 520, 521}
		big := []int{65534, 65535, 65536, 65537, 70000}
		for i := 0; i < nr; i++ {
			if !c.Case(uint64(i)) {
				continue
			}
			r := c.Rand(uint64(i))
			k := 1 + r.Intn(8)
			ls := make([]int, k)
			for j := range ls {
				switch x := r.Intn(20); {
				case x < 13:
					ls[j] = 1 + r.Intn(80)
				case x < 18:
					ls[j] = prng.Pick(r, near)
				case x < 19:
					ls[j] = 1 + r.Intn(3000)
				default:
					ls[j] = prng.Pick(r, big)
				}
			}
			items(c, &c13Items{Lens: ls, DataSeed: r.Uint64()})
		}

		// ---- exhaustive single instructions -----------------------------
		c.Phase("op-exhaustive")
		for b := 0; b < 256; b++ {
			if !c.Case(uint64(b)) {
				continue
			}
			op := byte(b)
			script(c, &c13Script{Script: []byte{op}, Class: "single-byte"})
			script(c, &c13Script{Script: []byte{op, 0x51}, Class: "byte+OP_1"})
			script(c, &c13Script{Script: []byte{0x02, 0xaa, 0xbb, op}, Class: "push2+byte"})
			script(c, &c13Script{Script: []byte{op, op}, Class: "byte-twice"})
			script(c, &c13Script{Script: []byte{0x61, op, 0x02, 0xaa, 0xbb, 0xac}, Class: "nop+byte+push2+checksig"})
		}

		// ---- push classes x forms ---------------------------------------
		c.Phase("push-forms")
		n = 0
		forms := []byte{0, 0x4c, 0x4d, 0x4e} // 0 = direct
		lens := append([]int{0}, c13PushClasses...)
		lens = append(lens, 2, 74, 77, 254, 257, 65534, 65537)
		for l := 3; l <= 80; l++ { // every direct-push opcode has its own table entry in the parser: all of 0x01..0x4b, and the first PUSHDATA1 lengths
			if l != 74 && l != 75 && l != 76 && l != 77 {
				lens = append(lens, l)
			}
		}
		for _, l := range lens {
			for _, f := range forms {
				for ctx := 0; ctx < 3; ctx++ {
					if !next() {
						continue
					}
					r := c.Rand(n)
					op := f
					if f == 0 {
						op = byte(l)
						if l < 1 || l > 75 {
							continue
						}
					}
					enc, ok := refcodec.PushWith(op, r.Bytes(l))
					if !ok {
						continue
					}
					var s []byte
					switch ctx {
					case 1:
						s = append([]byte{0x76}, enc...)
						s = append(s, 0xac)
					case 2:
						s = append(append([]byte{}, enc...), enc...)
					default:
						s = enc
					}
					c.Count(fmt.Sprintf("class:%d:script:%s", l, c13FormName(op)))
					sweep(c, r, s, "push-form")
				}
			}
		}

		// ---- push headers with extreme length claims ----------------------
		c.Phase("extreme-length-claims") // claims on the edge of the integer types: header + claim wraps in 32 bits for the largest
		n = 0
		for _, h := range [][]byte{{0x4c, 0xff}, {0x4d, 0xff, 0xff}, {0x4d, 0xfd, 0xff},
			{0x4e, 0xff, 0xff, 0xff, 0xff}, {0x4e, 0xfe, 0xff, 0xff, 0xff}, {0x4e, 0xfd, 0xff, 0xff, 0xff}, {0x4e, 0xfc, 0xff, 0xff, 0xff}, {0x4e, 0xfb, 0xff, 0xff, 0xff}, {0x4e, 0xfa, 0xff, 0xff, 0xff},
			{0x4e, 0xf0, 0xff, 0xff, 0xff}, {0x4e, 0xff, 0xff, 0xff, 0x7f}, {0x4e, 0x00, 0x00, 0x00, 0x80}, {0x4e, 0xfb, 0xff, 0xff, 0x7f}, {0x4e, 0x00, 0x00, 0x00, 0x01}} {
			for _, pre := range [][]byte{{}, {0x51}, {0x76, 0xa9}, {0x02, 0xaa, 0xbb}, {0x63}} {
				for tail := 0; tail <= 8; tail++ {
					if !next() {
						continue
					}
					s := append(append(append([]byte{}, pre...), h...), bytes.Repeat([]byte{0x51}, tail)...)
					script(c, &c13Script{Script: s, Class: "extreme-length-claim"})
				}
			}
		}

		// ---- random token sequences -------------------------------------
		c.Phase("random-scripts")
		ns := 6000
		if c.Thorough {
			ns = 120000
		}
		for i := 0; i < ns; i++ {
			if !c.Case(uint64(i)) {
				continue
			}
			r := c.Rand(uint64(i))
			asmOnly := i%2 == 0
			s := c13RandScript(r, asmOnly)
			cl := "random-tokens"
			if asmOnly {
				cl = "random-asm-alphabet"
			}
			sweep(c, r, s, cl)
		}

		// ---- OP_RETURN and the conditional depth ---------------------------
		c.Phase("opreturn-conditional-depth") // which OP_RETURN is at top level: every sequence of up to five of IF / NOTIF / ELSE / ENDIF / RETURN / a push, followed by OP_RETURN and a tail that is empty, complete instructions, or a dangling push header (unmatched ENDIFs, a RETURN inside a closed block, blocks reopened after going below zero)
		{
			alphabet := [][]byte{{0x63}, {0x64}, {0x67}, {0x68}, {0x6a}, {0x51}}
			tails := [][]byte{nil, {0x51}, {0x4c}, {0x05, 0x01}, {0x01, 0x02, 0x03}}
			n := uint64(0)
			var rec func(prefix []byte, depth int)
			rec = func(prefix []byte, depth int) {
				for _, tl := range tails {
					n++
					if c.Case(n) {
						script(c, &c13Script{Script: append(append(append([]byte{}, prefix...), 0x6a), tl...), Class: "opreturn-conditional-depth"})
					}
				}
				if depth == 0 {
					return
				}
				for _, a := range alphabet {
					rec(append(append([]byte{}, prefix...), a...), depth-1)
				}
			}
			d := 4
			if c.Thorough {
				d = 5
			}
			rec(nil, d)
		}
		c.Phase("opreturn")
		nret := 600
		if c.Thorough {
			nret = 12000
		}
		for i := 0; i < nret; i++ {
			if !c.Case(uint64(i)) {
				continue
			}
			r := c.Rand(uint64(i))
			var s []byte
			where := i % 4
			switch where {
			case 0: // top level, at the start or after a few instructions
				if r.Bool() {
					s = c13RandTokens(r, r.Intn(4), false, false)
				}
				if r.Chance(1, 4) {
					s = append(s, 0x00)
				}
			case 1: // inside IF .. ENDIF
				s = append(c13RandTokens(r, r.Intn(3), false, false), 0x63)
			case 2: // after an unbalanced ENDIF (block counter below zero)
				s = append(c13RandTokens(r, r.Intn(3), false, false), 0x68)
			case 3: // after a closed block: top level again
				s = append(c13RandTokens(r, r.Intn(2), false, false), 0x63, 0x51, 0x68)
			}
			s = append(s, 0x6a)
			switch r.Intn(6) {
			case 0: // nothing after
			case 1:
				s = append(s, r.Bytes(1)...)
			case 2:
				s = append(s, r.Bytes(2)...)
			case 3:
				s = append(s, r.Bytes(3+r.Intn(40))...) // junk
			default:
				s = append(s, c13RandTokens(r, 1+r.Intn(5), false, true)...)
			}
			if where == 1 && r.Bool() {
				s = append(s, 0x68)
			}
			c.Count([]string{"opreturn:top-level", "opreturn:inside-if", "opreturn:after-unbalanced-endif", "opreturn:after-closed-block"}[where])
			sweep(c, r, s, "opreturn")
		}

		c.Phase("opreturn-large-tails") // a top-level OP_RETURN followed by data on both sides of 2^15 and 2^16 bytes (and one far beyond), as raw bytes and as one push
		for i, L := range []int{32766, 32767, 32768, 32769, 65531, 65532, 65533, 65534, 65535, 65536, 65537, 70000, 140000} {
			if !c.Case(uint64(i)) {
				continue
			}
			r := c.Rand(uint64(i))
			raw := r.Bytes(L)
			raw[0] = 0x51 // not a push header: the tail is junk after the first instruction
			script(c, &c13Script{Script: append([]byte{0x6a}, raw...), Class: "opreturn-large-tail"})
			script(c, &c13Script{Script: append([]byte{0x00, 0x6a}, refcodec.MinimalPush(r.Bytes(L-5))...), Class: "opreturn-large-tail"})
			script(c, &c13Script{Script: append([]byte{0x51, 0x63, 0x6a, 0x68, 0x6a}, raw[:L-4]...), Class: "opreturn-large-tail"})
		}
		c.Phase("standard-template-mutations") // instances of every standard template with each byte flipped, replaced by a push opcode, removed or duplicated: scripts as long as a template and almost one
		{
			n := uint64(0)
			shapes := len(c14Instances(prng.New(0, "C14-shapes", 0), false))
			for si := 0; si < shapes; si++ {
				n++
				if !c.Case(n) {
					continue
				}
				r := c.Rand(n)
				inst := c14Instances(r, false)[si]
				if len(inst.s) > 700 {
					continue
				}
				script(c, &c13Script{Script: inst.s, Class: "template"})
				c14Mutate(inst.s, len(inst.s) <= 120, func(class string, m []byte) {
					script(c, &c13Script{Script: m, Class: "template-mutant"})
				})
				for k := 0; k < len(inst.s) && len(inst.s) <= 120; k++ { // every position holding each kind of push header
					for _, op := range []byte{0x01, 0x02, 0x14, 0x4b, 0x4c, 0x4d, 0x4e} {
						if inst.s[k] != op {
							m := append([]byte{}, inst.s...)
							m[k] = op
							script(c, &c13Script{Script: m, Class: "template-mutant"})
						}
					}
				}
			}
		}
		c.Phase("asm-every-two-byte-push") // all 65,536 two-byte pushes inside a non-data script: whatever their hex text happens to spell (a number, an opcode name without its prefix, ...) it reads back as those two bytes
		for v := 0; v < 65536; v++ {
			if !c.Case(uint64(v)) {
				continue
			}
			push := []byte{0x02, byte(v >> 8), byte(v)}
			switch v % 3 {
			case 0:
				script(c, &c13Script{Script: append(append([]byte{0x76}, push...), 0x75), Class: "asm-two-byte-push"})
			case 1:
				script(c, &c13Script{Script: push, Class: "asm-two-byte-push"})
			default:
				script(c, &c13Script{Script: append(append([]byte{}, push...), 0x87), Class: "asm-two-byte-push"})
			}
		}
		c.Phase("asm-lookalike-pushes") // multi-byte pushes whose hex text could be read as something else: decimal numbers, zero runs, base-prefixed or floating-point literals
		n = 0
		{
			var datas [][]byte
			for _, L := range []int{2, 3, 4, 8, 20, 33, 75, 76, 255, 256} {
				for _, last := range []byte{0x00, 0x01, 0x07, 0x09, 0x10, 0x16, 0x17, 0x99} {
					d := make([]byte, L)
					d[L-1] = last
					datas = append(datas, d)
				}
				r := c.Rand(uint64(L))
				bcd := make([]byte, L)
				for i := range bcd {
					bcd[i] = byte(r.Intn(10))<<4 | byte(r.Intn(10))
				}
				datas = append(datas, bcd, append([]byte{0x10}, bcd[1:]...), append([]byte{0x00}, bcd[1:]...))
			}
			datas = append(datas, []byte{0x0b, 0x01}, []byte{0x0e, 0x10}, []byte{0x1e, 0x05}, []byte{0x0b, 0x10, 0x11}, []byte{0x00, 0x0e, 0x12}, []byte{0x12, 0x34}, []byte{0x00, 0x16}, []byte{0x00, 0x10},
				[]byte{0x16, 0x00}, []byte{0xde, 0xad}, []byte("OP_1"), []byte("0 1"), []byte{0x20, 0x20})
			for _, d := range datas {
				for ctx := 0; ctx < 3; ctx++ {
					if !next() {
						continue
					}
					push := refcodec.MinimalPush(d)
					var sc []byte
					switch ctx {
					case 0:
						sc = append([]byte{0x76, 0xa9}, append(push, 0x88, 0xac)...)
					case 1:
						sc = append(append([]byte{}, push...), 0x75)
					default:
						sc = append(append(append([]byte{0x51}, push...), push...), 0x87)
					}
					script(c, &c13Script{Script: sc, Class: "asm-lookalike-push"})
				}
			}
		}
		c.Phase("opreturn-first-data-byte") // every value of the first byte after a top-level OP_RETURN, four prefixes, three tails
		n = 0
		for b := 0; b < 256; b++ {
			for _, pre := range [][]byte{{}, {0x00}, {0x51, 0x75}, {0x63, 0x51, 0x68}} {
				for _, tail := range [][]byte{{}, {0x01}, {0xac, 0x4c}} {
					if !next() {
						continue
					}
					s := append(append(append([]byte{}, pre...), 0x6a, byte(b)), tail...)
					script(c, &c13Script{Script: s, Class: "opreturn-first-data-byte"})
				}
			}
		}

		// ---- random bytes -----------------------------------------------
		c.Phase("random-bytes")
		nb := 3000
		if c.Thorough {
			nb = 100000
		}
		for i := 0; i < nb; i++ {
			if !c.Case(uint64(i)) {
				continue
			}
			r := c.Rand(uint64(i))
			script(c, &c13Script{Script: r.Bytes(r.Intn(41)), Class: "random-bytes"})
		}
	}
	p.Floor = func(a *mon.Agg) string {
		need := []string{"items:judged", "decodeparts:agree", "parse:agree", "parse:unparse-identical", "asm:roundtrip", "hex:roundtrip", "json:roundtrip",
			"trunc:judged", "trunc:parse-clause-judged", "opreturn:top-level-followed-by-data", "opreturn:top-level", "opreturn:inside-if", "nonminimal-push:seen", "zero-length-push:seen"}
		for _, l := range c13PushClasses {
			need = append(need, fmt.Sprintf("class:%d:items", l), fmt.Sprintf("class:%d:token", l))
		}
		for _, k := range need {
			if a.Cov[k] == 0 {
				return "counter " + k + " is zero"
			}
		}
		if a.Cov["op-exhaustive:nonpush-single"] != 160 {
			return fmt.Sprintf("op-exhaustive:nonpush-single = %d, want 160", a.Cov["op-exhaustive:nonpush-single"])
		}
		if a.Cov["op-exhaustive:asm-single"] != 159 {
			return fmt.Sprintf("op-exhaustive:asm-single = %d, want 159 (160 non-push opcodes minus OP_RETURN, a data script)", a.Cov["op-exhaustive:asm-single"])
		}
		if a.Cov["scripts:full-truncation-sweep"] < 2000 {
			return "fewer than 2000 scripts were cut at every position"
		}
		return ""
	}
	{ // concurrent callers / readers (concurrent.go), after the sequential phases
		conc, run := concPhase(p, concScripts), p.Run
		p.Run = func(c *mon.Ctx) { run(c); conc(c) }
	}
	mon.Register(p)
}

// c13RandTokens draws k instructions. asmOnly restricts to the ASM-claim
// alphabet; noRet avoids opcode 0x6a; pushOnly (used after OP_RETURN) is
// expressed through asmOnly=false, noRet=true and produces mostly pushes.
func c13RandTokens(r *prng.R, k int, asmOnly, noRet bool) []byte {
	var s []byte
	for j := 0; j < k; j++ {
		x := r.Intn(100)
		switch {
		case x < 40: // non-push opcode
			for {
				b := byte(0x50 + r.Intn(0xb0))
				if !c13NonPushOpcode(b) || (noRet && b == 0x6a) || (asmOnly && b == 0x6a && len(s) == 0) {
					continue
				}
				s = append(s, b)
				break
			}
		case x < 50 && !asmOnly: // small integers and OP_0
			s = append(s, prng.Pick(r, []byte{0x00, 0x4f, 0x51, 0x52, 0x58, 0x60}))
		case x < 62 && !asmOnly: // non-minimal and zero-length forms
			d := r.Bytes(r.Intn(4) * r.Intn(30))
			e, _ := refcodec.PushWith(prng.Pick(r, []byte{0x4c, 0x4d, 0x4e}), d)
			s = append(s, e...)
		case x < 66 && !asmOnly: // one-byte pushes
			s = append(s, 0x01, byte(r.Intn(256)))
		case x < 72: // boundary lengths
			l := prng.Pick(r, []int{74, 75, 76, 77, 254, 255, 256, 257})
			s = append(s, refcodec.MinimalPush(r.Bytes(l))...)
		case x == 72 && r.Chance(1, 6): // rare large pushes
			l := prng.Pick(r, []int{65535, 65536})
			s = append(s, refcodec.MinimalPush(r.Bytes(l))...)
		default:
			s = append(s, refcodec.MinimalPush(r.Bytes(2+r.Intn(40)))...)
		}
	}
	return s
}

func c13RandScript(r *prng.R, asmOnly bool) []byte {
	return c13RandTokens(r, 1+r.Intn(12), asmOnly, false)
}

// ------------------------------------------------------------------ judges

// c13Owned: First are items whose PushDataPrefix / EncodeParts results the
// caller then extends with append and scribbles over; Then are items encoded
// afterwards, which must still come out as the reference says.
type c13Owned struct {
	First []mon.Hex `json:"first"`
	Then  []mon.Hex `json:"then"`
}

func c13JudgeOwned(c *mon.Ctx, in *c13Owned) {
	c.Eval(1)
	for _, d := range in.First {
		var p []byte
		var err error
		if !c.Try("bscript.PushDataPrefix", func() { p, err = bscript.PushDataPrefix(d) }) || err != nil {
			continue
		}
		// the documented way of building a push by hand: prefix followed by the data
		p = append(p, d...)
		for i := range p {
			p[i] ^= 0xa5
		}
		var e []byte
		if c.Try("bscript.EncodeParts", func() { e, err = bscript.EncodeParts([][]byte{d}) }) && err == nil {
			e = append(e, 0xde, 0xad, 0xbe, 0xef)
			for i := range e {
				e[i] = 0x5a
			}
		}
	}
	for _, d := range in.Then {
		var e []byte
		var err error
		if !c.Try("bscript.EncodeParts", func() { e, err = bscript.EncodeParts([][]byte{d}) }) {
			return
		}
		want := refcodec.EncodeItems([][]byte{d})
		c.Count("owned:encodings-after-caller-append")
		if err != nil || !bytes.Equal(e, want) {
			c.Violationf("C13:encode:changed-after-caller-extended-an-earlier-result", "after a caller appended to / overwrote slices returned by PushDataPrefix and EncodeParts, EncodeParts(%d-byte item) = %x (err %v), expected %x", len(d), e[:min(len(e), 12)], err, want[:min(len(want), 12)])
			return
		}
		var parts [][]byte
		if c.Try("bscript.DecodeParts", func() { parts, err = bscript.DecodeParts(e) }) && (err != nil || len(parts) != 1 || !bytes.Equal(parts[0], d)) {
			c.Violationf("C13:decode:changed-after-caller-extended-an-earlier-result", "DecodeParts(EncodeParts(item)) no longer returns the item after a caller extended an earlier encoder result")
			return
		}
	}
	c.Distinct(prng.HashBytes(in.First[0], in.Then[len(in.Then)-1]))
}

func c13JudgeItems(c *mon.Ctx, in *c13Items) {
	c.Eval(1)
	items := in.items()
	for _, it := range items {
		if len(it) == 0 {
			return // outside the statement ("non-empty data items")
		}
	}
	// the items are handed over as sub-slices of one buffer (guard bytes between
	// them, capacity running on): encoders read their arguments, nothing more
	{
		var arena []byte
		offs := make([]int, len(items))
		for i, it := range items {
			arena = append(arena, 0xC5, 0xC6, 0xC7)
			offs[i] = len(arena)
			arena = append(arena, it...)
		}
		arena = append(arena, 0xC8, 0xC9)
		arena0 := append([]byte{}, arena...)
		for i := range items {
			items[i] = arena[offs[i] : offs[i]+len(items[i])]
		}
		defer func() {
			if !bytes.Equal(arena, arena0) {
				c.Violationf("C13:argument-memory-modified", "the buffer holding the items handed to the encoders (lens %v) was modified", in.Lens)
			}
		}()
	}
	want := refcodec.EncodeItems(items)
	var enc []byte
	var err error
	if !c.Try("bscript.EncodeParts", func() { enc, err = bscript.EncodeParts(items) }) {
		return
	}
	if err != nil {
		c.Violationf("C13:encode:error", "EncodeParts(lens %v) failed: %v", in.Lens, err)
		return
	}
	if len(enc) < 4096 {
		c.Retain("EncodeParts result", func() []byte { return enc })
	}
	if !bytes.Equal(enc, want) {
		toks, tr := refcodec.Tokenize(enc)
		what := "bytes differ from the minimal-push encoding"
		if tr < 0 {
			for i, t := range toks {
				if !t.Minimal() {
					what = fmt.Sprintf("item %d (%d bytes) encoded with opcode 0x%02x, not the shortest form", i, len(t.Data), t.Op)
					break
				}
			}
		}
		c.Violationf("C13:encode:not-shortest-form", "EncodeParts(lens %v): %s (got %d bytes, minimal encoding has %d)", in.Lens, what, len(enc), len(want))
		return
	}
	for i, it := range items {
		var pre []byte
		if c.Try("bscript.PushDataPrefix", func() { pre, err = bscript.PushDataPrefix(it) }) {
			m := refcodec.MinimalPush(it)
			if err != nil || !bytes.Equal(pre, m[:len(m)-len(it)]) {
				c.Violationf("C13:encode:prefix-not-shortest-form", "PushDataPrefix(%d bytes) = %x err=%v, shortest form is %x", len(it), pre, err, m[:len(m)-len(it)])
			}
		}
		if len(it) >= 2 {
			var sz int
			if c.Try("bscript.MinPushSize", func() { sz = bscript.MinPushSize(it) }) && sz != len(refcodec.MinimalPush(it)) {
				c.Violationf("C13:encode:minpushsize-differs", "MinPushSize(%d bytes) = %d, the minimal push has %d bytes", len(it), sz, len(refcodec.MinimalPush(it)))
			}
		}
		c.Count(c13ClassKey(len(it), "items"))
		_ = i
	}
	// the script builders: one list, several single calls, the string and hex
	// forms - onto an empty script and behind an existing prefix
	total := 0
	for _, it := range items {
		total += len(it)
	}
	if total <= 200000 {
		prefix := []byte{0x76, 0xa9}
		for _, b := range []struct {
			name string
			f    func(s *bscript.Script) error
		}{
			{"AppendPushDataArray", func(s *bscript.Script) error { return s.AppendPushDataArray(items) }},
			{"AppendPushData", func(s *bscript.Script) error {
				for _, it := range items {
					if e := s.AppendPushData(it); e != nil {
						return e
					}
				}
				return nil
			}},
			{"AppendPushDataHexString", func(s *bscript.Script) error {
				for _, it := range items {
					if e := s.AppendPushDataHexString(hex.EncodeToString(it)); e != nil {
						return e
					}
				}
				return nil
			}},
			{"AppendPushDataStrings", func(s *bscript.Script) error {
				ss := make([]string, len(items))
				for i, it := range items {
					ss[i] = string(it)
				}
				return s.AppendPushDataStrings(ss)
			}},
			{"AppendPushDataString", func(s *bscript.Script) error {
				for _, it := range items {
					if e := s.AppendPushDataString(string(it)); e != nil {
						return e
					}
				}
				return nil
			}},
		} {
			for _, pre := range [][]byte{nil, prefix} {
				scr := bscript.Script(append(make([]byte, 0, len(pre)+3), pre...)) // spare capacity: an append must not write behind the caller's back
				var berr error
				if !c.Try("bscript.(*Script)."+b.name, func() { berr = b.f(&scr) }) {
					continue
				}
				if berr != nil || !bytes.Equal(scr, append(append([]byte{}, pre...), want...)) {
					c.Violationf("C13:encode:builder-differs:"+b.name, "%s of items with lens %v onto a %d-byte script: err=%v, result has %d bytes, prefix + minimal pushes have %d", b.name, in.Lens, len(pre), berr, len(scr), len(pre)+len(want))
				} else {
					c.Count("builders:agree")
				}
			}
		}
	}
	// aliasing between receiver and argument: the items live in the receiver's
	// own spare capacity (a script that is a view into a larger buffer, and
	// data taken from the same buffer), handed over in reverse order
	if total <= 70000 && len(items) <= 6 {
		prefix := []byte{0x76, 0xa9}
		buf := append([]byte{}, prefix...)
		var views [][]byte
		for _, it := range items {
			off := len(buf)
			buf = append(buf, it...)
			views = append(views, buf[off:len(buf):len(buf)])
		}
		buf = append(buf, make([]byte, 16+8*len(items))...)
		rev := make([][]byte, len(items))
		copies := make([][]byte, len(items))
		for i := range items {
			rev[i] = views[len(items)-1-i]
			copies[i] = items[len(items)-1-i]
		}
		wantRev := append(append([]byte{}, prefix...), refcodec.EncodeItems(copies)...)
		scr := bscript.Script(buf[:len(prefix)])
		var berr error
		if c.Try("bscript.(*Script).AppendPushDataArray", func() { berr = scr.AppendPushDataArray(rev) }) {
			if berr != nil || !bytes.Equal(scr, wantRev) {
				c.Violationf("C13:encode:builder-differs:aliased-arguments", "AppendPushDataArray onto a script whose spare capacity holds the items themselves (lens %v, reversed): err=%v, result differs from prefix + minimal pushes of the items as they were when the call was made", in.Lens, berr)
			} else {
				c.Count("builders:aliased-arguments-agree")
			}
		}
	}
	var parts [][]byte
	if !c.Try("bscript.DecodeParts", func() { parts, err = bscript.DecodeParts(enc) }) {
		return
	}
	if err != nil {
		c.Violationf("C13:encode:decode-error", "DecodeParts(EncodeParts(lens %v)) failed: %v", in.Lens, err)
		return
	}
	if len(parts) != len(items) {
		c.Violationf("C13:encode:decode-differs", "DecodeParts(EncodeParts(lens %v)) returned %d parts", in.Lens, len(parts))
		return
	}
	for i := range parts {
		if !bytes.Equal(parts[i], items[i]) {
			c.Violationf("C13:encode:decode-differs", "DecodeParts(EncodeParts(lens %v)): part %d differs (len %d vs %d)", in.Lens, i, len(parts[i]), len(items[i]))
			return
		}
	}
	c.Count("items:judged")
	c.Distinct(prng.HashBytes(append([][]byte{[]byte("items")}, items...)...))
	c.Sample("items", 2, func() any {
		return map[string]any{"lens": in.Lens, "encoded_prefix_hex": fmt.Sprintf("%x", enc[:min(len(enc), 12)]), "encoded_len": len(enc)}
	})
}

func c13ParsedSize(op interpreter.ParsedOpcode) int {
	l := op.Length()
	if l > 0 {
		return l
	}
	return 1 - l + len(op.Data)
}

func c13Short(s []byte) string {
	if len(s) <= 80 {
		return fmt.Sprintf("%x", s)
	}
	return fmt.Sprintf("%x…(%d bytes)", s[:80], len(s))
}

var c13Judged uint64

var c13LongLivedParser interpreter.DefaultOpcodeParser

func c13JudgeScript(c *mon.Ctx, in *c13Script) {
	ownerEditsDecodedEmpties(c)
	if c13Judged++; c13Judged%64 == 0 && len(in.Script) != 0 { // the empty script, again and again between the others
		c13JudgeScript(c, &c13Script{Script: []byte{}, Class: "empty-script-revisited"})
	}
	c.Eval(1)
	s := mon.Exact(in.Script) // capacity == length
	scr := bscript.NewFromBytes(s)
	defer func() { // rendering and tokenising are reads: the script is afterwards what it was
		if !bytes.Equal(s, in.Script) {
			c.Violationf("C13:codec-changed-the-script", "after hex / JSON / ASM / DecodeParts / Parse the script is %s, it was %s", c13Short(s), c13Short(in.Script))
		}
	}()
	toks, tr := refcodec.Tokenize(s)
	wellFormed := tr < 0
	hasRet := false // an OP_RETURN instruction among the complete tokens
	pushes := 0
	for _, t := range toks {
		if !t.Push && t.Op == 0x6a {
			hasRet = true
		}
		if t.Push {
			pushes++
			c.Count(c13ClassKey(len(t.Data), "token"))
			if len(t.Data) == 0 {
				c.Count("zero-length-push:seen")
			} else if !t.Minimal() {
				c.Count("nonminimal-push:seen")
			}
		}
	}
	form := ""
	if !wellFormed {
		form = c13FormName(s[tr])
	}
	if len(s) == 1 && c13NonPushOpcode(s[0]) && in.Class == "single-byte" {
		c.Count("op-exhaustive:nonpush-single")
	}
	if (wellFormed && len(toks) >= 2 && pushes >= 1) || !wellFormed {
		c.Distinct(prng.HashBytes([]byte("script"), s))
	}

	// ---- hex and JSON: every byte string --------------------------------
	var back *bscript.Script
	var err error
	var hx string
	if c.Try("bscript.(*Script).String", func() { hx = scr.String() }) &&
		c.Try("bscript.NewFromHexString", func() { back, err = bscript.NewFromHexString(hx) }) {
		if err != nil || back == nil || !bytes.Equal(*back, s) {
			c.Violationf("C13:hex:roundtrip-differs", "NewFromHexString(String(%s)) err=%v", c13Short(s), err)
		} else {
			c.Count("hex:roundtrip")
		}
	}
	var js []byte
	if c.Try("json.Marshal(*bscript.Script)", func() { js, err = json.Marshal(scr) }) {
		if err != nil {
			c.Violationf("C13:json:marshal-error", "json.Marshal(script %s): %v", c13Short(s), err)
		} else {
			// the destination is fresh, or was used before for another script
			// (a decoding loop re-using its variable), directly or as a field
			for di, dirty := range [][]byte{nil, {0x76, 0xa9, 0x14}, append(append([]byte{}, s...), 0x51, 0x52)} {
				out := bscript.Script(append([]byte(nil), dirty...))
				if c.Try("json.Unmarshal(*bscript.Script)", func() { err = json.Unmarshal(js, &out) }) {
					if err != nil || !bytes.Equal(out, s) {
						c.Violationf("C13:json:roundtrip-differs"+[]string{"", ":reused-destination", ":reused-destination"}[di], "json round trip of script %s into a destination holding %x: err=%v got %s", c13Short(s), dirty, err, c13Short(out))
					} else {
						c.Count("json:roundtrip")
					}
				}
			}
			type holder struct {
				S *bscript.Script `json:"s"`
			}
			var hjs []byte
			if c.Try("json.Marshal(struct with *bscript.Script)", func() { hjs, err = json.Marshal(holder{S: scr}) }) && err == nil {
				old := bscript.Script{0x76, 0xa9, 0x14}
				h := holder{S: &old}
				if c.Try("json.Unmarshal(struct with *bscript.Script)", func() { err = json.Unmarshal(hjs, &h) }) {
					var got []byte
					if h.S != nil { // a nil pointer holds no bytes: the empty script
						got = *h.S
					}
					if err != nil || !bytes.Equal(got, s) {
						c.Violationf("C13:json:roundtrip-differs:field", "json round trip of script %s as a struct field (%s) into a struct holding another script: err=%v", c13Short(s), hexShort(hjs), err)
					} else {
						c.Count("json:roundtrip:field")
					}
				}
			}
		}
	}

	// ---- DecodeParts ----------------------------------------------------
	var parts [][]byte
	if c.Try("bscript.DecodeParts", func() { parts, err = bscript.DecodeParts(s) }) {
		switch {
		case wellFormed && err != nil:
			c.Violationf("C13:decodeparts:rejects-well-formed", "DecodeParts(%s) = %v; the script tokenizes into %d instructions", c13Short(s), err, len(toks))
		case wellFormed:
			ok := len(parts) == len(toks)
			for i := 0; ok && i < len(toks); i++ {
				if toks[i].Push {
					ok = bytes.Equal(parts[i], toks[i].Data)
				} else {
					ok = len(parts[i]) == 1 && parts[i][0] == toks[i].Op
				}
			}
			if !ok {
				c.Violationf("C13:decodeparts:tokens-differ", "DecodeParts(%s) returned %d parts, reference tokenizer %d instructions (or a part differs)", c13Short(s), len(parts), len(toks))
			} else {
				c.Count("decodeparts:agree")
			}
		case err == nil:
			c.Violationf("C13:decodeparts:accepts-truncated:"+form, "DecodeParts(%s) returned no error although the push at offset %d is cut", c13Short(s), tr)
		default:
			c.Count("trunc:decodeparts-rejected")
		}
	}

	// ---- Parse / Unparse ------------------------------------------------
	// one parser value serves script after script, as a long-lived engine's does
	// (every fourth script gets a parser of its own): what Unparse returned for
	// an earlier script belongs to the caller and is looked at again later
	parser := &c13LongLivedParser
	if c13Judged%4 == 3 {
		parser = &interpreter.DefaultOpcodeParser{}
	}
	var parsed interpreter.ParsedScript
	if c.Try("interpreter.(*DefaultOpcodeParser).Parse", func() { parsed, err = parser.Parse(scr) }) {
		switch {
		case wellFormed && err != nil:
			c.Violationf("C13:parse:rejects-well-formed", "Parse(%s) = %v; the script tokenizes into %d instructions", c13Short(s), err, len(toks))
		case wellFormed:
			if !hasRet {
				ok := len(parsed) == len(toks)
				for i := 0; ok && i < len(toks); i++ {
					po := parsed[i]
					ok = po.Value() == toks[i].Op && c13ParsedSize(po) == toks[i].End-toks[i].Start
					if ok && toks[i].Push {
						ok = bytes.Equal(po.Data, toks[i].Data)
					} else if ok {
						ok = len(po.Data) == 0
					}
				}
				if !ok {
					c.Violationf("C13:parse:tokens-differ", "Parse(%s) returned %d opcodes, reference tokenizer %d instructions (or opcode/data/size differs)", c13Short(s), len(parsed), len(toks))
				} else {
					c.Count("parse:agree")
				}
			} else {
				c.Count("parse:opreturn-script-not-compared")
			}
			var un *bscript.Script
			if c.Try("interpreter.(*DefaultOpcodeParser).Unparse", func() { un, err = parser.Unparse(parsed) }) {
				switch {
				case err != nil:
					c.Violationf("C13:unparse:error", "Unparse(Parse(%s)) = %v", c13Short(s), err)
				case un == nil || !bytes.Equal(*un, s):
					c.Violationf("C13:unparse:bytes-differ", "Unparse(Parse(%s)) returned different bytes", c13Short(s))
				default:
					c.Count("parse:unparse-identical")
					if len(s) > 0 {
						kept := un
						c.Retain("script returned by Unparse", func() []byte { return *kept })
					}
					if hasRet {
						c.Count("parse:unparse-identical-with-opreturn")
					}
				}
			}
		case !hasRet && err == nil:
			c.Violationf("C13:parse:accepts-truncated:"+form, "Parse(%s) returned no error although the push at offset %d is cut", c13Short(s), tr)
		case !hasRet:
			c.Count("trunc:parse-clause-judged")
		case c13DataAfterTopLevelReturn(toks, s):
			// the instructions in front of the cut are complete, their conditionals balanced, and an
			// OP_RETURN outside every conditional precedes it: what follows is data, the script is
			// well-formed, and Parse + Unparse give the bytes back
			c.Count("parse:data-behind-a-top-level-opreturn")
			var un *bscript.Script
			var uerr error
			if err != nil {
				c.Violationf("C13:parse:rejects-well-formed", "Parse(%s) = %v; an OP_RETURN outside every (balanced) conditional precedes the bytes that do not tokenize: they are data", c13Short(s), err)
			} else if c.Try("interpreter.(*DefaultOpcodeParser).Unparse", func() { un, uerr = parser.Unparse(parsed) }) {
				if uerr != nil || un == nil || !bytes.Equal(*un, s) {
					c.Violationf("C13:unparse:bytes-differ", "Unparse(Parse(%s)) returned different bytes (%v) for a script with data behind a top-level OP_RETURN", c13Short(s), uerr)
				}
			}
		default:
			// an OP_RETURN precedes the cut, inside a conditional or behind unmatched ENDIFs: the
			// property makes no claim for this tokeniser
			c.Count("trunc:parse-after-opreturn-not-judged")
			if err == nil {
				var un *bscript.Script
				var uerr error
				if c.Try("interpreter.(*DefaultOpcodeParser).Unparse", func() { un, uerr = parser.Unparse(parsed) }) && uerr == nil && un != nil && bytes.Equal(*un, s) {
					c.Count("trunc:parse-after-opreturn-roundtrips")
				}
			}
		}
	}
	// The parser as the engine configures it when no transaction is supplied
	// (ErrorOnCheckSig): it differs from the plain one only in refusing scripts
	// that contain a signature / sequence-lock OPCODE. What follows a top-level
	// OP_RETURN is data, not opcodes.
	{
		depth, balanced, needsTx := 0, true, false
	scan:
		for _, t := range toks {
			if t.Push {
				continue
			}
			switch t.Op {
			case 0x63, 0x64:
				depth++
			case 0x68:
				if depth--; depth < 0 {
					balanced = false
					break scan
				}
			case 0x6a:
				if depth == 0 {
					break scan
				}
			case 0xac, 0xad, 0xae, 0xaf, 0xb2:
				needsTx = true
			}
		}
		var plainErr, strictErr error
		var plain, strict interpreter.ParsedScript
		strictParser := interpreter.DefaultOpcodeParser{ErrorOnCheckSig: true}
		if balanced && c.Try("interpreter.(*DefaultOpcodeParser).Parse", func() {
			plain, plainErr = parser.Parse(scr)
			strict, strictErr = strictParser.Parse(scr)
		}) && plainErr == nil {
			switch {
			case needsTx:
				c.Count("parse:strict:script-needs-tx")
			case strictErr != nil:
				c.Violationf("C13:parse:strict-parser-rejects", "Parse with ErrorOnCheckSig rejects %s (%v) although no signature or sequence-lock opcode occurs before the end / a top-level OP_RETURN; the plain parser accepts it", c13Short(s), strictErr)
			default:
				var a, b *bscript.Script
				var ea, eb error
				if c.Try("interpreter.(*DefaultOpcodeParser).Unparse", func() { a, ea = parser.Unparse(plain); b, eb = strictParser.Unparse(strict) }) {
					if ea != nil || eb != nil || a == nil || b == nil || !bytes.Equal(*a, *b) {
						c.Violationf("C13:parse:strict-parser-differs", "Unparse(Parse(%s)) differs between the plain parser and the one with ErrorOnCheckSig (%v / %v)", c13Short(s), ea, eb)
					} else {
						c.Count("parse:strict:agrees")
					}
				}
			}
		}
	}
	if wellFormed && hasRet {
		// data after a top-level OP_RETURN (reference notion of top level: IF-depth 0)
		depth := 0
		for i, t := range toks {
			if t.Push {
				continue
			}
			switch t.Op {
			case 0x63, 0x64:
				depth++
			case 0x68:
				depth--
			case 0x6a:
				if depth == 0 && i+1 < len(toks) {
					c.Count("opreturn:top-level-followed-by-data")
				}
			}
		}
	}

	// ---- ASM --------------------------------------------------------------
	var asm string
	if c.Try("bscript.(*Script).ToASM", func() { asm, err = scr.ToASM() }) {
		if !wellFormed {
			c.Count("trunc:judged")
			if err != nil || !strings.HasSuffix(asm, "[error]") {
				c.Violationf("C13:toasm:no-error-marker:"+form, "ToASM(%s) = %q err=%v: no [error] marker although the push at offset %d is cut", c13Short(s), asm, err, tr)
			}
		} else if c13ASMClaim(s, toks) {
			if err != nil {
				c.Violationf("C13:asm:toasm-error", "ToASM(%s) = %v", c13Short(s), err)
			} else {
				var fromASM *bscript.Script
				if c.Try("bscript.NewFromASM", func() { fromASM, err = bscript.NewFromASM(asm) }) {
					switch {
					case err != nil:
						c.Violationf("C13:asm:newfromasm-error", "NewFromASM(ToASM(%s)) = %v (asm %q)", c13Short(s), err, c13ShortStr(asm))
					case fromASM == nil || !bytes.Equal(*fromASM, s):
						c.Violationf("C13:asm:roundtrip-differs", "NewFromASM(ToASM(%s)) returned %s (asm %q)", c13Short(s), c13Short(*fromASM), c13ShortStr(asm))
					default:
						c.Count("asm:roundtrip")
						if len(s) == 1 && in.Class == "single-byte" {
							c.Count("op-exhaustive:asm-single")
						}
					}
				}
			}
		}
	}
	c.Sample(in.Class, 1, func() any {
		return map[string]any{"script": c13Short(s), "class": in.Class, "instructions": len(toks), "cut_push_at": tr, "asm": c13ShortStr(asm)}
	})
}

func c13ShortStr(s string) string {
	if len(s) > 160 {
		return s[:160] + "…"
	}
	return s
}

// c13ASMClaim: non-empty, non-data, only opcodes 0x50/0x61..0xff and minimal pushes of >= 2 bytes.
func c13ASMClaim(s []byte, toks []refcodec.Token) bool {
	if len(toks) == 0 || refcodec.HasDataPrefix(s) {
		return false
	}
	for _, t := range toks {
		if t.Push {
			if len(t.Data) < 2 || !t.Minimal() {
				return false
			}
		} else if !c13NonPushOpcode(t.Op) {
			return false
		}
	}
	return true
}

// c13DataAfterTopLevelReturn: toks are the complete instructions in front of the
// first byte that does not tokenize. True when one of them is an OP_RETURN at
// conditional depth 0 and the depth never went below zero before it (IF / NOTIF
// open, ENDIF closes; with unmatched ENDIFs "top level" is not defined).
func c13DataAfterTopLevelReturn(toks []refcodec.Token, s []byte) bool {
	depth := 0
	for _, t := range toks {
		if t.Push {
			continue
		}
		switch t.Op {
		case 0x63, 0x64:
			depth++
		case 0x68:
			depth--
			if depth < 0 {
				return false
			}
		case 0x6a:
			if depth == 0 {
				return true
			}
		}
	}
	return false
}
