package main

import (
	"bytes"
	"context"
	"encoding/hex"
	"encoding/json"
	"fmt"

	"github.com/libsv/go-bk/bec"
	"github.com/libsv/go-bt/v2"
	"github.com/libsv/go-bt/v2/bscript"
	"github.com/libsv/go-bt/v2/unlocker"

	"verif/internal/gen"
	"verif/internal/mon"
	"verif/internal/prng"
	"verif/internal/refcodec"
)

// C16 — JSON interchange preserves transactions and satoshi amounts exactly.

type c16Amt struct {
	Sats    uint64 `json:"sats"`
	Wrapper string `json:"wrapper"`
}

type c16Tx struct {
	Shape gen.Shape `json:"shape"`
	Stage string    `json:"stage"`
}

type c16Built struct {
	Seed uint64 `json:"seed"`
}

// c16List: a list of N small, pairwise different transactions / UTXOs through the four list dialects.
type c16List struct {
	N    int    `json:"n"`
	Seed uint64 `json:"seed"`
}

const c16MaxMoney = 2_100_000_000_000_000

var c16NodeWrappers = []string{"output.NodeJSON", "utxo.NodeJSON"}
var c16AllWrappers = []string{"output.NodeJSON", "utxo.NodeJSON", "UTXOs.NodeJSON", "Output", "UTXO", "UTXOs"}

// c16Seen: violation keys already reported with full detail by this process
// (later occurrences only count; spares formatting 6 % of 10^8 amounts).
var c16Seen = map[string]bool{}

func c16Viol(c *mon.Ctx, key string, detail func() string) {
	if c16Seen[key] {
		c.Violation(key, "")
		return
	}
	c16Seen[key] = true
	c.Violation(key, detail())
}

// c16Script: the locking script carried through the amount cases. Deliberately tiny (OP_1 OP_DROP OP_1):
// the node output dialect runs ToASM/Addresses/ScriptType on it for each of the 10^8 amounts;
// arbitrary script bytes are exercised by the transaction phases.
var c16Script = []byte{0x51, 0x75, 0x51}
var c16TxID = bytes.Repeat([]byte{0xcd}, 32)

func init() {
	p := &mon.Property{
		ID: "C16",
		Rule: "amounts: EXHAUSTIVE 0..2*10^6 (quick) / 0..10^8 (thorough) through output.NodeJSON() and utxo.NodeJSON() (marshal, unmarshal, integer comparison of satoshis, script, txid, vout); every k*10^j + {-1,0,1} (k = 1..999, j = 0..15) and 2^n + {-1,0,1} up to 21*10^14 and 200 000 / 1 000 000 random 51-bit values through all six dialects (output.NodeJSON, utxo.NodeJSON, UTXOs.NodeJSON, *Output, *UTXO, UTXOs); uint64 edge values through the three integer dialects. " +
			"txs: shapes from the shared generator (0..4 inputs, 0..4 outputs, arbitrary script bytes, boundary version/locktime/sequence), each at five build stages {no-inputs, unsigned (nil unlocking scripts, as Tx.From leaves them), unsigned-decoded (empty scripts), partially-signed, signed} through *Tx, tx.NodeJSON(), Txs, Txs.NodeJSON() and, per output / previous output, the output and utxo dialects; plus transactions built and really signed through the library API (From, PayToAddress, AddOpReturnOutput, FillInput, FillAllInputs) judged after each step. " +
			"Oracle: marshalling returns a value or an error, never panics; unmarshal(marshal(x)) has identical Bytes(), TxID, version, locktime, per-input unlocking script, per-output script and integer-equal satoshis (node dialects: for amounts <= 21*10^14). " +
			"distinct_nontrivial = distinct (dialect, amount) pairs below 2*10^6 and from the boundary/random sets (the sweep above 2*10^6 is counted by counter amounts:exhaustive only) + distinct (serialisation, stage) of transactions with >= 1 input or output.",
		Assum: []string{
			"encoding/json renders and parses float64 exactly (shortest round-trip form); the satoshi comparison is on uint64, no tolerance",
			"UTXOs with a nil locking script are outside the statement and are not generated; the ambiguous empty tx with locktime bytes 000000EF is not generated",
			"inputs lose PreviousTxSatoshis / PreviousTxScript in every JSON dialect by design; they are not compared",
		},
		Exhaustive: func(string) bool { return true },
	}
	amt := mon.Kind(p, "amount", c16JudgeAmt)
	txk := mon.Kind(p, "tx", c16JudgeTx)
	built := mon.Kind(p, "built", c16JudgeBuilt)
	lists := mon.Kind(p, "list", c16JudgeList)

	p.Run = func(c *mon.Ctx) {
		// ---- exhaustive low range -----------------------------------------
		c.Phase("amounts-exhaustive")
		top := uint64(2_000_000)
		if c.Thorough {
			top = 100_000_000
		}
		const block = 1000
		c.Max("amounts:exhaustive-top", float64(top))
		for b := uint64(0); b*block <= top; b++ {
			if !c.Case(b) {
				continue
			}
			for v := b * block; v < (b+1)*block && v <= top; v++ {
				for _, w := range c16NodeWrappers {
					amt(c, &c16Amt{Sats: v, Wrapper: w})
				}
				c.Count("amounts:exhaustive")
			}
		}
		// ---- decimal and binary boundaries --------------------------------
		c.Phase("amounts-boundary")
		n := uint64(0)
		judgeAll := func(v uint64) {
			if v > c16MaxMoney {
				return
			}
			for _, w := range c16AllWrappers {
				amt(c, &c16Amt{Sats: v, Wrapper: w})
			}
			c.Count("amounts:boundary")
		}
		pow := uint64(1)
		for j := 0; j <= 15; j++ {
			for k := uint64(1); k <= 999; k++ {
				n++
				if !c.Case(n) {
					continue
				}
				v := k * pow
				judgeAll(v - 1)
				judgeAll(v)
				judgeAll(v + 1)
			}
			pow *= 10
		}
		for e := 0; e <= 51; e++ {
			n++
			if !c.Case(n) {
				continue
			}
			v := uint64(1) << e
			judgeAll(v - 1)
			judgeAll(v)
			judgeAll(v + 1)
		}
		n++
		if c.Case(n) {
			for _, v := range []uint64{c16MaxMoney - 2, c16MaxMoney - 1, c16MaxMoney, 0} {
				judgeAll(v)
			}
			for _, v := range gen.U64Edges {
				for _, w := range []string{"Output", "UTXO", "UTXOs"} {
					amt(c, &c16Amt{Sats: v, Wrapper: w})
				}
				c.Count("amounts:uint64-edge")
			}
		}
		// ---- random 51-bit ------------------------------------------------
		c.Phase("amounts-random")
		nr := uint64(200_000)
		if c.Thorough {
			nr = 1_000_000
		}
		for i := uint64(0); i < nr/100; i++ {
			if !c.Case(i) {
				continue
			}
			r := c.Rand(i)
			for k := 0; k < 100; k++ {
				v := r.Uint64() >> 13 // 51 bits
				if k%4 == 0 {
					v %= c16MaxMoney + 1
				}
				for _, w := range c16AllWrappers {
					if v > c16MaxMoney && (w == "output.NodeJSON" || w == "utxo.NodeJSON" || w == "UTXOs.NodeJSON") {
						continue // node dialects are claimed for 0..21*10^14
					}
					amt(c, &c16Amt{Sats: v, Wrapper: w})
				}
				c.Count("amounts:random-51-bit")
			}
		}

		// ---- transactions at every build stage ----------------------------
		c.Phase("tx-stages")
		nt := 3000
		if c.Thorough {
			nt = 60000
		}
		for i := 0; i < nt; i++ {
			if !c.Case(uint64(i)) {
				continue
			}
			r := c.Rand(uint64(i))
			base := gen.RandShape(r, gen.ShapeOpts{MaxIns: 4, MinIns: 2, MaxOuts: 4, ScriptLens: []int{0, 1, 25, 75, 76, 255, 256, 300}})
			for k := range base.Outs { // some outputs are data scripts made of small pushes, or one-/two-byte scripts
				switch r.Intn(6) {
				case 0:
					sc := []byte{0x6a}
					if r.Bool() {
						sc = []byte{0x00, 0x6a}
					}
					for n := 1 + r.Intn(4); n > 0; n-- {
						sc = append(sc, gen.Push(r.Bytes(1+r.Intn(5)))...)
					}
					base.Outs[k].Script = sc
				case 1:
					base.Outs[k].Script = prng.Pick(r, [][]byte{{0x00}, {0x6a}, {0x51}, {0x00, 0x6a}, {0x00, 0x00}, {0x4c}, {0x01}, {0x6a, 0x4c}, {0x00, 0x6a, 0x01},
						{0x4d}, {0x4d, 0x01}, {0x4e}, {0x4e, 0x01}, {0x4e, 0x01, 0x02}, {0x4e, 0x01, 0x02, 0x03}, {0x51, 0x4e, 0x00, 0x00, 0x00}, {0x4c, 0x05, 0x01}, {0x05, 0x01, 0x02}, {},
						// shaped like a bare multisig (small integer … small integer, last element) with empty pushes in the places of keys / counts / the final opcode
						{0x51, 0x51, 0x4c, 0x00}, {0x51, 0x51, 0x4d, 0x00, 0x00}, {0x51, 0x51, 0x4e, 0x00, 0x00, 0x00, 0x00}, {0x51, 0x4c, 0x00, 0x51, 0xae}, {0x4c, 0x00, 0x51, 0x51, 0xae}, {0x51, 0x01, 0x07, 0x51, 0x4c, 0x00}, {0x00, 0x00, 0xae}, {0x51, 0x01, 0x07, 0x60, 0xae}})
				case 2: // a P2PKH-inscription envelope whose pushes (content type, separator, payload) use every legal form, empty ones included
					form := func(d []byte) []byte {
						if len(d) == 0 {
							return prng.Pick(r, [][]byte{{0x00}, {0x4c, 0x00}, {0x4d, 0x00, 0x00}, {0x4e, 0x00, 0x00, 0x00, 0x00}})
						}
						if r.Chance(1, 3) {
							e, _ := refcodec.PushWith(prng.Pick(r, []byte{0x4c, 0x4d}), d)
							return e
						}
						return gen.Push(d)
					}
					sc := gen.P2PKH(r.Bytes(20))
					sc = append(sc, 0x00, 0x63, 0x03, 'o', 'r', 'd', 0x51)
					sc = append(sc, form(r.Bytes(r.Intn(3)*5))...)
					sc = append(sc, form(nil)...)
					sc = append(sc, form(r.Bytes(r.Intn(3)*7))...)
					sc = append(sc, 0x68)
					base.Outs[k].Script = sc
				}
				if i%97 == 5 && k == 0 { // one script beyond the readers' chunk size
					base.Outs[k].Script = r.Bytes(prng.Pick(r, []int{16384, 16385, 20000, 40000}))
				}
			}
			if i%11 == 3 { // unlocking scripts that end inside a push header (coinbase-style data)
				base.Ins[0].Unlock = prng.Pick(r, [][]byte{{0x4e, 0x01, 0x02, 0x03}, {0x03, 0x01, 0x02, 0x4d, 0x01}, {0x4c}, {0x51, 0x4e}})
			}
			for k := range base.Ins { // "signed": every unlocking script present and non-empty
				if len(base.Ins[k].Unlock) == 0 {
					base.Ins[k].Unlock = gen.Push(r.Bytes(1 + r.Intn(72)))
				}
				if base.Ins[k].PrevScript == nil {
					base.Ins[k].PrevScript = []byte{}
				}
			}
			stage := func(name string, f func(s *gen.Shape)) {
				s := gen.Shape{Version: base.Version, LockTime: base.LockTime, Outs: base.Outs}
				s.Ins = append([]gen.In{}, base.Ins...)
				f(&s)
				if s.Ambiguous() {
					s.LockTime = 0
				}
				txk(c, &c16Tx{Shape: s, Stage: name})
			}
			stage("signed", func(s *gen.Shape) {})
			stage("no-inputs", func(s *gen.Shape) { s.Ins = nil })
			stage("unsigned", func(s *gen.Shape) {
				for k := range s.Ins {
					s.Ins[k].Unlock, s.Ins[k].UnlockNil = nil, true
				}
			})
			stage("unsigned-null-outpoint", func(s *gen.Shape) { // an unsigned input that spends (00…00, 0xffffffff): the shape of a coinbase input, without a script
				k := i % len(s.Ins)
				s.Ins[k].Unlock, s.Ins[k].UnlockNil = nil, true
				s.Ins[k].TxID, s.Ins[k].Vout = make([]byte, 32), 0xffffffff
			})
			stage("unsigned-decoded", func(s *gen.Shape) {
				for k := range s.Ins {
					s.Ins[k].Unlock = []byte{}
				}
			})
			stage("partially-signed", func(s *gen.Shape) {
				k := r.Intn(len(s.Ins))
				s.Ins[k].Unlock, s.Ins[k].UnlockNil = nil, true
			})
		}
		c.Phase("varint-boundaries") // counts and script lengths on both sides of every length-prefix class boundary
		{
			n := uint64(0)
			mk := func(nin, nout, slen int, where string) {
				n++
				if !c.Case(n) {
					return
				}
				r := c.Rand(n)
				s := gen.Shape{Version: 1 + uint32(r.Intn(2)), LockTime: gen.U32(r)}
				for k := 0; k < nin; k++ {
					s.Ins = append(s.Ins, gen.In{TxID: r.Bytes(32), Vout: uint32(r.Intn(5)), Seq: gen.U32(r), Unlock: gen.Push(r.Bytes(1 + r.Intn(4))), PrevSats: uint64(1 + r.Intn(5000)), PrevScript: []byte{}})
				}
				for k := 0; k < nout; k++ {
					s.Outs = append(s.Outs, gen.Out{Sats: uint64(r.Intn(100000)), Script: gen.P2PKH(r.Bytes(20))})
				}
				switch where {
				case "out":
					s.Outs[r.Intn(nout)].Script = append([]byte{0x00, 0x6a}, r.Bytes(slen-2)...)
				case "unlock":
					s.Ins[r.Intn(nin)].Unlock = append([]byte{0x6a}, r.Bytes(slen-1)...)
				}
				txk(c, &c16Tx{Shape: s, Stage: "boundary:" + where})
			}
			counts := []int{252, 253, 254, 255, 256}
			lens := []int{252, 253, 254, 255, 256, 65535, 65536, 65537}
			if c.Thorough {
				counts = append(counts, 65535, 65536, 65537)
				lens = append(lens, 100000, 1<<20)
			}
			for _, k := range counts {
				mk(k, 2, 0, "input-count")
				mk(2, k, 0, "output-count")
			}
			mk(253, 253, 0, "both-counts")
			for _, l := range lens {
				mk(2, 2, l, "out")
				mk(2, 2, l, "unlock")
			}
		}
		c.Phase("smallest-elements") // transactions made of the smallest elements the format allows: many outputs with empty (9 bytes each) or one-byte scripts, inputs with empty unlocking scripts (41 bytes each)
		{
			n := uint64(0)
			for _, nout := range []int{1, 4, 5, 6, 10, 20, 100, 252, 253, 1000} {
				for _, nin := range []int{0, 1, 3, 60} {
					for _, fill := range []int{0, 1, 2} { // all scripts empty; one output carries a few bytes; every script one byte
						n++
						if !c.Case(n) {
							continue
						}
						r := c.Rand(n)
						s := gen.Shape{Version: 1, LockTime: uint32(r.Intn(3))}
						for k := 0; k < nin; k++ {
							s.Ins = append(s.Ins, gen.In{TxID: r.Bytes(32), Vout: uint32(k), Seq: gen.U32(r), Unlock: []byte{}, PrevSats: uint64(r.Intn(50)), PrevScript: []byte{}})
						}
						for k := 0; k < nout; k++ {
							o := gen.Out{Sats: uint64(r.Intn(3)), Script: []byte{}}
							if fill == 2 {
								o.Script = []byte{0x51}
							}
							s.Outs = append(s.Outs, o)
						}
						if fill == 1 {
							s.Outs[r.Intn(nout)].Script = append([]byte{0x6a}, r.Bytes(r.Intn(5))...)
						}
						if s.Ambiguous() {
							s.LockTime = 1
						}
						txk(c, &c16Tx{Shape: s, Stage: "smallest-elements"})
					}
				}
			}
		}
		c.Phase("hostile-scripts") // scripts a decoder has to survive, as output script and as unlocking script (the node dialect renders scripts as text and classifies them): length claims on the edge of the integer types behind data-carrier and template heads, template instances with one byte changed, inscription look-alikes shorter than a key hash script
		{
			n := uint64(0)
			var scripts [][]byte
			for _, h := range c14ExtremeClaims {
				for _, pre := range [][]byte{nil, {0x00, 0x6a}, {0x6a}, {0x76, 0xa9}, {0x51}} {
					scripts = append(scripts, c14Cat(pre, h), c14Cat(pre, h, []byte{0x51, 0x51}))
				}
			}
			for _, hx := range []string{"76a904deadbeef88ac0063036f726451017400017868", "76a97688ac0063036f72645100000068", "76a90088ac0063036f7264510000000068", "0063036f7264510000000068", "76a914", "4c", "4d01", "4e010000", "514c00ae", "00514c0051ae"} {
				b, _ := hex.DecodeString(hx)
				scripts = append(scripts, b)
			}
			r0 := prng.New(c.Seed, "C16-hostile", 0)
			for _, inst := range c14Instances(r0, false) {
				if len(inst.s) <= 120 {
					c14Mutate(inst.s, false, func(_ string, m []byte) { scripts = append(scripts, m) })
				}
			}
			for i, sc := range scripts {
				n++
				if !c.Case(n) {
					continue
				}
				r := c.Rand(n)
				s := gen.Shape{Version: 1, LockTime: uint32(i)}
				s.Ins = append(s.Ins, gen.In{TxID: r.Bytes(32), Vout: uint32(r.Intn(5)), Seq: gen.U32(r), Unlock: gen.Push(r.Bytes(3)), PrevSats: uint64(1 + r.Intn(5000)), PrevScript: []byte{}})
				s.Outs = append(s.Outs, gen.Out{Sats: uint64(r.Intn(100000)), Script: gen.P2PKH(r.Bytes(20))})
				if i%3 == 2 {
					s.Ins[0].Unlock = sc
				} else {
					s.Outs = append(s.Outs, gen.Out{Sats: uint64(i), Script: sc})
				}
				txk(c, &c16Tx{Shape: s, Stage: "hostile-script"})
			}
		}
		c.Phase("long-lists") // lists of 0 .. 1000 elements (every length up to 70, then around powers of two and round numbers) through Txs, Txs.NodeJSON, UTXOs, UTXOs.NodeJSON
		{
			var ns []int
			for n := 0; n <= 70; n++ {
				ns = append(ns, n)
			}
			ns = append(ns, 99, 100, 101, 127, 128, 129, 130, 131, 255, 256, 257, 258, 259)
			if c.Thorough {
				ns = append(ns, 511, 512, 513, 1000, 1001, 1002, 1003, 4097)
			}
			for i, n := range ns {
				if c.Case(uint64(i)) {
					lists(c, &c16List{N: n, Seed: c.Rand(uint64(i)).Uint64()})
				}
			}
		}
		c.Phase("library-built")
		nb := 300
		if c.Thorough {
			nb = 5000
		}
		for i := 0; i < nb; i++ {
			if c.Case(uint64(i)) {
				built(c, &c16Built{Seed: c.Rand(uint64(i)).Uint64()})
			}
		}
	}
	p.Floor = func(a *mon.Agg) string {
		for _, st := range []string{"no-inputs", "unsigned", "unsigned-decoded", "partially-signed", "signed", "built:unsigned", "built:partially-signed", "built:signed"} {
			for _, d := range []string{"Tx", "tx.NodeJSON", "Txs", "Txs.NodeJSON"} {
				k := "stage:" + st + ":" + d
				if a.Cov[k+":roundtrip"]+a.Cov[k+":error"]+a.Cov[k+":panic"]+a.Cov[k+":mismatch"] == 0 {
					return "no observation for " + k
				}
			}
		}
		for _, k := range []string{"stage:signed:Tx:roundtrip", "stage:signed:tx.NodeJSON:roundtrip", "stage:no-inputs:Tx:roundtrip", "stage:built:signed:Tx:roundtrip", "amounts:boundary", "amounts:random-51-bit", "amounts:uint64-edge",
			"amount:output.NodeJSON:exact", "amount:utxo.NodeJSON:exact", "amount:UTXOs.NodeJSON:exact", "amount:Output:exact", "amount:UTXO:exact", "amount:UTXOs:exact", "output-dialects:from-tx"} {
			if a.Cov[k] == 0 {
				return "counter " + k + " is zero"
			}
		}
		want := int64(a.Maxes["amounts:exhaustive-top"]) + 1
		if want < 2_000_001 || a.Cov["amounts:exhaustive"] != want {
			return fmt.Sprintf("exhaustive amount sweep incomplete: %d of %d", a.Cov["amounts:exhaustive"], want)
		}
		return ""
	}
	{ // concurrent callers / readers (concurrent.go), after the sequential phases
		conc, run := concPhase(p, concJSON), p.Run
		p.Run = func(c *mon.Ctx) { run(c); conc(c) }
	}
	mon.Register(p)
}

// ------------------------------------------------------------------ amounts

func c16JudgeAmt(c *mon.Ctx, in *c16Amt) {
	c.Eval(1)
	v := in.Sats
	w := in.Wrapper
	if v <= 2_000_000 || v > 100_000_000 {
		c.Distinct(prng.HashBytes([]byte(w), []byte{byte(v), byte(v >> 8), byte(v >> 16), byte(v >> 24), byte(v >> 32), byte(v >> 40), byte(v >> 48), byte(v >> 56)}))
	}
	script := bscript.NewFromBytes(append([]byte{}, c16Script...))
	var js []byte
	var err error
	var gotSats uint64
	var gotScript []byte
	idOK := true
	marshal := func(x any) bool {
		if !c.Try("json.Marshal("+w+")", func() { js, err = json.Marshal(x) }) {
			return false
		}
		if err != nil {
			c16Viol(c, "C16:marshal-error:"+w, func() string { return fmt.Sprintf("json.Marshal(%s) with %d satoshis: %v", w, v, err) })
			return false
		}
		return true
	}
	unmarshal := func(x any) bool {
		if !c.Try("json.Unmarshal("+w+")", func() { err = json.Unmarshal(js, x) }) {
			return false
		}
		if err != nil {
			c16Viol(c, "C16:unmarshal-error:"+w, func() string { return fmt.Sprintf("json.Unmarshal(%s) of %s: %v", w, js, err) })
			return false
		}
		return true
	}
	utxo := func() *bt.UTXO {
		return &bt.UTXO{TxID: append([]byte{}, c16TxID...), Vout: 7, LockingScript: script, Satoshis: v}
	}
	fromUTXO := func(u *bt.UTXO) {
		gotSats = u.Satoshis
		if u.LockingScript != nil {
			gotScript = *u.LockingScript
		}
		idOK = bytes.Equal(u.TxID, c16TxID) && u.Vout == 7
	}
	// Part of the destinations were used before (a refresh loop decoding into
	// the objects it already holds); the used UTXOs share one txid slice, as
	// the outputs of one parent transaction naturally do. Nothing of the old
	// content may survive and siblings must not influence each other.
	dirty := v%2 == 0 || v%1000 == 1
	sharedID := bytes.Repeat([]byte{0xaa}, 32)
	usedUTXO := func(k uint32) *bt.UTXO {
		return &bt.UTXO{TxID: sharedID, Vout: 90 + k, LockingScript: bscript.NewFromBytes([]byte{0x52, 0x53, 0x54}), Satoshis: 4242 + uint64(k)}
	}
	if dirty {
		c.Count("dirty-destination:" + w)
	}
	switch w {
	case "output.NodeJSON", "Output":
		o := &bt.Output{Satoshis: v, LockingScript: script}
		out := &bt.Output{}
		if dirty {
			out = &bt.Output{Satoshis: 4242, LockingScript: bscript.NewFromBytes([]byte{0x52, 0x53, 0x54})}
		}
		var src, dst any = o, out
		if w == "output.NodeJSON" {
			src, dst = o.NodeJSON(), out.NodeJSON()
		}
		if !marshal(src) || !unmarshal(dst) {
			return
		}
		gotSats = out.Satoshis
		if out.LockingScript != nil {
			gotScript = *out.LockingScript
		}
	case "utxo.NodeJSON", "UTXO":
		u := utxo()
		out := &bt.UTXO{}
		if dirty {
			out = usedUTXO(0)
		}
		var src, dst any = u, out
		if w == "utxo.NodeJSON" {
			src, dst = u.NodeJSON(), out.NodeJSON()
		}
		if !marshal(src) || !unmarshal(dst) {
			return
		}
		fromUTXO(out)
	case "UTXOs.NodeJSON", "UTXOs":
		secondID := bytes.Repeat([]byte{0x22}, 32)
		second := &bt.UTXO{TxID: append([]byte{}, secondID...), Vout: 8, LockingScript: script, Satoshis: 100_000_000}
		list := bt.UTXOs{utxo(), second}
		var out bt.UTXOs
		if dirty {
			out = bt.UTXOs{usedUTXO(0), usedUTXO(1), usedUTXO(2)}
		}
		var src, dst any = list, &out
		if w == "UTXOs.NodeJSON" {
			src, dst = list.NodeJSON(), out.NodeJSON()
		}
		if !marshal(src) || !unmarshal(dst) {
			return
		}
		if len(out) != 2 || out[0] == nil || out[1] == nil {
			c16Viol(c, "C16:list-length-changed:"+w, func() string { return fmt.Sprintf("%s round trip of 2 UTXOs returned %d (json %s)", w, len(out), js) })
			return
		}
		fromUTXO(out[0])
		if !bytes.Equal(out[1].TxID, secondID) || out[1].Vout != 8 {
			idOK = false
		}
		if out[1].Satoshis != 100_000_000 {
			c16Viol(c, "C16:amount-changed:"+w, func() string {
				return fmt.Sprintf("%s: second element 100000000 satoshis came back as %d (json %s)", w, out[1].Satoshis, js)
			})
		}
	default:
		return
	}
	ok := true
	if gotSats != v {
		ok = false
		c16Viol(c, "C16:amount-changed:"+w, func() string {
			return fmt.Sprintf("%s: %d satoshis marshalled as %s came back as %d", w, v, js, gotSats)
		})
	}
	if !bytes.Equal(gotScript, c16Script) {
		ok = false
		c16Viol(c, "C16:script-changed:"+w, func() string {
			return fmt.Sprintf("%s: script %x came back as %x (json %s)", w, c16Script, gotScript, js)
		})
	}
	if !idOK {
		ok = false
		c16Viol(c, "C16:id-changed:"+w, func() string { return fmt.Sprintf("%s: txid/vout changed (json %s)", w, js) })
	}
	if ok {
		c.Count("amount:" + w + ":exact")
	} else {
		c.Count("amount:" + w + ":changed")
	}
	c.Sample("amount:"+w, 1, func() any {
		return map[string]any{"dialect": w, "satoshis": v, "json": string(js), "satoshis_back": gotSats}
	})
}

// ------------------------------------------------------------- transactions

func c16ScriptBytes(s *bscript.Script) []byte {
	if s == nil {
		return nil
	}
	return *s
}

// c16SameTx compares what the property names: serialisation, id, version,
// locktime, unlocking scripts, output scripts and satoshis.
func c16SameTx(a, b *bt.Tx) string {
	if b == nil {
		return "nil transaction"
	}
	if !bytes.Equal(a.Bytes(), b.Bytes()) {
		return fmt.Sprintf("Bytes() differ: %x vs %x", a.Bytes(), b.Bytes())
	}
	if a.TxID() != b.TxID() {
		return "TxID differs"
	}
	if a.Version != b.Version || a.LockTime != b.LockTime {
		return "version/locktime differ"
	}
	if len(a.Inputs) != len(b.Inputs) || len(a.Outputs) != len(b.Outputs) {
		return "input/output count differs"
	}
	for i := range a.Inputs {
		x, y := a.Inputs[i], b.Inputs[i]
		if !bytes.Equal(c16ScriptBytes(x.UnlockingScript), c16ScriptBytes(y.UnlockingScript)) || !bytes.Equal(x.PreviousTxID(), y.PreviousTxID()) ||
			x.PreviousTxOutIndex != y.PreviousTxOutIndex || x.SequenceNumber != y.SequenceNumber {
			return fmt.Sprintf("input %d differs", i)
		}
	}
	for i := range a.Outputs {
		if a.Outputs[i].Satoshis != b.Outputs[i].Satoshis || !bytes.Equal(c16ScriptBytes(a.Outputs[i].LockingScript), c16ScriptBytes(b.Outputs[i].LockingScript)) {
			return fmt.Sprintf("output %d differs", i)
		}
	}
	return ""
}

// c16TxDialects marshals tx in the four transaction dialects and judges the round trip.
func c16TxDialects(c *mon.Ctx, tx *bt.Tx, stage string) {
	// marshalling is a read: the transaction must serialise afterwards as it did before
	before := tx.ExtendedBytes()
	defer func() {
		if after := tx.ExtendedBytes(); !bytes.Equal(after, before) {
			c16Viol(c, "C16:marshalling-changed-the-transaction", func() string {
				return fmt.Sprintf("after marshalling (stage %s) the transaction serialises to %x, before: %x", stage, after, before)
			})
		}
	}()
	other := &bt.Tx{Version: 2, LockTime: 5}
	other.AddOutput(&bt.Output{Satoshis: 1, LockingScript: bscript.NewFromBytes([]byte{0x51})})
	// what MarshalJSON returned belongs to the caller: it must still be the same document after later marshalling
	c.Try("bt.(*Tx).MarshalJSON", func() {
		a, err := tx.MarshalJSON()
		if err != nil {
			return
		}
		snap := append([]byte{}, a...)
		_, _ = other.MarshalJSON()
		_, _ = json.Marshal(bt.Txs{other, other})
		c.Count("retained-marshal-result-checks")
		if !bytes.Equal(a, snap) {
			c16Viol(c, "C16:marshal-result-changed-later:Tx", func() string {
				return fmt.Sprintf("the bytes returned by tx.MarshalJSON() changed after another transaction was marshalled (stage %s): now %.80s…, was %.80s…", stage, a, snap)
			})
		}
	})
	for _, d := range []string{"Tx", "tx.NodeJSON", "Txs", "Txs.NodeJSON"} {
		key := "stage:" + stage + ":" + d
		var js []byte
		var err error
		list := bt.Txs{tx, other}
		var src any
		switch d {
		case "Tx":
			src = tx
		case "tx.NodeJSON":
			src = tx.NodeJSON()
		case "Txs":
			src = list
		case "Txs.NodeJSON":
			src = list.NodeJSON()
		}
		if !c.Try("json.Marshal("+d+")", func() { js, err = json.Marshal(src) }) {
			c.Count(key + ":panic")
			// the recover monitor keys the panic by its innermost frame (shared by all
			// dialects); name the entry point too, so that a partial repair shows
			cls := "other"
			for _, in := range tx.Inputs {
				if in.UnlockingScript == nil {
					cls = "nil-unlocking-script"
				}
			}
			c16Viol(c, "C16:marshal-panics:"+d+":"+cls, func() string {
				return fmt.Sprintf("json.Marshal(%s) panicked at stage %s; tx %x", d, stage, tx.Bytes())
			})
			continue
		}
		if err != nil {
			// a transaction the library holds can be written in each of its dialects: an error
			// here means some script or amount has no JSON form (never seen on the unchanged code)
			c.Count(key + ":error")
			c16Viol(c, "C16:marshal-error:"+d, func() string {
				return fmt.Sprintf("json.Marshal(%s) returned an error at stage %s: %v; tx %x", d, stage, err, tx.Bytes())
			})
			continue
		}
		var back *bt.Tx
		var n int
		// half of the destinations are fresh, half were used before (a decoder must not keep anything of the old content)
		dirty := len(js)%2 == 1
		used := func() *bt.Tx {
			t := &bt.Tx{Version: 9, LockTime: 77}
			for k := 0; k < 3; k++ {
				in := &bt.Input{PreviousTxOutIndex: uint32(k), SequenceNumber: 5, UnlockingScript: bscript.NewFromBytes([]byte{0x52, 0x53})}
				_ = in.PreviousTxIDAdd(bytes.Repeat([]byte{byte(0x30 + k)}, 32))
				t.Inputs = append(t.Inputs, in)
				t.AddOutput(&bt.Output{Satoshis: uint64(1000 + k), LockingScript: bscript.NewFromBytes([]byte{0x54, 0x55, 0x56})})
			}
			return t
		}
		if dirty {
			c.Count("dirty-destination:" + d)
		}
		ok := c.Try("json.Unmarshal("+d+")", func() {
			switch d {
			case "Tx":
				back = bt.NewTx()
				if dirty {
					back = used()
				}
				err = json.Unmarshal(js, back)
				n = 1
			case "tx.NodeJSON":
				back = bt.NewTx()
				if dirty {
					back = used()
				}
				err = json.Unmarshal(js, back.NodeJSON())
				n = 1
			case "Txs":
				var out bt.Txs
				if dirty {
					out = bt.Txs{used(), used(), used(), used(), used()}
				}
				err = json.Unmarshal(js, &out)
				if n = len(out); n > 0 {
					back = out[0]
				}
			case "Txs.NodeJSON":
				var out bt.Txs
				if dirty {
					out = bt.Txs{used(), used(), used(), used(), used()}
				}
				err = json.Unmarshal(js, out.NodeJSON())
				if n = len(out); n > 0 {
					back = out[0]
				}
			}
		})
		if !ok {
			c.Count(key + ":panic")
			continue
		}
		if err != nil {
			c.Count(key + ":mismatch")
			c16Viol(c, "C16:unmarshal-error:"+d, func() string {
				return fmt.Sprintf("json.Unmarshal(%s) of the library's own output failed at stage %s: %v; tx %x", d, stage, err, tx.Bytes())
			})
			continue
		}
		want := 1
		if d == "Txs" || d == "Txs.NodeJSON" {
			want = 2
		}
		if n != want {
			c.Count(key + ":mismatch")
			c16Viol(c, "C16:list-length-changed:"+d, func() string { return fmt.Sprintf("%s round trip returned %d transactions, want %d", d, n, want) })
			continue
		}
		if diff := c16SameTx(tx, back); diff != "" {
			c.Count(key + ":mismatch")
			c16Viol(c, "C16:tx-changed:"+d, func() string { return fmt.Sprintf("%s round trip at stage %s: %s", d, stage, diff) })
			continue
		}
		c.Count(key + ":roundtrip")
		// what came out of the decoder is a transaction like any other: it is marshalled again, in
		// both single-transaction dialects (its scripts are the decoder's own allocations, exactly as
		// long as their content), and reads the same
		if d == "Tx" || d == "tx.NodeJSON" {
			var again []byte
			var aerr error
			src2 := any(back)
			if d == "tx.NodeJSON" {
				src2 = back.NodeJSON()
			}
			if !c.Try("json.Marshal("+d+" of a decoded tx)", func() { again, aerr = json.Marshal(src2) }) {
				c16Viol(c, "C16:marshal-panics:"+d+":decoded-tx", func() string {
					return fmt.Sprintf("json.Marshal(%s) panicked for the transaction the %s decoder had just returned (stage %s); tx %x", d, d, stage, tx.Bytes())
				})
			} else if aerr == nil && !bytes.Equal(again, js) {
				c16Viol(c, "C16:second-marshalling-differs:"+d, func() string {
					return fmt.Sprintf("%s: the decoded transaction marshals to %.200s, the original to %.200s (stage %s)", d, again, js, stage)
				})
			} else {
				c.Count("remarshalled-decoded-tx:" + d)
			}
		}
	}
}

func c16JudgeTx(c *mon.Ctx, in *c16Tx) {
	ownerEditsDecodedEmpties(c)
	c.Eval(1)
	if in.Shape.Ambiguous() {
		return
	}
	tx := in.Shape.BuildShared()
	if len(tx.Inputs)+len(tx.Outputs) > 0 {
		c.Distinct(prng.HashBytes(tx.Bytes(), []byte(in.Stage)))
	}
	c16TxDialects(c, tx, in.Stage)
	if in.Stage != "signed" {
		return
	}
	// single outputs and previous outputs of the same shape through the output / utxo dialects (arbitrary script bytes)
	for i, o := range in.Shape.Outs {
		for _, w := range []string{"Output", "output.NodeJSON"} {
			orig := &bt.Output{Satoshis: o.Sats, LockingScript: bscript.NewFromBytes(append([]byte{}, o.Script...))}
			back := &bt.Output{}
			var src, dst any = orig, back
			if w == "output.NodeJSON" {
				src, dst = orig.NodeJSON(), back.NodeJSON()
			}
			var js []byte
			var err error
			if !c.Try("json.Marshal("+w+")", func() { js, err = json.Marshal(src) }) || err != nil {
				continue // panics are recorded by Try; an error return is allowed
			}
			if !c.Try("json.Unmarshal("+w+")", func() { err = json.Unmarshal(js, dst) }) {
				continue
			}
			if err != nil {
				c16Viol(c, "C16:unmarshal-error:"+w, func() string { return fmt.Sprintf("json.Unmarshal(%s) of %s: %v", w, js, err) })
				continue
			}
			if !bytes.Equal(c16ScriptBytes(back.LockingScript), o.Script) {
				c16Viol(c, "C16:script-changed:"+w, func() string {
					return fmt.Sprintf("%s: output %d script %x came back as %x", w, i, []byte(o.Script), c16ScriptBytes(back.LockingScript))
				})
			}
			if back.LockingScript != nil { // the decoded object is the caller's: it goes on building on it (later decodes must not see that)
				_ = back.LockingScript.AppendOpcodes(0x6a)
				_ = back.LockingScript.AppendPushData([]byte("appended by the owner"))
			}
			if back.Satoshis != o.Sats && (w == "Output" || o.Sats <= c16MaxMoney) {
				c16Viol(c, "C16:amount-changed:"+w, func() string {
					return fmt.Sprintf("%s: %d satoshis marshalled as %s came back as %d", w, o.Sats, js, back.Satoshis)
				})
			}
			c.Count("output-dialects:from-tx")
		}
	}
	var us bt.UTXOs
	for _, i := range in.Shape.Ins {
		if i.PrevScriptNil || i.PrevSats > c16MaxMoney {
			continue
		}
		us = append(us, &bt.UTXO{TxID: append([]byte{}, i.TxID...), Vout: i.Vout, Satoshis: i.PrevSats, LockingScript: bscript.NewFromBytes(append([]byte{}, i.PrevScript...))})
	}
	if len(us) > 0 {
		for wi, w := range []string{"UTXOs", "UTXOs.NodeJSON"} {
			var out bt.UTXOs
			if (len(us)+wi)%2 == 0 { // a used destination: one element more than needed, all sharing one txid slice
				shared := bytes.Repeat([]byte{0xaa}, 32)
				for k := 0; k <= len(us); k++ {
					out = append(out, &bt.UTXO{TxID: shared, Vout: uint32(90 + k), LockingScript: bscript.NewFromBytes([]byte{0x52, 0x53, 0x54}), Satoshis: uint64(4242 + k)})
				}
				c.Count("dirty-destination:tx-derived-" + w)
			}
			var src, dst any = us, &out
			if w == "UTXOs.NodeJSON" {
				src, dst = us.NodeJSON(), out.NodeJSON()
			}
			var js []byte
			var err error
			if !c.Try("json.Marshal("+w+")", func() { js, err = json.Marshal(src) }) || err != nil {
				continue
			}
			if !c.Try("json.Unmarshal("+w+")", func() { err = json.Unmarshal(js, dst) }) {
				continue
			}
			if err != nil || len(out) != len(us) {
				c16Viol(c, "C16:unmarshal-error:"+w, func() string {
					return fmt.Sprintf("json.Unmarshal(%s) of %s: %v (%d of %d elements)", w, js, err, len(out), len(us))
				})
				continue
			}
			for k := range us {
				if !bytes.Equal(out[k].TxID, us[k].TxID) || out[k].Vout != us[k].Vout {
					c16Viol(c, "C16:id-changed:"+w, func() string { return fmt.Sprintf("%s: element %d txid/vout changed (json %s)", w, k, js) })
				}
				if !bytes.Equal(c16ScriptBytes(out[k].LockingScript), c16ScriptBytes(us[k].LockingScript)) {
					c16Viol(c, "C16:script-changed:"+w, func() string { return fmt.Sprintf("%s: element %d script changed (json %s)", w, k, js) })
				}
				if out[k].Satoshis != us[k].Satoshis {
					c16Viol(c, "C16:amount-changed:"+w, func() string {
						return fmt.Sprintf("%s: element %d: %d satoshis came back as %d (json %s)", w, k, us[k].Satoshis, out[k].Satoshis, js)
					})
				}
			}
			c.Count("utxo-dialects:from-tx")
		}
	}
	c.Sample("tx:"+in.Stage, 1, func() any { return map[string]any{"stage": in.Stage, "tx": hex.EncodeToString(tx.Bytes())} })
}

// c16JudgeBuilt builds, funds and signs a transaction through the library API
// and judges the JSON dialects after every step.
func c16JudgeBuilt(c *mon.Ctx, in *c16Built) {
	c.Eval(1)
	r := prng.New(in.Seed, "C16-built", 0)
	priv, pub := bec.PrivKeyFromBytes(bec.S256(), r.Bytes(32))
	lock, _ := bscript.NewP2PKHFromPubKeyBytes(pub.SerialiseCompressed())
	addr, _ := bscript.NewAddressFromPublicKey(pub, r.Bool())
	tx := bt.NewTx()
	nin := 2 + r.Intn(3)
	for i := 0; i < nin; i++ {
		var err error
		if !c.Try("bt.(*Tx).From", func() {
			err = tx.From(hex.EncodeToString(r.Bytes(32)), uint32(r.Intn(5)), lock.String(), 1000+gen.Sats(r)%1_000_000)
		}) || err != nil {
			c.Fault(fmt.Sprintf("could not build the funded tx: %v", err))
			return
		}
	}
	_ = tx.PayToAddress(addr.AddressString, 500+uint64(r.Intn(400)))
	if r.Bool() {
		_ = tx.AddOpReturnOutput(r.Bytes(r.Intn(100)))
	}
	c.Distinct(prng.HashBytes(tx.Bytes(), []byte("built")))
	// the node-dialect views obtained now are kept and marshalled again after
	// every later change of the transaction: they are views of the live object
	keptTx, keptList := tx.NodeJSON(), (&bt.Txs{tx}).NodeJSON()
	kept := func(stage string) {
		for name, w := range map[string]any{"tx.NodeJSON": keptTx, "Txs.NodeJSON": keptList} {
			var js []byte
			var err error
			if !c.Try("json.Marshal(kept "+name+")", func() { js, err = json.Marshal(w) }) || err != nil {
				continue
			}
			back := bt.NewTx()
			var backs bt.Txs
			if !c.Try("json.Unmarshal("+name+")", func() {
				if name == "tx.NodeJSON" {
					err = json.Unmarshal(js, back.NodeJSON())
				} else if err = json.Unmarshal(js, backs.NodeJSON()); err == nil && len(backs) == 1 {
					back = backs[0]
				}
			}) {
				continue
			}
			if err != nil || !bytes.Equal(back.Bytes(), tx.Bytes()) {
				c16Viol(c, "C16:kept-view-stale:"+name, func() string {
					return fmt.Sprintf("the %s view obtained before the transaction was changed marshals (stage %s) to a document that decodes to %x, the transaction is now %x (err=%v)", name, stage, back.Bytes(), tx.Bytes(), err)
				})
			} else {
				c.Count("kept-view:" + name + ":roundtrip")
			}
		}
	}
	kept("built:unsigned")
	c16TxDialects(c, tx, "built:unsigned")
	var err error
	if !c.Try("bt.(*Tx).FillInput", func() {
		err = tx.FillInput(context.Background(), &unlocker.Simple{PrivateKey: priv}, bt.UnlockerParams{InputIdx: uint32(r.Intn(nin))})
	}) || err != nil {
		c.Fault(fmt.Sprintf("FillInput failed on a P2PKH input: %v", err))
		return
	}
	kept("built:partially-signed")
	c16TxDialects(c, tx, "built:partially-signed")
	if !c.Try("bt.(*Tx).FillAllInputs", func() { err = tx.FillAllInputs(context.Background(), &unlocker.Getter{PrivateKey: priv}) }) || err != nil {
		c.Fault(fmt.Sprintf("FillAllInputs failed on P2PKH inputs: %v", err))
		return
	}
	kept("built:signed")
	tx.AddOutput(&bt.Output{Satoshis: 7, LockingScript: bscript.NewFromBytes([]byte{0x51})})
	tx.LockTime++
	kept("built:signed+output")
	c16TxDialects(c, tx, "built:signed")
	c.Sample("built", 1, func() any { return map[string]any{"seed": in.Seed, "signed_tx": hex.EncodeToString(tx.Bytes())} })
}

// c16JudgeList: element k of what comes back is element k of what went in, for every k, and nothing is added.
func c16JudgeList(c *mon.Ctx, in *c16List) {
	c.Eval(1)
	r := prng.New(in.Seed, "C16-list", 0)
	var txs bt.Txs
	var us bt.UTXOs
	for k := 0; k < in.N; k++ {
		tx := bt.NewTx()
		tx.Version, tx.LockTime = uint32(1+k%2), uint32(k)
		inp := &bt.Input{PreviousTxOutIndex: uint32(k), SequenceNumber: 0xffffffff - uint32(k%3), UnlockingScript: bscript.NewFromBytes(append([]byte{0x01, byte(k)}, r.Bytes(r.Intn(4))...))}
		_ = inp.PreviousTxIDAdd(r.Bytes(32))
		tx.Inputs = append(tx.Inputs, inp)
		tx.Outputs = append(tx.Outputs, &bt.Output{Satoshis: uint64(1000 + k), LockingScript: bscript.NewFromBytes(gen.P2PKH(r.Bytes(20)))})
		txs = append(txs, tx)
		u := &bt.UTXO{TxID: r.Bytes(32), Vout: uint32(k), Satoshis: uint64(2000 + k), LockingScript: bscript.NewFromBytes(gen.P2PKH(r.Bytes(20)))}
		if k%7 == 6 { // a list is a list: the same outpoint again (as merged answers of a node contain it), with the same or another amount
			u.TxID, u.Vout = append([]byte{}, us[k-1].TxID...), us[k-1].Vout
			if k%2 == 0 {
				u.Satoshis, u.LockingScript = us[k-1].Satoshis, bscript.NewFromBytes(append([]byte{}, *us[k-1].LockingScript...))
			}
		}
		us = append(us, u)
		if k%9 == 8 { // and the same transaction twice in a list of transactions
			txs[k] = txs[k-1]
		}
	}
	for _, d := range []string{"Txs", "Txs.NodeJSON", "UTXOs", "UTXOs.NodeJSON"} {
		var src, dst any
		var backT bt.Txs
		var backU bt.UTXOs
		switch d {
		case "Txs":
			src, dst = txs, &backT
		case "Txs.NodeJSON":
			src, dst = txs.NodeJSON(), backT.NodeJSON()
		case "UTXOs":
			src, dst = us, &backU
		default:
			src, dst = us.NodeJSON(), backU.NodeJSON()
		}
		var js []byte
		var err error
		if !c.Try("json.Marshal("+d+")", func() { js, err = json.Marshal(src) }) {
			continue
		}
		if err != nil {
			c16Viol(c, "C16:list:marshal-error:"+d, func() string { return fmt.Sprintf("json.Marshal(%s) of %d elements: %v", d, in.N, err) })
			continue
		}
		if !c.Try("json.Unmarshal("+d+")", func() { err = json.Unmarshal(js, dst) }) {
			continue
		}
		if err != nil {
			c16Viol(c, "C16:list:unmarshal-error:"+d, func() string {
				return fmt.Sprintf("json.Unmarshal(%s) of the library's own %d-element list: %v", d, in.N, err)
			})
			continue
		}
		got := len(backT)
		if d == "UTXOs" || d == "UTXOs.NodeJSON" {
			got = len(backU)
		}
		if got != in.N {
			c16Viol(c, "C16:list-length-changed:"+d, func() string { return fmt.Sprintf("%s round trip of %d elements returned %d", d, in.N, got) })
			continue
		}
		bad := -1
		why := ""
		for k := 0; k < in.N && bad < 0; k++ {
			if d == "Txs" || d == "Txs.NodeJSON" {
				if diff := c16SameTx(txs[k], backT[k]); diff != "" {
					bad, why = k, diff
				}
			} else if u := backU[k]; u == nil || !bytes.Equal(u.TxID, us[k].TxID) || u.Vout != us[k].Vout || u.Satoshis != us[k].Satoshis || u.LockingScript == nil || !bytes.Equal(*u.LockingScript, *us[k].LockingScript) {
				bad, why = k, "utxo differs"
			}
		}
		if bad >= 0 {
			c16Viol(c, "C16:list:element-changed:"+d, func() string {
				return fmt.Sprintf("%s round trip of %d elements: element %d came back different (%.200s)", d, in.N, bad, why)
			})
			continue
		}
		c.Count("list:roundtrip:" + d)
		c.Max("max:list-length:"+d, float64(in.N))
	}
	if in.N > 2 {
		c.Distinct(prng.HashBytes([]byte("list"), []byte{byte(in.N), byte(in.N >> 8)}))
	}
}
