package main

import (
	"bytes"
	"crypto/sha256"
	"fmt"
	"math/big"
	"verif/internal/refcodec"

	"github.com/libsv/go-bk/bec"
	"github.com/libsv/go-bt/v2"
	"github.com/libsv/go-bt/v2/bscript"
	"github.com/libsv/go-bt/v2/bscript/interpreter"
	"github.com/libsv/go-bt/v2/bscript/interpreter/scriptflag"

	"verif/internal/gen"
	"verif/internal/mon"
	"verif/internal/prng"
	"verif/internal/refscript"
	"verif/internal/refsighash"
)

// C06 — signature opcodes accept exactly valid, correctly ordered signatures.
//
// Signatures are evaluated BY PROVENANCE in the reference model: every
// generated signature is registered with (key, digest it was made over). At a
// check the model computes the digest the node rules demand for the script
// code in force and calls the signature valid iff key and digest match. The
// real ECDSA verification is only done by the library under test.

type c06SigRec struct {
	Body   mon.Hex `json:"body"` // DER body without the hash-type byte
	Key    int     `json:"key"`
	Digest mon.Hex `json:"digest"`
}

type c06Case struct {
	Tx    gen.Shape   `json:"tx"`
	Idx   int         `json:"idx"`
	Lock  mon.Hex     `json:"lock"`
	Sats  uint64      `json:"sats"`
	Flags uint32      `json:"flags"`
	Keys  []mon.Hex   `json:"keys"` // private keys
	Sigs  []c06SigRec `json:"sigs"`
	Desc  string      `json:"desc"`
	Class string      `json:"class"`
}

var sigFlagBits = []scriptflag.Flag{scriptflag.VerifyStrictEncoding, scriptflag.VerifyDERSignatures, scriptflag.VerifyLowS,
	scriptflag.StrictMultiSig, scriptflag.VerifyNullFail, scriptflag.EnableSighashForkID, scriptflag.UTXOAfterGenesis}

func sigFlagSubset(mask int) uint32 {
	var f scriptflag.Flag
	for i, x := range sigFlagBits {
		if mask&(1<<i) != 0 {
			f |= x
		}
	}
	return uint32(f)
}

var curveN = bec.S256().N

func keyOf(b []byte) (*bec.PrivateKey, *bec.PublicKey) { return bec.PrivKeyFromBytes(bec.S256(), b) }

func pubEnc(pk *bec.PublicKey, enc string, r *prng.R) []byte {
	switch enc {
	case "c":
		return pk.SerialiseCompressed()
	case "u":
		return pk.SerialiseUncompressed()
	case "h":
		return pk.SerialiseHybrid()
	case "short":
		return pk.SerialiseCompressed()[:32]
	case "badprefix":
		b := pk.SerialiseCompressed()
		b[0] = 0x05
		return b
	case "offcurve":
		b := append([]byte{0x02}, bytes.Repeat([]byte{0xff}, 32)...)
		return b
	case "empty":
		return []byte{}
	case "c-with-04": // the length of one format, the prefix of the other
		b := pk.SerialiseCompressed()
		b[0] = 0x04
		return b
	case "u-with-02":
		b := pk.SerialiseUncompressed()
		b[0] = 0x02 + b[64]&1
		return b
	case "long": // 34 bytes
		return append(pk.SerialiseCompressed(), 0x00)
	}
	return pk.SerialiseCompressed()
}

// provChecker is the model's SigChecker.
type provChecker struct {
	tx      *refsighash.Tx
	idx     int
	sats    uint64
	pubs    map[string]int
	sigs    map[string]c06SigRec
	unknown bool
	calls   int
	// logging mode (generator pass 1): record the script code per signature, answer true
	logOnly bool
	codes   map[string][]byte
}

func (p *provChecker) demanded(code []byte, ht byte, forkEnabled bool) []byte {
	var d [32]byte
	var err error
	if forkEnabled && ht&0x40 != 0 {
		d, err = refsighash.ForkIDDigest(p.tx, p.idx, code, p.sats, uint32(ht))
	} else {
		d, err = refsighash.LegacyDigest(p.tx, p.idx, refsighash.StripCodeSeparators(code), uint32(ht))
	}
	if err != nil {
		return nil
	}
	return d[:]
}

func (p *provChecker) CheckSig(full, pub, code []byte, forkEnabled bool) bool {
	p.calls++
	if len(full) == 0 {
		return false
	}
	body, ht := full[:len(full)-1], full[len(full)-1]
	if p.logOnly {
		if _, ok := p.codes[string(body)]; !ok {
			p.codes[string(body)] = append([]byte{}, code...)
		}
		return true
	}
	rec, ok := p.sigs[string(body)]
	if !ok {
		p.unknown = true // a signature the generator did not make: the model declines
		return false
	}
	k, ok := p.pubs[string(pub)]
	if !ok {
		return false // not a parsable key of ours
	}
	d := p.demanded(code, ht, forkEnabled)
	return d != nil && k == rec.Key && bytes.Equal(d, rec.Digest)
}

func c06Tables(cs *c06Case) (*provChecker, error) {
	p := &provChecker{tx: shModelTx(&cs.Tx), idx: cs.Idx, sats: cs.Sats, pubs: map[string]int{}, sigs: map[string]c06SigRec{}}
	for i, kb := range cs.Keys {
		_, pk := keyOf(kb)
		p.pubs[string(pk.SerialiseCompressed())] = i
		p.pubs[string(pk.SerialiseUncompressed())] = i
		p.pubs[string(pk.SerialiseHybrid())] = i
	}
	for _, s := range cs.Sigs {
		p.sigs[string(s.Body)] = s
	}
	return p, nil
}

func c06Judge(c *mon.Ctx, cs *c06Case) {
	if cs.Idx < 0 || cs.Idx >= len(cs.Tx.Ins) {
		return
	}
	c.Eval(1)
	unlock := cs.Tx.Ins[cs.Idx].Unlock
	in := &progInput{Unlock: unlock, Lock: cs.Lock, Flags: cs.Flags, Src: cs.Class,
		Ctx: progCtx{HasTx: true, Version: cs.Tx.Version, LockTime: cs.Tx.LockTime, Sequence: cs.Tx.Ins[cs.Idx].Seq, Sats: cs.Sats}}
	ck, _ := c06Tables(cs)
	model := refscript.Verify(unlock, cs.Lock, modelOpts(in, ck, true))
	if model.Unsupported != "" || ck.unknown {
		c.Count("C06:model-declined")
		return
	}
	tx := cs.Tx.BuildShared()
	rec := &recDebugger{}
	var libErr error
	// the ways a caller can hand over the spent output: complete with WithTx; its amount
	// with WithTx and the scripts with WithScripts; or both
	lockScript := bscript.NewFromBytes(append([]byte{}, cs.Lock...))
	var opts []interpreter.ExecutionOptionFunc
	switch (len(unlock) + 3*len(cs.Lock) + cs.Idx) % 5 {
	case 1:
		opts = append(opts, interpreter.WithTx(tx, cs.Idx, &bt.Output{Satoshis: cs.Sats}), interpreter.WithScripts(lockScript, tx.Inputs[cs.Idx].UnlockingScript))
		c.Count("C06:context:amount-with-WithTx,scripts-with-WithScripts")
	case 2:
		opts = append(opts, interpreter.WithTx(tx, cs.Idx, &bt.Output{Satoshis: cs.Sats, LockingScript: lockScript}), interpreter.WithScripts(lockScript, tx.Inputs[cs.Idx].UnlockingScript))
		c.Count("C06:context:WithTx+WithScripts")
	default:
		opts = append(opts, interpreter.WithTx(tx, cs.Idx, &bt.Output{Satoshis: cs.Sats, LockingScript: lockScript}))
		c.Count("C06:context:WithTx")
	}
	opts = append(opts, interpreter.WithDebugger(rec))
	// the flag set reaches the engine through WithFlags and/or the convenience options, in varying order
	opts = append(opts, flagOptions(cs.Flags, len(unlock)+3*len(cs.Lock)+cs.Idx)...)
	if !c.Try("interpreter.Engine.Execute", func() { libErr = theEngine(c).Execute(opts...) }) {
		return
	}
	agree := compareLockstep(c, "C06", in, &model, libErr, rec)
	e := era(cs.Flags)
	outcome := "hard-error"
	if model.OK {
		outcome = "accepted"
	} else if model.Err == "EVAL_FALSE" || model.Err == "VERIFY" {
		outcome = "false-result"
	}
	c.Count("C06:class:" + cs.Class + ":" + outcome)
	c.Count("C06:" + e + ":" + outcome)
	c.Count(fmt.Sprintf("C06:flags:%#x", cs.Flags&uint32(scriptflag.VerifyStrictEncoding|scriptflag.VerifyDERSignatures|scriptflag.VerifyLowS|scriptflag.StrictMultiSig|scriptflag.VerifyNullFail|scriptflag.EnableSighashForkID)))
	c.CountN("C06:checker-calls", int64(ck.calls))
	if agree && ck.calls > 0 {
		c.Distinct(prng.HashBytes(unlock, cs.Lock, []byte{byte(cs.Flags), byte(cs.Flags >> 8), byte(cs.Flags >> 16)}, []byte{byte(cs.Idx)}))
		c.Sample("sig:"+cs.Class, 1, func() any {
			return map[string]any{"desc": cs.Desc, "unlock": unlock, "lock": cs.Lock, "flags": cs.Flags, "node_rules": outcome + " " + model.Err, "library_error": fmt.Sprint(libErr), "signature_checks": ck.calls}
		})
	}
}

// ---------------------------------------------------------------- generator

type c06Slot struct {
	Key      int    // signing key index
	Class    string // correct | wrong-key | wrong-digest | empty | high-s | weird-hashtype | non-der | ber-padded
	HashType byte
}

type c06Spec struct {
	Kind    string // p2pk | p2pkh | multisig | two-checks
	Verify  bool
	Not     bool
	M, N    int
	Slots   []c06Slot
	KeyEnc  []string
	SepPos  int    // -1: none, else index into the lock's element list
	SepKind string // plain | unexecuted-if | executed-if
	Dummy   []byte
	Flags   uint32
	// UnlockTail is appended to the unlocking script after the pushes (e.g. an
	// executed OP_CODESEPARATOR and/or a top-level OP_RETURN ending the script)
	UnlockTail []byte
	// UnlockCheck: the unlocking script starts with a signature check of its
	// own, <sigX> [NOP*] CODESEPARATOR <pubX> CHECKSIGVERIFY, with a correct
	// signature of the last key; UnlockCheckHT is its hash type and
	// UnlockCheckPad the number of NOPs (which moves the separator's index).
	// LockTail is appended to the locking script behind everything else: a
	// top-level OP_RETURN followed by 0, 1, 2 or more raw bytes (after Genesis
	// the script ends there; the bytes still belong to the script code)
	LockTail []byte
	// LockHead is executed in front of everything else in the locking script:
	// data pushes consumed by an opcode and dropped again (the pushes are part
	// of the script code; an opcode working in place on its operand would
	// rewrite them under the signature check that follows)
	LockHead []byte
	// BigOut: the spending transaction additionally carries a data output of this many non-repeating bytes
	BigOut int
	// ZeroSats: the spent output is worth nothing (while the input may record another amount from before)
	ZeroSats       bool
	UnlockCheck    bool
	UnlockCheckHT  byte
	UnlockCheckPad int
	// P2SH: what was built as the locking script is the redeem script of a pay-to-script-hash
	// output (HASH160 <hash> EQUAL); the unlocking script ends with a push of it. Needs the P2SH flag,
	// before Genesis; the script code of a check inside it is the redeem script.
	P2SH bool
}

func smallOp(n int) []byte {
	if n >= 0 && n <= 16 {
		return gen.PushNum(int64(n))
	}
	return gen.PushNum(int64(n))
}

func signDER(priv *bec.PrivateKey, digest []byte) []byte {
	s, err := priv.Sign(digest)
	if err != nil {
		return nil
	}
	return s.Serialise()
}

func flipS(der []byte) []byte {
	s, err := bec.ParseDERSignature(der, bec.S256())
	if err != nil {
		return der
	}
	ns := new(big.Int).Sub(curveN, s.S)
	return (&bec.Signature{R: s.R, S: ns}).Serialise()
}

func breakDER(r *prng.R, der []byte) []byte {
	o := append([]byte{}, der...)
	switch r.Intn(5) {
	case 0: // wrong total length
		o[1]++
	case 1: // trailing garbage
		o = append(o, 0x00)
	case 2: // wrong sequence tag
		o[0] = 0x31
	case 3: // negative R
		o[4] |= 0x80
	default: // excess padding on R
		lenR := int(o[3])
		if o[4]&0x80 == 0 && o[4] != 0 {
			n := append([]byte{}, o[:4]...)
			n = append(n, 0x00)
			n = append(n, o[4:]...)
			n[3] = byte(lenR + 1)
			n[1]++
			o = n
		} else {
			o[2] = 0x03
		}
	}
	return o
}

// padBER re-encodes a DER signature with p extra leading zero bytes in front
// of R and of S (lengths kept consistent): no longer DER, but what the node's
// lax parser - the one in force when no flag demands DER - reads as the same
// (R, S). With p >= 3 the encoding is longer than the 72-byte DER maximum.
func padBER(der []byte, p int) []byte {
	lr := int(der[3])
	rb := der[4 : 4+lr]
	ls := int(der[5+lr])
	sb := der[6+lr : 6+lr+ls]
	z := make([]byte, p)
	body := append([]byte{0x02, byte(lr + p)}, append(append([]byte{}, z...), rb...)...)
	body = append(body, 0x02, byte(ls+p))
	body = append(body, append(append([]byte{}, z...), sb...)...)
	return append([]byte{0x30, byte(len(body))}, body...)
}

// c06Make builds the transaction, scripts and provenance tables for a spec.
func c06Make(r *prng.R, sp *c06Spec) *c06Case {
	nk := sp.N + 3
	cs := &c06Case{Flags: sp.Flags, Sats: uint64(1 + r.Intn(1_000_000))}
	if sp.ZeroSats {
		cs.Sats = 0
	}
	var privs []*bec.PrivateKey
	var pubs []*bec.PublicKey
	for i := 0; i < nk; i++ {
		kb := r.Bytes(32)
		kb[0] &= 0x7f
		kb[31] |= 1
		cs.Keys = append(cs.Keys, kb)
		a, b := keyOf(kb)
		privs, pubs = append(privs, a), append(pubs, b)
	}
	enc := func(i int) []byte {
		e := "c"
		if i < len(sp.KeyEnc) {
			e = sp.KeyEnc[i]
		}
		return pubEnc(pubs[i], e, r)
	}
	// locking script as a list of elements
	var el [][]byte
	var unlockTail [][]byte // pushed after the signatures (p2pkh: the public key)
	last := byte(0xac)
	switch sp.Kind {
	case "p2pk":
		el = [][]byte{gen.Push(enc(0)), {0xac}}
	case "p2pkh":
		pk := enc(0)
		el = [][]byte{{0x76}, {0xa9}, gen.Push(gen.Hash160(pk)), {0x88}, {0xac}}
		unlockTail = [][]byte{gen.Push(pk)}
	case "multisig":
		el = append(el, smallOp(sp.M))
		for i := 0; i < sp.N; i++ {
			el = append(el, gen.Push(enc(i)))
		}
		el = append(el, smallOp(sp.N), []byte{0xae})
		last = 0xae
	case "two-checks":
		el = [][]byte{gen.Push(enc(0)), {0xad}, {0xab}, gen.Push(enc(1)), {0xac}}
	case "bare-checksig": // the key comes with the signature: the script code does not depend on it
		el = [][]byte{{0xac}}
		unlockTail = [][]byte{gen.Push(pubs[0].SerialiseCompressed())}
	}
	if sp.Verify {
		el[len(el)-1] = []byte{last + 1}
		el = append(el, []byte{0x51})
	}
	if sp.SepPos >= 0 {
		var sep []byte
		switch sp.SepKind {
		case "unexecuted-if":
			sep = []byte{0x00, 0x63, 0xab, 0x68}
		case "executed-if":
			sep = []byte{0x51, 0x63, 0xab, 0x68}
		default:
			sep = []byte{0xab}
		}
		pos := sp.SepPos
		if pos > len(el) {
			pos = len(el)
		}
		el = append(el[:pos:pos], append([][]byte{sep}, el[pos:]...)...)
	}
	if sp.Not {
		el = append(el, []byte{0x91})
	}
	lock := append([]byte{}, sp.LockHead...)
	for _, e := range el {
		lock = append(lock, e...)
	}
	lock = append(lock, sp.LockTail...)
	var redeem []byte
	if sp.P2SH {
		redeem = lock
		lock = append(append([]byte{0xa9, 0x14}, gen.Hash160(redeem)...), 0x87)
	}
	cs.Lock = lock
	// spending transaction
	shape := gen.RandShape(r, gen.ShapeOpts{MinIns: 1, MaxIns: 4, MaxOuts: 4})
	if r.Chance(1, 2) {
		shape.Version = prng.Pick(r, []uint32{1, 2})
	}
	for k := range shape.Ins { // not-yet-signed sibling inputs: no unlocking script at all
		if r.Chance(1, 4) {
			shape.Ins[k].Unlock, shape.Ins[k].UnlockNil = nil, true
		}
	}
	if sp.BigOut > 0 {
		shape.Outs = append(shape.Outs, gen.Out{Sats: uint64(r.Intn(1000)), Script: append([]byte{0x00, 0x6a}, r.Bytes(sp.BigOut-2)...)})
	}
	cs.Tx = *shape
	cs.Idx = r.Intn(len(shape.Ins))
	forkFlag := scriptflag.Flag(sp.Flags)&scriptflag.EnableSighashForkID != 0
	// pass 1: placeholders, learn the script code in force at every check
	var sigX []byte
	mkUnlock := func(sigs [][]byte) []byte {
		var u []byte
		if sp.UnlockCheck {
			u = append(u, gen.Push(sigX)...)
			u = append(u, bytes.Repeat([]byte{0x61}, sp.UnlockCheckPad)...)
			u = append(u, 0xab)
			u = append(u, gen.Push(pubs[nk-1].SerialiseCompressed())...)
			u = append(u, 0xad)
		}
		if sp.Kind == "multisig" {
			u = append(u, gen.MinPush(sp.Dummy)...)
		}
		for _, s := range sigs {
			u = append(u, gen.Push(s)...)
		}
		for _, t := range unlockTail {
			u = append(u, t...)
		}
		u = append(u, sp.UnlockTail...)
		if sp.P2SH {
			u = append(u, gen.Push(redeem)...)
		}
		return u
	}
	place := make([][]byte, len(sp.Slots))
	for i, sl := range sp.Slots {
		d := sha256.Sum256([]byte{byte(i), 0x5a})
		place[i] = append(signDER(privs[0], d[:]), sl.HashType)
	}
	dx := sha256.Sum256([]byte("placeholder of the unlocking script's own check"))
	placeX := append(signDER(privs[0], dx[:]), sp.UnlockCheckHT)
	sigX = placeX
	cs.Tx.Ins[cs.Idx].Unlock = mkUnlock(place)
	cs.Tx.Ins[cs.Idx].UnlockNil = false
	logger := &provChecker{tx: shModelTx(&cs.Tx), idx: cs.Idx, sats: cs.Sats, logOnly: true, codes: map[string][]byte{}}
	in := &progInput{Unlock: cs.Tx.Ins[cs.Idx].Unlock, Lock: lock, Flags: sp.Flags,
		Ctx: progCtx{HasTx: true, Version: cs.Tx.Version, LockTime: cs.Tx.LockTime, Sequence: cs.Tx.Ins[cs.Idx].Seq, Sats: cs.Sats}}
	refscript.Verify(in.Unlock, lock, modelOpts(in, logger, false))
	// pass 2: the real signatures
	final := make([][]byte, len(sp.Slots))
	for i, sl := range sp.Slots {
		code, ok := logger.codes[string(place[i][:len(place[i])-1])]
		if !ok {
			code = lock
		}
		dem := logger.demanded(code, sl.HashType, forkFlag)
		if dem == nil {
			x := sha256.Sum256(code)
			dem = x[:]
		}
		key := sl.Key % nk
		reg := func(body []byte, k int, dg []byte) {
			cs.Sigs = append(cs.Sigs, c06SigRec{Body: body, Key: k, Digest: dg})
		}
		switch sl.Class {
		case "empty":
			final[i] = []byte{}
		case "wrong-key":
			other := (key + 1 + r.Intn(nk-1)) % nk
			b := signDER(privs[other], dem)
			reg(b, other, dem)
			final[i] = append(b, sl.HashType)
		case "wrong-digest":
			x := sha256.Sum256(append([]byte("other message"), dem...))
			b := signDER(privs[key], x[:])
			reg(b, key, x[:])
			final[i] = append(b, sl.HashType)
		case "s-half-order", "s-half-order+1":
			// a signature whose S is exactly the largest low S (n-1)/2, or one above: nonce and S
			// are fixed and the private key is solved for (possible because the key, pushed by the
			// unlocking script, is not part of what is signed)
			if sp.Kind != "bare-checksig" || key != 0 {
				final[i] = []byte{}
				break
			}
			k := new(big.Int).SetBytes(r.Bytes(32))
			k.Mod(k, new(big.Int).Sub(curveN, big.NewInt(1))).Add(k, big.NewInt(1))
			rx, _ := bec.S256().ScalarBaseMult(k.Bytes())
			rr := new(big.Int).Mod(rx, curveN)
			sv := new(big.Int).Rsh(curveN, 1)
			if sl.Class == "s-half-order+1" {
				sv.Add(sv, big.NewInt(1))
			}
			z := new(big.Int).SetBytes(dem)
			d := new(big.Int).Mul(sv, k)
			d.Sub(d, z).Mod(d, curveN)
			rinv := new(big.Int).ModInverse(rr, curveN)
			if rr.Sign() == 0 || rinv == nil {
				final[i] = []byte{}
				break
			}
			d.Mul(d, rinv).Mod(d, curveN)
			kb := make([]byte, 32)
			d.FillBytes(kb)
			cs.Keys[0] = kb
			privs[0], pubs[0] = keyOf(kb)
			unlockTail = [][]byte{gen.Push(pubs[0].SerialiseCompressed())}
			b := (&bec.Signature{R: rr, S: sv}).Serialise()
			reg(b, 0, dem)
			final[i] = append(b, sl.HashType)
		case "high-s":
			b := flipS(signDER(privs[key], dem))
			reg(b, key, dem)
			final[i] = append(b, sl.HashType)
		case "ber-padded":
			b := signDER(privs[key], dem)
			nb := padBER(b, 1+2*r.Intn(3)) // 1, 3 or 5 zero bytes in front of R and of S
			reg(nb, key, dem)
			final[i] = append(nb, sl.HashType)
		case "non-der":
			b := signDER(privs[key], dem)
			nb := breakDER(r, b)
			reg(nb, key, dem)
			final[i] = append(nb, sl.HashType)
		default: // correct, weird-hashtype (the hash type is what makes it weird)
			b := signDER(privs[key], dem)
			reg(b, key, dem)
			final[i] = append(b, sl.HashType)
		}
	}
	if sp.UnlockCheck {
		// pass 3: the script code of the unlocking script's own check contains
		// the final signatures pushed behind it
		cs.Tx.Ins[cs.Idx].Unlock = mkUnlock(final)
		logger2 := &provChecker{tx: shModelTx(&cs.Tx), idx: cs.Idx, sats: cs.Sats, logOnly: true, codes: map[string][]byte{}}
		in.Unlock = cs.Tx.Ins[cs.Idx].Unlock
		refscript.Verify(in.Unlock, lock, modelOpts(in, logger2, false))
		if code, ok := logger2.codes[string(placeX[:len(placeX)-1])]; ok {
			if dem := logger2.demanded(code, sp.UnlockCheckHT, forkFlag); dem != nil {
				b := signDER(privs[nk-1], dem)
				cs.Sigs = append(cs.Sigs, c06SigRec{Body: b, Key: nk - 1, Digest: dem})
				sigX = append(b, sp.UnlockCheckHT)
			}
		}
	}
	cs.Tx.Ins[cs.Idx].Unlock = mkUnlock(final)
	return cs
}

// c06Heads: <operands> <opcode> DROP – no effect on the stack, every operand a push inside the script
var c06Heads = func() [][]byte {
	var out [][]byte
	for _, h := range []string{
		"0x03 0xa1b2c3 0x03 0x0f0f0f XOR DROP", "0x03 0xa1b2c3 0x03 0x0f0f0f AND DROP", "0x03 0xa1b2c3 0x03 0x0f0f0f OR DROP", "0x02 0x1234 INVERT DROP",
		"0x01 0x85 ABS DROP", "0x02 0x0501 1ADD DROP", "0x02 0x0501 NEGATE DROP", "0x01 0x05 4 NUM2BIN DROP", "0x04 0x05000080 BIN2NUM DROP", "0x02 0x0102 3 LSHIFT DROP",
		"0x02 0x0102 3 RSHIFT DROP", "0x02 0x0102 0x02 0x0304 CAT DROP", "0x03 0x010203 1 SPLIT 2DROP", "0x03 0x010203 SHA256 DROP", "0x03 0xa1b2c3 DUP XOR DROP",
		"0x02 0x0501 0x02 0x0601 ADD DROP", "0x02 0x0501 0x02 0x0601 MAX DROP", "0x03 0x010203 SIZE 2DROP", "0x02 0x0501 TOALTSTACK",
	} {
		b, err := vectorsParse(h)
		if err != nil {
			panic("c06Heads: " + h + ": " + err.Error())
		}
		out = append(out, b)
	}
	return out
}()

func c06HashType(r *prng.R, fork bool) byte {
	ht := byte(1 + r.Intn(3))
	if r.Chance(1, 3) {
		ht |= 0x80
	}
	if fork {
		ht |= 0x40
	}
	return ht
}

// c06Legal applies the domain decisions (DESIGN §4/§6) to a spec.
func c06Legal(sp *c06Spec) bool {
	f := scriptflag.Flag(sp.Flags)
	strict := f&(scriptflag.VerifyStrictEncoding|scriptflag.EnableSighashForkID) != 0
	der := strict || f&(scriptflag.VerifyDERSignatures|scriptflag.VerifyLowS) != 0
	fork := f&scriptflag.EnableSighashForkID != 0
	badKey := false
	for _, e := range sp.KeyEnc {
		if e != "c" && e != "u" && e != "offcurve" {
			badKey = true
		}
	}
	for _, s := range sp.Slots {
		if s.Class == "non-der" && !der {
			return false // lax parsing of non-DER signatures is not specified tightly enough
		}
		if s.Class == "empty" && strict && badKey {
			return false // order of the key-encoding check for empty signatures: no vector (DESIGN §6 case 4)
		}
		if s.Class != "empty" && (s.HashType&0x40 != 0) != fork && !strict {
			return false // FORKID-bit signatures without the FORKID flag and without STRICTENC
		}
	}
	return true
}

func init() {
	p := &mon.Property{
		ID: "C06",
		Rule: "Spending transactions (1-4 inputs, 0-4 outputs) with P2PK, P2PKH, CHECKSIGVERIFY, two-check and m-of-n CHECKMULTISIG(VERIFY) locking scripts; OP_CODESEPARATOR inserted at every element position (plain, inside an unexecuted IF, inside an executed IF); unlocking scripts optionally continued after the pushes by an executed OP_CODESEPARATOR and/or a top-level OP_RETURN; each signature slot is correct / signed by another key / over another digest / empty / high-S / undefined hash type / non-DER (only under a DER-enforcing flag) / correct but with a FORKID bit that contradicts the FORKID flag (only under strict encoding); keys compressed, uncompressed, hybrid, truncated, bad prefix, off curve; for n <= 3 every assignment of keys and classes to the m slots; all 2^6 subsets of the signature flags x both eras on a core set; half of the programs end in OP_NOT. " +
			"Signatures are produced in two passes (the model first reports the script code in force at each check, then the real signatures are made over the digest the node rules demand) and judged by provenance; the library's verdict and per-step stacks must equal the model's. " +
			"distinct_nontrivial = distinct (unlock, lock, flags, input) on which at least one signature check was evaluated and both agreed.",
		Assum: []string{"signature validity in the model = (registered key, registered digest) equals (supplied key, digest demanded by the node rules via /verif/internal/refsighash); real ECDSA is only run by the library",
			"not generated (no vector settles them, DESIGN §6 case 4): empty signature together with a malformed public key under STRICTENC; FORKID-bit signatures without the FORKID flag and without STRICTENC; non-DER signatures without a DER-enforcing flag; key counts wider than 4 bytes; the signature itself embedded in the locking script"},
	}
	judge := mon.Kind(p, "sigcase", c06Judge)
	p.Run = func(c *mon.Ctx) {
		if !validateModel(c) {
			c.Fault("reference model failed validation against the node vectors")
			return
		}
		if !shValidateModel(c) {
			return
		}
		c.Info("sighash_model_vectors_reproduced", 1000)
		classes := []string{"correct", "wrong-key", "wrong-digest", "empty", "high-s", "weird-hashtype", "non-der", "forkid-bit-mismatch", "ber-padded"}
		keyEncs := []string{"c", "u", "h", "short", "badprefix", "offcurve", "empty", "c-with-04", "u-with-02", "long"}
		sepKinds := []string{"plain", "unexecuted-if", "executed-if"}
		run := func(n uint64, mk func(r *prng.R) *c06Spec, class string) {
			if !c.Case(n) {
				return
			}
			r := c.Rand(n)
			sp := mk(r)
			if sp == nil || !c06Legal(sp) {
				c.Count("C06:spec-outside-domain")
				return
			}
			cs := c06Make(r, sp)
			cs.Class = class
			cs.Desc = fmt.Sprintf("%s m=%d n=%d verify=%v not=%v sep=%d/%s slots=%+v keyenc=%v unlocktail=%x unlockcheck=%v/%#x/%d locktail=%x lockhead=%x", sp.Kind, sp.M, sp.N, sp.Verify, sp.Not, sp.SepPos, sp.SepKind, sp.Slots, sp.KeyEnc, sp.UnlockTail, sp.UnlockCheck, sp.UnlockCheckHT, sp.UnlockCheckPad, sp.LockTail, sp.LockHead)
			judge(c, cs)
		}
		flagsFor := func(r *prng.R) uint32 {
			f := sigFlagSubset(r.Intn(1 << len(sigFlagBits)))
			if r.Chance(1, 3) {
				f = uint32(scriptflag.EnableSighashForkID | scriptflag.UTXOAfterGenesis) // the configuration wallets use
			}
			return f
		}
		weirdHT := func(r *prng.R, fork bool) byte {
			ht := prng.Pick(r, []byte{0x00, 0x04, 0x05, 0x1f, 0x20, 0x84, 0x21, 0x22, 0x23, 0xa1, 0xa3, 0x30, 0x11})
			if fork {
				ht |= 0x40
			}
			return ht
		}
		slot := func(r *prng.R, key int, class string, fork bool) c06Slot {
			s := c06Slot{Key: key, Class: class, HashType: c06HashType(r, fork)}
			if class == "weird-hashtype" {
				s.HashType = weirdHT(r, fork)
			}
			if class == "forkid-bit-mismatch" { // an otherwise correct signature whose FORKID bit contradicts the flag
				s.HashType ^= 0x40
			}
			return s
		}
		c.Phase("single")
		n := uint64(0)
		reps := 6
		if c.Thorough {
			reps = 120
		}
		for _, kind := range []string{"p2pk", "p2pkh", "p2pk-verify", "two-checks"} {
			for _, cl := range classes {
				for _, ke := range keyEncs {
					for sepPos := -1; sepPos <= 6; sepPos++ {
						for _, sk := range sepKinds {
							if sepPos < 0 && sk != "plain" {
								continue
							}
							for k := 0; k < reps; k++ {
								n++
								kind, cl, ke, sepPos, sk := kind, cl, ke, sepPos, sk
								run(n, func(r *prng.R) *c06Spec {
									fl := flagsFor(r)
									fork := scriptflag.Flag(fl)&scriptflag.EnableSighashForkID != 0
									sp := &c06Spec{Kind: kind, Not: r.Chance(1, 2), SepPos: sepPos, SepKind: sk, Flags: fl, KeyEnc: []string{ke}, N: 1}
									if r.Chance(1, 3) {
										sp.UnlockTail = prng.Pick(r, [][]byte{{0xab}, {0xab, 0x6a}, {0x61, 0xab, 0x6a}, {0x6a}, {0x61, 0x61, 0xab, 0x61, 0x6a}, {0x51, 0x63, 0xab, 0x68, 0x6a}})
									}
									if kind == "p2pk-verify" {
										sp.Kind, sp.Verify = "p2pk", true
									}
									if scriptflag.Flag(fl)&scriptflag.UTXOAfterGenesis != 0 && r.Chance(1, 4) {
										sp.LockTail = prng.Pick(r, [][]byte{{0x6a}, {0x6a, 0x42}, {0x6a, 0x01}, {0x6a, 0x01, 0x42}, {0x6a, 0xac, 0x4c}, {0x6a, 0x05, 0x01, 0x02}, {0x6a, 0x51, 0x52, 0x53, 0x54},
											{0x6a, 0xab}, {0x6a, 0xab, 0x01, 0x02}, {0x6a, 0x01, 0xab, 0xab}, {0x6a, 0x51, 0xab, 0x52},
											{0x6a, 0xab, 0x05, 0x01}, {0x6a, 0x05, 0x01, 0xab}, {0x6a, 0xab, 0xab, 0x4c}, {0x6a, 0x4c, 0x02, 0xab, 0xab, 0xab}, {0x6a, 0x4d, 0x01, 0x00, 0xab, 0xab, 0x4e, 0xab},
											// pushes on both sides of the direct-push / PUSHDATA1 boundary whose data is full of 0xab
											append([]byte{0x6a, 74}, bytes.Repeat([]byte{0xab}, 74)...), append(append([]byte{0x6a, 75}, bytes.Repeat([]byte{0xab}, 75)...), 0xab, 0x51), append([]byte{0x6a, 0x4c, 76}, bytes.Repeat([]byte{0xab}, 76)...)})
									}
									if sp.LockTail == nil && k%3 == 1 { // data pushes in a wider form than necessary behind the check: the script code is hashed as it is written
										sp.LockTail = [][]byte{{0x4c, 0x01, 0x07, 0x75}, {0x4d, 0x02, 0x00, 0xaa, 0xbb, 0x75}, {0x4e, 0x01, 0x00, 0x00, 0x00, 0x09, 0x75}, {0x4c, 0x00, 0x75}, {0x01, 0x05, 0x75}, {0x4c, 0x03, 0x01, 0x02, 0x03, 0x4d, 0x01, 0x00, 0x51, 0x6d}}[(k/3+sepPos+7)%6]
									}
									if k%6 == 4 && cl != "non-der" {
										sp.BigOut = []int{16385, 20000, 40000}[(sepPos+8)%3]
									}
									if k%3 == 2 {
										sp.LockHead = c06Heads[(k/3+sepPos+len(cl)+len(ke))%len(c06Heads)]
									}
									sp.Slots = []c06Slot{slot(r, 0, cl, fork)}
									if r.Chance(1, 4) && scriptflag.Flag(fl)&scriptflag.VerifySigPushOnly == 0 { // a signature check inside the unlocking script as well
										sp.UnlockCheck, sp.UnlockCheckPad = true, r.Intn(3)
										sp.UnlockCheckHT = c06HashType(r, fork)
										if r.Chance(2, 3) {
											sp.UnlockCheckHT = sp.Slots[0].HashType // the same hash type as the check in the locking script
										}
									}
									if kind == "two-checks" {
										sp.N = 2
										sp.KeyEnc = []string{"c", ke}
										sp.Slots = []c06Slot{slot(r, 1, cl, fork), slot(r, 0, prng.Pick(r, []string{"correct", "correct", "wrong-key"}), fork)}
									}
									return sp
								}, "single:"+cl)
							}
						}
					}
				}
			}
		}
		c.Phase("low-s-boundary") // S exactly (n-1)/2 (the largest low S) and one above, with and without the LOW_S flag
		n = 0
		for _, cl := range []string{"s-half-order", "s-half-order+1", "correct"} {
			for _, base := range []uint32{0, uint32(scriptflag.VerifyLowS), uint32(scriptflag.VerifyLowS | scriptflag.VerifyDERSignatures | scriptflag.VerifyStrictEncoding | scriptflag.VerifyNullFail),
				uint32(scriptflag.VerifyLowS | scriptflag.EnableSighashForkID | scriptflag.UTXOAfterGenesis), uint32(scriptflag.EnableSighashForkID | scriptflag.UTXOAfterGenesis)} {
				for k := 0; k < 4; k++ {
					n++
					cl, base, k := cl, base, k
					run(n, func(r *prng.R) *c06Spec {
						fork := scriptflag.Flag(base)&scriptflag.EnableSighashForkID != 0
						sp := &c06Spec{Kind: "bare-checksig", Not: k%2 == 1, Verify: k == 2, SepPos: -1, SepKind: "plain", Flags: base, KeyEnc: []string{"c"}, N: 1}
						ht := byte(0x01)
						if fork {
							ht = 0x41
						}
						sp.Slots = []c06Slot{{Key: 0, Class: cl, HashType: ht}}
						return sp
					}, "low-s-boundary:"+cl)
				}
			}
		}
		c.Phase("embedded-signature") // legacy hashing: the locking script itself contains a push of the checked signature. Only the standard (minimal) push of it is taken out of the script code; a PUSHDATA1/2/4 push of the same bytes stays and is hashed.
		n = 0
		for _, form := range []byte{0, 0x4c, 0x4d, 0x4e} {
			for _, ht := range []byte{0x01, 0x02, 0x03, 0x81, 0x83} {
				for _, fl := range []uint32{0, uint32(scriptflag.UTXOAfterGenesis), uint32(scriptflag.VerifyDERSignatures | scriptflag.VerifyLowS), uint32(scriptflag.VerifyStrictEncoding | scriptflag.UTXOAfterGenesis)} {
					for rep := 0; rep < 6; rep++ { // x 1, 2 or 3 pushes of the signature (every one of them is taken out of the script code)
						n++
						if !c.Case(n) {
							continue
						}
						copies := 1 + rep/2
						r := c.Rand(n)
						kb := r.Bytes(32)
						kb[0] &= 0x7f
						kb[31] |= 1
						priv, pub := keyOf(kb)
						pk := pub.SerialiseCompressed()
						shape := gen.RandShape(r, gen.ShapeOpts{MinIns: 1, MaxIns: 3, MaxOuts: 3})
						cs := &c06Case{Flags: fl, Sats: uint64(1 + r.Intn(100000)), Keys: []mon.Hex{kb}, Tx: *shape, Idx: r.Intn(len(shape.Ins)), Class: "embedded-signature"}
						codeMinus := append(append(bytes.Repeat([]byte{0x75}, copies), gen.Push(pk)...), 0xac)
						dg, err := refsighash.LegacyDigest(shModelTx(&cs.Tx), cs.Idx, codeMinus, uint32(ht))
						if err != nil {
							continue
						}
						der := signDER(priv, dg[:])
						sig := append(append([]byte{}, der...), ht)
						push := gen.Push(sig)
						if form != 0 {
							push, _ = refcodec.PushWith(form, sig)
						}
						cs.Lock = nil
						for k := 0; k < copies; k++ {
							cs.Lock = append(append(cs.Lock, push...), 0x75)
						}
						cs.Lock = append(cs.Lock, codeMinus[copies:]...)
						if rep%2 == 1 {
							cs.Lock = append(cs.Lock, 0x91) // ... NOT
						}
						cs.Sigs = []c06SigRec{{Body: der, Key: 0, Digest: dg[:]}}
						cs.Tx.Ins[cs.Idx].Unlock, cs.Tx.Ins[cs.Idx].UnlockNil = gen.Push(sig), false
						cs.Desc = fmt.Sprintf("embedded signature pushed %d time(s) with form %#x, hash type %#x", copies, form, ht)
						judge(c, cs)
					}
				}
			}
		}
		c.Phase("embedded-signature-multisig") // 2-of-2 under the FORKID flag whose locking script also pushes one of the two signatures: a signature of the original type is taken out of the script code (before the flag refuses it), one of the FORKID type stays in it
		n = 0
		for _, fl := range []uint32{uint32(scriptflag.EnableSighashForkID), uint32(scriptflag.EnableSighashForkID | scriptflag.UTXOAfterGenesis), uint32(scriptflag.EnableSighashForkID | scriptflag.VerifyNullFail)} {
			for variant := 0; variant < 4; variant++ { // bit 0: ... NOT at the end; bit 1: the original-type signature belongs to the second key (it is then checked first)
				for rep := 0; rep < 3; rep++ {
					n++
					if !c.Case(n) {
						continue
					}
					r := c.Rand(n)
					var kbs [2]mon.Hex
					var privs [2]*bec.PrivateKey
					var pks [2][]byte
					for k := range kbs {
						kb := r.Bytes(32)
						kb[0] &= 0x7f
						kb[31] |= 1
						kbs[k] = kb
						p, q := keyOf(kb)
						privs[k], pks[k] = p, q.SerialiseCompressed()
					}
					shape := gen.RandShape(r, gen.ShapeOpts{MinIns: 1, MaxIns: 3, MaxOuts: 3})
					cs := &c06Case{Flags: fl, Sats: uint64(1 + r.Intn(100000)), Keys: []mon.Hex{kbs[0], kbs[1]}, Tx: *shape, Idx: r.Intn(len(shape.Ins)), Class: "embedded-signature-multisig"}
					codeMinus := append(append(append([]byte{0x75, 0x52}, gen.Push(pks[0])...), gen.Push(pks[1])...), 0x52, 0xae)
					if variant&1 == 1 {
						codeMinus = append(codeMinus, 0x91)
					}
					legacyKey := variant >> 1 & 1
					mtx := shModelTx(&cs.Tx)
					dgL, err1 := refsighash.LegacyDigest(mtx, cs.Idx, codeMinus, 0x01)
					dgF, err2 := refsighash.ForkIDDigest(mtx, cs.Idx, codeMinus, cs.Sats, 0x41)
					if err1 != nil || err2 != nil {
						continue
					}
					derL, derF := signDER(privs[legacyKey], dgL[:]), signDER(privs[1-legacyKey], dgF[:])
					sigL, sigF := append(append([]byte{}, derL...), 0x01), append(append([]byte{}, derF...), 0x41)
					cs.Lock = append(append([]byte{}, gen.Push(sigL)...), codeMinus...)
					cs.Sigs = []c06SigRec{{Body: derL, Key: legacyKey, Digest: dgL[:]}, {Body: derF, Key: 1 - legacyKey, Digest: dgF[:]}}
					u := []byte{0x00} // signatures in key order
					if legacyKey == 0 {
						u = append(append(u, gen.Push(sigL)...), gen.Push(sigF)...)
					} else {
						u = append(append(u, gen.Push(sigF)...), gen.Push(sigL)...)
					}
					cs.Tx.Ins[cs.Idx].Unlock, cs.Tx.Ins[cs.Idx].UnlockNil = u, false
					cs.Desc = fmt.Sprintf("2-of-2 with the original-type signature of key %d also pushed in the locking script, variant %d", legacyKey, variant)
					judge(c, cs)
				}
			}
		}
		c.Phase("multisig-small") // n <= 3: every assignment of (key, class) to the m slots
		n = 0
		msClasses := []string{"correct", "wrong-digest", "empty"}
		reps = 2
		if c.Thorough {
			reps = 24
		}
		for N := 0; N <= 3; N++ {
			for M := 0; M <= N; M++ {
				opts := N*len(msClasses) + 1 // + wrong-key
				total := 1
				for i := 0; i < M; i++ {
					total *= opts
				}
				for a := 0; a < total; a++ {
					for k := 0; k < reps; k++ {
						n++
						N, M, a := N, M, a
						run(n, func(r *prng.R) *c06Spec {
							fl := flagsFor(r)
							fork := scriptflag.Flag(fl)&scriptflag.EnableSighashForkID != 0
							sp := &c06Spec{Kind: "multisig", M: M, N: N, Not: r.Chance(1, 2), Verify: r.Chance(1, 4), SepPos: -1, SepKind: "plain", Flags: fl}
							if r.Chance(1, 2) {
								sp.SepPos = r.Intn(N + 4)
								sp.SepKind = prng.Pick(r, sepKinds)
							}
							if r.Chance(1, 6) {
								sp.Dummy = []byte{0x01}
							}
							if r.Chance(1, 5) {
								sp.UnlockTail = prng.Pick(r, [][]byte{{0xab}, {0xab, 0x6a}, {0x61, 0xab, 0x6a}, {0x6a}})
							}
							for i := 0; i < N; i++ {
								sp.KeyEnc = append(sp.KeyEnc, prng.Pick(r, []string{"c", "c", "u", "c", "u", "h", "badprefix", "c", "c-with-04", "u-with-02"}))
							}
							x := a
							for i := 0; i < M; i++ {
								o := x % opts
								x /= opts
								if o == opts-1 {
									sp.Slots = append(sp.Slots, slot(r, 0, "wrong-key", fork))
									sp.Slots[i].Key = N // a key outside the script's set
								} else {
									sp.Slots = append(sp.Slots, slot(r, o/len(msClasses), msClasses[o%len(msClasses)], fork))
								}
							}
							return sp
						}, "multisig-small")
					}
				}
			}
		}
		c.Phase("multisig-nullfail-matrix") // NULLFAIL with well-formed keys, signatures in key order: every mix of matching and empty signatures that fails overall
		n = 0
		for N := 2; N <= 4; N++ {
			for M := 2; M <= N; M++ {
				for mask := 1; mask < 1<<M-1; mask++ { // bit i set: slot i carries a correct signature; at least one set, at least one clear
					for _, base := range []uint32{uint32(scriptflag.VerifyNullFail), uint32(scriptflag.VerifyNullFail | scriptflag.VerifyStrictEncoding | scriptflag.VerifyDERSignatures | scriptflag.VerifyLowS),
						uint32(scriptflag.VerifyNullFail | scriptflag.EnableSighashForkID | scriptflag.UTXOAfterGenesis), 0} {
						for _, not := range []bool{false, true} {
							n++
							N, M, mask, base, not := N, M, mask, base, not
							run(n, func(r *prng.R) *c06Spec {
								fork := scriptflag.Flag(base)&scriptflag.EnableSighashForkID != 0
								sp := &c06Spec{Kind: "multisig", M: M, N: N, Not: not, SepPos: -1, SepKind: "plain", Flags: base}
								for i := 0; i < N; i++ {
									sp.KeyEnc = append(sp.KeyEnc, "c")
								}
								for i := 0; i < M; i++ {
									cl := "empty"
									if mask&(1<<i) != 0 {
										cl = "correct"
									}
									sp.Slots = append(sp.Slots, slot(r, i+(N-M)*(i%2), cl, fork))
								}
								return sp
							}, "multisig-nullfail-matrix")
						}
					}
				}
			}
		}
		c.Phase("p2sh-wrapped") // the checks sit in a redeem script (P2SH flag, before Genesis): P2PK, P2PKH, 1-of-2 and 2-of-3 multisig inside, separators inside, with and without FORKID - the script code is the redeem script
		n = 0
		for _, kind := range []string{"p2pk", "p2pkh", "multisig-1of2", "multisig-2of3"} {
			for _, base := range []uint32{uint32(scriptflag.Bip16), uint32(scriptflag.Bip16 | scriptflag.EnableSighashForkID), uint32(scriptflag.Bip16 | scriptflag.VerifyStrictEncoding | scriptflag.VerifyNullFail),
				uint32(scriptflag.Bip16 | scriptflag.EnableSighashForkID | scriptflag.VerifyNullFail | scriptflag.StrictMultiSig), uint32(scriptflag.Bip16 | scriptflag.VerifyCleanStack | scriptflag.EnableSighashForkID)} {
				for _, cl := range []string{"correct", "correct", "wrong-digest", "empty", "wrong-key"} {
					for sep := -1; sep <= 2; sep++ {
						n++
						kind, base, cl, sep := kind, base, cl, sep
						run(n, func(r *prng.R) *c06Spec {
							fork := scriptflag.Flag(base)&scriptflag.EnableSighashForkID != 0
							sp := &c06Spec{Kind: kind, Flags: base, SepPos: sep, SepKind: prng.Pick(r, sepKinds), P2SH: true, Not: cl != "correct" && r.Bool()}
							switch kind {
							case "multisig-1of2":
								sp.Kind, sp.M, sp.N = "multisig", 1, 2
							case "multisig-2of3":
								sp.Kind, sp.M, sp.N = "multisig", 2, 3
							}
							for i := 0; i < sp.N; i++ {
								sp.KeyEnc = append(sp.KeyEnc, prng.Pick(r, []string{"c", "u"}))
							}
							ns := 1
							if sp.Kind == "multisig" {
								ns = sp.M
							}
							for i := 0; i < ns; i++ {
								k := i
								if sp.Kind == "multisig" {
									k = i + (sp.N-sp.M)*(i%2)
								}
								c2 := "correct"
								if i == ns-1 {
									c2 = cl
								}
								sl := slot(r, k, c2, fork)
								if c2 == "wrong-key" {
									sl.Key = sp.N + 1
								}
								sp.Slots = append(sp.Slots, sl)
							}
							return sp
						}, "p2sh-wrapped")
					}
				}
			}
		}
		c.Phase("multisig-dummy-matrix") // the extra element OP_CHECKMULTISIG pops: every m-of-n incl. 0-of-n x dummy values x NULLDUMMY on / off x all signatures right / last one empty
		n = 0
		for N := 0; N <= 3; N++ {
			for M := 0; M <= N; M++ {
				for _, dummy := range [][]byte{nil, {0x01}, {0x00}, {0x80}, {0x00, 0x00}, {0x02, 0x03}} {
					for _, base := range []uint32{0, uint32(scriptflag.StrictMultiSig), uint32(scriptflag.StrictMultiSig | scriptflag.UTXOAfterGenesis),
						uint32(scriptflag.StrictMultiSig | scriptflag.EnableSighashForkID | scriptflag.UTXOAfterGenesis), uint32(scriptflag.EnableSighashForkID | scriptflag.UTXOAfterGenesis),
						uint32(scriptflag.StrictMultiSig | scriptflag.VerifyNullFail | scriptflag.VerifyStrictEncoding)} {
						for variant := 0; variant < 4; variant++ {
							n++
							N, M, dummy, base, variant := N, M, dummy, base, variant
							run(n, func(r *prng.R) *c06Spec {
								fork := scriptflag.Flag(base)&scriptflag.EnableSighashForkID != 0
								sp := &c06Spec{Kind: "multisig", M: M, N: N, Not: variant&1 == 1, Verify: variant == 2, SepPos: -1, SepKind: "plain", Flags: base, Dummy: dummy}
								for i := 0; i < N; i++ {
									sp.KeyEnc = append(sp.KeyEnc, "c")
								}
								for i := 0; i < M; i++ {
									cl := "correct"
									if variant == 3 && i == M-1 {
										cl = "empty"
									}
									sp.Slots = append(sp.Slots, slot(r, i, cl, fork))
								}
								return sp
							}, "multisig-dummy-matrix")
						}
					}
				}
			}
		}
		c.Phase("multisig-separators-and-mixed-hash-types") // under FORKID: every separator position and kind (also behind the check) x signatures of the enabled and of the original type in one check
		n = 0
		for N := 1; N <= 3; N++ {
			for M := 1; M <= 2 && M <= N; M++ {
				for mask := 0; mask < 1<<M; mask++ { // bit i set: slot i carries a signature WITHOUT the FORKID bit (refused under FORKID, but only after the ones before it were judged)
					for sepPos := 0; sepPos <= N+4; sepPos++ {
						for _, sk := range sepKinds {
							for fi, base := range []uint32{uint32(scriptflag.EnableSighashForkID | scriptflag.UTXOAfterGenesis), uint32(scriptflag.EnableSighashForkID),
								uint32(scriptflag.EnableSighashForkID | scriptflag.UTXOAfterGenesis | scriptflag.VerifyNullFail)} {
								n++
								N, M, mask, sepPos, sk, base, fi := N, M, mask, sepPos, sk, base, fi
								run(n, func(r *prng.R) *c06Spec {
									sp := &c06Spec{Kind: "multisig", M: M, N: N, Not: (sepPos+fi)%2 == 1, SepPos: sepPos, SepKind: sk, Flags: base}
									for i := 0; i < N; i++ {
										sp.KeyEnc = append(sp.KeyEnc, "c")
									}
									for i := 0; i < M; i++ {
										cl := "correct"
										if mask&(1<<i) != 0 {
											cl = "forkid-bit-mismatch"
										}
										sp.Slots = append(sp.Slots, slot(r, i+(N-M)*(i%2), cl, true))
									}
									return sp
								}, "multisig-separators-and-mixed-hash-types")
							}
						}
					}
				}
			}
		}
		c.Phase("multisig-large")
		N2 := uint64(1500)
		if c.Thorough {
			N2 = 60000
		}
		for i := uint64(0); i < N2; i++ {
			run(i, func(r *prng.R) *c06Spec {
				fl := flagsFor(r)
				fork := scriptflag.Flag(fl)&scriptflag.EnableSighashForkID != 0
				maxN := 4
				if c.Thorough {
					maxN = 7
				}
				N := r.Intn(maxN + 1)
				switch r.Intn(40) {
				case 0:
					N = 20
				case 1:
					N = 21
				}
				M := r.Intn(N + 1)
				if N >= 20 && r.Chance(1, 2) {
					M = N
				}
				sp := &c06Spec{Kind: "multisig", M: M, N: N, Not: r.Chance(1, 2), Verify: r.Chance(1, 4), SepPos: -1, SepKind: "plain", Flags: fl}
				if r.Chance(1, 2) {
					sp.SepPos = r.Intn(N + 4)
					sp.SepKind = prng.Pick(r, sepKinds)
				}
				for i := 0; i < N; i++ {
					sp.KeyEnc = append(sp.KeyEnc, prng.Pick(r, []string{"c", "c", "c", "u"}))
				}
				// mostly ordered correct signatures with a few disturbances
				keys := r.Intn(N + 1)
				_ = keys
				start := 0
				for i := 0; i < M; i++ {
					k := start
					if N-M > 0 {
						k = start + r.Intn(2)
					}
					if k >= N {
						k = N - 1
					}
					start = k + 1
					cl := "correct"
					if r.Chance(1, 6) {
						cl = prng.Pick(r, classes)
					}
					sp.Slots = append(sp.Slots, slot(r, k, cl, fork))
				}
				if r.Chance(1, 5) && M >= 2 { // swap two signatures: wrong order
					a, b := r.Intn(M), r.Intn(M)
					sp.Slots[a], sp.Slots[b] = sp.Slots[b], sp.Slots[a]
				}
				return sp
			}, "multisig-large")
		}
		c.Phase("flag-subsets") // all 2^7 flag subsets on a core set
		n = 0
		core := 24
		if c.Thorough {
			core = 200
		}
		for k := 0; k < core; k++ {
			for mask := 0; mask < 1<<len(sigFlagBits); mask++ {
				n++
				k, mask := k, mask
				run(n, func(_ *prng.R) *c06Spec {
					r := prng.New(c.Seed, "C06-core", uint64(k))
					fl := sigFlagSubset(mask)
					fork := scriptflag.Flag(fl)&scriptflag.EnableSighashForkID != 0
					sp := &c06Spec{SepPos: -1, SepKind: "plain", Flags: fl, Not: k%2 == 0}
					if k%3 == 0 {
						sp.Kind, sp.M, sp.N = "multisig", 1+k%2, 2+k%2
						sp.KeyEnc = []string{"c", prng.Pick(r, keyEncs[:5]), "u"}
						for i := 0; i < sp.M; i++ {
							sp.Slots = append(sp.Slots, slot(r, i, prng.Pick(r, classes), fork))
						}
						if k%9 == 0 {
							sp.Dummy = []byte{0x01}
						}
					} else {
						sp.Kind, sp.N = prng.Pick(r, []string{"p2pk", "p2pkh"}), 1
						sp.KeyEnc = []string{prng.Pick(r, keyEncs)}
						sp.Slots = []c06Slot{slot(r, 0, classes[k%len(classes)], fork)}
					}
					return sp
				}, "flag-subsets")
			}
		}
	}
	p.Floor = func(a *mon.Agg) string {
		for _, cl := range []string{"correct", "wrong-key", "wrong-digest", "empty", "high-s", "weird-hashtype", "non-der", "ber-padded"} {
			tot := int64(0)
			for _, o := range []string{"accepted", "false-result", "hard-error"} {
				tot += a.Cov["C06:class:single:"+cl+":"+o]
			}
			if tot == 0 {
				return "signature class " + cl + " never judged"
			}
		}
		for _, o := range []string{"accepted", "false-result", "hard-error"} {
			if a.Cov["C06:pre-genesis:"+o] == 0 || a.Cov["C06:post-genesis:"+o] == 0 {
				return "outcome " + o + " not observed in both eras"
			}
		}
		if a.Cov["C06:class:multisig-small:accepted"] == 0 || a.Cov["C06:checker-calls"] < 5000 {
			return "too few multisig acceptances or signature checks"
		}
		return ""
	}
	mon.Register(p)
}
