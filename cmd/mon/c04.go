package main

import (
	"bytes"
	"context"
	"encoding/binary"
	"encoding/hex"
	"errors"
	"fmt"
	"strings"
	"time"

	"github.com/libsv/go-bk/bec"
	"github.com/libsv/go-bk/crypto"
	"github.com/libsv/go-bt/v2"
	"github.com/libsv/go-bt/v2/bscript"
	"github.com/libsv/go-bt/v2/bscript/interpreter"
	"github.com/libsv/go-bt/v2/bscript/interpreter/errs"
	"github.com/libsv/go-bt/v2/bscript/interpreter/scriptflag"
	"github.com/libsv/go-bt/v2/sighash"
	"github.com/libsv/go-bt/v2/unlocker"

	"verif/internal/gen"
	"verif/internal/mon"
	"verif/internal/prng"
	"verif/internal/refcodec"
	"verif/internal/refsighash"
)

// C04 — library-made signatures verify and commit to exactly what their hash
// type says.
//
// A case is one signed input: the shape is signed through the library's own
// signing path (tx.FillInput with unlocker.Simple and the requested hash type —
// Simple.UnlockingScript passes the flag to CalcInputSignatureHash, which
// dispatches on the FORKID bit, so the six legacy types are produced by the
// same public path — or tx.FillAllInputs with unlocker.Getter, which is always
// ALL|FORKID), verified with the interpreter, and then every single-field
// mutant of the signed transaction / spent output is verified again. The
// expected verdict of a mutant is decided by the independent digest model:
// accepted <=> refsighash(mutant) == refsighash(original).

type c04Case struct {
	Shape    gen.Shape `json:"shape"` // the UNSIGNED transaction; the signed input spends a P2PKH(-inscription) output of Key
	Idx      int       `json:"idx"`   // input to sign and to mutate around
	HashType uint8     `json:"hash_type"`
	Key      mon.Hex   `json:"key"`      // 32-byte private key
	Via      string    `json:"via"`      // "FillInput" | "FillAllInputs" | "UnlockingScript" (the unlocker called directly, its answer inserted by the caller)
	MutSeed  uint64    `json:"mut_seed"` // PRNG stream for the mutation details (which bit, new values)
}

var c04Types = []uint8{0x41, 0x42, 0x43, 0xc1, 0xc2, 0xc3, 0x01, 0x02, 0x03, 0x81, 0x82, 0x83}

func c04TypeName(t uint8) string {
	n := []string{"?", "ALL", "NONE", "SINGLE"}[t&0x1f]
	if t&0x40 != 0 {
		n += "|FORKID"
	}
	if t&0x80 != 0 {
		n += "|ANYONECANPAY"
	}
	return n
}

// ---- the static, human-readable commitment table -------------------------
//
// C = the hash type commits to the field (a change must invalidate the
// signature), - = it does not (the signature must stay valid), ? = depends on
// the concrete values (e.g. an output inserted in front of the SINGLE output
// shifts another output into its place). Columns: algorithm x ANYONECANPAY x
// {ALL, NONE, SINGLE}. "i" is the signed input's index, "j" the touched
// output, "p" the insertion/removal position. The table is asserted against
// the digest-based decision wherever it says C or -; a disagreement is a
// fault of this monitor (=> inconclusive), never a violation.
//
// Overriding rule for the legacy algorithm (not in the table): SINGLE with
// i >= #outputs signs the constant 1, i.e. commits to nothing; if that holds
// before and after the mutation every row reads "-", if it holds on one side
// only every row reads "C".
var c04Table = []struct{ class, rel, cells string }{
	//                                   FORKID         FORKID|ACP     LEGACY         LEGACY|ACP
	//                                   ALL NON SIN    ALL NON SIN    ALL NON SIN    ALL NON SIN
	{"identity", "-" /*            */, " -   -   -      -   -   -      -   -   -      -   -   - "},
	{"version", "-" /*             */, " C   C   C      C   C   C      C   C   C      C   C   C "},
	{"locktime", "-" /*            */, " C   C   C      C   C   C      C   C   C      C   C   C "},
	{"outpoint", "signed" /*       */, " C   C   C      C   C   C      C   C   C      C   C   C "},
	{"outpoint", "other" /*        */, " C   C   C      -   -   -      C   C   C      -   -   - "},
	{"sequence", "signed" /*       */, " C   C   C      C   C   C      C   C   C      C   C   C "},
	{"sequence", "other" /*        */, " C   -   -      -   -   -      C   -   -      -   -   - "},
	{"other-unlocking-script", "-" /**/, " -   -   -      -   -   -      -   -   -      -   -   - "},
	{"output-value", "j<i" /*      */, " C   -   -      C   -   -      C   -   -      C   -   - "},
	{"output-value", "j==i" /*     */, " C   -   C      C   -   C      C   -   C      C   -   C "},
	{"output-value", "j>i" /*      */, " C   -   -      C   -   -      C   -   -      C   -   - "},
	{"output-script", "j<i" /*     */, " C   -   -      C   -   -      C   -   -      C   -   - "},
	{"output-script", "j==i" /*    */, " C   -   C      C   -   C      C   -   C      C   -   C "},
	{"output-script", "j>i" /*     */, " C   -   -      C   -   -      C   -   -      C   -   - "},
	{"output-insert", "p<=i" /*    */, " C   -   ?      C   -   ?      C   -   ?      C   -   ? "},
	{"output-insert", "p>i" /*     */, " C   -   -      C   -   -      C   -   -      C   -   - "},
	{"output-remove", "p<=i" /*    */, " C   -   ?      C   -   ?      C   -   ?      C   -   ? "},
	{"output-remove", "p>i" /*     */, " C   -   -      C   -   -      C   -   -      C   -   - "},
	{"input-insert", "p<=i" /*     */, " C   C   C      -   -   ?      C   C   C      -   -   ? "},
	{"input-insert", "p>i" /*      */, " C   C   C      -   -   -      C   C   C      -   -   - "},
	{"input-remove", "p<i" /*      */, " C   C   C      -   -   ?      C   C   C      -   -   ? "},
	{"input-remove", "p>i" /*      */, " C   C   C      -   -   -      C   C   C      -   -   - "},
	{"spent-value", "-" /*         */, " C   C   C      C   C   C      -   -   -      -   -   - "},
	{"spent-script", "-" /*        */, " C   C   C      C   C   C      C   C   C      C   C   C "},
}

func c04Column(t uint8) int {
	col := int(t&0x1f) - 1
	if t&0x80 != 0 {
		col += 3
	}
	if t&0x40 == 0 {
		col += 6
	}
	return col
}

func c04Cell(class, rel string, t uint8) byte {
	for _, row := range c04Table {
		if row.class == class && row.rel == rel {
			return strings.ReplaceAll(row.cells, " ", "")[c04Column(t)]
		}
	}
	return 0
}

// c04Classes lists the mutation classes in table order (without "identity").
func c04Classes() []string {
	var cs []string
	for _, row := range c04Table {
		if row.class != "identity" && (len(cs) == 0 || cs[len(cs)-1] != row.class) {
			cs = append(cs, row.class)
		}
	}
	return cs
}

// ---- mutants --------------------------------------------------------------

type c04Mut struct {
	class, rel, desc string
	shape            *gen.Shape
	idx              int // index of the signed input in the mutant
}

func relOut(j, i int) string {
	switch {
	case j < i:
		return "j<i"
	case j == i:
		return "j==i"
	}
	return "j>i"
}

func flipBit(b []byte, r *prng.R) {
	k := r.Intn(len(b) * 8)
	b[k/8] ^= 1 << uint(k%8)
}

// c04Mutants derives every single-field mutant of the signed shape s (signed
// input i): every class at every position.
func c04Mutants(s *gen.Shape, i int, r *prng.R) []c04Mut {
	var ms []c04Mut
	add := func(class, rel, desc string, f func(m *gen.Shape) int) {
		m := s.Clone()
		ni := f(m)
		ms = append(ms, c04Mut{class, rel, desc, m, ni})
	}
	who := func(j int) string {
		if j == i {
			return "signed"
		}
		return "other"
	}
	add("version", "-", "version bit", func(m *gen.Shape) int { m.Version ^= 1 << uint(r.Intn(32)); return i })
	add("locktime", "-", "locktime bit", func(m *gen.Shape) int { m.LockTime ^= 1 << uint(r.Intn(32)); return i })
	for j := range s.Ins {
		j := j
		add("outpoint", who(j), fmt.Sprintf("input %d txid bit", j), func(m *gen.Shape) int { flipBit(m.Ins[j].TxID, r); return i })
		add("outpoint", who(j), fmt.Sprintf("input %d vout bit", j), func(m *gen.Shape) int { m.Ins[j].Vout ^= 1 << uint(r.Intn(32)); return i })
		add("sequence", who(j), fmt.Sprintf("input %d sequence bit", j), func(m *gen.Shape) int { m.Ins[j].Seq ^= 1 << uint(r.Intn(32)); return i })
		if j != i {
			add("other-unlocking-script", "-", fmt.Sprintf("input %d unlocking script replaced", j), func(m *gen.Shape) int {
				m.Ins[j].UnlockNil = false
				m.Ins[j].Unlock = append(append([]byte{}, m.Ins[j].Unlock...), gen.Push(r.Bytes(1+r.Intn(40)))...)
				return i
			})
		}
	}
	for j := range s.Outs {
		j := j
		add("output-value", relOut(j, i), fmt.Sprintf("output %d value bit", j), func(m *gen.Shape) int { m.Outs[j].Sats ^= 1 << uint(r.Intn(64)); return i })
		add("output-script", relOut(j, i), fmt.Sprintf("output %d script changed", j), func(m *gen.Shape) int {
			switch l := len(m.Outs[j].Script); {
			case l > 0 && r.Chance(1, 3): // the very last byte, the one before it, or the first: where a size slip would cut
				k := []int{l - 1, max(l-2, 0), 0}[r.Intn(3)]
				m.Outs[j].Script[k] ^= 1 << uint(r.Intn(8))
			case l > 0 && r.Bool():
				flipBit(m.Outs[j].Script, r)
			default:
				m.Outs[j].Script = append(m.Outs[j].Script, byte(r.Intn(256)))
			}
			return i
		})
	}
	pRel := func(p int, strict bool) string {
		if p < i || (!strict && p == i) {
			if strict {
				return "p<i"
			}
			return "p<=i"
		}
		return "p>i"
	}
	for p := 0; p <= len(s.Outs); p++ {
		p := p
		add("output-insert", pRel(p, false), fmt.Sprintf("new output inserted at %d", p), func(m *gen.Shape) int {
			o := gen.RandOut(r, &gen.ShapeOpts{})
			m.Outs = append(m.Outs[:p], append([]gen.Out{o}, m.Outs[p:]...)...)
			return i
		})
		if p < len(s.Outs) {
			add("output-insert", pRel(p, false), fmt.Sprintf("copy of output %d inserted at %d", p, p), func(m *gen.Shape) int {
				o := gen.Out{Sats: m.Outs[p].Sats, Script: append([]byte{}, m.Outs[p].Script...)}
				m.Outs = append(m.Outs[:p], append([]gen.Out{o}, m.Outs[p:]...)...)
				return i
			})
			add("output-remove", pRel(p, false), fmt.Sprintf("output %d removed", p), func(m *gen.Shape) int {
				m.Outs = append(m.Outs[:p], m.Outs[p+1:]...)
				return i
			})
		}
	}
	for p := 0; p <= len(s.Ins); p++ {
		p := p
		add("input-insert", pRel(p, false), fmt.Sprintf("new input inserted at %d", p), func(m *gen.Shape) int {
			in := gen.RandIn(r, &gen.ShapeOpts{})
			m.Ins = append(m.Ins[:p], append([]gen.In{in}, m.Ins[p:]...)...)
			if p <= i {
				return i + 1
			}
			return i
		})
		if p < len(s.Ins) && p != i {
			add("input-remove", pRel(p, true), fmt.Sprintf("input %d removed", p), func(m *gen.Shape) int {
				m.Ins = append(m.Ins[:p], m.Ins[p+1:]...)
				if p < i {
					return i - 1
				}
				return i
			})
		}
	}
	add("spent-value", "-", "spent output value bit", func(m *gen.Shape) int { m.Ins[i].PrevSats ^= 1 << uint(r.Intn(64)); return i })
	add("spent-script", "-", "spent script: OP_NOP appended", func(m *gen.Shape) int {
		m.Ins[i].PrevScript = append(m.Ins[i].PrevScript, 0x61)
		return i
	})
	// FORKID signatures commit to the whole spent script, a push of the very
	// signature included (signature pushes are only taken out of the script code
	// by the legacy algorithm)
	if u := s.Ins[i].Unlock; len(u) > 2 && int(u[0]) >= 9 && int(u[0]) <= 75 && len(u) > int(u[0]) && u[u[0]]&0x40 != 0 {
		sigPush := append([]byte{}, u[:1+int(u[0])]...)
		add("spent-script", "-", "spent script: a push of the input's own signature added", func(m *gen.Shape) int {
			q := m.Ins[i].PrevScript
			if len(q) > 40 && q[len(q)-1] == 0x68 { // inside the unexecuted envelope
				m.Ins[i].PrevScript = append(append(append([]byte{}, q[:len(q)-1]...), sigPush...), 0x68)
			} else {
				m.Ins[i].PrevScript = append(append(append([]byte{}, q...), sigPush...), 0x75)
			}
			return i
		})
	}
	if ps := s.Ins[i].PrevScript; len(ps) > 40 && ps[len(ps)-1] == 0x68 {
		add("spent-script", "-", "spent script: inscription payload bit", func(m *gen.Shape) int {
			q := m.Ins[i].PrevScript
			q[len(q)-2] ^= 1 << uint(r.Intn(8))
			return i
		})
		if ps[32] >= 1 && ps[32] <= 75 {
			add("spent-script", "-", "spent script: inscription content-type bit", func(m *gen.Shape) int {
				m.Ins[i].PrevScript[33] ^= 1 << uint(r.Intn(7))
				return i
			})
		}
	} else {
		add("spent-script", "-", "spent script: OP_NOP prepended", func(m *gen.Shape) int {
			m.Ins[i].PrevScript = append([]byte{0x61}, m.Ins[i].PrevScript...)
			return i
		})
	}
	return ms
}

// ---- the judge ------------------------------------------------------------

// c04Verify runs the interpreter on input idx of the shape, spending the
// output recorded on that input. forkid selects WithForkID().
var (
	c04LongLivedGetter = &unlocker.Getter{}
	c04GetterUses      int
)

// c04GetterFor returns the UnlockerGetter for a key: a new one, the
// process-wide one with its key replaced (it has served other keys before), or
// a copy of the process-wide one with the key replaced.
func c04GetterFor(priv *bec.PrivateKey) *unlocker.Getter {
	c04GetterUses++
	switch c04GetterUses % 3 {
	case 1:
		c04LongLivedGetter.PrivateKey = priv
		return c04LongLivedGetter
	case 2:
		g := *c04LongLivedGetter
		g.PrivateKey = priv
		return &g
	}
	return &unlocker.Getter{PrivateKey: priv}
}

func c04Verify(c *mon.Ctx, tx *bt.Tx, idx int, script []byte, sats uint64, forkid bool) (accepted bool, code string, ok bool) {
	prev := &bt.Output{Satoshis: sats, LockingScript: bscript.NewFromBytes(append([]byte{}, script...))}
	// UTXO_AFTER_GENESIS (+ SIGHASH_FORKID), handed over through the convenience
	// options and/or WithFlags in varying order; in a quarter of the cases
	// together with strict-encoding flags a library-made signature satisfies
	fl := uint32(scriptflag.UTXOAfterGenesis)
	if forkid {
		fl |= uint32(scriptflag.EnableSighashForkID)
	}
	salt := idx + len(script) + int(sats%7)
	if salt%4 == 3 {
		fl |= uint32(scriptflag.VerifyStrictEncoding | scriptflag.VerifyDERSignatures | scriptflag.VerifyLowS | scriptflag.VerifyNullFail)
	}
	// the spent output is handed over complete with WithTx; or its amount with WithTx and the
	// scripts with WithScripts; or both
	ctxOpts := []interpreter.ExecutionOptionFunc{interpreter.WithTx(tx, idx, prev)}
	if idx < len(tx.Inputs) && tx.Inputs[idx] != nil && tx.Inputs[idx].UnlockingScript != nil {
		switch (salt / 4) % 4 {
		case 1:
			ctxOpts = []interpreter.ExecutionOptionFunc{interpreter.WithTx(tx, idx, &bt.Output{Satoshis: sats}), interpreter.WithScripts(prev.LockingScript, tx.Inputs[idx].UnlockingScript)}
			c.Count("C04:context:amount-with-WithTx,scripts-with-WithScripts")
		case 2:
			ctxOpts = append(ctxOpts, interpreter.WithScripts(prev.LockingScript, tx.Inputs[idx].UnlockingScript))
			c.Count("C04:context:WithTx+WithScripts")
		}
	}
	opts := append(ctxOpts, flagOptions(fl, salt/4+salt)...)
	var err error
	if !c.Try("interpreter.Engine.Execute", func() { err = theEngine(c).Execute(opts...) }) {
		return false, "", false
	}
	if err == nil {
		return true, "", true
	}
	code = "non-script-error"
	se := &errs.Error{}
	if errors.As(err, se) {
		code = se.ErrorCode.String()
	}
	return false, code, true
}

func c04Digest(s *gen.Shape, idx int, t uint8) ([32]byte, error) {
	in := &s.Ins[idx]
	return refsighash.Digest(shModelTx(s), idx, in.PrevScript, in.PrevSats, uint32(t))
}

func c04Judge(c *mon.Ctx, in *c04Case) {
	ownerEditsDecodedEmpties(c)
	s := &in.Shape
	i := in.Idx
	t := in.HashType
	tn := c04TypeName(t)
	if i < 0 || i >= len(s.Ins) || t&0x1f < 1 || t&0x1f > 3 || t&0x20 != 0 || len(in.Key) != 32 {
		c.Count("skipped:malformed-case")
		return
	}
	for j := range s.Ins {
		if len(s.Ins[j].TxID) != 32 {
			c.Count("skipped:out-of-domain(input without 32-byte txid)")
			return
		}
	}
	forkid := t&0x40 != 0
	priv, pub := bec.PrivKeyFromBytes(bec.S256(), in.Key)
	pubBytes := pub.SerialiseCompressed()
	kind := ""
	switch bscript.NewFromBytes(s.Ins[i].PrevScript).ScriptType() {
	case bscript.ScriptTypePubKeyHash:
		kind = "p2pkh"
	case bscript.ScriptTypePubKeyHashInscription:
		kind = "p2pkh-inscription"
	default:
		c.Count("skipped:spent-output-not-p2pkh")
		return
	}
	c.Eval(1)

	// ---- sign through the library
	tx := s.BuildShared()
	signed := s.Clone()
	// an option value prepared BEFORE the input is signed (a caller's option list built once per
	// input): WithTx names the transaction object, what the object holds when Execute runs counts
	prepared := interpreter.WithTx(tx, i, &bt.Output{Satoshis: s.Ins[i].PrevSats, LockingScript: bscript.NewFromBytes(append([]byte{}, s.Ins[i].PrevScript...))})
	if in.Via != "FillAllInputs" && in.MutSeed%3 == 0 {
		// The object has a history: an earlier state of it (one more input, of a
		// kind the signer does not support, and another lock time) went through a
		// FillAllInputs run that failed. It is then put into the state to be
		// signed. Nothing of the failed run may influence the signature.
		extra := &bt.Input{PreviousTxOutIndex: 9, SequenceNumber: 1, PreviousTxSatoshis: 5,
			PreviousTxScript: bscript.NewFromBytes(append(gen.Push(pubBytes), 0xac))}
		_ = extra.PreviousTxIDAdd(bytes.Repeat([]byte{0x77}, 32))
		saved := make([]*bscript.Script, len(tx.Inputs))
		for j := range tx.Inputs {
			saved[j] = tx.Inputs[j].UnlockingScript
		}
		lt := tx.LockTime
		tx.Inputs = append(tx.Inputs, extra)
		tx.LockTime ^= 0x5555
		var ferr error
		if c.Try("bt.(*Tx).FillAllInputs", func() { ferr = tx.FillAllInputs(context.Background(), c04GetterFor(priv)) }) {
			if ferr != nil {
				c.Count("history:failed-FillAllInputs-before-signing")
			} else {
				c.Count("history:FillAllInputs-before-signing-succeeded")
			}
		}
		tx.Inputs = tx.Inputs[:len(tx.Inputs)-1]
		tx.LockTime = lt
		for j := range tx.Inputs {
			tx.Inputs[j].UnlockingScript = saved[j]
		}
	}
	// The context the signer is given: live, already cancelled, or past its deadline. Signing is
	// local computation; a library may refuse to start under a context that is over (its error is
	// then the context's), but whatever it returns without error is a signature like any other.
	sctx, ctxName, ctxCancel := c04Ctx(in.MutSeed)
	defer ctxCancel()
	c.Count("context:" + ctxName)
	var serr error
	switch in.Via {
	case "FillAllInputs":
		if t != 0x41 {
			c.Count("skipped:malformed-case")
			return
		}
		if !c.Try("bt.(*Tx).FillAllInputs", func() { serr = tx.FillAllInputs(sctx, c04GetterFor(priv)) }) {
			return
		}
	case "UnlockingScript":
		// the unlocker asked directly, its answer put in place by the caller; for ALL|FORKID the
		// hash type is left at the zero value, which the parameter documents as that default
		flag := sighash.Flag(t)
		if t == 0x41 {
			flag = 0
		}
		if !c.Try("unlocker.(*Simple).UnlockingScript", func() {
			var us *bscript.Script
			us, serr = (&unlocker.Simple{PrivateKey: priv}).UnlockingScript(sctx, tx, bt.UnlockerParams{InputIdx: uint32(i), SigHashFlags: flag})
			if serr == nil {
				serr = tx.InsertInputUnlockingScript(uint32(i), us)
			}
		}) {
			return
		}
	default:
		if !c.Try("bt.(*Tx).FillInput", func() {
			serr = tx.FillInput(sctx, &unlocker.Simple{PrivateKey: priv}, bt.UnlockerParams{InputIdx: uint32(i), SigHashFlags: sighash.Flag(t)})
		}) {
			return
		}
	}
	if serr != nil && ctxName != "live" && (errors.Is(serr, context.Canceled) || errors.Is(serr, context.DeadlineExceeded)) {
		c.Count("context:over:signing-refused-with-the-context's-error")
		return
	}
	if serr != nil {
		c.Violationf("C04:sign-error:"+tn+":"+kind, "%s failed on a %s output: %v; unsigned tx(ext)=%s input=%d key=%x", in.Via, kind, serr, hexShort(s.Build().ExtendedBytes()), i, []byte(in.Key))
		return
	}
	for j := range tx.Inputs {
		if in.Via == "FillAllInputs" || j == i {
			if tx.Inputs[j].UnlockingScript == nil {
				c.Violationf("C04:sign-left-input-empty:"+tn, "%s returned no error but input %d has no unlocking script", in.Via, j)
				return
			}
			signed.Ins[j].UnlockNil = false
			signed.Ins[j].Unlock = append([]byte{}, *tx.Inputs[j].UnlockingScript...)
		}
	}
	if !bytes.Equal(tx.ExtendedBytes(), signed.Build().ExtendedBytes()) {
		c.Violationf("C04:fill-changed-more-than-the-unlocking-script:"+tn, "after %s the transaction differs from the unsigned one in more than the signed unlocking script(s): %s vs %s",
			in.Via, hexShort(tx.ExtendedBytes()), hexShort(signed.Build().ExtendedBytes()))
		return
	}
	c.Count("signed:" + in.Via)
	c.Count("signed:kind:" + kind)

	// ---- the unlocking script is <sig || hash type> <compressed pubkey>, and the
	// signature is over the reference digest (ECDSA from go-bk, digest from the model)
	dOrig, derr := c04Digest(signed, i, t)
	if derr != nil {
		c.Fault("reference digest failed on an in-range case: " + derr.Error())
		return
	}
	u := signed.Ins[i].Unlock
	if len(u) > 36 && int(u[0]) >= 9 && int(u[0]) <= 73 && len(u) == 1+int(u[0])+1+33 && u[1+int(u[0])] == 33 {
		sigDER, ht, pk := u[1:int(u[0])], u[int(u[0])], u[2+int(u[0]):]
		switch sig, perr := bec.ParseDERSignature(sigDER, bec.S256()); {
		case ht != t || !bytes.Equal(pk, pubBytes):
			c.Violationf("C04:unlocking-script-wrong-flag-or-key:"+tn, "unlocking script %x carries hash type 0x%02x / key %x, asked for 0x%02x / %x", u, ht, pk, t, pubBytes)
		case perr != nil:
			c.Violationf("C04:unlocking-script-signature-not-DER:"+tn, "signature %x: %v", sigDER, perr)
		case !sig.Verify(dOrig[:], pub):
			c.Violationf("C04:signed-digest-differs-from-reference:"+tn, "the signature in %x does not verify against the reference digest %x (hash type 0x%02x, input %d); signed tx(ext)=%s",
				u, dOrig, t, i, hexShort(tx.ExtendedBytes()))
		default:
			c.Count("signature-verifies-against-reference-digest")
		}
	} else {
		c.Violationf("C04:unlocking-script-layout:"+tn, "unlocking script %x is not <sig||hashtype> <33-byte pubkey>", u)
	}

	// ---- (a) the freshly signed input(s) are accepted: on the very object the library signed
	fresh := []int{i}
	if in.Via == "FillAllInputs" {
		fresh = fresh[:0]
		for j := range s.Ins {
			fresh = append(fresh, j)
		}
	}
	for _, j := range fresh {
		acc, code, ok := c04Verify(c, tx, j, s.Ins[j].PrevScript, s.Ins[j].PrevSats, forkid)
		if !ok {
			return
		}
		if !acc {
			c.Violationf("C04:fresh-rejected:"+tn+":"+kind, "input %d signed by %s with %s is rejected by the interpreter (%s); signed tx(ext)=%s key=%x",
				j, in.Via, tn, code, hexShort(signed.Build().ExtendedBytes()), []byte(in.Key))
			return
		}
		c.Count("fresh-accepted:" + tn)
		c.Count("fresh-accepted:kind:" + kind)
	}
	c.Distinct(prng.HashBytes([]byte("fresh"), signed.Build().ExtendedBytes(), []byte{byte(i), t}))
	if !(!forkid && t&0x1f == 3 && i >= len(s.Outs)) {
		fl := uint32(scriptflag.UTXOAfterGenesis)
		if forkid {
			fl |= uint32(scriptflag.EnableSighashForkID)
		}
		exec := func() (accepted, ok bool) {
			var err error
			opts := append([]interpreter.ExecutionOptionFunc{prepared}, flagOptions(fl, i+len(s.Outs))...)
			ok = c.Try("interpreter.Engine.Execute", func() { err = theEngine(c).Execute(opts...) })
			return err == nil, ok
		}
		if acc, ok := exec(); ok && !acc {
			c.Violationf("C04:fresh-rejected:option-prepared-before-signing:"+tn, "input %d signed by %s with %s is rejected when Execute is given a WithTx option value made before the input was signed; signed tx(ext)=%s", i, in.Via, tn, hexShort(tx.ExtendedBytes()))
		} else if ok {
			c.Count("prepared-option:fresh-accepted")
			// ... and the same option value once more after the owner changed the lock time in place (every hash type commits to it)
			tx.LockTime ^= 1
			if acc, ok := exec(); ok && acc {
				c.Violationf("C04:mutant-accepted:locktime-changed-in-place:option-value-reused:"+tn, "after signing, tx.LockTime was changed in place and the WithTx option value used before was passed to Execute again: still accepted; input %d, %s", i, tn)
			} else if ok {
				c.Count("prepared-option:in-place-change-rejected")
			}
			tx.LockTime ^= 1
		}
	}
	bug0 := !forkid && t&0x1f == 3 && i >= len(s.Outs)
	if bug0 {
		c.Count("legacy-single-without-output:signed")
	}

	// ---- (b) every single-field mutant
	r := prng.New(in.MutSeed, "C04/mutants", uint64(i)<<8|uint64(t))
	muts := append([]c04Mut{{"identity", "-", "rebuilt from the recorded shape, nothing changed", signed.Clone(), i}}, c04Mutants(signed, i, r)...)
	for _, m := range muts {
		dMut, err := c04Digest(m.shape, m.idx, t)
		if err != nil {
			c.Fault("reference digest failed on mutant " + m.class + ": " + err.Error())
			continue
		}
		wantValid := dMut == dOrig
		// static table vs. digest-based decision (validates the reference itself)
		cell := c04Cell(m.class, m.rel, t)
		if !forkid && t&0x1f == 3 {
			bug1 := m.idx >= len(m.shape.Outs)
			switch {
			case bug0 && bug1:
				cell = '-'
			case bug0 != bug1:
				cell = 'C'
			}
		}
		switch {
		case cell == 0:
			c.Fault("commitment table has no row for " + m.class + "/" + m.rel)
		case cell == 'C' && wantValid, cell == '-' && !wantValid:
			c.Fault(fmt.Sprintf("commitment table says %q for %s/%s under %s but the reference digests say changed=%v (%s; signed tx(ext)=%s input %d)",
				cell, m.class, m.rel, tn, !wantValid, m.desc, hexShort(signed.Build().ExtendedBytes()), i))
		case cell == '?':
			c.Count("table:depends-on-values")
		default:
			c.Count("table:agrees-with-digest")
		}
		// The transaction handed to the interpreter: the spent output travels ONLY in the
		// previous output given to WithTx. The checked input itself either still carries
		// what it carried at signing time (a spent-value / spent-script mutation is not
		// mirrored on it) or, every other time, nothing at all (transaction re-parsed
		// from its wire bytes, as a validator would receive it).
		mtx := m.shape.Build()
		mi := &m.shape.Ins[m.idx]
		mtx.Inputs[m.idx].PreviousTxSatoshis = signed.Ins[i].PrevSats
		mtx.Inputs[m.idx].PreviousTxScript = bscript.NewFromBytes(append([]byte{}, signed.Ins[i].PrevScript...))
		mtxExt := mtx.ExtendedBytes()
		if r.Bool() {
			var perr error
			wire := mtx.Bytes()
			if !c.Try("bt.NewTxFromBytes", func() { mtx, perr = bt.NewTxFromBytes(wire) }) {
				continue
			}
			if perr != nil {
				c.Fault("a mutant transaction does not re-parse from its own bytes: " + perr.Error())
				continue
			}
			c.Count("verified:tx-parsed-from-wire-bytes")
		} else {
			c.Count("verified:tx-with-signing-time-input-info")
		}
		acc, code, ok := c04Verify(c, mtx, m.idx, mi.PrevScript, mi.PrevSats, forkid)
		if !ok {
			continue
		}
		c.Eval(1)
		exp := "invalid"
		if wantValid {
			exp = "valid"
		}
		if m.class != "identity" {
			c.Count("cell:" + tn + ":" + m.class + ":" + exp)
		}
		if !acc {
			c.Count("reject-code:" + code)
		}
		describe := func() string {
			return fmt.Sprintf("%s (%s, %s) under %s, signed input %d -> %d: reference digest %x -> %x; signed tx(ext)=%s mutant tx(ext)=%s spent value %d script %x; interpreter: accepted=%v %s",
				m.desc, m.class, m.rel, tn, i, m.idx, dOrig, dMut, hexShort(signed.Build().ExtendedBytes()), hexShort(mtxExt), mi.PrevSats, []byte(mi.PrevScript), acc, code)
		}
		switch {
		case m.class == "identity" && !acc:
			c.Fault("the signed transaction rebuilt from its recorded shape is rejected although the signed object was accepted: " + describe())
			return
		case acc && !wantValid:
			c.Violation("C04:mutant-accepted:"+m.class+":"+m.rel+":"+tn, "signature still accepted although the committed digest changed: "+describe())
		case !acc && wantValid:
			c.Violation("C04:mutant-rejected:"+m.class+":"+m.rel+":"+tn, "signature rejected although the digest it commits to is unchanged: "+describe())
		default:
			c.Count("verdict-agrees:" + exp)
			if m.class != "identity" {
				var ib [2]byte
				binary.LittleEndian.PutUint16(ib[:], uint16(m.idx))
				c.Distinct(prng.HashBytes(mtxExt, mi.PrevScript, binary.LittleEndian.AppendUint64(ib[:], mi.PrevSats), []byte{t}))
				if len(mtxExt) < 700 {
					c.Sample("C04:"+exp+":"+m.class, 1, func() any {
						return map[string]any{"hash_type": tn, "signed_via": in.Via, "spent_output": kind, "signed_input": i, "mutation": m.desc, "class": m.class + "/" + m.rel,
							"signed_tx_extended_hex": hex.EncodeToString(signed.Build().ExtendedBytes()), "mutant_tx_extended_hex": hex.EncodeToString(mtxExt),
							"mutant_spent_output":        map[string]any{"satoshis": mi.PrevSats, "script_hex": hex.EncodeToString(mi.PrevScript)},
							"reference_digest_unchanged": wantValid, "interpreter_accepted": acc, "table_cell": string(cell)}
					})
				}
			}
		}
	}
}

// ---- inputs taken from a previous transaction ---------------------------------

type c04FromPrev struct {
	Seed uint64 `json:"seed"`
}

func c04JudgeFromPrev(c *mon.Ctx, in *c04FromPrev) {
	c.Eval(1)
	r := prng.New(in.Seed, "C04-from-prev", 0)
	key := r.Bytes(32)
	key[0] &= 0x7f
	key[31] |= 1
	priv, pub := bec.PrivKeyFromBytes(bec.S256(), key)
	pkh := crypto.Hash160(pub.SerialiseCompressed())
	prev := &bt.Tx{Version: 1}
	pin := &bt.Input{SequenceNumber: 0xffffffff, UnlockingScript: bscript.NewFromBytes([]byte{0x51})}
	_ = pin.PreviousTxIDAdd(r.Bytes(32))
	prev.Inputs = []*bt.Input{pin}
	mine := 0
	for k, n := 0, 2+r.Intn(4); k < n; k++ {
		var sc []byte
		switch r.Intn(4) {
		case 0:
			sc = gen.P2PKH(pkh)
			mine++
		case 1:
			sc = c04Inscription(pkh, r)
			mine++
		case 2:
			sc = gen.P2PKH(r.Bytes(20))
		default:
			sc = c04Inscription(r.Bytes(20), r)
		}
		prev.Outputs = append(prev.Outputs, &bt.Output{Satoshis: uint64(1000 + r.Intn(100000)), LockingScript: bscript.NewFromBytes(sc)})
	}
	if mine == 0 {
		prev.Outputs = append(prev.Outputs, &bt.Output{Satoshis: 5000, LockingScript: bscript.NewFromBytes(c04Inscription(pkh, r))})
		mine = 1
	}
	via := []string{"AddP2PKHInputsFromTx", "From", "FromUTXOs"}[r.Intn(3)]
	tx := bt.NewTx()
	var err error
	ok := c.Try("bt.(*Tx)."+via, func() {
		switch via {
		case "AddP2PKHInputsFromTx":
			err = tx.AddP2PKHInputsFromTx(prev, pub.SerialiseCompressed())
		default:
			for vout, o := range prev.Outputs {
				h, e := o.LockingScript.PublicKeyHash()
				if e != nil || !bytes.Equal(h, pkh) {
					continue
				}
				if via == "From" {
					err = tx.From(prev.TxID(), uint32(vout), o.LockingScript.String(), o.Satoshis)
				} else {
					err = tx.FromUTXOs(&bt.UTXO{TxID: prev.TxIDBytes(), Vout: uint32(vout), Satoshis: o.Satoshis, LockingScript: o.LockingScript})
				}
				if err != nil {
					return
				}
			}
		}
	})
	if !ok {
		return
	}
	if err != nil || len(tx.Inputs) != mine {
		c.Violationf("C04:inputs-from-previous-tx:"+via, "%s returned %v and added %d inputs; the previous transaction has %d outputs to the key; prev tx %x", via, err, len(tx.Inputs), mine, prev.Bytes())
		return
	}
	_ = tx.PayTo(bscript.NewFromBytes(gen.P2PKH(r.Bytes(20))), 700)
	if !c.Try("bt.(*Tx).FillAllInputs", func() { err = tx.FillAllInputs(context.Background(), c04GetterFor(priv)) }) {
		return
	}
	if err != nil {
		c.Violationf("C04:sign-error:from-previous-tx:"+via, "FillAllInputs failed on inputs taken from a previous transaction by %s: %v", via, err)
		return
	}
	raw, perr := bt.NewTxFromBytes(tx.Bytes())
	if perr != nil {
		c.Fault("signed tx does not parse: " + perr.Error())
		return
	}
	for j, inp := range raw.Inputs {
		o := prev.Outputs[inp.PreviousTxOutIndex]
		accepted, code, ok := c04Verify(c, raw, j, *o.LockingScript, o.Satoshis, true)
		if !ok {
			return
		}
		if !accepted {
			c.Violationf("C04:fresh-rejected:from-previous-tx:"+via, "input %d (spending output %d of the previous transaction, script %x) signed by FillAllInputs after %s is rejected by the interpreter (%s); tx %x", j, inp.PreviousTxOutIndex, []byte(*o.LockingScript), via, code, tx.Bytes())
			return
		}
	}
	c.Count("from-previous-tx:verified:" + via)
	c.Distinct(prng.HashBytes(tx.Bytes()))
}

// ---- workload ---------------------------------------------------------------

// c04BigPayload, when non-zero, is the payload size of the next inscription
// built (the large-inscriptions phase; the case record holds the script itself).
var c04BigPayload int

func c04Inscription(pkh []byte, r *prng.R) []byte {
	s := gen.P2PKH(pkh)
	s = append(s, 0x00, 0x63, 0x03, 'o', 'r', 'd', 0x51)
	ctype := prng.Pick(r, []string{"text/plain;charset=utf-8", "image/png", "application/json", "a"})
	if r.Chance(1, 4) { // a legal but non-minimal push form inside the envelope (the script code must be hashed as it is)
		e, _ := refcodec.PushWith(prng.Pick(r, []byte{0x4c, 0x4d, 0x4e}), []byte(ctype))
		s = append(s, e...)
	} else {
		s = append(s, gen.Push([]byte(ctype))...)
	}
	s = append(s, 0x00)
	n := prng.Pick(r, []int{1, 2, 13, 75, 76, 255, 256, 600})
	if c04BigPayload > 0 {
		n = c04BigPayload
	}
	if c04BigPayload == 0 && r.Chance(1, 5) {
		e, _ := refcodec.PushWith(prng.Pick(r, []byte{0x4d, 0x4e}), r.Bytes(n))
		s = append(s, e...)
	} else {
		s = append(s, gen.Push(r.Bytes(n))...)
	}
	s = append(s, 0x68)
	// the enriched form Tx.Inscribe builds: OP_RETURN followed by pushes (tails of 0, 1, 2 and more bytes)
	switch r.Intn(8) {
	case 0:
		s = append(s, 0x6a)
	case 1:
		s = append(s, 0x6a, 0x00)
	case 2:
		s = append(s, 0x6a, 0x01, byte(r.Intn(256)))
	case 3:
		s = append(s, 0x6a, 0x00, 0x00)
	case 4:
		s = append(append(s, 0x6a), gen.Push(r.Bytes(1+r.Intn(80)))...)
		s = append(s, gen.Push(r.Bytes(r.Intn(4)))...)
	case 5: // items on both sides of the direct-push / PUSHDATA1 boundary whose DATA holds the value of OP_CODESEPARATOR
		s = append(s, 0x6a)
		for _, l := range []int{74, 75, 76}[r.Intn(3):] {
			d := bytes.Repeat([]byte{0xab}, l)
			d[r.Intn(l)] = byte(r.Intn(256))
			s = append(s, gen.Push(d)...)
		}
	}
	return s
}

// c04MakeCase draws a case: ni x no shape, signed input i, hash type t.
func c04MakeCase(r *prng.R, ni, no, i int, t uint8, via string, inscription bool) *c04Case {
	key := r.Bytes(32)
	key[0] &= 0x7f // below the group order
	key[31] |= 1   // non-zero
	_, pub := bec.PrivKeyFromBytes(bec.S256(), key)
	pkh := crypto.Hash160(pub.SerialiseCompressed())
	s := gen.ShapeN(r, ni, no, gen.ShapeOpts{AllowNil: true})
	spend := func(j int, insc bool) {
		in := &s.Ins[j]
		in.PrevScriptNil = false
		if insc {
			in.PrevScript = c04Inscription(pkh, r)
		} else {
			in.PrevScript = gen.P2PKH(pkh)
		}
		switch r.Intn(3) { // what is in the unlocking script before signing
		case 0:
			in.UnlockNil, in.Unlock = true, nil
		case 1:
			in.UnlockNil, in.Unlock = false, []byte{}
		default:
			in.UnlockNil, in.Unlock = false, gen.Push(r.Bytes(20))
		}
	}
	if via == "FillAllInputs" {
		for j := range s.Ins {
			spend(j, inscription != (j%2 == 1))
		}
	} else {
		spend(i, inscription)
	}
	return &c04Case{Shape: *s, Idx: i, HashType: t, Key: key, Via: via, MutSeed: r.Uint64()}
}

func init() {
	p := &mon.Property{
		ID: "C04",
		Rule: "A case = one input signed through the library (tx.FillInput + unlocker.Simple with the requested hash type; tx.FillAllInputs + unlocker.Getter for ALL|FORKID), private key from the PRNG (RFC 6979 signatures), spent output P2PKH or P2PKH-inscription (OP_FALSE OP_IF 'ord' OP_1 <type> OP_0 <payload> OP_ENDIF suffix); other inputs/outputs arbitrary (nil/empty/filled scripts, boundary values). " +
			"enumerated: every shape 1..5 inputs x 0..5 outputs x every signed position x the six FORKID and the six legacy hash types (spent-output kind alternating); random: further shapes up to 6x6 (quick 420, thorough 39,000 cases, 1 in 6 via FillAllInputs). " +
			"Per case: the signed object is executed with Engine.Execute(WithTx(tx, i, spentOutput), WithAfterGenesis, WithForkID iff the type has FORKID) and must be accepted; then EVERY single-field mutant (version, locktime, each input's txid / vout / sequence, other inputs' unlocking script, each output's value / script, output inserted (new or duplicate) / removed at every position, input inserted / removed at every position with the signed index re-mapped, spent value, spent script by OP_NOP append/prepend or inscription payload / content-type change) is executed: accepted <=> refsighash digest of the mutant == digest of the original. The spent output reaches the interpreter only through WithTx's previous output (a spent-value/script mutation is never mirrored on the input); every other mutant transaction is first re-parsed from its wire bytes so that its inputs carry no previous-output information at all. " +
			"The static commitment table (field x {ALL,NONE,SINGLE} x ANYONECANPAY x algorithm) is asserted against the digest decision where unambiguous (disagreement = monitor fault). The signature is also checked with go-bk ECDSA against the reference digest. " +
			"distinct_nontrivial = distinct (mutant extended bytes, signed index, hash type) whose interpreter verdict was compared with the reference decision and agreed, plus distinct freshly signed transactions accepted.",
		Assum: []string{"reference digests from /verif/internal/refsighash (validated on every run against the 1,000 node sighash vectors); script code = the spent script verbatim (P2PKH / inscription scripts contain no OP_CODESEPARATOR and not their own signature)",
			"ECDSA (sign/verify, RFC 6979) is go-bk/bec, shared with the library; SHA-256 collisions are not considered",
			"only the standard hash types 0x01-0x03 | 0x40 | 0x80 are signed; legacy types are verified without WithForkID (the engine's strict-encoding check rejects them otherwise)",
			"the interpreter's error code on rejection is recorded, not judged"},
	}
	judge := mon.Kind(p, "signed-input", c04Judge)
	fromPrev := mon.Kind(p, "from-prev", c04JudgeFromPrev)
	p.Run = func(c *mon.Ctx) {
		if !shValidateModel(c) {
			return
		}
		// the table must be well formed: 12 cells of C/-/? per row
		for _, row := range c04Table {
			cells := strings.ReplaceAll(row.cells, " ", "")
			if len(cells) != 12 || strings.Trim(cells, "C-?") != "" {
				c.Fault("commitment table row malformed: " + row.class + "/" + row.rel)
				return
			}
		}
		c.Phase("enumerated-shapes")
		n := uint64(0)
		for ni := 1; ni <= 5; ni++ {
			for no := 0; no <= 5; no++ {
				for i := 0; i < ni; i++ {
					for ti, t := range c04Types {
						n++
						if !c.Case(n) {
							continue
						}
						r := c.Rand(n)
						judge(c, c04MakeCase(r, ni, no, i, t, "FillInput", (ni+no+i+ti)%2 == 1))
					}
				}
			}
		}
		c.Phase("large-inscriptions") // payloads around the PUSHDATA2 / PUSHDATA4 boundary
		n = 0
		for _, size := range []int{65535, 65536, 70000} {
			for _, t := range []uint8{0x41, 0xC3, 0x01, 0x82} {
				n++
				if !c.Case(n) {
					continue
				}
				r := c.Rand(n)
				c04BigPayload = size
				cs := c04MakeCase(r, 1+int(n%2), 1, 0, t, "FillInput", true)
				c04BigPayload = 0
				judge(c, cs)
			}
		}
		c.Phase("inscription-payload-lengths") // every direct-push length and its neighbours as the length of the content push in front of OP_ENDIF
		n = 0
		for size := 1; size <= 80; size++ {
			for _, t := range []uint8{0x41, 0x01} {
				n++
				if !c.Case(n) {
					continue
				}
				r := c.Rand(n)
				c04BigPayload = size
				cs := c04MakeCase(r, 1, 1, 0, t, "FillInput", true)
				c04BigPayload = 0
				judge(c, cs)
			}
		}
		c.Phase("huge-inscriptions") // a single content push above 750,000 bytes (the pre-Genesis-derived size constants that sit next to the unlimited post-Genesis ones)
		n = 0
		for _, size := range []int{750001, 1000000} {
			for _, t := range []uint8{0x41, 0x01} {
				n++
				if !c.Case(n) {
					continue
				}
				r := c.Rand(n)
				c04BigPayload = size
				cs := c04MakeCase(r, 1, 1, 0, t, "FillInput", true)
				c04BigPayload = 0
				judge(c, cs)
			}
		}
		c.Phase("large-scripts-in-the-spending-tx") // an output (or another input's unlocking script) longer than the readers' 16 KiB chunk, not a multiple of it, content not repeating
		n = 0
		for _, size := range []int{16384, 16385, 20000, 32768, 32769, 40000, 65535, 65536, 65537, 70000} { // (from 65536 on the output's length prefix takes five bytes)
			for ti, t := range []uint8{0x41, 0x01, 0x43, 0x03, 0xC1, 0x82} {
				n++
				if !c.Case(n) {
					continue
				}
				r := c.Rand(n)
				cs := c04MakeCase(r, 2, 2, ti%2, t, "FillInput", ti%3 == 0)
				big := append([]byte{0x00, 0x6a}, r.Bytes(size-2)...)
				switch n % 3 {
				case 0:
					cs.Shape.Outs[0].Script = big
				case 1:
					cs.Shape.Outs[1].Script = big
				default:
					cs.Shape.Outs[ti%2].Script = big
					o := &cs.Shape.Ins[1-ti%2]
					o.Unlock, o.UnlockNil = r.Bytes(size+1), false
				}
				judge(c, cs)
			}
		}
		c.Phase("inputs-from-previous-tx") // inputs are taken from a previous transaction's outputs by the library (AddP2PKHInputsFromTx / From / FromUTXOs), then signed and verified against those outputs
		NF := uint64(60)
		if c.Thorough {
			NF = 3000
		}
		for n := uint64(0); n < NF; n++ {
			if c.Case(n) {
				fromPrev(c, &c04FromPrev{Seed: c.Rand(n).Uint64()})
			}
		}
		c.Phase("random-shapes")
		N := uint64(420)
		if c.Thorough {
			N = 39000
		}
		for n := uint64(0); n < N; n++ {
			if !c.Case(n) {
				continue
			}
			r := c.Rand(n)
			ni, no := 1+r.Intn(6), r.Intn(7)
			if r.Chance(1, 6) {
				judge(c, c04MakeCase(r, ni, no, r.Intn(ni), 0x41, "FillAllInputs", r.Bool()))
			} else {
				judge(c, c04MakeCase(r, ni, no, r.Intn(ni), prng.Pick(r, c04Types), prng.Pick(r, []string{"FillInput", "FillInput", "UnlockingScript"}), r.Bool()))
			}
		}
	}
	p.Floor = func(a *mon.Agg) string {
		if a.Cov["model:validated"] == 0 {
			return "the reference model was not validated against the node vectors"
		}
		if a.Cov["prepared-option:fresh-accepted"] == 0 || a.Cov["prepared-option:in-place-change-rejected"] == 0 {
			return "no execution through an option value prepared before signing"
		}
		for _, t := range c04Types {
			tn := c04TypeName(t)
			if a.Cov["fresh-accepted:"+tn] == 0 {
				return "no freshly signed input observed for " + tn
			}
			for _, class := range c04Classes() {
				needValid, needInvalid := t&0x40 == 0 && t&0x1f == 3, false // legacy SINGLE without output commits to nothing
				for _, row := range c04Table {
					if row.class == class {
						switch strings.ReplaceAll(row.cells, " ", "")[c04Column(t)] {
						case 'C':
							needInvalid = true
						case '-':
							needValid = true
						}
					}
				}
				if needValid && a.Cov["cell:"+tn+":"+class+":valid"] == 0 {
					return "matrix cell " + tn + " x " + class + " x valid is empty"
				}
				if needInvalid && a.Cov["cell:"+tn+":"+class+":invalid"] == 0 {
					return "matrix cell " + tn + " x " + class + " x invalid is empty"
				}
			}
		}
		for _, k := range []string{"signed:FillInput", "signed:FillAllInputs", "signed:kind:p2pkh", "signed:kind:p2pkh-inscription", "signature-verifies-against-reference-digest",
			"legacy-single-without-output:signed", "table:agrees-with-digest", "verdict-agrees:valid", "verdict-agrees:invalid"} {
			if a.Cov[k] == 0 {
				return "counter " + k + " is zero"
			}
		}
		return ""
	}
	mon.Register(p)
}

// c04Ctx chooses the signer's context from the case's seed: three in five are live.
func c04Ctx(seed uint64) (context.Context, string, func()) {
	switch (seed / 3) % 5 {
	case 3:
		ctx, cancel := context.WithCancel(context.Background())
		cancel()
		return ctx, "cancelled", cancel
	case 4:
		ctx, cancel := context.WithDeadline(context.Background(), time.Unix(1, 0))
		return ctx, "deadline-passed", cancel
	}
	return context.Background(), "live", func() {}
}
