package main

import (
	"bytes"

	"github.com/libsv/go-bt/v2"
	"github.com/libsv/go-bt/v2/bscript"
	"github.com/libsv/go-bt/v2/bscript/interpreter"

	"verif/internal/mon"
)

var ownerEdits int

// ownerEditsDecodedEmpties does what the owner of freshly decoded (or freshly
// constructed) objects is free to do with them: it builds the EMPTY scripts
// they carry up in place (AppendPushData / AppendOpcodes / plain append) and
// drops the objects. Whatever the library does afterwards, for other objects,
// must not show those bytes: an "empty script" the library shares between
// objects, or keeps for its own use, would.
func ownerEditsDecodedEmpties(c *mon.Ctx) {
	// version 1, two inputs and one output, all scripts empty
	raw := []byte{1, 0, 0, 0, 2}
	for i := 0; i < 2; i++ {
		raw = append(raw, bytes.Repeat([]byte{0x77 + byte(i)}, 32)...)
		raw = append(raw, byte(i), 0, 0, 0, 0, 0xff, 0xff, 0xff, 0xff)
	}
	raw = append(raw, 1, 0x10, 0x27, 0, 0, 0, 0, 0, 0, 0, 0, 0, 0, 0)
	junk := []byte{0xde, 0xc0, 0xde, 0xd0, 0x0d}
	edit := func(s *bscript.Script) {
		if s == nil || len(*s) != 0 {
			return
		}
		ownerEdits++
		c.Count("owner-edits-of-decoded-empty-scripts")
		switch ownerEdits % 3 {
		case 0:
			_ = s.AppendPushData(junk)
		case 1:
			_ = s.AppendOpcodes(bscript.OpDUP, bscript.OpHASH160)
		default:
			*s = append(*s, junk...)
		}
	}
	mon.TryQuiet(func() {
		if tx, err := bt.NewTxFromBytes(raw); err == nil && tx != nil {
			for _, in := range tx.Inputs {
				edit(in.UnlockingScript)
				edit(in.PreviousTxScript)
			}
			for _, o := range tx.Outputs {
				edit(o.LockingScript)
			}
		}
	})
	mon.TryQuiet(func() {
		tx := bt.NewTx()
		if _, err := tx.ReadFrom(bytes.NewReader(raw)); err == nil {
			for _, in := range tx.Inputs {
				edit(in.UnlockingScript)
			}
			for _, o := range tx.Outputs {
				edit(o.LockingScript)
			}
		}
	})
	mon.TryQuiet(func() { // the empty script through the interpreter's parser and back
		p := interpreter.DefaultOpcodeParser{}
		if ps, err := p.Parse(bscript.NewFromBytes([]byte{})); err == nil {
			if s, err := p.Unparse(ps); err == nil {
				edit(s)
			}
		}
	})
	mon.TryQuiet(func() {
		if s, err := bscript.NewFromHexString(""); err == nil {
			edit(s)
		}
		edit(bscript.NewFromBytes(nil))
		edit(bscript.NewFromBytes([]byte{}))
		if s, err := bscript.NewFromASM(""); err == nil {
			edit(s)
		}
	})
}
