package main

import (
	"bytes"
	"crypto/sha256"
	"encoding/hex"
	"fmt"
	"math/big"
	"strconv"
	"strings"

	"github.com/libsv/go-bk/bec"
	"github.com/libsv/go-bk/bip32"
	"github.com/libsv/go-bk/chaincfg"
	"github.com/libsv/go-bt/v2"
	"github.com/libsv/go-bt/v2/bscript"
	"golang.org/x/crypto/ripemd160" //nolint:staticcheck // the hash Bitcoin addresses are defined with

	"verif/internal/mon"
	"verif/internal/prng"
	"verif/internal/refaddr"
)

// C15 — P2PKH construction and addresses are coherent and checksum-protected.

type c15Pos struct {
	Hash mon.Hex `json:"hash"`           // 20 bytes; ignored when Priv is set
	Priv mon.Hex `json:"priv,omitempty"` // 32 bytes: derive a real compressed key, hash = HASH160(key)
}

type c15Str struct {
	S      string `json:"s"`
	Origin string `json:"origin"`
	Class  string `json:"class"`
}

func c15Hash160(b []byte) []byte {
	a := sha256.Sum256(b)
	h := ripemd160.New()
	h.Write(a[:])
	return h.Sum(nil)
}

func c15Canonical(h []byte) []byte {
	s := []byte{0x76, 0xa9, 0x14}
	s = append(s, h...)
	return append(s, 0x88, 0xac)
}

// the quote handed to ChangeToAddress (package level: replays and the coverage-guided stage call the judges without Run)
var c15FQ = bt.NewFeeQuote()

// c15Seen: violation keys already reported with full detail by this process.
var c15Seen = map[string]bool{}

// c15FundedTx: one P2PKH input worth 100 000 satoshis, no outputs.
func c15FundedTx() *bt.Tx {
	tx := bt.NewTx()
	_ = tx.FromUTXOs(&bt.UTXO{TxID: bytes.Repeat([]byte{0xab}, 32), Vout: 0, Satoshis: 100000,
		LockingScript: bscript.NewFromBytes(c15Canonical(bytes.Repeat([]byte{0x22}, 20)))})
	return tx
}

// c15Reason says why the reference rejects s.
func c15Reason(s string) string {
	for i := 0; i < len(s); i++ {
		if strings.IndexByte(refaddr.Alphabet, s[i]) < 0 {
			return "bad-character"
		}
	}
	b, _ := refaddr.B58Decode(s)
	if len(b) != 25 {
		return "non-25-byte"
	}
	if b[0] != 0x00 && b[0] != 0x6f {
		return "bad-version"
	}
	return "bad-checksum"
}

// c15Label normalises a mutation class by what the string is relative to its origin.
func c15Label(s, origin, class string) string {
	if origin == "" || s == origin {
		return class
	}
	if strings.TrimLeft(s, "1") == strings.TrimLeft(origin, "1") {
		if len(s) > len(origin) {
			return "leading-1-inserted"
		}
		return "leading-1-removed"
	}
	return class
}

func init() {
	p := &mon.Property{
		ID: "C15",
		Rule: "positive: 2 000 (quick) / 200 000 (thorough) cases, each a random 20-byte hash and a real compressed key (HASH160 computed independently), both networks: address = independent Base58Check; decode, validate, every P2PKH constructor (from hash, hash hex, key bytes, key hex, EC key, address of either network, PayToAddress, AddP2PKHOutputFrom*, ChangeToAddress) must give the canonical 25-byte script, PublicKeyHash/Addresses must give the hash and main-net address back. " +
			"negative: for 200 / 5 000 of the addresses (alternating networks) EVERY single-character substitution (57 x len), insertion (58 x (len+1)), deletion and adjacent transposition, plus wrong versions (0x05, 0xc4, 3 random), payload lengths 19/21, non-alphabet characters (0 O I l space + / NUL, bytes >= 0x80), 1..3 leading '1's added, leading '1' removed, empty string, surrounding blanks; " +
			"each string goes to ValidateAddress, NewAddressFromString, NewP2PKHFromAddress, Tx.PayToAddress, Tx.AddP2PKHOutputFromAddress and Tx.ChangeToAddress; library accepts => the independent Base58Check accepts (25 bytes, version 0x00/0x6f, checksum) and yields the same hash. " +
			"distinct_nontrivial = distinct (hash, network) pairs judged positively + distinct strings that differ from the address they were derived from.",
		Assum: []string{
			"reference Base58Check in /verif/internal/refaddr (math/big + crypto/sha256), HASH160 = RIPEMD160(SHA256) from the standard library and x/crypto; checked against three published address vectors at the start of each run",
			"compressed key serialisation is taken from go-bk/bec (the property is about agreement of the constructors, not about SEC encoding)",
		},
	}
	pos := mon.Kind(p, "positive", c15JudgePos)
	str := mon.Kind(p, "string", c15JudgeStr)
	ext := mon.Kind(p, "extended-key", c15JudgeExtKey)

	p.Run = func(c *mon.Ctx) {
		// reference self-check: published vectors (Bitcoin wiki "Technical background of version 1 Bitcoin addresses"; genesis coinbase key)
		for _, v := range [][2]string{
			{"0250863ad64a87ae8a2fe83c1af1a8403cb53f53e486d8511dad8a04887e5b2352", "1PMycacnJaSqwwJqjawXBErnLsZ7RkXUAs"},
			{"04678afdb0fe5548271967f1a67130b7105cd6a828e03909a67962e0ea1f61deb649f6bc3f4cef38c4f35504e51ec112de5c384df7ba0b8d578a4c702b6bf11d5f", "1A1zP1eP5QGefi2DMPTfTL5SLmv7DivfNa"},
		} {
			k, _ := hex.DecodeString(v[0])
			if got := refaddr.CheckEncode(0, c15Hash160(k)); got != v[1] {
				c.Fault("reference address model failed vector " + v[1] + ": got " + got)
				return
			}
			if h, ver, ok := refaddr.AddressOK(v[1]); !ok || ver != 0 || !bytes.Equal(h, c15Hash160(k)) {
				c.Fault("reference address decoder failed vector " + v[1])
				return
			}
		}
		if _, _, ok := refaddr.AddressOK("1A1zP1eP5QGefi2DMPTfTL5SLmv7DivfNb"); ok {
			c.Fault("reference address decoder accepts a wrong checksum")
			return
		}
		if h, ver, ok := refaddr.AddressOK("mipcBbFg9gMiCh81Kj8tqqdgoZub1ZJRfn"); !ok || ver != 0x6f || hex.EncodeToString(h) != "243f1394f44554f4ce3fd68649c19adc483ce924" {
			c.Fault("reference address decoder failed the test-net vector")
			return
		}
		c.Info("model_vectors_reproduced", 4)

		c.Phase("positive")
		np := 2000
		if c.Thorough {
			np = 200000
		}
		edgeHashes := [][]byte{make([]byte, 20), bytes.Repeat([]byte{0xff}, 20), append([]byte{0}, bytes.Repeat([]byte{0x5a}, 19)...), append(make([]byte, 10), bytes.Repeat([]byte{1}, 10)...), append(bytes.Repeat([]byte{0}, 19), 1)}
		for i := 0; i < np; i++ {
			if !c.Case(uint64(i)) {
				continue
			}
			r := c.Rand(uint64(i))
			h := r.Bytes(20)
			if i < len(edgeHashes) {
				h = edgeHashes[i]
			} else if r.Chance(1, 20) { // leading zero bytes: leading '1's in the main-net address
				for j := 0; j <= r.Intn(4); j++ {
					h[j] = 0
				}
			}
			pos(c, &c15Pos{Hash: h})
			pos(c, &c15Pos{Priv: r.Bytes(32)})
		}

		// ---- from an extended (BIP32) key: the library picks a random three-level path below the key, returns
		// the path with the script; the script must be the canonical P2PKH script of the key AT THAT PATH
		c.Phase("extended-keys")
		{
			nk := 24
			if c.Thorough {
				nk = 400
			}
			for i := 0; i < nk; i++ {
				if c.Case(uint64(i)) {
					ext(c, &c15Ext{Seed: c.Rand(uint64(i)).Bytes(16 + 16*(i%3)), Testnet: i%4 == 3, Calls: 24})
				}
			}
		}

		c.Phase("addresses-with-inner-runs-of-1") // key hashes solved so that the address text has a run of '1' characters (zero digits) of a chosen length at a chosen inner position
		{
			n := uint64(0)
			for _, ver := range []byte{0x00, 0x6f} {
				for _, run := range []int{1, 2, 5, 9, 10, 11, 12, 19, 20, 21} {
					for start := 6; start+run <= 30; start++ {
						n++
						if !c.Case(n) {
							continue
						}
						if h := c15HashWithZeroDigits(c.Rand(n), ver, start, run); h != nil {
							c.Count("pos:inner-run-of-1:solved")
							pos(c, &c15Pos{Hash: h})
						} else {
							c.Count("pos:inner-run-of-1:not-solvable")
						}
					}
				}
			}
		}

		c.Phase("hashes-with-template-bytes") // key hashes that contain, at every offset, the byte values of the opcodes and the push length of the P2PKH template itself
		n := uint64(0)
		for _, pat := range [][]byte{{0x88, 0xac}, {0x76, 0xa9}, {0xa9, 0x14}, {0x14}, {0x88}, {0xac}, {0x6a}, {0x00, 0x63}, {0x4c}, {0x4e},
			{0x00, 0x63, 0x03, 'o', 'r', 'd'}, {0x03, 'o', 'r', 'd', 0x51}, {0x00, 0x6a}, {0x51, 0xae}, {0x21, 0x02}, {0xa9, 0x14, 0x87}} { // ... and the marker bytes of the other templates (inscription envelope, data carrier, multisig, P2PK, P2SH)
			for off := 0; off+len(pat) <= 20; off++ {
				n++
				if !c.Case(n) {
					continue
				}
				h := c.Rand(n).Bytes(20)
				copy(h[off:], pat)
				pos(c, &c15Pos{Hash: h})
			}
		}

		c.Phase("hashes-that-look-like-encodings") // key hashes that read as a complete push (PUSHDATA1/2/4 header + matching length) or whose tail is the checksum of their head
		for k := uint64(0); k < 60; k++ {
			if !c.Case(k) {
				continue
			}
			r := c.Rand(k)
			h := r.Bytes(20)
			switch k % 5 {
			case 0:
				copy(h, []byte{0x4c, 18})
			case 1:
				copy(h, []byte{0x4d, 17, 0})
			case 2:
				copy(h, []byte{0x4e, 15, 0, 0, 0})
			case 3: // bytes 16..19 = checksum of (version 0x00 || bytes 0..15): the hash "already carries a checksum"
				copy(h[16:], refaddr.Sha256d(append([]byte{0x00}, h[:16]...))[:4])
			case 4: // the same for the test network version byte
				copy(h[16:], refaddr.Sha256d(append([]byte{0x6f}, h[:16]...))[:4])
			}
			pos(c, &c15Pos{Hash: h})
		}

		c.Phase("mutations")
		nm := 200
		if c.Thorough {
			nm = 5000
		}
		nonAlpha := []string{"0", "O", "I", "l", " ", "+", "/", "\x00", "\x80", "\xff", "é"}
		for i := 0; i < nm; i++ {
			if !c.Case(uint64(i)) {
				continue
			}
			r := c.Rand(uint64(i))
			h := r.Bytes(20)
			if i%10 == 9 {
				h[0] = 0 // main-net address starting "11"
			}
			ver := byte(0x00)
			if i%2 == 1 {
				ver = 0x6f
			}
			t := refaddr.CheckEncode(ver, h)
			emit := func(s, class string) {
				str(c, &c15Str{S: s, Origin: t, Class: c15Label(s, t, class)})
			}
			emit(t, "identity")
			for k := 0; k <= len(t); k++ {
				if k < len(t) {
					emit(t[:k]+t[k+1:], "delete")
					for a := 0; a < len(refaddr.Alphabet); a++ {
						if refaddr.Alphabet[a] != t[k] {
							emit(t[:k]+refaddr.Alphabet[a:a+1]+t[k+1:], "substitute")
						}
					}
					if k+1 < len(t) && t[k] != t[k+1] {
						emit(t[:k]+t[k+1:k+2]+t[k:k+1]+t[k+2:], "transpose")
					}
					emit(t[:k]+prng.Pick(r, nonAlpha)+t[k+1:], "non-alphabet-char")
					// a multi-byte character whose code point is the alphabet character plus a multiple of 256
					emit(t[:k]+string(rune(int(t[k])+0x100*(1+r.Intn(255))))+t[k+1:], "non-alphabet-char")
				}
				for a := 0; a < len(refaddr.Alphabet); a++ {
					emit(t[:k]+refaddr.Alphabet[a:a+1]+t[k:], "insert")
				}
			}
			for _, na := range nonAlpha {
				emit(t+na, "non-alphabet-char")
				emit(na+t, "non-alphabet-char")
			}
			emit("1"+t, "leading-1-inserted")
			emit("11"+t, "leading-1-inserted")
			emit("111"+t, "leading-1-inserted")
			if t[0] == '1' {
				emit(t[1:], "leading-1-removed")
			}
			emit(refaddr.CheckEncode(0x05, h), "wrong-version")
			emit(refaddr.CheckEncode(0xc4, h), "wrong-version")
			for k := 0; k < 3; k++ {
				v := byte(r.Intn(256))
				if v != 0x00 && v != 0x6f {
					emit(refaddr.CheckEncode(v, h), "wrong-version")
				}
			}
			// the library's own encoder is given the wrong-length payloads first (it does not check the length): what it produced must still not be accepted as an address
			c.Try("bscript.NewAddressFromPublicKeyHash", func() {
				_, _ = bscript.NewAddressFromPublicKeyHash(h[:19], ver == 0x00)
				_, _ = bscript.NewAddressFromPublicKeyHash(append(append([]byte{}, h...), 0x00), ver == 0x00)
			})
			emit(refaddr.CheckEncode(ver, h[:19]), "payload-19-bytes")
			emit(refaddr.CheckEncode(ver, append(append([]byte{}, h...), 0x00)), "payload-21-bytes")
			emit(refaddr.CheckEncode(ver, append([]byte{0x00}, h...)), "payload-21-bytes")
			emit(refaddr.B58Encode(append([]byte{ver}, h...)), "checksum-missing")
			emit(" "+t, "surrounding-blank")
			emit(t+" ", "surrounding-blank")
			emit(t+"\n", "surrounding-blank")
			emit(strings.ToUpper(t), "case-changed")
			emit(strings.ToLower(t), "case-changed")
		}

		c.Phase("overflow-wrap") // strings that decode to MORE than 25 bytes but whose low 25 bytes are a valid payload (a decoder that drops the carry accepts them)
		nw := uint64(60)
		if c.Thorough {
			nw = 1500
		}
		for i := uint64(0); i < nw; i++ {
			if !c.Case(i) {
				continue
			}
			r := c.Rand(i)
			ver := byte(0x00)
			if r.Bool() {
				ver = 0x6f
			}
			origin := refaddr.CheckEncode(ver, r.Bytes(20))
			raw, _ := refaddr.B58Decode(origin)
			v := new(big.Int).SetBytes(raw)
			for _, k := range []int64{1, 2, 3, 57, 58, 59, 116, 255, 256, 3364, 65536} {
				w := new(big.Int).Add(v, new(big.Int).Lsh(big.NewInt(k), 200))
				enc := refaddr.B58Encode(w.Bytes())
				for ones := 0; ones <= 2; ones++ {
					str(c, &c15Str{S: enc, Origin: origin, Class: "overflow-wrap"})
					enc = "1" + enc
				}
			}
		}
		c.Phase("free-form")
		free := []string{"", "1", "11111111111111111111111111111111", "1111111111111111111114oLvT2", "m", "bitcoin-script", "1A1zP1eP5QGefi2DMPTfTL5SLmv7DivfN", "1A1zP1eP5QGefi2DMPTfTL5SLmv7DivfNaa",
			strings.Repeat("z", 34), strings.Repeat("z", 35), strings.Repeat("1", 100), strings.Repeat("2", 500)}
		// texts in the BIP276 layout with a correct checksum whose scheme is NOT "bitcoin-script":
		// neither Base58Check nor the one scheme ValidateAddress documents
		for _, scheme := range []string{"bitcoin-scripts", "bitcoin-script-v2", "bitcoin-script1A1zP1eP5QGefi2DMPTfTL5SLmv7DivfNa", "Bitcoin-script", "bitcoin-scrip", "xbitcoin-script", "bitcoin-template", "bitcoin-script "} {
			for _, data := range [][]byte{{0x51}, c15Canonical(bytes.Repeat([]byte{0x11}, 20))} {
				free = append(free, refaddr.EncodeBIP276(refaddr.BIP276{Prefix: scheme, Version: 1, Network: 1, Data: data}))
			}
		}
		// well-formed bitcoin-script: texts (carrying a P2PKH script or anything else): an address
		// for ValidateAddress only; and the same text with its own checksum digits repeated behind it
		for _, data := range [][]byte{c15Canonical(bytes.Repeat([]byte{0x22}, 20)), {0x51}, bytes.Repeat([]byte{0xab}, 33)} {
			for _, vn := range []int{1, 2} {
				t := refaddr.EncodeBIP276(refaddr.BIP276{Prefix: "bitcoin-script", Version: vn, Network: vn, Data: data})
				free = append(free, t, t+t[len(t)-8:], t+"00"+t[len(t)-8:], t+hex.EncodeToString(data)+t[len(t)-8:])
			}
		}
		for i, s := range free {
			if c.Case(uint64(i)) {
				str(c, &c15Str{S: s, Class: "free-form"})
			}
		}
	}
	p.Floor = func(a *mon.Agg) string {
		for _, k := range []string{"pos:hash:mainnet", "pos:hash:testnet", "pos:key:mainnet", "pos:key:testnet", "pos:constructors-agree", "pos:script-to-hash-and-address",
			"neg:class:substitute", "neg:class:insert", "neg:class:delete", "neg:class:transpose", "neg:class:wrong-version", "neg:class:payload-19-bytes", "neg:class:payload-21-bytes",
			"neg:class:non-alphabet-char", "neg:class:leading-1-inserted", "neg:class:leading-1-removed", "neg:all-entry-points-rejected", "neg:identity-accepted-by-all",
			"ext:script-compared-with-the-key-at-the-returned-path", "ext:via:NewP2PKHFromBip32ExtKey", "ext:via:Tx.AddP2PKHOutputFromBip32ExtKey", "ext:second-level-odd", "ext:second-level-even"} {
			if a.Cov[k] == 0 {
				return "counter " + k + " is zero"
			}
		}
		return ""
	}
	{ // concurrent callers / readers (concurrent.go), after the sequential phases
		conc, run := concPhase(p, concAddresses), p.Run
		p.Run = func(c *mon.Ctx) { run(c); conc(c) }
	}
	mon.Register(p)
}

var c15PushUses uint64

func c15JudgePos(c *mon.Ctx, in *c15Pos) {
	c.Eval(2) // one evaluation per network
	// what any caller of the public push-data helpers does: take the prefix for an item and
	// append the item to it (the result is the caller's) - before anything is built from an address
	mon.TryQuiet(func() {
		item := bytes.Repeat([]byte{0x33}, 1+int(c15PushUses%75))
		c15PushUses++
		if p, err := bscript.PushDataPrefix(item); err == nil {
			_ = append(p, item...)
		}
		if parts, err := bscript.EncodeParts([][]byte{item}); err == nil {
			_ = append(parts, item...)
		}
	})
	h := []byte(in.Hash)
	var key []byte
	var pub *bec.PublicKey
	kind := "hash"
	if len(in.Priv) > 0 {
		_, pub = bec.PrivKeyFromBytes(bec.S256(), in.Priv)
		key = pub.SerialiseCompressed()
		h = c15Hash160(key)
		kind = "key"
	}
	if len(h) != 20 {
		return
	}
	// hash and key are handed to the library as sub-slices of one larger buffer
	// (guard bytes in between, capacity running on to the end): the library may
	// read its arguments, not write behind or into them
	arena := append(append(append(append(bytes.Repeat([]byte{0xC5}, 8), h...), bytes.Repeat([]byte{0xC6}, 8)...), key...), bytes.Repeat([]byte{0xC7}, 8)...)
	arena0 := append([]byte{}, arena...)
	h = arena[8:28]
	if key != nil {
		key = arena[36 : 36+len(key)]
	}
	defer func() {
		if !bytes.Equal(arena, arena0) {
			c.Violationf("C15:argument-memory-modified", "the buffer holding the key hash / public key handed to the constructors changed: now %x, was %x", arena, arena0)
		}
	}()
	hx := hex.EncodeToString(h)
	canon := c15Canonical(h)
	bad := false
	viol := func(k, f string, a ...any) {
		bad = true
		c.Violationf(k, "%s [hash %s, key %x]", fmt.Sprintf(f, a...), hx, key)
	}
	checkScript := func(entry string, s *bscript.Script, err error) {
		if err != nil || s == nil || !bytes.Equal(*s, canon) {
			var got []byte
			if s != nil {
				got = *s
			}
			viol("C15:constructor-not-canonical:"+entry, "%s returned %x, %v; canonical script is %x", entry, got, err, canon)
		}
	}
	for _, mainnet := range []bool{true, false} {
		ver, net := byte(0x00), "mainnet"
		if !mainnet {
			ver, net = 0x6f, "testnet"
		}
		want := refaddr.CheckEncode(ver, h)
		checkAddr := func(entry string, a *bscript.Address, err error) {
			if err != nil || a == nil || a.AddressString != want || a.PublicKeyHash != hx {
				viol("C15:address-differs:"+entry+":"+net, "%s = %+v, %v; Base58Check(%#02x, hash) is %s", entry, a, err, ver, want)
			}
		}
		var a *bscript.Address
		var err error
		if c.Try("bscript.NewAddressFromPublicKeyHash", func() { a, err = bscript.NewAddressFromPublicKeyHash(h, mainnet) }) {
			checkAddr("NewAddressFromPublicKeyHash", a, err)
		}
		if key != nil {
			if c.Try("bscript.NewAddressFromPublicKeyString", func() { a, err = bscript.NewAddressFromPublicKeyString(c15Spell(hex.EncodeToString(key)), mainnet) }) {
				checkAddr("NewAddressFromPublicKeyString", a, err)
			}
			if c.Try("bscript.NewAddressFromPublicKey", func() { a, err = bscript.NewAddressFromPublicKey(pub, mainnet) }) {
				checkAddr("NewAddressFromPublicKey", a, err)
			}
		}
		// address -> decode gives the hash, validates
		if c.Try("bscript.NewAddressFromString", func() { a, err = bscript.NewAddressFromString(want) }) {
			checkAddr("NewAddressFromString", a, err)
		}
		var ok bool
		if c.Try("bscript.ValidateAddress", func() { ok, err = bscript.ValidateAddress(want) }) && (!ok || err != nil) {
			viol("C15:rejects-valid-address:ValidateAddress:"+net, "ValidateAddress(%s) = %v, %v", want, ok, err)
		}
		// address -> script
		var s *bscript.Script
		if c.Try("bscript.NewP2PKHFromAddress", func() { s, err = bscript.NewP2PKHFromAddress(want) }) && s != nil && err == nil {
			// the caller owns the script: it overwrites it and asks for the same address again
			mon.Scribble(*s)
			if c.Try("bscript.NewP2PKHFromAddress", func() { s, err = bscript.NewP2PKHFromAddress(want) }) {
				checkScript("NewP2PKHFromAddress(asked again):"+net, s, err)
			}
			ptx := bt.NewTx()
			if c.Try("bt.(*Tx).PayToAddress", func() { err = ptx.PayToAddress(want, 1) }) && err == nil && len(ptx.Outputs) == 1 && ptx.Outputs[0].LockingScript != nil {
				mon.Scribble(*ptx.Outputs[0].LockingScript)
			}
		}
		if c.Try("bscript.NewP2PKHFromAddress", func() { s, err = bscript.NewP2PKHFromAddress(want) }) {
			checkScript("NewP2PKHFromAddress:"+net, s, err)
			if s != nil && err == nil {
				scr := s
				c.Retain("script built by NewP2PKHFromAddress", func() []byte { return *scr })
			}
		}
		tx := bt.NewTx()
		if c.Try("bt.(*Tx).PayToAddress", func() { err = tx.PayToAddress(want, 1234) }) {
			if err != nil || len(tx.Outputs) != 1 || tx.Outputs[0].Satoshis != 1234 {
				viol("C15:constructor-not-canonical:Tx.PayToAddress:"+net, "PayToAddress(%s, 1234) = %v, %d outputs", want, err, len(tx.Outputs))
			} else {
				checkScript("Tx.PayToAddress:"+net, tx.Outputs[0].LockingScript, nil)
			}
		}
		atx := bt.NewTx()
		if c.Try("bt.(*Tx).AddP2PKHOutputFromAddress", func() { err = atx.AddP2PKHOutputFromAddress(want, 77) }) {
			if err != nil || len(atx.Outputs) != 1 || atx.Outputs[0].Satoshis != 77 {
				viol("C15:constructor-not-canonical:Tx.AddP2PKHOutputFromAddress:"+net, "AddP2PKHOutputFromAddress(%s, 77) = %v, %d outputs", want, err, len(atx.Outputs))
			} else {
				checkScript("Tx.AddP2PKHOutputFromAddress:"+net, atx.Outputs[0].LockingScript, nil)
			}
		}
		ftx := c15FundedTx()
		if c.Try("bt.(*Tx).ChangeToAddress", func() { err = ftx.ChangeToAddress(want, c15FQ) }) {
			if err != nil || len(ftx.Outputs) != 1 {
				viol("C15:constructor-not-canonical:Tx.ChangeToAddress:"+net, "ChangeToAddress(%s) on a funded tx = %v, %d outputs", want, err, len(ftx.Outputs))
			} else {
				checkScript("Tx.ChangeToAddress:"+net, ftx.Outputs[0].LockingScript, nil)
			}
		}
		c.Count("pos:" + kind + ":" + net)
		c.Distinct(prng.HashBytes(h, []byte{ver}))
	}
	// constructors from hash / key
	var s *bscript.Script
	var err error
	if c.Try("bscript.NewP2PKHFromPubKeyHash", func() { s, err = bscript.NewP2PKHFromPubKeyHash(h) }) {
		checkScript("NewP2PKHFromPubKeyHash", s, err)
		if s != nil && err == nil { // the caller owns the script: it overwrites it and asks again
			mon.Scribble(*s)
			if c.Try("bscript.NewP2PKHFromPubKeyHash", func() { s, err = bscript.NewP2PKHFromPubKeyHash(h) }) {
				checkScript("NewP2PKHFromPubKeyHash(asked again)", s, err)
			}
		}
	}
	if c.Try("bscript.NewP2PKHFromPubKeyHashStr", func() { s, err = bscript.NewP2PKHFromPubKeyHashStr(c15Spell(hx)) }) {
		checkScript("NewP2PKHFromPubKeyHashStr", s, err)
		if s != nil && err == nil { // a script handed out stays what it was whatever is built later
			kept := s
			c.Retain("script built by NewP2PKHFromPubKeyHashStr", func() []byte { return *kept })
		}
	}
	tx := bt.NewTx()
	if c.Try("bt.(*Tx).AddP2PKHOutputFromPubKeyHashStr", func() { err = tx.AddP2PKHOutputFromPubKeyHashStr(c15Spell(hx), 1) }) {
		if err != nil || len(tx.Outputs) != 1 {
			viol("C15:constructor-not-canonical:Tx.AddP2PKHOutputFromPubKeyHashStr", "error %v, %d outputs", err, len(tx.Outputs))
		} else {
			checkScript("Tx.AddP2PKHOutputFromPubKeyHashStr", tx.Outputs[0].LockingScript, nil)
		}
	}
	if key != nil {
		if c.Try("bscript.NewP2PKHFromPubKeyBytes", func() { s, err = bscript.NewP2PKHFromPubKeyBytes(key) }) {
			checkScript("NewP2PKHFromPubKeyBytes", s, err)
		}
		if c.Try("bscript.NewP2PKHFromPubKeyStr", func() { s, err = bscript.NewP2PKHFromPubKeyStr(c15Spell(hex.EncodeToString(key))) }) {
			checkScript("NewP2PKHFromPubKeyStr", s, err)
		}
		if c.Try("bscript.NewP2PKHFromPubKeyEC", func() { s, err = bscript.NewP2PKHFromPubKeyEC(pub) }) {
			checkScript("NewP2PKHFromPubKeyEC", s, err)
		}
		stx := bt.NewTx()
		if c.Try("bt.(*Tx).AddP2PKHOutputFromPubKeyStr", func() { err = stx.AddP2PKHOutputFromPubKeyStr(c15Spell(hex.EncodeToString(key)), 1) }) {
			if err != nil || len(stx.Outputs) != 1 {
				viol("C15:constructor-not-canonical:Tx.AddP2PKHOutputFromPubKeyStr", "error %v, %d outputs", err, len(stx.Outputs))
			} else {
				checkScript("Tx.AddP2PKHOutputFromPubKeyStr", stx.Outputs[0].LockingScript, nil)
			}
		}
		tx := bt.NewTx()
		if c.Try("bt.(*Tx).AddP2PKHOutputFromPubKeyBytes", func() { err = tx.AddP2PKHOutputFromPubKeyBytes(key, 1) }) {
			if err != nil || len(tx.Outputs) != 1 {
				viol("C15:constructor-not-canonical:Tx.AddP2PKHOutputFromPubKeyBytes", "error %v, %d outputs", err, len(tx.Outputs))
			} else {
				checkScript("Tx.AddP2PKHOutputFromPubKeyBytes", tx.Outputs[0].LockingScript, nil)
			}
		}
	}
	ptx := bt.NewTx()
	if c.Try("bt.(*Tx).AddP2PKHOutputFromScript", func() { err = ptx.AddP2PKHOutputFromScript(bscript.NewFromBytes(append([]byte{}, canon...)), 5) }) {
		if err != nil || len(ptx.Outputs) != 1 {
			viol("C15:constructor-not-canonical:Tx.AddP2PKHOutputFromScript", "the canonical P2PKH script is refused: %v, %d outputs", err, len(ptx.Outputs))
		} else {
			checkScript("Tx.AddP2PKHOutputFromScript", ptx.Outputs[0].LockingScript, nil)
		}
	}
	if !bad {
		c.Count("pos:constructors-agree")
	}
	// script -> hash and address
	lib := bscript.NewFromBytes(mon.Exact(canon))
	var got []byte
	if c.Try("bscript.(*Script).PublicKeyHash", func() { got, err = lib.PublicKeyHash() }) {
		if err != nil || !bytes.Equal(got, h) {
			viol("C15:script-to-hash-differs", "PublicKeyHash(%x) = %x, %v", canon, got, err)
		}
	}
	var addrs []string
	if c.Try("bscript.(*Script).Addresses", func() { addrs, err = lib.Addresses() }) {
		want := refaddr.CheckEncode(0x00, h)
		if err != nil || len(addrs) != 1 || addrs[0] != want {
			viol("C15:script-to-address-differs", "Addresses(%x) = %v, %v; want [%s]", canon, addrs, err, want)
		} else {
			c.Count("pos:script-to-hash-and-address")
		}
		// the same script OBJECT now gets the content of another P2PKH script (same
		// length, written in place): hash and address must follow the content
		h2 := append([]byte{}, h...)
		for i := range h2 {
			h2[i] ^= 0x5c
		}
		copy(*lib, c15Canonical(h2))
		var got2 []byte
		var addrs2 []string
		var e1, e2 error
		if c.Try("bscript.(*Script).Addresses", func() { got2, e1 = lib.PublicKeyHash(); addrs2, e2 = lib.Addresses() }) {
			if e1 != nil || e2 != nil || !bytes.Equal(got2, h2) || len(addrs2) != 1 || addrs2[0] != refaddr.CheckEncode(0x00, h2) {
				viol("C15:script-to-address-differs:after-in-place-rewrite", "after the script object was rewritten in place to pay hash %x: PublicKeyHash = %x (%v), Addresses = %v (%v)", h2, got2, e1, addrs2, e2)
			}
		}
	}
	c.Sample("positive:"+kind, 2, func() any {
		return map[string]any{"hash": hx, "key": hex.EncodeToString(key), "mainnet": refaddr.CheckEncode(0, h), "testnet": refaddr.CheckEncode(0x6f, h), "script": hex.EncodeToString(canon)}
	})
}

func c15JudgeStr(c *mon.Ctx, in *c15Str) {
	c.Eval(1)
	s := in.S
	c.Count("neg:class:" + in.Class)
	refHash, _, refOK := refaddr.AddressOK(s)
	reason := ""
	if !refOK {
		reason = c15Reason(s)
		c.Count("neg:reference-rejects:" + reason)
	}
	if in.Origin != "" && s != in.Origin {
		c.Distinct(prng.HashBytes([]byte(s)))
	}
	accepted := 0
	entries := 0
	judge := func(entry string, ok bool, hashHex string, script []byte) {
		entries++
		if !ok {
			if refOK {
				c.Violationf("C15:rejects-valid-address:"+entry, "%s rejects %q, which is valid Base58Check for hash %x", entry, s, refHash)
			}
			return
		}
		accepted++
		if !refOK {
			k := "C15:accepts-" + reason + ":" + entry
			if reason == "non-25-byte" {
				k += ":" + in.Class
			}
			if c15Seen[k] { // later occurrences only count; spare the formatting
				c.Violation(k, "")
				return
			}
			c15Seen[k] = true
			extra := ""
			if hashHex != "" {
				extra = fmt.Sprintf("; library took hash %s", hashHex)
			}
			if script != nil {
				extra += fmt.Sprintf("; built script %x", script)
			}
			orig := ""
			if oh, _, ok := refaddr.AddressOK(in.Origin); ok {
				orig = fmt.Sprintf(" (derived from %s, hash %x, class %s)", in.Origin, oh, in.Class)
			}
			c.Violationf(k, "%s accepts %q%s: reference Base58Check rejects it (%s)%s", entry, s, orig, reason, extra)
			return
		}
		if hashHex != "" && hashHex != hex.EncodeToString(refHash) {
			c.Violationf("C15:decoded-hash-differs:"+entry, "%s(%q) gives hash %s, Base58Check payload is %x", entry, s, hashHex, refHash)
		}
		if script != nil && !bytes.Equal(script, c15Canonical(refHash)) {
			c.Violationf("C15:constructor-not-canonical:"+entry, "%s(%q) built %x, canonical script is %x", entry, s, script, c15Canonical(refHash))
		}
	}
	var ok bool
	var err error
	if c.Try("bscript.ValidateAddress", func() { ok, err = bscript.ValidateAddress(s) }) {
		if strings.HasPrefix(s, "bitcoin-script:") {
			// the one other form ValidateAddress documents: valid exactly when it is a BIP276 text
			// (C17 judges that relation in depth); every OTHER entry point below must refuse it
			_, rerr := refaddr.DecodeBIP276(s)
			c.Count("neg:bitcoin-script-text")
			if (ok && err == nil) != (rerr == nil) {
				c.Violationf("C15:ValidateAddress-differs-on-bitcoin-script-text", "ValidateAddress(%q) = %v, %v; as a BIP276 text the reference decoder says %v", s, ok, err, rerr)
			}
		} else {
			judge("ValidateAddress", ok && err == nil, "", nil)
		}
	}
	var a *bscript.Address
	if c.Try("bscript.NewAddressFromString", func() { a, err = bscript.NewAddressFromString(s) }) {
		hh := ""
		if err == nil && a != nil {
			hh = a.PublicKeyHash
		}
		judge("NewAddressFromString", err == nil, hh, nil)
	}
	var scr *bscript.Script
	if c.Try("bscript.NewP2PKHFromAddress", func() { scr, err = bscript.NewP2PKHFromAddress(s) }) {
		var b []byte
		if err == nil && scr != nil {
			b = *scr
		}
		judge("NewP2PKHFromAddress", err == nil, "", b)
	}
	tx := bt.NewTx()
	if c.Try("bt.(*Tx).PayToAddress", func() { err = tx.PayToAddress(s, 1000) }) {
		var b []byte
		if err == nil && len(tx.Outputs) == 1 {
			b = *tx.Outputs[0].LockingScript
		}
		judge("Tx.PayToAddress", err == nil, "", b)
	}
	ftx := c15FundedTx()
	if c.Try("bt.(*Tx).ChangeToAddress", func() { err = ftx.ChangeToAddress(s, c15FQ) }) {
		var b []byte
		if err == nil && len(ftx.Outputs) == 1 {
			b = *ftx.Outputs[0].LockingScript
		}
		judge("Tx.ChangeToAddress", err == nil, "", b)
	}
	btx := c15FundedTx() // a transaction whose outputs already take everything the inputs bring: nothing to give back, the address must be checked all the same
	_ = btx.PayTo(bscript.NewFromBytes(c15Canonical(bytes.Repeat([]byte{0x33}, 20))), 100000)
	if c.Try("bt.(*Tx).ChangeToAddress", func() { err = btx.ChangeToAddress(s, c15FQ) }) {
		judge("Tx.ChangeToAddress", err == nil, "", nil) // same entry point (and the same known checksum finding) as below
	}
	atx := bt.NewTx()
	if c.Try("bt.(*Tx).AddP2PKHOutputFromAddress", func() { err = atx.AddP2PKHOutputFromAddress(s, 1000) }) {
		var b []byte
		if err == nil && len(atx.Outputs) == 1 {
			b = *atx.Outputs[0].LockingScript
		}
		judge("Tx.AddP2PKHOutputFromAddress", err == nil, "", b)
	}
	switch {
	case accepted == 0 && !refOK:
		c.Count("neg:all-entry-points-rejected")
	case refOK && accepted == entries && in.Class == "identity":
		c.Count("neg:identity-accepted-by-all")
	case refOK && s != in.Origin:
		c.Count("neg:mutation-is-itself-valid")
		c.Info("mutation_that_is_itself_a_valid_address", map[string]any{"string": s, "origin": in.Origin, "class": in.Class, "hash": hex.EncodeToString(refHash)})
	}
	if in.Class != "substitute" && in.Class != "insert" {
		c.Sample("string:"+in.Class, 1, func() any {
			return map[string]any{"string": s, "origin": in.Origin, "class": in.Class, "reference_accepts": refOK, "reference_reason": reason, "library_entry_points_accepting": accepted}
		})
	}
}

// c15HashWithZeroDigits returns a 20-byte hash whose Base58Check text for the
// given version byte has zero digits ('1' characters) exactly at the positions
// start .. start+run-1 counted from the end of the text, and non-zero digits
// next to them (nil when the construction does not land on the version byte).
// The checksum only reaches the last six characters (2^33 < 58^6), so the
// digits from position 6 on are fixed by version and hash alone.
func c15HashWithZeroDigits(r *prng.R, ver byte, start, run int) []byte {
	b58 := big.NewInt(58)
	base := new(big.Int).SetBytes(append([]byte{ver}, r.Bytes(24)...)) // a random 25-byte number with this version byte
	if ver == 0 {
		base.SetBytes(append([]byte{0, byte(1 + r.Intn(200))}, r.Bytes(23)...))
	}
	// digits of base, least significant first
	var d []int64
	for x := new(big.Int).Set(base); x.Sign() > 0; {
		m := new(big.Int)
		x.DivMod(x, b58, m)
		d = append(d, m.Int64())
	}
	if start+run+1 >= len(d) {
		return nil
	}
	for i := 6; i < len(d)-3; i++ { // keep the top digits (they carry the version byte)
		if i >= start && i < start+run {
			d[i] = 0
		} else if d[i] == 0 || i == start-1 || i == start+run {
			d[i] = int64(1 + r.Intn(57))
		}
	}
	m := new(big.Int)
	for i := len(d) - 1; i >= 6; i-- {
		m.Mul(m, b58)
		m.Add(m, big.NewInt(d[i]))
	}
	m.Mul(m, new(big.Int).Exp(b58, big.NewInt(6), nil))
	a := new(big.Int).Add(m, new(big.Int).Sub(new(big.Int).Lsh(big.NewInt(1), 32), big.NewInt(1)))
	a.Rsh(a, 32) // ceil(m / 2^32): version byte and hash
	ab := a.Bytes()
	full := make([]byte, 21)
	if len(ab) > 21 {
		return nil
	}
	copy(full[21-len(ab):], ab)
	if full[0] != ver {
		return nil
	}
	// confirm on the reference encoding that the run is where it was asked for
	text := refaddr.CheckEncode(ver, full[1:])
	for i := 0; i < run; i++ {
		if k := len(text) - 1 - (start + i); k < 0 || text[k] != '1' {
			return nil
		}
	}
	return full[1:]
}

var c15Spelled int

// c15Spell writes a hex string as callers may: lower case (what the standard
// encoder emits), upper case, or mixed - the bytes meant are the same.
func c15Spell(h string) string {
	c15Spelled++
	switch c15Spelled % 5 { // (the call sites per case are a multiple of two: an odd cycle moves every site through every spelling)
	case 1, 4:
		return strings.ToUpper(h)
	case 2:
		b := []byte(h)
		for i := range b {
			if i%3 == 0 && b[i] >= 'a' && b[i] <= 'f' {
				b[i] -= 'a' - 'A'
			}
		}
		return string(b)
	}
	return h
}

// c15Ext: a BIP32 master key (from Seed) handed Calls times to the two entry points that build a
// P2PKH script below an extended key. The path is drawn by the library (crypto/rand); the oracle
// judges each answer by itself: walk the RETURNED path with the key-derivation primitive
// (go-bk's ExtendedKey.Child, level by level from the decimal numbers of the path), hash the key
// found there, and compare with the script.
type c15Ext struct {
	Seed    mon.Hex `json:"seed"`
	Testnet bool    `json:"testnet,omitempty"`
	Calls   int     `json:"calls"`
}

func c15JudgeExtKey(c *mon.Ctx, in *c15Ext) {
	net := &chaincfg.MainNet
	if in.Testnet {
		net = &chaincfg.TestNet
	}
	master, err := bip32.NewMaster(in.Seed, net)
	if err != nil {
		c.Count("ext:skipped:seed-unusable")
		return
	}
	calls := in.Calls
	if calls <= 0 || calls > 4096 {
		calls = 24
	}
	for k := 0; k < calls; k++ {
		c.Eval(1)
		var script *bscript.Script
		var path, via string
		var cerr error
		if k%2 == 0 {
			via = "NewP2PKHFromBip32ExtKey"
			if !c.Try("bscript.NewP2PKHFromBip32ExtKey", func() { script, path, cerr = bscript.NewP2PKHFromBip32ExtKey(master) }) {
				return
			}
		} else {
			via = "Tx.AddP2PKHOutputFromBip32ExtKey"
			tx := bt.NewTx()
			if !c.Try("bt.(*Tx).AddP2PKHOutputFromBip32ExtKey", func() { path, cerr = tx.AddP2PKHOutputFromBip32ExtKey(master, 1000+uint64(k)) }) {
				return
			}
			if cerr == nil {
				if len(tx.Outputs) != 1 || tx.Outputs[0] == nil || tx.Outputs[0].LockingScript == nil || tx.Outputs[0].Satoshis != 1000+uint64(k) {
					c.Violationf("C15:ext-key:output-not-added", "AddP2PKHOutputFromBip32ExtKey returned path %q and no error, outputs: %d", path, len(tx.Outputs))
					return
				}
				script = tx.Outputs[0].LockingScript
			}
		}
		if cerr != nil {
			c.Violationf("C15:ext-key:error:"+via, "%s failed for a master key from seed %x: %v", via, []byte(in.Seed), cerr)
			return
		}
		c.Count("ext:via:" + via)
		levels := strings.Split(path, "/")
		key := master
		ok := len(levels) > 0
		for li, l := range levels {
			n, perr := strconv.ParseUint(l, 10, 32)
			if perr != nil {
				ok = false
				break
			}
			if li == 1 {
				if n%2 == 1 {
					c.Count("ext:second-level-odd")
				} else {
					c.Count("ext:second-level-even")
				}
			}
			if key, perr = key.Child(uint32(n)); perr != nil {
				ok = false
				break
			}
		}
		if !ok {
			c.Count("ext:path-not-walkable(not judged)")
			continue
		}
		pub, perr := key.ECPubKey()
		if perr != nil {
			c.Count("ext:path-not-walkable(not judged)")
			continue
		}
		h := c15Hash160(pub.SerialiseCompressed())
		want := c15Canonical(h)
		c.Count("ext:script-compared-with-the-key-at-the-returned-path")
		if script == nil || !bytes.Equal(*script, want) {
			got := []byte(nil)
			if script != nil {
				got = *script
			}
			c.Violationf("C15:ext-key:script-is-not-for-the-key-at-the-returned-path:"+via, "%s(master from seed %x) returned path %q and script %x; the key at that path is %x, its canonical P2PKH script %x",
				via, []byte(in.Seed), path, got, pub.SerialiseCompressed(), want)
			continue
		}
		// the same key through the other constructors
		var s2 *bscript.Script
		var e2 error
		if c.Try("bscript.NewP2PKHFromPubKeyBytes", func() { s2, e2 = bscript.NewP2PKHFromPubKeyBytes(pub.SerialiseCompressed()) }) && (e2 != nil || s2 == nil || !bytes.Equal(*s2, want)) {
			c.Violationf("C15:ext-key:constructors-differ", "NewP2PKHFromPubKeyBytes(%x) = %v, %v; want %x", pub.SerialiseCompressed(), s2, e2, want)
		}
		c.Distinct(prng.HashBytes(in.Seed, []byte(path)))
	}
}
