package main

import (
	"bufio"
	"bytes"
	"crypto/sha256"
	"encoding/hex"
	"encoding/json"
	"fmt"
	"io"
	"runtime"
	"runtime/debug"
	"sort"
	"strings"

	"github.com/libsv/go-bt/v2"
	"github.com/libsv/go-bt/v2/bscript"

	"verif/internal/gen"
	"verif/internal/mon"
	"verif/internal/prng"
	"verif/internal/refcodec"
)

// C09 — decoding untrusted bytes is total and resource-bounded. DESIGN §3 C09.

// c09Bin is one byte string for one binary decoder entry point.
type c09Bin struct {
	Entry string  `json:"entry"`
	Bytes mon.Hex `json:"bytes"`
	Class string  `json:"class"`
	Chunk int     `json:"chunk,omitempty"` // the counting reader hands out at most this many bytes per Read (0 = as many as asked)
	Claim uint64  `json:"claim,omitempty"` // the length / count the crafted varint claims (0 = not a crafted claim)
	// Honest: Bytes is empty and the input is built here: a well-formed
	// transaction / input / output whose script really is this many bytes long
	Honest int `json:"honest_script_bytes,omitempty"`
}

// c09HonestBytes builds the honest large input for an entry point kind.
func c09HonestBytes(kind string, n int) []byte {
	script := make([]byte, n)
	for i := range script {
		script[i] = byte(i*7 + i>>8)
	}
	t := &refcodec.Tx{Version: 1, Ins: []refcodec.In{{PrevHash: make([]byte, 32), Script: []byte{0x51}, Seq: 0xffffffff}}, Outs: []refcodec.Out{{Sats: 1, Script: script}}}
	if kind == "in" || kind == "in-ext" {
		t.Ins[0].Script = script
		t.Outs[0].Script = []byte{0x51}
	}
	cb := &c09Base{t: t, b: refcodec.Encode(t, false, nil)}
	return cb.forKind(kind)
}

// c09Doc is one JSON document for one JSON decoder entry point.
type c09Doc struct {
	Entry string `json:"entry"`
	Doc   string `json:"doc"`
	Class string `json:"class"`
}

// c09Result is what a binary entry point reported.
type c09Result struct {
	used      int64 // bytes the entry point says it consumed (-1: it does not say)
	delivered int64 // bytes the reader handed out (-1: no reader)
	err       error
	neither   bool // the entry point returned a nil value AND a nil error
}

type c09Counting struct {
	r       *bytes.Reader
	n       int64
	chunk   int
	stutter bool
	calls   int
}

func (c *c09Counting) Read(p []byte) (int, error) {
	if c.calls++; c.stutter && c.calls%2 == 1 && len(p) > 0 {
		return 0, nil
	}
	if c.chunk > 0 && len(p) > c.chunk {
		p = p[:c.chunk]
	}
	n, err := c.r.Read(p)
	c.n += int64(n)
	return n, err
}

// binary entry points. kind is the wire structure the entry point decodes
// (what refcodec.Scan understands).
type c09BinEntry struct {
	name, kind string
	f          func(b []byte, chunk int) c09Result
}

// c09Reader: chunk >= 0 selects the counting reader (a type the library cannot
// know); negative values hand the library the concrete standard readers, whose
// types a decoder might special-case: -1 *bytes.Reader, -2 *bytes.Buffer,
// -3 *bufio.Reader, -4 *strings.Reader; -5 is a counting reader that answers every other call with (0, nil). For those, "delivered" is what is
// missing from the reader afterwards.
func c09Reader(f func(r io.Reader) (int64, error)) func(b []byte, chunk int) c09Result {
	return func(b []byte, chunk int) c09Result {
		switch chunk {
		case -1:
			r := bytes.NewReader(b)
			n, err := f(r)
			return c09Result{used: n, delivered: int64(len(b) - r.Len()), err: err}
		case -2:
			r := bytes.NewBuffer(append([]byte{}, b...))
			n, err := f(r)
			return c09Result{used: n, delivered: int64(len(b) - r.Len()), err: err}
		case -3:
			under := bytes.NewReader(b)
			r := bufio.NewReaderSize(under, 16)
			n, err := f(r)
			return c09Result{used: n, delivered: int64(len(b) - under.Len() - r.Buffered()), err: err}
		case -4:
			r := strings.NewReader(string(b))
			n, err := f(r)
			return c09Result{used: n, delivered: int64(len(b) - r.Len()), err: err}
		case -5:
			// a reader that now and then has nothing to hand over yet and says so with (0, nil),
			// as the io.Reader contract allows (a pipe after an empty write does it)
			r := &c09Counting{r: bytes.NewReader(b), chunk: 2, stutter: true}
			n, err := f(r)
			return c09Result{used: n, delivered: r.n, err: err}
		}
		r := &c09Counting{r: bytes.NewReader(b), chunk: chunk}
		n, err := f(r)
		return c09Result{used: n, delivered: r.n, err: err}
	}
}

var c09BinEntries = []c09BinEntry{
	{"NewTxFromBytes", "tx", func(b []byte, _ int) c09Result {
		tx, err := bt.NewTxFromBytes(b)
		return c09Result{-1, -1, err, tx == nil && err == nil}
	}},
	{"NewTxFromStream", "tx", func(b []byte, _ int) c09Result {
		tx, used, err := bt.NewTxFromStream(b)
		return c09Result{int64(used), -1, err, tx == nil && err == nil}
	}},
	{"NewTxFromString", "tx", func(b []byte, _ int) c09Result {
		tx, err := bt.NewTxFromString(hex.EncodeToString(b))
		return c09Result{-1, -1, err, tx == nil && err == nil}
	}},
	{"Tx.ReadFrom", "tx", c09Reader(func(r io.Reader) (int64, error) { return new(bt.Tx).ReadFrom(r) })},
	{"Txs.ReadFrom", "list", c09Reader(func(r io.Reader) (int64, error) { return new(bt.Txs).ReadFrom(r) })},
	{"Input.ReadFrom", "in", c09Reader(func(r io.Reader) (int64, error) { return new(bt.Input).ReadFrom(r) })},
	{"Input.ReadFromExtended", "in-ext", c09Reader(func(r io.Reader) (int64, error) { return new(bt.Input).ReadFromExtended(r) })},
	{"Output.ReadFrom", "out", c09Reader(func(r io.Reader) (int64, error) { return new(bt.Output).ReadFrom(r) })},
}

func c09BinEntryByName(n string) *c09BinEntry {
	for i := range c09BinEntries {
		if c09BinEntries[i].name == n {
			return &c09BinEntries[i]
		}
	}
	return nil
}

var c09JSONEntries = []struct {
	name string
	f    func(doc []byte) error
}{
	// the destination is a new value, or one that already holds something (what an earlier
	// document left there, nil entries of a list made with make)
	{"json:Tx", func(d []byte) error {
		tx := bt.Tx{}
		if len(d)%3 == 1 {
			tx = *c01Dirty()
		}
		return json.Unmarshal(d, &tx)
	}},
	{"json:Tx.NodeJSON", func(d []byte) error {
		tx := bt.NewTx()
		if len(d)%3 == 1 {
			tx = c01Dirty()
		}
		return json.Unmarshal(d, tx.NodeJSON())
	}},
	{"json:Txs.NodeJSON", func(d []byte) error {
		var txs bt.Txs
		switch len(d) % 4 {
		case 1:
			txs = make(bt.Txs, 3)
		case 2:
			_ = json.Unmarshal([]byte("[null]"), &txs)
		case 3:
			txs = bt.Txs{c01Dirty(), nil}
		}
		return json.Unmarshal(d, txs.NodeJSON())
	}},
	{"json:Output", func(d []byte) error { var o bt.Output; return json.Unmarshal(d, &o) }},
	{"json:Output.NodeJSON", func(d []byte) error { o := &bt.Output{}; return json.Unmarshal(d, o.NodeJSON()) }},
	{"json:UTXO", func(d []byte) error { var u bt.UTXO; return json.Unmarshal(d, &u) }},
	{"json:UTXO.NodeJSON", func(d []byte) error { u := &bt.UTXO{}; return json.Unmarshal(d, u.NodeJSON()) }},
	{"json:FeeQuote", func(d []byte) error {
		fq := bt.NewFeeQuote()
		err := json.Unmarshal(d, fq)
		// a decoded quote is used: every operation on it returns (C18 covers the values)
		_, _ = fq.Fee(bt.FeeTypeStandard)
		_, _ = fq.Fee(bt.FeeTypeData)
		fq.AddQuote(bt.FeeTypeData, &bt.Fee{FeeType: bt.FeeTypeData, MiningFee: bt.FeeUnit{Satoshis: 1, Bytes: 2}, RelayFee: bt.FeeUnit{Satoshis: 1, Bytes: 2}})
		_, _ = json.Marshal(fq)
		return err
	}},
	{"json:UTXOs.NodeJSON", func(d []byte) error {
		var us bt.UTXOs
		if len(d)%3 == 1 {
			us = make(bt.UTXOs, 2)
		}
		return json.Unmarshal(d, us.NodeJSON())
	}},
}

// Direct calls of the UnmarshalJSON methods (json.Unmarshaler), without
// encoding/json's own syntax check in front of them.
type c09Direct struct {
	Target string `json:"target"`
	Raw    string `json:"raw"`
}

var c09DirectTargets = []struct {
	name string
	mk   func() json.Unmarshaler
}{
	{"Tx", func() json.Unmarshaler { return bt.NewTx() }},
	{"Tx.NodeJSON", func() json.Unmarshaler { u, _ := bt.NewTx().NodeJSON().(json.Unmarshaler); return u }},
	{"Txs.NodeJSON", func() json.Unmarshaler { var t bt.Txs; u, _ := t.NodeJSON().(json.Unmarshaler); return u }},
	{"Output", func() json.Unmarshaler { return &bt.Output{} }},
	{"Output.NodeJSON", func() json.Unmarshaler { u, _ := (&bt.Output{}).NodeJSON().(json.Unmarshaler); return u }},
	{"UTXO", func() json.Unmarshaler { return &bt.UTXO{} }},
	{"UTXO.NodeJSON", func() json.Unmarshaler { u, _ := (&bt.UTXO{}).NodeJSON().(json.Unmarshaler); return u }},
	{"UTXOs.NodeJSON", func() json.Unmarshaler { var t bt.UTXOs; u, _ := t.NodeJSON().(json.Unmarshaler); return u }},
	{"Input", func() json.Unmarshaler { return &bt.Input{} }},
	{"Script", func() json.Unmarshaler { return &bscript.Script{} }},
	{"FeeQuote", func() json.Unmarshaler { return bt.NewFeeQuote() }},
}

func c09JudgeDirect(c *mon.Ctx, in *c09Direct) {
	for _, t := range c09DirectTargets {
		if t.name != in.Target {
			continue
		}
		u := t.mk()
		if u == nil {
			c.Count("json-direct:not-an-unmarshaler:" + t.name)
			return
		}
		c.Eval(1)
		var err error
		if c.Try("json-direct:"+t.name, func() { err = u.UnmarshalJSON([]byte(in.Raw)) }) {
			if err != nil {
				c.Count("json-direct:returned-error:" + t.name)
			} else {
				c.Count("json-direct:returned-value:" + t.name)
			}
			c.Distinct(prng.HashBytes([]byte("direct"), []byte(t.name), []byte(in.Raw)))
		}
		return
	}
	c.Fault("unknown direct target " + in.Target)
}

// ---------------------------------------------------------------- allocation meter

const c09Slack = 64 << 10

func c09Bound(n int) uint64 { return 64*uint64(n) + c09Slack }

var c09Warm bool

// c09WarmUp runs every entry point once on a well-formed input so that
// one-time costs (encoding/json's per-type caches, lazily built tables) are not
// charged to the first judged call.
func c09WarmUp() {
	if c09Warm {
		return
	}
	c09Warm = true
	base := c09Corpus(0, 2)
	for _, e := range c09BinEntries {
		for _, cb := range base {
			b := cb.forKind(e.kind)
			mon.TryQuiet(func() { e.f(b, 0) })
			mon.TryQuiet(func() { e.f(b[:len(b)/2], 1) })
		}
	}
	docs := c09ValidDocs(base[1].t)
	for _, e := range c09JSONEntries {
		for _, d := range docs[e.name] {
			mon.TryQuiet(func() { e.f([]byte(jrender(d))) })
		}
		mon.TryQuiet(func() { e.f([]byte(`{"a":[1,"x",null,{"b":1.5e3}]`)) })
	}
}

// c09Metered runs f under the recover monitor between two TotalAlloc readings.
func c09Metered(c *mon.Ctx, entry string, f func()) (ok bool, alloc uint64) {
	var m0, m1 runtime.MemStats
	e0 := mon.SelfExams.Load()
	runtime.ReadMemStats(&m0)
	ok = c.Try(entry, f)
	runtime.ReadMemStats(&m1)
	if mon.SelfExams.Load() != e0 {
		// the child's own examiner (a goroutine dump) ran during the call: its allocations are not the library's
		c.Count("meter:discarded:the-child's-examiner-ran-during-the-call")
		return ok, 0
	}
	return ok, m1.TotalAlloc - m0.TotalAlloc
}

func c09JudgeAlloc(c *mon.Ctx, entry string, inLen int, alloc uint64, what string) {
	c.Count("meter:measured")
	bound := c09Bound(inLen)
	c.Max("max:alloc-bytes", float64(alloc))
	c.Max("max:alloc/bound", float64(alloc)/float64(bound))
	if alloc > bound {
		c.Violationf("C09:alloc-unbounded:"+entry, "%s allocated %d bytes while decoding a %d-byte input (bound 64*len+64KiB = %d): %s", entry, alloc, inLen, bound, what)
	}
}

// ---------------------------------------------------------------- judges

func c09JudgeBin(c *mon.Ctx, in *c09Bin) {
	e := c09BinEntryByName(in.Entry)
	if e == nil {
		c.Fault("unknown entry point " + in.Entry)
		return
	}
	c09WarmUp()
	c.Eval(1)
	cls := in.Class
	if i := strings.IndexByte(cls, ':'); i >= 0 {
		cls = cls[:i]
	}
	c.Count("bin:" + e.name + ":" + cls)
	b := []byte(in.Bytes)
	if in.Honest > 0 && len(b) == 0 {
		b = c09HonestBytes(e.kind, in.Honest)
		c.Max("max:honest-script-bytes", float64(in.Honest))
	}
	if in.Claim > 0 {
		c.Max("max:claimed-length", float64(in.Claim))
	}
	var res c09Result
	ok, alloc := c09Metered(c, e.name, func() { res = e.f(b, in.Chunk) })
	if !ok {
		c.Count("bin:panicked:" + e.name)
		return
	}
	what := fmt.Sprintf("class %s, input %s", in.Class, clip(b))
	if res.used >= 0 {
		if res.used > int64(len(b)) {
			c.Violationf("C09:consumed>supplied:"+e.name, "%s reports %d bytes consumed from a %d-byte input (error: %v); %s", e.name, res.used, len(b), res.err, what)
		} else if res.delivered >= 0 && res.used > res.delivered {
			c.Violationf("C09:consumed>delivered:"+e.name, "%s reports %d bytes consumed, the reader delivered %d of %d (error: %v); %s", e.name, res.used, res.delivered, len(b), res.err, what)
		} else {
			c.Count("consumed:within-bounds:" + e.name)
		}
	}
	if res.delivered > int64(len(b)) {
		c.Fault("counting reader delivered more than it holds")
	}
	if res.neither {
		c.Violationf("C09:neither-value-nor-error:"+e.name, "%s returned a nil transaction and a nil error; %s", e.name, what)
	}
	c09JudgeAlloc(c, e.name, len(b), alloc, what)
	if res.err != nil {
		c.Count("bin:returned-error:" + e.name)
	} else {
		c.Count("bin:returned-value:" + e.name)
	}
	if cls != "valid" {
		c.Distinct(prng.HashBytes([]byte(e.name), b, []byte{byte(in.Chunk)}))
		if len(b) <= 120 {
			c.Sample("bin:"+cls, 1, func() any {
				return map[string]any{"input": in, "consumed": res.used, "delivered": res.delivered, "error": fmt.Sprint(res.err), "allocated": alloc}
			})
		}
	}
}

func c09JudgeDoc(c *mon.Ctx, in *c09Doc) {
	c09WarmUp()
	for _, e := range c09JSONEntries {
		if e.name != in.Entry {
			continue
		}
		c.Eval(1)
		cls := in.Class
		if i := strings.IndexByte(cls, ':'); i >= 0 {
			cls = cls[:i]
		}
		c.Count(e.name + ":" + cls)
		var err error
		ok, alloc := c09Metered(c, e.name, func() { err = e.f([]byte(in.Doc)) })
		if !ok {
			c.Count("json:panicked:" + e.name)
			return
		}
		doc := in.Doc
		if len(doc) > 300 {
			doc = doc[:300] + "…"
		}
		c09JudgeAlloc(c, e.name, len(in.Doc), alloc, "class "+in.Class+", document "+doc)
		if err != nil {
			c.Count("json:returned-error:" + e.name)
		} else {
			c.Count("json:returned-value:" + e.name)
		}
		if cls != "valid" {
			c.Distinct(prng.HashBytes([]byte(e.name), []byte(in.Doc)))
			if len(in.Doc) <= 200 {
				c.Sample("json:"+cls, 1, func() any { return map[string]any{"input": in, "error": fmt.Sprint(err), "allocated": alloc} })
			}
		}
		return
	}
	c.Fault("unknown entry point " + in.Entry)
}

// ---------------------------------------------------------------- corpus

type c09Base struct {
	t   *refcodec.Tx
	ext bool
	b   []byte
	fs  []refcodec.Field
}

// forKind returns a well-formed byte string of the given wire kind derived from
// this corpus transaction.
func (cb *c09Base) forKind(kind string) []byte {
	switch kind {
	case "list":
		b, _ := refcodec.EncodeList([]*refcodec.Tx{cb.t, cb.t}, []bool{cb.ext, !cb.ext}, nil)
		return b
	case "in", "in-ext":
		in := refcodec.In{PrevHash: make([]byte, 32), Script: []byte{0x51}, PrevScript: []byte{0x52, 0x53}}
		if len(cb.t.Ins) > 0 {
			in = cb.t.Ins[len(cb.t.Ins)-1]
		}
		b, _ := refcodec.EncodeIn(&in, kind == "in-ext", nil)
		return b
	case "out":
		o := refcodec.Out{Sats: 1, Script: []byte{0x6a, 0x01, 0x02}}
		if len(cb.t.Outs) > 0 {
			o = cb.t.Outs[len(cb.t.Outs)-1]
		}
		b, _ := refcodec.EncodeOut(&o, nil)
		return b
	}
	return cb.b
}

// c09Corpus is the set of valid transactions everything is derived from; a pure
// function of the seed. Even indices are standard, odd ones extended format.
func c09Corpus(seed uint64, n int) []*c09Base {
	var out []*c09Base
	for i := 0; i < n; i++ {
		r := prng.New(seed, "C09/corpus", uint64(i))
		opts := gen.ShapeOpts{MaxIns: 3, MaxOuts: 3, AllowNil: true, ScriptLens: []int{0, 1, 75, 76, 252, 253, 300}}
		switch i % 20 {
		case 2, 3:
			opts.MinIns = 1
		case 16, 17: // a count above 252
			opts = gen.ShapeOpts{MinIns: 253, MaxIns: 254, MaxOuts: 2}
		case 18, 19: // a 5-byte (18) / 3-byte (19) script length
			opts.MinIns = 1
		}
		s := gen.RandShape(r, opts)
		switch i % 20 {
		case 2, 3:
			if len(s.Outs) == 0 {
				s.Outs = append(s.Outs, gen.Out{Sats: gen.U64(r), Script: gen.P2PKH(r.Bytes(20))})
			}
		case 16, 17:
			for k := range s.Ins {
				s.Ins[k].Unlock, s.Ins[k].PrevScript = r.Bytes(r.Intn(3)), r.Bytes(r.Intn(3))
			}
		case 18, 19:
			if i%20 == 18 {
				s.Ins[0].Unlock = r.Bytes(65536)
			} else {
				s.Outs = append(s.Outs, gen.Out{Sats: 1, Script: r.Bytes(65535)})
			}
		case 14, 15:
			s.Ins, s.Outs = nil, nil
			if s.Ambiguous() {
				s.LockTime = 1
			}
		}
		cb := &c09Base{t: c01Ref(s), ext: i%2 == 1}
		cb.b, cb.fs = refcodec.EncodeTrace(cb.t, cb.ext, nil)
		out = append(out, cb)
	}
	return out
}

// c09Danger is the number of bytes the decoder of the given kind would be
// asked to allocate for the largest length or count b claims; claims the Go
// runtime refuses outright (more than 2^48 bytes: makeslice panics) count as 0.
func c09Danger(kind string, b []byte) uint64 {
	var worst uint64
	for _, f := range refcodec.Scan(kind, b) {
		var n uint64
		switch f.Kind {
		case "unlock-len", "prev-len", "lock-len":
			n = f.Value
		case "list-count":
			if f.Value > 1<<60 {
				continue
			}
			n = f.Value * 8
		default:
			continue
		}
		if n > 1<<48 {
			continue
		}
		if n > worst {
			worst = n
		}
	}
	return worst
}

func c09Splice(b []byte, f refcodec.Field, v uint64) []byte {
	out := append([]byte{}, b[:f.Off]...)
	out = refcodec.AppendVarint(out, v, 0)
	return append(out, b[f.Off+f.Width:]...)
}

// positions at which prefixes of a long encoding are taken
func c09Cuts(n int, fs []refcodec.Field) []int {
	if n <= 1200 {
		cuts := make([]int, n)
		for i := range cuts {
			cuts[i] = i
		}
		return cuts
	}
	set := map[int]bool{}
	for i := 0; i < 150; i++ {
		set[i] = true
		set[n-1-i] = true
	}
	for i := 150; i < n; i += 997 {
		set[i] = true
	}
	for k, f := range fs {
		if k < 6 || k >= len(fs)-6 {
			for d := -2; d <= f.Width+1; d++ {
				if p := f.Off + d; p >= 0 && p < n {
					set[p] = true
				}
			}
		}
	}
	cuts := make([]int, 0, len(set))
	for p := range set {
		cuts = append(cuts, p)
	}
	sort.Ints(cuts)
	return cuts
}

// ---------------------------------------------------------------- JSON documents

type jkv struct {
	k string
	v any
}
type jobj []jkv
type jarr []any
type jlit string // rendered verbatim (numbers, null, true, …)

func jrender(v any) string {
	var sb strings.Builder
	var w func(v any)
	w = func(v any) {
		switch x := v.(type) {
		case jobj:
			sb.WriteByte('{')
			for i, kv := range x {
				if i > 0 {
					sb.WriteByte(',')
				}
				kb, _ := json.Marshal(kv.k)
				sb.Write(kb)
				sb.WriteByte(':')
				w(kv.v)
			}
			sb.WriteByte('}')
		case jarr:
			sb.WriteByte('[')
			for i, e := range x {
				if i > 0 {
					sb.WriteByte(',')
				}
				w(e)
			}
			sb.WriteByte(']')
		case jlit:
			sb.WriteString(string(x))
		case string:
			sb2, _ := json.Marshal(x)
			sb.Write(sb2)
		default:
			sb.WriteString("null")
		}
	}
	w(v)
	return sb.String()
}

// jpaths lists the path of every node below the root.
func jpaths(v any, prefix []int, out *[][]int) {
	var kids []any
	switch x := v.(type) {
	case jobj:
		for _, kv := range x {
			kids = append(kids, kv.v)
		}
	case jarr:
		kids = x
	}
	for i, k := range kids {
		p := append(append([]int{}, prefix...), i)
		*out = append(*out, p)
		jpaths(k, p, out)
	}
}

// jedit returns a copy of v in which the node at path is replaced by repl, or
// removed when remove is set.
func jedit(v any, path []int, repl any, remove bool) any {
	if len(path) == 0 {
		return repl
	}
	i := path[0]
	switch x := v.(type) {
	case jobj:
		var o jobj
		for k, kv := range x {
			if k == i {
				if len(path) == 1 && remove {
					continue
				}
				o = append(o, jkv{kv.k, jedit(kv.v, path[1:], repl, remove)})
			} else {
				o = append(o, kv)
			}
		}
		if o == nil {
			o = jobj{}
		}
		return o
	case jarr:
		a := jarr{}
		for k, e := range x {
			if k == i {
				if len(path) == 1 && remove {
					continue
				}
				a = append(a, jedit(e, path[1:], repl, remove))
			} else {
				a = append(a, e)
			}
		}
		return a
	}
	return v
}

func jat(v any, path []int) any {
	for _, i := range path {
		switch x := v.(type) {
		case jobj:
			v = x[i].v
		case jarr:
			v = x[i]
		}
	}
	return v
}

func jnum(v uint64) jlit { return jlit(fmt.Sprint(v)) }

// c09ValidDocs builds, by hand, well-formed documents for every JSON entry
// point from a reference transaction (variants with the raw hex present,
// empty and absent, so that both decoding routes are taken).
func c09ValidDocs(t *refcodec.Tx) map[string][]any {
	std := refcodec.Encode(t, false, nil)
	txid := refcodec.TxID(std)
	var ins, nins jarr
	for _, in := range t.Ins {
		id := hex.EncodeToString(refcodec.Reverse(in.PrevHash))
		ins = append(ins, jobj{{"unlockingScript", hex.EncodeToString(in.Script)}, {"txid", id}, {"vout", jnum(uint64(in.Vout))}, {"sequence", jnum(uint64(in.Seq))}})
		nins = append(nins, jobj{{"scriptSig", jobj{{"asm", "OP_1"}, {"hex", hex.EncodeToString(in.Script)}}}, {"txid", id}, {"vout", jnum(uint64(in.Vout))}, {"sequence", jnum(uint64(in.Seq))}})
	}
	var outs, nouts jarr
	for i, o := range t.Outs {
		sh := hex.EncodeToString(o.Script)
		outs = append(outs, jobj{{"satoshis", jnum(o.Sats % 21e14)}, {"lockingScript", sh}})
		nouts = append(nouts, jobj{{"value", jlit(fmt.Sprintf("%d.%08d", (o.Sats%21e14)/1e8, (o.Sats%21e14)%1e8))}, {"n", jnum(uint64(i))},
			{"scriptPubKey", jobj{{"asm", "OP_DUP"}, {"hex", sh}, {"reqSigs", jlit("1")}, {"type", "pubkeyhash"}}}})
	}
	hx := hex.EncodeToString(std)
	tx := func(h any) any {
		o := jobj{{"txid", txid}}
		if h != nil {
			o = append(o, jkv{"hex", h})
		}
		return append(o, jkv{"inputs", ins}, jkv{"outputs", outs}, jkv{"version", jnum(uint64(t.Version))}, jkv{"lockTime", jnum(uint64(t.LockTime))})
	}
	ntx := func(h any) any {
		o := jobj{{"version", jnum(uint64(t.Version))}, {"locktime", jnum(uint64(t.LockTime))}, {"txid", txid}, {"hash", txid}, {"size", jnum(uint64(len(std)))}}
		if h != nil {
			o = append(o, jkv{"hex", h})
		}
		return append(o, jkv{"vin", nins}, jkv{"vout", nouts})
	}
	utxo := jobj{{"txid", txid}, {"vout", jlit("1")}, {"lockingScript", "76a914" + strings.Repeat("ab", 20) + "88ac"}, {"satoshis", jlit("1000")}}
	nutxo := jobj{{"txid", txid}, {"vout", jlit("1")}, {"scriptPubKey", "76a914" + strings.Repeat("ab", 20) + "88ac"}, {"amount", jlit("0.00001000")}}
	out0 := any(jobj{{"satoshis", jlit("1")}, {"lockingScript", "6a"}})
	nout0 := any(jobj{{"value", jlit("0.5")}, {"n", jlit("0")}, {"scriptPubKey", jobj{{"asm", ""}, {"hex", "6a"}, {"type", "nulldata"}}}})
	if len(outs) > 0 {
		out0, nout0 = outs[0], nouts[0]
	}
	return map[string][]any{
		"json:Tx":              {tx(hx), tx(""), tx(nil)},
		"json:Tx.NodeJSON":     {ntx(hx), ntx(""), ntx(nil)},
		"json:Txs.NodeJSON":    {jarr{ntx(hx), ntx(nil)}, jarr{ntx(nil)}, jarr{}},
		"json:Output":          {out0},
		"json:Output.NodeJSON": {nout0},
		"json:UTXO":            {utxo},
		"json:UTXO.NodeJSON":   {nutxo},
		"json:UTXOs.NodeJSON":  {jarr{nutxo, nutxo}, jarr{}},
		"json:FeeQuote": {jobj{{"standard", jobj{{"miningFee", jobj{{"satoshis", jlit("5")}, {"bytes", jlit("10")}}}, {"relayFee", jobj{{"satoshis", jlit("5")}, {"bytes", jlit("10")}}}}},
			{"data", jobj{{"miningFee", jobj{{"satoshis", jlit("1")}, {"bytes", jlit("4")}}}, {"relayFee", jobj{{"satoshis", jlit("1")}, {"bytes", jlit("4")}}}}}}, jobj{}},
	}
}

// c09Vocabulary: the keys either JSON dialect knows, for any kind of object
var c09Vocabulary = []string{"lockingScript", "scriptPubKey", "satoshis", "value", "n", "unlockingScript", "scriptSig", "txid", "vout", "vin", "inputs", "outputs",
	"hex", "sequence", "amount", "version", "lockTime", "locktime", "asm", "type", "hash", "size",
	// further keys the node itself writes into such documents
	"coinbase", "reqSigs", "addresses", "confirmations", "blockhash", "height"}

// mutations applied at every node of a valid document
var c09Mutations = []struct {
	class string
	repl  any
}{
	{"null", jlit("null")},
	{"wrong-type:number", jlit("123")},
	{"wrong-type:string", "x"},
	{"wrong-type:bool", jlit("true")},
	{"wrong-type:object", jobj{}},
	{"wrong-type:array", jarr{}},
	{"wrong-type:array-of-null", jarr{jlit("null")}},
	{"wrong-type:object-in-array", jarr{jobj{}}},
	{"odd-hex", "abc"},
	{"odd-hex:non-hex", "zz"},
	{"odd-hex:empty", ""},
	{"odd-hex:66-digits", strings.Repeat("ab", 33)},
	{"odd-hex:128-digits", strings.Repeat("01", 64)},
	{"odd-hex:4096-digits", strings.Repeat("f0", 2048)},
	{"odd-hex:62-digits", strings.Repeat("cd", 31)},
	{"huge-number:1e400", jlit("1e400")},
	{"huge-number:1e1000000", jlit("1e1000000")},
	{"huge-number:1e-1000000", jlit("1e-1000000")},
	{"huge-number:2.5e100000", jlit("2.5e100000")},
	{"huge-number:1e-99999", jlit("0.000001e-99999")},
	{"huge-number:2^64", jlit("18446744073709551616")},
	{"huge-number:negative", jlit("-1")},
	{"huge-number:fraction", jlit("1.5")},
	{"huge-number:1e30", jlit("1e30")},
	{"huge-number:-1e30", jlit("-1e30")},
	{"huge-number:nine-decimals", jlit("0.123456789")},
	{"huge-number:seventeen-decimals", jlit("0.30000000000000004")},
	{"huge-number:1e-9", jlit("1e-9")},
	{"huge-number:2.5e-8", jlit("2.5e-8")},
	{"huge-number:1E-30", jlit("1E-30")},
	{"huge-number:negative-fraction", jlit("-0.000000001")},
	{"huge-number:thirty-decimals", jlit("21000000.000000000000000000000000000001")},
	{"huge-number:2^28", jlit("268435456")},
	{"huge-number:2^31", jlit("2147483648")},
	{"huge-number:2^40", jlit("1099511627776")},
	{"huge-number:2^63", jlit("9223372036854775808")},
}

// smallest documents of the shapes a node really produces or an attacker would
// send first; judged at the start of every json-mutate case.
var c09MinimalDocs = [][3]string{
	{"json:Tx.NodeJSON", `{"version":1,"vin":[{"coinbase":"03a1b2c3","sequence":4294967295}],"vout":[]}`, "removed:coinbase-input"},
	{"json:Tx.NodeJSON", `{"vin":[{"txid":"` + strings.Repeat("00", 32) + `","vout":0}]}`, "removed:scriptSig"},
	{"json:Tx.NodeJSON", `{"vin":[null]}`, "null:vin-element"},
	{"json:Tx.NodeJSON", `{"vout":[{"value":1,"n":0}]}`, "removed:scriptPubKey"},
	{"json:Tx.NodeJSON", `{"vout":[null]}`, "null:vout-element"},
	{"json:Txs.NodeJSON", `[{"vin":[{}]}]`, "removed:scriptSig"},
	{"json:Txs.NodeJSON", `[{"vout":[{}]}]`, "removed:scriptPubKey"},
	{"json:Txs.NodeJSON", `[null]`, "null:list-element"},
	{"json:Output.NodeJSON", `{"value":1,"n":0}`, "removed:scriptPubKey"},
	{"json:Output.NodeJSON", `{"scriptPubKey":null}`, "null:scriptPubKey"},
	{"json:Output.NodeJSON", `null`, "null:document"},
	{"json:UTXOs.NodeJSON", `[null]`, "null:list-element"},
	{"json:UTXO.NodeJSON", `null`, "null:document"},
	{"json:Tx", `{"inputs":[null],"outputs":[null]}`, "null:list-element"},
	{"json:Tx", `null`, "null:document"},
}

var c09Keys = []string{"txid", "hex", "inputs", "outputs", "version", "lockTime", "locktime", "hash", "size", "vin", "vout", "scriptSig", "asm", "value", "n", "scriptPubKey",
	"reqSigs", "type", "unlockingScript", "sequence", "satoshis", "lockingScript", "amount", "coinbase", "x"}

func c09RandJSON(r *prng.R, depth int, safeHex func() string) any {
	switch k := r.Intn(10); {
	case k < 3 && depth > 0:
		var o jobj
		for i := r.Intn(6); i > 0; i-- {
			key := prng.Pick(r, c09Keys)
			var v any
			if key == "hex" && r.Chance(2, 3) {
				v = safeHex()
			} else {
				v = c09RandJSON(r, depth-1, safeHex)
			}
			o = append(o, jkv{key, v})
		}
		if o == nil {
			o = jobj{}
		}
		return o
	case k < 5 && depth > 0:
		a := jarr{}
		for i := r.Intn(4); i > 0; i-- {
			a = append(a, c09RandJSON(r, depth-1, safeHex))
		}
		return a
	case k == 5:
		return hex.EncodeToString(r.Bytes(r.Intn(40)))
	case k == 6:
		return prng.Pick(r, []string{"", "abc", "zz", "00", "76a91400112233445566778899aabbccddeeff0011223388ac", "é", "OP_DUP"})
	case k == 7:
		return prng.Pick(r, []jlit{"null", "true", "false", "0", "1", "-1", "1.5", "1e400", "4294967295", "4294967296", "18446744073709551615", "18446744073709551616", "0.00000001", "21000000.0", "1e-9"})
	}
	return jnum(r.Uint64() >> uint(r.Intn(64)))
}

// ---------------------------------------------------------------- property

func init() {
	p := &mon.Property{
		ID: "C09",
		Rule: "corpus: 40 (thorough 300) valid standard/extended transactions from the PRNG (incl. 0-input/0-output, 253-input, 65535/65536-byte script members), their inputs, outputs and 2-element counted lists. " +
			"Byte strings: every prefix (long members: the first and last 150 bytes, around the first and last six varints, every 997th byte); every bit of every byte flipped (long members in the quick tier: one bit per sampled byte); at every varint position (input count, unlocking/previous/locking script length, output count, list count) the varint replaced by a claim of 253, 65536, 2^20, 2^24 bytes (counts additionally 2^31, 2^32, 2^40), by one more / one less than the data that follows, and by 2^49, 2^56, 2^63, 2^64-1 (which the Go runtime refuses: makeslice), lists additionally 2^17, 2^21 and 2^46 elements; fd/fe/ff followed by every too-short number of bytes at every varint position; random byte strings of 0..200 bytes (some starting with a valid header). " +
			"Each string goes to every decoder of its wire kind: NewTxFromBytes, NewTxFromStream, Tx.ReadFrom / Txs.ReadFrom / Input.ReadFrom / Input.ReadFromExtended / Output.ReadFrom over a counting reader handing out 0 (all), 1 or 3 bytes per Read; random strings go to all of them. " +
			"Strings whose claims would make the current decoder allocate more than 16 MiB are withheld from these phases (counted under skipped:), so that the child survives; claims of 2^28 and 2^30 bytes (2^24 / 2^27 list elements) are fed once per entry point in a final phase with the collector off, and a first phase feeds one 2^40-byte claim per entry point (one per shard; such a case kills the child with a fatal out-of-memory error where the decoder honours the claim, which the parent confirms by re-running the case alone). " +
			"JSON: hand-built valid documents for *Tx, tx.NodeJSON(), txs.NodeJSON(), *Output, output.NodeJSON(), *UTXO, utxo.NodeJSON(), utxos.NodeJSON() (raw hex present / empty / absent); every node removed, null, replaced by each wrong type, by odd-length / non-hex / empty strings and by huge, negative and fractional numbers; null appended to every array; every prefix of every document; hex fields carrying truncated and hostile transactions; random documents over the key vocabulary. " +
			"Oracle per call: no panic (recover monitor), reported consumed bytes <= len(input) and <= bytes the counting reader delivered (also when an error is returned), runtime.MemStats.TotalAlloc delta <= 64*len(input)+64KiB. " +
			"distinct_nontrivial = distinct (entry point, input, reader chunking) pairs whose input is not an unmodified valid encoding/document and for which the call returned (value or error) and was metered.",
		Assum: []string{
			"the child is single-goroutine, so the TotalAlloc delta around a call is the call's own allocation (plus a few bytes of the monitor's closure)",
			"every entry point is called once on well-formed input before metering starts (one-time caches of encoding/json are not charged)",
			"refcodec.Scan (no go-bt imports) predicts which lengths a byte string claims; it only decides what is withheld from the generic phases, never a verdict",
			"byte-length claims between 2^30 and 2^48 other than the one 2^40 claim per entry point are not fed (on the current tree each would be honoured with a multi-GiB allocation)",
			"NewVarIntFromBytes (indexes its argument) is not among the decoders the property lists and is not called",
		},
	}
	jb := mon.Kind(p, "bin", c09JudgeBin)
	jd := mon.Kind(p, "json", c09JudgeDoc)
	jdirect := mon.Kind(p, "json-direct", c09JudgeDirect)
	jchain := mon.Kind(p, "chain", c09JudgeChain)

	const genericCap = 16 << 20 // bytes the current decoder may be asked for in the generic phases

	p.Run = func(c *mon.Ctx) {
		if n, err := refcodec.SelfCheck(verifTestdata()); err != nil {
			c.Fault("refcodec failed its vectors: " + err.Error())
			return
		} else {
			c.Info("model_vectors_reproduced", n)
		}
		c.Count("tier:" + c.Tier)
		ncorp := 40
		if c.Thorough {
			ncorp = 300
		}
		corpus := c09Corpus(c.Seed, ncorp)
		chunks := []int{0, 1, 3, -1, -2, -3, -4, -5}

		// feed sends b to one entry point unless its claims exceed the cap
		feed := func(e *c09BinEntry, b []byte, class string, chunk int, claim uint64, cap uint64) {
			if d := c09Danger(e.kind, b); d > cap {
				c.Count("skipped:claim-over-cap:" + e.name)
				c.Max("max:withheld-claim-bytes", float64(d))
				return
			}
			jb(c, &c09Bin{Entry: e.name, Bytes: b, Class: class, Chunk: chunk, Claim: claim})
		}
		feedKind := func(kind string, b []byte, class string, n uint64, claim uint64) {
			for i := range c09BinEntries {
				if e := &c09BinEntries[i]; e.kind == kind {
					feed(e, b, class, chunks[(n+uint64(i))%uint64(len(chunks))], claim, genericCap)
				}
			}
		}
		kinds := []string{"tx", "list", "in", "in-ext", "out"}

		// ------------------------------------------------------------ fatal claims (first: a dying child loses little)
		c.Phase("honest-large-scripts") // well-formed inputs whose script really is several MiB long: allocation stays proportional to the input
		{
			sizes := []int{1 << 20, 4 << 20, 8 << 20}
			if c.Thorough {
				sizes = append(sizes, 3<<20+12345, 16<<20, 32<<20)
			}
			n := uint64(0)
			for _, sz := range sizes {
				for i := range c09BinEntries {
					n++
					if c.Case(n) {
						jb(c, &c09Bin{Entry: c09BinEntries[i].name, Class: "honest-large", Chunk: chunks[int(n)%len(chunks)], Honest: sz})
					}
				}
			}
		}
		c.Phase("claim-2^40")
		nfatal := 8
		if c.Thorough {
			nfatal = 16
		}
		for i := 0; i < nfatal; i++ {
			if !c.Case(uint64(i)) {
				continue
			}
			cb := corpus[2+i%2] // 2: standard, 3: extended; both have an input and an output
			const v = 1 << 40
			field := func(b []byte, kind, fk string) []byte {
				for _, f := range refcodec.Scan(kind, b) {
					if f.Kind == fk {
						return c09Splice(b, f, v)
					}
				}
				return nil
			}
			var in *c09Bin
			switch i % 8 {
			case 0:
				in = &c09Bin{Entry: "NewTxFromBytes", Bytes: field(cb.b, "tx", "unlock-len")}
			case 1:
				in = &c09Bin{Entry: "NewTxFromStream", Bytes: field(cb.b, "tx", "unlock-len")}
			case 2:
				in = &c09Bin{Entry: "Tx.ReadFrom", Bytes: field(corpus[3].b, "tx", "prev-len")}
			case 3:
				in = &c09Bin{Entry: "Txs.ReadFrom", Bytes: c09Splice(cb.forKind("list"), refcodec.Scan("list", cb.forKind("list"))[0], v/8)}
			case 4:
				in = &c09Bin{Entry: "Input.ReadFrom", Bytes: field(cb.forKind("in"), "in", "unlock-len")}
			case 5:
				in = &c09Bin{Entry: "Input.ReadFromExtended", Bytes: field(cb.forKind("in-ext"), "in-ext", "prev-len")}
			case 6:
				in = &c09Bin{Entry: "Output.ReadFrom", Bytes: field(cb.forKind("out"), "out", "lock-len")}
			case 7:
				b := field(cb.b, "tx", "lock-len")
				if b == nil {
					b = field(cb.b, "tx", "unlock-len")
				}
				jd(c, &c09Doc{Entry: "json:Tx.NodeJSON", Doc: jrender(jobj{{"hex", hex.EncodeToString(b)}}), Class: "claim-2^40"})
				continue
			}
			if in.Bytes == nil {
				c.Fault("corpus member without the field to poison")
				continue
			}
			in.Class, in.Claim = "claim-2^40", v
			jb(c, in)
		}

		// ------------------------------------------------------------ valid inputs (baseline of the meter)
		c.Phase("valid")
		for i, cb := range corpus {
			if !c.Case(uint64(i)) {
				continue
			}
			for _, k := range kinds {
				feedKind(k, cb.forKind(k), "valid", uint64(i), 0)
			}
		}

		// ------------------------------------------------------------ honest transactions of every element count
		c.Phase("valid-every-count") // well-formed transactions with k inputs (k outputs), every k up to 1300 (thorough 5000), standard and extended: a decoder working in blocks meets every remainder
		{
			top := 1300
			if c.Thorough {
				top = 5000
			}
			for k := 0; k <= top; k++ {
				if !c.Case(uint64(k)) {
					continue
				}
				t := &refcodec.Tx{Version: 1}
				for i := 0; i < k; i++ {
					t.Ins = append(t.Ins, refcodec.In{PrevHash: bytes.Repeat([]byte{byte(i), byte(i >> 8)}, 16), Vout: uint32(i), Script: []byte{0x51}, Seq: 0xffffffff, PrevSats: uint64(i), PrevScript: []byte{0x52}})
				}
				t.Outs = []refcodec.Out{{Sats: 1, Script: []byte{0x51}}}
				if k%2 == 1 { // the same count on the output side
					t.Ins, t.Outs = t.Ins[:1], nil
					for i := 0; i < k; i++ {
						t.Outs = append(t.Outs, refcodec.Out{Sats: uint64(i), Script: []byte{0x51, byte(i)}})
					}
				}
				feedKind("tx", refcodec.Encode(t, k%4 >= 2, nil), "valid", uint64(k), 0)
				if k%16 == 5 {
					lb, _ := refcodec.EncodeList([]*refcodec.Tx{t, t}, []bool{false, true}, nil)
					feedKind("list", lb, "valid", uint64(k), 0)
				}
			}
		}

		// ------------------------------------------------------------ honest lists whose transactions spend each other
		c.Phase("chained-lists") // a list in which later transactions spend outputs of earlier ones (real txids), the spent output carrying a large script and many inputs referring to it: allocation stays proportional to the input
		{
			n := uint64(0)
			for _, scriptLen := range []int{100, 4096, 65536} {
				for _, refs := range []int{1, 50, 800} {
					for _, ext := range []bool{false, true} {
						n++
						if !c.Case(n) {
							continue
						}
						script := make([]byte, scriptLen)
						for i := range script {
							script[i] = byte(i*13 + i>>9)
						}
						parent := &refcodec.Tx{Version: 1, Ins: []refcodec.In{{PrevHash: bytes.Repeat([]byte{7}, 32), Script: []byte{0x51}, Seq: 0xffffffff, PrevScript: []byte{0x51}}},
							Outs: []refcodec.Out{{Sats: 5000, Script: script}, {Sats: 1, Script: []byte{0x51}}}}
						h1 := sha256.Sum256(refcodec.Encode(parent, false, nil))
						h2 := sha256.Sum256(h1[:])
						child := &refcodec.Tx{Version: 1, Outs: []refcodec.Out{{Sats: 1, Script: []byte{0x51}}}}
						for i := 0; i < refs; i++ {
							child.Ins = append(child.Ins, refcodec.In{PrevHash: append([]byte{}, h2[:]...), Vout: uint32(i % 2), Script: []byte{0x51}, Seq: uint32(i), PrevSats: 5000, PrevScript: []byte{0x52}})
						}
						lb, _ := refcodec.EncodeList([]*refcodec.Tx{parent, child, child}, []bool{ext, ext, !ext}, nil)
						feedKind("list", lb, "valid", n, 0)
					}
				}
			}
		}

		// ------------------------------------------------------------ crafted claims at every varint position
		c.Phase("claims")
		countClaims := []uint64{253, 65536, 1 << 31, 1 << 32, 1 << 40, 1 << 63, 1<<64 - 1}
		lenClaims := []uint64{253, 65536, 1 << 20, 1 << 49, 1 << 56, 1 << 63, 1<<64 - 1}
		listClaims := []uint64{253, 65536, 1 << 17, 1 << 46, 1 << 60, 1 << 63, 1<<64 - 1}
		for i, cb := range corpus {
			if !c.Case(uint64(i)) {
				continue
			}
			for _, k := range kinds {
				b := cb.forKind(k)
				fs := refcodec.Scan(k, b)
				if len(fs) > 40 {
					fs = append(append([]refcodec.Field{}, fs[:20]...), fs[len(fs)-20:]...)
				}
				for fi, f := range fs {
					var claims []uint64
					switch f.Kind {
					case "in-count", "out-count":
						claims = countClaims
					case "list-count":
						claims = listClaims
						if i < 8 {
							claims = append(append([]uint64{}, claims...), 1<<21)
						}
					default:
						rest := uint64(len(b) - f.Off - f.Width)
						claims = append(append([]uint64{}, lenClaims...), rest+1, f.Value+1)
						if f.Value > 0 {
							claims = append(claims, f.Value-1)
						}
						if i < 4 {
							claims = append(claims, 1<<24)
						}
					}
					for _, v := range claims {
						if v == f.Value {
							continue
						}
						feedKind(k, c09Splice(b, f, v), "claim:"+f.Kind, uint64(fi), v)
					}
				}
			}
		}

		// ------------------------------------------------------------ short varints
		c.Phase("short-varint")
		for i, cb := range corpus {
			if !c.Case(uint64(i)) {
				continue
			}
			for _, k := range kinds {
				b := cb.forKind(k)
				fs := refcodec.Scan(k, b)
				if len(fs) > 24 {
					fs = append(append([]refcodec.Field{}, fs[:12]...), fs[len(fs)-12:]...)
				}
				for fi, f := range fs {
					for _, lead := range []struct {
						b    byte
						need int
					}{{0xfd, 2}, {0xfe, 4}, {0xff, 8}} {
						for have := 0; have < lead.need; have++ {
							m := append(append([]byte{}, b[:f.Off]...), lead.b)
							m = append(m, bytes.Repeat([]byte{0x01}, have)...)
							feedKind(k, m, "short-varint:"+f.Kind, uint64(fi+have), 0)
						}
					}
				}
			}
		}

		// ------------------------------------------------------------ prefixes
		c.Phase("prefix")
		for i, cb := range corpus {
			if !c.Case(uint64(i)) {
				continue
			}
			for _, k := range kinds {
				b := cb.forKind(k)
				var fs []refcodec.Field
				if k == "tx" {
					fs = cb.fs
				} else {
					fs = refcodec.Scan(k, b)
				}
				for _, cut := range c09Cuts(len(b), fs) {
					feedKind(k, b[:cut], "prefix", uint64(cut), 0)
				}
			}
		}

		// ------------------------------------------------------------ bit flips
		c.Phase("bitflip")
		for i, cb := range corpus {
			if !c.Case(uint64(i)) {
				continue
			}
			r := c.Rand(uint64(i))
			for _, k := range kinds {
				b := cb.forKind(k)
				var fs []refcodec.Field
				if k == "tx" {
					fs = cb.fs
				}
				for _, pos := range c09Cuts(len(b), fs) {
					bits := []int{r.Intn(8)}
					if c.Thorough || len(b) <= 1200 {
						bits = []int{0, 1, 2, 3, 4, 5, 6, 7}
					}
					for _, bit := range bits {
						m := append([]byte{}, b...)
						m[pos] ^= 1 << uint(bit)
						feedKind(k, m, "bitflip", uint64(pos+bit), 0)
					}
				}
			}
		}

		// ------------------------------------------------------------ random bytes
		c.Phase("random")
		nr := 30000
		if c.Thorough {
			nr = 500000
		}
		for i := 0; i < nr; i++ {
			if !c.Case(uint64(i)) {
				continue
			}
			r := c.Rand(uint64(i))
			b := r.Bytes(r.Intn(201))
			switch r.Intn(6) {
			case 0: // plausible header
				h := []byte{1, 0, 0, 0}
				if r.Bool() {
					h = append(h, refcodec.Marker...)
				}
				b = append(h, b...)
			case 1: // mostly small bytes, so that more structure is walked
				for k := range b {
					b[k] &= 0x03
				}
			case 2: // splice of two corpus members
				x, y := prng.Pick(r, corpus).b, prng.Pick(r, corpus).b
				if len(x) > 400 {
					x = x[:400]
				}
				if len(y) > 400 {
					y = y[len(y)-400:]
				}
				b = append(append([]byte{}, x[:r.Intn(len(x)+1)]...), y[r.Intn(len(y)+1):]...)
			}
			for j := range c09BinEntries {
				feed(&c09BinEntries[j], b, "random", chunks[(i+j)%len(chunks)], 0, genericCap)
			}
		}

		// ------------------------------------------------------------ JSON: mutations of valid documents
		c.Phase("json-mutate")
		ndocs := 12
		if c.Thorough {
			ndocs = 40
		}
		var small []*c09Base
		for _, cb := range corpus {
			if len(cb.b) <= 1200 {
				small = append(small, cb)
			}
		}
		for i := 0; i < ndocs; i++ {
			if !c.Case(uint64(i)) {
				continue
			}
			docs := c09ValidDocs(small[(i*3)%len(small)].t)
			for _, m := range c09MinimalDocs {
				jd(c, &c09Doc{Entry: m[0], Doc: m[1], Class: m[2]})
			}
			for _, e := range c09JSONEntries {
				for _, d := range docs[e.name] {
					jd(c, &c09Doc{Entry: e.name, Doc: jrender(d), Class: "valid"})
					var paths [][]int
					jpaths(d, nil, &paths)
					for _, path := range paths {
						jd(c, &c09Doc{Entry: e.name, Doc: jrender(jedit(d, path, nil, true)), Class: "removed"})
						for _, m := range c09Mutations {
							jd(c, &c09Doc{Entry: e.name, Doc: jrender(jedit(d, path, m.repl, false)), Class: m.class})
						}
						if a, ok := jat(d, path).(jarr); ok {
							jd(c, &c09Doc{Entry: e.name, Doc: jrender(jedit(d, path, append(append(jarr{}, a...), jlit("null")), false)), Class: "null:appended-to-array"})
							jd(c, &c09Doc{Entry: e.name, Doc: jrender(jedit(d, path, append(jarr{jlit("null")}, a...), false)), Class: "null:prepended-to-array"})
						}
					}
					// keys of the other dialect (and of other object kinds) added to every object, with empty
					// spellings; for small objects also together with an own key emptied
					foreign := func(path []int) {
						o, ok := jat(d, path).(jobj)
						if !ok {
							return
						}
						put := func(x jobj, class string) {
							var nd any = x
							if len(path) > 0 {
								nd = jedit(d, path, x, false)
							}
							jd(c, &c09Doc{Entry: e.name, Doc: jrender(nd), Class: class})
						}
						empties := []any{jlit("null"), "", jobj{}, jarr{}, jlit("0")}
						filled := []any{"04ffff001d0104", jlit("7")} // what the node writes under such keys: a hex string, a number
						for _, k := range c09Vocabulary {
							for _, v := range append(append([]any{}, empties...), filled...) {
								put(append(jobj{{k, v}}, o...), "foreign-key")
							}
						}
						if len(o) > 5 {
							return
						}
						for own := range o {
							for _, ov := range empties[:2] {
								x := append(jobj{}, o...)
								x[own] = jkv{o[own].k, ov}
								for _, k := range c09Vocabulary {
									for _, v := range append(append([]any{}, empties[:2]...), filled...) {
										put(append(append(jobj{}, x...), jkv{k, v}), "foreign-key:own-key-emptied")
									}
								}
							}
							// the own key gone altogether, a filled foreign key in its place (a coinbase entry
							// of the node has "coinbase" where other entries have "scriptSig")
							x := append(append(jobj{}, o[:own]...), o[own+1:]...)
							for _, k := range c09Vocabulary {
								for _, v := range filled {
									put(append(append(jobj{}, x...), jkv{k, v}), "foreign-key:own-key-removed")
								}
							}
						}
					}
					foreign(nil)
					for _, path := range paths {
						foreign(path)
					}
					// the root itself
					for _, m := range c09Mutations {
						jd(c, &c09Doc{Entry: e.name, Doc: jrender(m.repl), Class: m.class})
					}
					if a, ok := d.(jarr); ok {
						jd(c, &c09Doc{Entry: e.name, Doc: jrender(append(append(jarr{}, a...), jlit("null"))), Class: "null:appended-to-array"})
					}
				}
			}
		}

		// ------------------------------------------------------------ JSON: prefixes, hostile hex, random documents
		c.Phase("json-deep-nesting") // valid documents wrapped in hundreds to thousands of objects under one key (an RPC answer's "result", "data", a key of the dialect itself) or of arrays: time and memory stay proportional to the text
		{
			n := uint64(0)
			docs := c09ValidDocs(small[0].t)
			for _, e := range c09JSONEntries {
				for di, d := range docs[e.name] {
					if di > 1 {
						break
					}
					inner := jrender(d)
					for _, key := range []string{"result", "data", "hex", "vin", "x"} {
						for _, depth := range []int{50, 1000, 4000} {
							n++
							if !c.Case(n) {
								continue
							}
							doc := strings.Repeat(`{"`+key+`":`, depth) + inner + strings.Repeat("}", depth)
							jd(c, &c09Doc{Entry: e.name, Doc: doc, Class: "deep-nesting"})
							if key == "x" {
								jd(c, &c09Doc{Entry: e.name, Doc: strings.Repeat("[", depth) + inner + strings.Repeat("]", depth), Class: "deep-nesting"})
							}
						}
					}
				}
			}
		}
		c.Phase("json-prefix")
		for i := 0; i < ndocs; i++ {
			if !c.Case(uint64(i)) {
				continue
			}
			docs := c09ValidDocs(small[(i*3)%len(small)].t)
			for _, e := range c09JSONEntries {
				for _, d := range docs[e.name] {
					s := jrender(d)
					step := 1
					if len(s) > 1500 {
						step = 7
					}
					for k := 0; k < len(s); k += step {
						jd(c, &c09Doc{Entry: e.name, Doc: s[:k], Class: "prefix"})
					}
				}
			}
		}
		c.Phase("json-direct") // the UnmarshalJSON methods called directly (as a decoder embedding them may do): raw fragments that encoding/json would have refused before calling them, and every prefix of valid documents
		{
			frags := []string{"", "\"", "\"\"", "{", "}", "[", "]", "n", "nul", "null", "\"ab", "\"0", "0", "-", "{\"hex\":", "{\"hex\":\"", "[{", "tru", " ", "\x00", "\"\\u", "\"\\", "{\"a\"", ":", ",", "[,]", "{\"vin\":[", "\"\"\"", "'", "[null", "{\"inputs\":[{"}
			n := uint64(0)
			for _, t := range c09DirectTargets {
				for _, f := range frags {
					n++
					if c.Case(n) {
						jdirect(c, &c09Direct{Target: t.name, Raw: f})
					}
				}
			}
			docs := c09ValidDocs(small[0].t)
			for _, t := range c09DirectTargets {
				for _, d := range docs["json:"+t.name] {
					sdoc := jrender(d)
					step := 1
					if len(sdoc) > 800 {
						step = 5
					}
					for k := 0; k <= len(sdoc); k += step {
						n++
						if c.Case(n) {
							jdirect(c, &c09Direct{Target: t.name, Raw: sdoc[:k]})
						}
					}
				}
			}
		}
		c.Phase("destinations-with-history") // one Input / Output / Tx / Txs object receives several documents and byte strings in a row, through different decoders
		{
			nb := 6
			if c.Thorough {
				nb = 16
			}
			var cbase []*c09Base
			for _, cb := range c09Corpus(c.Seed+77, 14) {
				if len(cb.b) <= 2000 && len(cbase) < nb {
					cbase = append(cbase, cb)
				}
			}
			c09RunChains(c, jchain, cbase)
		}
		c.Phase("json-hex")
		for i, cb := range corpus {
			if !c.Case(uint64(i)) {
				continue
			}
			if len(cb.b) > 1200 {
				continue
			}
			send := func(b []byte, class string) {
				if c09Danger("tx", b) > genericCap {
					c.Count("skipped:claim-over-cap:json-hex")
					return
				}
				hx := hex.EncodeToString(b)
				jd(c, &c09Doc{Entry: "json:Tx", Doc: jrender(jobj{{"hex", hx}}), Class: class})
				jd(c, &c09Doc{Entry: "json:Tx.NodeJSON", Doc: jrender(jobj{{"hex", hx}, {"vin", jarr{}}}), Class: class})
				jd(c, &c09Doc{Entry: "json:Txs.NodeJSON", Doc: jrender(jarr{jobj{{"hex", hx}}}), Class: class})
			}
			for cut := 0; cut < len(cb.b); cut += 1 + cut/40 {
				send(cb.b[:cut], "hostile-hex:prefix")
			}
			for _, f := range cb.fs {
				for _, v := range []uint64{65536, 1 << 20, 1 << 56, 1<<64 - 1} {
					send(c09Splice(cb.b, f, v), "hostile-hex:claim")
				}
			}
		}
		c.Phase("json-random")
		nj := 20000
		if c.Thorough {
			nj = 400000
		}
		for i := 0; i < nj; i++ {
			if !c.Case(uint64(i)) {
				continue
			}
			r := c.Rand(uint64(i))
			safeHex := func() string {
				b := prng.Pick(r, corpus[:12]).b
				b = b[:r.Intn(len(b)+1)]
				if r.Chance(1, 3) {
					b = r.Bytes(r.Intn(60))
				}
				if c09Danger("tx", b) > genericCap {
					return ""
				}
				return hex.EncodeToString(b)
			}
			var doc string
			if r.Chance(1, 8) {
				doc = string(r.Bytes(r.Intn(60)))
			} else {
				doc = jrender(c09RandJSON(r, 4, safeHex))
			}
			for _, e := range c09JSONEntries {
				jd(c, &c09Doc{Entry: e.name, Doc: doc, Class: "random"})
			}
		}

		// ------------------------------------------------------------ big claims (last; collector off so that no freed gigabyte is re-zeroed)
		c.Phase("claim-big")
		old := debug.SetGCPercent(-1)
		type big struct {
			entry, kind, field string
			v                  uint64
		}
		var bigs []big
		for _, v := range []uint64{1 << 28, 1 << 30} {
			bigs = append(bigs,
				big{"NewTxFromBytes", "tx", "unlock-len", v}, big{"NewTxFromStream", "tx", "lock-len", v}, big{"NewTxFromString", "tx", "lock-len", v}, big{"Tx.ReadFrom", "tx", "prev-len", v},
				big{"Txs.ReadFrom", "list", "unlock-len", v}, big{"Txs.ReadFrom", "list", "list-count", v >> 3},
				big{"Input.ReadFrom", "in", "unlock-len", v}, big{"Input.ReadFromExtended", "in-ext", "prev-len", v}, big{"Output.ReadFrom", "out", "lock-len", v})
		}
		for i, bg := range bigs {
			if !c.Case(uint64(i)) {
				continue
			}
			cb := corpus[2]
			if bg.field == "prev-len" {
				cb = corpus[3]
			}
			b := cb.forKind(bg.kind)
			done := false
			for _, f := range refcodec.Scan(bg.kind, b) {
				if f.Kind == bg.field {
					feed(c09BinEntryByName(bg.entry), c09Splice(b, f, bg.v), "claim-big:"+bg.field, 0, bg.v, 1<<30)
					done = true
					break
				}
			}
			if !done {
				c.Count("claim-big:no-such-field")
			}
		}
		debug.SetGCPercent(old)
		debug.FreeOSMemory()
	}

	p.Floor = func(a *mon.Agg) string {
		for _, k := range []string{"chain:Input<-json:value", "chain:Input<-bin:value", "chain:Input<-bin-ext:value", "chain:Input<-bin:error", "chain:Output<-json-node:value", "chain:Output<-bin:value",
			"chain:Tx<-json:value", "chain:Tx<-json-node:value", "chain:Tx<-bin:value", "chain:Tx<-bin:error", "chain:Txs<-json:value", "chain:Txs<-json-node:value", "chain:Txs<-bin:value", "chain:consumed-within-bounds"} {
			if a.Cov[k] == 0 {
				return "counter " + k + " is zero"
			}
		}
		for _, e := range c09BinEntries {
			for _, cls := range []string{"valid", "prefix", "bitflip", "claim", "short-varint", "random", "claim-big"} {
				if a.Cov["bin:"+e.name+":"+cls] == 0 {
					return "counter bin:" + e.name + ":" + cls + " is zero"
				}
			}
			if e.name != "NewTxFromBytes" && e.name != "NewTxFromString" && a.Cov["consumed:within-bounds:"+e.name] == 0 {
				return "consumed bytes of " + e.name + " were never within bounds (nothing compared?)"
			}
		}
		for _, e := range c09JSONEntries {
			for _, cls := range []string{"valid", "removed", "null", "wrong-type", "odd-hex", "huge-number", "prefix", "random"} {
				if a.Cov[e.name+":"+cls] == 0 {
					return "counter " + e.name + ":" + cls + " is zero"
				}
			}
		}
		for _, k := range []string{"json:Tx:hostile-hex", "json:Tx.NodeJSON:hostile-hex", "json:Txs.NodeJSON:hostile-hex", "meter:measured"} {
			if a.Cov[k] == 0 {
				return "counter " + k + " is zero"
			}
		}
		if a.Maxes["max:claimed-length"] < 1<<63 {
			return "no claim of 2^63 or more was exercised"
		}
		return ""
	}
	mon.Register(p)
}
