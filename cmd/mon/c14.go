package main

import (
	"bytes"
	"encoding/hex"
	"encoding/json"
	"fmt"

	"github.com/libsv/go-bt/v2"
	"github.com/libsv/go-bt/v2/bscript"

	"verif/internal/mon"
	"verif/internal/prng"
	"verif/internal/refaddr"
	"verif/internal/refcodec"
)

// C14 — script inspection is total and classifies by the standard templates.

// c14Outputs: the locking scripts of ONE transaction's outputs.
type c14Outputs struct {
	Scripts []mon.Hex `json:"scripts"`
}

type c14Script struct {
	Script mon.Hex `json:"script"`
	Class  string  `json:"class"`
}

// keyBearing: the ScriptType values that promise a key / key hash.
var c14KeyBearing = map[string]bool{
	bscript.ScriptTypePubKey: true, bscript.ScriptTypePubKeyHash: true,
	bscript.ScriptTypeMultiSig: true, bscript.ScriptTypePubKeyHashInscription: true,
}

func c14Cat(parts ...[]byte) []byte {
	var out []byte
	for _, p := range parts {
		out = append(out, p...)
	}
	return out
}

func c14Key(r *prng.R, long bool) []byte {
	if long {
		k := r.Bytes(65)
		k[0] = prng.Pick(r, []byte{4, 6, 7})
		return k
	}
	k := r.Bytes(33)
	k[0] = prng.Pick(r, []byte{2, 3})
	return k
}

func c14Multisig(r *prng.R, m, n int) []byte {
	s := []byte{byte(0x50 + m)}
	for i := 0; i < n; i++ {
		s = append(s, refcodec.MinimalPush(c14Key(r, r.Chance(1, 3)))...)
	}
	return append(s, byte(0x50+n), 0xae)
}

func c14Inscription(r *prng.R, ctype, data []byte, tail [][]byte) []byte {
	s := c14Cat([]byte{0x76, 0xa9, 0x14}, r.Bytes(20), []byte{0x88, 0xac, 0x00, 0x63, 0x03, 'o', 'r', 'd', 0x51},
		refcodec.MinimalPush(ctype), []byte{0x00}, refcodec.MinimalPush(data), []byte{0x68})
	if len(tail) > 0 {
		s = append(s, 0x6a)
		s = append(s, refcodec.EncodeItems(tail)...)
	}
	return s
}

type c14Inst struct {
	name string
	s    []byte
}

// c14Instances: one instance of every template shape (bytes from r).
func c14Instances(r *prng.R, thorough bool) []c14Inst {
	h := r.Bytes(20)
	out := []c14Inst{
		{"p2pkh", c14Cat([]byte{0x76, 0xa9, 0x14}, h, []byte{0x88, 0xac})},
		{"p2pk-33", c14Cat(refcodec.MinimalPush(c14Key(r, false)), []byte{0xac})},
		{"p2pk-65", c14Cat(refcodec.MinimalPush(c14Key(r, true)), []byte{0xac})},
		{"p2sh", c14Cat([]byte{0xa9, 0x14}, r.Bytes(20), []byte{0x87})},
		{"multisig-1of1", c14Multisig(r, 1, 1)},
		{"multisig-1of2", c14Multisig(r, 1, 2)},
		{"multisig-2of3", c14Multisig(r, 2, 3)},
		{"data-opreturn", []byte{0x6a}},
		{"data-false-opreturn", []byte{0x00, 0x6a}},
		{"data-opreturn-pushes", c14Cat([]byte{0x6a}, refcodec.EncodeItems([][]byte{r.Bytes(1 + r.Intn(30)), r.Bytes(1 + r.Intn(4))}))},
		{"data-false-opreturn-pushes", c14Cat([]byte{0x00, 0x6a}, refcodec.EncodeItems([][]byte{r.Bytes(2 + r.Intn(30)), r.Bytes(80)}))},
		{"data-false-opreturn-multisig-tail", c14Cat([]byte{0x00, 0x6a}, refcodec.EncodeItems([][]byte{r.Bytes(1 + r.Intn(30))}), []byte{0x51, 0xae})},
		{"data-opreturn-junk", c14Cat([]byte{0x6a, 0x4c})},
		{"inscription", c14Inscription(r, []byte("text/plain"), r.Bytes(1+r.Intn(20)), nil)},
		{"inscription-empty-fields", c14Inscription(r, nil, nil, nil)},
		{"inscription-opreturn-tail", c14Inscription(r, []byte("image/png"), r.Bytes(3), [][]byte{[]byte("MAP"), []byte("SET"), r.Bytes(5)})},
	}
	if thorough {
		out = append(out,
			c14Inst{"multisig-3of3", c14Multisig(r, 3, 3)},
			c14Inst{"multisig-16of16", c14Multisig(r, 16, 16)},
			c14Inst{"multisig-1of16", c14Multisig(r, 1, 16)},
			c14Inst{"inscription-large", c14Inscription(r, []byte("application/octet-stream"), r.Bytes(300), [][]byte{r.Bytes(80)})},
		)
	}
	return out
}

// c14Mutate enumerates the mutation neighbourhood of an instance.
func c14Mutate(s []byte, allBytes bool, emit func(class string, m []byte)) {
	cp := func() []byte { return append([]byte{}, s...) }
	// every single-byte flip
	for i := range s {
		if allBytes {
			for v := 0; v < 256; v++ {
				if byte(v) != s[i] {
					m := cp()
					m[i] = byte(v)
					emit("byte-flip", m)
				}
			}
		} else {
			seen := map[byte]bool{s[i]: true}
			for _, v := range []byte{s[i] ^ 1, s[i] ^ 2, s[i] ^ 4, s[i] ^ 8, s[i] ^ 16, s[i] ^ 32, s[i] ^ 64, s[i] ^ 128, 0x00, 0x01, 0x4b, 0x4c, 0x4d, 0x4e, 0x51, 0x6a, 0xff} {
				if !seen[v] {
					seen[v] = true
					m := cp()
					m[i] = v
					emit("byte-flip", m)
				}
			}
		}
	}
	// every truncation
	for k := 0; k < len(s); k++ {
		emit("truncate", s[:k:k])
	}
	toks, tr := refcodec.Tokenize(s)
	if tr >= 0 {
		toks = append(toks, refcodec.Token{Op: s[tr], Start: tr, DataStart: len(s), End: len(s)})
	}
	splice := func(t refcodec.Token, repl []byte) []byte {
		return c14Cat(s[:t.Start], repl, s[t.End:])
	}
	zero := [][]byte{{0x00}, {0x4c, 0x00}, {0x4d, 0x00, 0x00}, {0x4e, 0x00, 0x00, 0x00, 0x00}}
	for _, t := range toks {
		for _, h := range c14ExtremeClaims {
			emit("insert-extreme-length-claim", c14Cat(s[:t.Start], h, s[t.Start:]))
		}
		for _, z := range zero {
			emit("token->zero-length-push", splice(t, z))
			emit("insert-zero-length-push", c14Cat(s[:t.Start], z, s[t.Start:]))
		}
		emit("token-removed", splice(t, nil))
		emit("token-duplicated", c14Cat(s[:t.End], s[t.Start:]))
		if t.Push && len(t.Data) > 0 {
			d := t.Data
			for _, k := range []int{1, 2, len(d) - 1, len(d) / 2} {
				if k >= 1 && k < len(d) {
					emit("push-shortened", splice(t, refcodec.MinimalPush(d[:k])))
				}
			}
			emit("push-lengthened", splice(t, refcodec.MinimalPush(append(append([]byte{}, d...), 0x00))))
			for _, op := range []byte{0x4c, 0x4d, 0x4e} {
				if e, ok := refcodec.PushWith(op, d); ok && op != t.Op {
					emit("push-non-minimal-form", splice(t, e))
				}
			}
			// header kept, data dropped: the push now swallows what follows (or is cut)
			emit("push-data-dropped", c14Cat(s[:t.DataStart], s[t.End:]))
			emit("push-header-dropped", c14Cat(s[:t.Start], s[t.DataStart:]))
		}
	}
	emit("append-zero-length-push", c14Cat(s, []byte{0x4c, 0x00}))
	emit("append-opreturn", c14Cat(s, []byte{0x6a}))
	emit("prepend-op0", c14Cat([]byte{0x00}, s))
}

// push headers whose length claim sits on the edge of the integer type that
// may hold it (header + claim wraps in 32 bits for the largest ones)
var c14ExtremeClaims = [][]byte{
	{0x4c, 0xff}, {0x4d, 0xff, 0xff}, {0x4d, 0xfd, 0xff},
	{0x4e, 0xff, 0xff, 0xff, 0xff}, {0x4e, 0xfe, 0xff, 0xff, 0xff}, {0x4e, 0xfd, 0xff, 0xff, 0xff}, {0x4e, 0xfc, 0xff, 0xff, 0xff}, {0x4e, 0xfb, 0xff, 0xff, 0xff}, {0x4e, 0xfa, 0xff, 0xff, 0xff},
	{0x4e, 0xf0, 0xff, 0xff, 0xff}, {0x4e, 0xff, 0xff, 0xff, 0x7f}, {0x4e, 0x00, 0x00, 0x00, 0x80}, {0x4e, 0xfb, 0xff, 0xff, 0x7f}, {0x4e, 0x00, 0x00, 0x00, 0x01}, {0x4e, 0x00, 0x00, 0x01, 0x00},
}

var c14Soup = [][]byte{
	{0x00}, {0x4c, 0x00}, {0x4d, 0x00, 0x00}, {0x4e, 0x00, 0x00, 0x00, 0x00}, {0x51}, {0x52}, {0x60}, {0xae}, {0xac}, {0x6a}, {0x76}, {0xa9}, {0x88}, {0x87}, {0x63}, {0x68},
	{0x01, 0x01}, {0x01, 0x6f}, {0x02, 0x6f, 0x72}, {0x03, 0x6f, 0x72, 0x64}, {0x4c, 0x03, 0x6f, 0x72, 0x64}, {0x4f}, {0x01, 0xac}, {0x01, 0xae},
}

func init() {
	p := &mon.Property{
		ID: "C14",
		Rule: "exhaustive: EVERY script of length <= 2 (65 793) in quick and <= 3 (16 843 009) in thorough. " +
			"mutations: for fresh instances of every template shape (P2PKH, P2PK 33/65, P2SH, m-of-n multisig, OP_RETURN / OP_FALSE OP_RETURN data incl. one ending in OP_1 OP_CHECKMULTISIG and one with an undecodable tail, P2PKH inscription with/without empty fields and OP_RETURN tail; inscriptions additionally built by the library's own Tx.Inscribe): the instance, every single-byte flip (all 255 other values for scripts <= 330 bytes), every truncation, every instruction replaced by OP_0 / 4c00 / 4d0000 / 4e00000000, removed, duplicated, a zero-length push and a push header with an extreme length claim (ff, ffff, 2^32-1 .. 2^32-6, 2^31) inserted at every boundary, every push shortened / lengthened / re-encoded non-minimally / its data or header dropped. " +
			"zero-length: (OP_0 | 4c00 | 4d0000 | 4e00000000)^k for k = 1..20 (40 thorough) between 7 prefixes and 5 suffixes; random sequences of 1..24 pieces from a 24-piece alphabet of zero-length pushes, template opcodes and 'ord' fragments. random: random bytes of length 0..80. " +
			"Each script is handed to ScriptType, IsP2PKH, IsP2PK, IsP2SH, IsData, IsMultiSigOut, IsP2PKHInscription, IsInscribed, PublicKeyHash, Addresses, ToASM, ParseInscription and json.Marshal(tx.NodeJSON()) (script as output locking script), each under the recover monitor. " +
			"distinct_nontrivial = distinct scripts from the <= 2-byte sweep and from the mutation / zero-length / random phases (the 3-byte sweep is counted by counter exh:len3 only).",
		Assum: []string{
			"reference tokenizer and template recogniser in /verif/internal/refcodec/script.go (self-checked against vectors each run); P2PK/multisig instances use keys whose length matches their header byte (02/03: 33, 04/06/07: 65) and 1 <= m <= n <= 16",
			"the inscription template is what Tx.Inscribe builds on a P2PKH prefix; each run cross-checks the recogniser against scripts built by Tx.Inscribe itself",
			"contents returned by ParseInscription are not judged here (only: no panic, no error on instances)",
		},
		Exhaustive: func(string) bool { return true },
	}
	judge := mon.Kind(p, "script", c14Judge)
	judgeOuts := mon.Kind(p, "outputs", c14JudgeOutputs)

	p.Run = func(c *mon.Ctx) {
		if msg := refcodec.SelfTestScript(); msg != "" {
			c.Fault("reference script codec failed its vectors: " + msg)
			return
		}
		c.Info("model_vectors_reproduced", "refcodec.SelfTestScript: tokenizer, minimal-push and template vectors all reproduced")

		// ---- exhaustive -------------------------------------------------
		c.Phase("exhaustive-len<=2")
		if c.Case(0) {
			judge(c, &c14Script{Script: []byte{}, Class: "exh"})
			c.Count("exh:len0")
		}
		if c.Case(1) {
			for b := 0; b < 256; b++ {
				judge(c, &c14Script{Script: []byte{byte(b)}, Class: "exh"})
				c.Count("exh:len1")
			}
		}
		for a := 0; a < 256; a++ {
			if !c.Case(uint64(2 + a)) {
				continue
			}
			for b := 0; b < 256; b++ {
				judge(c, &c14Script{Script: []byte{byte(a), byte(b)}, Class: "exh"})
				c.Count("exh:len2")
			}
		}
		if c.Thorough {
			c.Phase("exhaustive-len3")
			for ab := 0; ab < 65536; ab++ {
				if !c.Case(uint64(ab)) {
					continue
				}
				for d := 0; d < 256; d++ {
					judge(c, &c14Script{Script: []byte{byte(ab >> 8), byte(ab), byte(d)}, Class: "exh3"})
				}
				c.CountN("exh:len3", 256)
			}
		}

		// ---- template instances and their neighbourhoods ----------------
		c.Phase("template-mutations")
		rounds := 2
		if c.Thorough {
			rounds = 12
		}
		n := uint64(0)
		for round := 0; round < rounds; round++ {
			// the list of shapes is fixed; bytes come from the case PRNG
			shapes := len(c14Instances(prng.New(0, "C14-shapes", 0), c.Thorough))
			for si := 0; si < shapes; si++ {
				n++
				if !c.Case(n) {
					continue
				}
				r := c.Rand(n)
				inst := c14Instances(r, c.Thorough)[si]
				judge(c, &c14Script{Script: inst.s, Class: "instance:" + inst.name})
				c14Mutate(inst.s, len(inst.s) <= 330, func(class string, m []byte) {
					judge(c, &c14Script{Script: m, Class: "mut:" + inst.name + ":" + class})
				})
			}
		}
		c.Phase("template-lookalikes") // scripts of a template's exact length whose head is a wider push, and template instances whose key hash contains the bytes a recogniser searches for
		n = 0
		{
			next := func() bool { n++; return c.Case(n) }
			tail := []byte{0x88, 0xac}
			for rep := 0; rep < 3; rep++ {
				for _, head := range [][]byte{{0x76, 0xa9, 0x4c, 0x14}, {0x76, 0xa9, 0x4d, 0x14, 0x00}, {0x76, 0xa9, 0x4e, 0x14, 0x00, 0x00, 0x00}, {0x76, 0xa9, 0x4c, 0x13}, {0x76, 0xa9, 0x13}, {0x76, 0xa9, 0x15}} {
					if !next() {
						continue
					}
					r := c.Rand(n)
					sc := c14Cat(head, r.Bytes(25-len(head)-2), tail)
					judge(c, &c14Script{Script: sc, Class: "lookalike:p2pkh-length-with-other-push"})
					judge(c, &c14Script{Script: c14Cat(sc, []byte{0x00, 0x63, 0x03, 'o', 'r', 'd', 0x51, 0x01, 'a', 0x00, 0x01, 'b', 0x68}), Class: "lookalike:inscription-on-other-push"})
				}
			}
			marker := []byte{0x00, 0x63, 0x03, 'o', 'r', 'd'}
			for off := 0; off+len(marker) <= 20; off++ {
				for _, withTail := range []bool{false, true} {
					if !next() {
						continue
					}
					r := c.Rand(n)
					h := r.Bytes(20)
					copy(h[off:], marker)
					p2pkh := c14Cat([]byte{0x76, 0xa9, 0x14}, h, tail)
					judge(c, &c14Script{Script: p2pkh, Class: "instance:p2pkh-hash-holds-envelope-marker"})
					ins := c14Cat(p2pkh, []byte{0x00, 0x63, 0x03, 'o', 'r', 'd', 0x51}, refcodec.MinimalPush([]byte("text/plain")), []byte{0x00}, refcodec.MinimalPush(r.Bytes(1+r.Intn(40))), []byte{0x68})
					if withTail {
						ins = c14Cat(ins, []byte{0x6a}, refcodec.MinimalPush(r.Bytes(1+r.Intn(12))))
					}
					judge(c, &c14Script{Script: ins, Class: "instance:inscription-hash-holds-envelope-marker"})
				}
			}
		}
		c.Phase("all-m-of-n") // every bare multisig template 1 <= m <= n <= 16, compressed and uncompressed keys
		n = 0
		for nn := 1; nn <= 16; nn++ {
			for mm := 1; mm <= nn; mm++ {
				n++
				if !c.Case(n) {
					continue
				}
				r := c.Rand(n)
				judge(c, &c14Script{Script: c14Multisig(r, mm, nn), Class: "instance:multisig-all"})
			}
		}
		// ---- one transaction holding many template instances: what the node-style JSON says about
		// output i is what the inspection says about script i (position, hex, type), however many there are
		c.Phase("node-json-many-outputs")
		n = 0
		for rep := 0; rep < rounds; rep++ {
			for _, count := range []int{1, 2, 3, 16, 31, 32, 33, 47, 48, 49, 63, 64, 65, 100, 128, 255, 256, 300, 1000} {
				n++
				if !c.Case(n) {
					continue
				}
				r := c.Rand(n)
				in := &c14Outputs{}
				insts := c14Instances(r, c.Thorough)
				for i := 0; i < count; i++ {
					var sc []byte
					switch k := r.Intn(10); {
					case k < 7:
						fresh := c14Instances(r, c.Thorough)
						sc = fresh[r.Intn(len(fresh))].s
					case k < 8:
						sc = insts[(i+int(n))%len(insts)].s
					case k < 9:
						sc = refcodec.EncodeItems([][]byte{r.Bytes(r.Intn(40)), r.Bytes(r.Intn(5))})
					default:
						sc = []byte{}
					}
					if _, tr := refcodec.Tokenize(sc); tr >= 0 {
						sc = []byte{0x51} // a cut push makes the whole document an error; that is judged by the single-script cases
					}
					in.Scripts = append(in.Scripts, sc)
				}
				judgeOuts(c, in)
			}
		}
		c.Phase("library-built-inscriptions")
		nl := 40
		if c.Thorough {
			nl = 400
		}
		for i := 0; i < nl; i++ {
			if !c.Case(uint64(i)) {
				continue
			}
			r := c.Rand(uint64(i))
			ia := &bscript.InscriptionArgs{ContentType: string(r.Bytes(r.Intn(30))), Data: r.Bytes(r.Intn(3) * r.Intn(150))}
			prefix, _ := bscript.NewP2PKHFromPubKeyHash(r.Bytes(20))
			ia.LockingScriptPrefix = prefix
			if r.Chance(1, 3) {
				ia.EnrichedArgs = &bscript.EnrichedInscriptionArgs{OpReturnData: [][]byte{r.Bytes(1 + r.Intn(10)), r.Bytes(r.Intn(3))}}
			}
			tx := bt.NewTx()
			var err error
			if !c.Try("bt.(*Tx).Inscribe", func() { err = tx.Inscribe(ia) }) || err != nil || len(tx.Outputs) != 1 {
				continue
			}
			s := append([]byte{}, *tx.Outputs[0].LockingScript...)
			if refcodec.Classify(s) != refcodec.TplP2PKHInscription {
				c.Fault(fmt.Sprintf("reference recogniser does not recognise a script built by Tx.Inscribe: %x", s))
				continue
			}
			c.Count("inscribe:library-built-recognised-by-reference")
			judge(c, &c14Script{Script: s, Class: "instance:inscription-by-Tx.Inscribe"})
			c14Mutate(s, false, func(class string, m []byte) {
				judge(c, &c14Script{Script: m, Class: "mut:inscription-by-Tx.Inscribe:" + class})
			})
		}

		// ---- zero-length pushes -----------------------------------------
		c.Phase("zero-length-runs")
		kmax := 20
		if c.Thorough {
			kmax = 40
		}
		h20 := bytes.Repeat([]byte{0x11}, 20)
		prefixes := [][]byte{{}, {0x51}, {0x76, 0xa9}, c14Cat([]byte{0x76, 0xa9, 0x14}, h20, []byte{0x88, 0xac}), {0x00}, {0x6a}, {0x00, 0x6a}}
		suffixes := [][]byte{{}, {0xae}, {0x51, 0xae}, {0xac}, {0x68}}
		n = 0
		for _, z := range c14Soup[:4] {
			for k := 1; k <= kmax; k++ {
				n++
				if !c.Case(n) {
					continue
				}
				for _, pre := range prefixes {
					for _, suf := range suffixes {
						judge(c, &c14Script{Script: c14Cat(pre, bytes.Repeat(z, k), suf), Class: "zero-length-run"})
					}
				}
			}
		}
		c.Phase("extreme-length-claims")
		n = 0
		for _, h := range c14ExtremeClaims {
			for _, pre := range prefixes {
				for tail := 0; tail <= 8; tail++ {
					n++
					if !c.Case(n) {
						continue
					}
					judge(c, &c14Script{Script: c14Cat(pre, h, bytes.Repeat([]byte{0x51}, tail)), Class: "extreme-length-claim"})
				}
			}
		}
		c.Phase("token-soup")
		nsoup := 40000
		if c.Thorough {
			nsoup = 1500000
		}
		for i := 0; i < nsoup; i++ {
			if !c.Case(uint64(i)) {
				continue
			}
			r := c.Rand(uint64(i))
			var s []byte
			if r.Chance(1, 3) { // start like an inscription, diverge somewhere
				full := c14Inscription(r, []byte("a/b"), r.Bytes(2), nil)
				toks, _ := refcodec.Tokenize(full)
				s = append(s, full[:toks[r.Intn(len(toks))].Start]...)
			}
			for k := 1 + r.Intn(24); k > 0; k-- {
				s = append(s, prng.Pick(r, c14Soup)...)
			}
			judge(c, &c14Script{Script: s, Class: "token-soup"})
		}

		// ---- random bytes -----------------------------------------------
		c.Phase("random-bytes")
		nb := 60000
		if c.Thorough {
			nb = 2000000
		}
		for i := 0; i < nb; i++ {
			if !c.Case(uint64(i)) {
				continue
			}
			r := c.Rand(uint64(i))
			l := r.Intn(81)
			if r.Chance(1, 4) {
				l = r.Intn(8)
			}
			judge(c, &c14Script{Script: r.Bytes(l), Class: "random-bytes"})
		}
	}
	p.Floor = func(a *mon.Agg) string {
		for _, k := range []string{"instance:p2pkh", "instance:p2pk", "instance:p2sh", "instance:multisig", "instance:data", "instance:p2pkh-inscription",
			"inscribe:library-built-recognised-by-reference", "undecodable:judged", "zero-length-push:scripts", "neg:pubkeyhash-implies-template", "neg:nulldata-implies-prefix", "nodejson:marshalled", "nodejson-many:outputs-compared", "nodejson-many:documents>=48-outputs"} {
			if a.Cov[k] == 0 {
				return "counter " + k + " is zero"
			}
		}
		if a.Cov["exh:len0"] != 1 || a.Cov["exh:len1"] != 256 || a.Cov["exh:len2"] != 65536 {
			return fmt.Sprintf("exhaustive sweep incomplete: len0=%d len1=%d len2=%d", a.Cov["exh:len0"], a.Cov["exh:len1"], a.Cov["exh:len2"])
		}
		if _, ok := a.Cov["phase:exhaustive-len3"]; ok && a.Cov["exh:len3"] != 1<<24 {
			return fmt.Sprintf("exhaustive 3-byte sweep incomplete: %d of %d", a.Cov["exh:len3"], 1<<24)
		}
		return ""
	}
	{ // concurrent callers / readers (concurrent.go), after the sequential phases
		conc, run := concPhase(p, concInspect), p.Run
		p.Run = func(c *mon.Ctx) { run(c); conc(c) }
	}
	mon.Register(p)
}

var (
	c14Judged      uint64
	c14ReadBuffers = map[int][]byte{}
)

func c14Judge(c *mon.Ctx, in *c14Script) {
	c.Eval(1)
	s := []byte(in.Script)
	scr := bscript.NewFromBytes(mon.Exact(s)) // capacity == length: an access behind the end cannot go unnoticed
	if c14Judged++; c14Judged%2 == 0 && len(s) > 0 && len(s) <= 700 {
		// every other script is inspected in a read buffer the caller re-uses: same address, same
		// length as the script inspected there before, other content
		buf, ok := c14ReadBuffers[len(s)]
		if !ok {
			buf = make([]byte, len(s))
			c14ReadBuffers[len(s)] = buf
		}
		copy(buf, s)
		view := bscript.Script(buf)
		scr = &view
		c.Count("inspected-in-a-reused-read-buffer")
		// ... and when this script has been inspected, the next message arrives in the same buffer:
		// same length, other structure. What is said about it must not depend on what was there before.
		defer func() {
			for _, fill := range []byte{0x4b, 0x51, 0x00} {
				next := bytes.Repeat([]byte{fill}, len(s))
				if len(next) > 2 {
					next[len(next)-1] = 0xac
				}
				fresh := bscript.NewFromBytes(mon.Exact(next))
				copy(buf, next)
				var a, b string
				var a1, a2, a3, b1, b2, b3 bool
				if c.Try("bscript.(*Script).ScriptType", func() {
					a, a1, a2, a3 = view.ScriptType(), view.IsP2PK(), view.IsMultiSigOut(), view.IsP2PKHInscription()
					b, b1, b2, b3 = fresh.ScriptType(), fresh.IsP2PK(), fresh.IsMultiSigOut(), fresh.IsP2PKHInscription()
				}) && (a != b || a1 != b1 || a2 != b2 || a3 != b3) {
					c.Violationf("C14:answer-depends-on-what-the-buffer-held-before", "script %x… inspected in a buffer that held %x… before: type %q p2pk=%v multisig=%v inscription=%v; the same bytes in a new slice: %q %v %v %v", next[:min(len(next), 8)], s[:min(len(s), 8)], a, a1, a2, a3, b, b1, b2, b3)
				}
				copy(buf, s)
			}
		}()
	}
	defer func() { // every query is a read: the script is afterwards what it was
		if !bytes.Equal(*scr, s) {
			c.Violationf("C14:inspection-changed-the-script", "after the inspection queries the script is %x, it was %x", []byte(*scr), s)
		}
	}()
	toks, tr := refcodec.Tokenize(s)
	undecodable := tr >= 0
	tpl := refcodec.Classify(s)
	exh3 := in.Class == "exh3"
	if !exh3 {
		c.Distinct(prng.HashBytes(s))
	}
	for _, t := range toks {
		if t.Push && len(t.Data) == 0 {
			c.Count("zero-length-push:scripts")
			break
		}
	}
	detail := func() string {
		if len(s) > 400 {
			return fmt.Sprintf("script %x…(%d bytes) [%s]", s[:400], len(s), in.Class)
		}
		return fmt.Sprintf("script %x [%s]", s, in.Class)
	}

	var typ string
	var isP2PKH, isP2PK, isP2SH, isData, isMS, isInsc, isInscribed bool
	okType := c.Try("bscript.(*Script).ScriptType", func() { typ = scr.ScriptType() })
	okP2PKH := c.Try("bscript.(*Script).IsP2PKH", func() { isP2PKH = scr.IsP2PKH() })
	okP2PK := c.Try("bscript.(*Script).IsP2PK", func() { isP2PK = scr.IsP2PK() })
	okP2SH := c.Try("bscript.(*Script).IsP2SH", func() { isP2SH = scr.IsP2SH() })
	okData := c.Try("bscript.(*Script).IsData", func() { isData = scr.IsData() })
	okMS := c.Try("bscript.(*Script).IsMultiSigOut", func() { isMS = scr.IsMultiSigOut() })
	okInsc := c.Try("bscript.(*Script).IsP2PKHInscription", func() { isInsc = scr.IsP2PKHInscription() })
	c.Try("bscript.(*Script).IsInscribed", func() { isInscribed = scr.IsInscribed() })
	var pkh []byte
	var pkhErr error
	okPKH := c.Try("bscript.(*Script).PublicKeyHash", func() { pkh, pkhErr = scr.PublicKeyHash() })
	var addrs []string
	var addrErr error
	okAddr := c.Try("bscript.(*Script).Addresses", func() { addrs, addrErr = scr.Addresses() })
	c.Try("bscript.(*Script).ToASM", func() { _, _ = scr.ToASM() })
	var insErr error
	okIns := c.Try("bscript.(*Script).ParseInscription", func() { _, insErr = scr.ParseInscription() })
	tx := &bt.Tx{Version: 1}
	tx.AddOutput(&bt.Output{Satoshis: 1000, LockingScript: scr})
	var js []byte
	var jsErr error
	if c.Try("json.Marshal(tx.NodeJSON())", func() { js, jsErr = json.Marshal(tx.NodeJSON()) }) {
		if jsErr == nil && len(js) > 0 {
			c.Count("nodejson:marshalled")
		} else {
			c.Count("nodejson:error-returned")
		}
	}
	if !bytes.Equal(*scr, s) {
		c.Violationf("C14:inspection-mutated-script", "an inspection query modified the script bytes: %s", detail())
	}

	// ---- instances are reported as their type ---------------------------
	type pred struct {
		name string
		ok   bool
		v    bool
	}
	expect := func(wantType string, preds ...pred) {
		c.Count("instance:" + tpl.String())
		if okType && typ != wantType {
			c.Violationf("C14:misclassified:"+tpl.String()+"-reported-as-"+typ, "ScriptType() = %q for a %s template instance: %s", typ, tpl, detail())
		}
		for _, p := range preds {
			if p.ok && !p.v {
				c.Violationf("C14:predicate-false-on-instance:"+tpl.String()+":"+p.name, "%s() = false for a %s template instance: %s", p.name, tpl, detail())
			}
		}
	}
	switch tpl {
	case refcodec.TplP2PKH:
		expect(bscript.ScriptTypePubKeyHash, pred{"IsP2PKH", okP2PKH, isP2PKH})
		if okPKH && (pkhErr != nil || !bytes.Equal(pkh, s[3:23])) {
			c.Violationf("C14:p2pkh:publickeyhash-differs", "PublicKeyHash() = %x, %v: %s", pkh, pkhErr, detail())
		}
		if okAddr {
			want := refaddr.CheckEncode(0x00, s[3:23])
			if addrErr != nil || len(addrs) != 1 || addrs[0] != want {
				c.Violationf("C14:p2pkh:addresses-differ", "Addresses() = %v, %v, want [%s]: %s", addrs, addrErr, want, detail())
			}
		}
	case refcodec.TplP2PK:
		expect(bscript.ScriptTypePubKey, pred{"IsP2PK", okP2PK, isP2PK})
	case refcodec.TplP2SH:
		c.Count("instance:p2sh")
		if okP2SH && !isP2SH {
			c.Violationf("C14:predicate-false-on-instance:p2sh:IsP2SH", "IsP2SH() = false for a P2SH template instance: %s", detail())
		}
	case refcodec.TplMultisig:
		expect(bscript.ScriptTypeMultiSig, pred{"IsMultiSigOut", okMS, isMS})
	case refcodec.TplData:
		expect(bscript.ScriptTypeNullData, pred{"IsData", okData, isData})
	case refcodec.TplP2PKHInscription:
		expect(bscript.ScriptTypePubKeyHashInscription, pred{"IsP2PKHInscription", okInsc, isInsc}, pred{"IsInscribed", true, isInscribed})
		if okIns && insErr != nil {
			c.Violationf("C14:inscription:parse-error-on-instance", "ParseInscription() = %v for a P2PKH inscription instance: %s", insErr, detail())
		}
	}

	// ---- reported types imply the template ------------------------------
	if okType && typ == bscript.ScriptTypePubKeyHash || okP2PKH && isP2PKH {
		c.Count("neg:pubkeyhash-implies-template")
		if !refcodec.IsP2PKH(s) {
			c.Violationf("C14:pubkeyhash-without-template", "reported as P2PKH (ScriptType %q, IsP2PKH %v) but not the 25-byte template: %s", typ, isP2PKH, detail())
		}
	}
	if okType && typ == bscript.ScriptTypeNullData || okData && isData {
		c.Count("neg:nulldata-implies-prefix")
		if !refcodec.HasDataPrefix(s) {
			c.Violationf("C14:nulldata-without-data-prefix", "reported as data (ScriptType %q, IsData %v) but does not start with OP_RETURN / OP_FALSE OP_RETURN: %s", typ, isData, detail())
		}
	}
	if undecodable {
		c.Count("undecodable:judged")
		if okType && c14KeyBearing[typ] {
			c.Violationf("C14:undecodable-reported-as:"+typ, "ScriptType() = %q although the push at offset %d is cut: %s", typ, tr, detail())
		}
		for _, p := range []pred{{"IsP2PKH", okP2PKH, isP2PKH}, {"IsP2PK", okP2PK, isP2PK}, {"IsMultiSigOut", okMS, isMS}, {"IsP2PKHInscription", okInsc, isInsc}} {
			if p.ok && p.v {
				c.Violationf("C14:undecodable-predicate-true:"+p.name, "%s() = true although the push at offset %d is cut: %s", p.name, tr, detail())
			}
		}
	}
	if okType {
		if exh3 {
			c.Count("type3:" + typ)
		} else {
			c.Count("type:" + typ)
		}
	}
	if !exh3 && in.Class != "exh" {
		c.Sample(in.Class, 1, func() any {
			return map[string]any{"script": fmt.Sprintf("%x", s[:min(len(s), 120)]), "len": len(s), "class": in.Class, "script_type": typ, "reference_template": tpl.String(), "undecodable_at": tr}
		})
	}
}

// c14JudgeOutputs: json.Marshal(tx.NodeJSON()) of a transaction with many outputs reports, for
// output i, position i, the script's own hex and the type the inspection gives for that script
// (and, for a template instance, the template's type).
func c14JudgeOutputs(c *mon.Ctx, in *c14Outputs) {
	c.Eval(1)
	tx := &bt.Tx{Version: 1}
	for i, s := range in.Scripts {
		tx.AddOutput(&bt.Output{Satoshis: uint64(1000 + i), LockingScript: bscript.NewFromBytes(mon.Exact([]byte(s)))})
	}
	want := map[refcodec.Template]string{refcodec.TplP2PKH: bscript.ScriptTypePubKeyHash, refcodec.TplP2PK: bscript.ScriptTypePubKey, refcodec.TplMultisig: bscript.ScriptTypeMultiSig,
		refcodec.TplData: bscript.ScriptTypeNullData, refcodec.TplP2PKHInscription: bscript.ScriptTypePubKeyHashInscription}
	for pass := 0; pass < 2; pass++ { // the same object marshalled twice says the same
		var js []byte
		var err error
		if !c.Try("json.Marshal(tx.NodeJSON())", func() { js, err = json.Marshal(tx.NodeJSON()) }) {
			return
		}
		if err != nil {
			c.Violationf("C14:node-json-many:error", "json.Marshal(tx.NodeJSON()) of %d decodable output scripts: %v", len(in.Scripts), err)
			return
		}
		var doc struct {
			Vout []*struct {
				N            *int `json:"n"`
				ScriptPubKey *struct {
					Hex  string `json:"hex"`
					Type string `json:"type"`
					Asm  string `json:"asm"`
				} `json:"scriptPubKey"`
			} `json:"vout"`
		}
		if uerr := json.Unmarshal(js, &doc); uerr != nil {
			c.Violationf("C14:node-json-many:not-json", "document of %d outputs does not parse: %v", len(in.Scripts), uerr)
			return
		}
		if len(doc.Vout) != len(in.Scripts) {
			c.Violationf("C14:node-json-many:output-count", "%d outputs in the transaction, %d in the document", len(in.Scripts), len(doc.Vout))
			return
		}
		if len(in.Scripts) >= 48 {
			c.Count("nodejson-many:documents>=48-outputs")
		}
		for i, s := range in.Scripts {
			v := doc.Vout[i]
			c.Count("nodejson-many:outputs-compared")
			if v == nil || v.ScriptPubKey == nil || v.N == nil {
				c.Violationf("C14:node-json-many:output-missing", "vout[%d] of %d is null or has no scriptPubKey / n", i, len(in.Scripts))
				continue
			}
			if *v.N != i {
				c.Violationf("C14:node-json-many:position", "vout[%d].n = %d (of %d outputs)", i, *v.N, len(in.Scripts))
			}
			if v.ScriptPubKey.Hex != hex.EncodeToString(s) {
				c.Violationf("C14:node-json-many:hex-of-another-output", "vout[%d] of %d: hex %s, the output's script is %x", i, len(in.Scripts), v.ScriptPubKey.Hex, []byte(s))
				continue
			}
			var direct, asm string
			if !c.Try("bscript.(*Script).ScriptType", func() {
				sc := bscript.NewFromBytes(mon.Exact([]byte(s)))
				direct = sc.ScriptType()
				asm, _ = sc.ToASM()
			}) {
				continue
			}
			if v.ScriptPubKey.Type != direct {
				c.Violationf("C14:node-json-many:type-differs-from-inspection", "vout[%d] of %d: type %q, ScriptType() of the script %x says %q", i, len(in.Scripts), v.ScriptPubKey.Type, []byte(s), direct)
			}
			if v.ScriptPubKey.Asm != asm {
				c.Violationf("C14:node-json-many:asm-differs-from-inspection", "vout[%d] of %d: asm %q, ToASM() of the script %x says %q", i, len(in.Scripts), v.ScriptPubKey.Asm, []byte(s), asm)
			}
			if w, ok := want[refcodec.Classify(s)]; ok && v.ScriptPubKey.Type != w {
				c.Violationf("C14:node-json-many:instance-misreported", "vout[%d] of %d: type %q for a %s instance %x", i, len(in.Scripts), v.ScriptPubKey.Type, refcodec.Classify(s), []byte(s))
			}
		}
	}
	h := [][]byte{}
	for _, s := range in.Scripts {
		h = append(h, s)
	}
	c.Distinct(prng.HashBytes(h...))
}
