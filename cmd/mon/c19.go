package main

import (
	"bytes"
	"encoding/binary"
	"fmt"
	"hash/fnv"

	"github.com/libsv/go-bt/v2/bscript"
	"github.com/libsv/go-bt/v2/bscript/interpreter"
	"github.com/libsv/go-bt/v2/bscript/interpreter/debug"
	"github.com/libsv/go-bt/v2/bscript/interpreter/scriptflag"

	"verif/internal/gen"
	"verif/internal/mon"
	"verif/internal/prng"
	"verif/internal/refscript"
)

// C19 — debugging is non-intrusive: same verdict, ordered callbacks, isolated snapshots.

const (
	evBeforeExecute = iota
	evAfterExecute
	evBeforeStep
	evAfterStep
	evBeforeExecuteOpcode
	evAfterExecuteOpcode
	evBeforeScriptChange
	evAfterScriptChange
	evAfterSuccess
	evAfterError
	evBeforeStackPush
	evAfterStackPush
	evBeforeStackPop
	evAfterStackPop
)

var evNames = []string{"BeforeExecute", "AfterExecute", "BeforeStep", "AfterStep", "BeforeExecuteOpcode", "AfterExecuteOpcode", "BeforeScriptChange",
	"AfterScriptChange", "AfterSuccess", "AfterError", "BeforeStackPush", "AfterStackPush", "BeforeStackPop", "AfterStackPop"}

type dbgEvent struct {
	kind byte
	hash uint64 // of the snapshot (and of the data argument for stack callbacks)
}

func hashState(s *interpreter.State, extra []byte) uint64 {
	h := fnv.New64a()
	var b [8]byte
	wi := func(v int) {
		binary.LittleEndian.PutUint64(b[:], uint64(v))
		h.Write(b[:])
	}
	ws := func(st [][]byte) {
		wi(len(st))
		for _, x := range st {
			wi(len(x))
			h.Write(x)
		}
	}
	ws(s.DataStack)
	ws(s.AltStack)
	ws(s.ElseStack)
	ws(s.SavedFirstStack)
	wi(len(s.CondStack))
	for _, c := range s.CondStack {
		wi(c)
	}
	wi(s.ScriptIdx)
	wi(s.OpcodeIdx)
	wi(s.LastCodeSeparatorIdx)
	wi(s.NumOps)
	wi(int(s.Flags))
	if s.IsFinished {
		wi(1)
	}
	if s.Genesis.AfterGenesis {
		wi(2)
	}
	if s.Genesis.EarlyReturn {
		wi(3)
	}
	wi(len(extra))
	h.Write(extra)
	return h.Sum64()
}

// streamDebugger records the full callback stream; with scribble set it then
// overwrites, truncates and appends to everything in the snapshot it was handed.
type streamDebugger struct {
	recDebugger
	events   []dbgEvent
	scribble bool
	termErr  error
	limit    int
	// position seen at BeforeExecuteOpcode, against which the snapshots handed
	// to the stack callbacks of that instruction are compared
	inOp                     bool
	opScript, opIdx, opCount int
	incons                   string
	stackChecks              int
	opVal, sepBefore         int
	sepChecks                int
	condBefore               []int
	elseBefore               []string
	condChecks               int
	// what the last BeforeStackPop snapshot showed (sizes and tops of both stacks)
	popSeen          bool
	popDLen, popALen int
	popDTop, popATop []byte
	popChecks        int
	// operation counter of the snapshots over one instruction
	opsBefore, opsKeys int
	opsJudge           bool
	opsChecks          int
	// stack accounting over one instruction: reported pushes minus reported pops = change of the
	// number of items on the two stacks (instructions built from reported pushes and pops only)
	acctSize, acctPush, acctPop int
	acctOn                      bool
	acctChecks                  int
}

// c19Unreported: instructions that move items inside the stack without a reported pop
// (OP_NIP, OP_ROLL, OP_ROT, OP_SWAP, OP_2ROT, OP_2SWAP take an item out from below the top).
var c19Unreported = map[int]bool{0x77: true, 0x7a: true, 0x7b: true, 0x7c: true, 0x71: true, 0x72: true}

func (d *streamDebugger) ev(kind byte, s *interpreter.State, data []byte) {
	if d.limit > 0 && len(d.events) > d.limit {
		panic(mon.Sentinel{Why: "debugger called more than " + fmt.Sprint(d.limit) + " times"})
	}
	d.events = append(d.events, dbgEvent{kind, hashState(s, data)})
	switch kind {
	case evBeforeExecuteOpcode:
		d.inOp, d.opScript, d.opIdx, d.opCount = true, s.ScriptIdx, s.OpcodeIdx, len(s.Scripts)
		d.opVal, d.sepBefore = -1, s.LastCodeSeparatorIdx
		if s.ScriptIdx < len(s.Scripts) && s.OpcodeIdx < len(s.Scripts[s.ScriptIdx]) {
			d.opVal = int(s.Scripts[s.ScriptIdx][s.OpcodeIdx].Value())
		}
	case evBeforeStep:
		d.acctOn, d.acctSize, d.acctPush, d.acctPop = true, len(s.DataStack)+len(s.AltStack), 0, 0
		// NumOps over an instruction outside any conditional: +1 for every opcode above OP_16,
		// plus the number of public keys for an executed OP_CHECKMULTISIG(VERIFY) - in both eras
		d.opsBefore, d.opsJudge, d.opsKeys = s.NumOps, len(s.CondStack) == 0, -1
		d.condBefore = append(d.condBefore[:0], s.CondStack...)
		d.elseBefore = d.elseBefore[:0]
		for _, e := range s.ElseStack {
			d.elseBefore = append(d.elseBefore, string(e))
		}
		if n := len(s.DataStack); n > 0 {
			switch top := s.DataStack[n-1]; {
			case len(top) == 0:
				d.opsKeys = 0
			case len(top) == 1 && top[0] <= 20:
				d.opsKeys = int(top[0])
			}
		}
	case evAfterStep:
		if d.acctOn && d.opVal >= 0 && !c19Unreported[d.opVal] && s.ScriptIdx == d.opScript && !s.IsFinished {
			d.acctChecks++
			if got, want := d.acctPush-d.acctPop, len(s.DataStack)+len(s.AltStack)-d.acctSize; d.incons == "" && got != want {
				d.incons = fmt.Sprintf("callback %d (AfterStep): over the instruction 0x%02x at offset %d of script %d the two stacks went from %d to %d items, the stack callbacks reported %d pushes and %d pops",
					len(d.events)-1, d.opVal, d.opIdx, d.opScript, d.acctSize, d.acctSize+want, d.acctPush, d.acctPop)
			}
		}
		d.acctOn = false
		if d.opVal >= 0 && d.opsJudge && s.ScriptIdx == d.opScript && !s.IsFinished {
			want := 0
			if d.opVal > 0x60 {
				want = 1
			}
			if d.opVal == 0xae || d.opVal == 0xaf {
				want += d.opsKeys
			}
			if (d.opVal != 0xae && d.opVal != 0xaf) || d.opsKeys >= 0 {
				d.opsChecks++
				if got := s.NumOps - d.opsBefore; d.incons == "" && got != want {
					d.incons = fmt.Sprintf("callback %d (AfterStep): NumOps went from %d to %d over the instruction 0x%02x (expected +%d)", len(d.events)-1, d.opsBefore, s.NumOps, d.opVal, want)
				}
			}
		}
		// the conditional stacks of consecutive step snapshots, bottom first like every other stack:
		// IF / NOTIF add one entry on top, ELSE changes only the top one, ENDIF removes the top one,
		// every other instruction leaves both stacks as they were (the entries below the top never move)
		if d.opVal >= 0 && s.ScriptIdx == d.opScript && !s.IsFinished && d.incons == "" {
			d.condChecks++
			keep := len(d.condBefore)
			switch d.opVal {
			case 0x63, 0x64: // IF, NOTIF
				if len(s.CondStack) != keep+1 {
					keep = -1
				}
			case 0x67: // ELSE
				keep--
				if len(s.CondStack) != len(d.condBefore) {
					keep = -2
				}
			case 0x68: // ENDIF
				keep--
				if len(s.CondStack) != len(d.condBefore)-1 {
					keep = -2
				}
			default:
				if len(s.CondStack) != keep {
					keep = -2
				}
			}
			bad := keep < -1 || (keep == -1 && len(d.condBefore) != len(s.CondStack)-1)
			if keep == -1 {
				keep = len(d.condBefore)
			}
			for i := 0; !bad && i < keep && i < len(s.CondStack); i++ {
				bad = s.CondStack[i] != d.condBefore[i]
			}
			// the else stack exists after Genesis only; where both snapshots have one entry per open
			// conditional, the entries below the top keep their place and value
			if !bad && len(d.elseBefore) == len(d.condBefore) && len(s.ElseStack) == len(s.CondStack) {
				for i := 0; !bad && i < keep && i < len(s.ElseStack) && i < len(d.elseBefore); i++ {
					bad = string(s.ElseStack[i]) != d.elseBefore[i]
				}
			}
			if bad {
				d.incons = fmt.Sprintf("callback %d (AfterStep): conditional stacks went from cond=%v else=%q to cond=%v else=%q over the instruction 0x%02x", len(d.events)-1, d.condBefore, d.elseBefore, s.CondStack, s.ElseStack, d.opVal)
			}
		}
		// the code-separator position a snapshot reports only moves when an
		// OP_CODESEPARATOR was the instruction, and then to that instruction
		if d.opVal >= 0 && s.ScriptIdx == d.opScript && !s.IsFinished {
			d.sepChecks++
			if l := s.LastCodeSeparatorIdx; d.incons == "" && l != d.sepBefore && !(d.opVal == 0xab && l == d.opIdx) {
				d.incons = fmt.Sprintf("callback %d (AfterStep): LastCodeSeparatorIdx went from %d to %d over the instruction 0x%02x at offset %d of script %d", len(d.events)-1, d.sepBefore, l, d.opVal, d.opIdx, d.opScript)
			}
		}
		d.inOp, d.opVal = false, -1
	case evAfterExecuteOpcode, evAfterError, evAfterExecute:
		d.inOp = false
	case evBeforeStackPush, evAfterStackPush, evBeforeStackPop, evAfterStackPop:
		// a reported pop took place: between the Before and the After snapshot one of the two
		// stacks lost exactly its top element, and that element is what AfterStackPop is handed
		topOf := func(st [][]byte) []byte {
			if len(st) == 0 {
				return nil
			}
			return append([]byte{}, st[len(st)-1]...)
		}
		switch kind {
		case evAfterStackPush:
			d.acctPush++
		case evAfterStackPop:
			d.acctPop++
		}
		switch kind {
		case evBeforeStackPop:
			d.popSeen, d.popDLen, d.popALen, d.popDTop, d.popATop = true, len(s.DataStack), len(s.AltStack), topOf(s.DataStack), topOf(s.AltStack)
		case evAfterStackPop:
			if d.popSeen {
				d.popChecks++
				fromData := d.popDLen > 0 && len(s.DataStack) == d.popDLen-1 && len(s.AltStack) == d.popALen && bytes.Equal(data, d.popDTop)
				fromAlt := d.popALen > 0 && len(s.AltStack) == d.popALen-1 && len(s.DataStack) == d.popDLen && bytes.Equal(data, d.popATop)
				if d.incons == "" && !fromData && !fromAlt {
					d.incons = fmt.Sprintf("callback %d (AfterStackPop of %x): no stack lost its top element between BeforeStackPop (data %d / alt %d items, tops %x / %x) and AfterStackPop (data %d / alt %d items)",
						len(d.events)-1, data, d.popDLen, d.popALen, d.popDTop, d.popATop, len(s.DataStack), len(s.AltStack))
				}
			}
			d.popSeen = false
		default:
			d.popSeen = false
		}
		if d.inOp {
			d.stackChecks++
			if d.incons == "" && (s.ScriptIdx != d.opScript || s.OpcodeIdx != d.opIdx || len(s.Scripts) != d.opCount) {
				d.incons = fmt.Sprintf("callback %d (%s) during the instruction at script %d offset %d of %d scripts was handed a snapshot positioned at script %d offset %d of %d scripts",
					len(d.events)-1, evNames[kind], d.opScript, d.opIdx, d.opCount, s.ScriptIdx, s.OpcodeIdx, len(s.Scripts))
			}
			if d.incons == "" && kind == evAfterStackPush {
				top := func(st [][]byte) bool { return len(st) > 0 && bytes.Equal(st[len(st)-1], data) }
				if !top(s.DataStack) && !top(s.AltStack) {
					d.incons = fmt.Sprintf("callback %d (AfterStackPush of %x): the element is on top of neither the data stack nor the alt stack of the snapshot handed to it", len(d.events)-1, data)
				}
			}
		}
	}
	if d.scribble {
		for _, st := range [][][]byte{s.DataStack, s.AltStack, s.ElseStack, s.SavedFirstStack} {
			for i := range st {
				for j := range st[i] {
					st[i][j] = 0xEE
				}
				st[i] = append(st[i][:len(st[i])/2], 0xDE, 0xAD)
			}
		}
		for i := range s.DataStack {
			s.DataStack[i] = nil
		}
		s.DataStack = append(s.DataStack, []byte{0xBA, 0xAD})
		s.AltStack = append(s.AltStack[:0], []byte{0xBA, 0xAD}, []byte{1})
		for i := range s.CondStack {
			s.CondStack[i] = 99
		}
		s.CondStack = append(s.CondStack, 1, 0)
		s.ElseStack = nil
		s.SavedFirstStack = append(s.SavedFirstStack, []byte{0x51})
		s.NumOps, s.OpcodeIdx, s.LastCodeSeparatorIdx = 1<<30, 1<<20, 77
		s.Flags = ^s.Flags
		s.Genesis.AfterGenesis = !s.Genesis.AfterGenesis
	}
}

func (d *streamDebugger) BeforeExecute(s *interpreter.State) { d.ev(evBeforeExecute, s, nil) }
func (d *streamDebugger) AfterExecute(s *interpreter.State)  { d.ev(evAfterExecute, s, nil) }
func (d *streamDebugger) BeforeStep(s *interpreter.State)    { d.ev(evBeforeStep, s, nil) }
func (d *streamDebugger) AfterStep(s *interpreter.State) {
	d.recDebugger.steps = append(d.recDebugger.steps, stepSnap{Stack: cloneStack(s.DataStack), Alt: cloneStack(s.AltStack)})
	d.ev(evAfterStep, s, nil)
}
func (d *streamDebugger) BeforeExecuteOpcode(s *interpreter.State) {
	if s.ScriptIdx < len(s.Scripts) && s.OpcodeIdx < len(s.Scripts[s.ScriptIdx]) {
		d.lastOp, d.haveOp = s.Opcode().Value(), true
	}
	d.ev(evBeforeExecuteOpcode, s, nil)
}
func (d *streamDebugger) AfterExecuteOpcode(s *interpreter.State) { d.ev(evAfterExecuteOpcode, s, nil) }
func (d *streamDebugger) BeforeScriptChange(s *interpreter.State) { d.ev(evBeforeScriptChange, s, nil) }
func (d *streamDebugger) AfterScriptChange(s *interpreter.State)  { d.ev(evAfterScriptChange, s, nil) }
func (d *streamDebugger) BeforeStackPush(s *interpreter.State, b []byte) {
	d.ev(evBeforeStackPush, s, b)
}
func (d *streamDebugger) AfterStackPush(s *interpreter.State, b []byte) { d.ev(evAfterStackPush, s, b) }
func (d *streamDebugger) BeforeStackPop(s *interpreter.State)           { d.ev(evBeforeStackPop, s, nil) }
func (d *streamDebugger) AfterStackPop(s *interpreter.State, b []byte)  { d.ev(evAfterStackPop, s, b) }
func (d *streamDebugger) AfterSuccess(s *interpreter.State)             { d.ev(evAfterSuccess, s, nil) }
func (d *streamDebugger) AfterError(s *interpreter.State, err error) {
	d.termErr = err
	d.ev(evAfterError, s, []byte(fmt.Sprint(err)))
}

func cloneStack(s [][]byte) [][]byte {
	o := make([][]byte, len(s))
	for i := range s {
		o[i] = append([]byte{}, s[i]...)
	}
	return o
}

// checkGrammar runs the lifecycle automaton over the kinds of a callback
// stream. It returns "" or a description of the first deviation.
func checkGrammar(ev []dbgEvent, execErr error) string {
	i := 0
	peek := func() int {
		if i < len(ev) {
			return int(ev[i].kind)
		}
		return -1
	}
	expect := func(k int) string {
		if peek() != k {
			got := "end of stream"
			if peek() >= 0 {
				got = evNames[peek()]
			}
			return fmt.Sprintf("event %d: expected %s, got %s", i, evNames[k], got)
		}
		i++
		return ""
	}
	stackEvs := func() string {
		for {
			switch peek() {
			case evBeforeStackPush:
				i++
				if e := expect(evAfterStackPush); e != "" {
					return e
				}
			case evBeforeStackPop:
				i++
				if peek() == evAfterStackPop {
					i++
				}
			default:
				return ""
			}
		}
	}
	if len(ev) == 0 {
		if execErr == nil {
			return "no callbacks at all although the execution succeeded"
		}
		return "" // refused before the thread started (set-up failure)
	}
	if e := expect(evBeforeExecute); e != "" {
		return e
	}
	errorInLoop := false
loop:
	for peek() == evBeforeStep {
		i++
		if peek() == evAfterExecute { // invalid program counter
			errorInLoop = true
			break
		}
		if e := expect(evBeforeExecuteOpcode); e != "" {
			return e
		}
		if e := stackEvs(); e != "" {
			return e
		}
		switch peek() {
		case evAfterExecuteOpcode:
			i++
			if e := stackEvs(); e != "" {
				return e
			}
			if peek() == evBeforeScriptChange {
				i++
				if e := expect(evAfterScriptChange); e != "" {
					return e
				}
				if e := stackEvs(); e != "" {
					return e
				}
			}
			if peek() == evAfterStep {
				i++
				continue loop
			}
			errorInLoop = true
			break loop
		case evBeforeScriptChange: // early successful return
			i++
			if e := expect(evAfterScriptChange); e != "" {
				return e
			}
			if e := expect(evAfterStep); e != "" {
				return e
			}
		default:
			errorInLoop = true
			break loop
		}
	}
	if e := expect(evAfterExecute); e != "" {
		return e
	}
	if errorInLoop {
		if e := expect(evAfterError); e != "" {
			return e
		}
	} else {
		if e := stackEvs(); e != "" {
			return e
		}
		switch peek() {
		case evAfterSuccess, evAfterError:
			i++
		default:
			return fmt.Sprintf("event %d: expected a terminal callback", i)
		}
	}
	if i != len(ev) {
		return fmt.Sprintf("event %d: %s after the terminal callback", i, evNames[ev[i].kind])
	}
	last := ev[len(ev)-1].kind
	if (last == evAfterSuccess) != (execErr == nil) {
		return fmt.Sprintf("terminal callback %s but Execute returned %v", evNames[last], execErr)
	}
	return ""
}

func errText(e error) string {
	if e == nil {
		return "<nil>"
	}
	return e.Error()
}

func c19Judge(c *mon.Ctx, in *progInput) {
	if resourceHog(in.Unlock, in.Lock, in.Flags, in.Ctx) {
		c.Count("C19:skipped:element-above-4MiB-by-node-rules")
		return
	}
	c.Eval(1)
	run := func(d interpreter.Debugger) (err error, ok bool) {
		opts, _, _, _ := libOptions(in)
		if d != nil {
			opts = append(opts, interpreter.WithDebugger(d))
		}
		ok = c.Try("interpreter.Engine.Execute", func() { err = theEngine(c).Execute(opts...) })
		return
	}
	err0, ok := run(nil)
	if !ok {
		return
	}
	rec := &streamDebugger{limit: 400000}
	err1, ok := run(rec)
	if !ok {
		return
	}
	scr := &streamDebugger{scribble: true, limit: 400000}
	err2, ok := run(scr)
	if !ok {
		return
	}
	e := era(in.Flags)
	c.Count("C19:src:" + in.Src)
	c.CountN("C19:callbacks-recorded", int64(len(rec.events)))
	good := true
	// (a) verdict and error identical
	if errText(err0) != errText(err1) {
		good = false
		c.Violationf("C19:verdict-changes-with-debugger:"+e, "without debugger: %s; with a recording debugger: %s; unlock=%x lock=%x flags=%#x", errText(err0), errText(err1), []byte(in.Unlock), []byte(in.Lock), in.Flags)
	}
	if errText(err0) != errText(err2) {
		good = false
		c.Violationf("C19:verdict-changes-with-scribbling-debugger:"+e, "without debugger: %s; with a debugger that scribbles over its snapshots: %s; unlock=%x lock=%x flags=%#x", errText(err0), errText(err2), []byte(in.Unlock), []byte(in.Lock), in.Flags)
	}
	// (b) scribbling has no effect on what later callbacks see
	if len(rec.events) != len(scr.events) {
		good = false
		c.Violationf("C19:scribble-changes-callback-stream:length:"+e, "recording run saw %d callbacks, scribbling run %d; unlock=%x lock=%x flags=%#x", len(rec.events), len(scr.events), []byte(in.Unlock), []byte(in.Lock), in.Flags)
	} else {
		for i := range rec.events {
			if rec.events[i] != scr.events[i] {
				good = false
				c.Violationf("C19:scribble-changes-callback-stream:"+evNames[rec.events[i].kind]+":"+e,
					"callback %d (%s) differs between the recording and the scribbling run: snapshots are not isolated; unlock=%x lock=%x flags=%#x", i, evNames[rec.events[i].kind], []byte(in.Unlock), []byte(in.Lock), in.Flags)
				break
			}
		}
	}
	// (c) lifecycle grammar
	if g := checkGrammar(rec.events, err1); g != "" {
		good = false
		prev := "start"
		c.Violationf("C19:lifecycle-order:"+e, "callback stream violates the documented lifecycle: %s (after %s); unlock=%x lock=%x flags=%#x err=%s", g, prev, []byte(in.Unlock), []byte(in.Lock), in.Flags, errText(err1))
	}
	// (c') the snapshots handed to the stack callbacks of an instruction are positioned at that instruction and show the pushed element
	c.CountN("C19:stack-callback-snapshot-checks", int64(rec.stackChecks))
	c.CountN("C19:code-separator-position-checks", int64(rec.sepChecks))
	c.CountN("C19:conditional-stack-frame-checks", int64(rec.condChecks))
	c.CountN("C19:stack-accounting-checks", int64(rec.acctChecks))
	if rec.incons != "" {
		good = false
		c.Violationf("C19:stack-callback-snapshot-inconsistent:"+e, "%s; unlock=%x lock=%x flags=%#x", rec.incons, []byte(in.Unlock), []byte(in.Lock), in.Flags)
	}
	// (d) consecutive step snapshots: BeforeStep(k+1) == AfterStep(k)
	var lastAfter *dbgEvent
	for i := range rec.events {
		ev := &rec.events[i]
		switch ev.kind {
		case evAfterStep:
			lastAfter = ev
		case evBeforeStep:
			if lastAfter != nil {
				c.Count("C19:step-continuity-checks")
				if lastAfter.hash != ev.hash {
					good = false
					c.Violationf("C19:step-snapshots-discontinuous:"+e, "the state at BeforeStep (callback %d) differs from the state at the preceding AfterStep; unlock=%x lock=%x flags=%#x", i, []byte(in.Unlock), []byte(in.Lock), in.Flags)
				}
				lastAfter = nil
			}
		}
	}
	// … and consistent with the instruction executed between them (reference model)
	if ok, _ := c05Domain(in); ok && in.Ctx.HasTx {
		model := refscript.Verify(in.Unlock, in.Lock, modelOpts(in, nil, true))
		if model.Unsupported == "" {
			if !compareLockstep(c, "C19", in, &model, err1, &rec.recDebugger) {
				good = false
			}
		}
	}
	// (e) debug.NewDebugger: attached functions fire FIFO, and the hooks fire in the same order.
	// Every other case uses ONE debugger object that lives as long as the child
	// process (a debugger attached to one execution after another), the others a
	// fresh one.
	dd, logp := c19DefaultDebugger(len(in.Unlock)%2 == 0)
	*logp = (*logp)[:0]
	err3, ok := run(dd)
	if !ok {
		return
	}
	if errText(err0) != errText(err3) {
		good = false
		c.Violationf("C19:verdict-changes-with-default-debugger:"+e, "without debugger: %s; with debug.NewDebugger: %s; unlock=%x lock=%x", errText(err0), errText(err3), []byte(in.Unlock), []byte(in.Lock))
	}
	log := *logp
	if len(log) != 3*len(rec.events) {
		good = false
		c.Violationf("C19:default-debugger:call-count:"+e, "3 attached functions per hook were called %d times in total, expected 3 x %d; unlock=%x lock=%x", len(log), len(rec.events), []byte(in.Unlock), []byte(in.Lock))
	} else {
		for i := range rec.events {
			k := uint16(rec.events[i].kind)
			if log[3*i] != k || log[3*i+1] != 1<<8|k || log[3*i+2] != 2<<8|k {
				good = false
				c.Violationf("C19:default-debugger:fifo-order:"+evNames[k]+":"+e, "hook invocation %d (%s): attached functions fired as %v, expected first-attached first; unlock=%x lock=%x", i, evNames[k], log[3*i:3*i+3], []byte(in.Unlock), []byte(in.Lock))
				break
			}
		}
	}
	// (f) a debugger written the way Go programs extend a default implementation: a struct that embeds
	// debug.NewDebugger() (inheriting the Attach methods and anything else the value offers) and
	// overrides the callbacks. It is told exactly what the hand-written recorder is told.
	if (len(in.Unlock)+len(in.Lock))%3 == 0 {
		emb := &c19Embedding{DefaultDebugger: debug.NewDebugger()}
		err4, ok := run(emb)
		if !ok {
			return
		}
		c.Count("C19:embedding-debugger:runs")
		if errText(err0) != errText(err4) {
			good = false
			c.Violationf("C19:verdict-changes-with-embedding-debugger:"+e, "without debugger: %s; with a debugger embedding debug.NewDebugger(): %s; unlock=%x lock=%x", errText(err0), errText(err4), []byte(in.Unlock), []byte(in.Lock))
		}
		same := len(emb.kinds) == len(rec.events)
		for i := 0; same && i < len(emb.kinds); i++ {
			same = emb.kinds[i] == rec.events[i].kind
		}
		if !same {
			good = false
			c.Violationf("C19:embedding-debugger:callback-stream-differs:"+e, "a debugger that embeds debug.NewDebugger() and overrides the callbacks received %d callbacks, the hand-written recorder %d (or in another order); unlock=%x lock=%x flags=%#x",
				len(emb.kinds), len(rec.events), []byte(in.Unlock), []byte(in.Lock), in.Flags)
		}
	}
	for _, evn := range rec.events {
		c.Count("C19:callback:" + evNames[evn.kind])
	}
	if good && len(rec.events) >= 12 {
		c.Distinct(prng.HashBytes(in.Unlock, in.Lock, []byte{byte(in.Flags), byte(in.Flags >> 8), byte(in.Flags >> 16)}))
		c.Sample("stream:"+e, 2, func() any {
			var names []string
			for i, evn := range rec.events {
				if i >= 40 {
					names = append(names, "…")
					break
				}
				names = append(names, evNames[evn.kind])
			}
			return map[string]any{"unlock": in.Unlock, "lock": in.Lock, "flags": in.Flags, "error": errText(err0), "callbacks": len(rec.events), "stream": names}
		})
	}
}

// c19Embedding embeds the library's default debugger and overrides every callback.
type c19Embedding struct {
	debug.DefaultDebugger
	kinds []byte
}

func (d *c19Embedding) BeforeExecute(*interpreter.State) { d.kinds = append(d.kinds, evBeforeExecute) }
func (d *c19Embedding) AfterExecute(*interpreter.State)  { d.kinds = append(d.kinds, evAfterExecute) }
func (d *c19Embedding) BeforeStep(*interpreter.State)    { d.kinds = append(d.kinds, evBeforeStep) }
func (d *c19Embedding) AfterStep(*interpreter.State)     { d.kinds = append(d.kinds, evAfterStep) }
func (d *c19Embedding) BeforeExecuteOpcode(*interpreter.State) {
	d.kinds = append(d.kinds, evBeforeExecuteOpcode)
}
func (d *c19Embedding) AfterExecuteOpcode(*interpreter.State) {
	d.kinds = append(d.kinds, evAfterExecuteOpcode)
}
func (d *c19Embedding) BeforeScriptChange(*interpreter.State) {
	d.kinds = append(d.kinds, evBeforeScriptChange)
}
func (d *c19Embedding) AfterScriptChange(*interpreter.State) {
	d.kinds = append(d.kinds, evAfterScriptChange)
}
func (d *c19Embedding) BeforeStackPush(*interpreter.State, []byte) {
	d.kinds = append(d.kinds, evBeforeStackPush)
}
func (d *c19Embedding) AfterStackPush(*interpreter.State, []byte) {
	d.kinds = append(d.kinds, evAfterStackPush)
}
func (d *c19Embedding) BeforeStackPop(*interpreter.State) {
	d.kinds = append(d.kinds, evBeforeStackPop)
}
func (d *c19Embedding) AfterStackPop(*interpreter.State, []byte) {
	d.kinds = append(d.kinds, evAfterStackPop)
}
func (d *c19Embedding) AfterSuccess(*interpreter.State)      { d.kinds = append(d.kinds, evAfterSuccess) }
func (d *c19Embedding) AfterError(*interpreter.State, error) { d.kinds = append(d.kinds, evAfterError) }

var (
	c19Shared    debug.DefaultDebugger
	c19SharedLog []uint16
)

// c19DefaultDebugger returns a debug.NewDebugger() with three functions
// attached to every hook (they append hook kind | attachment number << 8 to the
// returned log): the process-wide one (reuse) or a new one.
func c19DefaultDebugger(reuse bool) (debug.DefaultDebugger, *[]uint16) {
	if reuse && c19Shared != nil {
		return c19Shared, &c19SharedLog
	}
	logp := new([]uint16)
	if reuse {
		logp = &c19SharedLog
	}
	dd := debug.NewDebugger()
	st := func(k int) func(*interpreter.State) {
		return func(*interpreter.State) { *logp = append(*logp, uint16(k)) }
	}
	sd := func(k int) func(*interpreter.State, []byte) {
		return func(*interpreter.State, []byte) { *logp = append(*logp, uint16(k)) }
	}
	for id := 0; id < 3; id++ {
		o := id << 8
		dd.AttachBeforeExecute(st(o | evBeforeExecute))
		dd.AttachAfterExecute(st(o | evAfterExecute))
		dd.AttachBeforeStep(st(o | evBeforeStep))
		dd.AttachAfterStep(st(o | evAfterStep))
		dd.AttachBeforeExecuteOpcode(st(o | evBeforeExecuteOpcode))
		dd.AttachAfterExecuteOpcode(st(o | evAfterExecuteOpcode))
		dd.AttachBeforeScriptChange(st(o | evBeforeScriptChange))
		dd.AttachAfterScriptChange(st(o | evAfterScriptChange))
		dd.AttachAfterSuccess(st(o | evAfterSuccess))
		k := o | evAfterError
		dd.AttachAfterError(func(*interpreter.State, error) { *logp = append(*logp, uint16(k)) })
		dd.AttachBeforeStackPush(sd(o | evBeforeStackPush))
		dd.AttachAfterStackPush(sd(o | evAfterStackPush))
		dd.AttachBeforeStackPop(st(o | evBeforeStackPop))
		dd.AttachAfterStackPop(sd(o | evAfterStackPop))
	}
	if reuse {
		c19Shared = dd
		// the process-wide debugger has always been through one execution already
		// (so that a replayed single case is a second use as well)
		func() {
			defer func() { _ = recover() }()
			_ = interpreter.NewEngine().Execute(
				interpreter.WithScripts(bscript.NewFromBytes([]byte{0x51}), bscript.NewFromBytes([]byte{0x51})),
				interpreter.WithDebugger(dd))
		}()
	}
	return dd, logp
}

func init() {
	p := &mon.Property{
		ID: "C19",
		Rule: "Each program (node vectors, the C05 catalog, structured random programs, vector mutants, scripts-only and tx contexts) is executed four times: without debugger, with a recording Debugger, with a Debugger that overwrites/truncates/appends every stack slice and scalar of every State it receives, and with debug.NewDebugger carrying three attached functions per hook (for every other program one debugger object that serves one execution after another for the life of the process, otherwise a new one). " +
			"Oracles: identical verdict and error text; identical callback streams (kind + hash of the snapshot and data argument) between the recording and the scribbling run; the stream is accepted by an automaton for the documented lifecycle with exactly one terminal callback matching the result; BeforeStep(k+1) state = AfterStep(k) state and stacks after each step equal the reference model's; attached functions fire first-attached-first and hooks in the same order. " +
			"distinct_nontrivial = distinct programs with >= 12 callbacks on which every oracle agreed.",
		Assum: []string{"the live []byte handed to stack callbacks and State.Scripts are not scribbled (the statement speaks of stack data inside a snapshot)",
			"lifecycle grammar derived from the documented order execute > step > opcode > stack push/pop > script change > success|error"},
	}
	judge := mon.Kind(p, "program", c19Judge)
	p.Run = func(c *mon.Ctx) {
		if !validateModel(c) {
			c.Fault("reference model failed validation against the node vectors")
			return
		}
		vs := loadVectors(c)
		c.Phase("vectors")
		for i, v := range vs {
			if c.Case(uint64(i)) {
				judge(c, &progInput{Unlock: v.Unlock, Lock: v.Lock, Flags: libFlagsOfVector(v.Flags), Src: "vector",
					Ctx: progCtx{HasTx: true, Version: 1, Sequence: 0xffffffff, Sats: v.Amount}})
			}
		}
		c.Phase("multisig-steps") // OP_CHECKMULTISIG(VERIFY) over n keys followed by further instructions: the snapshots of its step (operation counter included) in both eras
		{
			n := uint64(0)
			for nk := 0; nk <= 20; nk++ {
				for _, fl := range []uint32{0, uint32(scriptflag.UTXOAfterGenesis), uint32(scriptflag.UTXOAfterGenesis | scriptflag.EnableSighashForkID), uint32(scriptflag.VerifyNullFail)} {
					for _, verify := range []bool{false, true} {
						n++
						if !c.Case(n) {
							continue
						}
						lock := []byte{0x00} // number of signatures: none are required
						for k := 0; k < nk; k++ {
							lock = append(lock, gen.Push(append([]byte{0x02}, bytesOf(byte(0x10+k), 32)...))...)
						}
						lock = append(lock, gen.PushNum(int64(nk))...)
						if verify {
							lock = append(lock, 0xaf, 0x61, 0x51, 0x61)
						} else {
							lock = append(lock, 0xae, 0x61, 0x61)
						}
						judge(c, &progInput{Unlock: []byte{0x00}, Lock: lock, Flags: fl, Src: "multisig-steps", Ctx: progCtx{HasTx: true, Version: 1, Sequence: 0xffffffff, Sats: 5}})
					}
				}
			}
		}
		c.Phase("alt-stack-across-scripts") // the first script ends with items left on the alt stack (they are dropped there), the next one uses the alt stack again: every move is reported
		{
			n := uint64(0)
			unlocks := [][]byte{{0x51, 0x57, 0x6b}, {0x51, 0x57, 0x6b, 0x58, 0x6b}, {0x51}, {0x51, 0x52, 0x6b, 0x6c, 0x6b}, {0x57, 0x76, 0x6b}}
			locks := [][]byte{{0x76, 0x6b, 0x6c, 0x75}, {0x6b, 0x51}, {0x76, 0x76, 0x6b, 0x6b, 0x6c, 0x6c, 0x87}, {0x53, 0x6b, 0x6c, 0x53, 0x87, 0x69}, {0x6c}, {0x51, 0x6b, 0x51, 0x6b, 0x51}}
			for _, fl := range []uint32{0, uint32(scriptflag.UTXOAfterGenesis), uint32(scriptflag.VerifyCleanStack | scriptflag.Bip16), uint32(scriptflag.UTXOAfterGenesis | scriptflag.VerifyMinimalData)} {
				for _, u := range unlocks {
					for _, l := range locks {
						n++
						if c.Case(n) {
							judge(c, &progInput{Unlock: u, Lock: l, Flags: fl, Src: "alt-stack-across-scripts", Ctx: progCtx{HasTx: n%2 == 0, Version: 1, Sequence: 0xffffffff, Sats: 5}})
						}
					}
				}
			}
		}
		c.Phase("catalog")
		for i, in := range c05Catalog() {
			if c.Case(uint64(i)) {
				in := in
				judge(c, &in)
			}
		}
		c.Phase("random")
		N := uint64(30000)
		if c.Thorough {
			N = 1000000
		}
		for i := uint64(0); i < N; i++ {
			if !c.Case(i) {
				continue
			}
			r := c.Rand(i)
			fl := randNonSigFlags(r)
			u, l := gen.RandProgram(r, fl&uint32(scriptflag.UTXOAfterGenesis) != 0, 4+r.Intn(40))
			ctx := randCtx(r)
			src := "random"
			if r.Chance(1, 12) {
				redeem := l
				l = append(append([]byte{0xa9, 0x14}, gen.Hash160(redeem)...), 0x87)
				u = append(gen.PushOnlyPrefix(u), gen.Push(redeem)...)
				fl |= uint32(scriptflag.Bip16)
				src = "random-p2sh"
			}
			if r.Chance(1, 6) {
				ctx.HasTx = false
				src += "-scripts-only"
			}
			judge(c, &progInput{Unlock: u, Lock: l, Flags: fl, Ctx: ctx, Src: src})
		}
		c.Phase("vector-mutants")
		N = 10000
		if c.Thorough {
			N = 300000
		}
		for i := uint64(0); i < N; i++ {
			if !c.Case(i) {
				continue
			}
			r := c.Rand(i)
			v := vs[r.Intn(len(vs))]
			u, l := append([]byte{}, v.Unlock...), append([]byte{}, v.Lock...)
			if r.Chance(1, 3) {
				u = gen.Mutate(r, u)
			} else {
				l = gen.Mutate(r, l)
			}
			judge(c, &progInput{Unlock: u, Lock: l, Flags: libFlagsOfVector(v.Flags), Src: "vector-mutant",
				Ctx: progCtx{HasTx: true, Version: 1, Sequence: 0xffffffff, Sats: v.Amount}})
		}
	}
	p.Floor = func(a *mon.Agg) string {
		for _, n := range evNames {
			if a.Cov["C19:callback:"+n] == 0 {
				return "callback " + n + " never observed"
			}
		}
		if a.Cov["C19:step-continuity-checks"] < 10000 {
			return "too few step-continuity comparisons"
		}
		if a.Cov["C19:stack-accounting-checks"] < 10000 || a.Cov["C19:embedding-debugger:runs"] < 1000 || a.Cov["C19:src:alt-stack-across-scripts"] == 0 {
			return "too few stack-accounting checks / runs of the embedding debugger / alt-stack programs"
		}
		return ""
	}
	mon.Register(p)
}
