package main

import (
	"errors"
	"fmt"
	"math/big"
	"strconv"

	"github.com/libsv/go-bt/v2"

	"verif/internal/gen"
	"verif/internal/mon"
	"verif/internal/prng"
	"verif/internal/refcodec"
	"verif/internal/refmoney"
)

// C11 — size and fee accounting is exact and the size estimate is an upper bound.

type c11In struct {
	Tx    mTx     `json:"tx"`
	Quote mQuote  `json:"quote"`
	Key   mon.Hex `json:"key,omitempty"` // private key that signs the still unsigned inputs (empty: no signing step)
	Rel   string  `json:"rel"`           // amount relation the generator aimed at (label only)
	Class string  `json:"class"`         // generator class (label only)
}

var c11Rels = []string{"in<out", "zero", "fee-1", "fee", "fee+1", "ample"}

func init() {
	p := &mon.Property{
		ID: "C11",
		Rule: "Three generators, every transaction built through the public API. " +
			"partition: 0..4 inputs whose spent script is P2PKH, nil, empty, P2PK, a data script, a one-byte mutation of P2PKH, 13 empty pushes, an inscription envelope followed by a non-OP_RETURN trailer, or random bytes, unlocking script empty / nil / 1..120 arbitrary bytes; " +
			"0..6 outputs drawn from P2PKH, bare OP_RETURN, bare OP_FALSE OP_RETURN, OP_RETURN / OP_FALSE OP_RETURN with payloads of {0,1,75,76,255,256,65535,65536,100000} bytes, the near-data scripts {00, 00 00 6a, 51 6a, 6b, 6a alone}, empty and random scripts. " +
			"relations: P2PKH-funded transactions, the complete grid amount relation {in<out, paid 0, fee-1, fee, fee+1, ample} x basis {actual size, estimated size} x 24 standard quotes x 24 data quotes (s in {0,1,5,50,500,10^4}, b in {1,3,100,1000}, chosen independently), amounts computed from the reference model. " +
			"sign: 200 (quick) / 20,000 (thorough) PRNG private keys, each funding several transactions with 1..6 inputs of which a PRNG subset is already signed; the judge records the estimate, lets the library sign the remaining inputs (FillAllInputs when none was signed, FillInput otherwise) and measures again. " +
			"Every case is judged for: Size = len(Bytes) = model size; SizeWithTypes total/std/data against the model partition; EstimateSize(WithTypes) against the model or, when a spent script is missing/unsupported, an error from all four estimating calls; " +
			"EstimateFeesPaid against the floor formula; IsFeePaidEnough / EstimateIsFeePaidEnough against inputs>=outputs and inputs-outputs>=fee; estimate before signing >= size after signing. " +
			"distinct_nontrivial = distinct (transaction, quote, key) cases with at least one input and one output in which every comparison above was carried out (no call panicked).",
		Assum: []string{
			"reference size/fee arithmetic in /verif/internal/refmoney (math/big), validated at start-up against the public sizes of the standard P2PKH layouts",
			"'supported' spent script means the 25-byte P2PKH template or a P2PKH-inscription (refcodec.IsP2PKHInscription, cross-checked against Tx.Inscribe by C14); both take the 107-byte placeholder",
			"domain: fee quotes with bytes >= 1 and at most 10^6 sat/byte, amounts <= 21e14 sat; the ambiguous empty transaction is never generated; signatures are the library's own (RFC 6979, low S)",
		},
	}
	judge := mon.Kind(p, "account", c11Judge)
	p.Run = func(c *mon.Ctx) {
		if err := refmoney.SelfTest(); err != nil {
			c.Fault(err.Error())
			return
		}
		c.Phase("partition")
		N := uint64(60000)
		if c.Thorough {
			N = 1500000
		}
		for n := uint64(0); n < N; n++ {
			if !c.Case(n) {
				continue
			}
			judge(c, c11MakePartition(c.Rand(n)))
		}
		c.Phase("relations")
		reps := 1
		if c.Thorough {
			reps = 12
		}
		n := uint64(0)
		for rep := 0; rep < reps; rep++ {
			for _, rel := range c11Rels {
				for _, basis := range []string{"actual", "estimate"} {
					for _, s := range mQuoteSats {
						for _, b := range mQuoteBytes {
							for _, ds := range mQuoteSats {
								for _, db := range mQuoteBytes {
									n++
									if !c.Case(n) {
										continue
									}
									judge(c, c11MakeRelation(c.Rand(n), rel, basis, mQuote{StdSat: s, StdBytes: b, DataSat: ds, DataBytes: db}))
								}
							}
						}
					}
				}
			}
		}
		c.Phase("extreme-amounts") // one output close to 2^64-1: outputs exceed inputs, the predicates must say false
		n = 0
		for _, basis := range []string{"actual", "estimate"} {
			for _, dv := range []uint64{0, 1, 50, 106, 500, 5000, 1 << 20, 1 << 40} {
				for k := 0; k < 6; k++ {
					n++
					if !c.Case(n) {
						continue
					}
					r := c.Rand(n)
					in := c11MakeRelation(r, "ample", basis, randQuote(r))
					if in == nil || len(in.Tx.Outs) == 0 {
						continue
					}
					o := in.Tx.Outs[0]
					o.Repeat = 0
					o.Sats = ^uint64(0) - dv
					in.Tx.Outs = []mOuts{o}
					in.Rel, in.Class = "in<out", "extreme-amounts"
					judge(c, in)
				}
			}
		}
		c.Phase("sign")
		keys, per := uint64(200), uint64(40)
		if c.Thorough {
			keys, per = 20000, 6
		}
		for k := uint64(0); k < keys; k++ {
			if !c.Case(k) {
				continue
			}
			kr := c.Rand(k)
			key := kr.Bytes(32)
			for j := uint64(0); j < per; j++ {
				judge(c, c11MakeSign(kr, key))
			}
			c.Count("sign:keys")
		}
	}
	p.Floor = func(a *mon.Agg) string {
		need := []string{"sig-len(DER+hashtype):71", "sig-len(DER+hashtype):72", "sig-len(DER+hashtype):<=70", "sign:estimate>=signed-size:compared", "sign:partially-signed-before",
			"sign:all-unsigned-before(FillAllInputs)", "estimate-error:spent-script-missing", "estimate-error:spent-script-unsupported", "estimate:compared", "fees:compared",
			"partition:compared", "partition:data+std-mix", "payload:data-empty", "payload:data-100000", "quote:data!=std"}
		for _, pred := range []string{"actual", "estimate"} {
			for _, cell := range []string{"in<out", "paid<fee", "paid=fee>0", "paid>fee"} {
				need = append(need, "pred:"+pred+":"+cell)
			}
		}
		for _, k := range need {
			if a.Cov[k] == 0 {
				return "counter " + k + " is zero"
			}
		}
		return ""
	}
	{ // concurrent callers / readers (concurrent.go), after the sequential phases
		conc, run := concPhase(p, concSizes), p.Run
		p.Run = func(c *mon.Ctx) { run(c); conc(c) }
	}
	mon.Register(p)
}

// ---------------------------------------------------------------- generators

var c11Payloads = []int{0, 1, 75, 76, 255, 256, 65535, 65536, 100000}

func c11Output(r *prng.R, big *int) mOuts {
	var g mOuts
	switch k := r.Intn(24); {
	case k < 8:
		g.Script = gen.P2PKH(r.Bytes(20))
	case k < 10:
		g.Script = dataScript(r, k == 9, -1) // bare OP_RETURN / OP_FALSE OP_RETURN: empty payload
	case k < 15:
		n := prng.Pick(r, c11Payloads)
		if n > 256 {
			if *big >= 2 || !r.Chance(1, 6) {
				n = r.Intn(300)
			} else {
				*big++
			}
		}
		g.Script = dataScript(r, r.Bool(), n)
	case k < 17:
		g.Script = dataScript(r, r.Bool(), r.Intn(200))
	case k < 20:
		g.Script = prng.Pick(r, [][]byte{{0x00}, {0x00, 0x00, 0x6a}, {0x51, 0x6a}, {0x6b}, {0x6a}, {0x00, 0x6a}, {0x6a, 0x00}, {0x00, 0x6a, 0x00}, {0x00, 0x6b},
			// pushes whose DATA is 0x6a / 0x00 0x6a: not data scripts (the prefix test is on the script bytes, not on decoded parts)
			{0x01, 0x6a}, {0x01, 0x6a, 0x51}, {0x4c, 0x01, 0x6a, 0x51}, {0x01, 0x00, 0x01, 0x6a}, {0x00, 0x01, 0x6a}, {0x02, 0x00, 0x6a, 0x51}, {0x02, 0x6a, 0x6a}, {0x00, 0x00, 0x00, 0x6a}, {0x51, 0x00, 0x6a}})
	case k < 21:
		g.Script = []byte{}
	default:
		g.Script = nonDataOutputScript(r, 1+r.Intn(80))
	}
	g.Sats = gen.Sats(r) % 100_000_000_000
	return g
}

func thirteenEmptyPushes() []byte {
	var s []byte
	for i := 0; i < 13; i++ {
		s = append(s, 0x4c, 0x00)
	}
	return s
}

func c11SpentScript(r *prng.R) (script []byte, isNil bool) {
	switch k := r.Intn(16); {
	case k < 2: // a P2PKH-inscription output: supported, estimated like P2PKH
		return c11Inscription(r.Bytes(20), r), false
	case k < 8:
		return gen.P2PKH(r.Bytes(20)), false
	case k < 9:
		return nil, true
	case k < 10:
		return []byte{}, false
	case k < 11: // P2PK
		return append(append([]byte{33, 0x02}, r.Bytes(32)...), 0xac), false
	case k < 12:
		return dataScript(r, r.Bool(), r.Intn(40)), false
	case k < 14: // P2PKH with one template byte changed, or one byte longer/shorter
		s := gen.P2PKH(r.Bytes(20))
		switch r.Intn(4) {
		case 0:
			s[prng.Pick(r, []int{0, 1, 2, 23, 24})] ^= byte(1 + r.Intn(255))
		case 1:
			s = append(s, 0x61)
		case 2:
			s = s[:24]
		default:
			s = append([]byte{0x61}, s...)
		}
		return s, false
	case k < 15:
		if r.Bool() {
			return thirteenEmptyPushes(), false
		}
		// a complete P2PKH-inscription envelope followed by something that is not
		// an OP_RETURN tail: one opcode, or several parts (a second signature
		// check). Not an inscription, hence not a supported spent script.
		s := gen.P2PKH(r.Bytes(20))
		s = append(s, 0x00, 0x63, 0x03, 'o', 'r', 'd', 0x51)
		s = append(s, gen.Push([]byte("text/plain"))...)
		s = append(s, 0x00)
		s = append(s, gen.Push(r.Bytes(1+r.Intn(30)))...)
		s = append(s, 0x68)
		switch r.Intn(5) {
		case 4:
			// ... followed by OP_RETURN and metadata that ends in a push cut short: the script does
			// not tokenize, so it is no inscription (and nothing else the estimate supports)
			s = append(s, 0x6a, 0x01, 0x31)
			s = append(s, prng.Pick(r, [][]byte{{0x4c}, {0x05, 0x01}, {0x4d, 0x10}, {0x4e, 0x01, 0x00, 0x00, 0x00}, {0x02, 0x41}})...)
		case 0:
			s = append(s, 0x51)
		case 1:
			s = append(append(append(s, 0x69), gen.Push(append([]byte{0x02}, r.Bytes(32)...))...), 0xac)
		case 2:
			s = append(s, 0x75, 0x51, 0x6a)
		default:
			d := r.Bytes(4)
			d[0] = 0x11 // not 0x6a: the library's part decoder cannot tell a push whose data begins with 0x6a from OP_RETURN (DESIGN 9.3, narrowing 17)
			s = append(append(s, gen.Push(d)...), 0x75, 0x6a, 0x01, 0x31)
		}
		return s, false
	}
	return r.Bytes(1 + r.Intn(60)), false
}

// c11Inscription draws a P2PKH-inscription script of the shapes Tx.Inscribe
// builds (the reference recogniser's template; a bare trailing OP_RETURN, which
// the library also accepts, is left out).
func c11Inscription(pkh []byte, r *prng.R) []byte {
	for {
		if s := c04Inscription(pkh, r); refcodec.IsP2PKHInscription(s) {
			return s
		}
	}
}

// c11SetAmounts makes inputs - outputs hit the relation against the fee on the given basis.
func c11SetAmounts(r *prng.R, t *mTx, q mQuote, rel, basis string) string {
	if len(t.Ins) == 0 {
		return "no-inputs"
	}
	m := t.refTx()
	z := m.Size()
	if basis == "estimate" {
		z = m.EstSizeNoCheck()
	}
	f, ok := refmoney.U64(refmoney.Fee(z, q.ref()).Total)
	if !ok || f > mMaxSats/4 {
		return "fee-out-of-domain"
	}
	so, _ := refmoney.U64(m.TotalOut())
	var total uint64
	switch rel {
	case "in<out":
		if so == 0 {
			t.Outs = append(t.Outs, mOuts{Sats: 1 + uint64(r.Intn(5000)), Script: gen.P2PKH(r.Bytes(20))})
			return c11SetAmounts(r, t, q, rel, basis)
		}
		total = so - 1 - r.Uint64()%so
	case "zero":
		total = so
	case "fee-1":
		if f == 0 {
			rel = "fee"
			total = so
		} else {
			total = so + f - 1
		}
	case "fee":
		total = so + f
	case "fee+1":
		total = so + f + 1
	default:
		rel = "ample"
		total = so + f + 2 + gen.Sats(r)%1_000_000_000_000
	}
	if total > mMaxSats {
		return "total-out-of-domain"
	}
	for i, v := range splitSats(r, total, len(t.Ins)) {
		t.Ins[i].PrevSats = v
	}
	return rel
}

func c11MakePartition(r *prng.R) *c11In {
	in := &c11In{Class: "partition", Quote: randQuote(r)}
	t := &in.Tx
	t.Version, t.LockTime = gen.U32(r), gen.U32(r)
	allP2PKH := r.Chance(1, 2)
	for i, n := 0, r.Intn(5); i < n; i++ {
		gi := gen.In{TxID: r.Bytes(32), Vout: gen.U32(r), Seq: gen.U32(r)}
		if allP2PKH {
			gi.PrevScript = gen.P2PKH(r.Bytes(20))
		} else {
			gi.PrevScript, gi.PrevScriptNil = c11SpentScript(r)
		}
		switch r.Intn(4) {
		case 0:
			gi.Unlock = []byte{}
		case 1:
			gi.Unlock, gi.UnlockNil = nil, true
		case 2:
			gi.Unlock = r.Bytes(prng.Pick(r, []int{106, 107, 108, 106, 107, 108, 252, 253, 254, 300, 1000, 65535, 65536})) // as signed by the stock unlocker, or by the caller's own (longer scripts, on both sides of the length-prefix classes)
		default:
			gi.Unlock = r.Bytes(1 + r.Intn(120))
		}
		t.Ins = append(t.Ins, gi)
	}
	big := 0
	for i, n := 0, r.Intn(7); i < n; i++ {
		t.Outs = append(t.Outs, c11Output(r, &big))
	}
	if r.Chance(1, 40) { // output / input counts around the one-byte varint limit
		t.Outs = append(t.Outs, mOuts{Sats: 1, Script: gen.P2PKH(r.Bytes(20)), Repeat: prng.Pick(r, []int{249, 250, 251, 252, 253, 300})})
	}
	if r.Chance(1, 60) {
		for k, n := 0, prng.Pick(r, []int{250, 252, 253, 254}); k < n; k++ {
			t.Ins = append(t.Ins, gen.In{TxID: r.Bytes(32), Vout: uint32(k), Seq: gen.U32(r), PrevScript: gen.P2PKH(r.Bytes(20)), Unlock: []byte{}})
		}
	}
	if len(t.Ins) == 0 && len(t.Outs) == 0 && t.LockTime == 0xef000000 {
		t.LockTime = 0
	}
	in.Rel = c11SetAmounts(r, t, in.Quote, prng.Pick(r, c11Rels), prng.Pick(r, []string{"actual", "estimate"}))
	return in
}

func c11MakeRelation(r *prng.R, rel, basis string, q mQuote) *c11In {
	in := &c11In{Class: "relations:" + basis, Quote: q}
	t := &in.Tx
	t.Version, t.LockTime = gen.U32(r), gen.U32(r)
	for i, n := 0, 1+r.Intn(4); i < n; i++ {
		gi := gen.In{TxID: r.Bytes(32), Vout: gen.U32(r), Seq: gen.U32(r), PrevScript: gen.P2PKH(r.Bytes(20)), Unlock: []byte{}}
		switch r.Intn(4) {
		case 0:
			gi.Unlock, gi.UnlockNil = nil, true
		case 1:
			gi.Unlock = r.Bytes(prng.Pick(r, []int{106, 107, 108, 106, 107, 108, 252, 253, 254, 300, 1000, 65535, 65536})) // as signed by the stock unlocker, or by the caller's own (longer scripts, on both sides of the length-prefix classes)
		}
		t.Ins = append(t.Ins, gi)
	}
	big := 2 // no huge payloads in the grid
	for i, n := 0, r.Intn(5); i < n; i++ {
		t.Outs = append(t.Outs, c11Output(r, &big))
	}
	if r.Chance(2, 3) { // make sure both fee types matter
		t.Outs = append(t.Outs, mOuts{Sats: uint64(r.Intn(3)), Script: dataScript(r, r.Bool(), 1+r.Intn(2000))})
	}
	in.Rel = c11SetAmounts(r, t, q, rel, basis)
	return in
}

func c11MakeSign(r *prng.R, keyBytes []byte) *c11In {
	in := &c11In{Class: "sign", Quote: randQuote(r), Key: keyBytes}
	key := newKey(keyBytes)
	t := &in.Tx
	t.Version, t.LockTime = gen.U32(r), gen.U32(r)
	nIn := 1 + r.Intn(6)
	var pre []int
	partial := r.Chance(1, 3)
	for i := 0; i < nIn; i++ {
		gi := gen.In{TxID: r.Bytes(32), Vout: gen.U32(r), Seq: gen.U32(r), PrevScript: key.p2pkh(), Unlock: []byte{}}
		switch r.Intn(8) { // P2PKH outputs that commit to the key's uncompressed form, or to another key altogether; P2PKH-inscription outputs of the key
		case 0:
			gi.PrevScript = key.p2pkhUncompressed()
		case 1:
			gi.PrevScript = gen.P2PKH(r.Bytes(20))
		case 2, 3:
			gi.PrevScript = c11Inscription(key.pkh, r)
		}
		if r.Chance(1, 5) {
			gi.Unlock, gi.UnlockNil = nil, true
		}
		if partial && i > 0 && r.Bool() {
			pre = append(pre, i)
		}
		t.Ins = append(t.Ins, gi)
	}
	big := 2
	if r.Chance(1, 40) {
		big = 1
	}
	for i, n := 0, r.Intn(6); i < n; i++ {
		t.Outs = append(t.Outs, c11Output(r, &big))
	}
	in.Rel = c11SetAmounts(r, t, in.Quote, prng.Pick(r, c11Rels), "estimate")
	if len(pre) > 0 {
		if _, err := signShape(t, key, pre); err != nil {
			in.Class = "sign:presign-failed"
		}
	}
	return in
}

// ---------------------------------------------------------------- judge

func c11Judge(c *mon.Ctx, in *c11In) {
	c.Eval(1)
	if !in.Quote.inDomain() {
		c.Count("skipped:quote-out-of-domain")
		return
	}
	tx := in.Tx.build(c)
	fq := in.Quote.lib()
	q := in.Quote.ref()
	snap := takeSnap(tx)
	m := snap.ref()
	z := m.Size()
	complete := true
	describe := func() string {
		return fmt.Sprintf("quote [%s]; tx (extended hex) %s", in.Quote, snap.hexCapped())
	}
	c.Count("class:" + in.Class)
	if in.Quote.StdSat*in.Quote.DataBytes != in.Quote.DataSat*in.Quote.StdBytes {
		c.Count("quote:data!=std")
	}

	// ---- Size = len(Bytes) = model
	var size int
	var raw []byte
	if c.Try("bt.(*Tx).Size", func() { size = tx.Size() }) && c.Try("bt.(*Tx).Bytes", func() { raw = tx.Bytes() }) {
		if size != len(raw) {
			c.Violationf("C11:size!=len(bytes)", "Size() = %d, len(Bytes()) = %d; %s", size, len(raw), describe())
		}
		if uint64(size) != z.Total {
			c.Violationf("C11:size!=serialised-length-of-the-shape", "Size() = %d, the wire format gives %d; %s", size, z.Total, describe())
		}
	} else {
		complete = false
	}
	// ---- partition
	var st *bt.TxSize
	if c.Try("bt.(*Tx).SizeWithTypes", func() { st = tx.SizeWithTypes() }) && st != nil {
		c.Count("partition:compared")
		if z.Data > 0 && z.Std > 10 && len(m.Outs) > 1 {
			c.Count("partition:data+std-mix")
		}
		if st.TotalBytes != uint64(size) {
			c.Violationf("C11:partition:total!=size", "SizeWithTypes().TotalBytes = %d, Size() = %d; %s", st.TotalBytes, size, describe())
		}
		if st.TotalStdBytes+st.TotalDataBytes != st.TotalBytes {
			c.Violationf("C11:partition:std+data!=total", "%d + %d != %d; %s", st.TotalStdBytes, st.TotalDataBytes, st.TotalBytes, describe())
		}
		if st.TotalDataBytes != z.Data {
			c.Violationf("C11:partition:data-bytes", "TotalDataBytes = %d, script bytes of the data-carrier outputs = %d; %s", st.TotalDataBytes, z.Data, describe())
		}
	} else {
		complete = false
	}
	for i := range m.Outs {
		if s := m.Outs[i].Script; refmoney.IsData(s) {
			switch {
			case len(s) <= 2:
				c.Count("payload:data-empty")
			case len(s) >= 100000:
				c.Count("payload:data-100000")
			}
		}
	}

	// ---- estimation: the model's figure, or an error
	want, werr := m.EstSize()
	var est int
	var estT *bt.TxSize
	var fees *bt.TxFees
	var e1, e2, e3 error
	ok1 := c.Try("bt.(*Tx).EstimateSize", func() { est, e1 = tx.EstimateSize() })
	ok2 := c.Try("bt.(*Tx).EstimateSizeWithTypes", func() { estT, e2 = tx.EstimateSizeWithTypes() })
	ok3 := c.Try("bt.(*Tx).EstimateFeesPaid", func() { fees, e3 = tx.EstimateFeesPaid(fq) })
	var pe bool
	var e4 error
	ok4 := c.Try("bt.(*Tx).EstimateIsFeePaidEnough", func() { pe, e4 = tx.EstimateIsFeePaidEnough(fq) })
	if !(ok1 && ok2 && ok3 && ok4) {
		complete = false
	}
	if werr != nil {
		why := "spent-script-unsupported"
		if errors.Is(werr, refmoney.ErrPrevMissing) {
			why = "spent-script-missing"
		}
		c.Count("estimate-error:" + why)
		for _, x := range []struct {
			ok   bool
			err  error
			name string
			got  string
		}{{ok1, e1, "EstimateSize", fmt.Sprint(est)}, {ok2, e2, "EstimateSizeWithTypes", fmt.Sprintf("%+v", estT)}, {ok3, e3, "EstimateFeesPaid", fmt.Sprintf("%+v", fees)}, {ok4, e4, "EstimateIsFeePaidEnough", fmt.Sprint(pe)}} {
			if x.ok && x.err == nil {
				c.Violationf("C11:estimate-guessed:"+why+":"+x.name, "%s returned %s and no error although %v; %s", x.name, x.got, werr, describe())
			}
		}
	} else {
		// The statement fixes no placeholder length: what is judged is the library's own
		// estimate (its internal consistency, the data partition, that it is not below the
		// current size, and - below - that it is not below the signed size), and the fee
		// triple / predicate computed from THAT estimate. Agreement with the model's
		// 107-byte placeholder is recorded, not judged.
		var ez refmoney.Size // the library's estimate
		haveEst := false
		if ok2 {
			if e2 != nil || estT == nil {
				c.Violationf("C11:estimate-error-on-p2pkh-funded-tx:EstimateSizeWithTypes", "%v; %s", e2, describe())
			} else {
				ez, haveEst = refmoney.Size{Total: estT.TotalBytes, Std: estT.TotalStdBytes, Data: estT.TotalDataBytes}, true
				c.Count("estimate:compared")
				if ez == want {
					c.Count("estimate:equals-model-with-107-byte-placeholder")
				} else {
					c.Count("estimate:differs-from-model-with-107-byte-placeholder(not judged)")
				}
				if ez.Std+ez.Data != ez.Total {
					c.Violationf("C11:estimate:std+data!=total", "EstimateSizeWithTypes() = %+v; %s", *estT, describe())
				}
				if ez.Data != z.Data {
					c.Violationf("C11:estimate:data-bytes", "estimated TotalDataBytes = %d, script bytes of the data-carrier outputs = %d; %s", ez.Data, z.Data, describe())
				}
				if ez.Total < z.Total {
					c.Violationf("C11:estimate-below-current-size", "estimated %d < current serialised size %d; %s", ez.Total, z.Total, describe())
				}
			}
		}
		if ok1 {
			if e1 != nil {
				c.Violationf("C11:estimate-error-on-p2pkh-funded-tx:EstimateSize", "%v; %s", e1, describe())
			} else if haveEst && uint64(est) != ez.Total {
				c.Violationf("C11:estimate:EstimateSize!=EstimateSizeWithTypes.TotalBytes", "EstimateSize() = %d, EstimateSizeWithTypes().TotalBytes = %d; %s", est, ez.Total, describe())
			}
		}
		wf := refmoney.Fee(ez, q)
		if ok3 && haveEst {
			if e3 != nil || fees == nil {
				c.Violationf("C11:estimate-error-on-p2pkh-funded-tx:EstimateFeesPaid", "%v; %s", e3, describe())
			} else {
				c.Count("fees:compared")
				if bigU(fees.StdFeePaid).Cmp(wf.Std) != 0 {
					c.Violationf("C11:fee:standard!=floor(std*rate)", "StdFeePaid = %d, floor(%d*%d/%d) = %v; %s", fees.StdFeePaid, ez.Std, in.Quote.StdSat, in.Quote.StdBytes, wf.Std, describe())
				}
				if bigU(fees.DataFeePaid).Cmp(wf.Data) != 0 {
					c.Violationf("C11:fee:data!=floor(data*rate)", "DataFeePaid = %d, floor(%d*%d/%d) = %v; %s", fees.DataFeePaid, ez.Data, in.Quote.DataSat, in.Quote.DataBytes, wf.Data, describe())
				}
				if bigU(fees.TotalFeePaid).Cmp(wf.Total) != 0 {
					c.Violationf("C11:fee:total!=std+data", "TotalFeePaid = %d, floor(std)+floor(data) = %v; %s", fees.TotalFeePaid, wf.Total, describe())
				}
			}
		}
		if ok4 && haveEst {
			wantPE := m.Enough(wf.Total)
			cell := c11Cell(m, wf.Total)
			if e4 != nil {
				c.Violationf("C11:estimate-error-on-p2pkh-funded-tx:EstimateIsFeePaidEnough", "%v; %s", e4, describe())
			} else {
				c.Count("pred:estimate:" + cell)
				if pe != wantPE {
					c.Violationf("C11:predicate:EstimateIsFeePaidEnough:"+cell, "returned %v; inputs %v, outputs %v, fee on the estimated size %v; %s", pe, m.TotalIn(), m.TotalOut(), wf.Total, describe())
				}
			}
		}
		if !haveEst {
			complete = false
		}
	}
	// ---- the predicate on the actual size needs no spent scripts
	{
		af := refmoney.Fee(z, q).Total
		var pa bool
		var e5 error
		if c.Try("bt.(*Tx).IsFeePaidEnough", func() { pa, e5 = tx.IsFeePaidEnough(fq) }) {
			cell := c11Cell(m, af)
			if e5 != nil {
				c.Violationf("C11:predicate:IsFeePaidEnough:error", "%v; %s", e5, describe())
			} else {
				c.Count("pred:actual:" + cell)
				if pa != m.Enough(af) {
					c.Violationf("C11:predicate:IsFeePaidEnough:"+cell, "returned %v; inputs %v, outputs %v, fee on the actual size %v; %s", pa, m.TotalIn(), m.TotalOut(), af, describe())
				}
			}
		} else {
			complete = false
		}
	}

	// ---- signing: the estimate is an upper bound of what the library's signer produces
	if len(in.Key) == 32 && werr == nil && ok1 && e1 == nil {
		var idx []int
		for i := range snap.Ins {
			if len(snap.Ins[i].Unlock) == 0 {
				idx = append(idx, i)
			}
		}
		if len(idx) > 0 {
			key := newKey(in.Key)
			var serr error
			if !c.Try("bt.(*Tx).FillAllInputs", func() { serr = signInputs(tx, key, idx) }) {
				complete = false
			} else if serr != nil {
				c.Count("sign:error(not judged)")
				complete = false
			} else {
				if len(idx) == len(snap.Ins) {
					c.Count("sign:all-unsigned-before(FillAllInputs)")
				} else {
					c.Count("sign:partially-signed-before")
				}
				s2 := takeSnap(tx)
				m2 := s2.ref()
				for _, i := range idx {
					switch l := len(s2.Ins[i].Unlock) - 35; {
					case l <= 70:
						c.Count("sig-len(DER+hashtype):<=70")
						c.Count("sig-len(DER+hashtype):exactly-" + strconv.Itoa(l))
					default:
						c.Count("sig-len(DER+hashtype):" + strconv.Itoa(l))
					}
				}
				var size2 int
				if c.Try("bt.(*Tx).Size", func() { size2 = tx.Size() }) {
					c.Count("sign:estimate>=signed-size:compared")
					if uint64(size2) != m2.Size().Total {
						c.Violationf("C11:size!=serialised-length-of-the-shape:after-signing", "Size() = %d, the wire format gives %d; signed tx %s", size2, m2.Size().Total, s2.hexCapped())
					}
					if est < size2 {
						c.Violationf("C11:estimate-below-signed-size", "EstimateSize() before signing = %d < Size() after signing = %d; key %x; %s", est, size2, []byte(in.Key), describe())
					} else {
						c.Max("estimate-minus-signed-size", float64(est-size2))
						if est == size2 {
							c.Count("sign:estimate=signed-size")
						}
					}
					if !snapOutsEqual(snap.Outs, s2.Outs) {
						c.Count("sign:outputs-changed(not judged)")
					}
				}
			}
		}
	}
	if complete && len(m.Ins) > 0 && len(m.Outs) > 0 {
		c.Distinct(prng.HashBytes(snap.wire(true), []byte(in.Quote.String()), in.Key))
	}
	if z.Total <= 600 {
		c.Sample(in.Class, 1, func() any {
			return map[string]any{"input": in, "tx_extended_hex": fmt.Sprintf("%x", snap.wire(true)), "model_size": z, "model_estimated_size": fmt.Sprintf("%+v (error: %v)", want, werr)}
		})
	}
}

func c11Cell(m *refmoney.Tx, fee *big.Int) string {
	p := m.Paid()
	switch {
	case p.Sign() < 0:
		return "in<out"
	case p.Cmp(fee) < 0:
		return "paid<fee"
	case p.Cmp(fee) == 0:
		if fee.Sign() == 0 {
			return "paid=fee=0"
		}
		return "paid=fee>0"
	}
	return "paid>fee"
}
