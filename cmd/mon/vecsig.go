package main

import (
	"encoding/binary"

	"github.com/libsv/go-bk/bec"

	"verif/internal/refscript"
	"verif/internal/refsighash"
	"verif/internal/vectors"
)

// ecdsaChecker is used ONLY to validate the reference interpreter's
// signature-opcode logic against the node's own script vectors (it verifies
// real ECDSA signatures over digests from refsighash). The C06 monitor itself
// judges signatures by provenance.
type ecdsaChecker struct {
	tx   *refsighash.Tx
	sats uint64
}

func (e *ecdsaChecker) CheckSig(full, pub, code []byte, forkEnabled bool) bool {
	if len(full) == 0 {
		return false
	}
	body, ht := full[:len(full)-1], full[len(full)-1]
	var d [32]byte
	var err error
	if forkEnabled && ht&0x40 != 0 {
		d, err = refsighash.ForkIDDigest(e.tx, 0, code, e.sats, uint32(ht))
	} else {
		d, err = refsighash.LegacyDigest(e.tx, 0, refsighash.StripCodeSeparators(code), uint32(ht))
	}
	if err != nil {
		return false
	}
	pk, err := bec.ParsePubKey(pub, bec.S256())
	if err != nil {
		return false
	}
	sig, err := bec.ParseSignature(body, bec.S256())
	if err != nil {
		return false
	}
	return sig.Verify(d[:], pk)
}

func ser32(b []byte, v uint32) []byte { return binary.LittleEndian.AppendUint32(b, v) }

// vectorSpendingTx builds the node test framework's crediting and spending
// transactions for a script vector and returns the spending one.
func vectorSpendingTx(v *vectors.ScriptTest) *refsighash.Tx {
	// crediting tx: version 1, one input (null prevout, scriptSig "0 0", final sequence), one output (amount, scriptPubKey)
	var c []byte
	c = ser32(c, 1)
	c = append(c, 1)
	c = append(c, make([]byte, 32)...)
	c = ser32(c, 0xffffffff)
	c = append(c, 2, 0x00, 0x00)
	c = ser32(c, 0xffffffff)
	c = append(c, 1)
	c = binary.LittleEndian.AppendUint64(c, v.Amount)
	c = refsighash.CompactSize(c, uint64(len(v.Lock)))
	c = append(c, v.Lock...)
	c = ser32(c, 0)
	id := refsighash.Sha256d(c)
	return &refsighash.Tx{Version: 1, LockTime: 0,
		Inputs:  []refsighash.Input{{PrevHash: id, Vout: 0, Script: v.Unlock, Sequence: 0xffffffff}},
		Outputs: []refsighash.Output{{Value: v.Amount, Script: nil}}}
}

// validateModelSig checks the reference interpreter against the signature
// vectors of script_tests.json using real ECDSA.
func validateModelSig() (reproduced, wrong int, firstBad string) {
	for _, v := range vectorCache {
		v := v
		plain := refscript.Verify(v.Unlock, v.Lock, refscript.Opts{Flags: v.Flags, Tx: &refscript.TxCtx{Version: 1, Sequence: 0xffffffff}})
		if plain.Unsupported == "" {
			continue // not a signature vector
		}
		ck := &ecdsaChecker{tx: vectorSpendingTx(&v), sats: v.Amount}
		r := refscript.Verify(v.Unlock, v.Lock, refscript.Opts{Flags: v.Flags, Tx: &refscript.TxCtx{Version: 1, Sequence: 0xffffffff}, Sig: ck})
		if r.Unsupported != "" {
			continue
		}
		if r.OK == (v.Expected == "OK") {
			reproduced++
		} else {
			wrong++
			if firstBad == "" {
				firstBad = v.Comment + " [" + v.FlagStr + "] expected " + v.Expected + " model " + r.Err
			}
		}
	}
	return
}
