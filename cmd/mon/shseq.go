package main

import (
	"bytes"
	"context"
	"errors"
	"fmt"

	"github.com/libsv/go-bt/v2"
	"github.com/libsv/go-bt/v2/bscript"
	"github.com/libsv/go-bt/v2/sighash"

	"verif/internal/gen"
	"verif/internal/mon"
	"verif/internal/prng"
	"verif/internal/refsighash"
)

// Multi-step sequences on ONE transaction object (C02, C03): the hash is
// computed, the transaction is edited in place through its exported fields,
// and the hash is computed again – every answer must be the reference digest
// of the transaction as it is at that moment (no state may survive an edit).

type shStep struct {
	Edit     string  `json:"edit"`
	A        uint32  `json:"a"`
	V        uint64  `json:"v"`
	Bytes    mon.Hex `json:"bytes"`
	Idx      uint32  `json:"idx"`
	HashType uint8   `json:"hash_type"`
}

type shSeq struct {
	Shape gen.Shape `json:"shape"`
	Steps []shStep  `json:"steps"`
}

var shEdits = []string{"none", "out-sats", "out-script", "out-script-in-place", "in-seq", "in-vout", "in-txid", "prev-sats", "prev-script", "version", "locktime", "add-out", "del-out", "swap-outs", "unlock", "failed-fill-all", "failed-fill-all"}

func shApplyEdit(tx *bt.Tx, cur *gen.Shape, st *shStep) bool {
	no, ni := len(cur.Outs), len(cur.Ins)
	switch st.Edit {
	case "none":
	case "out-sats":
		if no == 0 {
			return false
		}
		i := int(st.A) % no
		tx.Outputs[i].Satoshis, cur.Outs[i].Sats = st.V, st.V
	case "out-script":
		if no == 0 {
			return false
		}
		i := int(st.A) % no
		tx.Outputs[i].LockingScript = bscript.NewFromBytes(append([]byte{}, st.Bytes...))
		cur.Outs[i].Script = append([]byte{}, st.Bytes...)
	case "out-script-in-place":
		if no == 0 {
			return false
		}
		i := int(st.A) % no
		if len(cur.Outs[i].Script) == 0 {
			return false
		}
		j := int(st.V % uint64(len(cur.Outs[i].Script)))
		(*tx.Outputs[i].LockingScript)[j] ^= 0x5a
		cur.Outs[i].Script[j] ^= 0x5a
	case "in-seq":
		i := int(st.A) % ni
		tx.Inputs[i].SequenceNumber, cur.Ins[i].Seq = uint32(st.V), uint32(st.V)
	case "in-vout":
		i := int(st.A) % ni
		tx.Inputs[i].PreviousTxOutIndex, cur.Ins[i].Vout = uint32(st.V), uint32(st.V)
	case "in-txid":
		if len(st.Bytes) != 32 {
			return false
		}
		i := int(st.A) % ni
		_ = tx.Inputs[i].PreviousTxIDAdd(append([]byte{}, st.Bytes...))
		cur.Ins[i].TxID = append([]byte{}, st.Bytes...)
	case "prev-sats":
		i := int(st.A) % ni
		tx.Inputs[i].PreviousTxSatoshis, cur.Ins[i].PrevSats = st.V, st.V
	case "prev-script":
		i := int(st.A) % ni
		tx.Inputs[i].PreviousTxScript = bscript.NewFromBytes(append([]byte{}, st.Bytes...))
		cur.Ins[i].PrevScript, cur.Ins[i].PrevScriptNil = append([]byte{}, st.Bytes...), false
	case "unlock":
		i := int(st.A) % ni
		tx.Inputs[i].UnlockingScript = bscript.NewFromBytes(append([]byte{}, st.Bytes...))
		cur.Ins[i].Unlock, cur.Ins[i].UnlockNil = append([]byte{}, st.Bytes...), false
	case "version":
		tx.Version, cur.Version = uint32(st.V), uint32(st.V)
	case "locktime":
		tx.LockTime, cur.LockTime = uint32(st.V), uint32(st.V)
	case "add-out":
		tx.Outputs = append(tx.Outputs, &bt.Output{Satoshis: st.V, LockingScript: bscript.NewFromBytes(append([]byte{}, st.Bytes...))})
		cur.Outs = append(cur.Outs, gen.Out{Sats: st.V, Script: append([]byte{}, st.Bytes...)})
	case "del-out":
		if no == 0 {
			return false
		}
		i := int(st.A) % no
		tx.Outputs = append(tx.Outputs[:i:i], tx.Outputs[i+1:]...)
		cur.Outs = append(cur.Outs[:i:i], cur.Outs[i+1:]...)
	case "swap-outs":
		if no < 2 {
			return false
		}
		i, j := int(st.A)%no, int(st.V%uint64(no))
		tx.Outputs[i], tx.Outputs[j] = tx.Outputs[j], tx.Outputs[i]
		cur.Outs[i], cur.Outs[j] = cur.Outs[j], cur.Outs[i]
	case "failed-fill-all":
		// FillAllInputs with the caller's own UnlockerGetter: the unlockers hand each input's
		// present unlocking script back, and the getter fails at one of the inputs (or never)
		g := &shFailingGetter{tx: tx, failAt: int(st.A) % (ni + 1)}
		mon.TryQuiet(func() { _ = tx.FillAllInputs(context.Background(), g) })
	default:
		return false
	}
	return true
}

type shFailingGetter struct {
	tx     *bt.Tx
	calls  int
	failAt int
}

func (g *shFailingGetter) Unlocker(context.Context, *bscript.Script) (bt.Unlocker, error) {
	g.calls++
	if g.calls-1 == g.failAt {
		return nil, errors.New("no key for this script")
	}
	return g, nil
}

func (g *shFailingGetter) UnlockingScript(_ context.Context, tx *bt.Tx, p bt.UnlockerParams) (*bscript.Script, error) {
	if in := tx.Inputs[p.InputIdx]; in.UnlockingScript != nil {
		return in.UnlockingScript, nil
	}
	return nil, errors.New("nothing to sign with")
}

func shJudgeSeq(c *mon.Ctx, in *shSeq, legacy bool) {
	ownerEditsDecodedEmpties(c)
	P := "C02"
	if legacy {
		P = "C03"
	}
	cur := in.Shape.Clone()
	for i := range cur.Ins {
		if len(cur.Ins[i].TxID) != 32 || cur.Ins[i].PrevScriptNil {
			return
		}
	}
	if len(cur.Ins) == 0 {
		return
	}
	tx := cur.BuildShared()
	// results handed to the caller earlier must stay what they were (the caller owns them)
	type kept struct {
		live, snap []byte
		what       string
	}
	var retained []kept
	checkRetained := func(k int) bool {
		for _, r := range retained {
			if !bytes.Equal(r.live, r.snap) {
				c.Violationf(P+":sequence:returned-result-changed-later:"+r.what, "a %s returned by an earlier call has changed by step %d of the sequence (now %x…, was %x…): the result shares memory with library state", r.what, k, r.live[:min(len(r.live), 24)], r.snap[:min(len(r.snap), 24)])
				return false
			}
		}
		return true
	}
	for k := range in.Steps {
		st := &in.Steps[k]
		if !shApplyEdit(tx, cur, st) {
			continue
		}
		if legacy == (st.HashType&0x40 != 0) {
			continue
		}
		idx := int(st.Idx) % len(cur.Ins)
		c.Eval(1)
		var got []byte
		var err error
		if !c.Try("bt.(*Tx).CalcInputSignatureHash", func() { got, err = tx.CalcInputSignatureHash(uint32(idx), sighash.Flag(st.HashType)) }) {
			return
		}
		if err != nil {
			c.Violationf(P+":sequence:error-after-edit:"+st.Edit, "step %d: CalcInputSignatureHash(idx %d, type %#x) returned %v after in-place edit %q", k, idx, st.HashType, err, st.Edit)
			return
		}
		m := shModelTx(cur)
		var want [32]byte
		if legacy {
			want, err = refsighash.LegacyDigest(m, idx, cur.Ins[idx].PrevScript, uint32(st.HashType))
		} else {
			want, err = refsighash.ForkIDDigest(m, idx, cur.Ins[idx].PrevScript, cur.Ins[idx].PrevSats, uint32(st.HashType))
		}
		if err != nil {
			c.Fault("sequence: model error " + err.Error())
			return
		}
		c.Count("sequence:step:" + st.Edit)
		retained = append(retained, kept{got, append([]byte{}, got...), "signature hash"})
		var pre []byte
		var perr error
		if legacy {
			c.Try("bt.(*Tx).CalcInputPreimageLegacy", func() { pre, perr = tx.CalcInputPreimageLegacy(uint32(idx), sighash.Flag(st.HashType)) })
		} else {
			c.Try("bt.(*Tx).CalcInputPreimage", func() { pre, perr = tx.CalcInputPreimage(uint32(idx), sighash.Flag(st.HashType)) })
		}
		if perr == nil && len(pre) > 0 {
			retained = append(retained, kept{pre, append([]byte{}, pre...), "preimage"})
		}
		if !checkRetained(k) {
			return
		}
		if !bytes.Equal(got, want[:]) {
			c.Violationf(P+":sequence:stale-or-wrong-digest-after:"+st.Edit, "step %d of a sequence on one tx object: after in-place edit %q the signature hash (idx %d, type %#x) is %x, the reference digest of the transaction as it now is: %x", k, st.Edit, idx, st.HashType, got, want[:])
			return
		}
		// and the transaction is what the edits made it, nothing else
		if b := tx.ExtendedBytes(); !bytes.Equal(b, cur.Build().ExtendedBytes()) {
			c.Violationf(P+":sequence:tx-modified", "step %d: after CalcInputSignatureHash the transaction no longer serialises as the edited shape does", k)
			return
		}
	}
	c.Distinct(prng.HashBytes([]byte(fmt.Sprint(in.Steps)), in.Shape.Build().Bytes()))
	c.Sample("sequence", 1, func() any { return in })
}

// shRunSeq generates the sequences phase.
func shRunSeq(c *mon.Ctx, forkid bool, judge func(*mon.Ctx, *shSeq)) {
	c.Phase("edit-sequences")
	N := uint64(3000)
	if c.Thorough {
		N = 150000
	}
	for i := uint64(0); i < N; i++ {
		if !c.Case(i) {
			continue
		}
		r := c.Rand(i)
		sh := gen.RandShape(r, gen.ShapeOpts{MinIns: 1, MaxIns: 4, MaxOuts: 4})
		seq := &shSeq{Shape: *sh}
		for k := 2 + r.Intn(8); k > 0; k-- {
			ht := uint8(r.Intn(256))
			if r.Chance(2, 3) {
				ht = uint8(1+r.Intn(3)) | uint8(r.Intn(2))<<7
			}
			if forkid {
				ht |= 0x40
			} else {
				ht &^= 0x40
			}
			st := shStep{Edit: prng.Pick(r, shEdits), A: uint32(r.Intn(8)), V: gen.U64(r), Idx: uint32(r.Intn(8)), HashType: ht}
			switch st.Edit {
			case "in-txid":
				st.Bytes = r.Bytes(32)
			case "out-script", "prev-script", "add-out", "unlock":
				st.Bytes = r.Bytes(r.Intn(40))
			}
			seq.Steps = append(seq.Steps, st)
		}
		judge(c, seq)
	}
}
