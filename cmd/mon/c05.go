package main

import (
	"bytes"
	"fmt"
	"verif/internal/refcodec"

	"github.com/libsv/go-bt/v2/bscript"
	"github.com/libsv/go-bt/v2/bscript/interpreter"
	"github.com/libsv/go-bt/v2/bscript/interpreter/scriptflag"

	"verif/internal/gen"
	"verif/internal/mon"
	"verif/internal/prng"
	"verif/internal/refscript"
	"verif/internal/vectors"
)

// C05 — the interpreter evaluates all non-signature opcodes exactly per the
// BSV script rules: lock-step comparison with the reference model.

// the nine non-signature policy flags
var nonSigFlags = []scriptflag.Flag{
	scriptflag.Bip16, scriptflag.DiscourageUpgradableNops, scriptflag.VerifyCheckLockTimeVerify,
	scriptflag.VerifyCheckSequenceVerify, scriptflag.VerifyCleanStack, scriptflag.VerifyMinimalData,
	scriptflag.VerifySigPushOnly, scriptflag.UTXOAfterGenesis, scriptflag.VerifyMinimalIf,
}

func flagSubset(mask int) uint32 {
	var f scriptflag.Flag
	for i, x := range nonSigFlags {
		if mask&(1<<i) != 0 {
			f |= x
		}
	}
	return uint32(f)
}

func randNonSigFlags(r *prng.R) uint32 {
	f := flagSubset(r.Intn(1 << len(nonSigFlags)))
	if r.Chance(1, 2) { // half the programs run with few flags so that most of them execute deeply
		f &= uint32(scriptflag.UTXOAfterGenesis | scriptflag.Bip16)
	}
	return f
}

var vectorCache []vectors.ScriptTest

func loadVectors(c *mon.Ctx) []vectors.ScriptTest {
	if vectorCache != nil {
		return vectorCache
	}
	vs, err := vectors.LoadScriptTests("testdata/script_tests.json")
	if err != nil {
		c.Fault("cannot load node vectors: " + err.Error())
		return nil
	}
	vectorCache = vs
	return vs
}

// validateModel re-checks the reference model against the node vectors.
func validateModel(c *mon.Ctx) bool {
	vs := loadVectors(c)
	if vs == nil {
		return false
	}
	ok, skipped := 0, 0
	for _, v := range vs {
		r := refscript.Verify(v.Unlock, v.Lock, refscript.Opts{Flags: v.Flags, Tx: &refscript.TxCtx{Version: 1, LockTime: 0, Sequence: 0xffffffff}})
		if r.Unsupported != "" {
			skipped++
			continue
		}
		if r.OK != (v.Expected == "OK") {
			c.Fault(fmt.Sprintf("reference model disagrees with node vector %d (%s): model ok=%v err=%s expected %s", v.Line, v.Comment, r.OK, r.Err, v.Expected))
			return false
		}
		ok++
	}
	c.Info("script_model_vectors_reproduced", ok)
	c.Info("script_model_vectors_needing_signatures", skipped)
	sigOK, sigWrong, bad := validateModelSig()
	c.Info("model_signature_vectors_reproduced_with_real_ecdsa", sigOK)
	if sigWrong > 0 {
		c.Fault(fmt.Sprintf("reference model disagrees with %d signature vectors of the node (first: %s)", sigWrong, bad))
		return false
	}
	return ok >= 1200
}

// libFlagsOfVector maps a vector's flag string to the library's flags.
func libFlagsOfVector(f refscript.Flags) uint32 {
	var out scriptflag.Flag
	m := map[refscript.Flags]scriptflag.Flag{
		refscript.FP2SH: scriptflag.Bip16, refscript.FStrictEnc: scriptflag.VerifyStrictEncoding, refscript.FDERSig: scriptflag.VerifyDERSignatures,
		refscript.FLowS: scriptflag.VerifyLowS, refscript.FNullDummy: scriptflag.StrictMultiSig, refscript.FSigPushOnly: scriptflag.VerifySigPushOnly,
		refscript.FMinimalData: scriptflag.VerifyMinimalData, refscript.FDiscourageNops: scriptflag.DiscourageUpgradableNops,
		refscript.FCleanStack: scriptflag.VerifyCleanStack, refscript.FMinimalIf: scriptflag.VerifyMinimalIf, refscript.FNullFail: scriptflag.VerifyNullFail,
		refscript.FCLTV: scriptflag.VerifyCheckLockTimeVerify, refscript.FCSV: scriptflag.VerifyCheckSequenceVerify,
		refscript.FForkID: scriptflag.EnableSighashForkID, refscript.FGenesis: scriptflag.UTXOAfterGenesis,
	}
	for k, v := range m {
		if f&k != 0 {
			out |= v
		}
	}
	return uint32(out)
}

// c05Domain says whether the program is inside the domain where the oracle speaks (DESIGN §4).
func c05Domain(in *progInput) (bool, string) {
	f := scriptflag.Flag(in.Flags)
	if f&scriptflag.VerifyCleanStack != 0 && f&scriptflag.Bip16 == 0 {
		return false, "cleanstack-without-p2sh"
	}
	if f&scriptflag.Bip16 != 0 && f&scriptflag.UTXOAfterGenesis != 0 && refscript.IsP2SH(in.Lock) && !refscript.IsPushOnly(in.Unlock) {
		return false, "p2sh-shape-after-genesis-non-push-only"
	}
	if len(in.Unlock) == 0 && len(in.Lock) == 0 {
		return true, ""
	}
	return true, ""
}

func c05Judge(c *mon.Ctx, in *progInput) {
	if ok, why := c05Domain(in); !ok {
		c.Count("C05:out-of-domain:" + why)
		return
	}
	c.Eval(1)
	mo := modelOpts(in, nil, true)
	model := refscript.Verify(in.Unlock, in.Lock, mo)
	if model.Unsupported != "" {
		c.Count("C05:model-declined:" + model.Unsupported)
		return
	}
	// Every third program has been executed once before, from buffers that the caller has since
	// re-used for the next message (a node validating out of its receive buffer). The judged
	// execution - same bytes, other memory - is compared with the model as always, and its
	// outcome is the one the earlier execution had.
	havePre, preErr := false, ""
	if (len(in.Unlock)+2*len(in.Lock))%3 == 1 {
		o, _, pu, pl := libOptions(in)
		var e0 error
		if c.Try("interpreter.Engine.Execute", func() { e0 = theEngine(c).Execute(o...) }) {
			havePre, preErr = true, errText(e0)
		}
		for _, b := range []*bscript.Script{pu, pl} {
			for i := range *b {
				(*b)[i] ^= 0xff
			}
		}
		c.Count("C05:executed-before-from-buffers-overwritten-since")
	}
	rec := &recDebugger{}
	opts, _, _, _ := libOptions(in)
	opts = append(opts, interpreter.WithDebugger(rec))
	var libErr error
	if !c.Try("interpreter.Engine.Execute", func() { libErr = theEngine(c).Execute(opts...) }) {
		c.Count("C05:lib-panicked")
		return
	}
	if havePre && preErr != errText(libErr) {
		c.Violationf("C05:outcome-differs-from-an-earlier-execution-of-the-same-bytes:"+era(in.Flags), "first execution: %s; second execution (the first one's buffers overwritten in between): %s; unlock=%x lock=%x flags=%#x",
			preErr, errText(libErr), []byte(in.Unlock), []byte(in.Lock), in.Flags)
	}
	e := era(in.Flags)
	c.Count("C05:src:" + in.Src)
	agree := compareLockstep(c, "C05", in, &model, libErr, rec)
	// coverage: per opcode x era x {executed-ok, skipped, error}
	for _, s := range model.Steps {
		if s.Exec {
			c.Count("op:" + vectors.OpName(s.Opcode) + ":" + e + ":executed-ok")
		} else {
			c.Count("op:" + vectors.OpName(s.Opcode) + ":" + e + ":skipped")
		}
	}
	if model.HasFail {
		c.Count("op:" + vectors.OpName(model.FailOp) + ":" + e + ":executed-error")
	}
	if model.OK {
		c.Count("C05:both-accept:" + e)
	} else if agree {
		c.Count("C05:both-reject:" + e)
	}
	// non-trivial: >= 3 instructions processed by both incl. one non-push opcode, and some non-empty stack agreed on
	if agree && len(model.Steps) >= 3 {
		nonPush, nonEmpty := false, false
		for _, s := range model.Steps {
			if s.Opcode > 0x60 && s.Exec {
				nonPush = true
			}
			if len(s.Stack) > 0 {
				nonEmpty = true
			}
		}
		if nonPush && nonEmpty {
			c.Distinct(prng.HashBytes(in.Unlock, in.Lock, []byte{byte(in.Flags), byte(in.Flags >> 8), byte(in.Flags >> 16)}))
			c.Sample("lockstep:"+e, 2, func() any {
				var tr []string
				for _, s := range model.Steps {
					tr = append(tr, fmt.Sprintf("%s -> %s | alt %s", vectors.OpName(s.Opcode), fmtStack(s.Stack), fmtStack(s.Alt)))
				}
				if len(tr) > 12 {
					tr = tr[:12]
				}
				return map[string]any{"unlock": in.Unlock, "lock": in.Lock, "flags": in.Flags, "accepted": model.OK, "steps_compared": len(model.Steps), "trace": tr}
			})
		}
	}
}

func defaultCtx() progCtx {
	return progCtx{HasTx: true, Version: 2, LockTime: 0, Sequence: 0xfffffffe, Sats: 1000}
}

func randCtx(r *prng.R) progCtx {
	c := progCtx{HasTx: true, Version: prng.Pick(r, []uint32{1, 2, 2, 0xffffffff}), Sats: uint64(r.Intn(100000))}
	c.LockTime = prng.Pick(r, []uint32{0, 1, 100, 499999999, 500000000, 500000001, 65536, 0xffffffff})
	c.Sequence = prng.Pick(r, []uint32{0, 1, 100, 65535, 65536, 1 << 22, 1<<22 + 5, 1<<22 + 65535, 1 << 31, 0xfffffffe, 0xffffffff})
	return c
}

// c05Catalog: hand-written programs around rules that are easy to get wrong.
func c05Catalog() []progInput {
	g := uint32(scriptflag.UTXOAfterGenesis)
	h := func(s string) []byte { b, _ := vectors.ParseShort(s); return b }
	var out []progInput
	add := func(u, l string, f uint32) {
		out = append(out, progInput{Unlock: h(u), Lock: h(l), Flags: f, Ctx: defaultCtx(), Src: "catalog"})
	}
	// locking scripts that only LOOK like pay-to-script-hash: 23 bytes, OP_HASH160 first, OP_EQUAL last, but
	// no 20-byte push in between - ordinary scripts under the P2SH flag (no push-only demand, no redeem script)
	{
		raw := func(u, l []byte, f uint32) {
			out = append(out, progInput{Unlock: u, Lock: l, Flags: f, Ctx: defaultCtx(), Src: "catalog"})
		}
		nops := func(k int) []byte { return bytes.Repeat([]byte{0x61}, k) }
		like1 := append(append([]byte{0xa9, 0x76}, nops(20)...), 0x87)                                   // HASH160 DUP NOP*20 EQUAL
		like2 := append(append([]byte{0xa9, 0x13}, bytes.Repeat([]byte{0x07}, 19)...), 0x75, 0x87)       // HASH160 <19 bytes> DROP EQUAL (needs two items)
		like3 := append(append([]byte{0xa9, 0x4c, 0x12}, bytes.Repeat([]byte{0x07}, 18)...), 0x75, 0x87) // the push written with OP_PUSHDATA1
		for _, f := range []uint32{uint32(scriptflag.Bip16), uint32(scriptflag.Bip16 | scriptflag.VerifyCleanStack), 0, g | uint32(scriptflag.Bip16)} {
			raw([]byte{0x00}, like1, f)       // a last push that would be a false redeem script
			raw([]byte{0x51}, like1, f)       //
			raw([]byte{0x51, 0x61}, like1, f) // not push-only
			raw([]byte{0x01, 0x6a}, like1, f) // a last push that would be a failing redeem script (OP_RETURN)
			raw(append(gen.Push(gen.Hash160([]byte{0x00})), 0x00), like2, f)
			raw(append(gen.Push(gen.Hash160([]byte{0x51})), 0x01, 0x51), like3, f)
		}
	}
	for _, f := range []uint32{0, g} {
		add("1 TOALTSTACK RETURN", "FROMALTSTACK", f)              // alt stack is per script
		add("1 TOALTSTACK", "FROMALTSTACK", f)                     //
		add("0 IF VERIF ENDIF 1 RETURN 0x4c", "", f)               // unexecuted VERIF, junk after top-level RETURN
		add("", "0 IF VERIF ENDIF 1 RETURN 0x4c", f)               //
		add("", "0 IF VERNOTIF ELSE 1 ENDIF", f)                   //
		add("", "1 RETURN 0x05", f)                                // truncated push hidden by RETURN
		add("", "1 IF RETURN ENDIF 0x05", f)                       // not hidden
		add("", "1 IF RETURN ENDIF 1 RETURN 0x05", f)              //
		add("", "1 IF 1 ELSE 0 ELSE 1 ENDIF", f)                   // second ELSE
		add("", "0 IF 0 ELSE 1 ELSE 0 ENDIF", f)                   //
		add("0x03 0x010203 0x09 0x010000000000000001", "SPLIT", f) // position 2^64+1
		add("0x03 0x010203 0x09 0x0100000000000000 0x01", "SPLIT 1", f)
		add("1 2 3 0x09 0x010000000000000001", "PICK", f)           //
		add("1 2 3 0x09 0x010000000000000001", "ROLL", f)           //
		add("1 0x09 0x030000000000000001", "NUM2BIN", f)            //
		add("0x02 0x0102 0x09 0x010000000000000001", "LSHIFT 1", f) //
		add("0x02 0x0102 0x09 0x010000000000000001", "RSHIFT 1", f) //
		add("0x02 0x0102 9", "LSHIFT 0x02 0x0400 EQUAL", f)         // shift by more than 8
		add("0x02 0x0102 9", "RSHIFT 0x02 0x0000 EQUAL", f)         //
		add("0x02 0x8001 16", "RSHIFT", f)                          //
		add("0 3", "LSHIFT 1", f)                                   // empty operand
		add("0 3", "RSHIFT 1", f)                                   //
		add("0x05 0x0000000080", "BIN2NUM", f)                      //
		add("0x05 0x0100000000", "BIN2NUM 1 EQUAL", f)              //
		add("2147483647 DUP ADD", "4294967294 EQUAL", f)            // 5-byte result is fine, reuse as number is not (pre)
		add("2147483647 DUP ADD 1ADD", "1", f)                      //
		add("1", "2MUL", f)                                         //
		add("1 0 IF 2MUL ENDIF", "", f)                             // disabled opcode in unexecuted branch
		add("1 0 IF 2DIV ENDIF", "", f)                             //
		add("1", "RESERVED", f)                                     //
		add("1 0 IF RESERVED VER RESERVED1 RESERVED2 0xba ENDIF", "", f)
		add("", "DEPTH 0 EQUAL", f) //
		add("0x4c 0x00", "0 EQUAL", f|uint32(scriptflag.VerifyMinimalData))
		add("0 0x4c 0x00", "EQUAL", f) //
		add("1 2", "1", f|uint32(scriptflag.VerifyCleanStack|scriptflag.Bip16))
		add("1", "NOP1", f|uint32(scriptflag.DiscourageUpgradableNops))
		add("1 0 IF NOP1 ENDIF", "", f|uint32(scriptflag.DiscourageUpgradableNops))
		add("2", "IF 1 ENDIF", f|uint32(scriptflag.VerifyMinimalIf))
		add("0x01 0x00", "NOTIF 1 ENDIF", f|uint32(scriptflag.VerifyMinimalIf))
		add("0", "CHECKLOCKTIMEVERIFY 1", f|uint32(scriptflag.VerifyCheckLockTimeVerify))
		add("-1", "CHECKLOCKTIMEVERIFY 1", f|uint32(scriptflag.VerifyCheckLockTimeVerify))
		add("0", "CHECKSEQUENCEVERIFY 1", f|uint32(scriptflag.VerifyCheckSequenceVerify))
		add("4194304", "CHECKSEQUENCEVERIFY 1", f|uint32(scriptflag.VerifyCheckSequenceVerify))
		add("0x05 0x0000008000", "CHECKSEQUENCEVERIFY 1", f|uint32(scriptflag.VerifyCheckSequenceVerify))
		add("1 DUP", "1", f|uint32(scriptflag.VerifySigPushOnly))
	}
	return out
}

// c05Limits builds programs on both sides of every size/count limit.
func c05Limits() []progInput {
	g := uint32(scriptflag.UTXOAfterGenesis)
	rep := func(b []byte, n int) []byte {
		out := make([]byte, 0, len(b)*n)
		for i := 0; i < n; i++ {
			out = append(out, b...)
		}
		return out
	}
	blob := func(n int, seed byte) []byte {
		v := make([]byte, n)
		for i := range v {
			v[i] = seed + byte(i*31)
		}
		if n > 0 {
			v[n-1] = 0x01
		}
		return v
	}
	var out []progInput
	add := func(u, l []byte, src string) {
		for _, f := range []uint32{0, g} {
			out = append(out, progInput{Unlock: u, Lock: l, Flags: f, Ctx: defaultCtx(), Src: "limits:" + src})
		}
	}
	// operation count: 499 / 500 / 501 / 502 non-push opcodes
	for _, k := range []int{498, 499, 500, 501} {
		add([]byte{0x51}, rep([]byte{0x61}, k), "op-count")                                                // k NOPs
		add([]byte{0x51}, append([]byte{0x00, 0x63}, append(rep([]byte{0x61}, k-2), 0x68)...), "op-count") // counted although skipped: IF + NOPs + ENDIF
	}
	// the operation count is per script: opcodes in the unlocking script (it need not be push only)
	// and in the locking script, each side at or below the limit, together above it
	for _, split := range [][2]int{{300, 300}, {500, 1}, {1, 500}, {500, 500}, {501, 1}, {1, 501}, {250, 251}, {499, 499}} {
		add(append([]byte{0x51}, rep([]byte{0x61}, split[0])...), rep([]byte{0x61}, split[1]), "op-count-per-script")
	}
	// stack depth: 999 / 1000 / 1001 items, split between data and alt stack
	for _, k := range []int{999, 1000, 1001} {
		add(nil, rep([]byte{0x51}, k), "stack-depth")
		add(nil, append(rep([]byte{0x51, 0x6b}, k/2), rep([]byte{0x51}, k-k/2)...), "stack-depth")
		add(nil, append(rep([]byte{0x51}, k-1), 0x76), "stack-depth")
	}
	// element size: 519 / 520 / 521 bytes pushed, concatenated, and produced by NUM2BIN
	for _, k := range []int{519, 520, 521, 522} {
		add(gen.Push(blob(k, 3)), []byte{0x82, 0x75}, "element-size") // SIZE DROP
		add(append(gen.Push(blob(260, 5)), gen.Push(blob(k-260, 7))...), []byte{0x7e, 0x82, 0x75}, "element-size")
		add(append([]byte{0x51}, gen.PushNum(int64(k))...), []byte{0x80, 0x82, 0x75}, "element-size")
		add([]byte{0x00, 0x63}, append(gen.Push(blob(k, 9)), 0x68, 0x51), "element-size") // oversized push in an unexecuted branch
	}
	// script size: 9 999 / 10 000 / 10 001 bytes
	for _, k := range []int{9999, 10000, 10001} {
		body := rep(append(gen.Push(blob(515, 11)), 0x75), 19) // 19 x (518+1+... ) bytes
		for len(body) < k-1 {
			body = append(body, 0x61)
		}
		body = body[:k-1]
		add(nil, append(body, 0x51), "script-size")
		add(append(append([]byte{}, body[:k-1]...), 0x51), []byte{0x51}, "script-size")
	}
	// numeric operand width: 4 / 5 bytes before Genesis, 750 000 / 750 001 after
	for _, k := range []int{3, 4, 5} {
		v := blob(k, 13)
		add(gen.Push(v), []byte{0x8b, 0x75, 0x51}, "number-width") // 1ADD
		add(append(gen.Push(v), gen.Push(v)...), []byte{0x93, 0x75, 0x51}, "number-width")
		add(append(gen.Push(v), 0x51), []byte{0x7f, 0x6d, 0x51}, "number-width") // SPLIT position 1, operand wide
	}
	for _, k := range []int{749999, 750000, 750001} {
		v := blob(k, 17)
		if k > 750000 { // the library parses big numbers in quadratic time: only the rejected width is fed to an arithmetic opcode
			out = append(out, progInput{Unlock: gen.Push(v), Lock: []byte{0x8b, 0x82, 0x75, 0x75, 0x51}, Flags: g, Ctx: defaultCtx(), Src: "limits:number-width-post"})
		}
		out = append(out, progInput{Unlock: gen.Push(v), Lock: []byte{0x81, 0x82, 0x75, 0x75, 0x51}, Flags: g, Ctx: defaultCtx(), Src: "limits:number-width-post"})
	}
	// results may exceed the operand width, using them as operands again may not
	add(append(gen.Push([]byte{0xff, 0xff, 0xff, 0x7f}), gen.Push([]byte{0xff, 0xff, 0xff, 0x7f})...), []byte{0x93, 0x82, 0x75, 0x75, 0x51}, "number-width")
	add(append(gen.Push([]byte{0xff, 0xff, 0xff, 0x7f}), gen.Push([]byte{0xff, 0xff, 0xff, 0x7f})...), []byte{0x93, 0x8b, 0x75, 0x51}, "number-width")
	return out
}

func init() {
	p := &mon.Property{
		ID: "C05",
		Rule: "Programs from six sources: the node's own script vectors; every opcode applied to every tuple of a fixed edge-operand set (arity from a table; both eras; MINIMALDATA on/off); LSHIFT/RSHIFT over operands of 1,2,3,8 bytes with every count 0..8n+1; a hand-written catalog around rules that are easy to get wrong; programs sitting exactly on and one beyond every consensus limit of each era (500 operations, 1000 stack items, 520-byte elements, 10,000-byte scripts, 4-byte / 750,000-byte numeric operands); all 2^9 subsets of the non-signature flags on a core set; PRNG-driven structured programs (typed generator with nested IF/NOTIF/ELSE/ENDIF, OP_RETURN, alt stack, splice/bitwise/shift/arithmetic/hash, CLTV/CSV operands, P2SH wrappers) and byte-level mutations of the node vectors. " +
			"Each program is executed by the real interpreter with a recording Debugger (public API) and by the reference model; verdict and data/alt stacks after every instruction are compared. " +
			"distinct_nontrivial = distinct (unlock, lock, flags) whose execution processed >= 3 instructions including an executed non-push opcode, produced a non-empty stack, and on which both interpreters agreed.",
		Assum: []string{"reference model /verif/internal/refscript = transcription of the node's EvalScript/VerifyScript, re-validated each run against the node's script_tests.json",
			"error codes are not compared; CLEANSTACK without P2SH, P2SH-shaped outputs spent with non-push-only scripts after Genesis, elements above 4 MiB and signature opcodes (C06) are outside the domain"},
	}
	judge := mon.Kind(p, "program", c05Judge)
	p.Run = func(c *mon.Ctx) {
		if !validateModel(c) {
			c.Fault("reference model failed validation against the node vectors")
			return
		}
		vs := loadVectors(c)
		c.Phase("vectors")
		for i, v := range vs {
			if !c.Case(uint64(i)) {
				continue
			}
			in := progInput{Unlock: v.Unlock, Lock: v.Lock, Flags: libFlagsOfVector(v.Flags), Src: "vector",
				Ctx: progCtx{HasTx: true, Version: 1, LockTime: 0, Sequence: 0xffffffff, Sats: v.Amount}}
			judge(c, &in)
		}
		c.Phase("catalog")
		for i, in := range c05Catalog() {
			if c.Case(uint64(i)) {
				in := in
				judge(c, &in)
			}
		}
		c.Phase("holders-matrix") // an item with two holders (DUP, OVER, PICK, alt stack, SPLIT halves ...), one of them transformed: the other must keep its value (the C08 matrix, judged here by stacks and verdict)
		{
			provs, xf := c08Matrix()
			n := uint64(0)
			for _, pv := range provs {
				for _, x := range xf {
					for oi, operand := range c08Operands {
						n++
						if !c.Case(n) {
							continue
						}
						prog := append(append([]byte{}, pv.build(operand)...), x.ops(operand)...)
						in := progInput{Flags: []uint32{0, uint32(scriptflag.UTXOAfterGenesis)}[(int(n)+oi)%2], Ctx: defaultCtx(), Src: "holders-matrix"}
						if n%2 == 0 {
							in.Lock = prog
						} else {
							in.Unlock, in.Lock = pv.build(operand), x.ops(operand)
						}
						judge(c, &in)
					}
				}
			}
		}
		c.Phase("push-form-grid") // every push form x data sizes on the size-class boundaries (incl. 32767/32768 and 65535/65536) x MINIMALDATA / era, executed and skipped
		{
			n := uint64(0)
			sizes := []int{0, 1, 2, 75, 76, 255, 256, 520, 521, 32767, 32768, 40000, 65535, 65536}
			for l := 3; l <= 74; l++ { // every direct-push opcode (each has its own entry in the opcode table)
				sizes = append(sizes, l)
			}
			for _, size := range sizes {
				for _, form := range []byte{0, 0x4c, 0x4d, 0x4e} {
					if size >= 3 && size <= 74 && form != 0 && size%9 != 0 {
						continue
					}
					data := bytes.Repeat([]byte{0x5a}, size)
					var push []byte
					if form == 0 {
						push = gen.Push(data)
					} else {
						e, ok := refcodec.PushWith(form, data)
						if !ok {
							continue
						}
						push = e
					}
					for fi, fl := range []uint32{0, uint32(scriptflag.VerifyMinimalData), uint32(scriptflag.UTXOAfterGenesis), uint32(scriptflag.UTXOAfterGenesis | scriptflag.VerifyMinimalData)} {
						for pos := 0; pos < 3; pos++ {
							n++
							if !c.Case(n) {
								continue
							}
							in := progInput{Flags: fl, Ctx: defaultCtx(), Src: "push-form-grid"}
							switch pos {
							case 0: // in the locking script, executed
								in.Lock = append(append([]byte{}, push...), 0x75, 0x51)
							case 1: // in the unlocking script
								in.Unlock, in.Lock = append([]byte{}, push...), []byte{0x75, 0x51}
							default: // in a branch that is not executed
								in.Lock = append(append(append([]byte{0x00, 0x63}, push...), 0x68), 0x51)
							}
							_ = fi
							judge(c, &in)
						}
					}
				}
			}
		}
		c.Phase("locktime-grid") // CHECKLOCKTIMEVERIFY / CHECKSEQUENCEVERIFY: operand encodings x flag sets x transaction lock time / sequence / version
		{
			h := func(s string) []byte { b, _ := vectors.ParseShort(s); return b }
			operands := [][]byte{h("0"), h("0x01 0x00"), h("0x01 0x80"), h("1"), h("0x02 0x0100"), h("100"), h("0x02 0x6400"), h("0x05 0x0100000000"), h("0x05 0xffffffff7f"), h("0x06 0x010000000000"),
				h("-1"), h("499999999"), h("500000000"), h("4194304"), h("4194404"), h("65535"), h("65536"), h("0x05 0x0000008000"), h("0x05 0x6400008000"), h("1 2 NUM2BIN")}
			n := uint64(0)
			for _, opnd := range operands {
				for _, op := range []byte{0xb1, 0xb2} {
					for fi := 0; fi < 16; fi++ {
						fl := uint32(0)
						if fi&1 != 0 {
							fl |= uint32(scriptflag.VerifyCheckLockTimeVerify)
						}
						if fi&2 != 0 {
							fl |= uint32(scriptflag.VerifyCheckSequenceVerify)
						}
						if fi&4 != 0 {
							fl |= uint32(scriptflag.VerifyMinimalData)
						}
						if fi&8 != 0 {
							fl |= uint32(scriptflag.UTXOAfterGenesis)
						}
						for _, lt := range []uint32{0, 100, 499999999, 500000000, 0xffffffff} {
							for _, sq := range []uint32{0, 100, 1<<22 | 100, 0xfffffffe, 0xffffffff, 1 << 31} {
								n++
								if !c.Case(n) {
									continue
								}
								in := progInput{Unlock: opnd, Lock: []byte{op, 0x75, 0x51}, Flags: fl, Src: "locktime-grid",
									Ctx: progCtx{HasTx: true, Version: 1 + uint32(n%2), LockTime: lt, Sequence: sq, Sats: 1000}}
								judge(c, &in)
							}
						}
					}
				}
			}
		}
		c.Phase("limits") // programs sitting exactly on the consensus limits of each era, and one beyond
		for i, in := range c05Limits() {
			if c.Case(uint64(i)) {
				in := in
				judge(c, &in)
			}
		}
		c.Phase("enumerate")
		n := uint64(0)
		ops := gen.EdgeOperands
		long := gen.LongOperands()
		eras := []uint32{0, uint32(scriptflag.UTXOAfterGenesis)}
		mins := []uint32{0, uint32(scriptflag.VerifyMinimalData)}
		run := func(operands [][]byte, op byte) {
			for _, e := range eras {
				for _, m := range mins {
					n++
					if !c.Case(n) {
						continue
					}
					var u []byte
					for _, o := range operands {
						u = append(u, gen.MinPush(o)...)
					}
					judge(c, &progInput{Unlock: u, Lock: []byte{op}, Flags: e | m, Ctx: defaultCtx(), Src: "enumerate"})
				}
			}
		}
		for opc := 0; opc < 256; opc++ {
			op := byte(opc)
			if gen.IsSigOp(op) || (op >= 1 && op <= 0x4e) {
				continue
			}
			ar := gen.Arity[op]
			run(nil, op) // underflow / nullary
			for _, a := range ops {
				run([][]byte{a}, op)
			}
			if ar <= 1 {
				for _, a := range long {
					run([][]byte{a}, op)
				}
			}
			if ar >= 2 {
				for _, a := range ops {
					for _, b := range ops {
						run([][]byte{a, b}, op)
					}
				}
				for _, a := range long {
					run([][]byte{a, {0x01}}, op)
					run([][]byte{a, a}, op)
				}
			}
			if ar >= 3 {
				tern := ops[:12]
				for _, a := range tern {
					for _, b := range tern {
						for _, d := range tern {
							run([][]byte{a, b, d}, op)
						}
					}
				}
			}
		}
		c.Phase("results-of-every-magnitude") // opcodes whose RESULT is a number the script did not contain: OP_SIZE of items of every length 0..300 and around 2^15 / 2^16, OP_DEPTH over 0..300 items, sums / products / differences landing on every sign-bit boundary of the number encoding
		{
			n := uint64(0)
			gen2 := uint32(scriptflag.UTXOAfterGenesis)
			one := func(u, l []byte, fl uint32) {
				n++
				if c.Case(n) {
					judge(c, &progInput{Unlock: u, Lock: l, Flags: fl, Ctx: defaultCtx(), Src: "results-of-every-magnitude"})
				}
			}
			lens := []int{}
			for L := 0; L <= 300; L++ {
				lens = append(lens, L)
			}
			lens = append(lens, 519, 520, 521, 32767, 32768, 32769, 65535, 65536, 65537, 8388607, 8388608)
			for _, L := range lens {
				item := gen.Push(bytesOf(0x5a, L))
				for _, fl := range []uint32{0, gen2} {
					if L > 520 && fl == 0 && L > 40000 {
						continue
					}
					// the result is compared with the same number written out, and used as a number
					one(item, append(append([]byte{0x82}, gen.PushNum(int64(L))...), 0x87, 0x69, 0x82, 0x8b, 0x75, 0x75, 0x51), fl) // SIZE <L> EQUAL VERIFY SIZE 1ADD DROP DROP 1
					one(item, []byte{0x82, 0x00, 0xa2, 0x69, 0x75, 0x51}, fl)                                                       // SIZE 0 GREATERTHANOREQUAL VERIFY DROP 1
				}
			}
			for k := 0; k <= 300; k++ {
				for _, fl := range []uint32{0, gen2} {
					u := bytes.Repeat([]byte{0x51}, k)
					l := append(append([]byte{0x74}, gen.PushNum(int64(k))...), 0x87, 0x69, 0x74, 0x00, 0xa2) // DEPTH <k> EQUAL VERIFY DEPTH 0 GREATERTHANOREQUAL
					one(u, l, fl)
				}
			}
			// arithmetic results on both sides of every byte-width boundary of the encoding (127/128, 255/256, 32767/32768, ...)
			for _, b := range []int64{127, 128, 255, 256, 32767, 32768, 65535, 65536, 8388607, 8388608, 16777215, 16777216, 2147483647} {
				for d := int64(-1); d <= 1; d++ {
					for _, neg := range []bool{false, true} {
						v := b + d
						if neg {
							v = -v
						}
						for _, fl := range []uint32{0, gen2} {
							one(append(gen.PushNum(v-1), 0x51), append(append([]byte{0x93}, gen.PushNum(v)...), 0x87), fl)                  // (v-1) 1 ADD v EQUAL
							one(append(gen.PushNum(v+1), 0x51), append(append([]byte{0x94}, gen.PushNum(v)...), 0x87), fl)                  // (v+1) 1 SUB v EQUAL
							one(gen.PushNum(v), append(append([]byte{0x8f, 0x8f}, gen.PushNum(v)...), 0x87), fl)                            // v NEGATE NEGATE v EQUAL
							one(gen.PushNum(v), append(append(append([]byte{0x76, 0x90}, gen.PushNum(abs64(v))...), 0x88), 0x75, 0x51), fl) // v DUP ABS |v| EQUALVERIFY DROP 1
						}
					}
				}
			}
		}
		c.Phase("shift")
		n = 0
		for _, ln := range []int{1, 2, 3, 8} {
			for cnt := 0; cnt <= 8*ln+1; cnt++ {
				for _, op := range []byte{0x98, 0x99} {
					for pat := 0; pat < 3; pat++ {
						for _, e := range eras {
							n++
							if !c.Case(n) {
								continue
							}
							r := c.Rand(n)
							x := r.Bytes(ln)
							switch pat {
							case 1:
								for i := range x {
									x[i] = 0xff
								}
							case 2:
								for i := range x {
									x[i] = 0
								}
								x[0], x[ln-1] = x[0]|0x80, x[ln-1]|0x01
							}
							u := append(gen.Push(x), gen.PushNum(int64(cnt))...)
							judge(c, &progInput{Unlock: u, Lock: []byte{op}, Flags: e, Ctx: defaultCtx(), Src: "shift"})
						}
					}
				}
			}
		}
		c.Phase("flag-subsets")
		core := 100
		if c.Thorough {
			core = 400
		}
		n = 0
		for k := 0; k < core; k++ {
			for mask := 0; mask < 1<<len(nonSigFlags); mask++ {
				n++
				if !c.Case(n) {
					continue
				}
				r := prng.New(c.Seed, "C05-core", uint64(k)) // same program for every mask
				fl := flagSubset(mask)
				u, l := gen.RandProgram(r, fl&uint32(scriptflag.UTXOAfterGenesis) != 0, 14)
				if k%5 == 0 {
					u = gen.PushOnlyPrefix(u)
				}
				judge(c, &progInput{Unlock: u, Lock: l, Flags: fl, Ctx: randCtx(r), Src: "flag-subsets"})
			}
		}
		c.Phase("random")
		N := uint64(40000)
		if c.Thorough {
			N = 2000000
		}
		for i := uint64(0); i < N; i++ {
			if !c.Case(i) {
				continue
			}
			r := c.Rand(i)
			fl := randNonSigFlags(r)
			genesis := fl&uint32(scriptflag.UTXOAfterGenesis) != 0
			u, l := gen.RandProgram(r, genesis, 4+r.Intn(50))
			if scriptflag.Flag(fl)&scriptflag.VerifySigPushOnly != 0 && r.Chance(3, 4) {
				u = gen.PushOnlyPrefix(u)
			}
			src := "random"
			if r.Chance(1, 12) { // P2SH wrapper
				redeem := l
				l = append(append([]byte{0xa9, 0x14}, gen.Hash160(redeem)...), 0x87)
				u = append(gen.PushOnlyPrefix(u), gen.Push(redeem)...)
				if r.Chance(1, 8) {
					u = append(u, 0x61) // not push only
				}
				fl |= uint32(scriptflag.Bip16)
				src = "random-p2sh"
			}
			judge(c, &progInput{Unlock: u, Lock: l, Flags: fl, Ctx: randCtx(r), Src: src})
		}
		c.Phase("vector-mutants")
		N = 20000
		if c.Thorough {
			N = 600000
		}
		for i := uint64(0); i < N; i++ {
			if !c.Case(i) {
				continue
			}
			r := c.Rand(i)
			v := vs[r.Intn(len(vs))]
			u, l := append([]byte{}, v.Unlock...), append([]byte{}, v.Lock...)
			for k := 1 + r.Intn(2); k > 0; k-- {
				if r.Chance(1, 3) {
					u = gen.Mutate(r, u)
				} else {
					l = gen.Mutate(r, l)
				}
			}
			fl := libFlagsOfVector(v.Flags)
			if r.Chance(1, 3) {
				fl ^= uint32(prng.Pick(r, nonSigFlags))
			}
			judge(c, &progInput{Unlock: u, Lock: l, Flags: fl, Src: "vector-mutant",
				Ctx: progCtx{HasTx: true, Version: 1, LockTime: 0, Sequence: 0xffffffff, Sats: v.Amount}})
		}
	}
	p.Floor = func(a *mon.Agg) string {
		if a.Cov["C05:steps-compared"] < 10000 {
			return "fewer than 10000 steps compared"
		}
		for _, e := range []string{"pre-genesis", "post-genesis"} {
			if a.Cov["C05:both-accept:"+e] == 0 || a.Cov["C05:both-reject:"+e] == 0 {
				return "no accepted or no rejected program in era " + e
			}
		}
		// every non-signature opcode must have been executed in both eras (ok or error)
		for opc := 0x4f; opc < 0x100; opc++ {
			op := byte(opc)
			if gen.IsSigOp(op) {
				continue
			}
			for _, e := range []string{"pre-genesis", "post-genesis"} {
				nm := vectors.OpName(op)
				if a.Cov["op:"+nm+":"+e+":executed-ok"]+a.Cov["op:"+nm+":"+e+":executed-error"] == 0 {
					return "opcode " + nm + " never executed in era " + e
				}
			}
		}
		return ""
	}
	mon.Register(p)
}

func abs64(v int64) int64 {
	if v < 0 {
		return -v
	}
	return v
}
