package main

import (
	"bytes"
	"encoding/binary"
	"encoding/hex"
	"fmt"
	"os"
	"path/filepath"

	"github.com/libsv/go-bt/v2"
	"github.com/libsv/go-bt/v2/sighash"

	"verif/internal/gen"
	"verif/internal/mon"
	"verif/internal/prng"
	"verif/internal/refsighash"
)

// C02 — FORKID signature hash equals the BSV replay-protected digest for every
// hash type. (C03, the legacy algorithm, shares the judge and the workload; see
// c03.go for what differs.)

// shCase is one judged call: a transaction shape, an input index and an 8-bit
// hash type. Everything the oracle expects is derived from the shape itself:
// index >= #inputs, a signed input without a (32-byte) txid or without a
// previous script are the error classes.
type shCase struct {
	Shape    gen.Shape `json:"shape"`
	Idx      uint32    `json:"idx"`
	HashType uint8     `json:"hash_type"`
	// NilInput: tx.Inputs holds a nil pointer at the requested index (a list made with
	// make([]*bt.Input, n) and not filled completely): the input does not exist
	NilInput bool `json:"nil_input,omitempty"`
}

func shTestdata() string {
	root := os.Getenv("VERIF_ROOT")
	if root == "" {
		root = "/verif"
	}
	return filepath.Join(root, "testdata")
}

// shValidateModel checks refsighash against the 2 x 500 node vectors. On
// failure the run is inconclusive (monitor fault), never a violation.
func shValidateModel(c *mon.Ctx) bool {
	v, err := refsighash.Validate(shTestdata())
	if err != nil {
		c.Fault("reference model: cannot load the node vectors: " + err.Error())
		return false
	}
	c.Info("model_vectors_reproduced", v.Reproduced())
	c.Info("model_vectors", map[string]int{"bip143_total": v.ForkIDTotal, "bip143_reproduced": v.ForkIDOK,
		"legacy_total": v.LegacyTotal, "legacy_reproduced": v.LegacyOK,
		"legacy_reproduced_without_codeseparator_stripping": v.LegacyVerbatimOK, "legacy_with_codeseparator": v.LegacyWithCodeSeparator})
	if !v.OK() {
		c.Fault(fmt.Sprintf("reference model reproduces %d/%d bip143 and %d/%d legacy node vectors (first bad: %s)",
			v.ForkIDOK, v.ForkIDTotal, v.LegacyOK, v.LegacyTotal, v.FirstBad))
		return false
	}
	c.Count("model:validated")
	return true
}

// shModelTx converts a shape into the model's plain transaction (txid reversed
// into wire order). Inputs without a 32-byte txid get a zero hash; the caller
// never asks the model about those.
func shModelTx(s *gen.Shape) *refsighash.Tx {
	m := &refsighash.Tx{Version: s.Version, LockTime: s.LockTime}
	for i := range s.Ins {
		in := &s.Ins[i]
		mi := refsighash.Input{Vout: in.Vout, Script: in.Unlock, Sequence: in.Seq}
		if len(in.TxID) == 32 {
			for k := 0; k < 32; k++ {
				mi.PrevHash[k] = in.TxID[31-k]
			}
		}
		m.Inputs = append(m.Inputs, mi)
	}
	for i := range s.Outs {
		m.Outputs = append(m.Outputs, refsighash.Output{Value: s.Outs[i].Sats, Script: s.Outs[i].Script})
	}
	return m
}

// shSnapshot is the before/after canary of a transaction: both serialisations
// plus what they do not show (nil-ness of the script pointers).
func shSnapshot(tx *bt.Tx) []byte {
	// the pointers first: serialising is itself a library call that must leave them alone
	var b []byte
	for _, in := range tx.Inputs {
		f := byte(0)
		if in.UnlockingScript == nil {
			f |= 1
		}
		if in.PreviousTxScript == nil {
			f |= 2
		}
		b = append(b, f, byte(len(in.PreviousTxID())))
	}
	for _, o := range tx.Outputs {
		if o.LockingScript == nil {
			b = append(b, 4)
		} else {
			b = append(b, 0)
		}
	}
	b = append(b, tx.Bytes()...)
	b = append(b, 0xfe, 0xed)
	b = append(b, tx.ExtendedBytes()...)
	return b
}

func shBaseName(ht uint8) string {
	switch ht & 0x1f {
	case 1:
		return "all"
	case 2:
		return "none"
	case 3:
		return "single"
	}
	return "undef-base"
}

func shClass(ht uint8, idx, nOuts int) string {
	acp := "noacp"
	if ht&0x80 != 0 {
		acp = "acp"
	}
	rel := "idx<outs"
	if idx >= nOuts {
		rel = "idx>=outs"
	}
	return shBaseName(ht) + ":" + acp + ":" + rel
}

func shLenClass(n int) string {
	switch {
	case n <= 1, n == 252, n == 253, n == 65535, n == 65536:
		return fmt.Sprint(n)
	case n < 252:
		return "2..251"
	case n < 65535:
		return "254..65534"
	}
	return ">65536"
}

// shForkIDField names the preimage field that holds offset off.
func shForkIDField(off, scriptLen int) string {
	vl := len(refsighash.CompactSize(nil, uint64(scriptLen)))
	bounds := []struct {
		end  int
		name string
	}{{4, "version"}, {36, "hashPrevouts"}, {68, "hashSequence"}, {104, "outpoint"}, {104 + vl + scriptLen, "scriptCode"},
		{112 + vl + scriptLen, "value"}, {116 + vl + scriptLen, "sequence"}, {148 + vl + scriptLen, "hashOutputs"},
		{152 + vl + scriptLen, "locktime"}, {156 + vl + scriptLen, "hashType"}}
	for _, b := range bounds {
		if off < b.end {
			return b.name
		}
	}
	return "length"
}

func firstDiff(a, b []byte) int {
	n := len(a)
	if len(b) < n {
		n = len(b)
	}
	for i := 0; i < n; i++ {
		if a[i] != b[i] {
			return i
		}
	}
	if len(a) != len(b) {
		return n
	}
	return -1
}

func hexShort(b []byte) string {
	if len(b) > 400 {
		return hex.EncodeToString(b[:200]) + "…(" + fmt.Sprint(len(b)) + " bytes)…" + hex.EncodeToString(b[len(b)-100:])
	}
	return hex.EncodeToString(b)
}

func shDescribe(in *shCase) string {
	return fmt.Sprintf("tx(ext)=%s input=%d hashType=0x%02x (%d inputs, %d outputs)",
		hexShort(in.Shape.Build().ExtendedBytes()), in.Idx, in.HashType, len(in.Shape.Ins), len(in.Shape.Outs))
}

// shJudge is the oracle of C02 (legacy == false) and C03 (legacy == true).
func shJudge(c *mon.Ctx, in *shCase, legacy bool) {
	ownerEditsDecodedEmpties(c)
	P := "C02"
	preName, preCall := "bt.(*Tx).CalcInputPreimage", (*bt.Tx).CalcInputPreimage
	if legacy {
		P = "C03"
		preName, preCall = "bt.(*Tx).CalcInputPreimageLegacy", (*bt.Tx).CalcInputPreimageLegacy
	}
	s := &in.Shape
	if legacy == (in.HashType&0x40 != 0) {
		c.Count("skipped:hash-type-of-the-other-algorithm")
		return
	}
	for j := range s.Ins {
		if uint32(j) != in.Idx && len(s.Ins[j].TxID) != 32 {
			// With ANYONECANPAY the fork-id preimage holds nothing of the other inputs (hashPrevouts and
			// hashSequence are zero): a transaction still being assembled, whose other inputs are
			// placeholders without an outpoint, has a specified digest for its complete input.
			if !legacy && in.HashType&0x80 != 0 && len(s.Ins[j].TxID) == 0 {
				c.Count("anyonecanpay:other-input-is-a-placeholder-without-outpoint")
				continue
			}
			c.Count("skipped:out-of-domain(other input without 32-byte txid)")
			return
		}
	}
	c.Eval(1)
	tx := s.BuildShared() // scripts packed back to back in one arena: a write behind any of them shows in the snapshot
	if (int(in.Idx)+int(in.HashType)+len(s.Outs))%3 == 2 && !s.Shared {
		tx = s.Build() // every script its own allocation; empty scripts in all their spellings (nil slice behind the pointer included)
	}
	// what a caller writing length-prefixed data does with the library's varint
	// encoder: take the prefix and append the payload to it (the result is the
	// caller's; the library's own length prefixes must not depend on it)
	c.Try("VarInt.Bytes", func() {
		n := uint64(len(s.Ins)+3*len(s.Outs)) % 4
		frame := append(bt.VarInt(n).Bytes(), bytes.Repeat([]byte{0xEE}, 250)...)
		_ = frame
	})
	flag := sighash.Flag(in.HashType)
	if in.NilInput {
		if int(in.Idx) >= len(tx.Inputs) {
			return
		}
		tx.Inputs[in.Idx] = nil
		c.Count("err-class:nil-input-at-index")
		var e1, e2 error
		if c.Try(preName, func() { _, e1 = preCall(tx, in.Idx, flag) }) && e1 == nil && !legacy {
			c.Violationf(P+":no-error:nil-input-at-index", "%s returned no error for an index whose slot in tx.Inputs is nil", preName)
		}
		if c.Try("bt.(*Tx).CalcInputSignatureHash", func() { _, e2 = tx.CalcInputSignatureHash(in.Idx, flag) }) && e2 == nil && !legacy {
			c.Violationf(P+":no-error:nil-input-at-index", "CalcInputSignatureHash returned no error for an index whose slot in tx.Inputs is nil")
		}
		return
	}
	var snap0 []byte
	if !c.Try("bt.(*Tx).ExtendedBytes", func() { snap0 = shSnapshot(tx) }) {
		return
	}
	unchanged := func(after string) {
		var snap1 []byte
		if c.Try("bt.(*Tx).ExtendedBytes", func() { snap1 = shSnapshot(tx) }) {
			if !bytes.Equal(snap0, snap1) {
				c.Violationf(P+":tx-modified:"+after, "the transaction differs after %s: before %s after %s; %s", after, hexShort(snap0), hexShort(snap1), shDescribe(in))
			} else {
				c.Count("snapshot:unchanged")
			}
		}
	}

	errClass := ""
	switch {
	case int64(in.Idx) >= int64(len(s.Ins)):
		errClass = "idx-out-of-range"
	case len(s.Ins[in.Idx].TxID) != 32:
		errClass = "no-txid"
	case s.Ins[in.Idx].PrevScriptNil:
		errClass = "nil-prev-script"
	}

	var pre, sh []byte
	var perr, herr error
	okPre := c.Try(preName, func() { pre, perr = preCall(tx, in.Idx, flag) })
	unchanged(preName)
	okSh := c.Try("bt.(*Tx).CalcInputSignatureHash", func() { sh, herr = tx.CalcInputSignatureHash(in.Idx, flag) })
	if okPre && perr == nil && len(pre) > 0 && len(pre) < 4096 {
		c.Retain("preimage returned by "+preName, func() []byte { return pre })
	}
	if okSh && herr == nil && len(sh) > 0 {
		c.Retain("signature hash", func() []byte { return sh })
	}
	unchanged("bt.(*Tx).CalcInputSignatureHash")

	if errClass != "" {
		// C02 states that these are reported as errors. C03's quantifier is
		// over in-range indices of well-formed inputs, so there only "no
		// panic, tx unchanged" is demanded and the outcome is recorded.
		c.Count("err-class:" + errClass)
		for _, r := range []struct {
			ok   bool
			err  error
			name string
			out  []byte
		}{{okPre, perr, preName, pre}, {okSh, herr, "bt.(*Tx).CalcInputSignatureHash", sh}} {
			if !r.ok {
				continue
			}
			if r.err != nil {
				c.Count("err-class:" + errClass + ":error-returned")
			} else if !legacy {
				c.Violationf(P+":no-error:"+errClass, "%s returned no error (result %s) for error class %q; %s", r.name, hexShort(r.out), errClass, shDescribe(in))
			} else {
				c.Count("err-class:" + errClass + ":no-error(not judged)")
			}
		}
		return
	}

	idx := int(in.Idx)
	si := &s.Ins[idx]
	m := shModelTx(s)
	cls := shClass(in.HashType, idx, len(s.Outs))
	var want []byte
	var wantHash [32]byte
	one := false
	if legacy {
		var err error
		want, one, err = refsighash.LegacyPreimage(m, idx, si.PrevScript, uint32(in.HashType))
		if err != nil {
			c.Fault("reference model refused an in-range case: " + err.Error())
			return
		}
	} else {
		var err error
		want, err = refsighash.ForkIDPreimage(m, idx, si.PrevScript, si.PrevSats, uint32(in.HashType))
		if err != nil {
			c.Fault("reference model refused an in-range case: " + err.Error())
			return
		}
	}
	if one {
		wantHash = refsighash.One
	} else {
		wantHash = refsighash.Sha256d(want)
	}
	rel := "idx<outs"
	if idx >= len(s.Outs) {
		rel = "idx>=outs"
	}
	c.Count(fmt.Sprintf("m:0x%02x:%s", in.HashType, rel))
	c.Count("class:" + cls)
	c.Count("script-code-len:" + shLenClass(len(si.PrevScript)))
	switch {
	case si.UnlockNil:
		c.Count("signed-input-unlocking-script:nil")
	case len(si.Unlock) == 0:
		c.Count("signed-input-unlocking-script:empty")
	default:
		c.Count("signed-input-unlocking-script:filled")
	}
	c.Max("inputs", float64(len(s.Ins)))
	c.Max("outputs", float64(len(s.Outs)))

	good := true
	if one {
		// SIGHASH_SINGLE without a matching output: there is no preimage. What
		// CalcInputPreimageLegacy hands back is recorded, not judged; the
		// statement is about the signature hash.
		if okPre {
			switch {
			case perr != nil:
				c.Count("single-no-output:preimage-call:error")
			case bytes.Equal(pre, refsighash.One[:]):
				c.Count("single-no-output:preimage-call:returns-the-constant")
			default:
				c.Count("single-no-output:preimage-call:other")
			}
		}
		if okSh {
			hashed := refsighash.Sha256d(refsighash.One[:])
			switch {
			case herr != nil:
				good = false
				c.Violationf(P+":single-no-output:error-returned", "CalcInputSignatureHash returned error %v, consensus requires the constant 01 00..00; %s", herr, shDescribe(in))
			case bytes.Equal(sh, refsighash.One[:]):
				c.Count("single-no-output:hash-is-constant-one")
			case bytes.Equal(sh, hashed[:]):
				good = false
				c.Violationf(P+":single-no-output:constant-hashed-again", "CalcInputSignatureHash = %x = sha256d(01 00..00); the constant must not be hashed; %s", sh, shDescribe(in))
			default:
				good = false
				c.Violationf(P+":single-no-output:hash-not-constant-one", "CalcInputSignatureHash = %x, want 01 00..00 (32 bytes); %s", sh, shDescribe(in))
			}
		} else {
			good = false
		}
	} else {
		if okPre {
			switch {
			case perr != nil:
				good = false
				c.Violationf(P+":unexpected-error:preimage:"+cls, "%s returned %v for a well-formed case; %s", preName, perr, shDescribe(in))
			case !bytes.Equal(pre, want):
				good = false
				d := firstDiff(pre, want)
				field := "offset"
				if !legacy {
					field = shForkIDField(d, len(si.PrevScript))
				}
				c.Violationf(P+":preimage-mismatch:"+field+":"+cls, "%s differs from the reference at byte %d (%s): library %s reference %s; %s",
					preName, d, field, hexShort(pre), hexShort(want), shDescribe(in))
			default:
				c.Count("preimage:equal")
			}
		} else {
			good = false
		}
		if okSh {
			switch {
			case herr != nil:
				good = false
				c.Violationf(P+":unexpected-error:sighash:"+cls, "CalcInputSignatureHash returned %v for a well-formed case; %s", herr, shDescribe(in))
			case !bytes.Equal(sh, wantHash[:]):
				good = false
				c.Violationf(P+":digest-mismatch:"+cls, "CalcInputSignatureHash = %x, sha256d(reference preimage) = %x; %s", sh, wantHash, shDescribe(in))
			default:
				c.Count("digest:equal")
			}
		} else {
			good = false
		}
	}
	// asking again gives the same answer - also after the caller has overwritten
	// an answer it was given earlier (which it owns)
	if good && !one {
		var pre2, sh2, pre3, sh3 []byte
		var e1, e2, e3, e4 error
		if c.Try(preName, func() {
			pre2, e1 = preCall(tx, in.Idx, flag)
			sh2, e2 = tx.CalcInputSignatureHash(in.Idx, flag)
		}) && e1 == nil && e2 == nil {
			if len(pre2) <= 4096 {
				mon.Scribble(pre2)
			}
			mon.Scribble(sh2)
			if c.Try(preName, func() {
				pre3, e3 = preCall(tx, in.Idx, flag)
				sh3, e4 = tx.CalcInputSignatureHash(in.Idx, flag)
			}) {
				if e3 != nil || e4 != nil || !bytes.Equal(pre3, want) || !bytes.Equal(sh3, wantHash[:]) {
					good = false
					c.Violationf(P+":asked-again-differs:"+cls, "the preimage / signature hash computed again on the same transaction, after the caller overwrote the results of an earlier call, differs from the reference (errors %v, %v); %s", e3, e4, shDescribe(in))
				} else {
					c.Count("asked-again:equal")
				}
			}
		}
	}
	if good {
		var ib [5]byte
		binary.LittleEndian.PutUint32(ib[:], in.Idx)
		ib[4] = in.HashType
		c.Distinct(prng.HashBytes(snap0, ib[:]))
		if len(snap0) < 1500 {
			c.Sample(P+":"+shBaseName(in.HashType), 1, func() any {
				return map[string]any{"tx_extended_hex": hex.EncodeToString(tx.ExtendedBytes()), "input": in.Idx,
					"hash_type": fmt.Sprintf("0x%02x", in.HashType), "class": cls,
					"preimage_hex": hex.EncodeToString(pre), "signature_hash_hex": hex.EncodeToString(sh), "agrees_with_reference": true}
			})
		}
	}
}

// ---------------------------------------------------------------- workload

// shHashTypes returns the 128 eight-bit hash types with (forkid) or without bit 0x40.
func shHashTypes(forkid bool) []uint8 {
	var ts []uint8
	for t := 0; t < 256; t++ {
		if (t&0x40 != 0) == forkid {
			ts = append(ts, uint8(t))
		}
	}
	return ts
}

// shFixedShapes is the deterministic list of 50 shapes that is enumerated
// exhaustively (contents drawn from the PRNG of the run's seed, structure fixed):
// 42 = 1..6 inputs x 0..6 outputs, 6 with the script-code length classes
// 0/1/252/253/65535/65536 on input 0 and on one output, 2 with extreme values.
func shFixedShapes(seed uint64, prop string) []*gen.Shape {
	var shapes []*gen.Shape
	k := uint64(0)
	next := func() *prng.R { k++; return prng.New(seed, prop+"/fixed-shapes", k) }
	small := gen.ShapeOpts{AllowNil: false}
	for ni := 1; ni <= 6; ni++ {
		for no := 0; no <= 6; no++ {
			r := next()
			s := gen.ShapeN(r, ni, no, small)
			// unlocking scripts: nil / empty / filled all appear
			for i := range s.Ins {
				switch (i + no) % 3 {
				case 0:
					s.Ins[i].UnlockNil, s.Ins[i].Unlock = true, nil
				case 1:
					s.Ins[i].Unlock = []byte{}
				default:
					s.Ins[i].Unlock = append(gen.Push(r.Bytes(71)), gen.Push(r.Bytes(33))...)
				}
			}
			shapes = append(shapes, s)
		}
	}
	for _, l := range []int{0, 1, 252, 253, 65535, 65536} {
		r := next()
		s := gen.ShapeN(r, 3, 2, small)
		s.Ins[0].PrevScript = r.Bytes(l)
		s.Ins[1].Unlock = r.Bytes(l)
		s.Outs[1].Script = r.Bytes(l)
		shapes = append(shapes, s)
	}
	r := next()
	s := gen.ShapeN(r, 2, 3, small)
	s.Version, s.LockTime = 0xffffffff, 0xffffffff
	for i := range s.Ins {
		s.Ins[i].Vout, s.Ins[i].Seq, s.Ins[i].PrevSats = 0xffffffff, 0xffffffff, 1<<64-1
		s.Ins[i].PrevScript = r.Bytes(254)
	}
	for i := range s.Outs {
		s.Outs[i].Sats = 1<<64 - 1
	}
	shapes = append(shapes, s)
	r = next()
	s = gen.ShapeN(r, 6, 6, small)
	s.Version, s.LockTime = 0, 0
	for i := range s.Ins {
		s.Ins[i].Vout, s.Ins[i].Seq, s.Ins[i].PrevSats = 0, 0, 0
		s.Ins[i].TxID = make([]byte, 32)
		s.Ins[i].PrevScript = []byte{}
	}
	for i := range s.Outs {
		s.Outs[i].Sats, s.Outs[i].Script = 0, []byte{}
	}
	shapes = append(shapes, s)
	return shapes
}

// shDefect returns a copy of s whose input idx lacks its txid or previous script.
func shDefect(s *gen.Shape, idx int, defect string) gen.Shape {
	v := *s
	v.Ins = append([]gen.In{}, s.Ins...)
	switch defect {
	case "no-txid":
		v.Ins[idx].TxID = nil
	case "no-txid-json": // what bt.Input's JSON decoder leaves for an absent or empty "txid"
		v.Ins[idx].TxID, v.Ins[idx].ViaJSON = nil, true
	case "nil-prev-script":
		v.Ins[idx].PrevScriptNil, v.Ins[idx].PrevScript = true, nil
	}
	return v
}

func shRun(c *mon.Ctx, prop string, forkid bool, judge func(*mon.Ctx, *shCase)) bool {
	if !shValidateModel(c) {
		return false
	}
	types := shHashTypes(forkid)

	c.Phase("fixed-shapes-exhaustive")
	n := uint64(0)
	for _, s := range shFixedShapes(c.Seed, prop) {
		k := len(s.Ins)
		type slot struct {
			idx    uint32
			defect string
		}
		var slots []slot
		for i := 0; i < k; i++ {
			slots = append(slots, slot{uint32(i), ""}, slot{uint32(i), "no-txid"}, slot{uint32(i), "no-txid-json"}, slot{uint32(i), "nil-prev-script"})
		}
		slots = append(slots, slot{uint32(k), ""}, slot{0xffffffff, ""})
		for _, sl := range slots {
			for _, t := range types {
				n++
				if !c.Case(n) {
					continue
				}
				cs := &shCase{Shape: *s, Idx: sl.idx, HashType: t}
				if sl.defect != "" {
					cs.Shape = shDefect(s, int(sl.idx), sl.defect)
				}
				judge(c, cs)
			}
		}
	}

	if forkid {
		c.Phase("anyonecanpay-placeholder-inputs") // a transaction under assembly: the signed input is complete, another one has no outpoint yet
		n = 0
		for si, s := range shFixedShapes(c.Seed, prop) {
			k := len(s.Ins)
			if k < 2 {
				continue
			}
			for i := 0; i < k; i++ {
				for _, t := range types {
					if t&0x80 == 0 {
						continue
					}
					n++
					if !c.Case(n) {
						continue
					}
					j := (i + 1 + int(n)%(k-1)) % k // another input
					v := shDefect(s, j, []string{"no-txid", "no-txid-json"}[(si+i)%2])
					if n%3 == 0 && k > 2 { // every other input is a placeholder
						for jj := 0; jj < k; jj++ {
							if jj != i {
								v = shDefect(&v, jj, "no-txid")
							}
						}
					}
					judge(c, &shCase{Shape: v, Idx: uint32(i), HashType: t})
				}
			}
		}
	}
	c.Phase("many-inputs-outputs") // input / output counts around the varint boundary and around powers of two (internal batch sizes)
	{
		few := []uint8{0x41, 0x42, 0x43, 0xc1, 0xc2, 0xc3}
		if !forkid {
			few = []uint8{0x01, 0x02, 0x03, 0x81, 0x82, 0x83}
		}
		n = 0
		for _, shape := range [][2]int{{253, 2}, {1023, 1}, {1024, 1}, {1025, 3}, {1500, 2}, {2, 253}, {3, 1024}, {2, 1025}, {254, 254}} {
			for ti, t := range few {
				n++
				if !c.Case(n) {
					continue
				}
				r := c.Rand(n)
				s := gen.ShapeN(r, shape[0], shape[1], gen.ShapeOpts{ScriptLens: []int{0, 1, 25}})
				for i := range s.Ins {
					s.Ins[i].PrevScriptNil = false
					s.Ins[i].Seq = uint32(i*7 + 1)
				}
				for _, idx := range []uint32{0, uint32(shape[0] - 1), uint32(shape[0] / 2)} {
					if ti%2 == 1 && idx != 0 {
						continue
					}
					judge(c, &shCase{Shape: *s, Idx: idx, HashType: t})
				}
			}
		}
	}
	c.Phase("one-object-per-value") // the inputs spend one script / several outputs of one transaction, and equal values are one object in memory
	{
		n = 0
		types := []uint8{0x41, 0x42, 0x43, 0xc1, 0xc2, 0xc3}
		if !forkid {
			types = []uint8{0x01, 0x02, 0x03, 0x81, 0x82, 0x83, 0x00}
		}
		for ni := 2; ni <= 5; ni++ {
			for _, t := range types {
				n++
				if !c.Case(n) {
					continue
				}
				r := c.Rand(n)
				s := gen.ShapeN(r, ni, 1+int(n%4), gen.ShapeOpts{ScriptLens: []int{25, 26}})
				spent, id := r.Bytes(25), r.Bytes(32)
				for i := range s.Ins {
					s.Ins[i].PrevScriptNil = false
					if i != ni-1 || n%3 != 0 { // all (or all but the last) spend the same script
						s.Ins[i].PrevScript = spent
					}
					if i%2 == 0 {
						s.Ins[i].TxID, s.Ins[i].Vout = id, uint32(i)
					}
				}
				for i := range s.Outs {
					if i > 0 && r.Bool() {
						s.Outs[i].Script = s.Outs[0].Script
					}
				}
				s.OneObject = true
				for idx := 0; idx < ni; idx++ {
					judge(c, &shCase{Shape: *s, Idx: uint32(idx), HashType: t})
				}
				judge(c, &shCase{Shape: *s, Idx: uint32(n) % uint32(ni), HashType: t, NilInput: true})
				// one *bt.Input object listed twice (first and last position)
				d := *s
				d.Ins = append(append([]gen.In{}, s.Ins...), s.Ins[0])
				d.SameInputTwice = true
				for _, idx := range []int{0, 1, len(d.Ins) - 1} {
					judge(c, &shCase{Shape: d, Idx: uint32(idx), HashType: t})
				}
			}
		}
	}
	c.Phase("unlocking-script-echoes-script-code") // the signed input already carries an unlocking script (a transaction being re-signed, or checked by the interpreter) whose pushes also occur in the script code: signature-shaped pushes, the key, the whole script code - the digest does not depend on what the unlocking script holds
	{
		n := uint64(0)
		for rep := 0; rep < 40; rep++ {
			for _, ht := range types {
				n++
				if !c.Case(n) {
					continue
				}
				r := c.Rand(n)
				s := gen.RandShape(r, gen.ShapeOpts{MinIns: 1, MaxIns: 3, MaxOuts: 3})
				i := r.Intn(len(s.Ins))
				sig := append(append([]byte{0x30, 0x44, 0x02, 0x20}, r.Bytes(32)...), append(append([]byte{0x02, 0x20}, r.Bytes(32)...), ht)...)
				key := append([]byte{0x02}, r.Bytes(32)...)
				blob := r.Bytes(1 + r.Intn(40))
				var code []byte
				switch rep % 4 {
				case 0: // the signature pushed inside the script code (minimal push), then dropped
					code = append(append(append(gen.MinPush(sig), 0x75), gen.MinPush(key)...), 0xac)
				case 1: // twice, and a data push that is also in the unlocking script
					code = append(append(append(append(append(gen.MinPush(sig), 0x75), gen.MinPush(sig)...), 0x75), gen.MinPush(blob)...), 0x75, 0x51)
				case 2: // P2PKH-like: the key is in both
					code = append(append([]byte{0x76, 0xa9}, gen.MinPush(key[1:21])...), 0x88, 0xac)
				default: // an inscription envelope holding the signature as its payload
					code = append(append(gen.P2PKH(r.Bytes(20)), 0x00, 0x63, 0x03, 'o', 'r', 'd', 0x51, 0x01, 't', 0x00), append(gen.MinPush(sig), 0x68)...)
				}
				s.Ins[i].PrevScript, s.Ins[i].PrevScriptNil = code, false
				u := append(append(gen.MinPush(sig), gen.MinPush(key)...), gen.MinPush(blob)...)
				if rep%8 >= 4 {
					u = append(u, gen.MinPush(code)...) // the whole script code pushed too (as a P2SH spend would)
				}
				s.Ins[i].Unlock, s.Ins[i].UnlockNil = u, false
				judge(c, &shCase{Shape: *s, Idx: uint32(i), HashType: ht})
			}
		}
	}
	c.Phase("random-shapes")
	N := uint64(5000)
	if c.Thorough {
		N = 300000
	}
	for n := uint64(0); n < N; n++ {
		if !c.Case(n) {
			continue
		}
		r := c.Rand(n)
		o := gen.ShapeOpts{MinIns: 1, MaxIns: 6, MaxOuts: 6, AllowNil: true, ScriptLens: []int{0, 1, 75, 76, 252, 253, 254, 255, 256}}
		if c.Thorough && r.Chance(1, 8) {
			o.ScriptLens = []int{0, 1, 252, 253, 254, 65535, 65536}
		}
		s := gen.RandShape(r, o)
		k := len(s.Ins)
		for j := 0; j < 8; j++ {
			cs := &shCase{Shape: *s, HashType: prng.Pick(r, types)}
			switch d := r.Intn(20); {
			case d < 16:
				cs.Idx = uint32(r.Intn(k))
			case d == 16:
				cs.Idx = uint32(k)
			case d == 17:
				cs.Idx = 0xffffffff
			case d == 18:
				cs.Idx = uint32(k) + uint32(r.Uint64()%uint64(0xffffffff-uint32(k)))
			default:
				cs.Idx = uint32(r.Intn(k))
				cs.Shape = shDefect(s, int(cs.Idx), prng.Pick(r, []string{"no-txid", "no-txid-json"}))
			}
			judge(c, cs)
		}
	}
	return true
}

func shFloor(a *mon.Agg, forkid bool) string {
	if a.Cov["model:validated"] == 0 {
		return "the reference model was not validated against the node vectors"
	}
	for _, t := range shHashTypes(forkid) {
		for _, rel := range []string{"idx<outs", "idx>=outs"} {
			if k := fmt.Sprintf("m:0x%02x:%s", t, rel); a.Cov[k] == 0 {
				return "coverage cell " + k + " is empty"
			}
		}
	}
	for _, k := range []string{"err-class:idx-out-of-range", "err-class:no-txid", "err-class:nil-prev-script", "snapshot:unchanged",
		"script-code-len:0", "script-code-len:1", "script-code-len:252", "script-code-len:253", "script-code-len:65535", "script-code-len:65536",
		"signed-input-unlocking-script:nil", "signed-input-unlocking-script:empty", "signed-input-unlocking-script:filled"} {
		if a.Cov[k] == 0 {
			return "counter " + k + " is zero"
		}
	}
	return ""
}

func init() {
	p := &mon.Property{
		ID: "C02",
		Rule: "fixed-shapes-exhaustive: 50 transaction shapes (1..6 inputs x 0..6 outputs = 42, six with script-code/unlocking/output script lengths 0,1,252,253,65535,65536, two with all-maximal / all-zero fields; contents from the PRNG) x every input index 0..k-1, k and 2^32-1 x {well-formed, signed input without txid (never set / decoded by Input.UnmarshalJSON from an empty txid), signed input with nil previous script} x ALL 128 eight-bit hash types with bit 0x40 (this sub-space is enumerated completely: exhaustive=true refers to hash type x index x these 50 shapes). " +
			"random-shapes: 5,000 (quick) / 300,000 (thorough) random shapes (1..6 inputs, 0..6 outputs, nil/empty/filled unlocking scripts, nil/empty/P2PKH/data/random previous scripts, boundary version/locktime/sequence/value, script lengths from the varint class set), 8 (index, hash type) pairs each, 20% of them error cases. " +
			"Oracle: CalcInputPreimage byte-equal to the independent refsighash.ForkIDPreimage, CalcInputSignatureHash == sha256d(reference preimage); error classes must return an error and never panic; Bytes/ExtendedBytes/nil-ness snapshot equal before and after each call. " +
			"distinct_nontrivial = distinct (extended tx bytes, index, hash type) of well-formed in-range cases whose preimage AND digest were returned and compared equal (error cases are not counted).",
		Assum: []string{"reference model /verif/internal/refsighash (no go-bt code; crypto/sha256) written from replay-protected-sighash.md; validated on every run against the 500 sighash_bip143.json and 500 sighash_legacy.json node vectors (32-bit hash types, spent value 0)",
			"hash types are 8-bit (sighash.Flag is uint8); other inputs always carry 32-byte txids",
			"the transaction is built through exported fields / PreviousTxIDAdd (gen.Shape.Build)"},
		Exhaustive: func(string) bool { return true },
	}
	judge := mon.Kind(p, "sighash", func(c *mon.Ctx, in *shCase) { shJudge(c, in, false) })
	seq := mon.Kind(p, "sequence", func(c *mon.Ctx, in *shSeq) { shJudgeSeq(c, in, false) })
	p.Run = func(c *mon.Ctx) {
		if shRun(c, "C02", true, judge) {
			shRunSeq(c, true, seq)
		}
	}
	p.Floor = func(a *mon.Agg) string { return shFloor(a, true) }
	{ // concurrent callers / readers (concurrent.go), after the sequential phases
		conc, run := concPhase(p, concSighash(false)), p.Run
		p.Run = func(c *mon.Ctx) { run(c); conc(c) }
	}
	mon.Register(p)
}
