package main

import (
	"bytes"
	"encoding/hex"
	"encoding/json"
	"fmt"
	"io"
	"strings"

	"github.com/libsv/go-bt/v2"

	"verif/internal/mon"
	"verif/internal/prng"
)

// C09, destinations with a history: ONE destination object (an Input, an Output, a
// Tx, a Txs) receives several documents / byte strings in a row, through
// different decoders. Whatever an earlier decode left in the object - a short
// or absent txid, more inputs than the next document has, nil scripts, an error
// half way - the next decode returns a value or an error, and a reader-based
// one never reports more bytes than it was given.

type c09ChainStep struct {
	Via  string  `json:"via"`            // json | json-node | bin | bin-ext
	Doc  string  `json:"doc,omitempty"`  // json / json-node: the document
	Data mon.Hex `json:"data,omitempty"` // bin / bin-ext: the bytes
}

type c09Chain struct {
	Target string         `json:"target"` // Input | Output | Tx | Txs
	Steps  []c09ChainStep `json:"steps"`
}

func c09JudgeChain(c *mon.Ctx, in *c09Chain) {
	c09WarmUp()
	var (
		inp = &bt.Input{}
		out = &bt.Output{}
		tx  = bt.NewTx()
		txs = bt.Txs{}
	)
	desc := func(k int) string {
		var sb strings.Builder
		for i := 0; i <= k && i < len(in.Steps); i++ {
			st := in.Steps[i]
			if st.Via == "json" || st.Via == "json-node" {
				d := st.Doc
				if len(d) > 200 {
					d = d[:200] + "…"
				}
				fmt.Fprintf(&sb, " %d:%s(%s)", i+1, st.Via, d)
			} else {
				h := hex.EncodeToString(st.Data)
				if len(h) > 200 {
					h = h[:200] + "…"
				}
				fmt.Fprintf(&sb, " %d:%s(%s)", i+1, st.Via, h)
			}
		}
		return sb.String()
	}
	for k, st := range in.Steps {
		c.Eval(1)
		var used int64 = -1
		var err error
		name := in.Target + "<-" + st.Via
		ok := c.Try("chain:"+name, func() {
			switch st.Via {
			case "json", "json-node":
				var dst any
				switch in.Target {
				case "Input":
					dst = inp
				case "Output":
					dst = out
					if st.Via == "json-node" {
						dst = out.NodeJSON()
					}
				case "Tx":
					dst = tx
					if st.Via == "json-node" {
						dst = tx.NodeJSON()
					}
				case "Txs":
					dst = &txs
					if st.Via == "json-node" {
						dst = txs.NodeJSON()
					}
				}
				err = json.Unmarshal([]byte(st.Doc), dst)
			default:
				var r io.Reader = bytes.NewReader(st.Data)
				if k%2 == 1 {
					r = struct{ io.Reader }{r} // without Len()
				}
				switch in.Target {
				case "Input":
					if st.Via == "bin-ext" {
						used, err = inp.ReadFromExtended(r)
					} else {
						used, err = inp.ReadFrom(r)
					}
				case "Output":
					used, err = out.ReadFrom(r)
				case "Tx":
					used, err = tx.ReadFrom(r)
				case "Txs":
					used, err = txs.ReadFrom(r)
				}
			}
		})
		if !ok {
			c.Violationf("C09:chain:panic-on-a-destination-with-history:"+name, "step %d of%s", k+1, desc(k))
			return
		}
		if err != nil {
			c.Count("chain:" + name + ":error")
		} else {
			c.Count("chain:" + name + ":value")
		}
		if used >= 0 {
			if used > int64(len(st.Data)) {
				c.Violationf("C09:consumed>supplied:chain:"+name, "%d bytes reported, %d supplied, at step %d of%s", used, len(st.Data), k+1, desc(k))
			} else {
				c.Count("chain:consumed-within-bounds")
			}
		}
		// the object is used between the decodes, as an owner would: every read returns
		c.Try("chain:use:"+in.Target, func() {
			switch in.Target {
			case "Input":
				_ = inp.PreviousTxID()
				_ = inp.PreviousTxIDStr()
				_, _ = json.Marshal(inp)
				if len(inp.PreviousTxID()) == 32 {
					_ = inp.Bytes(false)
				}
			case "Output":
				if out.LockingScript != nil {
					_ = out.Bytes()
					_ = out.LockingScriptHexString()
				}
			case "Tx":
				wellFormed := true
				for _, i := range tx.Inputs {
					if i == nil || len(i.PreviousTxID()) != 32 {
						wellFormed = false
					}
				}
				for _, o := range tx.Outputs {
					if o == nil || o.LockingScript == nil {
						wellFormed = false
					}
				}
				if wellFormed {
					_ = tx.Bytes()
					_ = tx.TxID()
				}
			}
		})
	}
	var h [][]byte
	h = append(h, []byte(in.Target))
	for _, st := range in.Steps {
		h = append(h, []byte(st.Via), []byte(st.Doc), st.Data)
	}
	c.Distinct(prng.HashBytes(h...))
}

// c09ChainPools: what each kind of destination may be sent, well-formed and not.
func c09ChainPools(base []*c09Base) map[string][]c09ChainStep {
	id := strings.Repeat("ab", 32)
	j := func(via, doc string) c09ChainStep { return c09ChainStep{Via: via, Doc: doc} }
	b := func(via string, d []byte) c09ChainStep {
		return c09ChainStep{Via: via, Data: append([]byte{}, d...)}
	}
	pools := map[string][]c09ChainStep{}
	// ---- Input
	p := []c09ChainStep{
		j("json", `{}`), j("json", `null`), j("json", `{"txid":""}`), j("json", `{"txid":"abcd"}`), j("json", `{"txid":"`+id+`ab"}`), j("json", `{"txid":null}`),
		j("json", `{"txid":"`+id+`","vout":1,"unlockingScript":"51","sequence":5}`), j("json", `{"unlockingScript":""}`), j("json", `{"txid":"zz"}`), j("json", `{"txid":"`+id[:62]+`"}`),
		b("bin", nil), b("bin-ext", nil),
	}
	for _, cb := range base {
		for _, kind := range []string{"in", "in-ext"} {
			w := cb.forKind(kind)
			via := map[string]string{"in": "bin", "in-ext": "bin-ext"}[kind]
			p = append(p, b(via, w), b(via, w[:len(w)/2]), b(via, w[:min(len(w), 31)]), b(via, w[:min(len(w), 36)]), b(via, w[:len(w)-1]))
		}
	}
	pools["Input"] = p
	// ---- Output
	p = []c09ChainStep{j("json", `{}`), j("json", `null`), j("json", `{"satoshis":1,"lockingScript":"51"}`), j("json", `{"lockingScript":""}`), j("json", `{"satoshis":2}`), j("json", `{"lockingScript":"5"}`),
		j("json-node", `{}`), j("json-node", `{"value":0.5,"n":0,"scriptPubKey":{"hex":"76a914`+id[:40]+`88ac"}}`), j("json-node", `{"value":1}`), j("json-node", `null`), b("bin", nil)}
	for _, cb := range base {
		w := cb.forKind("out")
		p = append(p, b("bin", w), b("bin", w[:len(w)/2]), b("bin", w[:min(len(w), 8)]), b("bin", w[:len(w)-1]))
	}
	pools["Output"] = p
	// ---- Tx and Txs
	p = []c09ChainStep{j("json", `{}`), j("json", `null`), j("json", `{"hex":""}`), j("json", `{"hex":"00"}`), j("json", `{"inputs":[{}],"outputs":[{}]}`), j("json", `{"inputs":[null],"outputs":[null]}`),
		j("json", `{"version":2,"locktime":3,"inputs":[{"txid":"`+id+`","vout":0,"unlockingScript":"","sequence":1}],"outputs":[{"satoshis":1,"lockingScript":"51"}]}`),
		j("json-node", `{}`), j("json-node", `null`), j("json-node", `{"hex":""}`), j("json-node", `{"vin":[{}],"vout":[{}]}`), j("json-node", `{"result":{"hex":"00"}}`), b("bin", nil)}
	q := []c09ChainStep{j("json", `[]`), j("json", `null`), j("json", `[null]`), j("json", `[{}]`), j("json-node", `[]`), j("json-node", `[null,{}]`), j("json-node", `null`), b("bin", nil), b("bin", []byte{0x01}), b("bin", []byte{0x00})}
	for _, cb := range base {
		hx := hex.EncodeToString(cb.b)
		p = append(p, j("json", `{"hex":"`+hx+`"}`), j("json-node", `{"hex":"`+hx+`"}`), j("json", `{"hex":"`+hx[:len(hx)/2]+`"}`), b("bin", cb.b), b("bin", cb.b[:len(cb.b)/2]), b("bin", cb.b[:len(cb.b)-1]))
		l := cb.forKind("list")
		q = append(q, j("json", `[{"hex":"`+hx+`"},{"hex":"`+hx+`"}]`), j("json", `[{"hex":"`+hx+`"}]`), j("json-node", `[{"hex":"`+hx+`"}]`), j("json-node", `[{"hex":"`+hx+`"},null]`), b("bin", l), b("bin", l[:len(l)/2]), b("bin", l[:len(l)-1]))
	}
	pools["Tx"], pools["Txs"] = p, q
	return pools
}

// c09RunChains: every ordered pair of the pool of each destination, and sampled triples.
func c09RunChains(c *mon.Ctx, judge func(*mon.Ctx, *c09Chain), base []*c09Base) {
	pools := c09ChainPools(base)
	n := uint64(0)
	for _, target := range []string{"Input", "Output", "Tx", "Txs"} {
		pool := pools[target]
		for a := range pool {
			for b := range pool {
				n++
				if !c.Case(n) {
					continue
				}
				steps := []c09ChainStep{pool[a], pool[b]}
				r := c.Rand(n)
				if r.Chance(1, 3) {
					steps = append(steps, pool[r.Intn(len(pool))])
				}
				if r.Chance(1, 6) {
					steps = append([]c09ChainStep{pool[r.Intn(len(pool))]}, steps...)
				}
				judge(c, &c09Chain{Target: target, Steps: steps})
			}
		}
	}
}
