package main

import (
	"bytes"

	"github.com/libsv/go-bt/v2/sighash"

	"verif/internal/gen"
	"verif/internal/mon"
	"verif/internal/prng"
	"verif/internal/refsighash"
)

// C03 — legacy signature hash equals the original Satoshi algorithm, including
// the SIGHASH_SINGLE "hash = 1" rule. Judge and workload are shared with C02
// (shJudge / shRun in c02.go) with legacy == true:
//
//   - the 128 eight-bit hash types WITHOUT bit 0x40; CalcInputSignatureHash
//     dispatches on that bit (signaturehash.go sigStrat: shf.Has(ForkID)), so
//     these reach CalcInputPreimageLegacy;
//   - reference refsighash.LegacyPreimage with the script code taken verbatim
//     from the input's previous script (no code-separator stripping);
//   - SINGLE with index >= #outputs: CalcInputSignatureHash must be exactly
//     01 00..00 (not hashed, no error);
//   - error classes (index out of range, no txid, nil previous script) are
//     outside C03's quantifier: only "no panic, tx unchanged" is demanded.
//
// One extra clause, phase "constant-not-shared": the 32-byte constant handed to
// one caller must not be storage shared with later calls (a caller that owns
// its result and changes it must not change what the next caller receives).

type c03Alias struct {
	Shape    gen.Shape `json:"shape"`
	Idx      uint32    `json:"idx"`
	HashType uint8     `json:"hash_type"`
	Via      string    `json:"via"` // which call's result the caller modifies: "sighash" or "preimage"
}

func c03JudgeAlias(c *mon.Ctx, in *c03Alias) {
	s := &in.Shape
	if int(in.Idx) >= len(s.Ins) || in.HashType&0x5f != 3 || int(in.Idx) < len(s.Outs) {
		c.Count("skipped:not-a-single-without-output-case")
		return
	}
	c.Eval(1)
	flag := sighash.Flag(in.HashType)
	tx := s.BuildShared()
	call := func() (out []byte, err error) {
		if in.Via == "preimage" {
			return tx.CalcInputPreimageLegacy(in.Idx, flag)
		}
		return tx.CalcInputSignatureHash(in.Idx, flag)
	}
	var first, base []byte
	var err, berr error
	if !c.Try("bt.(*Tx).CalcInputSignatureHash", func() { base, berr = tx.CalcInputSignatureHash(in.Idx, flag); first, err = call() }) ||
		err != nil || berr != nil || !bytes.Equal(first, refsighash.One[:]) || !bytes.Equal(base, refsighash.One[:]) {
		c.Count("alias:first-call-not-the-constant(judged by the main oracle)")
		return
	}
	// the caller owns its result: it changes it (and restores it afterwards so
	// that a shared constant does not poison the rest of this process)
	first[0] ^= 0xff
	first[31] ^= 0x80
	var second []byte
	var herr error
	ok := c.Try("bt.(*Tx).CalcInputSignatureHash", func() { second, herr = tx.CalcInputSignatureHash(in.Idx, flag) })
	second = append([]byte{}, second...)
	first[0] ^= 0xff
	first[31] ^= 0x80
	if !ok {
		return
	}
	c.Count("alias:probed:" + in.Via)
	if herr != nil || !bytes.Equal(second, refsighash.One[:]) {
		c.Violationf("C03:single-no-output:constant-shared-with-caller:"+in.Via,
			"after a caller modified the 32 bytes returned by %s (SINGLE, input %d >= %d outputs), the next CalcInputSignatureHash returned %x (err %v) instead of 01 00..00: the result aliases package-level storage; %s",
			map[string]string{"preimage": "CalcInputPreimageLegacy", "sighash": "CalcInputSignatureHash"}[in.Via], in.Idx, len(s.Outs), second, herr,
			shDescribe(&shCase{Shape: in.Shape, Idx: in.Idx, HashType: in.HashType}))
		return
	}
	c.Count("alias:constant-unaffected")
}

func init() {
	p := &mon.Property{
		ID: "C03",
		Rule: "fixed-shapes-exhaustive: 50 transaction shapes (1..6 inputs x 0..6 outputs = 42 with nil / empty / filled unlocking scripts in rotation, six with script-code/unlocking/output script lengths 0,1,252,253,65535,65536, two with all-maximal / all-zero fields; contents from the PRNG) x every input index 0..k-1, k and 2^32-1 x {well-formed, signed input without txid, signed input with nil previous script} x ALL 128 eight-bit hash types without bit 0x40 (enumerated completely: exhaustive=true refers to hash type x index x these 50 shapes). " +
			"random-shapes: 5,000 (quick) / 300,000 (thorough) random shapes (1..6 inputs, 0..6 outputs, nil/empty/filled unlocking scripts on every input, nil/empty/P2PKH/data/random previous scripts, boundary values), 8 (index, hash type) pairs each. " +
			"Oracle: CalcInputPreimageLegacy byte-equal to the independent refsighash.LegacyPreimage (script code = the input's previous script verbatim), CalcInputSignatureHash == sha256d(reference preimage); SINGLE with index >= #outputs: CalcInputSignatureHash == 01 00..00 exactly (no error, not hashed); Bytes/ExtendedBytes/nil-ness snapshot equal before and after each call; error classes: no panic (outcome recorded, not judged). " +
			"constant-not-shared: for SINGLE-without-output cases the caller flips bits in the returned 32 bytes and asks again. " +
			"distinct_nontrivial = distinct (extended tx bytes, index, hash type) of well-formed in-range cases whose results were compared equal (incl. the constant-1 cases; error cases are not counted).",
		Assum: []string{"reference model /verif/internal/refsighash (no go-bt code; crypto/sha256) written from the legacy sighash description (CTransactionSignatureSerializer); validated on every run against the 500 sighash_legacy.json node vectors after push-aware OP_CODESEPARATOR stripping (290 contain none) and the 500 sighash_bip143.json vectors",
			"hash types are 8-bit; all inputs other than the signed one carry 32-byte txids (Tx.Clone needs a parseable serialisation)",
			"code-separator stripping is the caller's job (as C03 states): script codes are passed verbatim to both sides"},
		Exhaustive: func(string) bool { return true },
	}
	judge := mon.Kind(p, "sighash", func(c *mon.Ctx, in *shCase) { shJudge(c, in, true) })
	alias := mon.Kind(p, "alias", c03JudgeAlias)
	seq := mon.Kind(p, "sequence", func(c *mon.Ctx, in *shSeq) { shJudgeSeq(c, in, true) })
	p.Run = func(c *mon.Ctx) {
		if !shRun(c, "C03", false, judge) {
			return
		}
		shRunSeq(c, false, seq)
		c.Phase("constant-not-shared")
		for n := uint64(0); n < 64; n++ {
			if !c.Case(n) {
				continue
			}
			r := c.Rand(n)
			ni := 2 + r.Intn(5)
			s := gen.ShapeN(r, ni, r.Intn(ni), gen.ShapeOpts{})
			idx := uint32(len(s.Outs) + r.Intn(ni-len(s.Outs)))
			ht := uint8(3)
			if r.Bool() {
				ht |= 0x80
			}
			alias(c, &c03Alias{Shape: *s, Idx: idx, HashType: ht, Via: prng.Pick(r, []string{"sighash", "preimage"})})
		}
	}
	p.Floor = func(a *mon.Agg) string {
		if r := shFloor(a, false); r != "" {
			return r
		}
		for _, k := range []string{"single-no-output:hash-is-constant-one", "alias:probed:sighash"} {
			if a.Cov[k] == 0 {
				return "counter " + k + " is zero"
			}
		}
		return ""
	}
	{ // concurrent callers / readers (concurrent.go), after the sequential phases
		conc, run := concPhase(p, concSighash(true)), p.Run
		p.Run = func(c *mon.Ctx) { run(c); conc(c) }
	}
	mon.Register(p)
}
