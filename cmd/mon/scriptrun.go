package main

import (
	"bytes"
	"fmt"

	"github.com/libsv/go-bt/v2"
	"github.com/libsv/go-bt/v2/bscript"
	"github.com/libsv/go-bt/v2/bscript/interpreter"
	"github.com/libsv/go-bt/v2/bscript/interpreter/scriptflag"

	"verif/internal/mon"
	"verif/internal/refscript"
	"verif/internal/vectors"
)

// Shared by C05, C06, C07, C08, C19: how a script program is handed to the
// real interpreter, how its execution is recorded through the public Debugger
// API, and how the recording is compared with the reference model.

type progCtx struct {
	HasTx    bool   `json:"has_tx"`
	Version  uint32 `json:"version"`
	LockTime uint32 `json:"locktime"`
	Sequence uint32 `json:"sequence"`
	Sats     uint64 `json:"sats"`
	// NilUnlock: the checked input carries no unlocking script; the scripts are
	// handed over with WithScripts next to WithTx (C08)
	NilUnlock bool `json:"nil_unlock,omitempty"`
}

type progInput struct {
	Unlock mon.Hex `json:"unlock"`
	Lock   mon.Hex `json:"lock"`
	Flags  uint32  `json:"flags"` // scriptflag.Flag bits
	Ctx    progCtx `json:"ctx"`
	Src    string  `json:"src"`
}

// modelFlags maps the library's flag word to the node's flag set.
func modelFlags(f scriptflag.Flag) refscript.Flags {
	var m refscript.Flags
	set := func(lf scriptflag.Flag, mf refscript.Flags) {
		if f&lf != 0 {
			m |= mf
		}
	}
	set(scriptflag.Bip16, refscript.FP2SH)
	set(scriptflag.StrictMultiSig, refscript.FNullDummy)
	set(scriptflag.DiscourageUpgradableNops, refscript.FDiscourageNops)
	set(scriptflag.VerifyCheckLockTimeVerify, refscript.FCLTV)
	set(scriptflag.VerifyCheckSequenceVerify, refscript.FCSV)
	set(scriptflag.VerifyCleanStack, refscript.FCleanStack)
	set(scriptflag.VerifyDERSignatures, refscript.FDERSig)
	set(scriptflag.VerifyLowS, refscript.FLowS)
	set(scriptflag.VerifyMinimalData, refscript.FMinimalData)
	set(scriptflag.VerifyNullFail, refscript.FNullFail)
	set(scriptflag.VerifySigPushOnly, refscript.FSigPushOnly)
	// the library documents that enabling FORKID implies strict encoding
	set(scriptflag.EnableSighashForkID, refscript.FForkID|refscript.FStrictEnc)
	set(scriptflag.VerifyStrictEncoding, refscript.FStrictEnc)
	set(scriptflag.UTXOAfterGenesis, refscript.FGenesis)
	set(scriptflag.VerifyMinimalIf, refscript.FMinimalIf)
	return m
}

func era(f uint32) string {
	if scriptflag.Flag(f)&scriptflag.UTXOAfterGenesis != 0 {
		return "post-genesis"
	}
	return "pre-genesis"
}

var fixedTxID = bytes.Repeat([]byte{0x11}, 32)

// flagOptions expresses one flag set as Execute options in one of four
// equivalent ways (options accumulate flags, in any order): a single
// WithFlags; the convenience options WithAfterGenesis / WithForkID / WithP2SH
// followed by WithFlags(rest); the same the other way round; two WithFlags
// calls. The style is a function of the case (salt) so that replays repeat it.
func flagOptions(flags uint32, salt int) []interpreter.ExecutionOptionFunc {
	f := scriptflag.Flag(flags)
	var conv []interpreter.ExecutionOptionFunc
	rest := f
	if f&scriptflag.UTXOAfterGenesis != 0 {
		conv, rest = append(conv, optAfterGenesis), rest&^scriptflag.UTXOAfterGenesis
	}
	if f&scriptflag.EnableSighashForkID != 0 {
		conv, rest = append(conv, optForkID), rest&^scriptflag.EnableSighashForkID
	}
	if f&scriptflag.Bip16 != 0 {
		conv, rest = append(conv, optP2SH), rest&^scriptflag.Bip16
	}
	if salt < 0 {
		salt = -salt
	}
	switch salt % 4 {
	case 1:
		return append(conv, withFlags(rest))
	case 2:
		return append([]interpreter.ExecutionOptionFunc{withFlags(rest)}, conv...)
	case 3:
		lo := f & 0x5555_5555
		return []interpreter.ExecutionOptionFunc{withFlags(lo), withFlags(f &^ lo)}
	}
	return []interpreter.ExecutionOptionFunc{withFlags(f)}
}

// Option values are values: a caller may build them once and hand the same one
// to many executions (with other options in front of or behind it). The
// monitors keep one WithFlags value per flag set for the life of the process,
// and one of each convenience option.
var (
	optAfterGenesis = interpreter.WithAfterGenesis()
	optForkID       = interpreter.WithForkID()
	optP2SH         = interpreter.WithP2SH()
	optWithFlags    = map[scriptflag.Flag]interpreter.ExecutionOptionFunc{}
)

func withFlags(f scriptflag.Flag) interpreter.ExecutionOptionFunc {
	o, ok := optWithFlags[f]
	if !ok {
		o = interpreter.WithFlags(f)
		optWithFlags[f] = o
	}
	return o
}

// libOptions builds the Execute options for a program; scripts are copied so
// that the monitor's own input is never shared with the library.
func libOptions(in *progInput) (opts []interpreter.ExecutionOptionFunc, tx *bt.Tx, unlock, lock *bscript.Script) {
	unlock = bscript.NewFromBytes(mon.Exact(in.Unlock))
	lock = bscript.NewFromBytes(mon.Exact(in.Lock))
	if in.Ctx.HasTx {
		tx = &bt.Tx{Version: in.Ctx.Version, LockTime: in.Ctx.LockTime}
		inp := &bt.Input{PreviousTxOutIndex: 0, SequenceNumber: in.Ctx.Sequence, UnlockingScript: unlock}
		_ = inp.PreviousTxIDAdd(append([]byte{}, fixedTxID...))
		tx.Inputs = append(tx.Inputs, inp)
		tx.Outputs = append(tx.Outputs, &bt.Output{Satoshis: 1, LockingScript: bscript.NewFromBytes([]byte{0x51})})
		opts = append(opts, interpreter.WithTx(tx, 0, &bt.Output{Satoshis: in.Ctx.Sats, LockingScript: lock}))
	} else {
		opts = append(opts, interpreter.WithScripts(lock, unlock))
	}
	opts = append(opts, flagOptions(in.Flags, len(in.Unlock)+3*len(in.Lock)+int(in.Flags%7))...)
	return
}

type stepSnap struct {
	Stack, Alt [][]byte
}

// recDebugger records what the public Debugger API shows.
type recDebugger struct {
	steps     []stepSnap
	lastOp    byte
	haveOp    bool
	terminal  string
	termErr   error
	callbacks int
}

func (d *recDebugger) BeforeExecute(*interpreter.State) { d.callbacks++ }
func (d *recDebugger) AfterExecute(*interpreter.State)  { d.callbacks++ }
func (d *recDebugger) BeforeStep(*interpreter.State)    { d.callbacks++ }
func (d *recDebugger) AfterStep(s *interpreter.State) {
	d.callbacks++
	d.steps = append(d.steps, stepSnap{Stack: s.DataStack, Alt: s.AltStack})
}
func (d *recDebugger) BeforeExecuteOpcode(s *interpreter.State) {
	d.callbacks++
	if s.ScriptIdx < len(s.Scripts) && s.OpcodeIdx < len(s.Scripts[s.ScriptIdx]) {
		d.lastOp, d.haveOp = s.Opcode().Value(), true
	}
}
func (d *recDebugger) AfterExecuteOpcode(*interpreter.State)      { d.callbacks++ }
func (d *recDebugger) BeforeScriptChange(*interpreter.State)      { d.callbacks++ }
func (d *recDebugger) AfterScriptChange(*interpreter.State)       { d.callbacks++ }
func (d *recDebugger) BeforeStackPush(*interpreter.State, []byte) { d.callbacks++ }
func (d *recDebugger) AfterStackPush(*interpreter.State, []byte)  { d.callbacks++ }
func (d *recDebugger) BeforeStackPop(*interpreter.State)          { d.callbacks++ }
func (d *recDebugger) AfterStackPop(*interpreter.State, []byte)   { d.callbacks++ }
func (d *recDebugger) AfterSuccess(*interpreter.State)            { d.callbacks++; d.terminal = "success" }
func (d *recDebugger) AfterError(_ *interpreter.State, err error) {
	d.callbacks++
	d.terminal = "error"
	d.termErr = err
}

func stacksEqual(a, b [][]byte) bool {
	if len(a) != len(b) {
		return false
	}
	for i := range a {
		if !bytes.Equal(a[i], b[i]) {
			return false
		}
	}
	return true
}

func fmtStack(s [][]byte) string {
	out := "["
	for i, v := range s {
		if i > 0 {
			out += " "
		}
		if len(v) > 40 {
			out += fmt.Sprintf("%x…(%d bytes)", v[:40], len(v))
		} else {
			out += fmt.Sprintf("%x", v)
		}
	}
	return out + "]"
}

func modelOpts(in *progInput, sig refscript.SigChecker, trace bool) refscript.Opts {
	o := refscript.Opts{Flags: modelFlags(scriptflag.Flag(in.Flags)), Trace: trace, Sig: sig}
	if in.Ctx.HasTx {
		o.Tx = &refscript.TxCtx{Version: in.Ctx.Version, LockTime: in.Ctx.LockTime, Sequence: in.Ctx.Sequence}
	}
	return o
}

// compareLockstep judges one program: verdict and per-step stacks of the
// library (as recorded) against the model. It returns whether both agreed.
func compareLockstep(c *mon.Ctx, prop string, in *progInput, model *refscript.Result, libErr error, rec *recDebugger) bool {
	e := era(in.Flags)
	agree := true
	n := len(rec.steps)
	if len(model.Steps) < n {
		n = len(model.Steps)
	}
	for i := 0; i < n; i++ {
		ms, ls := model.Steps[i], rec.steps[i]
		if !stacksEqual(ms.Stack, ls.Stack) || !stacksEqual(ms.Alt, ls.Alt) {
			which := "data"
			if stacksEqual(ms.Stack, ls.Stack) {
				which = "alt"
			}
			c.Violationf(fmt.Sprintf("%s:stack-mismatch:%s:%s:%s", prop, vectors.OpName(ms.Opcode), which, e),
				"after step %d (script %d, instruction %d, %s): library data=%s alt=%s, node rules data=%s alt=%s; unlock=%x lock=%x flags=%#x",
				i, ms.Script, ms.Op, vectors.OpName(ms.Opcode), fmtStack(ls.Stack), fmtStack(ls.Alt), fmtStack(ms.Stack), fmtStack(ms.Alt), []byte(in.Unlock), []byte(in.Lock), in.Flags)
			return false
		}
	}
	c.CountN(prop+":steps-compared", int64(n))
	libOK := libErr == nil
	if libOK != model.OK {
		op := "end-of-script"
		if model.HasFail {
			op = vectors.OpName(model.FailOp)
		} else if !libOK && rec.haveOp && len(rec.steps) < len(model.Steps) {
			op = vectors.OpName(rec.lastOp)
		}
		lv, mv := "accepts", "OK"
		if !libOK {
			lv = "rejects"
		}
		if !model.OK {
			mv = model.Err
		}
		c.Violationf(fmt.Sprintf("%s:verdict:lib-%s:node-%s:%s:%s", prop, lv, mv, op, e),
			"library %s (err=%v) but the node rules give %s; unlock=%x lock=%x flags=%#x ctx=%+v; library steps=%d model steps=%d",
			lv, libErr, mv, []byte(in.Unlock), []byte(in.Lock), in.Flags, in.Ctx, len(rec.steps), len(model.Steps))
		return false
	}
	if libOK && len(rec.steps) != len(model.Steps) {
		c.Violationf(fmt.Sprintf("%s:step-count:%s", prop, e),
			"both accept but the library executed %d steps and the model %d; unlock=%x lock=%x flags=%#x", len(rec.steps), len(model.Steps), []byte(in.Unlock), []byte(in.Lock), in.Flags)
		agree = false
	}
	return agree
}

func vectorsParse(s string) ([]byte, error) { return vectors.ParseShort(s) }

type falseChecker struct{}

func (falseChecker) CheckSig(_, _, _ []byte, _ bool) bool { return false }

// resourceHog uses the reference model as a cheap pre-filter: programs whose
// node-rule execution would build an element above the model's 4 MiB cap
// (e.g. "1 0x7fffffff NUM2BIN" after Genesis, which legitimately yields a
// 2 GiB element) are not handed to the library by the totality, aliasing and
// debugger monitors – they would only measure allocation speed.
func resourceHog(unlock, lock []byte, flags uint32, ctx progCtx) bool {
	in := progInput{Unlock: unlock, Lock: lock, Flags: flags, Ctx: ctx}
	in.Ctx.HasTx = true
	r := refscript.Verify(unlock, lock, modelOpts(&in, falseChecker{}, false))
	return r.Unsupported != "" && r.Unsupported != "CLEANSTACK without P2SH"
}

var (
	sharedEngines [3]interpreter.Engine
	engineTurn    int
)

// theEngine returns the interpreter used for an execution. The engine is
// documented as stateless, so a few long-lived instances serve every case of a
// child process (state that survives an Execute call shows up as a disagreement
// that depends on what ran before): one whose first execution had scripts only,
// one whose first execution had a transaction context, one without history.
// They take turns from call to call.
func theEngine(c *mon.Ctx) interpreter.Engine {
	if sharedEngines[0] == nil {
		one := func() *bscript.Script { return bscript.NewFromBytes([]byte{0x51}) }
		for i := range sharedEngines {
			sharedEngines[i] = interpreter.NewEngine()
		}
		mon.TryQuiet(func() { _ = sharedEngines[0].Execute(interpreter.WithScripts(one(), one())) })
		mon.TryQuiet(func() {
			tx := &bt.Tx{Version: 1}
			inp := &bt.Input{UnlockingScript: one(), SequenceNumber: 0xffffffff}
			_ = inp.PreviousTxIDAdd(append([]byte{}, fixedTxID...))
			tx.Inputs = append(tx.Inputs, inp)
			tx.Outputs = append(tx.Outputs, &bt.Output{Satoshis: 1, LockingScript: one()})
			_ = sharedEngines[1].Execute(interpreter.WithTx(tx, 0, &bt.Output{Satoshis: 1, LockingScript: one()}))
		})
	}
	engineTurn++
	return sharedEngines[engineTurn%len(sharedEngines)]
}
