//go:build verif

package main

// Coverage-guided stage of the thorough tier (DESIGN 9.1, "coverage-guided
// generation"). Go's native fuzzing engine is the *generator*; the deciding
// step is the property's own judge, called through the same kind decoder and
// the same JSON record a replay file holds (internal/mon/fuzz.go). Run by
// ./check <id> thorough:
//
//	go test -tags verif -run '^$' -fuzz '^FuzzC14Script$' -fuzztime 400000x ./cmd/mon
//
// The targets only translate the engine's flat arguments into the judges'
// input structs; they add no oracle of their own.

import (
	"crypto/sha256"
	"encoding/hex"
	"fmt"
	"os"
	"testing"

	"github.com/libsv/go-bt/v2/bscript/interpreter/scriptflag"

	"verif/internal/gen"
	"verif/internal/mon"
	"verif/internal/prng"
	"verif/internal/vectors"
)

func init() {
	root := os.Getenv("VERIF_ROOT")
	if root == "" {
		root = "../.."
	}
	_ = os.Chdir(root) // the monitors read testdata/ relative to the framework root
}

func fuzzJudge(t *testing.T, prop, kind string, in any) {
	s := mon.Fuzz(prop)
	if s == nil {
		t.Skip("unknown property")
	}
	if keys := s.Judge(kind, in); keys != "" {
		t.Fatalf("VIOLATION property=%s keys=%s", prop, keys)
	}
}

func scriptSeeds(f *testing.F, add func(unlock, lock []byte, flags uint32)) {
	vs, err := vectors.LoadScriptTests("testdata/script_tests.json")
	if err != nil {
		f.Fatalf("node vectors: %v", err)
	}
	for i, v := range vs {
		if i%3 != 0 && len(v.Unlock)+len(v.Lock) > 40 {
			continue
		}
		add(v.Unlock, v.Lock, libFlagsOfVector(v.Flags))
	}
}

// ---------------------------------------------------------------- C05

// programTarget: the interpreter monitors that judge a (unlock, lock, flags,
// transaction context) program against the node-rule model share one target body.
func programTarget(f *testing.F, prop string) {
	scriptSeeds(f, func(u, l []byte, fl uint32) { f.Add(u, l, uint16(0), uint32(0), uint32(0xffffffff), uint16(0)) })
	scriptSeeds(f, func(u, l []byte, fl uint32) {
		mask := uint16(0)
		for i, x := range nonSigFlags {
			if fl&uint32(x) != 0 {
				mask |= 1 << i
			}
		}
		f.Add(u, l, mask, uint32(500000001), uint32(5), uint16(7))
	})
	f.Fuzz(func(t *testing.T, unlock, lock []byte, mask uint16, locktime, sequence uint32, sats uint16) {
		// the judges of C08 and C19 run a program several times under recording debuggers whose
		// snapshots copy the stacks at every step: quadratic in the script length
		if len(unlock)+len(lock) > 600 {
			t.Skip()
		}
		in := &progInput{Unlock: unlock, Lock: lock, Flags: flagSubset(int(mask) & (1<<len(nonSigFlags) - 1)),
			Ctx: progCtx{HasTx: true, Version: 1 + uint32(sats&1), LockTime: locktime, Sequence: sequence, Sats: uint64(sats)}, Src: "coverage-guided"}
		if resourceHog(in.Unlock, in.Lock, in.Flags, in.Ctx) {
			t.Skip()
		}
		fuzzJudge(t, prop, "program", in)
	})
}

func FuzzC05Program(f *testing.F) { programTarget(f, "C05") }
func FuzzC08Program(f *testing.F) { programTarget(f, "C08") }
func FuzzC19Program(f *testing.F) { programTarget(f, "C19") }

// ---------------------------------------------------------------- C07

func FuzzC07Exec(f *testing.F) {
	scriptSeeds(f, func(u, l []byte, fl uint32) {
		f.Add(u, l, fl, uint8(1), uint8(0), uint32(0), uint32(0xffffffff), uint16(0))
	})
	f.Fuzz(func(t *testing.T, unlock, lock []byte, flags uint32, mode, dbg uint8, locktime, sequence uint32, sats uint16) {
		if len(unlock)+len(lock) > 1500 {
			t.Skip()
		}
		in := &c07Input{Unlock: unlock, Lock: lock, Flags: flags & 0xffff, Mode: c07Modes[int(mode)%len(c07Modes)],
			Dbg: []string{"none", "recording", "default", "accessors"}[int(dbg)%4],
			Ctx: progCtx{HasTx: true, Version: 1 + uint32(sats&1), LockTime: locktime, Sequence: sequence, Sats: uint64(sats)}, Src: "coverage-guided"}
		fuzzJudge(t, "C07", "exec", in)
	})
}

// ---------------------------------------------------------------- C09

func FuzzC09Bin(f *testing.F) {
	for i, cb := range c09Corpus(1, 16) {
		if len(cb.b) > 2000 {
			continue
		}
		for e, ent := range c09BinEntries {
			f.Add(uint8(e), int8(i%6-4), cb.forKind(ent.kind))
		}
	}
	f.Fuzz(func(t *testing.T, entry uint8, chunk int8, data []byte) {
		e := c09BinEntries[int(entry)%len(c09BinEntries)]
		ch := int(chunk)
		if ch < -4 {
			ch = -ch
		}
		fuzzJudge(t, "C09", "bin", &c09Bin{Entry: e.name, Bytes: data, Class: "coverage-guided", Chunk: ch})
	})
}

func FuzzC09JSON(f *testing.F) {
	small := c09Corpus(1, 4)
	for _, cb := range small {
		if len(cb.b) > 2000 {
			continue
		}
		docs := c09ValidDocs(cb.t)
		for e, ent := range c09JSONEntries {
			for _, d := range docs[ent.name] {
				f.Add(uint8(e), jrender(d))
			}
		}
	}
	f.Fuzz(func(t *testing.T, entry uint8, doc string) {
		e := c09JSONEntries[int(entry)%len(c09JSONEntries)]
		fuzzJudge(t, "C09", "json", &c09Doc{Entry: e.name, Doc: doc, Class: "coverage-guided"})
	})
}

// ---------------------------------------------------------------- C01

func FuzzC01Bytes(f *testing.F) {
	for i, cb := range c09Corpus(1, 16) {
		if len(cb.b) > 2000 {
			continue
		}
		f.Add(cb.b, false, uint8(1))
		f.Add(append(append([]byte{}, cb.b...), cb.b...), false, uint8(2))
		if i < 6 {
			f.Add(cb.forKind("list"), true, uint8(2))
		}
	}
	f.Fuzz(func(t *testing.T, data []byte, list bool, n uint8) {
		fuzzJudge(t, "C01", "bytes", &c01Bytes{Bytes: data, Class: "coverage-guided", List: list, Txs: 1 + int(n%4)})
	})
}

// ---------------------------------------------------------------- C13 / C14

func FuzzC13Script(f *testing.F) {
	scriptSeeds(f, func(u, l []byte, _ uint32) { f.Add(u); f.Add(l) })
	f.Fuzz(func(t *testing.T, script []byte) {
		fuzzJudge(t, "C13", "script", &c13Script{Script: script, Class: "coverage-guided"})
	})
}

func FuzzC14Script(f *testing.F) {
	scriptSeeds(f, func(u, l []byte, _ uint32) { f.Add(l) })
	for _, s := range []string{
		"76a914000102030405060708090a0b0c0d0e0f1011121388ac",
		"76a914000102030405060708090a0b0c0d0e0f1011121388ac0063036f7264510a746578742f706c61696e000568656c6c6f68",
		"76a914000102030405060708090a0b0c0d0e0f1011121388ac0063036f7264510a746578742f706c61696e000568656c6c6f686a0101",
		"a914000102030405060708090a0b0c0d0e0f1011121387",
		"006a0568656c6c6f", "6a0568656c6c6f",
		"512102000000000000000000000000000000000000000000000000000000000000000121030000000000000000000000000000000000000000000000000000000000000000252ae",
		"21020000000000000000000000000000000000000000000000000000000000000001ac",
	} {
		if b, err := hex.DecodeString(s); err == nil {
			f.Add(b)
		}
	}
	f.Fuzz(func(t *testing.T, script []byte) {
		fuzzJudge(t, "C14", "script", &c14Script{Script: script, Class: "coverage-guided"})
	})
}

// ---------------------------------------------------------------- C15 / C17

func FuzzC15String(f *testing.F) {
	for _, s := range []string{"1BgGZ9tcN4rm9KBzDn7KprQz87SZ26SAMH", "mfaWoDuTsFfiunLTqZx4fKpVsUctiDV9jk", "1111111111111111111114oLvT2", "3J98t1WpEZ73CNmQviecrnyiWrnqRhWNLy",
		"bitcoin-script:010176a914000102030405060708090a0b0c0d0e0f1011121388ac", ""} {
		f.Add(s)
	}
	f.Fuzz(func(t *testing.T, s string) {
		if len(s) > 300 {
			t.Skip()
		}
		fuzzJudge(t, "C15", "string", &c15Str{S: s, Class: "coverage-guided"})
	})
}

// FuzzC17Text: the text as the engine made it, or (fix) the engine's text
// followed by the checksum that is correct for it as written - without that a
// mutation never gets past the checksum comparison.
func FuzzC17Text(f *testing.F) {
	for _, s := range []string{"bitcoin-script:0101", "bitcoin-script:0102abcdef", "bitcoin-template:ff01", "bitcoin-script:01016a", "bitcoin-script:", "bitcoin-script:+1+1aa", "BITCOIN-SCRIPT:0101aa"} {
		f.Add(s, true)
		f.Add(s, false)
	}
	f.Fuzz(func(t *testing.T, body string, fix bool) {
		if len(body) > 400 {
			t.Skip()
		}
		text := body
		if fix {
			a := sha256.Sum256([]byte(body))
			b := sha256.Sum256(a[:])
			text = body + fmt.Sprintf("%x", b[:4])
		}
		fuzzJudge(t, "C17", "corrupt", &c17Text{Text: text, Class: "coverage-guided"})
	})
}

// ---------------------------------------------------------------- C02 / C03 / C16

// shapeFromBlob carves a transaction shape out of a byte stream field by
// field (a mutation of one byte changes one field; a stream that ends early
// yields zeros), so that every input of the engine is a transaction.
func shapeFromBlob(blob []byte, nIns, nOuts uint8, version, locktime uint32) *gen.Shape {
	take := func(n int) []byte {
		out := make([]byte, n)
		k := copy(out, blob)
		blob = blob[k:]
		return out
	}
	u32 := func() uint32 {
		b := take(4)
		return uint32(b[0]) | uint32(b[1])<<8 | uint32(b[2])<<16 | uint32(b[3])<<24
	}
	script := func() []byte {
		l := int(take(1)[0])
		switch {
		case l >= 0xf8: // the length-prefix boundaries
			l = []int{252, 253, 254, 300, 0, 1, 75, 76}[l-0xf8]
		case l > 110:
			l %= 40
		}
		return take(l)
	}
	s := &gen.Shape{Version: version, LockTime: locktime}
	for i := 0; i < int(nIns%7); i++ {
		in := gen.In{TxID: take(32), Vout: u32(), Seq: u32(), Unlock: script(), PrevScript: script()}
		v := take(8)
		for k := 0; k < 8; k++ {
			in.PrevSats |= uint64(v[k]) << (8 * k)
		}
		in.PrevSats %= 2_100_000_000_000_001
		s.Ins = append(s.Ins, in)
	}
	for i := 0; i < int(nOuts%7); i++ {
		var o gen.Out
		v := take(8)
		for k := 0; k < 8; k++ {
			o.Sats |= uint64(v[k]) << (8 * k)
		}
		o.Sats %= 2_100_000_000_000_001
		o.Script = script()
		s.Outs = append(s.Outs, o)
	}
	if s.Ambiguous() {
		return nil
	}
	return s
}

func sighashSeeds(f *testing.F) {
	r := prng.New(1, "fuzz-seeds", 0)
	for i := 0; i < 24; i++ {
		f.Add(r.Bytes(40+r.Intn(600)), uint8(1+i%4), uint8(i%4), uint32(1+i%2), uint32(i), uint8(i), uint8(1+i%3)|uint8(i%2)<<7)
	}
}

func FuzzC02Sighash(f *testing.F) {
	sighashSeeds(f)
	f.Fuzz(func(t *testing.T, blob []byte, nIns, nOuts uint8, version, locktime uint32, idx, hashType uint8) {
		s := shapeFromBlob(blob, nIns, nOuts, version, locktime)
		if s == nil || len(blob) > 8000 {
			t.Skip()
		}
		fuzzJudge(t, "C02", "sighash", &shCase{Shape: *s, Idx: uint32(idx) % uint32(len(s.Ins)+1), HashType: hashType | 0x40})
	})
}

func FuzzC03Sighash(f *testing.F) {
	sighashSeeds(f)
	f.Fuzz(func(t *testing.T, blob []byte, nIns, nOuts uint8, version, locktime uint32, idx, hashType uint8) {
		s := shapeFromBlob(blob, nIns, nOuts, version, locktime)
		if s == nil || len(blob) > 8000 {
			t.Skip()
		}
		fuzzJudge(t, "C03", "sighash", &shCase{Shape: *s, Idx: uint32(idx) % uint32(len(s.Ins)+1), HashType: hashType &^ 0x40})
	})
}

// ---------------------------------------------------------------- C16

func FuzzC16Tx(f *testing.F) {
	r := prng.New(1, "fuzz-seeds-c16", 0)
	for i := 0; i < 24; i++ {
		f.Add(r.Bytes(40+r.Intn(600)), uint8(i%4), uint8(1+i%4), uint32(1+i%2), uint32(i))
	}
	f.Fuzz(func(t *testing.T, blob []byte, nIns, nOuts uint8, version, locktime uint32) {
		s := shapeFromBlob(blob, nIns, nOuts, version, locktime)
		if s == nil || len(blob) > 8000 {
			t.Skip()
		}
		fuzzJudge(t, "C16", "tx", &c16Tx{Shape: *s, Stage: "coverage-guided"})
	})
}

// ---------------------------------------------------------------- C06

// FuzzC06Spec: the engine's bytes choose a signature-program SPEC (kind, m-of-n,
// signature classes and hash types per slot, key encodings, separator position
// and kind, dummy, flags, tails, heads, P2SH wrapping); transaction, keys and
// signatures are then made as in the deterministic phases (c06Make) from a PRNG
// seeded by the same bytes, and the case is judged by the C06 judge.
func FuzzC06Spec(f *testing.F) {
	r := prng.New(1, "fuzz-seeds-c06", 0)
	for i := 0; i < 32; i++ {
		f.Add(r.Bytes(24))
	}
	classes := []string{"correct", "correct", "wrong-key", "wrong-digest", "empty", "high-s", "weird-hashtype", "non-der", "forkid-bit-mismatch", "ber-padded"}
	keyEncs := []string{"c", "c", "u", "h", "short", "badprefix", "offcurve", "empty", "c-with-04", "u-with-02", "long"}
	f.Fuzz(func(t *testing.T, blob []byte) {
		if len(blob) > 64 {
			t.Skip()
		}
		i := 0
		next := func() int {
			if i < len(blob) {
				i++
				return int(blob[i-1])
			}
			return 0
		}
		sp := &c06Spec{SepPos: -1, SepKind: "plain"}
		sp.Kind = []string{"p2pk", "p2pkh", "multisig", "two-checks", "bare-checksig"}[next()%5]
		sp.Flags = sigFlagSubset(next() % (1 << len(sigFlagBits)))
		o := next()
		sp.Verify, sp.Not, sp.ZeroSats = o&1 != 0, o&2 != 0, o&4 != 0
		sp.P2SH = o&8 != 0
		if o&16 != 0 {
			sp.SepPos, sp.SepKind = next()%7, []string{"plain", "unexecuted-if", "executed-if"}[next()%3]
		}
		fork := scriptflag.Flag(sp.Flags)&scriptflag.EnableSighashForkID != 0
		nslots := 1
		switch sp.Kind {
		case "multisig":
			sp.N = next() % 4
			sp.M = next() % (sp.N + 1)
			nslots = sp.M
			if o&32 != 0 {
				sp.Dummy = [][]byte{{0x01}, {0x00}, {0x80}, {0x00, 0x00}}[next()%4]
			}
		case "two-checks":
			nslots = 2
		}
		for k := 0; k < nslots; k++ {
			cl := classes[next()%len(classes)]
			ht := byte(1 + next()%3)
			h := next()
			if h&1 != 0 {
				ht |= 0x80
			}
			if fork {
				ht |= 0x40
			}
			switch cl {
			case "weird-hashtype":
				ht = []byte{0x00, 0x04, 0x05, 0x1f, 0x20, 0x84, 0x21, 0x30, 0x11}[h%9]
				if fork {
					ht |= 0x40
				}
			case "forkid-bit-mismatch":
				ht ^= 0x40
			}
			key := k
			if sp.Kind == "multisig" && sp.N > 0 {
				key = next() % (sp.N + 1)
			}
			sp.Slots = append(sp.Slots, c06Slot{Key: key, Class: cl, HashType: ht})
		}
		nkeys := 2
		if sp.Kind == "multisig" {
			nkeys = sp.N
		}
		for k := 0; k < nkeys; k++ {
			sp.KeyEnc = append(sp.KeyEnc, keyEncs[next()%len(keyEncs)])
		}
		tl := next()
		if !sp.P2SH {
			sp.UnlockTail = [][]byte{nil, nil, {0xab}, {0xab, 0x6a}, {0x61, 0xab, 0x6a}, {0x6a}}[tl%6]
			sp.LockTail = [][]byte{nil, nil, {0x6a}, {0x6a, 0xab}, {0x6a, 0x01, 0xab, 0xab}, {0x6a, 0xab, 0x01, 0x02}}[(tl/6)%6]
		} else {
			sp.Flags |= uint32(scriptflag.Bip16)
			sp.Flags &^= uint32(scriptflag.UTXOAfterGenesis)
		}
		if !c06Legal(sp) {
			t.Skip()
		}
		seed := prng.HashBytes(blob)
		cs := c06Make(prng.New(seed, "C06-fuzz", 0), sp)
		cs.Class = "coverage-guided"
		cs.Desc = fmt.Sprintf("%s m=%d n=%d verify=%v not=%v sep=%d/%s slots=%+v keyenc=%v p2sh=%v", sp.Kind, sp.M, sp.N, sp.Verify, sp.Not, sp.SepPos, sp.SepKind, sp.Slots, sp.KeyEnc, sp.P2SH)
		fuzzJudge(t, "C06", "sigcase", cs)
	})
}

// ---------------------------------------------------------------- C20

// FuzzC20Flow: every field of a sale / bid flow is chosen by the engine from the
// value sets the deterministic generator uses (only the combination is free);
// funding values are placed relative to price + approximate fee as there.
func FuzzC20Flow(f *testing.F) {
	for i := 0; i < 16; i++ {
		f.Add(uint8(i), uint8(i), uint8(i*3), uint32(i*7919), uint32(i*104729), uint16(i), int16(i-8), uint64(i))
	}
	prices := []uint64{1, 2, 546, 1000, 1_000_000, 1_000_000_000}
	quotes := []c20Quote{{Sat: 5, Bytes: 100}, {Sat: 1, Bytes: 1}, {Sat: 500, Bytes: 1000}, {Sat: 0, Bytes: 1}, {Sat: 3, Bytes: 7}}
	f.Fuzz(func(t *testing.T, flow, priceQuote, counts uint8, bits, misc uint32, lens uint16, slack int16, seed uint64) {
		r := prng.New(seed, "C20-fuzz", 0)
		fl := &c20Flow{Flow: []string{"listing", "listing-2d", "bid", "bid-2d"}[flow%4], SellerKey: r.Bytes(32), BuyerKey: r.Bytes(32),
			Price: prices[int(priceQuote)%len(prices)], OrdTxID: r.Bytes(32), OrdVout: uint32(counts >> 6), FundTxIDs: r.Bytes(8), Quote: quotes[int(priceQuote/8)%len(quotes)], ChangeLen: 25}
		fl.SellerKey[0] &= 0x7f
		fl.BuyerKey[0] &= 0x7f
		bit := func(k uint) bool { return bits>>k&1 != 0 }
		fl.OrdInscr, fl.BuyerInscr, fl.OneScriptObject, fl.AcceptTwice, fl.OrdWide = bit(0), bit(1), bit(2), bit(3), bit(0) && bit(4)
		if bit(5) {
			fl.ChangeLen = []int{1, 26, 200}[lens%3]
			fl.OneScriptObject = false
		}
		if bit(6) {
			fl.SellerLen = []int{1, 26, 35, 71, 105, 300}[(lens/3)%6]
		}
		if fl.OrdInscr && bit(7) {
			fl.OrdDataLen = []int{600, 9000, 9990, 12000}[(lens/18)%4]
		}
		if fl.OrdInscr && bit(8) {
			fl.OrdTail = [][]mon.Hex{{{0x31}}, {{0x31, 0x32}}, {{0x00}}, {{0x31}, {0x32}}, {[]byte("app"), []byte("type"), []byte("ord")}, {{0x81}}}[(lens/72)%6]
		}
		fl.FundShare = int(misc % 4)
		fl.Wallet = int(misc / 4 % 4)
		fl.Quote.Label = int(misc / 16 % 3)
		fl.Quote.DataMul = []int{0, 0, 10, 3}[misc/48%4]
		fl.Quote.Relay = int(misc / 192 % 4)
		fl.BuyerKeys = []int{0, 0, 2, 3}[misc/768%4]
		fl.CtxDone = []int{0, 0, 0, 1, 2}[misc/3072%5]
		if misc/15360%4 == 3 {
			fl.ExpectOther = 1 + int(misc/61440%3)
		}
		bid := fl.Flow == "bid" || fl.Flow == "bid-2d"
		if bid && bit(9) {
			fl.SellerQuoteExtra = 1 + int(misc/184320)%(1+fl.Quote.Sat/10)
		}
		if bid && bit(10) && fl.Price > 2 {
			fl.AcceptDelta = []int64{-1, 1, 150, 300, 5000, 1000000}[misc/737280%6]
		}
		if fl.Flow == "bid-2d" && bit(11) {
			fl.ExtraUTXOs = []uint64{uint64(500 + r.Intn(5000))}
		}
		n := 2 + int(counts%5)
		twoD := fl.Flow == "listing-2d" || fl.Flow == "bid-2d"
		if twoD && n < 3 {
			n = 3
		}
		approx := uint64(10+(n+1)*148+4*34) * uint64(fl.Quote.Sat) / uint64(fl.Quote.Bytes)
		target := int64(fl.Price) + int64(approx) + int64(slack)
		if target < 2 {
			target = 2
		}
		vals := make([]uint64, n)
		pos := int(counts/5) % n
		if twoD {
			vals[0], vals[1] = uint64(1+r.Intn(3)), uint64(1+r.Intn(3))
			rest := target
			for j := 2; j < n; j++ {
				v := rest / int64(n-j)
				if j < n-1 && v > 1 {
					v = 1 + int64(r.Intn(int(min64(v, 1<<30))))
				}
				if v < 1 {
					v = 1
				}
				vals[j] = uint64(v)
				rest -= v
			}
		} else {
			big := int64(fl.Price) + 1 + int64(r.Intn(50))
			rest := target - big
			for j := 0; j < n; j++ {
				if j == pos {
					vals[j] = uint64(big)
					continue
				}
				v := rest / int64(n-1)
				if v < 1 {
					v = 1
				}
				vals[j] = uint64(v)
			}
			if bit(12) && bit(13) {
				vals[pos] = fl.Price
			}
		}
		fl.Funding = vals
		fuzzJudge(t, "C20", "flow", fl)
	})
}

// ---------------------------------------------------------------- C10 / C11

// moneyFromBlob carves a P2PKH-funded transaction (inputs unsigned or carrying
// an unlocking script of a signed input's size; outputs P2PKH, data-carrier,
// template instances, other) and a quote inside the documented domain.
func moneyFromBlob(blob []byte, nIns, nOuts uint8, q [4]uint16) (mTx, mQuote) {
	take := func(n int) []byte {
		out := make([]byte, n)
		k := copy(out, blob)
		blob = blob[k:]
		return out
	}
	u64 := func() uint64 {
		b := take(8)
		var v uint64
		for k := 0; k < 8; k++ {
			v |= uint64(b[k]) << (8 * k)
		}
		return v
	}
	r := prng.New(uint64(len(blob))+uint64(nIns)<<8, "money-fuzz", 0)
	t := mTx{Version: 1}
	for i := 0; i < int(nIns%5); i++ {
		in := gen.In{TxID: take(32), Vout: uint32(take(1)[0]), Seq: 0xffffffff, PrevSats: u64() % 2_000_000_000_000, PrevScript: gen.P2PKH(take(20)), Unlock: []byte{}}
		if l := int(take(1)[0]); l%4 == 1 {
			in.Unlock = take([]int{106, 107, 108}[l/4%3])
		}
		t.Ins = append(t.Ins, in)
	}
	for i := 0; i < int(nOuts%6); i++ {
		sats := u64() % 2_000_000_000_000
		k := take(2)
		var sc []byte
		switch k[0] % 6 {
		case 0, 1:
			sc = gen.P2PKH(take(20))
		case 2:
			sc = append([]byte{0x6a}, gen.Push(take(int(k[1])%100))...)
			sats %= 3
		case 3:
			sc = append([]byte{0x00, 0x6a}, gen.Push(take(int(k[1])*2))...)
			sats %= 3
		case 4:
			sc = gen.StandardScript(r)
		default:
			sc = take(int(k[1]) % 60)
			if len(sc) > 0 && (sc[0] == 0x6a || (sc[0] == 0 && len(sc) > 1 && sc[1] == 0x6a)) {
				sc[0] = 0x51
			}
		}
		t.Outs = append(t.Outs, mOuts{Sats: sats, Script: sc})
	}
	mq := mQuote{StdSat: int(q[0]), StdBytes: 1 + int(q[1])%2000, DataSat: int(q[2]), DataBytes: 1 + int(q[3])%2000}
	return t, mq
}

func FuzzC11Account(f *testing.F) {
	r := prng.New(1, "fuzz-seeds-c11", 0)
	for i := 0; i < 24; i++ {
		f.Add(r.Bytes(60+r.Intn(400)), uint8(1+i%4), uint8(i%6), uint16(5), uint16(99), uint16(i), uint16(i*7))
	}
	f.Fuzz(func(t *testing.T, blob []byte, nIns, nOuts uint8, a, b, c2, d uint16) {
		if len(blob) > 4000 {
			t.Skip()
		}
		tx, q := moneyFromBlob(blob, nIns, nOuts, [4]uint16{a, b, c2, d})
		if !q.inDomain() {
			t.Skip()
		}
		fuzzJudge(t, "C11", "account", &c11In{Tx: tx, Quote: q, Rel: "coverage-guided", Class: "coverage-guided"})
	})
}

func FuzzC10Change(f *testing.F) {
	r := prng.New(1, "fuzz-seeds-c10", 0)
	for i := 0; i < 24; i++ {
		f.Add(r.Bytes(60+r.Intn(400)), uint8(1+i%4), uint8(i%6), uint16(5), uint16(99), uint16(i), uint16(i*7), uint16(i*31))
	}
	f.Fuzz(func(t *testing.T, blob []byte, nIns, nOuts uint8, a, b, c2, d, dest uint16) {
		if len(blob) > 4000 || nIns%5 == 0 {
			t.Skip()
		}
		tx, q := moneyFromBlob(blob, nIns, nOuts, [4]uint16{a, b, c2, d})
		if !q.inDomain() {
			t.Skip()
		}
		in := &c10In{Tx: tx, Quote: q, Rel: "coverage-guided"}
		switch dest % 3 {
		case 0:
			in.Dest = c10Dest{Kind: "script", Script: gen.P2PKH(bytesOf(byte(dest>>8), 20))}
		case 1:
			in.Dest = c10Dest{Kind: "script", Script: bytesOf(0x51, 1+int(dest>>2)%300)}
		default:
			if len(tx.Outs) == 0 {
				t.Skip()
			}
			in.Dest = c10Dest{Kind: "index", Index: uint(int(dest>>2) % len(tx.Outs))}
		}
		fuzzJudge(t, "C10", "change", in)
	})
}
