package main

import (
	"bytes"
	"context"
	"errors"
	"fmt"
	"math/big"
	"strconv"
	"time"

	"github.com/libsv/go-bt/v2"

	"verif/internal/gen"
	"verif/internal/mon"
	"verif/internal/prng"
	"verif/internal/refmoney"
)

// C12 — funding stops exactly when covered and consumes supplier UTXOs faithfully.

// c12UTXO is one UTXO of a scripted batch. Value is the amount, except for the
// last UTXO of a batch with a Target, whose amount the supplier computes from
// the reference model at call time.
type c12UTXO struct {
	TxID   mon.Hex `json:"txid"`
	Vout   uint32  `json:"vout"`
	Script mon.Hex `json:"script"`
	Value  uint64  `json:"value"`
	Seq    uint32  `json:"seq,omitempty"` // what the supplier puts into UTXO.SequenceNumber (the funded input must be final regardless)
}

// c12Step is what the supplier does on its k-th call.
//
//	batch          return UTXOs, nil
//	exhausted      return nil, bt.ErrNoUTXO
//	exhausted-wrap return nil, fmt.Errorf("…: %w", bt.ErrNoUTXO)
//	error          return nil, <a harness error>
//	error+batch    return UTXOs, <a harness error>
//
// Target (batches only): "" = amounts as written; "cover" = the last UTXO is
// sized so that after this batch inputs = outputs + estimated fee + Delta
// (Delta 0: exactly covered; -1: one satoshi short; +1: one over).
type c12Step struct {
	Kind   string    `json:"kind"`
	UTXOs  []c12UTXO `json:"utxos,omitempty"`
	Target string    `json:"target,omitempty"`
	Delta  int64     `json:"delta,omitempty"`
	// Requote: while it answers this call the supplier files new rates in the very quote
	// Fund was given (a wallet refreshing its miner quote); the amounts are sized for them
	Requote *mQuote `json:"requote,omitempty"`
}

type c12In struct {
	Tx    mTx       `json:"tx"`
	Quote mQuote    `json:"quote"`
	Steps []c12Step `json:"steps"` // after the last step the supplier reports exhaustion for ever
	// DupOutpoint: some supplier UTXO repeats an outpoint of a prior input or of an earlier batch (coverage only)
	DupOutpoint bool `json:"dup_outpoint,omitempty"`
	// Ctx: the state of the context Fund is given. Fund hands it to the supplier and nothing else: what
	// the supplier reports decides. "" = chosen from the content; live | cancelled-before |
	// deadline-passed | cancelled-in-first-call | cancelled-at-exhaustion
	Ctx string `json:"ctx,omitempty"`
}

// c12Call is one recorded supplier call.
type c12Call struct {
	Deficit uint64
	Batch   []c12UTXO // as handed to the library (amounts resolved)
	Err     error
	Kind    string
	Requote *refmoney.Quote // the rates in force from this call on
}

var errC12Supplier = errors.New("harness supplier failure")

type c12Supplier struct {
	in          *c12In
	model       *refmoney.Tx // the supplier's own account of the transaction: start + everything it returned
	q           refmoney.Quote
	calls       []c12Call
	afterEnd    int
	ctxSeen     context.Context
	ctxMismatch bool
	fq          *bt.FeeQuote
	cancel      func()
}

func (s *c12Supplier) next(ctx context.Context, deficit uint64) ([]*bt.UTXO, error) {
	if ctx != s.ctxSeen {
		s.ctxMismatch = true
	}
	k := len(s.calls)
	if s.cancel != nil && (s.in.Ctx == "cancelled-in-first-call" && k == 0 ||
		s.in.Ctx == "cancelled-at-exhaustion" && (k >= len(s.in.Steps) || s.in.Steps[k].Kind == "exhausted" || s.in.Steps[k].Kind == "exhausted-wrap")) {
		s.cancel() // the application shuts down while the wallet answers
	}
	if k >= len(s.in.Steps) {
		s.afterEnd++
		if s.afterEnd >= 1000 {
			panic(mon.Sentinel{Why: "supplier called 1000 times after reporting exhaustion"})
		}
		s.calls = append(s.calls, c12Call{Deficit: deficit, Err: bt.ErrNoUTXO, Kind: "exhausted"})
		return nil, bt.ErrNoUTXO
	}
	if k >= 5000 {
		panic(mon.Sentinel{Why: "supplier called 5000 times"})
	}
	st := &s.in.Steps[k]
	call := c12Call{Deficit: deficit, Kind: st.Kind}
	if st.Requote != nil && s.fq != nil && st.Requote.inDomain() {
		nq := *st.Requote
		mk := func(t bt.FeeType, sat, by int) *bt.Fee {
			return &bt.Fee{FeeType: t, MiningFee: bt.FeeUnit{Satoshis: sat, Bytes: by}, RelayFee: bt.FeeUnit{Satoshis: sat, Bytes: by}}
		}
		s.fq.AddQuote(bt.FeeTypeStandard, mk(bt.FeeTypeStandard, nq.StdSat, nq.StdBytes)).AddQuote(bt.FeeTypeData, mk(bt.FeeTypeData, nq.DataSat, nq.DataBytes))
		rq := nq.ref()
		s.q, call.Requote = rq, &rq
	}
	var out []*bt.UTXO
	if st.Kind == "batch" || st.Kind == "error+batch" {
		batch := make([]c12UTXO, len(st.UTXOs))
		copy(batch, st.UTXOs)
		if st.Target == "cover" && len(batch) > 0 && st.Kind == "batch" {
			// account for the whole batch with the last amount at zero, then size the last one
			trial := &refmoney.Tx{Ins: append([]refmoney.In{}, s.model.Ins...), Outs: s.model.Outs}
			for i := range batch {
				v := batch[i].Value
				if i == len(batch)-1 {
					v = 0
				}
				trial.Ins = append(trial.Ins, refmoney.In{PrevScript: batch[i].Script, Sats: v})
			}
			need := new(big.Int).Add(trial.TotalOut(), refmoney.Fee(trial.EstSizeNoCheck(), s.q).Total)
			need.Sub(need, trial.TotalIn())
			need.Add(need, big.NewInt(st.Delta))
			if need.Sign() < 0 {
				need.SetInt64(0)
			}
			v, ok := refmoney.U64(need)
			if !ok || v > mMaxSats {
				v = mMaxSats
			}
			batch[len(batch)-1].Value = v
		}
		for i := range batch {
			out = append(out, &bt.UTXO{TxID: cp(batch[i].TxID), Vout: batch[i].Vout, Satoshis: batch[i].Value, LockingScript: bscriptOf(batch[i].Script), SequenceNumber: batch[i].Seq})
			if st.Kind == "batch" {
				s.model.Ins = append(s.model.Ins, refmoney.In{PrevScript: batch[i].Script, Sats: batch[i].Value})
			}
		}
		call.Batch = batch
	}
	switch st.Kind {
	case "exhausted":
		call.Err = bt.ErrNoUTXO
	case "exhausted-wrap":
		call.Err = fmt.Errorf("wallet empty: %w", bt.ErrNoUTXO)
	case "error", "error+batch":
		call.Err = errC12Supplier
	}
	s.calls = append(s.calls, call)
	return out, call.Err
}

func init() {
	p := &mon.Property{
		ID: "C12",
		Rule: "Starting transactions: 0..3 prior P2PKH inputs (unsigned, nil unlocking script, or carrying a 106..108-byte unlocking script), 0..5 outputs mixing P2PKH, OP_RETURN / OP_FALSE OP_RETURN data (payloads up to 2,000 bytes), empty and arbitrary scripts, prior inputs sized to be short of, equal to, one above/below or well above outputs + estimated fee; " +
			"fee quotes from the grid s in {0,1,5,50,500,10^4} x b in {1,3,100,1000} (data rate equal or independent) and free quotes up to 10^6 sat/byte. " +
			"Phase enumerated runs EVERY supplier script of 0..4 (thorough 0..5) steps over the step kinds {empty batch, under-funding batch, batch leaving exactly covered / one short / one over, over-funding batch, exhaustion, foreign error} x start {no prior inputs, prior inputs short / exactly covering / over} x 3 (thorough 6) quotes. " +
			"Phase histories draws supplier behaviours as finite scripts of 0..6 steps: a batch of 0..5 P2PKH UTXOs with written amounts (tiny, partial, ample) or with the last amount computed from the reference model so that the batch leaves the transaction exactly covered, one satoshi short or one over; " +
			"exhaustion (bt.ErrNoUTXO, bare or wrapped), a foreign error, a foreign error accompanied by a batch; after the script the supplier reports exhaustion for ever (and aborts the case if called 1,000 more times). " +
			"The instrumented supplier records (deficit argument, batch, error) per call; the oracle replays that history against refmoney: call k must exist iff the model deficit after k-1 batches is non-zero and no earlier call failed, and must carry exactly that deficit; " +
			"outcome (nil / ErrInsufficientFunds / the supplier's error), inputs = old ++ returned UTXOs (txid, vout, value, script, sequence 0xffffffff) and inputs >= outputs + estimated fee on success, outputs identical always. " +
			"distinct_nontrivial = distinct (transaction, quote, supplier script) cases in which the supplier was called at least once and the whole history was replayed.",
		Assum: []string{
			"reference deficit arithmetic in /verif/internal/refmoney (math/big): deficit = max(0, outputs + fee(estimated final size) - inputs), 107-byte placeholder per unsigned input",
			"domain: supplier UTXOs have 32-byte txids and P2PKH locking scripts, no nil UTXO; prior inputs spend P2PKH; quotes with bytes >= 1 and at most 10^6 sat/byte; amounts <= 21e14 sat; the ambiguous empty transaction is never generated",
			"a wrapped bt.ErrNoUTXO may be answered with either ErrInsufficientFunds or the wrapped error itself (the statement does not say which)",
		},
	}
	judge := mon.Kind(p, "fund", c12Judge)
	p.Run = func(c *mon.Ctx) {
		if err := refmoney.SelfTest(); err != nil {
			c.Fault(err.Error())
			return
		}
		// ---- every supplier script of up to 4 (thorough: 5) steps over 8 step kinds, x start class x quote
		c.Phase("enumerated")
		maxLen := 4
		quotes := []mQuote{{5, 100, 5, 100}, {500, 3, 1, 1000}, {0, 1, 50, 1}}
		if c.Thorough {
			maxLen = 5
			quotes = append(quotes, mQuote{1, 1, 1, 1}, mQuote{10000, 1, 0, 1}, mQuote{1, 1000, 500, 100})
		}
		en := uint64(0)
		for l := 0; l <= maxLen; l++ {
			total := 1
			for i := 0; i < l; i++ {
				total *= len(c12StepKinds)
			}
			for code := 0; code < total; code++ {
				for _, start := range c12Starts {
					for _, q := range quotes {
						en++
						if !c.Case(en) {
							continue
						}
						kinds := make([]string, l)
						for i, x := 0, code; i < l; i++ {
							kinds[i] = c12StepKinds[x%len(c12StepKinds)]
							x /= len(c12StepKinds)
						}
						judge(c, c12MakeEnum(c.Rand(en), kinds, start, q))
						c.Count("enumerated:scripts")
					}
				}
			}
		}
		c.Phase("many-small-batches") // the input count crosses the 252/253 varint boundary through batches of a few UTXOs each
		nb := uint64(24)
		if c.Thorough {
			nb = 400
		}
		for i := uint64(0); i < nb; i++ {
			if !c.Case(i) {
				continue
			}
			r := c.Rand(i)
			in := &c12In{}
			s, b := prng.Pick(r, []int{1, 5, 50, 500}), prng.Pick(r, []int{1, 3, 100, 1000})
			in.Quote = mQuote{StdSat: s, StdBytes: b, DataSat: s, DataBytes: b}
			in.Tx.Version = 1
			in.Tx.Outs = []mOuts{{Sats: 1_000_000 + uint64(r.Intn(1000)), Script: gen.P2PKH(r.Bytes(20))}}
			per := 1 + r.Intn(4)
			batches := 240/per + r.Intn(40)
			for k := 0; k < batches; k++ {
				st := c12Step{Kind: "batch"}
				for j := 0; j < per; j++ {
					st.UTXOs = append(st.UTXOs, c12UTXO{TxID: r.Bytes(32), Vout: uint32(j), Script: gen.P2PKH(r.Bytes(20)), Value: uint64(1 + r.Intn(40))})
				}
				in.Steps = append(in.Steps, st)
			}
			// and then batches that exactly cover / miss by one
			in.Steps = append(in.Steps, c12Step{Kind: "batch", Target: "cover", Delta: int64(r.Intn(3) - 1),
				UTXOs: []c12UTXO{{TxID: r.Bytes(32), Vout: 0, Script: gen.P2PKH(r.Bytes(20)), Value: 1}}})
			in.Steps = append(in.Steps, c12Step{Kind: "batch", Target: "cover", Delta: 0,
				UTXOs: []c12UTXO{{TxID: r.Bytes(32), Vout: 1, Script: gen.P2PKH(r.Bytes(20)), Value: 1}}})
			judge(c, in)
		}
		c.Phase("many-outputs") // starting transactions whose output count sits around the 252/253 varint boundary
		for i, no := range []int{251, 252, 253, 254, 255, 300, 252, 253, 254, 300} {
			if !c.Case(uint64(i)) {
				continue
			}
			r := c.Rand(uint64(i))
			in := &c12In{}
			s, b := prng.Pick(r, []int{1, 5, 50, 500}), prng.Pick(r, []int{1, 3, 100})
			in.Quote = mQuote{StdSat: s, StdBytes: b, DataSat: s, DataBytes: b}
			in.Tx.Version = 1
			in.Tx.Outs = []mOuts{{Sats: 100 + uint64(r.Intn(50)), Script: gen.P2PKH(r.Bytes(20)), Repeat: no - 1}, {Sats: 7, Script: gen.P2PKH(r.Bytes(20))}}
			for k := 0; k < 2; k++ {
				in.Steps = append(in.Steps, c12Step{Kind: "batch", UTXOs: []c12UTXO{{TxID: r.Bytes(32), Vout: uint32(k), Script: gen.P2PKH(r.Bytes(20)), Value: uint64(1000 + r.Intn(5000))}}})
			}
			in.Steps = append(in.Steps, c12Step{Kind: "batch", Target: "cover", Delta: int64(r.Intn(3) - 1),
				UTXOs: []c12UTXO{{TxID: r.Bytes(32), Vout: 0, Script: gen.P2PKH(r.Bytes(20)), Value: 1}}})
			in.Steps = append(in.Steps, c12Step{Kind: "batch", Target: "cover", Delta: 0,
				UTXOs: []c12UTXO{{TxID: r.Bytes(32), Vout: 1, Script: gen.P2PKH(r.Bytes(20)), Value: 1}}})
			judge(c, in)
		}
		c.Phase("histories")
		N := uint64(100000)
		if c.Thorough {
			N = 5000000
		}
		for n := uint64(0); n < N; n++ {
			if !c.Case(n) {
				continue
			}
			judge(c, c12Make(c.Rand(n)))
		}
	}
	p.Floor = func(a *mon.Agg) string {
		need := []string{
			"shape:calls=0:covered-at-start", "shape:calls=1:covered", "shape:calls=2:covered", "shape:calls=3:covered", "shape:calls=4+:covered",
			"shape:calls=1:exhausted", "shape:calls=2:exhausted", "shape:calls=3:exhausted", "shape:calls=4+:exhausted",
			"shape:calls=1:supplier-error", "shape:calls=2:supplier-error", "shape:calls=3:supplier-error", "shape:calls=4+:supplier-error",
			"batch:empty", "batch:size=1", "batch:size=5", "batch:left-exactly-covered", "batch:left-1-sat-short", "batch:left-deficit", "batch:overfunded",
			"start:no-prior-inputs", "start:prior-inputs", "start:data-outputs", "exhausted:wrapped", "exhausted:after-script-end",
			"success:inputs-compared", "deficit-argument:compared", "enumerated:scripts", "quote:data!=std", "quote:zero-rate", "quote:gt1",
			"context:live", "context:cancelled-before", "context:deadline-passed", "context:cancelled-in-first-call", "context:cancelled-at-exhaustion",
		}
		for _, k := range need {
			if a.Cov[k] == 0 {
				return "counter " + k + " is zero"
			}
		}
		return ""
	}
	mon.Register(p)
}

// c12Make draws a starting transaction, a quote and a supplier script.
func c12Make(r *prng.R) *c12In {
	in := &c12In{}
	if r.Chance(2, 3) {
		s, b := prng.Pick(r, mQuoteSats), prng.Pick(r, mQuoteBytes)
		in.Quote = mQuote{StdSat: s, StdBytes: b, DataSat: s, DataBytes: b}
		if r.Bool() {
			in.Quote.DataSat, in.Quote.DataBytes = prng.Pick(r, mQuoteSats), prng.Pick(r, mQuoteBytes)
		}
	} else {
		in.Quote = randQuote(r)
	}
	t := &in.Tx
	t.Version, t.LockTime = gen.U32(r), gen.U32(r)
	nIn := 0
	if r.Bool() {
		nIn = 1 + r.Intn(3)
	}
	for i := 0; i < nIn; i++ {
		gi := gen.In{TxID: r.Bytes(32), Vout: gen.U32(r), Seq: gen.U32(r), PrevScript: gen.P2PKH(r.Bytes(20)), Unlock: []byte{}}
		switch r.Intn(4) {
		case 0:
			gi.Unlock, gi.UnlockNil = nil, true
		case 1:
			gi.Unlock = r.Bytes(prng.Pick(r, []int{106, 107, 108, 106, 107, 108, 252, 253, 254, 300, 1000, 65535, 65536})) // as signed by the stock unlocker, or by the caller's own (longer scripts, on both sides of the length-prefix classes)
		}
		t.Ins = append(t.Ins, gi)
	}
	for i, n := 0, r.Intn(6); i < n; i++ {
		var g mOuts
		switch k := r.Intn(10); {
		case k < 5:
			g.Script = gen.P2PKH(r.Bytes(20))
		case k < 7:
			g.Script = dataScript(r, r.Bool(), r.Intn(100))
		case k < 8:
			g.Script = dataScript(r, r.Bool(), prng.Pick(r, []int{-1, 0, 255, 256, 2000, 16385, 20000, 40000}))
		case k < 9:
			g.Script = nonDataOutputScript(r, 1+r.Intn(50))
		default:
			g.Script = []byte{}
		}
		switch r.Intn(3) {
		case 0:
			g.Sats = uint64(r.Intn(1000))
		case 1:
			g.Sats = uint64(r.Intn(10_000_000))
		default:
			g.Sats = gen.Sats(r) % 100_000_000_000
		}
		t.Outs = append(t.Outs, g)
	}
	if len(t.Ins) == 0 && len(t.Outs) == 0 && t.LockTime == 0xef000000 {
		t.LockTime = 0
	}
	// prior inputs relative to what is needed
	if nIn > 0 {
		m := t.refTx()
		need, _ := refmoney.U64(new(big.Int).Add(m.TotalOut(), refmoney.Fee(m.EstSizeNoCheck(), in.Quote.ref()).Total))
		var total uint64
		switch r.Intn(8) {
		case 0:
			total = need // exactly covered: no call expected
		case 1:
			total = need + 1
		case 2:
			if need > 0 {
				total = need - 1
			}
		case 3:
			total = need + uint64(r.Intn(1_000_000))
		case 4:
			total = 0
		default:
			if need > 0 {
				total = r.Uint64() % need
			}
		}
		if total > mMaxSats {
			total = mMaxSats
		}
		for i, v := range splitSats(r, total, nIn) {
			t.Ins[i].PrevSats = v
		}
	}
	// supplier script
	nSteps := r.Intn(7)
	for k := 0; k < nSteps; k++ {
		var st c12Step
		switch x := r.Intn(20); {
		case x < 14:
			st.Kind = "batch"
		case x < 15:
			st.Kind = "exhausted"
		case x < 16:
			st.Kind = "exhausted-wrap"
		case x < 18:
			st.Kind = "error"
		default:
			st.Kind = "error+batch"
		}
		if st.Kind == "batch" || st.Kind == "error+batch" {
			n := r.Intn(6)
			if r.Chance(1, 2) {
				n = 1
			}
			for i := 0; i < n; i++ {
				u := c12UTXO{TxID: r.Bytes(32), Vout: gen.U32(r), Script: gen.P2PKH(r.Bytes(20))}
				if r.Chance(1, 8) {
					// the supplier hands out an outpoint the transaction already spends (a coin the caller
					// added by hand before Fund, or one of an earlier batch): Fund consumes what it is given
					var seen [][2]any
					for _, p := range in.Tx.Ins {
						seen = append(seen, [2]any{[]byte(p.TxID), p.Vout})
					}
					for _, ps := range in.Steps {
						for _, pu := range ps.UTXOs {
							seen = append(seen, [2]any{[]byte(pu.TxID), pu.Vout})
						}
					}
					if len(seen) > 0 {
						o := seen[r.Intn(len(seen))]
						u.TxID, u.Vout = append([]byte{}, o[0].([]byte)...), o[1].(uint32)
						in.DupOutpoint = true
					}
				}
				if r.Chance(1, 25) { // a coin whose script the size estimate does not support (pay-to-public-key, anything else)
					u.Script = prng.Pick(r, [][]byte{append(append([]byte{33, 0x02}, r.Bytes(32)...), 0xac), {0x51}, append([]byte{0xa9, 0x14}, append(r.Bytes(20), 0x87)...)})
				}
				if r.Chance(1, 8) { // a coin locked by a P2PKH inscription: supported by the estimate, same 107-byte placeholder
					u.Script = c11Inscription(r.Bytes(20), r)
				}
				if r.Chance(1, 2) {
					u.Seq = gen.U32(r)
				}
				switch r.Intn(5) {
				case 0:
					u.Value = 0
				case 1:
					u.Value = uint64(r.Intn(200))
				case 2:
					u.Value = uint64(r.Intn(100_000))
				case 3:
					u.Value = uint64(r.Intn(100_000_000))
				default:
					u.Value = gen.Sats(r) % 1_000_000_000_000
				}
				st.UTXOs = append(st.UTXOs, u)
			}
			if st.Kind == "batch" && k%5 == 2 { // the supplier also refreshes the quote Fund is working with
				nq := mQuote{StdSat: in.Quote.StdSat*3 + 1, StdBytes: in.Quote.StdBytes, DataSat: in.Quote.DataSat*2 + 5, DataBytes: in.Quote.DataBytes}
				if k%2 == 0 {
					nq = mQuote{StdSat: in.Quote.StdSat / 2, StdBytes: in.Quote.StdBytes + 1, DataSat: in.Quote.DataSat / 3, DataBytes: in.Quote.DataBytes}
				}
				if nq.inDomain() {
					st.Requote = &nq
				}
			}
			if n > 0 && st.Kind == "batch" && r.Chance(2, 5) {
				st.Target = "cover"
				st.Delta = prng.Pick(r, []int64{0, 0, -1, 1, -1, 1, -2, 25, -148})
				// keep the other amounts of a covering batch small so that the last one decides
				for i := 0; i < n-1; i++ {
					st.UTXOs[i].Value = uint64(r.Intn(100))
				}
			}
		}
		in.Steps = append(in.Steps, st)
	}
	return in
}

var c12StepKinds = []string{"empty", "short", "cover", "cover-1", "cover+1", "over", "exhausted", "error"}
var c12Starts = []string{"none", "short", "exact", "over"}

// c12MakeEnum builds the case for one enumerated supplier script.
func c12MakeEnum(r *prng.R, kinds []string, start string, q mQuote) *c12In {
	in := &c12In{Quote: q}
	t := &in.Tx
	t.Version, t.LockTime = 1, 0
	for i, n := 0, 1+r.Intn(3); i < n; i++ {
		g := mOuts{Sats: uint64(1 + r.Intn(100_000)), Script: gen.P2PKH(r.Bytes(20))}
		if i == 1 {
			g = mOuts{Sats: 0, Script: dataScript(r, r.Bool(), r.Intn(400))}
		}
		t.Outs = append(t.Outs, g)
	}
	if start != "none" {
		nIn := 1 + r.Intn(2)
		for i := 0; i < nIn; i++ {
			gi := gen.In{TxID: r.Bytes(32), Vout: uint32(r.Intn(4)), Seq: 0xffffffff, PrevScript: gen.P2PKH(r.Bytes(20)), Unlock: []byte{}}
			if r.Chance(1, 3) {
				gi.Unlock = r.Bytes(prng.Pick(r, []int{106, 107, 108, 106, 107, 108, 252, 253, 254, 300, 1000, 65535, 65536})) // as signed by the stock unlocker, or by the caller's own (longer scripts, on both sides of the length-prefix classes)
			}
			t.Ins = append(t.Ins, gi)
		}
		m := t.refTx()
		need, _ := refmoney.U64(new(big.Int).Add(m.TotalOut(), refmoney.Fee(m.EstSizeNoCheck(), q.ref()).Total))
		total := need
		switch start {
		case "short":
			total = r.Uint64() % need // need >= 1: the outputs carry value
		case "over":
			total = need + 1 + uint64(r.Intn(1000))
		}
		for i, v := range splitSats(r, total, nIn) {
			t.Ins[i].PrevSats = v
		}
	}
	for _, k := range kinds {
		st := c12Step{Kind: "batch"}
		mk := func(n int, v func() uint64) {
			for i := 0; i < n; i++ {
				st.UTXOs = append(st.UTXOs, c12UTXO{TxID: r.Bytes(32), Vout: uint32(r.Intn(8)), Script: gen.P2PKH(r.Bytes(20)), Value: v(), Seq: prng.Pick(r, []uint32{0, 0, 1, 7, 0xfffffffe, 0xffffffff})})
			}
		}
		switch k {
		case "empty":
		case "short":
			mk(1+r.Intn(3), func() uint64 { return uint64(r.Intn(3)) })
		case "cover", "cover-1", "cover+1":
			mk(1+r.Intn(3), func() uint64 { return uint64(r.Intn(50)) })
			st.Target = "cover"
			st.Delta = map[string]int64{"cover": 0, "cover-1": -1, "cover+1": 1}[k]
		case "over":
			mk(1+r.Intn(5), func() uint64 { return 1_000_000_000_000 + uint64(r.Intn(1000)) })
		case "exhausted":
			st.Kind = "exhausted"
		case "error":
			st.Kind = "error"
		}
		in.Steps = append(in.Steps, st)
	}
	return in
}

func c12CallsClass(n int) string {
	if n >= 4 {
		return "4+"
	}
	return strconv.Itoa(n)
}

func c12Judge(c *mon.Ctx, in *c12In) {
	c.Eval(1)
	if !in.Quote.inDomain() {
		c.Count("skipped:quote-out-of-domain")
		return
	}
	tx := in.Tx.build(c)
	fq := in.Quote.lib()
	q := in.Quote.ref()
	before := takeSnap(tx)
	ctx := context.WithValue(context.Background(), c12CtxKey{}, "c12")
	if in.Ctx == "" && !c.Replay {
		h := uint64(len(in.Steps))*7 + uint64(len(in.Tx.Ins))*3 + uint64(len(in.Tx.Outs)) + uint64(in.Quote.StdSat)
		for i := range in.Steps {
			h = h*131 + uint64(len(in.Steps[i].UTXOs)) + uint64(len(in.Steps[i].Kind))
		}
		in.Ctx = [...]string{"live", "cancelled-before", "live", "deadline-passed", "live", "cancelled-at-exhaustion", "live", "cancelled-in-first-call", "live", "live"}[h%10]
	}
	cancel := func() {}
	switch in.Ctx {
	case "cancelled-before":
		ctx, cancel = context.WithCancel(ctx)
		cancel()
	case "deadline-passed":
		ctx, cancel = context.WithDeadline(ctx, time.Unix(1, 0))
	case "cancelled-in-first-call", "cancelled-at-exhaustion":
		ctx, cancel = context.WithCancel(ctx)
	}
	defer cancel()
	c.Count("context:" + in.Ctx)
	sup := &c12Supplier{in: in, model: before.ref(), q: q, ctxSeen: ctx, fq: fq, cancel: cancel}
	var ferr error
	returned := c.Try("bt.(*Tx).Fund", func() { ferr = tx.Fund(ctx, fq, sup.next) })
	after := takeSnap(tx)
	hist := sup.calls
	describe := func() string {
		h := ""
		for i, cl := range hist {
			h += fmt.Sprintf(" call %d: deficit=%d -> %s", i+1, cl.Deficit, cl.Kind)
			if cl.Batch != nil {
				h += "["
				for j, u := range cl.Batch {
					if j > 0 {
						h += ","
					}
					h += strconv.FormatUint(u.Value, 10)
				}
				h += " sat]"
			}
			if cl.Err != nil {
				h += " err=" + cl.Err.Error()
			}
			h += ";"
			if i >= 12 {
				h += fmt.Sprintf(" …(%d calls in all)", len(hist))
				break
			}
		}
		return fmt.Sprintf("Fund with quote [%s] returned %v; history:%s tx before (extended hex) %s", in.Quote, ferr, h, before.hexCapped())
	}
	// coverage of the start state
	if len(before.Ins) == 0 {
		c.Count("start:no-prior-inputs")
	} else {
		c.Count("start:prior-inputs")
	}
	if before.ref().Size().Data > 0 {
		c.Count("start:data-outputs")
	}
	if in.Quote.StdSat*in.Quote.DataBytes != in.Quote.DataSat*in.Quote.StdBytes {
		c.Count("quote:data!=std")
	}
	switch rateClass(in.Quote.StdSat, in.Quote.StdBytes) {
	case "zero":
		c.Count("quote:zero-rate")
	case "gt1":
		c.Count("quote:gt1")
	}

	// ---- outputs are left untouched in every case
	if !snapOutsEqual(before.Outs, after.Outs) {
		outcome := "success"
		if ferr != nil {
			outcome = "failure"
		}
		if !returned {
			outcome = "panic"
		}
		c.Violationf("C12:outputs-modified:"+outcome, "outputs differ after Fund; %s", describe())
	}
	if !returned {
		return // the panic (or the sentinel) has been recorded by Try
	}
	if sup.ctxMismatch {
		c.Count("ctx:supplier-got-a-different-context(not judged)")
	}

	// ---- replay of the history against the model
	model := before.ref()
	d, derr := model.Deficit(q)
	if derr != nil {
		c.Fault("C12: generator produced a non-P2PKH spent script: " + derr.Error())
		return
	}
	k := 0
	stop := "covered"
	var supplierErr error
	var consumed []c12UTXO
	for d.Sign() != 0 {
		if k >= len(hist) {
			stop = "library-stopped-calling"
			break
		}
		cl := &hist[k]
		c.Count("deficit-argument:compared")
		requoted := cl.Requote != nil
		if bigU(cl.Deficit).Cmp(d) != 0 {
			which := "first-call"
			if k > 0 {
				which = "later-call"
			}
			c.Violationf("C12:wrong-deficit-argument:"+which, "call %d was given deficit %d, the model deficit at that point is %v; %s", k+1, cl.Deficit, d, describe())
		}
		k++
		if cl.Err != nil {
			supplierErr = cl.Err
			switch cl.Kind {
			case "exhausted", "exhausted-wrap":
				stop = "exhausted"
			default:
				stop = "supplier-error"
			}
			break
		}
		switch n := len(cl.Batch); {
		case n == 0:
			c.Count("batch:empty")
		default:
			c.Count("batch:size=" + strconv.Itoa(n))
		}
		if in.DupOutpoint && len(cl.Batch) > 0 {
			c.Count("batch:delivered-in-a-history-with-a-repeated-outpoint")
		}
		for _, u := range cl.Batch {
			model.Ins = append(model.Ins, refmoney.In{PrevScript: u.Script, Sats: u.Value})
			consumed = append(consumed, u)
		}
		prev := d
		if requoted { // the supplier filed new rates while answering: they hold from here on
			q = *cl.Requote
			c.Count("quote-refreshed-by-the-supplier-during-Fund")
		}
		var derr2 error
		d, derr2 = model.Deficit(q)
		if derr2 != nil { // the batch brought an input whose final size cannot be estimated: funding cannot go on
			stop = "unsupported-input"
			d = big.NewInt(1)
			break
		}
		switch {
		case d.Sign() == 0:
			paid := model.Paid()
			fee := refmoney.Fee(model.EstSizeNoCheck(), q).Total
			if paid.Cmp(fee) == 0 {
				c.Count("batch:left-exactly-covered")
			} else {
				c.Count("batch:overfunded")
			}
		case d.Cmp(big.NewInt(1)) == 0:
			c.Count("batch:left-1-sat-short")
			c.Count("batch:left-deficit")
		default:
			c.Count("batch:left-deficit")
			if d.Cmp(prev) > 0 {
				c.Count("batch:deficit-grew(fee of the new inputs exceeds their value)")
			}
		}
	}
	if k == 0 && stop == "covered" {
		stop = "covered-at-start"
	}
	c.Count("shape:calls=" + c12CallsClass(len(hist)) + ":" + stop)
	// calls beyond the point where the history had to end
	if len(hist) > k {
		why := "once-the-deficit-is-zero"
		switch stop {
		case "unsupported-input":
			why = "after-an-input-that-cannot-be-estimated"
		case "exhausted":
			why = "after-exhaustion-was-reported"
		case "supplier-error":
			why = "after-a-supplier-error"
		}
		c.Violationf("C12:supplier-called-"+why, "%d calls recorded, the history had to end after call %d (%s); %s", len(hist), k, stop, describe())
	}
	// ---- outcome
	switch stop {
	case "covered", "covered-at-start":
		if ferr != nil {
			c.Violationf("C12:error-although-covered", "the model deficit is zero after %d calls but Fund returned %v; %s", k, ferr, describe())
		}
	case "unsupported-input":
		c.Count("unsupported-input:histories")
		if ferr == nil {
			c.Violationf("C12:success-although-an-input-cannot-be-estimated", "Fund returned nil although the supplier handed over a coin whose spent script is neither P2PKH nor a P2PKH inscription (no fee estimate exists for the transaction); %s", describe())
		}
	case "library-stopped-calling":
		if ferr == nil {
			c.Violationf("C12:success-with-deficit-left", "Fund returned nil after %d calls although the model deficit is %v and the supplier never failed; %s", len(hist), d, describe())
		} else {
			c.Violationf("C12:stopped-calling-with-deficit-left", "Fund returned %v after %d calls although the model deficit is %v and the supplier never failed; %s", ferr, len(hist), d, describe())
		}
	case "exhausted":
		wrapped := hist[k-1].Kind == "exhausted-wrap"
		if wrapped {
			c.Count("exhausted:wrapped")
		}
		if k > len(in.Steps) {
			c.Count("exhausted:after-script-end")
		}
		switch {
		case errors.Is(ferr, bt.ErrInsufficientFunds):
		default:
			c.Violationf("C12:exhaustion-not-reported-as-insufficient-funds", "the supplier reported exhaustion with deficit %v left, Fund returned %v; %s", d, ferr, describe())
		}
	case "supplier-error":
		if ferr == nil || !errors.Is(ferr, supplierErr) {
			c.Violationf("C12:supplier-error-not-returned", "the supplier failed with %q, Fund returned %v; %s", supplierErr, ferr, describe())
		}
	}
	// ---- on success: inputs = old ++ returned UTXOs, and they cover outputs + estimated fee
	if ferr == nil {
		c.Count("outcome:success")
		c.Count("success:inputs-compared")
		nb := len(before.Ins)
		if len(after.Ins) < nb || !snapInsEqual(before.Ins, after.Ins[:nb]) {
			c.Violationf("C12:inputs:prior-inputs-changed", "the first %d inputs differ from the prior inputs; tx after %s; %s", nb, after.hexCapped(), describe())
		} else if len(after.Ins)-nb != len(consumed) {
			c.Violationf("C12:inputs:count", "%d inputs were added, the supplier returned %d UTXOs; tx after %s; %s", len(after.Ins)-nb, len(consumed), after.hexCapped(), describe())
		} else {
			for i, u := range consumed {
				a := &after.Ins[nb+i]
				field := ""
				switch {
				case a.Nil:
					field = "nil-input"
				case !bytes.Equal(a.TxID, u.TxID):
					field = "txid"
				case a.Vout != u.Vout:
					field = "vout"
				case a.Sats != u.Value:
					field = "value"
				case a.PrevNil || !bytes.Equal(a.Prev, u.Script):
					field = "script"
				case a.Seq != 0xffffffff:
					field = "sequence"
				}
				if field != "" {
					c.Violationf("C12:inputs:"+field, "added input %d is (txid %x, vout %d, %d sat, script %x, sequence %#x), the supplier's UTXO %d is (txid %x, vout %d, %d sat, script %x); %s",
						nb+i, a.TxID, a.Vout, a.Sats, a.Prev, a.Seq, i, []byte(u.TxID), u.Vout, u.Value, []byte(u.Script), describe())
					break
				}
				if len(a.Unlock) != 0 {
					c.Count("success:added-input-has-unlocking-script(not judged)")
				}
			}
		}
		ma := after.ref()
		if za, err := ma.EstSize(); err == nil {
			need := new(big.Int).Add(ma.TotalOut(), refmoney.Fee(za, q).Total)
			if ma.TotalIn().Cmp(need) < 0 {
				c.Violationf("C12:success-but-not-covered", "inputs %v < outputs %v + estimated fee = %v; tx after %s; %s", ma.TotalIn(), ma.TotalOut(), need, after.hexCapped(), describe())
			}
		} else {
			c.Violationf("C12:success-but-not-estimable", "Fund returned nil but the resulting tx cannot be estimated: %v; %s", err, describe())
		}
	} else {
		switch {
		case errors.Is(ferr, bt.ErrInsufficientFunds):
			c.Count("outcome:insufficient-funds")
		case errors.Is(ferr, errC12Supplier):
			c.Count("outcome:supplier-error")
		default:
			c.Count("outcome:other-error")
		}
	}
	if len(hist) > 0 {
		var steps []byte
		for _, cl := range hist {
			steps = append(steps, []byte(cl.Kind)...)
			for _, u := range cl.Batch {
				steps = append(steps, u.TxID...)
				steps = strconv.AppendUint(steps, u.Value, 10)
				steps = append(steps, '/')
			}
			steps = append(steps, ';')
		}
		c.Distinct(prng.HashBytes(before.wire(true), []byte(in.Quote.String()), steps))
	}
	c.Sample("calls="+c12CallsClass(len(hist))+":"+stop, 1, func() any {
		var h []map[string]any
		for _, cl := range hist {
			e := map[string]any{"deficit_argument": cl.Deficit, "step": cl.Kind}
			if cl.Batch != nil {
				e["batch"] = cl.Batch
			}
			if cl.Err != nil {
				e["error"] = cl.Err.Error()
			}
			h = append(h, e)
		}
		res := "nil"
		if ferr != nil {
			res = ferr.Error()
		}
		return map[string]any{"input": in, "history": h, "fund_returned": res, "tx_before_extended_hex": fmt.Sprintf("%x", before.wire(true)), "tx_after_extended_hex": fmt.Sprintf("%x", after.wire(true))}
	})
}

type c12CtxKey struct{}
