package main

import (
	"bytes"
	"errors"
	"fmt"
	"math/big"
	"strconv"
	"strings"

	"github.com/libsv/go-bt/v2"
	"github.com/libsv/go-bt/v2/bscript"

	"verif/internal/gen"
	"verif/internal/mon"
	"verif/internal/prng"
	"verif/internal/refmoney"
)

// C10 — Change never creates value, never underpays the quoted fee, never burns change.

type c10Dest struct {
	Kind   string  `json:"kind"`             // address | script | index
	Addr   string  `json:"addr,omitempty"`   // address: the text given to ChangeToAddress
	Script mon.Hex `json:"script,omitempty"` // script: the locking script given to Change; address: the P2PKH script the address stands for
	Index  uint    `json:"index,omitempty"`  // index: the output designated to ChangeToExistingOutput
	Shared int     `json:"shared,omitempty"` // script: 1 + the index of the pre-existing output whose very script OBJECT is handed to Change (a caller re-using one *bscript.Script)
}

type c10In struct {
	Tx    mTx     `json:"tx"`
	Quote mQuote  `json:"quote"`
	Dest  c10Dest `json:"dest"`
	Rel   string  `json:"rel"` // amount relation the generator aimed at (coverage label only)
}

var (
	c10Rels      = []string{"insufficient", "fee", "fee+1", "fee+dust", "fee+dust+1", "ample", "near", "deficit"}
	c10FloorRels = []string{"insufficient", "fee", "fee+1", "fee+dust", "fee+dust+1", "ample"}
	c10Dests     = []string{"address", "script:1", "script:25", "script:26", "script:200", "script:300", "script:70000", "index"}
	c10Counts    = []int{0, 1, 2, 251, 252, 253, 254}
	c10RateCls   = []string{"zero", "lt1", "eq1", "gt1"}
)

func c10CountClass(n int) string {
	switch n {
	case 0, 1, 2, 251, 252, 253, 254, 65535:
		return strconv.Itoa(n)
	}
	return "other"
}

func c10DestClass(d *c10Dest) string {
	switch d.Kind {
	case "script":
		switch n := len(d.Script); n {
		case 1, 25, 26, 200, 300, 70000:
			return "script:" + strconv.Itoa(n)
		default:
			return "script:other"
		}
	}
	return d.Kind
}

func init() {
	p := &mon.Property{
		ID: "C10",
		Rule: "P2PKH-funded transactions built through the public API: 1..6 inputs (unsigned with empty or nil unlocking script, signed by the library's own unlocker, or mixed), " +
			"output counts {0,1,2,251,252,253,254} (+65,535 in the thorough tier; random 3..20 and 240..260 in the random phase) mixing P2PKH, OP_RETURN / OP_FALSE OP_RETURN data, empty and arbitrary scripts; " +
			"fee quotes s/b with s in {0,1,5,50,500,10^4}, b in {1,3,100,1000}, data rate equal to or different from the standard rate (random phase: also free quotes up to 10^6 sat/byte); " +
			"destinations: ChangeToAddress (library-made address), Change to non-data scripts of length {1,25,26,200,300,70000}, ChangeToExistingOutput at every index (phase every-index; sampled indices for 65,535 outputs); " +
			"the spare amount (inputs - outputs) is computed from the reference model so that it is {below the fee, = fee with the change output, +1, +dust, +dust+1, ample, within +-40 of it, or negative}. " +
			"Phase grid enumerates count x destination x relation x 24 standard quotes x {data=std, data!=std} completely. " +
			"Each call is judged on deep before/after snapshots against refmoney (math/big). " +
			"distinct_nontrivial = distinct (transaction, quote, destination) cases in which the call succeeded with inputs >= outputs and a money clause was evaluated: " +
			"the two-sided fee bound on the resulting transaction when change was added, or the dust clause when nothing was added.",
		Assum: []string{
			"reference size/fee arithmetic in /verif/internal/refmoney (math/big), validated at start-up against the public sizes of the standard P2PKH layouts",
			"the dust limit is the library's exported constant bt.DustLimit",
			"'estimated final size' is the model's: current unlocking scripts kept, a 107-byte placeholder for every empty one (C11 observes that the library's EstimateSize coincides with it on every case it runs)",
			"domain: fee quotes with bytes >= 1 and at most 10^6 sat/byte, amounts <= 21e14 sat, every spent script P2PKH, destinations are non-data scripts; the ambiguous empty transaction is never generated",
			"inputs counted as 'signed' carry the unlocking script produced by unlocker.Simple for the final amounts (or, when the signature length kept changing, for amounts a few satoshis off); only its length matters to the property",
		},
	}
	judge := mon.Kind(p, "change", c10Judge)
	p.Run = func(c *mon.Ctx) {
		if err := refmoney.SelfTest(); err != nil {
			c.Fault(err.Error())
			return
		}
		c.Info("dust_limit", bt.DustLimit)
		reps := 1
		if c.Thorough {
			reps = 8
		}
		// ---- the full matrix
		c.Phase("grid")
		n := uint64(0)
		for rep := 0; rep < reps; rep++ {
			for _, count := range c10Counts {
				for _, dest := range c10Dests {
					for _, rel := range c10Rels {
						for _, s := range mQuoteSats {
							for _, b := range mQuoteBytes {
								for dv := 0; dv < 2; dv++ {
									n++
									if !c.Case(n) {
										continue
									}
									c10Run(c, judge, c.Rand(n), &c10Params{count: count, dest: dest, rel: rel, stdSat: s, stdBytes: b, dataDiffers: dv == 1, index: -1})
								}
							}
						}
					}
				}
			}
		}
		if c.Thorough {
			c.Phase("grid-65535")
			n = 0
			for _, dest := range c10Dests {
				for _, rel := range c10Rels {
					for _, sb := range [][2]int{{0, 1}, {5, 100}, {1, 1}, {500, 3}} {
						for dv := 0; dv < 2; dv++ {
							n++
							if !c.Case(n) {
								continue
							}
							c10Run(c, judge, c.Rand(n), &c10Params{count: 65535, dest: dest, rel: rel, stdSat: sb[0], stdBytes: sb[1], dataDiffers: dv == 1, index: -1})
						}
					}
				}
			}
		} else {
			c.Phase("spot-65534-65536") // the second length-prefix step of the output count, a few cases per run (the whole grid at 65535 is in the thorough tier)
			n = 0
			for _, count := range []int{65534, 65535, 65536} {
				for _, dest := range []string{c10Dests[0], c10Dests[len(c10Dests)-1]} {
					for _, rel := range []string{"fee+dust+1", "ample"} {
						for _, sb := range [][2]int{{1, 1}, {500, 3}} {
							n++
							if !c.Case(n) {
								continue
							}
							c10Run(c, judge, c.Rand(n), &c10Params{count: count, dest: dest, rel: rel, stdSat: sb[0], stdBytes: sb[1], dataDiffers: n%2 == 1, index: -1})
						}
					}
				}
			}
			c.Phase("grid-65535(thorough only)")
		}
		// ---- ChangeToExistingOutput at every index
		c.Phase("every-index")
		n = 0
		for rep := 0; rep < reps; rep++ {
			for _, count := range c10Counts {
				for idx := 0; idx < count; idx++ {
					n++
					if !c.Case(n) {
						continue
					}
					r := c.Rand(n)
					c10Run(c, judge, r, &c10Params{count: count, dest: "index", rel: prng.Pick(r, c10Rels[:7]), stdSat: prng.Pick(r, mQuoteSats), stdBytes: prng.Pick(r, mQuoteBytes),
						dataDiffers: r.Bool(), index: idx})
				}
			}
		}
		if c.Thorough {
			for k := 0; k < 40; k++ {
				n++
				if !c.Case(n) {
					continue
				}
				r := c.Rand(n)
				idx := r.Intn(65535)
				if edges := []int{0, 1, 251, 252, 253, 65534}; k < len(edges) {
					idx = edges[k]
				}
				c10Run(c, judge, r, &c10Params{count: 65535, dest: "index", rel: prng.Pick(r, c10Rels[:7]), stdSat: prng.Pick(r, mQuoteSats), stdBytes: prng.Pick(r, mQuoteBytes),
					dataDiffers: r.Bool(), index: idx})
			}
		}
		// ---- the change script is the very object an earlier output already holds
		c.Phase("shared-script-object")
		n = 0
		for rep := 0; rep < reps; rep++ {
			for _, count := range []int{1, 2, 3, 7, 252, 253} {
				for _, which := range []string{"last", "first", "middle"} {
					for _, rel := range c10Rels {
						for k := 0; k < 3; k++ {
							n++
							if !c.Case(n) {
								continue
							}
							r := c.Rand(n)
							c10Run(c, judge, r, &c10Params{count: count, dest: "script:free", rel: rel, index: -1, freeQuote: true, shared: which})
						}
					}
				}
			}
		}
		// ---- free random draws
		c.Phase("random")
		N := uint64(20000)
		if c.Thorough {
			N = 400000
		}
		for n = 0; n < N; n++ {
			if !c.Case(n) {
				continue
			}
			r := c.Rand(n)
			pr := &c10Params{dest: prng.Pick(r, c10Dests), rel: prng.Pick(r, c10Rels), index: -1, freeQuote: true}
			switch r.Intn(4) {
			case 0:
				pr.count = prng.Pick(r, c10Counts)
			case 1:
				pr.count = r.Range(240, 260)
			default:
				pr.count = r.Range(0, 20)
			}
			if pr.dest == "script:70000" && !r.Chance(1, 8) {
				pr.dest = "script:free"
			}
			c10Run(c, judge, r, pr)
		}
	}
	p.Floor = func(a *mon.Agg) string {
		// every cell of relation x destination x count class x rate class that can exist
		counts := c10Counts
		if _, thorough := a.Cov["phase:grid-65535"]; thorough {
			counts = append(append([]int{}, c10Counts...), 65535)
		}
		for _, rel := range c10FloorRels {
			for _, dest := range c10Dests {
				for _, count := range counts {
					if dest == "index" && count == 0 {
						continue
					}
					for _, rc := range c10RateCls {
						if rc == "zero" && rel == "insufficient" {
							continue // the fee is zero, nothing can be below it
						}
						for _, dc := range []string{"data=std", "data!=std"} {
							k := fmt.Sprintf("cell:%s|%s|%s|%s/%s", rel, dest, strconv.Itoa(count), rc, dc)
							if a.Cov[k] == 0 {
								return "matrix cell never judged: " + k
							}
						}
					}
				}
			}
		}
		for _, k := range []string{"outcome:added", "outcome:nothing-added", "outcome:error:insufficient-inputs", "inputs:signed", "inputs:unsigned", "inputs:mixed",
			"outputs:with-data", "every-index:generated", "existing-output:judged", "existing-output:index=first", "existing-output:index=last", "existing-output:index=middle", "clause:fee-bounds-evaluated", "clause:dust-evaluated", "shared-script-object:judged"} {
			if a.Cov[k] == 0 {
				return "counter " + k + " is zero"
			}
		}
		return ""
	}
	mon.Register(p)
}

type c10Params struct {
	count       int
	dest        string
	rel         string
	stdSat      int
	stdBytes    int
	dataDiffers bool
	index       int // >= 0: the designated index
	freeQuote   bool
	shared      string // "", "first", "last", "middle": Change is given the script object of that pre-existing output
}

func c10Run(c *mon.Ctx, judge func(*mon.Ctx, *c10In), r *prng.R, pr *c10Params) {
	in, why := c10Make(r, pr)
	if in == nil {
		c.Count("gen:skipped:" + why)
		return
	}
	if pr.index >= 0 {
		c.Count("every-index:generated")
	}
	judge(c, in)
}

// c10Make draws one case. It returns nil when the requested combination cannot exist.
func c10Make(r *prng.R, pr *c10Params) (*c10In, string) {
	in := &c10In{Rel: pr.rel}
	// quote
	if pr.freeQuote {
		in.Quote = randQuote(r)
	} else {
		q := mQuote{StdSat: pr.stdSat, StdBytes: pr.stdBytes, DataSat: pr.stdSat, DataBytes: pr.stdBytes}
		if pr.dataDiffers {
			for q.DataSat == q.StdSat && q.DataBytes == q.StdBytes {
				q.DataSat, q.DataBytes = prng.Pick(r, mQuoteSats), prng.Pick(r, mQuoteBytes)
			}
		}
		in.Quote = q
	}
	// inputs
	key := newKey(r.Bytes(32))
	nIn := 1 + r.Intn(6)
	mode := r.Intn(3) // 0 unsigned, 1 signed, 2 mixed
	var signIdx []int
	t := &in.Tx
	t.Version, t.LockTime = gen.U32(r), gen.U32(r)
	for i := 0; i < nIn; i++ {
		gi := gen.In{TxID: r.Bytes(32), Vout: gen.U32(r), Seq: gen.U32(r), PrevScript: key.p2pkh(), Unlock: []byte{}}
		sign := mode == 1 || (mode == 2 && (i == 0 || (i > 1 && r.Bool())))
		if sign {
			signIdx = append(signIdx, i)
		} else if r.Chance(1, 4) {
			gi.Unlock, gi.UnlockNil = nil, true
		}
		t.Ins = append(t.Ins, gi)
	}
	// outputs, as runs
	maxSat := 1_000_000
	if pr.count > 1000 {
		maxSat = 1000
	}
	oneOut := func() mOuts {
		var g mOuts
		switch k := r.Intn(20); {
		case k < 11:
			g.Script = gen.P2PKH(r.Bytes(20))
		case k < 14:
			g.Script = dataScript(r, false, r.Intn(80))
		case k < 16:
			g.Script = dataScript(r, true, r.Intn(300))
		case k < 17:
			g.Script = dataScript(r, r.Bool(), -1)
			if pr.count <= 20 && r.Chance(1, 3) { // a data output beyond the readers' 16 KiB chunk size (estimation clones through the wire format)
				g.Script = dataScript(r, r.Bool(), prng.Pick(r, []int{16384, 16390, 20000, 40000}))
			}
		case k < 19:
			g.Script = nonDataOutputScript(r, 1+r.Intn(60))
		default:
			g.Script = []byte{}
		}
		switch r.Intn(4) {
		case 0:
			g.Sats = uint64(r.Intn(3))
		case 1:
			g.Sats = uint64(r.Intn(1000))
		default:
			g.Sats = uint64(r.Intn(maxSat))
		}
		if pr.count <= 254 && r.Chance(1, 16) {
			g.Sats = gen.Sats(r) % 1_000_000_000_000
		}
		return g
	}
	if pr.count <= 20 {
		for i := 0; i < pr.count; i++ {
			t.Outs = append(t.Outs, oneOut())
		}
	} else {
		rest := pr.count
		for rest > 0 {
			g := oneOut()
			k := rest
			if len(t.Outs) < 5 && rest > 1 {
				k = 1 + r.Intn(rest)
				if r.Chance(1, 2) {
					k = 1 + r.Intn(3)
				}
				if k > rest {
					k = rest
				}
			}
			if k > 1 {
				g.Repeat = k
			}
			t.Outs = append(t.Outs, g)
			rest -= k
		}
	}
	// destination
	switch {
	case pr.dest == "address":
		h := r.Bytes(20)
		a, err := bscript.NewAddressFromPublicKeyHash(h, r.Bool())
		if err != nil {
			return nil, "address-constructor-error"
		}
		in.Dest = c10Dest{Kind: "address", Addr: a.AddressString, Script: gen.P2PKH(h)}
	case pr.dest == "index":
		if pr.count == 0 {
			return nil, "index-without-outputs"
		}
		idx := pr.index
		if idx < 0 {
			idx = r.Intn(pr.count)
		}
		in.Dest = c10Dest{Kind: "index", Index: uint(idx)}
	case pr.dest == "script:free":
		in.Dest = c10Dest{Kind: "script", Script: nonDataScript(r, 1+r.Intn(400))}
	default:
		n, _ := strconv.Atoi(strings.TrimPrefix(pr.dest, "script:"))
		s := nonDataScript(r, n)
		if n == 25 && r.Bool() {
			s = gen.P2PKH(r.Bytes(20))
		}
		in.Dest = c10Dest{Kind: "script", Script: s}
	}
	if pr.shared != "" {
		if in.Dest.Kind != "script" || len(t.Outs) == 0 {
			return nil, "shared-script-without-outputs"
		}
		g, flat := 0, 0
		switch pr.shared {
		case "last":
			g, flat = len(t.Outs)-1, pr.count-1
		case "middle":
			if pr.count > 20 || pr.count < 3 {
				return nil, "shared-script-middle-needs-3..20-outputs"
			}
			g = 1 + r.Intn(pr.count-2)
			flat = g
		}
		if refmoney.IsData(t.Outs[g].Script) || len(t.Outs[g].Script) == 0 {
			t.Outs[g].Script = nonDataOutputScript(r, 1+r.Intn(60))
			if r.Bool() {
				t.Outs[g].Script = gen.P2PKH(r.Bytes(20))
			}
		}
		in.Dest.Script = append([]byte{}, t.Outs[g].Script...)
		in.Dest.Shared = flat + 1
	}
	// amounts from the model, then signatures for those amounts (repeat while signature lengths move)
	dust := uint64(bt.DustLimit)
	var sumOut uint64
	for _, g := range t.Outs {
		k := uint64(1)
		if g.Repeat > 1 {
			k = uint64(g.Repeat)
		}
		sumOut += g.Sats * k
	}
	if in.Rel == "deficit" && sumOut == 0 {
		if len(t.Outs) == 0 {
			return nil, "deficit-without-outputs"
		}
		t.Outs[0].Sats = 1 + uint64(r.Intn(1000))
		k := uint64(1)
		if t.Outs[0].Repeat > 1 {
			k = uint64(t.Outs[0].Repeat)
		}
		sumOut = t.Outs[0].Sats * k
	}
	jitter := r.Range(-40, 40)
	ample := uint64(r.Intn(1_000_000))
	if r.Chance(1, 4) {
		ample = gen.Sats(r) % 10_000_000_000_000
	}
	below := r.Uint64()
	deficitBy := 1 + uint64(r.Intn(1000))
	splitSeed := r.Uint64()
	setAmounts := func() bool {
		m := t.refTx()
		var F *big.Int
		if in.Dest.Kind == "index" {
			F = refmoney.Fee(m.EstSizeNoCheck(), in.Quote.ref()).Total
		} else {
			F = m.FeeWithChangeOutput(len(in.Dest.Script), in.Quote.ref())
		}
		f, ok := refmoney.U64(F)
		if !ok || f > mMaxSats {
			return false
		}
		var total uint64
		switch in.Rel {
		case "deficit":
			d := deficitBy
			if d > sumOut {
				d = sumOut
			}
			total = sumOut - d
		case "insufficient":
			if f == 0 {
				in.Rel = "fee"
				total = sumOut
			} else {
				total = sumOut + below%f
			}
		case "fee":
			total = sumOut + f
		case "fee+1":
			total = sumOut + f + 1
		case "fee+dust":
			total = sumOut + f + dust
		case "fee+dust+1":
			total = sumOut + f + dust + 1
		case "ample":
			total = sumOut + f + dust + 2 + ample
		case "near":
			v := int64(f) + int64(jitter)
			if v < 0 {
				v = 0
			}
			total = sumOut + uint64(v)
		}
		if total > mMaxSats {
			return false
		}
		parts := splitSats(prng.New(splitSeed, "C10-split", 0), total, nIn)
		for i := range t.Ins {
			t.Ins[i].PrevSats = parts[i]
		}
		return true
	}
	for iter := 0; ; iter++ {
		if !setAmounts() {
			return nil, "amount-out-of-domain"
		}
		if len(signIdx) == 0 || iter == 3 {
			break
		}
		changed, err := signShape(t, key, signIdx)
		if err != nil {
			return nil, "signing-failed"
		}
		// some signed inputs come from the caller's own unlocker: <memo> OP_DROP <sig> <key>,
		// of a length on either side of the 252/253 (and 65535/65536) length-prefix boundary
		mr := prng.New(uint64(t.Version)<<32|uint64(t.LockTime), "C10-memo", 0)
		for _, i := range signIdx {
			if !mr.Chance(1, 4) {
				continue
			}
			L := 138 + mr.Intn(14)
			if mr.Chance(1, 3) {
				L = prng.Pick(mr, []int{300, 1000, 65420, 65430, 66000})
			}
			u := append(gen.Push(mr.Bytes(L)), 0x75)
			t.Ins[i].Unlock = append(u, t.Ins[i].Unlock...)
			changed = changed || iter == 0
		}
		if !changed {
			break
		}
	}
	return in, ""
}

func c10Judge(c *mon.Ctx, in *c10In) {
	c.Eval(1)
	if !in.Quote.inDomain() {
		c.Count("skipped:quote-out-of-domain")
		return
	}
	tx := in.Tx.build(c)
	fq := in.Quote.lib()
	q := in.Quote.ref()
	before := takeSnap(tx)
	nb := len(before.Outs)
	destClass := c10DestClass(&in.Dest)
	var err error
	var api string
	ok := false
	switch in.Dest.Kind {
	case "address":
		api = "ChangeToAddress"
		ok = c.Try("bt.(*Tx).ChangeToAddress", func() { err = tx.ChangeToAddress(in.Dest.Addr, fq) })
	case "script":
		api = "Change"
		s := bscriptOf(in.Dest.Script)
		if j := in.Dest.Shared - 1; j >= 0 && j < len(tx.Outputs) && tx.Outputs[j] != nil && tx.Outputs[j].LockingScript != nil && bytes.Equal(*tx.Outputs[j].LockingScript, in.Dest.Script) {
			s = tx.Outputs[j].LockingScript // the caller pays and takes change with ONE script object
			c.Count("shared-script-object:judged")
		}
		ok = c.Try("bt.(*Tx).Change", func() { err = tx.Change(s, fq) })
	case "index":
		api = "ChangeToExistingOutput"
		ok = c.Try("bt.(*Tx).ChangeToExistingOutput", func() { err = tx.ChangeToExistingOutput(in.Dest.Index, fq) })
	default:
		c.Fault("C10: unknown destination kind " + in.Dest.Kind)
		return
	}
	if !ok {
		return
	}
	after := takeSnap(tx)
	mb, ma := before.ref(), after.ref()
	sumIn, sumOut := ma.TotalIn(), ma.TotalOut()
	describe := func() string {
		d := ""
		switch in.Dest.Kind {
		case "address":
			d = fmt.Sprintf("address %s (script %x)", in.Dest.Addr, []byte(in.Dest.Script))
		case "script":
			sc := fmt.Sprintf("%x", []byte(in.Dest.Script))
			if len(sc) > 160 {
				sc = sc[:160] + "…"
			}
			d = fmt.Sprintf("%d-byte script %s", len(in.Dest.Script), sc)
		case "index":
			d = fmt.Sprintf("existing output %d", in.Dest.Index)
		}
		return fmt.Sprintf("%s(%s) with quote [%s], %d inputs / %d outputs before; tx before (extended hex) %s", api, d, in.Quote, len(before.Ins), nb, before.hexCapped())
	}
	// coverage labels
	cell := fmt.Sprintf("%s|%s|%s|%s", in.Rel, destClass, c10CountClass(nb), in.Quote.class())
	signed, unsigned := 0, 0
	for i := range before.Ins {
		if len(before.Ins[i].Unlock) > 0 {
			signed++
		} else {
			unsigned++
		}
	}
	switch {
	case signed > 0 && unsigned > 0:
		c.Count("inputs:mixed")
	case signed > 0:
		c.Count("inputs:signed")
	default:
		c.Count("inputs:unsigned")
	}
	if mb.Size().Data > 0 {
		c.Count("outputs:with-data")
	}
	if err != nil {
		switch {
		case errors.Is(err, bt.ErrInsufficientInputs):
			c.Count("outcome:error:insufficient-inputs")
			if mb.Paid().Sign() >= 0 {
				c.Count("outcome:error:insufficient-inputs-although-inputs>=outputs(not judged)")
			}
		case errors.Is(err, bt.ErrOutputNoExist):
			c.Count("outcome:error:output-does-not-exist")
		default:
			c.Count("outcome:error:other")
			c.Sample("unexpected-error", 2, func() any { return map[string]any{"input": in, "error": err.Error()} })
		}
		c.Count("errcell:" + cell)
		return
	}
	c.Count("cell:" + cell)
	if in.Dest.Kind == "index" {
		c.Count("existing-output:judged")
		switch i := int(in.Dest.Index); {
		case i == 0:
			c.Count("existing-output:index=first")
		case i == nb-1:
			c.Count("existing-output:index=last")
		default:
			c.Count("existing-output:index=middle")
		}
		if i := int(in.Dest.Index); i < nb && refmoney.IsData(before.Outs[i].Script) {
			c.Count("existing-output:designated-is-data-output")
		}
	}

	// ---- structure: inputs untouched, pre-existing outputs untouched (the designated one may only grow)
	if !snapInsEqual(before.Ins, after.Ins) {
		c.Violationf("C10:inputs-modified:"+in.Dest.Kind, "inputs differ after a successful %s", describe())
	}
	na := len(after.Outs)
	if na < nb {
		c.Violationf("C10:outputs-removed:"+in.Dest.Kind, "%d outputs before, %d after; %s", nb, na, describe())
		return
	}
	designated := -1
	if in.Dest.Kind == "index" {
		designated = int(in.Dest.Index)
	}
	added := false
	for i := 0; i < nb; i++ {
		b, a := &before.Outs[i], &after.Outs[i]
		if i == designated {
			if !bytes.Equal(b.Script, a.Script) || a.Nil || a.ScriptNil {
				c.Violationf("C10:designated-output-script-modified", "output %d script %x -> %x; %s", i, b.Script, a.Script, describe())
			}
			if a.Sats < b.Sats {
				c.Violationf("C10:designated-output-decreased", "output %d value %d -> %d; %s", i, b.Sats, a.Sats, describe())
			} else if a.Sats > b.Sats {
				added = true
			}
			continue
		}
		if !b.equal(a) {
			c.Violationf("C10:preexisting-output-modified:"+in.Dest.Kind, "output %d was (%d sat, %x), is (%d sat, %x); %s", i, b.Sats, b.Script, a.Sats, a.Script, describe())
		}
	}
	if in.Dest.Kind == "index" {
		if na != nb {
			c.Violationf("C10:existing-output:output-count-changed", "%d outputs before, %d after; %s", nb, na, describe())
		}
	} else {
		switch {
		case na == nb+1:
			added = true
			o := &after.Outs[nb]
			if o.Nil || o.ScriptNil || !bytes.Equal(o.Script, in.Dest.Script) {
				c.Violationf("C10:change-not-at-destination:"+in.Dest.Kind, "new output script %x, destination script %x; %s", o.Script, []byte(in.Dest.Script), describe())
			}
		case na > nb+1:
			c.Violationf("C10:more-than-one-output-added", "%d outputs before, %d after; %s", nb, na, describe())
			added = true
		}
	}
	// ---- value is never created
	if sumOut.Cmp(sumIn) > 0 {
		c.Violationf("C10:value-created:"+in.Dest.Kind, "outputs %v > inputs %v after %s", sumOut, sumIn, describe())
	}
	left := new(big.Int).Sub(sumIn, sumOut)

	// input class of the case, used to key money violations by their cause
	var cause []string
	if in.Dest.Kind != "index" {
		switch l := len(in.Dest.Script); {
		case l < 25:
			cause = append(cause, "change-script-len-lt25")
		case l > 25:
			cause = append(cause, "change-script-len-gt25")
		}
	} else {
		cause = append(cause, "existing-output")
	}
	if nb == 252 || nb == 65535 {
		cause = append(cause, "output-count-varint-boundary")
	}
	causeKey := strings.Join(cause, "+")
	if causeKey == "" {
		causeKey = "p2pkh-sized-change-output"
	}

	nontrivial := left.Sign() >= 0
	if added {
		c.Count("outcome:added")
		za, eerr := ma.EstSize()
		if eerr != nil {
			c.Fault("C10: generator produced a non-P2PKH spent script: " + eerr.Error())
			return
		}
		req := refmoney.Fee(za, q).Total
		slack := refmoney.Slack(q)
		upper := new(big.Int).Add(req, slack)
		c.Count("clause:fee-bounds-evaluated")
		if c10ChangeValue(before, after, designated) <= uint64(bt.DustLimit) {
			c.Count("added:change-value-at-or-below-dust(not judged: the statement does not forbid it)")
		}
		switch {
		case left.Cmp(req) < 0:
			c.Violationf("C10:underpay:"+causeKey,
				"fee left %v < fee required %v for the estimated final size of the resulting tx (%d std + %d data bytes) (short by %v); change value %d; %s",
				left, req, za.Std, za.Data, new(big.Int).Sub(req, left), c10ChangeValue(before, after, designated), describe())
		case left.Cmp(upper) > 0:
			c.Violationf("C10:overpay:"+causeKey,
				"fee left %v > fee required %v + slack %v for the estimated final size of the resulting tx (%d std + %d data bytes) (excess %v beyond the slack); change value %d; %s",
				left, req, slack, za.Std, za.Data, new(big.Int).Sub(left, upper), c10ChangeValue(before, after, designated), describe())
		default:
			c.Count("fee-bounds:held")
			if left.Cmp(req) == 0 {
				c.Count("fee-bounds:exact")
			}
		}
	} else {
		c.Count("outcome:nothing-added")
		if !before.equal(after) || !bytes.Equal(before.wire(true), after.wire(true)) {
			c.Violationf("C10:nothing-added:tx-modified:"+in.Dest.Kind, "no change was added but the tx differs: after (extended hex) %s; %s", after.hexCapped(), describe())
		}
		var feeWith *big.Int
		if in.Dest.Kind == "index" {
			feeWith = refmoney.Fee(mb.EstSizeNoCheck(), q).Total
		} else {
			feeWith = mb.FeeWithChangeOutput(len(in.Dest.Script), q)
		}
		remains := new(big.Int).Sub(left, feeWith)
		c.Count("clause:dust-evaluated")
		if remains.Cmp(big.NewInt(int64(bt.DustLimit))) > 0 {
			c.Violationf("C10:burn:"+causeKey,
				"no change added although inputs - outputs = %v, the fee with the change output is %v and %v > dust limit %d would remain; %s",
				left, feeWith, remains, bt.DustLimit, describe())
		} else {
			c.Count("dust-clause:held")
			if remains.Sign() >= 0 {
				c.Count("dust-clause:held-with-0..dust-remaining")
			}
		}
	}
	if nontrivial {
		c.Distinct(prng.HashBytes(before.wire(true), []byte(in.Quote.String()), []byte(in.Dest.Kind), []byte(in.Dest.Addr), in.Dest.Script, []byte(strconv.Itoa(int(in.Dest.Index)))))
	}
	cls := "nothing-added"
	if added {
		cls = "added"
	}
	if nb <= 3 && len(in.Dest.Script) <= 300 {
		c.Sample(cls+":"+in.Dest.Kind, 1, func() any {
			return map[string]any{"input": in, "tx_before_extended_hex": fmt.Sprintf("%x", before.wire(true)), "tx_after_extended_hex": fmt.Sprintf("%x", after.wire(true)),
				"inputs_minus_outputs_after": left.String(), "change_added": added}
		})
	}
}

func c10ChangeValue(before, after *mSnap, designated int) uint64 {
	if designated >= 0 && designated < len(after.Outs) && designated < len(before.Outs) {
		return after.Outs[designated].Sats - before.Outs[designated].Sats
	}
	if len(after.Outs) > len(before.Outs) {
		return after.Outs[len(after.Outs)-1].Sats
	}
	return 0
}
