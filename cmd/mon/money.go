package main

// Helpers shared by the money monitors C10, C11, C12: JSON-serialisable fee
// quotes and compact transaction shapes, deep snapshots of a *bt.Tx taken
// through exported fields only, an own wire serialiser for the snapshots, and
// signing through the library's public unlocker.

import (
	"bytes"
	"context"
	"encoding/binary"
	"encoding/hex"
	"encoding/json"
	"fmt"
	"math/big"
	"strings"

	"github.com/libsv/go-bk/bec"
	"github.com/libsv/go-bk/crypto"
	"github.com/libsv/go-bt/v2"
	"github.com/libsv/go-bt/v2/bscript"
	"github.com/libsv/go-bt/v2/unlocker"

	"verif/internal/gen"
	"verif/internal/mon"
	"verif/internal/prng"
	"verif/internal/refmoney"
)

// mMaxSats bounds every generated amount (DESIGN §4: go-bt's uint64 sums cannot wrap).
const mMaxSats = uint64(2_100_000_000_000_000)

// ---------------------------------------------------------------- quotes

type mQuote struct {
	StdSat    int `json:"std_sat"`
	StdBytes  int `json:"std_bytes"`
	DataSat   int `json:"data_sat"`
	DataBytes int `json:"data_bytes"`
}

func (q mQuote) String() string {
	return fmt.Sprintf("standard %d sat/%d B, data %d sat/%d B", q.StdSat, q.StdBytes, q.DataSat, q.DataBytes)
}

// lib builds the go-bt quote through the public API. A quote object has a
// history in real use - it was used before and its rates were refreshed - so
// the object is produced in one of four ways, chosen by the rates themselves
// (replays repeat it): (0) constructor + AddQuote; (1) the default quote, used
// once, then AddQuote with the wanted rates; (2) a quote with other rates, used
// once, then refreshed by UnmarshalJSON of a document carrying the wanted
// rates; (3) through FeeQuotes.UpdateMinerFees and Quote.
func (q mQuote) lib() *bt.FeeQuote {
	std := &bt.Fee{FeeType: bt.FeeTypeStandard, MiningFee: bt.FeeUnit{Satoshis: q.StdSat, Bytes: q.StdBytes}, RelayFee: bt.FeeUnit{Satoshis: q.StdSat, Bytes: q.StdBytes}}
	data := &bt.Fee{FeeType: bt.FeeTypeData, MiningFee: bt.FeeUnit{Satoshis: q.DataSat, Bytes: q.DataBytes}, RelayFee: bt.FeeUnit{Satoshis: q.DataSat, Bytes: q.DataBytes}}
	// the FeeType field of a Fee is an optional label; the slot a fee is filed
	// under is the AddQuote / UpdateMinerFees argument. Labels: matching, absent,
	// or left over from the fee the value was copied from.
	switch (q.StdSat + q.DataBytes) % 3 {
	case 1:
		std.FeeType, data.FeeType = "", ""
	case 2:
		std.FeeType, data.FeeType = bt.FeeTypeData, bt.FeeTypeStandard
	}
	// the relay fee is informational (what a miner relays, not what it mines): every fee rule is
	// stated in terms of the mining fee; a third of the quotes carry relay fees that differ from it
	switch (q.StdSat*7 + q.DataSat*3 + q.StdBytes) % 3 {
	case 1:
		std.RelayFee, data.RelayFee = bt.FeeUnit{Satoshis: q.StdSat/2 + 1, Bytes: q.StdBytes}, bt.FeeUnit{Satoshis: q.DataSat*3 + 2, Bytes: q.DataBytes + 5}
	case 2:
		std.RelayFee, data.RelayFee = bt.FeeUnit{}, bt.FeeUnit{Satoshis: 0, Bytes: 1}
	}
	if q.StdSat == q.DataSat && q.StdBytes == q.DataBytes && (q.StdSat+q.StdBytes)%2 == 0 {
		// a flat rate: ONE Fee object is filed under both types
		data = std
	}
	plain := func() *bt.FeeQuote {
		return bt.NewFeeQuote().AddQuote(bt.FeeTypeStandard, std).AddQuote(bt.FeeTypeData, data)
	}
	use := quoteUsedBefore
	var fq *bt.FeeQuote
	pv, _ := mon.TryQuiet(func() {
		switch (q.StdSat + 3*q.StdBytes + 5*q.DataSat + 7*q.DataBytes) % 4 {
		case 1:
			fq = bt.NewFeeQuote()
			use(fq)
			fq.AddQuote(bt.FeeTypeStandard, std).AddQuote(bt.FeeTypeData, data)
		case 2:
			other := mQuote{StdSat: q.StdSat*3 + 7, StdBytes: q.StdBytes + 1, DataSat: q.DataSat/2 + 1, DataBytes: q.DataBytes*2 + 3}
			fq = bt.NewFeeQuote().AddQuote(bt.FeeTypeStandard, &bt.Fee{FeeType: bt.FeeTypeStandard, MiningFee: bt.FeeUnit{Satoshis: other.StdSat, Bytes: other.StdBytes}, RelayFee: bt.FeeUnit{Satoshis: other.StdSat, Bytes: other.StdBytes}}).
				AddQuote(bt.FeeTypeData, &bt.Fee{FeeType: bt.FeeTypeData, MiningFee: bt.FeeUnit{Satoshis: other.DataSat, Bytes: other.DataBytes}, RelayFee: bt.FeeUnit{Satoshis: other.DataSat, Bytes: other.DataBytes}})
			use(fq)
			js, err := json.Marshal(plain())
			if err != nil || json.Unmarshal(js, fq) != nil {
				fq = nil
			}
		case 3:
			fqs := bt.NewFeeQuotes("miner")
			if old, err := fqs.Quote("miner"); err == nil {
				use(old)
			}
			if _, err := fqs.UpdateMinerFees("miner", bt.FeeTypeStandard, std); err != nil {
				return
			}
			if _, err := fqs.UpdateMinerFees("miner", bt.FeeTypeData, data); err != nil {
				return
			}
			fq, _ = fqs.Quote("miner")
		}
	})
	if pv != nil || fq == nil {
		return plain()
	}
	if (q.StdSat+q.StdBytes+q.DataSat+q.DataBytes)%3 == 1 {
		// a refresh that is refused (the document names a fee type that does not
		// exist) leaves the quote as configured
		mk := func(t bt.FeeType, s, b int) *bt.Fee {
			return &bt.Fee{FeeType: t, MiningFee: bt.FeeUnit{Satoshis: s, Bytes: b}, RelayFee: bt.FeeUnit{Satoshis: s, Bytes: b}}
		}
		doc, err := json.Marshal(map[bt.FeeType]*bt.Fee{
			bt.FeeTypeStandard: mk(bt.FeeTypeStandard, q.StdSat*5+11, q.StdBytes),
			bt.FeeTypeData:     mk(bt.FeeTypeData, q.DataSat/3, q.DataBytes+2),
			"bogus":            mk("bogus", 1, 1),
		})
		var uerr error
		if pv, _ := mon.TryQuiet(func() { uerr = json.Unmarshal(doc, fq) }); err != nil || pv != nil || uerr == nil {
			return plain() // accepted after all: not the situation meant here
		}
	}
	return fq
}

func (q mQuote) ref() refmoney.Quote {
	return refmoney.Quote{Std: refmoney.Rate{Sat: uint64(q.StdSat), Bytes: uint64(q.StdBytes)}, Data: refmoney.Rate{Sat: uint64(q.DataSat), Bytes: uint64(q.DataBytes)}}
}

// inDomain: bytes >= 1, satoshis >= 0, at most 10^6 sat per byte (DESIGN §4.6).
func (q mQuote) inDomain() bool {
	ok := func(s, b int) bool { return b >= 1 && s >= 0 && b <= 1_000_000 && s <= 1_000_000*b }
	return ok(q.StdSat, q.StdBytes) && ok(q.DataSat, q.DataBytes)
}

func rateClass(s, b int) string {
	switch {
	case s == 0:
		return "zero"
	case s < b:
		return "lt1"
	case s == b:
		return "eq1"
	}
	return "gt1"
}

// class is "<std rate class>/<data=std | data!=std>".
func (q mQuote) class() string {
	d := "data=std"
	if q.StdSat != q.DataSat || q.StdBytes != q.DataBytes {
		d = "data!=std"
	}
	return rateClass(q.StdSat, q.StdBytes) + "/" + d
}

var mQuoteSats = []int{0, 1, 5, 50, 500, 10000}
var mQuoteBytes = []int{1, 3, 100, 1000}

// randQuote draws a quote: mostly from the DESIGN grid, sometimes free within the domain.
func randQuote(r *prng.R) mQuote {
	one := func() (int, int) {
		if r.Chance(1, 5) {
			b := 1 + r.Intn(2000)
			switch r.Intn(3) {
			case 0:
				return r.Intn(3 * b), b
			case 1:
				return r.Intn(1000), b
			}
			return r.Intn(1_000_000*b + 1), b
		}
		return prng.Pick(r, mQuoteSats), prng.Pick(r, mQuoteBytes)
	}
	var q mQuote
	q.StdSat, q.StdBytes = one()
	if r.Chance(1, 3) {
		q.DataSat, q.DataBytes = q.StdSat, q.StdBytes
	} else {
		q.DataSat, q.DataBytes = one()
	}
	return q
}

// ---------------------------------------------------------------- compact shapes

// mOuts is a run of identical outputs (keeps 65,535-output replay files small).
type mOuts struct {
	Sats   uint64  `json:"sats"`
	Script mon.Hex `json:"script"`
	Repeat int     `json:"repeat,omitempty"` // 0 means 1
}

type mTx struct {
	Version  uint32   `json:"version"`
	LockTime uint32   `json:"locktime"`
	Ins      []gen.In `json:"ins"`
	Outs     []mOuts  `json:"outs"`
	// Pre lists what is done with the transaction object before the judged
	// call (queries that must leave no trace, or a Clone / wire round trip the
	// object went through): the judged call has to behave the same.
	Pre []string `json:"pre,omitempty"`
}

// pickPre chooses the warm-up deterministically from the content (one case in three gets one).
func (t *mTx) pickPre() {
	h := uint64(t.Version)*31 + uint64(t.LockTime)*17 + uint64(len(t.Ins))*7 + uint64(len(t.Outs))
	for i := range t.Ins {
		h = h*131 + t.Ins[i].PrevSats + uint64(t.Ins[i].Vout)
	}
	switch h % 9 {
	case 0:
		t.Pre = []string{"queries"}
	case 1:
		t.Pre = []string{"clone"}
	case 2:
		t.Pre = []string{"queries", "wire", "queries"}
	}
}

// build constructs the library transaction and applies the warm-up.
func (t *mTx) build(c *mon.Ctx) *bt.Tx {
	if t.Pre == nil && !c.Replay {
		t.pickPre()
	}
	tx := t.shape().BuildShared()
	for _, p := range t.Pre {
		switch p {
		case "queries":
			mon.TryQuiet(func() {
				fq := bt.NewFeeQuote()
				_ = tx.Size()
				_ = tx.SizeWithTypes()
				_, _ = tx.EstimateSize()
				_, _ = tx.EstimateSizeWithTypes()
				_, _ = tx.EstimateFeesPaid(fq)
				_, _ = tx.IsFeePaidEnough(fq)
				_, _ = tx.EstimateIsFeePaidEnough(fq)
				_ = tx.TxID()
				_ = tx.TotalInputSatoshis()
				_ = tx.TotalOutputSatoshis()
			})
		case "clone":
			mon.TryQuiet(func() { tx = tx.Clone() })
		case "wire":
			allPrev := true
			for _, in := range tx.Inputs {
				if in.PreviousTxScript == nil {
					allPrev = false
				}
			}
			if allPrev && (len(tx.Inputs) > 0 || len(tx.Outputs) > 0) {
				mon.TryQuiet(func() {
					if t2, err := bt.NewTxFromBytes(tx.ExtendedBytes()); err == nil {
						tx = t2
					}
				})
			}
		}
		c.Count("pre:" + p)
	}
	return tx
}

func (t *mTx) outCount() int {
	n := 0
	for _, g := range t.Outs {
		if g.Repeat > 1 {
			n += g.Repeat
		} else {
			n++
		}
	}
	return n
}

// shape expands the runs.
func (t *mTx) shape() *gen.Shape {
	s := &gen.Shape{Version: t.Version, LockTime: t.LockTime, Ins: t.Ins}
	// a lone input may spend the outpoint (00…00, n) with the default sequence number - an
	// ordinary coin of a transaction whose id happens to be all zeroes, not a coinbase
	if len(t.Ins) == 1 && len(t.Ins[0].Unlock) == 0 && (t.Version+t.LockTime)%4 == 1 {
		s.Ins = []gen.In{t.Ins[0]}
		s.Ins[0].TxID, s.Ins[0].Seq = make([]byte, 32), 0xffffffff
	}
	s.Outs = make([]gen.Out, 0, t.outCount())
	for _, g := range t.Outs {
		k := g.Repeat
		if k < 1 {
			k = 1
		}
		for i := 0; i < k; i++ {
			s.Outs = append(s.Outs, gen.Out{Sats: g.Sats, Script: g.Script})
		}
	}
	return s
}

// refTx is the money model's view of the compact shape.
func (t *mTx) refTx() *refmoney.Tx {
	m := &refmoney.Tx{}
	for i := range t.Ins {
		in := &t.Ins[i]
		m.Ins = append(m.Ins, refmoney.In{UnlockLen: len(in.Unlock), PrevScript: in.PrevScript, PrevNil: in.PrevScriptNil, Sats: in.PrevSats})
	}
	m.Outs = make([]refmoney.Out, 0, t.outCount())
	for _, g := range t.Outs {
		k := g.Repeat
		if k < 1 {
			k = 1
		}
		for i := 0; i < k; i++ {
			m.Outs = append(m.Outs, refmoney.Out{Sats: g.Sats, Script: g.Script})
		}
	}
	return m
}

// ---------------------------------------------------------------- snapshots

type mSnapIn struct {
	Nil       bool
	TxID      []byte
	Vout      uint32
	Unlock    []byte
	UnlockNil bool
	Seq       uint32
	Sats      uint64
	Prev      []byte
	PrevNil   bool
}

type mSnapOut struct {
	Nil       bool
	Sats      uint64
	Script    []byte
	ScriptNil bool
}

type mSnap struct {
	Version, LockTime uint32
	Ins               []mSnapIn
	Outs              []mSnapOut
}

func cp(b []byte) []byte { return append([]byte{}, b...) }

// takeSnap deep-copies everything observable of a transaction.
func takeSnap(tx *bt.Tx) *mSnap {
	s := &mSnap{Version: tx.Version, LockTime: tx.LockTime}
	s.Ins = make([]mSnapIn, len(tx.Inputs))
	for i, in := range tx.Inputs {
		if in == nil {
			s.Ins[i].Nil = true
			continue
		}
		x := &s.Ins[i]
		x.TxID, x.Vout, x.Seq, x.Sats = cp(in.PreviousTxID()), in.PreviousTxOutIndex, in.SequenceNumber, in.PreviousTxSatoshis
		if in.UnlockingScript == nil {
			x.UnlockNil = true
		} else {
			x.Unlock = cp(*in.UnlockingScript)
		}
		if in.PreviousTxScript == nil {
			x.PrevNil = true
		} else {
			x.Prev = cp(*in.PreviousTxScript)
		}
	}
	s.Outs = make([]mSnapOut, len(tx.Outputs))
	for i, o := range tx.Outputs {
		if o == nil {
			s.Outs[i].Nil = true
			continue
		}
		s.Outs[i].Sats = o.Satoshis
		if o.LockingScript == nil {
			s.Outs[i].ScriptNil = true
		} else {
			s.Outs[i].Script = cp(*o.LockingScript)
		}
	}
	return s
}

func (a *mSnapIn) equal(b *mSnapIn) bool {
	return a.Nil == b.Nil && bytes.Equal(a.TxID, b.TxID) && a.Vout == b.Vout && bytes.Equal(a.Unlock, b.Unlock) && a.UnlockNil == b.UnlockNil &&
		a.Seq == b.Seq && a.Sats == b.Sats && bytes.Equal(a.Prev, b.Prev) && a.PrevNil == b.PrevNil
}

func (a *mSnapOut) equal(b *mSnapOut) bool {
	return a.Nil == b.Nil && a.Sats == b.Sats && bytes.Equal(a.Script, b.Script) && a.ScriptNil == b.ScriptNil
}

func snapInsEqual(a, b []mSnapIn) bool {
	if len(a) != len(b) {
		return false
	}
	for i := range a {
		if !a[i].equal(&b[i]) {
			return false
		}
	}
	return true
}

func snapOutsEqual(a, b []mSnapOut) bool {
	if len(a) != len(b) {
		return false
	}
	for i := range a {
		if !a[i].equal(&b[i]) {
			return false
		}
	}
	return true
}

func (s *mSnap) equal(o *mSnap) bool {
	return s.Version == o.Version && s.LockTime == o.LockTime && snapInsEqual(s.Ins, o.Ins) && snapOutsEqual(s.Outs, o.Outs)
}

func (s *mSnap) ref() *refmoney.Tx {
	m := &refmoney.Tx{Ins: make([]refmoney.In, len(s.Ins)), Outs: make([]refmoney.Out, len(s.Outs))}
	for i := range s.Ins {
		m.Ins[i] = refmoney.In{UnlockLen: len(s.Ins[i].Unlock), PrevScript: s.Ins[i].Prev, PrevNil: s.Ins[i].PrevNil, Sats: s.Ins[i].Sats}
	}
	for i := range s.Outs {
		m.Outs[i] = refmoney.Out{Sats: s.Outs[i].Sats, Script: s.Outs[i].Script}
	}
	return m
}

func putVarInt(b []byte, n uint64) []byte {
	switch {
	case n < 0xfd:
		return append(b, byte(n))
	case n <= 0xffff:
		return append(b, 0xfd, byte(n), byte(n>>8))
	case n <= 0xffffffff:
		b = append(b, 0xfe)
		return binary.LittleEndian.AppendUint32(b, uint32(n))
	}
	b = append(b, 0xff)
	return binary.LittleEndian.AppendUint64(b, n)
}

// wire serialises the snapshot with the monitor's own encoder (standard format,
// or the extended format that also carries spent value and script per input).
func (s *mSnap) wire(extended bool) []byte {
	b := binary.LittleEndian.AppendUint32(nil, s.Version)
	if extended {
		b = append(b, 0, 0, 0, 0, 0, 0xef)
	}
	b = putVarInt(b, uint64(len(s.Ins)))
	for i := range s.Ins {
		in := &s.Ins[i]
		for j := len(in.TxID) - 1; j >= 0; j-- {
			b = append(b, in.TxID[j])
		}
		b = binary.LittleEndian.AppendUint32(b, in.Vout)
		b = putVarInt(b, uint64(len(in.Unlock)))
		b = append(b, in.Unlock...)
		b = binary.LittleEndian.AppendUint32(b, in.Seq)
		if extended {
			b = binary.LittleEndian.AppendUint64(b, in.Sats)
			b = putVarInt(b, uint64(len(in.Prev)))
			b = append(b, in.Prev...)
		}
	}
	b = putVarInt(b, uint64(len(s.Outs)))
	for i := range s.Outs {
		b = binary.LittleEndian.AppendUint64(b, s.Outs[i].Sats)
		b = putVarInt(b, uint64(len(s.Outs[i].Script)))
		b = append(b, s.Outs[i].Script...)
	}
	return binary.LittleEndian.AppendUint32(b, s.LockTime)
}

// hexCapped is the extended-format hex of the snapshot, shortened in the middle when huge.
func (s *mSnap) hexCapped() string {
	h := hex.EncodeToString(s.wire(true))
	if len(h) > 6000 {
		return fmt.Sprintf("%s…(%d hex digits omitted; %d inputs, %d outputs; the replay file carries the whole case)…%s", h[:3000], len(h)-4000, len(s.Ins), len(s.Outs), h[len(h)-1000:])
	}
	return h
}

func bigU(v uint64) *big.Int { return new(big.Int).SetUint64(v) }

// ---------------------------------------------------------------- keys and signing

type mKey struct {
	priv *bec.PrivateKey
	pkh  []byte
}

func newKey(b []byte) *mKey {
	priv, pub := bec.PrivKeyFromBytes(bec.S256(), b)
	return &mKey{priv: priv, pkh: crypto.Hash160(pub.SerialiseCompressed())}
}

// p2pkh is the locking script this key can spend.
func (k *mKey) p2pkh() []byte { return gen.P2PKH(k.pkh) }

// p2pkhUncompressed is the P2PKH script committing to the key's 65-byte
// serialisation (an output of the same key as older wallets made them).
func (k *mKey) p2pkhUncompressed() []byte {
	return gen.P2PKH(crypto.Hash160(k.priv.PubKey().SerialiseUncompressed()))
}

// signInputs signs the listed inputs through the library's public unlocker
// (FillAllInputs when every input is listed, FillInput otherwise).
func signInputs(tx *bt.Tx, k *mKey, idx []int) error {
	g := &unlocker.Getter{PrivateKey: k.priv}
	ctx := context.Background()
	if len(idx) == len(tx.Inputs) {
		return tx.FillAllInputs(ctx, g)
	}
	for _, i := range idx {
		u, err := g.Unlocker(ctx, tx.Inputs[i].PreviousTxScript)
		if err != nil {
			return err
		}
		if err := tx.FillInput(ctx, u, bt.UnlockerParams{InputIdx: uint32(i)}); err != nil {
			return err
		}
	}
	return nil
}

// signShape builds the transaction, signs the listed inputs and copies the
// unlocking scripts back into the shape. It reports whether any length changed.
func signShape(t *mTx, k *mKey, idx []int) (changed bool, err error) {
	if len(idx) == 0 {
		return false, nil
	}
	tx := t.shape().BuildShared()
	var serr error
	if pv, _ := mon.TryQuiet(func() { serr = signInputs(tx, k, idx) }); pv != nil {
		return false, fmt.Errorf("signing panicked: %v", pv)
	}
	if serr != nil {
		return false, serr
	}
	for _, i := range idx {
		us := tx.Inputs[i].UnlockingScript
		if us == nil {
			return false, fmt.Errorf("input %d left unsigned", i)
		}
		if len(*us) != len(t.Ins[i].Unlock) {
			changed = true
		}
		t.Ins[i].Unlock, t.Ins[i].UnlockNil = cp(*us), false
	}
	return changed, nil
}

// nonDataScript returns n pseudo-random bytes that are not a data-carrier script.
// nonDataOutputScript is a non-data output script of about n bytes: one time in three an instance
// of a template the library recognises - an inscription (its envelope and its OP_RETURN tail are
// part of a standard output, not data-carrier bytes), P2PK, P2SH, multisig.
func nonDataOutputScript(r *prng.R, n int) []byte {
	if r.Chance(1, 3) {
		if t := gen.StandardScript(r); !refmoney.IsData(t) {
			return t
		}
	}
	return nonDataScript(r, n)
}

func nonDataScript(r *prng.R, n int) []byte {
	s := r.Bytes(n)
	if n >= 3 && r.Chance(1, 6) { // looks like data once decoded into parts, is not data by its bytes
		copy(s, prng.Pick(r, [][]byte{{0x01, 0x6a}, {0x01, 0x00, 0x01}, {0x00, 0x01, 0x6a}, {0x4c, 0x01, 0x6a}}))
	}
	if refmoney.IsData(s) {
		s[0] = 0x51
	}
	return s
}

// dataScript is OP_RETURN / OP_FALSE OP_RETURN followed by a push of n payload bytes (n < 0: bare).
func dataScript(r *prng.R, falseReturn bool, n int) []byte {
	s := []byte{0x6a}
	if falseReturn {
		s = []byte{0x00, 0x6a}
	}
	if n < 0 {
		return s
	}
	d := r.Bytes(n)
	// a data carrier holds any bytes: a quarter of the payloads are raw (not a sequence of
	// complete pushes: text, a push header announcing more than follows, a dangling PUSHDATA)
	if n > 0 && len(d)%4 == 3 {
		d[0] = []byte{0x4d, 0x4c, 0x4e, 'H', 0x4b}[int(d[n-1])%5]
		if n > 2 {
			d[1], d[2] = 0xff, 0xff
		}
		return append(s, d...)
	}
	return append(s, gen.Push(d)...)
}

// splitSats distributes total over k amounts (each <= mMaxSats as long as total is).
func splitSats(r *prng.R, total uint64, k int) []uint64 {
	out := make([]uint64, k)
	rest := total
	for i := 0; i < k-1; i++ {
		var v uint64
		switch r.Intn(3) {
		case 0:
			v = 0
		case 1:
			if rest > 0 {
				v = r.Uint64() % (rest + 1)
			}
		default:
			if rest > 0 {
				v = r.Uint64() % (rest/uint64(k) + 1)
			}
		}
		out[i] = v
		rest -= v
	}
	out[k-1] = rest
	// the remainder goes to a random position
	j := r.Intn(k)
	out[j], out[k-1] = out[k-1], out[j]
	return out
}

func bscriptOf(b []byte) *bscript.Script { return bscript.NewFromBytes(cp(b)) }

// quoteUsedBefore: what any earlier transaction would have done with the quote.
func quoteUsedBefore(fq *bt.FeeQuote) {
	tx := bt.NewTx()
	_ = tx.From("11"+strings.Repeat("22", 31), 0, "76a914"+strings.Repeat("33", 20)+"88ac", 100000)
	_ = tx.PayTo(bscript.NewFromBytes(gen.P2PKH(bytes.Repeat([]byte{0x44}, 20))), 1000)
	_ = tx.AddOpReturnOutput([]byte("used before"))
	_, _ = tx.IsFeePaidEnough(fq)
	_, _ = tx.EstimateFeesPaid(fq)
	_, _ = tx.EstimateIsFeePaidEnough(fq)
	_ = tx.Change(bscript.NewFromBytes(gen.P2PKH(bytes.Repeat([]byte{0x55}, 20))), fq)
	_, _ = fq.Fee(bt.FeeTypeStandard)
	_, _ = fq.Fee(bt.FeeTypeData)
}
