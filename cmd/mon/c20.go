package main

import (
	"bytes"
	"context"
	"encoding/hex"
	"encoding/json"
	"fmt"
	"math/big"
	"strings"
	"time"

	"github.com/libsv/go-bk/bec"
	"github.com/libsv/go-bk/crypto"
	"github.com/libsv/go-bt/v2"
	"github.com/libsv/go-bt/v2/bscript"
	"github.com/libsv/go-bt/v2/bscript/interpreter"
	"github.com/libsv/go-bt/v2/bscript/interpreter/scriptflag"
	"github.com/libsv/go-bt/v2/ord"
	"github.com/libsv/go-bt/v2/unlocker"

	"verif/internal/gen"
	"verif/internal/mon"
	"verif/internal/prng"
	"verif/internal/refcodec"
)

// C20 — ordinals sale/bid flows yield valid transactions protecting seller and buyer.

type c20Quote struct {
	Sat   int `json:"sat"`
	Bytes int `json:"bytes"`
	// Label: what the Fee objects handed to AddQuote carry in their own FeeType
	// field: 0 the type they are filed under, 1 nothing, 2 the other type
	// (AddQuote's first argument is what names the fee).
	Label int `json:"fee_label,omitempty"`
	// DataMul: the data fee is the same rate written per DataMul times as many bytes (0, 1: same unit)
	DataMul int `json:"data_fee_unit_multiplier,omitempty"`
	// Relay: the relay fees are 0 the mining fees, 1 absent, 2 half, 3 twice the mining fees
	// (the quoted fee of a transaction is its mining fee)
	Relay int `json:"relay_fee_variant,omitempty"`
}

type c20Flow struct {
	Flow       string   `json:"flow"` // listing | listing-2d | bid | bid-2d
	SellerKey  mon.Hex  `json:"seller_key"`
	BuyerKey   mon.Hex  `json:"buyer_key"`
	Price      uint64   `json:"price"`
	OrdTxID    mon.Hex  `json:"ord_txid"`
	OrdVout    uint32   `json:"ord_vout"`
	OrdInscr   bool     `json:"ord_inscribed"` // the ordinal sits in a P2PKH-inscription output
	Funding    []uint64 `json:"funding"`       // buyer UTXO values, in the order handed to the flow
	FundTxIDs  mon.Hex  `json:"fund_txid_seed"`
	Quote      c20Quote `json:"quote"`
	ChangeLen  int      `json:"change_script_len"` // 25 = P2PKH, otherwise a non-standard script of that length
	BuyerInscr bool     `json:"buyer_receives_to_inscription_script"`
	SellerLen  int      `json:"seller_receive_script_len,omitempty"` // 0 or 25 = P2PKH(seller); otherwise a non-standard script of that length
	// FundShare: 0 every funding coin from its own transaction; 1 all from one
	// transaction (same txid, different vout); 2 in pairs; 3 the first funding
	// coin is another output of the ordinal's own transaction
	FundShare int `json:"funding_txid_sharing,omitempty"`
	// OrdTail: OP_RETURN metadata of an enriched inscription (items pushed after OP_RETURN); nil = plain inscription
	OrdTail []mon.Hex `json:"ord_op_return_items,omitempty"`
	// OrdDataLen: payload size of the inscribed ordinal (0 = the 13-byte default)
	OrdDataLen int `json:"ord_payload_len,omitempty"`
	// OrdWide: the ordinal's inscription uses a wider push form than necessary for its content type (legal, and part of the script code)
	OrdWide bool `json:"ord_wide_push,omitempty"`
	// ExtraUTXOs: values of extra seller coins offered to the two-dummy bid acceptance (AcceptBid2DArgs.ExtraUTXOs)
	ExtraUTXOs []uint64 `json:"extra_seller_utxos,omitempty"`
	// Wallet: bit 0 the seller, bit 1 the buyer signs through the monitor's own bt.Unlocker instead of unlocker.Simple
	Wallet int `json:"own_unlockers,omitempty"`
	// AcceptDelta: the seller validates the bid against an amount that differs from the one offered by this much
	AcceptDelta int64 `json:"accept_amount_delta,omitempty"`
	// BuyerInscrLen: payload bytes of the inscription the buyer receives the ordinal into (0 = 3 bytes)
	BuyerInscrLen int `json:"buyer_inscription_bytes,omitempty"`
	// OneScriptObject: dummy output script and change script are the very same *bscript.Script
	OneScriptObject bool `json:"dummy_and_change_are_one_script_object,omitempty"`
	// ExpectOther: the offer is validated against an ordinal that differs from the offered one
	// in its output index (1), its txid (2) or both (3): such an offer must be refused
	ExpectOther int `json:"validate_against_other_outpoint,omitempty"`
	// AcceptTwice: the same offer object is accepted a second time (other receive / change scripts)
	// after the first completed transaction was handed back; the first one belongs to its owner
	AcceptTwice bool `json:"offer_accepted_twice,omitempty"`
	// SellerQuoteExtra: the quote the seller validates a bid against (ExpectedFQ) asks this many
	// satoshis more per Quote.Bytes than the quote the bidder built the bid with
	SellerQuoteExtra int `json:"seller_quote_extra_sat,omitempty"`
	// BuyerKeys: the funding coins are locked to this many different keys of the buyer's wallet
	// (coin i to key i mod BuyerKeys), each coin carrying the unlocker of its own key; 0, 1: one key
	BuyerKeys int `json:"buyer_wallet_keys,omitempty"`
	// CtxDone: the context handed to the flow is 1 already cancelled, 2 past its deadline
	// (whatever a flow returns as completed must be a completed transaction)
	CtxDone int `json:"context_done,omitempty"`
}

type c20Inscr struct {
	ContentType string  `json:"content_type"`
	Data        mon.Hex `json:"data"`
	Key         mon.Hex `json:"key"`
	OpReturn    bool    `json:"op_return_tail"`
	TailLens    []int   `json:"op_return_item_lens,omitempty"` // lengths of the enriched OP_RETURN items (overrides the default two-item tail)
	// PrefixHash: when 20 bytes long, the P2PKH prefix pays to this hash instead of the key's
	// (hashes that contain the bytes of the inscription envelope's start)
	PrefixHash mon.Hex `json:"prefix_hash,omitempty"`
}

// c20Wallet is a caller's own bt.Unlocker (an external wallet): it signs P2PKH
// coins with exactly the SIGHASH flags it is handed.
type c20Wallet struct{ key *bec.PrivateKey }

func (w *c20Wallet) UnlockingScript(_ context.Context, tx *bt.Tx, params bt.UnlockerParams) (*bscript.Script, error) {
	sh, err := tx.CalcInputSignatureHash(params.InputIdx, params.SigHashFlags)
	if err != nil {
		return nil, err
	}
	sig, err := w.key.Sign(sh)
	if err != nil {
		return nil, err
	}
	return bscript.NewP2PKHUnlockingScript(w.key.PubKey().SerialiseCompressed(), sig.Serialise(), params.SigHashFlags)
}

func p2pkhOf(priv *bec.PrivateKey) *bscript.Script {
	h := crypto.Hash160(priv.PubKey().SerialiseCompressed())
	return bscript.NewFromBytes(gen.P2PKH(h))
}

// mkQuote builds the quote object of a flow. One in three has a history: the object carried other
// (lower) rates, was used for an earlier transaction, and was then refreshed in place from a fee
// document with the rates wanted now (a wallet keeping one quote object per miner).
func mkQuote(q c20Quote) *bt.FeeQuote {
	fq := mkQuotePlain(q)
	if (q.Sat+q.Bytes+q.Label+q.Relay+q.DataMul)%3 != 1 {
		return fq
	}
	old := bt.NewFeeQuote()
	for _, t := range []bt.FeeType{bt.FeeTypeStandard, bt.FeeTypeData} {
		u := bt.FeeUnit{Satoshis: q.Sat / 10, Bytes: q.Bytes}
		old.AddQuote(t, &bt.Fee{FeeType: t, MiningFee: u, RelayFee: u})
	}
	ok := false
	mon.TryQuiet(func() {
		quoteUsedBefore(old)
		if js, err := json.Marshal(fq); err == nil && json.Unmarshal(js, old) == nil {
			ok = true
		}
	})
	if !ok {
		return fq
	}
	return old
}

func mkQuotePlain(q c20Quote) *bt.FeeQuote {
	fq := bt.NewFeeQuote()
	for _, t := range []bt.FeeType{bt.FeeTypeStandard, bt.FeeTypeData} {
		label := t
		switch q.Label {
		case 1:
			label = ""
		case 2:
			label = map[bt.FeeType]bt.FeeType{bt.FeeTypeStandard: bt.FeeTypeData, bt.FeeTypeData: bt.FeeTypeStandard}[t]
		}
		unit := bt.FeeUnit{Satoshis: q.Sat, Bytes: q.Bytes}
		if t == bt.FeeTypeData && q.DataMul > 1 {
			unit = bt.FeeUnit{Satoshis: q.Sat * q.DataMul, Bytes: q.Bytes * q.DataMul}
		}
		relay := unit
		switch q.Relay {
		case 1:
			relay = bt.FeeUnit{}
		case 2:
			relay.Satoshis /= 2
		case 3:
			relay.Satoshis *= 2
		}
		fq.AddQuote(t, &bt.Fee{FeeType: label, MiningFee: unit, RelayFee: relay})
	}
	return fq
}

type c20Coin struct {
	sats   uint64
	script []byte
}

func outKey(txid []byte, vout uint32) string { return fmt.Sprintf("%x:%d", txid, vout) }

func c20JudgeFlow(c *mon.Ctx, f *c20Flow) {
	c.Eval(1)
	ctx := context.Background()
	switch f.CtxDone {
	case 1:
		cctx, cancel := context.WithCancel(ctx)
		cancel()
		ctx = cctx
	case 2:
		dctx, cancel := context.WithDeadline(ctx, time.Unix(1, 0))
		defer cancel()
		ctx = dctx
	}
	seller, _ := bec.PrivKeyFromBytes(bec.S256(), f.SellerKey)
	buyer, _ := bec.PrivKeyFromBytes(bec.S256(), f.BuyerKey)
	sellerScript, buyerScript := p2pkhOf(seller), p2pkhOf(buyer)
	sellerRecv := sellerScript
	if f.SellerLen != 0 && f.SellerLen != 25 {
		sellerRecv = bscript.NewFromBytes(bytes.Repeat([]byte{0x51}, f.SellerLen))
	}
	coins := map[string]c20Coin{}
	// the ordinal
	ordScript := sellerScript
	if f.OrdInscr {
		t := bt.NewTx()
		ia := &bscript.InscriptionArgs{LockingScriptPrefix: bscript.NewFromBytes(append([]byte{}, *sellerScript...)), Data: []byte("Hello, world!"), ContentType: "text/plain;charset=utf-8"}
		if f.OrdDataLen > 0 {
			ia.Data = bytes.Repeat([]byte("ordinal payload "), f.OrdDataLen/16+1)[:f.OrdDataLen]
		}
		if len(f.OrdTail) > 0 {
			ia.EnrichedArgs = &bscript.EnrichedInscriptionArgs{}
			for _, it := range f.OrdTail {
				ia.EnrichedArgs.OpReturnData = append(ia.EnrichedArgs.OpReturnData, append([]byte{}, it...))
			}
		}
		if err := t.Inscribe(ia); err != nil {
			c.Fault("cannot build an inscription output: " + err.Error())
			return
		}
		ordScript = t.Outputs[0].LockingScript
		if f.OrdWide { // re-encode the content-type push as OP_PUSHDATA2
			ct := []byte("text/plain;charset=utf-8")
			min := gen.Push(ct)
			if i := bytes.Index(*ordScript, min); i > 0 {
				wide, _ := refcodec.PushWith(0x4d, ct)
				re := append(append(append([]byte{}, (*ordScript)[:i]...), wide...), (*ordScript)[i+len(min):]...)
				ordScript = bscript.NewFromBytes(re)
			}
		}
	}
	var sellerUnlocker bt.Unlocker = &unlocker.Simple{PrivateKey: seller}
	var buyerUnlocker bt.Unlocker = &unlocker.Simple{PrivateKey: buyer}
	if f.Wallet&1 != 0 {
		sellerUnlocker = &c20Wallet{seller}
	}
	if f.Wallet&2 != 0 {
		buyerUnlocker = &c20Wallet{buyer}
	}
	c.Count(fmt.Sprintf("C20:signers:seller-own-unlocker=%v:buyer-own-unlocker=%v", f.Wallet&1 != 0, f.Wallet&2 != 0))
	c.Count(fmt.Sprintf("C20:fee-label-variant:%d", f.Quote.Label))
	ordUTXO := &bt.UTXO{TxID: append([]byte{}, f.OrdTxID...), Vout: f.OrdVout, LockingScript: bscript.NewFromBytes(append([]byte{}, *ordScript...)), Satoshis: 1, Unlocker: &sellerUnlocker}
	coins[outKey(ordUTXO.TxID, ordUTXO.Vout)] = c20Coin{1, append([]byte{}, *ordScript...)}
	var utxos []*bt.UTXO
	for i, v := range f.Funding {
		id, vout := crypto.Sha256(append(append([]byte{}, f.FundTxIDs...), byte(i))), uint32(i%3)
		switch f.FundShare {
		case 1:
			id, vout = crypto.Sha256(append(append([]byte{}, f.FundTxIDs...), 0)), uint32(10+i)
		case 2:
			id, vout = crypto.Sha256(append(append([]byte{}, f.FundTxIDs...), byte(i/2))), uint32(10+i)
		case 3:
			if i == 0 {
				id, vout = append([]byte{}, f.OrdTxID...), f.OrdVout+1
			}
		}
		coinScript, coinUnlocker := buyerScript, &buyerUnlocker
		if f.BuyerKeys > 1 && i%f.BuyerKeys != 0 { // another key of the buyer's wallet, with its own unlocker
			kb := crypto.Sha256(append(append([]byte{}, f.BuyerKey...), byte(i%f.BuyerKeys)))
			kb[0] &= 0x7f
			k, _ := bec.PrivKeyFromBytes(bec.S256(), kb)
			var ku bt.Unlocker = &unlocker.Simple{PrivateKey: k}
			if f.Wallet&2 != 0 {
				ku = &c20Wallet{k}
			}
			coinScript, coinUnlocker = p2pkhOf(k), &ku
		}
		u := &bt.UTXO{TxID: id, Vout: vout, LockingScript: bscript.NewFromBytes(append([]byte{}, *coinScript...)), Satoshis: v, Unlocker: coinUnlocker}
		utxos = append(utxos, u)
		coins[outKey(id, u.Vout)] = c20Coin{v, append([]byte{}, *coinScript...)}
	}
	fq := mkQuote(f.Quote)
	sellerQ := f.Quote
	sellerQ.Sat += f.SellerQuoteExtra
	sellerFQ := fq // what the seller validates a bid against
	if f.SellerQuoteExtra != 0 {
		sellerFQ = mkQuote(sellerQ)
	}
	changeScript := bscript.NewFromBytes(append([]byte{}, *buyerScript...))
	if f.ChangeLen != 25 {
		cs := bytes.Repeat([]byte{0x51}, f.ChangeLen)
		changeScript = bscript.NewFromBytes(cs)
	}
	buyerRecv := bscript.NewFromBytes(append([]byte{}, *buyerScript...))
	if f.BuyerInscr {
		t := bt.NewTx()
		data := []byte{1, 2, 3}
		if f.BuyerInscrLen > 0 {
			data = prng.New(uint64(f.BuyerInscrLen), "C20-buyer-inscription", 0).Bytes(f.BuyerInscrLen)
		}
		_ = t.Inscribe(&bscript.InscriptionArgs{LockingScriptPrefix: bscript.NewFromBytes(append([]byte{}, *buyerScript...)), Data: data, ContentType: "x/y"})
		buyerRecv = t.Outputs[0].LockingScript
	}
	dummyScript := bscript.NewFromBytes(append([]byte{}, *buyerScript...))
	if f.OneScriptObject {
		dummyScript = changeScript
	}
	// the ordinal an offer is validated against
	expected := ordUTXO
	if f.ExpectOther != 0 {
		e := *ordUTXO
		if f.ExpectOther&1 != 0 {
			e.Vout = ordUTXO.Vout + 1
		}
		if f.ExpectOther&2 != 0 {
			e.TxID = append([]byte{}, ordUTXO.TxID...)
			e.TxID[5] ^= 0x10
		}
		expected = &e
	}
	var final *bt.Tx
	var err error
	var sellerOut *bt.Output
	wantSellerIdx := -1
	var second func() *bt.Tx // the same offer accepted once more, by someone else / the same funding list used for a second offer
	ok := c.Try("ord."+f.Flow, func() {
		switch f.Flow {
		case "listing", "listing-2d":
			sellerOut = &bt.Output{Satoshis: f.Price, LockingScript: bscript.NewFromBytes(append([]byte{}, *sellerRecv...))}
			var pstx *bt.Tx
			pstx, err = ord.ListOrdinalForSale(ctx, &ord.ListOrdinalArgs{SellerReceiveOutput: sellerOut, OrdinalUTXO: ordUTXO, OrdinalUnlocker: sellerUnlocker})
			if err != nil {
				return
			}
			// the buyer receives the listing over the wire
			wire, perr := bt.NewTxFromBytes(pstx.Bytes())
			if perr != nil {
				err = perr
				return
			}
			wire.Inputs[0].PreviousTxScript = ordUTXO.LockingScript
			wire.Inputs[0].PreviousTxSatoshis = 1
			args := &ord.AcceptListingArgs{PSTx: wire, UTXOs: utxos, BuyerReceiveOrdinalScript: buyerRecv, DummyOutputScript: dummyScript, ChangeScript: changeScript, FQ: fq}
			vla := &ord.ValidateListingArgs{ListedOrdinalUTXO: expected}
			accept := func(a *ord.AcceptListingArgs) (*bt.Tx, error) {
				if f.Flow == "listing" {
					return ord.AcceptOrdinalSaleListing(ctx, vla, a)
				}
				return ord.AcceptOrdinalSaleListing2Dummies(ctx, vla, a)
			}
			wantSellerIdx = 1
			if f.Flow != "listing" {
				wantSellerIdx = 2
			}
			final, err = accept(args)
			if f.AcceptTwice && err == nil && final != nil {
				second = func() *bt.Tx {
					other := bscript.NewFromBytes(gen.P2PKH(bytes.Repeat([]byte{0x5c}, 20)))
					t2, _ := accept(&ord.AcceptListingArgs{PSTx: wire, UTXOs: utxos, BuyerReceiveOrdinalScript: other, DummyOutputScript: other, ChangeScript: bscript.NewFromBytes(gen.P2PKH(bytes.Repeat([]byte{0x5d}, 20))), FQ: fq})
					return t2
				}
			}
		case "bid":
			var pstx *bt.Tx
			pstx, err = ord.MakeBidToBuy1SatOrdinal(ctx, &ord.MakeBidArgs{BidAmount: f.Price, OrdinalTxID: hex.EncodeToString(f.OrdTxID), OrdinalVOut: f.OrdVout,
				BidderUTXOs: utxos, BuyerReceiveOrdinalScript: buyerRecv, DummyOutputScript: dummyScript, ChangeScript: changeScript, FQ: fq})
			if err != nil {
				return
			}
			final, err = ord.AcceptBidToBuy1SatOrdinal(ctx, &ord.ValidateBidArgs{OrdinalUTXO: expected, BidAmount: uint64(int64(f.Price) + f.AcceptDelta), ExpectedFQ: sellerFQ},
				&ord.AcceptBidArgs{PSTx: pstx, SellerReceiveScript: bscript.NewFromBytes(append([]byte{}, *sellerRecv...)), OrdinalUnlocker: sellerUnlocker})
			if f.AcceptTwice && err == nil && final != nil {
				second = func() *bt.Tx {
					// the bidder, whose coins are unspent until a bid is accepted, makes a second bid from the same funding list
					if t2, e2 := ord.MakeBidToBuy1SatOrdinal(ctx, &ord.MakeBidArgs{BidAmount: f.Price, OrdinalTxID: hex.EncodeToString(crypto.Sha256(f.OrdTxID)), OrdinalVOut: f.OrdVout, // another ordinal, from a transaction none of the funding coins comes from

						BidderUTXOs: utxos, BuyerReceiveOrdinalScript: buyerRecv, DummyOutputScript: dummyScript, ChangeScript: changeScript, FQ: fq}); e2 == nil && t2 != nil {
						c20NoOutpointTwice(c, f.Flow+":second-bid-from-the-same-funding-list", t2)
					}
					t2, _ := ord.AcceptBidToBuy1SatOrdinal(ctx, &ord.ValidateBidArgs{OrdinalUTXO: expected, BidAmount: uint64(int64(f.Price) + f.AcceptDelta), ExpectedFQ: fq},
						&ord.AcceptBidArgs{PSTx: pstx, SellerReceiveScript: bscript.NewFromBytes(gen.P2PKH(bytes.Repeat([]byte{0x5c}, 20))), OrdinalUnlocker: sellerUnlocker})
					return t2
				}
			}
		case "bid-2d":
			var pstx *bt.Tx
			pstx, err = ord.MakeBidToBuy1SatOrdinal2Dummies(ctx, &ord.MakeBid2DArgs{BidAmount: f.Price, OrdinalTxID: hex.EncodeToString(f.OrdTxID), OrdinalVOut: f.OrdVout,
				BidderUTXOs: utxos, BuyerReceiveOrdinalScript: buyerRecv, DummyOutputScript: dummyScript, ChangeScript: changeScript, FQ: fq})
			if err != nil {
				return
			}
			prevs := []*bt.UTXO{}
			for i, in := range pstx.Inputs {
				if i == 2 {
					prevs = append(prevs, ordUTXO)
					continue
				}
				k := outKey(in.PreviousTxID(), in.PreviousTxOutIndex)
				cn := coins[k]
				prevs = append(prevs, &bt.UTXO{TxID: in.PreviousTxID(), Vout: in.PreviousTxOutIndex, Satoshis: cn.sats, LockingScript: bscript.NewFromBytes(cn.script)})
			}
			var extras []*bt.UTXO
			for i, v := range f.ExtraUTXOs { // seller coins the acceptance may (or may not) use
				id := crypto.Sha256(append(append([]byte("extra"), f.FundTxIDs...), byte(i)))
				extras = append(extras, &bt.UTXO{TxID: id, Vout: uint32(i), LockingScript: bscript.NewFromBytes(append([]byte{}, *sellerScript...)), Satoshis: v, Unlocker: &sellerUnlocker})
				coins[outKey(id, uint32(i))] = c20Coin{v, append([]byte{}, *sellerScript...)}
			}
			final, err = ord.AcceptBidToBuy1SatOrdinal2Dummies(ctx, &ord.ValidateBid2DArgs{PreviousUTXOs: prevs, BidAmount: uint64(int64(f.Price) + f.AcceptDelta), ExpectedFQ: sellerFQ},
				&ord.AcceptBid2DArgs{PSTx: pstx, SellerReceiveOrdinalScript: bscript.NewFromBytes(append([]byte{}, *sellerRecv...)), OrdinalUnlocker: sellerUnlocker, ExtraUTXOs: extras})
			if f.AcceptTwice && err == nil && final != nil {
				second = func() *bt.Tx {
					if t2, e2 := ord.MakeBidToBuy1SatOrdinal2Dummies(ctx, &ord.MakeBid2DArgs{BidAmount: f.Price, OrdinalTxID: hex.EncodeToString(crypto.Sha256(f.OrdTxID)), OrdinalVOut: f.OrdVout, // another ordinal, from a transaction none of the funding coins comes from

						BidderUTXOs: utxos, BuyerReceiveOrdinalScript: buyerRecv, DummyOutputScript: dummyScript, ChangeScript: changeScript, FQ: fq}); e2 == nil && t2 != nil {
						c20NoOutpointTwice(c, f.Flow+":second-bid-from-the-same-funding-list", t2)
					}
					t2, _ := ord.AcceptBidToBuy1SatOrdinal2Dummies(ctx, &ord.ValidateBid2DArgs{PreviousUTXOs: prevs, BidAmount: uint64(int64(f.Price) + f.AcceptDelta), ExpectedFQ: fq},
						&ord.AcceptBid2DArgs{PSTx: pstx, SellerReceiveOrdinalScript: bscript.NewFromBytes(gen.P2PKH(bytes.Repeat([]byte{0x5c}, 20))), OrdinalUnlocker: sellerUnlocker, ExtraUTXOs: extras})
					return t2
				}
			}
		}
	})
	if !ok {
		return
	}
	if err != nil || final == nil {
		c.Count("flow:" + f.Flow + ":refused")
		return
	}
	c.Count("flow:" + f.Flow + ":completed")
	if second != nil {
		first := append([]byte{}, final.Bytes()...)
		var t2 *bt.Tx
		if c.Try("ord."+f.Flow+"(same offer again)", func() { t2 = second() }) {
			c.Count("flow:" + f.Flow + ":offer-accepted-a-second-time")
			if t2 != nil {
				c20NoOutpointTwice(c, f.Flow+":second-acceptance", t2)
			}
			if !bytes.Equal(final.Bytes(), first) {
				c.Violationf("C20:completed-tx-changed-by-a-later-acceptance:"+f.Flow, "the transaction completed from an offer changed when the same offer object was accepted again with other scripts: was %x, is now %x", first, final.Bytes())
			}
		}
	}
	if f.ExpectOther != 0 && f.Flow != "bid-2d" {
		c.Violationf("C20:completed-although-the-offer-spends-another-outpoint:"+f.Flow, "the offer spends %x:%d, it was validated against %x:%d (mismatch kind %d) and the flow completed a transaction instead of refusing", f.OrdTxID, f.OrdVout, expected.TxID, expected.Vout, f.ExpectOther)
		return
	}
	good := c20NoOutpointTwice(c, f.Flow, final)
	// (1) every input is accepted by the interpreter against the coin it spends
	inSum, outSum := new(big.Int), new(big.Int)
	ordIdx := -1
	for i, in := range final.Inputs {
		cn, known := coins[outKey(in.PreviousTxID(), in.PreviousTxOutIndex)]
		if !known {
			good = false
			c.Violationf("C20:unknown-input:"+f.Flow, "completed %s tx spends %x:%d, which is none of the coins handed to the flow", f.Flow, in.PreviousTxID(), in.PreviousTxOutIndex)
			continue
		}
		if bytes.Equal(in.PreviousTxID(), f.OrdTxID) && in.PreviousTxOutIndex == f.OrdVout {
			ordIdx = i
		}
		inSum.Add(inSum, new(big.Int).SetUint64(cn.sats))
		raw, _ := bt.NewTxFromBytes(final.Bytes())
		var xerr error
		if c.Try("interpreter.Engine.Execute", func() {
			xopts := append([]interpreter.ExecutionOptionFunc{interpreter.WithTx(raw, i, &bt.Output{Satoshis: cn.sats, LockingScript: bscript.NewFromBytes(append([]byte{}, cn.script...))})},
				flagOptions(uint32(scriptflag.EnableSighashForkID|scriptflag.UTXOAfterGenesis), i+len(final.Inputs))...)
			xerr = theEngine(c).Execute(xopts...)
		}) && xerr != nil {
			good = false
			who := "buyer"
			if i == ordIdx {
				who = "seller"
			}
			c.Violationf("C20:input-rejected:"+f.Flow+":"+who, "completed %s tx: input %d (%s's) is rejected by the interpreter: %v; tx=%x", f.Flow, i, who, xerr, final.Bytes())
		} else {
			c.Count("C20:inputs-verified")
		}
	}
	for _, o := range final.Outputs {
		outSum.Add(outSum, new(big.Int).SetUint64(o.Satoshis))
	}
	// (2) listing flows: the seller's output, unchanged, at the index of the seller's input
	if sellerOut != nil {
		if ordIdx != wantSellerIdx {
			good = false
			c.Violationf("C20:seller-input-index:"+f.Flow, "seller's ordinal input sits at index %d, expected %d", ordIdx, wantSellerIdx)
		} else if ordIdx >= len(final.Outputs) || final.Outputs[ordIdx].Satoshis != f.Price || !bytes.Equal(*final.Outputs[ordIdx].LockingScript, *sellerRecv) {
			good = false
			c.Violationf("C20:seller-output-changed:"+f.Flow, "the output at the seller's input index %d is not the seller's requested payment (%d sat to %x); tx=%x", ordIdx, f.Price, []byte(*sellerRecv), final.Bytes())
		}
	}
	deltaTag := ""
	if f.AcceptDelta != 0 {
		deltaTag = ":accept-amount-differs-from-offer"
	}
	// (3) first-in-first-out routing of the ordinal satoshi
	if ordIdx >= 0 {
		off := new(big.Int)
		for i := 0; i < ordIdx; i++ {
			off.Add(off, new(big.Int).SetUint64(coins[outKey(final.Inputs[i].PreviousTxID(), final.Inputs[i].PreviousTxOutIndex)].sats))
		}
		acc := new(big.Int)
		dest := -1
		for i, o := range final.Outputs {
			next := new(big.Int).Add(acc, new(big.Int).SetUint64(o.Satoshis))
			if off.Cmp(acc) >= 0 && off.Cmp(next) < 0 {
				dest = i
				break
			}
			acc = next
		}
		if dest < 0 {
			good = false
			c.Violationf("C20:ordinal-burned-as-fee:"+f.Flow+deltaTag, "the ordinal satoshi (offset %s) lies beyond the last output: it is paid as fee; tx=%x", off, final.Bytes())
		} else if !bytes.Equal(*final.Outputs[dest].LockingScript, *buyerRecv) {
			good = false
			c.Violationf("C20:ordinal-misrouted:"+f.Flow+deltaTag, "under first-in-first-out ordering the ordinal satoshi (offset %s) lands in output %d (script %x), not in the buyer's script; tx=%x", off, dest, []byte(*final.Outputs[dest].LockingScript), final.Bytes())
		} else {
			c.Count("C20:ordinal-routed-to-buyer")
		}
	} else {
		good = false
		c.Violationf("C20:ordinal-input-missing:"+f.Flow, "the completed tx does not spend the ordinal; tx=%x", final.Bytes())
	}
	// (4) pays at least the quoted fee on its actual size
	size := len(final.Bytes())
	// (in the bid flows the seller accepted against its own quote, which is never below the bidder's here)
	rate := f.Quote.Sat
	qtag := ""
	if (f.Flow == "bid" || f.Flow == "bid-2d") && f.SellerQuoteExtra > 0 {
		rate = sellerQ.Sat
		qtag = ":seller-validated-against-a-higher-quote"
		c.Count("flow:" + f.Flow + ":completed-under-a-higher-seller-quote")
	}
	req := new(big.Int).Div(new(big.Int).Mul(big.NewInt(int64(size)), big.NewInt(int64(rate))), big.NewInt(int64(f.Quote.Bytes)))
	paid := new(big.Int).Sub(inSum, outSum)
	if paid.Cmp(req) < 0 {
		good = false
		c.Violationf("C20:underpays-quoted-fee:"+f.Flow+qtag, "completed %s tx of %d bytes pays %s sat, the quote (%d sat / %d bytes) requires %s; funding=%v price=%d; tx=%x", f.Flow, size, paid, rate, f.Quote.Bytes, req, f.Funding, f.Price, final.Bytes())
	} else {
		c.Count("C20:fee-covered")
	}
	if good {
		c.Distinct(prng.HashBytes(final.Bytes()))
		c.Sample("flow:"+f.Flow, 1, func() any {
			return map[string]any{"flow": f, "tx": hex.EncodeToString(final.Bytes()), "fee_paid": paid.String(), "fee_required": req.String(), "inputs": len(final.Inputs), "outputs": len(final.Outputs)}
		})
	}
}

func c20JudgeInscr(c *mon.Ctx, in *c20Inscr) {
	c.Eval(1)
	k, _ := bec.PrivKeyFromBytes(bec.S256(), in.Key)
	prefix := p2pkhOf(k)
	if len(in.PrefixHash) == 20 {
		prefix = bscript.NewFromBytes(gen.P2PKH(in.PrefixHash))
	}
	want := append([]byte{}, *prefix...)
	tx := bt.NewTx()
	args := &bscript.InscriptionArgs{LockingScriptPrefix: bscript.NewFromBytes(append([]byte{}, *prefix...)), Data: append([]byte{}, in.Data...), ContentType: in.ContentType}
	if in.OpReturn {
		args.EnrichedArgs = &bscript.EnrichedInscriptionArgs{OpReturnData: [][]byte{[]byte("tail"), {1, 2}}}
		if len(in.TailLens) > 0 {
			args.EnrichedArgs.OpReturnData = nil
			for i, l := range in.TailLens {
				args.EnrichedArgs.OpReturnData = append(args.EnrichedArgs.OpReturnData, bytes.Repeat([]byte{byte(0x30 + i)}, l))
			}
		}
	}
	var err error
	if !c.Try("bt.(*Tx).Inscribe", func() { err = tx.Inscribe(args) }) {
		return
	}
	cl := fmt.Sprintf("ct%d:data%d", lenClass(len(in.ContentType)), lenClass(len(in.Data)))
	emptiness := func(n int) string {
		if n == 0 {
			return "empty"
		}
		return "non-empty"
	}
	if err != nil || len(tx.Outputs) != 1 {
		c.Count("inscribe:refused:" + cl)
		return
	}
	var got *bscript.InscriptionArgs
	if !c.Try("bscript.(*Script).ParseInscription", func() { got, err = tx.Outputs[0].LockingScript.ParseInscription() }) {
		return
	}
	if err != nil {
		c.Violationf("C20:inscription:parse-fails:ct-"+emptiness(len(in.ContentType))+":data-"+emptiness(len(in.Data)), "ParseInscription fails on the script Inscribe built (content type %d bytes, data %d bytes): %v", len(in.ContentType), len(in.Data), err)
		return
	}
	c.Count("inscribe:roundtrip:" + cl)
	if got.ContentType != in.ContentType {
		c.Violationf("C20:inscription:content-type-differs:"+emptiness(len(in.ContentType)), "inscribed content type %q (%d bytes), parsed back %q", in.ContentType, len(in.ContentType), got.ContentType)
	}
	if !bytes.Equal(got.Data, in.Data) {
		c.Violationf("C20:inscription:data-differs:"+emptiness(len(in.Data)), "inscribed %d data bytes, parsed back %d bytes (%x…)", len(in.Data), len(got.Data), got.Data[:min(len(got.Data), 16)])
	}
	if got.LockingScriptPrefix == nil || !bytes.Equal(*got.LockingScriptPrefix, want) {
		c.Violationf("C20:inscription:prefix-differs", "parsed prefix differs from the 25-byte P2PKH prefix that was inscribed")
	}
	if !bytes.Equal(*args.LockingScriptPrefix, want) {
		c.Violationf("C20:inscription:caller-prefix-modified", "Inscribe changed the caller's LockingScriptPrefix bytes")
	}
	// the prefix is an argument: it may be a sub-slice of a larger buffer of the caller's,
	// and the same prefix may be used for several inscriptions
	if len(in.Data) <= 4096 {
		room := 25 + 2*(len(in.Data)+len(in.ContentType)) + 400
		arena := bytes.Repeat([]byte{0xEE}, room)
		copy(arena, want)
		shared := bscript.Script(arena[:25])
		other := append([]byte("second:"), in.Data...)
		tx2 := bt.NewTx()
		var e1, e2 error
		if c.Try("bt.(*Tx).Inscribe", func() {
			e1 = tx2.Inscribe(&bscript.InscriptionArgs{LockingScriptPrefix: &shared, Data: append([]byte{}, in.Data...), ContentType: in.ContentType})
			e2 = tx2.Inscribe(&bscript.InscriptionArgs{LockingScriptPrefix: &shared, Data: other, ContentType: "x/" + in.ContentType})
		}) && e1 == nil && e2 == nil && len(tx2.Outputs) == 2 {
			c.Count("inscribe:two-inscriptions-from-one-prefix-inside-a-larger-buffer")
			for i := 25; i < len(arena); i++ {
				if arena[i] != 0xEE {
					c.Violationf("C20:inscription:argument-memory-modified", "Inscribe wrote into the caller's buffer behind the LockingScriptPrefix argument (offset %d of the buffer)", i)
					break
				}
			}
			var first *bscript.InscriptionArgs
			if c.Try("bscript.(*Script).ParseInscription", func() { first, err = tx2.Outputs[0].LockingScript.ParseInscription() }) {
				if err != nil || first == nil || first.ContentType != got.ContentType || !bytes.Equal(first.Data, got.Data) {
					c.Violationf("C20:inscription:earlier-output-changed-by-a-later-inscription", "after a second Inscribe with the same prefix the first output no longer parses to what was inscribed (err=%v)", err)
				}
			}
		}
	}
	// the same through InscribeSpecificOrdinal (two transactions, one prefix inside a larger buffer)
	if len(in.Data) <= 4096 {
		room := 25 + 2*(len(in.Data)+len(in.ContentType)) + 400
		arena := bytes.Repeat([]byte{0xEE}, room)
		copy(arena, want)
		shared := bscript.Script(arena[:25])
		mk := func() *bt.Tx {
			t := bt.NewTx()
			_ = t.From(strings.Repeat("ab", 32), 0, hex.EncodeToString(want), 10)
			return t
		}
		ta, tb := mk(), mk()
		extra := bscript.NewFromBytes(append([]byte{}, want...))
		var e1, e2 error
		if c.Try("bt.(*Tx).InscribeSpecificOrdinal", func() {
			e1 = ta.InscribeSpecificOrdinal(&bscript.InscriptionArgs{LockingScriptPrefix: &shared, Data: append([]byte{}, in.Data...), ContentType: in.ContentType}, 0, 5, extra)
			e2 = tb.InscribeSpecificOrdinal(&bscript.InscriptionArgs{LockingScriptPrefix: &shared, Data: append([]byte("second:"), in.Data...), ContentType: "x/" + in.ContentType}, 0, 5, extra)
		}) && e1 == nil && e2 == nil && len(ta.Outputs) == 2 && len(tb.Outputs) == 2 {
			c.Count("inscribe:specific-ordinal:two-inscriptions-from-one-prefix-inside-a-larger-buffer")
			for i := 25; i < len(arena); i++ {
				if arena[i] != 0xEE {
					c.Violationf("C20:inscription:argument-memory-modified", "InscribeSpecificOrdinal wrote into the caller's buffer behind the LockingScriptPrefix argument (offset %d of the buffer)", i)
					break
				}
			}
			var first *bscript.InscriptionArgs
			if c.Try("bscript.(*Script).ParseInscription", func() { first, err = ta.Outputs[1].LockingScript.ParseInscription() }) {
				if err != nil || first == nil || first.ContentType != got.ContentType || !bytes.Equal(first.Data, got.Data) {
					c.Violationf("C20:inscription:earlier-output-changed-by-a-later-inscription", "after InscribeSpecificOrdinal on another transaction with the same prefix the first inscription no longer parses to what was inscribed (err=%v)", err)
				}
			}
		}
	}
	c.Distinct(prng.HashBytes([]byte(in.ContentType), in.Data, in.Key))
	c.Sample("inscription", 1, func() any {
		return map[string]any{"content_type": in.ContentType, "data_len": len(in.Data), "script_len": len(*tx.Outputs[0].LockingScript)}
	})
}

func lenClass(n int) int {
	for _, c := range []int{0, 1, 75, 76, 255, 256, 65535, 65536} {
		if n == c {
			return c
		}
	}
	return -1
}

func init() {
	p := &mon.Property{
		ID: "C20",
		Rule: "Flows: listing and bid, standard and two-dummies variants, driven through the public ord API with PRNG keys for seller and buyer, prices {1, 2, 546, 10^3, 10^6, 10^9}, funding sets of 2-6 buyer UTXOs with the price-exceeding one at every position and totals on both sides of price + fee (computed from the quote so the threshold is hit), quotes {5/100, 1/1, 500/1000, 0/1, 3/7}, ordinal in a plain P2PKH or P2PKH-inscription output, change to P2PKH or to a non-standard script, seller paid to P2PKH or to a longer/shorter non-standard script; the listing is handed to the buyer re-parsed from wire bytes. Seller and buyer sign through unlocker.Simple or through the monitor's own bt.Unlocker (signs with exactly the flags it is handed); the Fee objects filed with AddQuote carry their own type, no type or the other type in their FeeType field. For every completed transaction: every input executed by the interpreter (FORKID, after Genesis) against the coin it spends, seller's output unchanged at the seller's input index (listing flows), first-in-first-out offset of the ordinal satoshi computed independently must fall into the buyer's script, inputs - outputs >= floor(size x rate). " +
			"Inscriptions: content types and payloads of {0,1,75,76,255,256,65535,65536} bytes (and random lengths) inscribed and parsed back. " +
			"distinct_nontrivial = distinct completed transactions on which every clause held, plus distinct inscription round trips.",
		Assum: []string{"coins are identified by outpoint from the monitor's own records, never from what the returned transaction carries", "a flow that returns an error is 'not completed' and is not judged"},
	}
	flow := mon.Kind(p, "flow", c20JudgeFlow)
	inscr := mon.Kind(p, "inscription", c20JudgeInscr)
	p.Run = func(c *mon.Ctx) {
		prices := []uint64{1, 2, 546, 1000, 1_000_000, 1_000_000_000}
		quotes := []c20Quote{{Sat: 5, Bytes: 100}, {Sat: 1, Bytes: 1}, {Sat: 500, Bytes: 1000}, {Sat: 0, Bytes: 1}, {Sat: 3, Bytes: 7}}
		flows := []string{"listing", "listing-2d", "bid", "bid-2d"}
		c.Phase("flows")
		N := uint64(6000)
		if c.Thorough {
			N = 150000
		}
		for i := uint64(0); i < N; i++ {
			if !c.Case(i) {
				continue
			}
			r := c.Rand(i)
			f := &c20Flow{Flow: flows[i%4], SellerKey: r.Bytes(32), BuyerKey: r.Bytes(32), Price: prices[(i/4)%uint64(len(prices))], OrdTxID: r.Bytes(32), OrdVout: uint32(r.Intn(4)),
				OrdInscr: r.Chance(1, 2), FundTxIDs: r.Bytes(8), Quote: quotes[(i/24)%uint64(len(quotes))], ChangeLen: 25}
			f.SellerKey[0] &= 0x7f
			f.BuyerKey[0] &= 0x7f
			if r.Chance(1, 5) {
				f.ChangeLen = prng.Pick(r, []int{1, 26, 200})
			}
			f.BuyerInscr = r.Chance(1, 6)
			if r.Chance(1, 4) {
				f.SellerLen = prng.Pick(r, []int{1, 26, 35, 71, 105, 300})
			}
			f.FundShare = prng.Pick(r, []int{0, 0, 0, 1, 2, 3})
			f.Wallet = prng.Pick(r, []int{0, 0, 1, 2, 3, 3})
			f.OneScriptObject = f.ChangeLen == 25 && i%5 == 3
			f.AcceptTwice = i%7 == 2 || i%7 == 5
			f.BuyerKeys = prng.Pick(r, []int{0, 0, 2, 3})
			if i%11 == 7 {
				f.CtxDone = 1 + int(i/11)%2
			}
			if (f.Flow == "bid" || f.Flow == "bid-2d") && i%3 == 1 {
				// a little more than the bidder's rate: at least one satoshi more per Quote.Bytes, at most a tenth more
				f.SellerQuoteExtra = 1 + int(i/12)%(1+f.Quote.Sat/10)
			}
			if i%9 == 4 {
				f.ExpectOther = 1 + int(i/9)%3
			}
			if f.BuyerInscr && r.Chance(1, 3) {
				f.BuyerInscrLen = prng.Pick(r, []int{16385, 20000, 40000})
			}
			if (f.Flow == "bid" || f.Flow == "bid-2d") && r.Chance(1, 4) && f.Price > 2 {
				f.AcceptDelta = prng.Pick(r, []int64{-1, 1, 150, 300, 5000, 1000000})
			}
			f.Quote.Label = prng.Pick(r, []int{0, 0, 1, 2})
			f.Quote.DataMul = prng.Pick(r, []int{0, 0, 10, 3})
			f.Quote.Relay = prng.Pick(r, []int{0, 0, 1, 2, 3})
			f.OrdWide = f.OrdInscr && r.Chance(1, 4)
			if f.OrdInscr && r.Chance(1, 5) { // inscriptions around and beyond the pre-Genesis script size limit
				f.OrdDataLen = prng.Pick(r, []int{600, 9000, 9990, 12000, 70000})
			}
			if f.Flow == "bid-2d" && r.Chance(1, 3) {
				for k := 1 + r.Intn(2); k > 0; k-- {
					f.ExtraUTXOs = append(f.ExtraUTXOs, uint64(500+r.Intn(5000)))
				}
			}
			if f.OrdInscr && r.Chance(1, 2) { // enriched inscription: OP_RETURN metadata of one or more items, one-byte items included
				f.OrdTail = prng.Pick(r, [][]mon.Hex{{{0x31}}, {{0x31, 0x32}}, {{0x00}}, {{0x31}, {0x32}}, {[]byte("app"), []byte("type"), []byte("ord")}, {r.Bytes(80)}, {{0x81}}})
			}
			n := 2 + r.Intn(5)
			twoD := f.Flow == "listing-2d" || f.Flow == "bid-2d"
			if twoD && n < 3 {
				n = 3
			}
			// approximate size of the final tx, to place totals on both sides of price + fee
			approx := uint64(10+(n+1)*148+4*34) * uint64(f.Quote.Sat) / uint64(f.Quote.Bytes)
			slack := prng.Pick(r, []int64{-1000, -20, -5, -1, 0, 1, 2, 5, 20, 150, 1000, 100000})
			target := int64(f.Price) + int64(approx) + slack
			if target < 2 {
				target = 2
			}
			vals := make([]uint64, n)
			pos := r.Intn(n)
			if twoD {
				vals[0], vals[1] = uint64(1+r.Intn(3)), uint64(1+r.Intn(3))
				rest := target
				for j := 2; j < n; j++ {
					v := rest / int64(n-j)
					if j < n-1 && v > 1 {
						v = 1 + int64(r.Intn(int(min64(v, 1<<30))))
					}
					if v < 1 {
						v = 1
					}
					vals[j] = uint64(v)
					rest -= v
				}
			} else {
				// one UTXO exceeds the price, placed at position pos; the others are small
				big := int64(f.Price) + 1 + int64(r.Intn(50))
				rest := target - big
				for j := 0; j < n; j++ {
					if j == pos {
						vals[j] = uint64(big)
						continue
					}
					v := rest / int64(n-1)
					if v < 1 {
						v = 1
					}
					vals[j] = uint64(v)
				}
				if r.Chance(1, 10) { // no UTXO exceeds the price
					vals[pos] = f.Price
				}
			}
			f.Funding = vals
			flow(c, f)
		}
		c.Phase("inscriptions")
		classes := []int{0, 1, 75, 76, 255, 256, 65535, 65536}
		n := uint64(0)
		for _, ct := range classes {
			for _, dl := range classes {
				for _, tail := range []bool{false, true} {
					n++
					if !c.Case(n) {
						continue
					}
					r := c.Rand(n)
					ctb := r.Bytes(ct)
					for i := range ctb {
						ctb[i] = 'a' + ctb[i]%26
					}
					k := r.Bytes(32)
					k[0] &= 0x7f
					inscr(c, &c20Inscr{ContentType: string(ctb), Data: r.Bytes(dl), Key: k, OpReturn: tail})
				}
			}
		}
		c.Phase("inscriptions-tail-items") // enriched inscriptions whose OP_RETURN items sit on the push-form boundaries, the last one included
		n = 0
		for _, last := range []int{1, 75, 76, 255, 256, 65535, 65536, 70000} {
			for _, first := range []int{0, 1, 76, 65536} {
				n++
				if !c.Case(n) {
					continue
				}
				r := c.Rand(n)
				k := r.Bytes(32)
				k[0] &= 0x7f
				lens := []int{last}
				if first > 0 {
					lens = []int{first, last}
				}
				inscr(c, &c20Inscr{ContentType: "text/plain", Data: r.Bytes(1 + r.Intn(40)), Key: k, OpReturn: true, TailLens: lens})
			}
		}
		c.Phase("inscriptions-prefix-hash-holds-envelope-bytes") // the 20-byte hash of the prefix contains OP_FALSE OP_IF <"ord"> at every offset
		n = 0
		for off := 0; off+6 <= 20; off++ {
			for _, tail := range []bool{false, true} {
				n++
				if !c.Case(n) {
					continue
				}
				r := c.Rand(n)
				k := r.Bytes(32)
				k[0] &= 0x7f
				h := r.Bytes(20)
				copy(h[off:], []byte{0x00, 0x63, 0x03, 'o', 'r', 'd'})
				inscr(c, &c20Inscr{ContentType: "text/plain", Data: r.Bytes(1 + r.Intn(60)), Key: k, OpReturn: tail, PrefixHash: h})
			}
		}
		c.Phase("inscriptions-random")
		N = 2000
		if c.Thorough {
			N = 100000
		}
		for i := uint64(0); i < N; i++ {
			if !c.Case(i) {
				continue
			}
			r := c.Rand(i)
			ctb := r.Bytes(r.Intn(40))
			k := r.Bytes(32)
			k[0] &= 0x7f
			inscr(c, &c20Inscr{ContentType: string(ctb), Data: r.Bytes(r.Intn(600)), Key: k, OpReturn: r.Chance(1, 4)})
		}
	}
	p.Floor = func(a *mon.Agg) string {
		for _, f := range []string{"listing", "listing-2d", "bid", "bid-2d"} {
			if a.Cov["flow:"+f+":completed"] == 0 || a.Cov["flow:"+f+":refused"] == 0 {
				return "flow " + f + " was not observed both completed and refused"
			}
		}
		if a.Cov["C20:inputs-verified"] < 1000 {
			return "fewer than 1000 inputs verified by the interpreter"
		}
		return ""
	}
	mon.Register(p)
}

func min64(a, b int64) int64 {
	if a < b {
		return a
	}
	return b
}

// c20NoOutpointTwice: a transaction that spends one outpoint in two of its inputs is invalid on every node,
// whatever its scripts say.
func c20NoOutpointTwice(c *mon.Ctx, what string, tx *bt.Tx) bool {
	seen := map[string]int{}
	for i, in := range tx.Inputs {
		k := outKey(in.PreviousTxID(), in.PreviousTxOutIndex)
		if j, dup := seen[k]; dup {
			c.Violationf("C20:outpoint-spent-twice:"+what, "the flow returned a transaction whose inputs %d and %d spend the same outpoint %x:%d; tx=%x", j, i, in.PreviousTxID(), in.PreviousTxOutIndex, tx.Bytes())
			return false
		}
		seen[k] = i
	}
	c.Count("C20:inputs-pairwise-distinct")
	return true
}
